(* RtpRoundTripXtn.v — C01 (SRTP), RFC 6904 class: srtp_unprotect applied to what srtp_protect
   puts on the wire (rtp_wire of RtpSpec.v) returns exactly the RTP packet, in place and out of
   place, for streams WITHOUT cryptex and with an ARBITRARY header-extension cipher
   (k_xtn_c k = Some xk or None).  The statement is that of srtp_round_trip (RtpRoundTrip.v)
   with the hypothesis k_xtn_c k = None removed.

   Why it holds: the wire header is the packet header after xtn_apply, which only changes
   extension element octets (xtn_apply_outside), so every header-derived quantity (CC, X,
   sequence number, SSRC, header length, extension length) is the same on the wire; the tag is
   computed over the transformed body; after authentication process_xtn runs on the destination
   block with the same header-extension cipher state (same key, same IV), and
   xtn_apply_involutive gives the original elements back; the payload decrypts as in the plain
   class. *)
From Coq Require Import NArith ZArith List Bool Lia.
From Srtp Require Import XtnProofs.
From Srtp Require Import Util Constants KeyLimit Rdb Rdbx Icm World Stream Rtp
     MonadLemmas EnvelopeProofs WfProofs BoundsRtcp BoundsRtp LengthProofs RtcpSpec RtpSpec RtpSpecProofs
     RtpRoundTrip RtpXtnApply.
Import ListNotations.
Local Open Scope Z_scope.

(* ===================================================================== *)
(* 1. pure facts: what RFC 6904 leaves alone                              *)
(* ===================================================================== *)
Lemma xtn_len_be16 p : hdr_len p + 4 + be16 p (zn (hdr_len p + 2)) * 4 = hdr_len p + xtn_len p.
Proof. unfold xtn_len. lia. Qed.

Lemma take_prefix_le {A} (a b : list A) n m : take n a = take n b -> (m <= n)%nat -> take m a = take m b.
Proof.
  intros E H. replace m with (Nat.min m n) by lia. rewrite <- !take_take, E. reflexivity.
Qed.

(* the transformed packet p1 of a valid packet: same length, same octets outside the
   extension elements, hence the same header fields and a valid header *)
Lemma wire_xtn_inv ids xk iv pkt p1 :
  validate_rtp pkt (lenZ pkt) = st_ok -> wire_xtn ids xk iv pkt = Some p1 ->
  length p1 = length pkt /\
  take (zn (hdr_len pkt + 4)) p1 = take (zn (hdr_len pkt + 4)) pkt /\
  drop (zn (enc0 pkt)) p1 = drop (zn (enc0 pkt)) pkt /\
  (hdr_x pkt <> 1 -> p1 = pkt).
Proof.
  intros EV H. unfold wire_xtn in H.
  assert (Triv : Some pkt = Some p1 ->
     length p1 = length pkt /\ take (zn (hdr_len pkt + 4)) p1 = take (zn (hdr_len pkt + 4)) pkt /\
     drop (zn (enc0 pkt)) p1 = drop (zn (enc0 pkt)) pkt /\ (hdr_x pkt <> 1 -> p1 = pkt)).
  { intros E. injection E as <-. auto. }
  destruct xk as [xk|]; [|exact (Triv H)].
  destruct (hdr_x pkt =? 1) eqn:EX; [|exact (Triv H)]. apply Z.eqb_eq in EX.
  pose proof (hdr_len_eq pkt) as HLE. pose proof (hdr_cc_range pkt) as CC.
  assert (Hoff : 0 <= hdr_len pkt) by lia.
  split; [exact (xtn_apply_length _ _ _ _ _ H)|].
  destruct (xtn_apply_outside _ _ _ Hoff _ _ H) as [O1 O2].
  split; [exact O1|]. split; [|intros N; contradiction].
  rewrite xtn_len_be16 in O2. rewrite (enc0_eq pkt EX). exact O2.
Qed.

Lemma wire_xtn_hdr ids xk iv pkt p1 :
  validate_rtp pkt (lenZ pkt) = st_ok -> wire_xtn ids xk iv pkt = Some p1 ->
  hdr_cc p1 = hdr_cc pkt /\ hdr_x p1 = hdr_x pkt /\ hdr_seq p1 = hdr_seq pkt /\ hdr_ssrc p1 = hdr_ssrc pkt /\
  hdr_len p1 = hdr_len pkt /\ enc0 p1 = enc0 pkt /\ validate_rtp p1 (lenZ p1) = st_ok.
Proof.
  intros EV H. destruct (wire_xtn_inv _ _ _ _ _ EV H) as (LN & T & D & NX).
  pose proof (hdr_len_eq pkt) as HLE. pose proof (hdr_cc_range pkt) as CC.
  destruct (hdr_prefix p1 pkt (zn (hdr_len pkt + 4)) T ltac:(unfold zn; lia) ltac:(unfold zn; lia))
    as (H1 & H2 & H3 & H4 & H5 & H6).
  repeat (split; [assumption|]).
  replace (lenZ p1) with (lenZ pkt) by (unfold lenZ; rewrite LN; reflexivity).
  apply (validate_rtp_longer p1 pkt _ _ EV); [lia|exact H1|exact H2|exact H6].
Qed.

(* undoing the transformation on the header part [0, enc0) of the packet *)
Lemma wire_xtn_undo ids xk iv pkt p1 :
  validate_rtp pkt (lenZ pkt) = st_ok -> wire_xtn ids (Some xk) iv pkt = Some p1 -> hdr_x pkt = 1 ->
  xtn_apply ids (cipher_start xk iv) (hdr_len pkt) (take (zn (enc0 pkt)) p1) = Some (take (zn (enc0 pkt)) pkt).
Proof.
  intros EV H EX. pose proof (wire_xtn_inv _ _ _ _ _ EV H) as (LN & T & D & _).
  unfold wire_xtn in H. replace (hdr_x pkt =? 1) with true in H by (symmetry; apply Z.eqb_eq; exact EX).
  pose proof (hdr_len_eq pkt) as HLE. pose proof (hdr_cc_range pkt) as CC.
  assert (Hoff : 0 <= hdr_len pkt) by lia.
  pose proof (enc0_bounds _ _ EV) as EB. pose proof (xtn_len_ge pkt) as XG. pose proof (enc0_eq pkt EX) as EE.
  assert (INV : xtn_apply ids (cipher_start xk iv) (hdr_len pkt) p1 = Some pkt).
  { apply xtn_apply_involutive; [exact Hoff| |exact H]. rewrite xtn_len_be16. lia. }
  set (es := enc0 pkt) in *.
  assert (B16 : be16 (take (zn es) p1) (zn (hdr_len pkt + 2)) = be16 pkt (zn (hdr_len pkt + 2))).
  { rewrite be16_take by (unfold zn; lia).
    apply (be16_prefix p1 pkt (zn (hdr_len pkt + 4)) _ T). unfold zn. lia. }
  rewrite <- (take_drop_id (zn es) p1) in INV.
  rewrite xtn_apply_app in INV.
  2:{ exact Hoff. }
  2:{ rewrite B16, xtn_len_be16. unfold lenZ. rewrite take_length. unfold lenZ, zn in *. lia. }
  destruct (xtn_apply ids (cipher_start xk iv) (hdr_len pkt) (take (zn es) p1)) as [A'|] eqn:EA; [|discriminate INV].
  cbn [option_map] in INV. injection INV as INV. f_equal.
  pose proof (xtn_apply_length _ _ _ _ _ EA) as LA. rewrite take_length in LA.
  rewrite <- INV. symmetry. apply take_app_n. unfold lenZ, zn in *. lia.
Qed.

(* ---- what a wire image of a stream without cryptex consists of ---- *)
Lemma rtp_wire_xtn_inv st k est pkt wire :
  s_cryptex st = false -> rtp_wire st k est pkt = Some wire ->
  validate_rtp pkt (lenZ pkt) = st_ok /\
  exists cs1 pre p1 body,
    wire_prefix (rtp_auth st) (k_rtp_a k)
      (cipher_start (k_rtp_c k) (rtp_iv (ck_alg (k_rtp_c k)) (hdr_ssrc pkt) est)) = Some (cs1, pre) /\
    wire_xtn (s_enc_xtn st) (k_xtn_c k) (rtp_iv (ck_alg (k_rtp_c k)) (hdr_ssrc pkt) est) pkt = Some p1 /\
    pay_body (rtp_conf st) cs1 (enc0 p1) p1 = inl body /\
    wire = body ++ (if s_use_mki st then k_mki k else []) ++ wire_tag (k_rtp_a k) (rtp_auth st) pre body est.
Proof.
  intros CX H. unfold rtp_wire, rtp_wire_r in H. rewrite CX in H.
  destruct (validate_rtp pkt (lenZ pkt) =? st_ok) eqn:EV; cbn [negb andb] in H; [|discriminate].
  apply Z.eqb_eq in EV. split; [exact EV|].
  destruct (wire_prefix _ _ _) as [[cs1 pre]|]; [|discriminate].
  destruct (wire_xtn _ _ _ _) as [p1|] eqn:EX; [|discriminate].
  rewrite (wire_crypt_plain st cs1 p1 CX) in H.
  destruct (pay_body (rtp_conf st) cs1 (enc0 p1) p1) as [body|e] eqn:EB; [|discriminate].
  injection H as <-. exists cs1, pre, p1, body. auto.
Qed.

(* ===================================================================== *)
(* 2. two steps of srtp_unprotect on the destination block                 *)
(* ===================================================================== *)
Section STEPS.
Variables (L C : Z) (al : bool) (src d0 : bytes).
Hypothesis HD : C <= lenZ d0.
Notation S := (St L C al src d0).

(* srtp_process_header_encryption computes xtn_apply on the packet region *)
Lemma process_xtn_tri ss st pk xcs P P' :
  0 <= hdr_len pk ->
  xtn_apply (s_enc_xtn st) xcs (hdr_len pk) P = Some P' ->
  hdr_len pk + 4 + be16 P (zn (hdr_len pk + 2)) * 4 <= lenZ P ->
  lenZ P <= lenZ d0 -> hdr_len pk + 4 + be16 P (zn (hdr_len pk + 2)) * 4 <= C ->
  tri (S ss (facts_ok [(0, P)])) (process_xtn st pk xcs) (fun _ => S ss (facts_ok [(0, P')])) (fun _ _ => False).
Proof.
  intros Hoff HX HB HLd HCx. pose proof (be16_nonneg P (zn (hdr_len pk + 2))) as NN.
  unfold process_xtn. set (off := hdr_len pk) in *.
  eapply t_bind; [apply t_rd_dst; lia|intros h]. apply t_pure; intros (dd & Hf & _ & ->).
  rewrite (fact0_read dd P _ _ (Forall_inv Hf)) by (unfold lenZ, zn in *; lia).
  change (zn 4) with 4%nat. rewrite be16_slice4_0, be16_slice4.
  replace (zn off + 2)%nat with (zn (off + 2)) by (unfold zn; lia).
  unfold xtn_apply in HX.
  destruct (negb (be16 P (zn off) =? xtn_hdr_one_byte_profile_c) &&
            negb (Z.land (be16 P (zn off)) 65520 =? xtn_hdr_two_byte_profile_c)); [discriminate HX|].
  set (n := be16 P (zn (off + 2)) * 4) in *.
  eapply t_bind; [apply t_rd_dst; lia|intros d]. apply t_pure; intros (dd2 & Hf2 & _ & ->).
  rewrite (fact0_read dd2 P _ _ (Forall_inv Hf2)) by (unfold lenZ, zn in *; lia).
  set (d := slice (zn (off + 4)) (zn n) P) in *.
  destruct (if be16 P (zn off) =? xtn_hdr_one_byte_profile_c
            then xtn_one (Datatypes.S (length d)) (s_enc_xtn st) xcs d 0
            else xtn_two (Datatypes.S (length d)) (s_enc_xtn st) xcs d 0) as [d'|] eqn:EW; [|discriminate HX].
  injection HX as <-.
  assert (LD : length d' = length d).
  { destruct (be16 P (zn off) =? xtn_hdr_one_byte_profile_c);
      [exact (xtn_one_length _ _ _ _ _ _ EW)|exact (xtn_two_length _ _ _ _ _ _ EW)]. }
  assert (LD0 : length d = zn n) by (subst d; rewrite slice_length; unfold lenZ, zn in *; lia).
  apply t_wr_in2; [lia| | |constructor]; unfold lenZ in *; rewrite LD, LD0; unfold zn; lia.
Qed.

(* the payload run [a, a+n): ciphertext ct in the input, plaintext pt into the output.
   In place the packet region holds Hd ++ ct ++ R, out of place it holds Hd only. *)
Lemma dec_gen ss (conf : bool) cs a n (Hd ct R pt : bytes) :
  lenZ Hd = a -> lenZ ct = n -> lenZ pt = n -> a + n <= L -> a + n <= C ->
  (if conf then exists cs', cipher_encrypt cs ct = (st_ok, cs', pt) else ct = pt) ->
  (al = false -> slice (zn a) (zn n) src = ct) ->
  tri (S ss (facts_ok [(0, if al then Hd ++ ct ++ R else Hd)]))
      (if conf then
         d <- rd_src a n ;;
         (let '(s, _, o') := cipher_encrypt cs d in
          if negb (s =? st_ok) then exit_with st_cipher_fail else wr_dst a o')
       else if al then ret tt
       else (d <- rd_src a n ;; wr_dst a d))
      (fun _ => S ss (facts_ok [(0, Hd ++ pt)])) (fun _ _ => False).
Proof.
  intros LH LC LP HL HC Dec Hsrc.
  pose proof (lenZ_nonneg Hd) as N1. pose proof (lenZ_nonneg ct) as N2.
  assert (RD : tri (S ss (facts_ok [(0, if al then Hd ++ ct ++ R else Hd)])) (rd_src a n)
                   (fun d w => d = ct /\ S ss (facts_ok [(0, if al then Hd ++ ct ++ R else Hd)]) w) (fun _ _ => False)).
  { eapply t_post; [apply t_rd_src; lia|]. intros d w [(dd & Hf & _ & ->) Hw]. split; [|exact Hw].
    destruct al.
    - rewrite (fact0_read dd _ _ _ (Forall_inv Hf)) by (rewrite !app_length; unfold lenZ, zn in *; lia).
      replace (zn a) with (length Hd + 0)%nat by (unfold lenZ, zn in *; lia).
      rewrite slice_app_r, slice_0. apply take_app_n. unfold lenZ, zn in *. lia.
    - exact (Hsrc eq_refl). }
  assert (WR : tri (S ss (facts_ok [(0, if al then Hd ++ ct ++ R else Hd)])) (wr_dst a pt)
                   (fun _ => S ss (facts_ok [(0, Hd ++ pt)])) (fun _ _ => False)).
  { destruct al.
    - eapply t_post; [apply t_wr_in2; [lia|rewrite !lenZ_app; pose proof (lenZ_nonneg R); lia|lia|constructor]|].
      intros ? w Hw. eapply St_weaken; [|exact Hw]. intros dd _ Hf. pose proof (Forall_inv Hf) as F0.
      constructor; [|constructor].
      assert (E : take (zn (a + n)) (splice (zn a) pt (Hd ++ ct ++ R)) = Hd ++ pt).
      { replace (zn a) with (length Hd + 0)%nat by (unfold lenZ, zn in *; lia).
        rewrite splice_app_len, splice_0 by (rewrite app_length; unfold lenZ in *; lia).
        rewrite (app_assoc Hd pt). apply take_app_n. rewrite app_length. unfold lenZ, zn in *. lia. }
      rewrite <- E. apply fact0_prefix; [exact F0|]. rewrite splice_length, !app_length. unfold lenZ, zn in *. lia.
    - replace (wr_dst a pt) with (wr_dst (lenZ Hd) pt) by (rewrite LH; reflexivity).
      apply t_wr_append; [exact HD|lia|constructor]. }
  destruct conf.
  - eapply t_bind; [exact RD|intros d]. apply t_pure; intros ->.
    destruct Dec as [cs' ED]. rewrite ED. change (st_ok =? st_ok) with true. cbn [negb]. exact WR.
  - subst pt. destruct al eqn:EA.
    + apply t_ret. intros w Hw. eapply St_weaken; [|exact Hw]. intros dd _ Hf. pose proof (Forall_inv Hf) as F0.
      constructor; [|constructor].
      replace (Hd ++ ct) with (take (length (Hd ++ ct)) (Hd ++ ct ++ R)) by (rewrite app_assoc; apply take_app_exact).
      apply fact0_prefix; [exact F0|]. rewrite !app_length. lia.
    + eapply t_bind; [exact RD|intros d]. apply t_pure; intros ->. exact WR.
Qed.
End STEPS.

(* ===================================================================== *)
(* 3. srtp_unprotect on a wire image (no cryptex, any header-extension key) *)
(* ===================================================================== *)
Section RTX.
Variables (L C : Z) (al : bool) (src d0 : bytes).
Variables (rt : stream) (ki : Z) (k : skeys) (est delta : Z) (pkt p1 wire : bytes).
Variables (cs1 : cstate) (pre body o : bytes).
Hypothesis HL : 0 <= L < 9223372036854775808.
Hypothesis HC : 0 <= C < 9223372036854775808.
Hypothesis HD : C <= lenZ d0.
Hypothesis Hwire : take (zn L) (if al then d0 else src) = wire.
Hypothesis HLw : lenZ wire = L.

Let Lp := lenZ pkt.
Let es := enc0 pkt.
Let iv := rtp_iv (ck_alg (k_rtp_c k)) (hdr_ssrc pkt) est.
Let mki := if s_use_mki rt then k_mki k else [].
Let tag := wire_tag (k_rtp_a k) (rtp_auth rt) pre body est.
Let msz := s_mki_size rt.
Let tl := ak_tag (k_rtp_a k).

(* the receiver's stream *)
Hypothesis Wrt : stream_wf rt.
Hypothesis RCX : s_cryptex rt = false.
Hypothesis Hk : In k (s_keys rt).
Hypothesis Hsel : key_selected rt ki k.
Hypothesis Hidx : est_index rt (hdr_seq pkt) = (st_ok, est, delta).
Hypothesis Hchk : rdbx_check (s_rdbx rt) delta = st_ok.
(* the wire image: p1 = the packet after RFC 6904 *)
Hypothesis EV : validate_rtp pkt Lp = st_ok.
Hypothesis EX : wire_xtn (s_enc_xtn rt) (k_xtn_c k) iv pkt = Some p1.
Hypothesis EP : wire_prefix (rtp_auth rt) (k_rtp_a k) (cipher_start (k_rtp_c k) iv) = Some (cs1, pre).
Hypothesis EBo : body = take (zn es) p1 ++ o.
Hypothesis Lo : length o = length (drop (zn es) pkt).
Hypothesis Dec : if rtp_conf rt then exists cs', cipher_encrypt cs1 o = (st_ok, cs', drop (zn es) pkt)
                 else o = drop (zn es) pkt.
Hypothesis Ewire : wire = body ++ mki ++ tag.
Hypothesis HCp : Lp <= C.

Notation S := (St L C al src d0).

Lemma p1_facts :
  hdr_cc p1 = hdr_cc pkt /\ hdr_x p1 = hdr_x pkt /\ hdr_seq p1 = hdr_seq pkt /\ hdr_ssrc p1 = hdr_ssrc pkt /\
  hdr_len p1 = hdr_len pkt /\ enc0 p1 = es /\ validate_rtp p1 (lenZ p1) = st_ok /\
  lenZ p1 = Lp /\ drop (zn es) p1 = drop (zn es) pkt.
Proof.
  destruct (wire_xtn_hdr _ _ _ _ _ EV EX) as (H1 & H2 & H3 & H4 & H5 & H6 & H7).
  destruct (wire_xtn_inv _ _ _ _ _ EV EX) as (LN & _ & D & _).
  repeat (split; [assumption|]). split; [unfold Lp, lenZ; rewrite LN; reflexivity|exact D].
Qed.

(* the facts of RtpRoundTrip.v about the wire image, read with p1 as the packet *)
Lemma x_len_facts :
  lenZ (take (zn es) p1) = es /\ lenZ o = Lp - es /\ lenZ body = Lp /\ lenZ mki = msz /\ lenZ tag = tl /\
  L = Lp + msz + tl /\ 0 <= tl <= 16 /\ 0 <= ak_prefix (k_rtp_a k) <= tl.
Proof.
  destruct p1_facts as (_ & _ & _ & F4 & _ & F6 & F7 & F8 & F9).
  pose proof (len_facts L src rt k est p1 wire cs1 pre body o HLw Wrt Hk F7) as LF.
  rewrite F4, F6, F8, F9 in LF. exact (LF EP EBo Lo Ewire).
Qed.

Lemma x_wire_slices :
  take (zn es) wire = take (zn es) p1 /\ slice (zn 0) (zn Lp) wire = body /\
  slice (zn Lp) (zn msz) wire = mki /\ slice (zn (L - tl)) (zn tl) wire = tag /\
  slice (zn es) (zn (Lp - es)) wire = o.
Proof.
  destruct p1_facts as (_ & _ & _ & F4 & _ & F6 & F7 & F8 & F9).
  pose proof (wire_slices L src rt k est p1 wire cs1 pre body o HLw Wrt Hk F7) as LF.
  rewrite F4, F6, F8, F9 in LF. exact (LF EP EBo Lo Ewire).
Qed.

Lemma x_wire_hdr :
  hdr_cc wire = hdr_cc pkt /\ hdr_x wire = hdr_x pkt /\ hdr_seq wire = hdr_seq pkt /\
  hdr_ssrc wire = hdr_ssrc pkt /\ hdr_len wire = hdr_len pkt /\ enc0 wire = es.
Proof.
  destruct p1_facts as (F1 & F2 & F3 & F4 & F5 & F6 & F7 & F8 & F9).
  pose proof (wire_hdr L src rt k est p1 wire cs1 pre body o HLw Wrt Hk F7) as LF.
  rewrite F1, F2, F3, F4, F5, F6, F9 in LF. exact (LF EP EBo Lo Dec Ewire).
Qed.

Variable ss0 ss1 : session.
Hypothesis Hget : list_get (ss_list ss0) (hdr_ssrc pkt) = Some rt.
Hypothesis Hcharge : charge_fun ss0 (hdr_ssrc pkt) rt ki = (ss1, inl tt).

Lemma x_pre_tri :
  tri (S ss0 (eq d0)) unprotect_pre
      (fun u w => u = u_expect ki k est delta pkt wire cs1 /\ S ss0 (facts_ok [(0, P0 al wire es)]) w)
      (fun _ _ => False).
Proof.
  destruct p1_facts as (F1 & F2 & F3 & F4 & F5 & F6 & F7 & F8 & F9).
  pose proof (pre_tri L C al src d0 rt ki k est delta p1 wire cs1 pre body o HC HD Hwire HLw Wrt RCX Hk Hsel) as T.
  assert (EU : u_expect ki k est delta p1 wire cs1 = u_expect ki k est delta pkt wire cs1).
  { unfold u_expect. rewrite F4, F6, F8. reflexivity. }
  rewrite F3, F4, F6, F8, F9, EU in T. rewrite F8 in F7.
  exact (T Hidx Hchk F7 EP EBo Lo Dec Ewire HCp ss0 ss1 Hget Hcharge).
Qed.

(* the packet region after the header copy: header part of p1, then (in place) the rest of the
   wire image *)
Let R := if al then o ++ mki ++ tag else [].
Lemma x_P0 : P0 al wire es = take (zn es) p1 ++ R.
Proof.
  destruct x_len_facts as (L1 & _). destruct x_wire_slices as (W1 & _).
  unfold P0, R. destruct al.
  - rewrite Ewire, EBo, <- app_assoc. reflexivity.
  - rewrite W1, app_nil_r. reflexivity.
Qed.

Lemma L_le_d0 : (if al then L else 0) <= lenZ d0.
Proof.
  destruct al; [|apply lenZ_nonneg]. rewrite <- HLw, <- Hwire. unfold lenZ. rewrite take_length. lia.
Qed.

(* RFC 6904 undone on the destination block *)
Lemma unx_tri ss st :
  s_enc_xtn st = s_enc_xtn rt ->
  tri (S ss (facts_ok [(0, P0 al wire es)]))
      (match k_xtn_c k with
       | Some xk => if hdr_x wire =? 1 then process_xtn st wire (cipher_start xk iv) else ret tt
       | None => ret tt
       end)
      (fun _ => S ss (facts_ok [(0, take (zn es) pkt ++ R)])) (fun _ _ => False).
Proof.
  intros EI. rewrite x_P0.
  destruct p1_facts as (F1 & F2 & F3 & F4 & F5 & F6 & F7 & F8 & F9).
  destruct x_wire_hdr as (_ & H2 & _ & _ & H5 & _).
  destruct (wire_xtn_inv _ _ _ _ _ EV EX) as (LN & T & D & NX).
  destruct x_len_facts as (L1 & L2 & L3 & L4 & L5 & L6 & TG & PL).
  pose proof L_le_d0 as LD0.
  assert (Triv : p1 = pkt -> tri (S ss (facts_ok [(0, take (zn es) p1 ++ R)])) (ret tt)
                   (fun _ => S ss (facts_ok [(0, take (zn es) pkt ++ R)])) (fun _ _ => False)).
  { intros ->. apply t_ret. auto. }
  rewrite H2. destruct (k_xtn_c k) as [xk|] eqn:EK.
  2:{ apply Triv. cbn in EX. injection EX as <-. reflexivity. }
  destruct (hdr_x pkt =? 1) eqn:EX1.
  2:{ apply Triv. apply NX. intros N. rewrite N in EX1. discriminate. }
  apply Z.eqb_eq in EX1.
  pose proof (wire_xtn_undo _ _ _ _ _ EV EX EX1) as UN. fold es in UN.
  pose proof (hdr_len_eq pkt) as HLE. pose proof (hdr_cc_range pkt) as CC.
  pose proof (enc0_bounds _ _ EV) as EB. pose proof (xtn_len_ge pkt) as XG. pose proof (enc0_eq pkt EX1) as EE.
  fold es in EB, EE. fold Lp in EB.
  assert (Hoff : 0 <= hdr_len pkt) by lia.
  assert (B16 : be16 (take (zn es) p1) (zn (hdr_len pkt + 2)) = be16 pkt (zn (hdr_len pkt + 2))).
  { rewrite be16_take by (unfold zn; lia).
    apply (be16_prefix p1 pkt (zn (hdr_len pkt + 4)) _ T). unfold zn. lia. }
  assert (BP : be16 (take (zn es) p1 ++ R) (zn (hdr_len pkt + 2)) = be16 pkt (zn (hdr_len pkt + 2))).
  { rewrite be16_app_l by (unfold lenZ, zn in *; lia). exact B16. }
  assert (LR : lenZ R = if al then L - es else 0).
  { unfold R. destruct al; [|reflexivity]. rewrite !lenZ_app. lia. }
  assert (HM : 0 <= msz) by (unfold msz; pose proof (lenZ_nonneg mki); lia).
  apply process_xtn_tri; rewrite ?H5.
  - exact HD.
  - exact Hoff.
  - rewrite EI. rewrite xtn_apply_app; [rewrite UN; reflexivity|exact Hoff|].
    rewrite B16, xtn_len_be16. lia.
  - rewrite BP, xtn_len_be16, lenZ_app. pose proof (lenZ_nonneg R). lia.
  - rewrite lenZ_app, LR. destruct al; lia.
  - rewrite BP, xtn_len_be16. lia.
Qed.

Lemma x_post_tri :
  tri (S ss0 (facts_ok [(0, P0 al wire es)])) (unprotect_post (u_expect ki k est delta pkt wire cs1))
      (fun l w => l = Lp /\ take (zn Lp) (b_dst (w_b w)) = pkt /\ b_oob (w_b w) = false /\ b_src (w_b w) = src)
      (fun _ _ => False).
Proof.
  pose proof (enc0_bounds _ _ EV) as EB. fold es Lp in EB.
  destruct x_len_facts as (L1 & L2 & L3 & L4 & L5 & L6 & TG & PL).
  destruct x_wire_slices as (W1 & W2 & W3 & W4 & W5).
  assert (HM : 0 <= msz) by (unfold msz; pose proof (lenZ_nonneg mki); lia).
  unfold unprotect_post.
  eapply t_bind; [apply t_get_b|intros b]. apply t_pure; intros (_ & _ & EAL).
  cbv beta zeta. rewrite EAL.
  unfold u_expect; cbn [u_pkt u_k u_ref u_enc_start u_enc_len u_inuse u_inplace u_ki u_cs u_iv u_ssrc u_adv u_est u_delta].
  eapply t_bind2; [eapply t_charge_key; exact Hget| |intros ?].
  { intros s w (ss' & EC & _). rewrite Hcharge in EC. discriminate. }
  apply t_ex; intros ss'. apply t_pure; intros EC. apply t_pure; intros Hg2.
  rewrite Hcharge in EC. injection EC as <-.
  eapply t_bind; [apply t_get_stream_list; exact Hg2|intros st]. apply t_pure; intros ->.
  eapply t_bind; [apply unx_tri; apply charged_xtn|intros ?].
  apply t_bind_ret.
  replace (negb (Z.land (s_rtp_serv (charged_stream rt ki)) sec_serv_conf_c =? 0)) with (rtp_conf rt)
    by (unfold rtp_conf; rewrite charged_serv; reflexivity).
  fold es. fold Lp.
  assert (LT : lenZ (take (zn es) pkt) = es) by (unfold Lp, lenZ, zn in *; rewrite take_length; lia).
  assert (LDr : lenZ (drop (zn es) pkt) = Lp - es) by (unfold Lp, lenZ, zn in *; rewrite drop_length; lia).
  eapply t_bind.
  { eapply t_pre; [|apply (dec_gen L C al src d0 HD ss1 (rtp_conf rt) cs1 es (Lp - es)
                            (take (zn es) pkt) o (mki ++ tag) (drop (zn es) pkt) LT L2 LDr ltac:(lia) ltac:(lia) Dec)].
    - intros w Hw. unfold R in Hw. destruct al; [exact Hw|rewrite app_nil_r in Hw; exact Hw].
    - intros EA. rewrite <- W5. rewrite <- Hwire, EA. symmetry. apply slice_take. unfold zn. lia. }
  intros ?. rewrite take_drop_id.
  apply t_bind_ret.
  eapply t_bind; [eapply t_check_direction; exact Hg2|intros ?].
  unfold materialize. apply t_bind_ret.
  eapply t_bind; [apply t_get_stream_list; apply dir_session_get; exact Hg2|intros st2]. apply t_pure; intros ->.
  eapply t_bind; [apply t_put_stream_list|intros ?].
  apply t_ret. intros w (h0 & h1 & h2 & h3 & h4 & h5 & h6 & h7).
  split; [rewrite u64_small by (unfold Lp in *; lia); lia|].
  split; [|auto].
  pose proof (fact_get _ _ 0 pkt h7 ltac:(left; reflexivity)) as F. change (zn 0) with O in F.
  rewrite slice_0 in F. unfold Lp. rewrite zn_len. exact F.
Qed.

Theorem x_unprotect_tri :
  tri (S ss0 (eq d0)) unprotect
      (fun l w => l = Lp /\ take (zn Lp) (b_dst (w_b w)) = pkt /\ b_oob (w_b w) = false /\ b_src (w_b w) = src)
      (fun _ _ => False).
Proof.
  unfold unprotect. eapply t_bind; [apply x_pre_tri|intros u]. apply t_pure; intros ->. apply x_post_tri.
Qed.
End RTX.

(* ===================================================================== *)
(* 4. C01 for SRTP, RFC 6904 class                                         *)
(* ===================================================================== *)
(* st, k, est: the sender's stream (after its direction update), key and packet index;
   w: the receiver's world, whose input block holds the wire image; rt: the receiver's
   stream for the packet's SSRC.  k_xtn_c k is arbitrary. *)
Theorem srtp_round_trip_xtn st k est pkt wire w rt ki delta ss1 :
  rtp_wire st k est pkt = Some wire ->
  call_ok w -> in_pkt w = wire -> lenZ pkt <= b_cap (w_b w) ->
  list_get (ss_list (w_s w)) (hdr_ssrc pkt) = Some rt -> stream_wf rt ->
  (* same services, keys and encrypted extension ids on both sides; no cryptex *)
  s_rtp_serv rt = s_rtp_serv st -> s_cryptex rt = s_cryptex st -> s_use_mki rt = s_use_mki st ->
  s_enc_xtn rt = s_enc_xtn st ->
  s_cryptex st = false ->
  In k (s_keys rt) -> key_selected rt ki k ->
  (* the receiver's estimate is the sender's index and the packet is not a replay *)
  est_index rt (hdr_seq pkt) = (st_ok, est, delta) -> rdbx_check (s_rdbx rt) delta = st_ok ->
  (* the key is not used up *)
  charge_fun (w_s w) (hdr_ssrc pkt) rt ki = (ss1, inl tt) ->
  exists w', unprotect w = (w', inl (lenZ pkt)) /\
             take (zn (lenZ pkt)) (b_dst (w_b w')) = pkt /\
             b_oob (w_b w') = false /\ b_src (w_b w') = b_src (w_b w).
Proof.
  intros HW (HO & HL & HC & HD & HS) Hin HCp Hget Wrt E1 E2 E3 E4 CX Hk Hsel Hidx Hchk Hch.
  rewrite <- (rtp_wire_cfg st rt k est pkt E1 E2 E3 E4) in HW. rewrite CX in E2.
  destruct (rtp_wire_xtn_inv rt k est pkt wire E2 HW) as (EV & cs1 & pre & p1 & body & EP & EX & EB & Ewire).
  destruct (wire_xtn_hdr _ _ _ _ _ EV EX) as (_ & _ & _ & _ & _ & F6 & F7).
  destruct (wire_xtn_inv _ _ _ _ _ EV EX) as (LN & _ & D & _).
  pose proof (enc0_bounds _ _ EV) as EBn.
  assert (LN' : lenZ p1 = lenZ pkt) by (unfold lenZ; rewrite LN; reflexivity).
  destruct (pay_body_inv _ _ _ _ _ EB ltac:(rewrite F6, LN'; lia)) as (o & EBo & Lo & Dec).
  rewrite F6 in EBo, Lo, Dec. rewrite D in Lo, Dec.
  assert (HLw : lenZ wire = b_len (w_b w)).
  { rewrite <- Hin. unfold in_pkt, lenZ, zn, size_ok in *. rewrite take_length. lia. }
  pose proof (x_unprotect_tri (b_len (w_b w)) (b_cap (w_b w)) (b_alias (w_b w)) (b_src (w_b w)) (b_dst (w_b w))
                rt ki k est delta pkt p1 wire cs1 pre body o HC HD Hin HLw Wrt E2 Hk Hsel Hidx Hchk EV EX EP EBo Lo Dec
                Ewire HCp (w_s w) ss1 Hget Hch w (St_init w HO)) as T.
  destruct (unprotect w) as [w' [l|s]]; [|contradiction].
  destruct T as (-> & T2 & T3 & T4). exists w'. auto.
Qed.
Print Assumptions srtp_round_trip_xtn.

(* the plain class (RtpRoundTrip.srtp_round_trip) is the instance k_xtn_c k = None *)
Corollary srtp_round_trip_plain_again st k est pkt wire w rt ki delta ss1 :
  rtp_wire st k est pkt = Some wire ->
  call_ok w -> in_pkt w = wire -> lenZ pkt <= b_cap (w_b w) ->
  list_get (ss_list (w_s w)) (hdr_ssrc pkt) = Some rt -> stream_wf rt ->
  s_rtp_serv rt = s_rtp_serv st -> s_cryptex rt = s_cryptex st -> s_use_mki rt = s_use_mki st ->
  s_enc_xtn rt = s_enc_xtn st ->
  s_cryptex st = false -> k_xtn_c k = None ->
  In k (s_keys rt) -> key_selected rt ki k ->
  est_index rt (hdr_seq pkt) = (st_ok, est, delta) -> rdbx_check (s_rdbx rt) delta = st_ok ->
  charge_fun (w_s w) (hdr_ssrc pkt) rt ki = (ss1, inl tt) ->
  exists w', unprotect w = (w', inl (lenZ pkt)) /\
             take (zn (lenZ pkt)) (b_dst (w_b w')) = pkt /\
             b_oob (w_b w') = false /\ b_src (w_b w') = b_src (w_b w).
Proof. intros. eapply srtp_round_trip_xtn; eassumption. Qed.
