(* LimitProofs.v — C09 at the session level: what charging the key budget does to the session
   (srtp_key_limit_update at the call sites of srtp_protect / srtp_unprotect). *)
From Coq Require Import NArith ZArith List Bool Lia.
From Srtp Require Import Util Constants KeyLimit KeyLimitProofs Rdb Rdbx Icm World Stream Rtp MonadLemmas.
Import ListNotations.
Local Open Scope Z_scope.

(* the stream's own budget: exactly one kl_update on key i, nothing else in the stream changes *)
Lemma limit_update_own r i w st k :
  get_stream r w = (w, inl st) -> s_clone st = false ->
  nth_error (s_limits st) (zn i) = Some k ->
  limit_update r i w =
    (fst (put_stream r (set_limits st (replace_nth (zn i) (s_limits st) (fst (kl_update k)))) w),
     inl (snd (kl_update k))).
Proof.
  intros G C N. unfold limit_update, bind. rewrite G, C, N.
  destruct (kl_update k) as [k' e]. cbn [fst snd].
  destruct (put_stream r (set_limits st (replace_nth (zn i) (s_limits st) k')) w) as [w1 [u|s1]] eqn:P.
  - destruct u. reflexivity.
  - exfalso. unfold put_stream, bind, get_s in P. destruct r; cbn in P; discriminate.
Qed.

(* a stream cloned from the wildcard template charges the TEMPLATE's budget: all clones share it *)
Lemma limit_update_clone r i w st t k :
  get_stream r w = (w, inl st) -> s_clone st = true ->
  get_stream RTemplate w = (w, inl t) ->
  nth_error (s_limits t) (zn i) = Some k ->
  limit_update r i w =
    (fst (put_stream RTemplate (set_limits t (replace_nth (zn i) (s_limits t) (fst (kl_update k)))) w),
     inl (snd (kl_update k))).
Proof.
  intros G C GT N. unfold limit_update, bind. rewrite G, C, GT, N.
  destruct (kl_update k) as [k' e]. cbn [fst snd].
  destruct (put_stream RTemplate (set_limits t (replace_nth (zn i) (s_limits t) k')) w) as [w1 [u|s1]] eqn:P.
  - destruct u. reflexivity.
  - exfalso. unfold put_stream, bind, get_s in P. cbn in P. discriminate.
Qed.

Lemma list_get_ssrc l x s : list_get l x = Some s -> s_ssrc s = x.
Proof.
  induction l as [|y t IH]; cbn; [discriminate|].
  destruct (s_ssrc y =? x) eqn:E; [intros H; injection H as <-; apply Z.eqb_eq; exact E|exact IH].
Qed.

Lemma list_get_replace_same l x s n : list_get l x = Some s -> s_ssrc n = x -> list_get (list_replace l x n) x = Some n.
Proof.
  induction l as [|y t IH]; cbn; [discriminate|].
  destruct (s_ssrc y =? x) eqn:E; cbn.
  - intros _ Hn. rewrite Hn, Z.eqb_refl. reflexivity.
  - rewrite E. exact IH.
Qed.

(* charging an explicit (non-cloned) stream's key i:
   - the session changes only in that stream's budget i, by one kl_update;
   - soft: the call goes on and the soft-limit event is raised; hard: key_expired and the hard-limit event *)
Theorem charge_key_explicit x i w st k :
  list_get (ss_list (w_s w)) x = Some st -> s_clone st = false ->
  nth_error (s_limits st) (zn i) = Some k ->
  let st' := set_limits st (replace_nth (zn i) (s_limits st) (fst (kl_update k))) in
  let s' := {| ss_template := ss_template (w_s w); ss_list := list_replace (ss_list (w_s w)) x st'; ss_cap := ss_cap (w_s w) |} in
  let '(w', res) := charge_key (RList x) i w in
  w_s w' = s' /\ w_h w' = w_h w /\ w_b w' = w_b w /\
  match snd (kl_update k) with
  | EvNormal => res = inl tt /\ w_ev w' = w_ev w
  | EvSoft => res = inl tt /\ w_ev w' = w_ev w ++ [(event_key_soft_limit_c, x)]
  | EvHard => res = inr st_key_expired /\ w_ev w' = w_ev w ++ [(event_key_hard_limit_c, x)]
  end.
Proof.
  intros LG C N st' s'.
  assert (G : get_stream (RList x) w = (w, inl st)) by (unfold get_stream, bind, get_s; rewrite LG; reflexivity).
  unfold charge_key, bind. rewrite (limit_update_own _ _ _ _ _ G C N). fold st'.
  unfold put_stream, bind, get_s, put_s. cbn [fst snd].
  set (w1 := {| w_s := s'; w_b := w_b w; w_ev := w_ev w; w_iv := w_iv w; w_h := w_h w |}).
  assert (X : s_ssrc st' = x) by (subst st'; cbn; exact (list_get_ssrc _ _ _ LG)).
  assert (G1 : get_stream (RList x) w1 = (w1, inl st')).
  { unfold get_stream, bind, get_s. cbn [w_s w1 s' ss_list]. rewrite (list_get_replace_same _ _ _ _ LG X). reflexivity. }
  match goal with |- context [get_stream (RList x) ?W] => change W with w1 end.
  rewrite G1. rewrite X.
  destruct (snd (kl_update k)); cbn; repeat split; reflexivity.
Qed.

(* charging a stream cloned from the wildcard template charges the TEMPLATE's budget, so every clone
   (present and future) sees the same remaining budget: they expire together *)
Theorem charge_key_clone x i w st t k :
  list_get (ss_list (w_s w)) x = Some st -> s_clone st = true ->
  ss_template (w_s w) = Some t ->
  nth_error (s_limits t) (zn i) = Some k ->
  let t' := set_limits t (replace_nth (zn i) (s_limits t) (fst (kl_update k))) in
  let '(w', res) := charge_key (RList x) i w in
  ss_template (w_s w') = Some t' /\ ss_list (w_s w') = ss_list (w_s w) /\ w_h w' = w_h w /\
  match snd (kl_update k) with
  | EvNormal => res = inl tt
  | EvSoft => res = inl tt /\ w_ev w' = w_ev w ++ [(event_key_soft_limit_c, x)]
  | EvHard => res = inr st_key_expired /\ w_ev w' = w_ev w ++ [(event_key_hard_limit_c, x)]
  end.
Proof.
  intros LG C T N t'.
  assert (G : get_stream (RList x) w = (w, inl st)) by (unfold get_stream, bind, get_s; rewrite LG; reflexivity).
  assert (GT : get_stream RTemplate w = (w, inl t)) by (unfold get_stream, bind, get_s; rewrite T; reflexivity).
  unfold charge_key, bind. rewrite (limit_update_clone _ _ _ _ _ _ G C GT N). fold t'.
  unfold put_stream, bind, get_s, put_s. cbn [fst snd].
  set (w1 := {| w_s := {| ss_template := Some t'; ss_list := ss_list (w_s w); ss_cap := ss_cap (w_s w) |};
                w_b := w_b w; w_ev := w_ev w; w_iv := w_iv w; w_h := w_h w |}).
  assert (G1 : get_stream (RList x) w1 = (w1, inl st)).
  { unfold get_stream, bind, get_s. cbn [w_s w1 ss_list]. rewrite LG. reflexivity. }
  match goal with |- context [get_stream (RList x) ?W] => change W with w1 end.
  rewrite G1. rewrite (list_get_ssrc _ _ _ LG).
  destruct (snd (kl_update k)); cbn; repeat split; reflexivity.
Qed.
