(* Rdb.v — model of crypto/replay/rdb.c: the 128-bit SRTCP replay window.
   window_start is a uint32_t; the bitmask v128_t is the single number
   sum v32[i]*2^(32 i), so that v128_get_bit(x,b) = N.testbit x b and
   v128_left_shift(x,s) = N.shiftr x s (proved for the word loop in BitvecProofs). *)
From Coq Require Import NArith ZArith List Bool.
From Srtp Require Import Util Constants.
Local Open Scope Z_scope.

Record rdb := { wstart : Z; bitmask : N }.

Definition rdb_init : rdb := {| wstart := 0; bitmask := 0%N |}.

Definition rdb_check (r : rdb) (i : Z) : Z :=
  (* p_index >= window_start + 128 : the sum is computed in size_t (64 bit), no wrap *)
  if wstart r + rdb_bits_in_bitmask_c <=? i then st_ok
  else if i <? wstart r then st_replay_old
  else if N.testbit (bitmask r) (Z.to_N (i - wstart r)) then st_replay_fail
  else st_ok.

Definition mask128 (x : N) : N := (x mod 2 ^ 128)%N.

(* v128_left_shift: "if (shift > 127) set to zero", else the word loop = N.shiftr *)
Definition v128_shift (x : N) (shift : Z) : N :=
  if 127 <? shift then 0%N else N.shiftr x (Z.to_N shift).

Definition rdb_add (r : rdb) (i : Z) : Z * rdb :=
  if i <? wstart r then (st_replay_fail, r)
  else
    let delta := u32 (i - wstart r) in
    if delta <? rdb_bits_in_bitmask_c then
      (st_ok, {| wstart := wstart r; bitmask := N.setbit (bitmask r) (Z.to_N delta) |})
    else
      let d := u32 (delta - (rdb_bits_in_bitmask_c - 1)) in
      (st_ok, {| wstart := u32 (wstart r + d);
                 bitmask := N.setbit (v128_shift (bitmask r) d)
                                     (Z.to_N (rdb_bits_in_bitmask_c - 1)) |}).

Definition rdb_incr (r : rdb) : Z * rdb :=
  if rtcp_ceiling_c <=? wstart r then (st_key_expired, r)
  else (st_ok, {| wstart := u32 (wstart r + 1); bitmask := bitmask r |}).
