(* StdPolicy.v — model of the policy helper functions of srtp.c: the srtp_crypto_policy_set_* setters (the crypto
   suites of RFC 3711 / RFC 4568 / RFC 6188 / RFC 7714 as the library defines them), srtp_crypto_policy_set_from_profile_for_rtp /
   _rtcp and srtp_profile_get_master_key_length / _salt_length.  Model only; compared with the library by the `stdpol`,
   `profpol`, `proflen` driver operations, and with the RFCs' parameters by the C03 monitor. *)
From Coq Require Import ZArith List Bool.
From Srtp Require Import Util Constants World.
Import ListNotations.
Local Open Scope Z_scope.

Definition mkcp (c kl a akl tl serv : Z) : cpolicy :=
  {| cp_cipher := c; cp_keylen := kl; cp_auth := a; cp_authkeylen := akl; cp_taglen := tl; cp_serv := serv |}.

(* the setters, in the order the driver numbers them *)
Definition std_policy (n : Z) : option cpolicy :=
  let icm128 := SRTP_AES_ICM_128_c in let icm192 := SRTP_AES_ICM_192_c in let icm256 := SRTP_AES_ICM_256_c in
  let k128 := SRTP_AES_ICM_128_KEY_LEN_WSALT_c in let k192 := SRTP_AES_ICM_192_KEY_LEN_WSALT_c in
  let k256 := SRTP_AES_ICM_256_KEY_LEN_WSALT_c in
  let hm := SRTP_HMAC_SHA1_c in let na := SRTP_NULL_AUTH_c in
  if n =? 0 then Some (mkcp icm128 k128 hm 20 10 3)        (* srtp_crypto_policy_set_rtp_default = aes_cm_128_hmac_sha1_80 *)
  else if n =? 1 then Some (mkcp icm128 k128 hm 20 10 3)   (* srtp_crypto_policy_set_rtcp_default *)
  else if n =? 2 then Some (mkcp icm128 k128 hm 20 4 3)    (* aes_cm_128_hmac_sha1_32 *)
  else if n =? 3 then Some (mkcp icm128 k128 na 0 0 1)     (* aes_cm_128_null_auth *)
  else if n =? 4 then Some (mkcp SRTP_NULL_CIPHER_c k128 hm 20 10 2)   (* null_cipher_hmac_sha1_80 *)
  else if n =? 5 then Some (mkcp SRTP_NULL_CIPHER_c k128 na 0 0 0)     (* null_cipher_hmac_null *)
  else if n =? 6 then Some (mkcp icm256 k256 hm 20 10 3)   (* aes_cm_256_hmac_sha1_80 *)
  else if n =? 7 then Some (mkcp icm256 k256 hm 20 4 3)    (* aes_cm_256_hmac_sha1_32 *)
  else if n =? 8 then Some (mkcp icm256 k256 na 0 0 1)     (* aes_cm_256_null_auth *)
  else if n =? 9 then Some (mkcp icm192 k192 hm 20 10 3)   (* aes_cm_192_hmac_sha1_80 *)
  else if n =? 10 then Some (mkcp icm192 k192 hm 20 4 3)   (* aes_cm_192_hmac_sha1_32 *)
  else if n =? 11 then Some (mkcp icm192 k192 na 0 0 1)    (* aes_cm_192_null_auth *)
  else if n =? 12 then Some (mkcp SRTP_AES_GCM_128_c SRTP_AES_GCM_128_KEY_LEN_WSALT_c na 0 16 3)   (* aes_gcm_128_16_auth *)
  else if n =? 13 then Some (mkcp SRTP_AES_GCM_256_c SRTP_AES_GCM_256_KEY_LEN_WSALT_c na 0 16 3)   (* aes_gcm_256_16_auth *)
  else None.

(* srtp_profile_t: 1 aes128_cm_sha1_80, 2 aes128_cm_sha1_32, 5 null_sha1_80, 6 null_sha1_32, 7 aead_aes_128_gcm, 8 aead_aes_256_gcm *)
Definition profile_policy (profile : Z) (rtcp : bool) : option cpolicy :=
  if profile =? 1 then std_policy 0
  else if profile =? 2 then (if rtcp then std_policy 0 else std_policy 2)   (* SRTCP never gets the 32-bit tag *)
  else if profile =? 5 then std_policy 4
  else if cfg_gcm_c && (profile =? 7) then std_policy 12
  else if cfg_gcm_c && (profile =? 8) then std_policy 13
  else None.                                                                 (* bad_param *)
Definition profile_key_len (profile : Z) : Z :=
  if (profile =? 1) || (profile =? 2) || (profile =? 5) || (profile =? 7) then 16 else if profile =? 8 then 32 else 0.
Definition profile_salt_len (profile : Z) : Z :=
  if (profile =? 1) || (profile =? 2) || (profile =? 5) then SRTP_SALT_LEN_c
  else if (profile =? 7) || (profile =? 8) then SRTP_AEAD_SALT_LEN_c else 0.
