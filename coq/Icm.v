(* Icm.v — model of crypto/cipher/aes_icm.c: the counter-mode state machine
   (counter = offset xor IV, 16-byte keystream buffer, bytes_in_buffer, 16-bit
   block counter with byte carry, terminus check), parametric in the block
   function, and of the generic cipher interface used by srtp.c (null cipher,
   srtp_cipher_output).  Model only. *)
From Coq Require Import NArith ZArith List Bool.
From Srtp Require Import Util Constants.
From Srtp.Crypto Require Import AES.
Import ListNotations.
Local Open Scope Z_scope.

Section ICM.
Variable E : bytes -> bytes.   (* one block under the expanded key *)

Record icm := { i_off : bytes; i_ctr : bytes; i_buf : bytes; i_in : Z }.

Definition ctr_low (ctr : bytes) : Z := be16 ctr 14.
(* "if (!++v8[15]) ++v8[14]": a 16-bit big-endian increment, no carry into byte 13 *)
Definition ctr_add (ctr : bytes) (j : Z) : bytes :=
  take 14 ctr ++ be_bytes 2 (Z.to_N ((ctr_low ctr + j) mod 65536)).

Definition icm_init (salt14 : bytes) : icm :=
  let off := take 14 (salt14 ++ zeros 14) ++ [0%N; 0%N] in
  {| i_off := off; i_ctr := off; i_buf := zeros 16; i_in := 0 |}.

Definition icm_set_iv (c : icm) (iv : bytes) : icm :=
  {| i_off := i_off c; i_ctr := xor_bytes (i_off c) (take 16 (iv ++ zeros 16)); i_buf := i_buf c; i_in := 0 |}.

Fixpoint ks_blocks (n : nat) (ctr : bytes) : list bytes :=
  match n with
  | O => []
  | S n' => E ctr :: ks_blocks n' (ctr_add ctr 1)
  end.

(* srtp_aes_icm_encrypt: (status, new state, output) *)
Definition icm_encrypt (c : icm) (data : bytes) : Z * icm * bytes :=
  let n := lenZ data in
  let newb := u64 (n - i_in c) in
  let blocks := u64 (newb + 15) / 16 in
  if icm_max_blocks_c <? blocks + ctr_low (i_ctr c) then (st_terminus, c, [])
  else if n <=? i_in c then
    let ks := slice (zn (16 - i_in c)) (zn n) (i_buf c) in
    (st_ok, {| i_off := i_off c; i_ctr := i_ctr c; i_buf := i_buf c; i_in := i_in c - n |},
     xor_bytes data ks)
  else
    let have := drop (zn (16 - i_in c)) (i_buf c) in
    let rest := n - i_in c in
    let nb := (rest + 15) / 16 in
    let blks := ks_blocks (zn nb) (i_ctr c) in
    let ks := have ++ concat blks in
    (st_ok, {| i_off := i_off c; i_ctr := ctr_add (i_ctr c) nb; i_buf := last blks (i_buf c);
               i_in := (16 - rest mod 16) mod 16 |},
     xor_bytes data (take (zn n) ks)).
End ICM.

(* ---- the cipher objects srtp.c works with ---- *)
Record ckey := { ck_alg : Z; ck_klen : Z; ck_rks : list bytes; ck_salt : bytes }.

Inductive cstate := CSNull | CSIcm (rks : list bytes) (c : icm).

Definition is_icm_alg (a : Z) : bool :=
  (a =? SRTP_AES_ICM_128_c) || (a =? SRTP_AES_ICM_192_c) || (a =? SRTP_AES_ICM_256_c).

(* srtp_cipher_set_iv on a keyed cipher *)
Definition cipher_start (k : ckey) (iv : bytes) : cstate :=
  if is_icm_alg (ck_alg k) then CSIcm (ck_rks k) (icm_set_iv (icm_init (ck_salt k)) iv)
  else CSNull.

Definition cipher_encrypt (cs : cstate) (data : bytes) : Z * cstate * bytes :=
  match cs with
  | CSNull => (st_ok, CSNull, data)
  | CSIcm rks c => let '(s, c', o) := icm_encrypt (aes_encrypt_rk rks) c data in (s, CSIcm rks c', o)
  end.

(* srtp_cipher_output: zeroize the buffer, then encrypt it in place *)
Definition cipher_output (cs : cstate) (n : Z) : Z * cstate * bytes :=
  cipher_encrypt cs (zeros (zn n)).

(* ---- crypto back end of the build (Constants.v, regenerated from the build's config.h) ----
   cfg_openssl_c: the OpenSSL cipher types are registered (AES-ICM-192 exists);
   cfg_gcm_c:     AES-GCM-128/256 exist.  Both are false in the internal-crypto configuration,
   and every theorem of the development is about that configuration (the flags compute). *)
Definition is_gcm_alg (a : Z) : bool := (a =? SRTP_AES_GCM_128_c) || (a =? SRTP_AES_GCM_256_c).
Definition is_icm_id (id : Z) : bool :=
  (id =? SRTP_AES_ICM_128_c) || (id =? SRTP_AES_ICM_256_c) || (cfg_openssl_c && (id =? SRTP_AES_ICM_192_c)).

(* cipher allocation + keying as done by srtp_crypto_kernel_alloc_cipher / srtp_cipher_init.
   Internal crypto: only ids NULL, ICM_128 and ICM_256 are registered; the ICM ids share one
   alloc function that decides the variant from the key length.  OpenSSL: the same, plus
   ICM_192 (key length 38) and the two GCM ids (key lengths 28 / 44; the tag length argument
   is checked by alloc_cipher_t in Stream.v). *)
Definition cipher_alloc_status (id klen : Z) : Z :=
  if id =? SRTP_NULL_CIPHER_c then st_ok
  else if is_icm_id id then
    if (klen =? SRTP_AES_ICM_128_KEY_LEN_WSALT_c) || (klen =? SRTP_AES_ICM_256_KEY_LEN_WSALT_c)
       || (cfg_openssl_c && (klen =? SRTP_AES_ICM_192_KEY_LEN_WSALT_c))
    then st_ok else st_bad_param
  else if cfg_gcm_c && is_gcm_alg id then
    if (klen =? SRTP_AES_GCM_128_KEY_LEN_WSALT_c) || (klen =? SRTP_AES_GCM_256_KEY_LEN_WSALT_c)
    then st_ok else st_bad_param
  else st_fail.

Definition cipher_alg_of (id klen : Z) : Z :=
  if id =? SRTP_NULL_CIPHER_c then SRTP_NULL_CIPHER_c
  else if cfg_gcm_c && is_gcm_alg id then
    (if klen =? SRTP_AES_GCM_256_KEY_LEN_WSALT_c then SRTP_AES_GCM_256_c else SRTP_AES_GCM_128_c)
  else if klen =? SRTP_AES_ICM_256_KEY_LEN_WSALT_c then SRTP_AES_ICM_256_c
  else if cfg_openssl_c && (klen =? SRTP_AES_ICM_192_KEY_LEN_WSALT_c) then SRTP_AES_ICM_192_c
  else SRTP_AES_ICM_128_c.

(* number of heap blocks a cipher object owns (struct + context; OpenSSL's own objects are
   not obtained through srtp_crypto_alloc) *)
Definition cipher_blocks (alg : Z) : Z := if alg =? SRTP_NULL_CIPHER_c then 1 else 2.

(* srtp_cipher_init(c, key): the ICM context takes key[0..klen-14) and the 14 salt bytes after it;
   a GCM context takes key[0..klen-12) (the 12 salt octets are used by srtp.c, not by the cipher) *)
Definition cipher_key (alg klen : Z) (key : bytes) : ckey :=
  if alg =? SRTP_NULL_CIPHER_c then {| ck_alg := alg; ck_klen := klen; ck_rks := []; ck_salt := [] |}
  else if is_gcm_alg alg then
    let base := klen - SRTP_AEAD_SALT_LEN_c in
    {| ck_alg := alg; ck_klen := klen; ck_rks := aes_key_expand (take (zn base) key);
       ck_salt := slice (zn base) (zn SRTP_AEAD_SALT_LEN_c) key |}
  else
    let base := klen - SRTP_SALT_LEN_c in
    {| ck_alg := alg; ck_klen := klen; ck_rks := aes_key_expand (take (zn base) key);
       ck_salt := slice (zn base) (zn SRTP_SALT_LEN_c) key |}.
