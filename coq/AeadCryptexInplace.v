(* AeadCryptexInplace.v — cryptex (RFC 9335) under AES-GCM, part 2: the class that works.
   Streams with cryptex, confidentiality on, NO header-extension cipher; packets with a header
   extension (X = 1) and ANY number of CSRCs; both calls work IN PLACE (in == out):

     rtp_aead_cryptex_wire st k est pkt   fixed header | encrypted CSRC list | extension header with the
                                          RFC 9335 profile, in clear | encrypted extension body and
                                          payload | tag | MKI;  AAD = fixed header ++ extension header
     protect_aead_cryptex_wire            a successful in-place protect_aead emits exactly that
     rtp_aead_cryptex_round_trip          in-place unprotect_aead on that wire image returns ok and the
                                          byte-identical packet, no out-of-bounds access

   (out of place with CSRCs both calls refuse: AeadCryptexRtp.v; out of place without CSRCs and
   the combination with RFC 6904 are covered by computation only: AeadRoundTripRtp.AeadRtpExample) *)
From Coq Require Import NArith ZArith List Bool Lia.
From Srtp Require Import XtnProofs CryptexProofs.
From Srtp Require Import Util Constants KeyLimit Rdb Rdbx Icm World Stream Rtp Aead AeadProofs
     MonadLemmas EnvelopeProofs WfProofs BoundsRtcp BoundsRtp LengthProofs RtcpSpec RtpSpec RtpSpecProofs
     RtpRoundTrip RtpXtnApply RtpRefineXtn RtpRoundTripXtn RtpUnprotSpec RtpUnprotProofs RtpRoundTripCryptex
     AeadRoundTripRtp.
From Srtp.Crypto Require Import GCM.
Import ListNotations.
Local Open Scope Z_scope.

(* ===================================================================== *)
(* 1. the wire image                                                      *)
(* ===================================================================== *)
Definition rtp_aead_cryptex_wire (st : stream) (k : skeys) (est : Z) (pkt : bytes) : option bytes :=
  if negb (validate_rtp pkt (lenZ pkt) =? st_ok) then None else
  let hl := hdr_len pkt in
  match cryptex_profile_of (be16 pkt (zn hl)) with
  | None => None
  | Some v =>
    let p2 := splice (zn hl) (be_bytes 2 (Z.to_N v)) pkt in
    let n := zn (4 * hdr_cc pkt) in
    let '(ct, tag) := gcm_encrypt (ck_rks (k_rtp_c k)) (aead_rtp_iv (k_salt k) (hdr_ssrc pkt) est)
                        (take 12 p2 ++ slice (zn hl) 4 p2) (slice 12 n p2 ++ drop (zn (hl + 4)) p2)
                        (zn (ak_tag (k_rtp_a k))) in
    Some (take 12 p2 ++ take n ct ++ slice (zn hl) 4 p2 ++ drop n ct ++ tag ++ (if s_use_mki st then k_mki k else []))
  end.

Lemma rtp_aead_cryptex_wire_cfg st st' k est pkt :
  s_use_mki st' = s_use_mki st -> rtp_aead_cryptex_wire st' k est pkt = rtp_aead_cryptex_wire st k est pkt.
Proof. intros E1. unfold rtp_aead_cryptex_wire. rewrite E1. reflexivity. Qed.

(* ===================================================================== *)
(* 2. the shuffles as equations on lists                                   *)
(* ===================================================================== *)
Section CXPURE.
Variables (n : nat) (p : bytes).
Hypothesis Lp : (12 + n + 4 <= length p)%nat.
Let H := take 12 p.
Let Cs := slice 12 n p.
Let X := slice (12 + n) 4 p.
Let T := drop (12 + n + 4) p.

Lemma cxp_len : length H = 12%nat /\ length Cs = n /\ length X = 4%nat /\ length T = (length p - (12 + n + 4))%nat.
Proof. subst H Cs X T. rewrite take_length, !slice_length, drop_length. lia. Qed.

Lemma cxp_adjust_take : take 16 (adjust_dst n p) = H ++ X.
Proof.
  destruct cxp_len as (L1 & L2 & L3 & _). rewrite (cxl_adjust n p Lp). fold H X Cs T.
  apply XtnProofs.take_app_exact. rewrite app_length. lia.
Qed.
Lemma cxp_adjust_drop : drop 16 (adjust_dst n p) = Cs ++ T.
Proof.
  destruct cxp_len as (L1 & L2 & L3 & _). rewrite (cxl_adjust n p Lp). fold H X Cs T.
  apply XtnProofs.drop_app_exact. rewrite app_length. lia.
Qed.
Lemma cxp_restore (o R : bytes) :
  (n <= length o)%nat -> restore_dst n ((H ++ X) ++ o ++ R) = H ++ take n o ++ X ++ drop n o ++ R.
Proof.
  intros Lo. destruct cxp_len as (L1 & L2 & L3 & _).
  replace ((H ++ X) ++ o ++ R) with (H ++ (X ++ take n o) ++ (drop n o ++ R))
    by (rewrite <- (XtnProofs.take_drop_id n o) at 3; rewrite <- !app_assoc; reflexivity).
  rewrite restore_dst_app; [|exact L1|rewrite app_length, take_length; lia].
  rewrite (XtnProofs.drop_app_exact X (take n o) 4 L3), (XtnProofs.take_app_exact X (take n o) 4 L3).
  reflexivity.
Qed.
Lemma cxp_restore_plain : restore_dst n ((H ++ X) ++ Cs ++ T) = p.
Proof. unfold H, X, Cs, T. rewrite <- (cxl_adjust n p Lp). apply restore_adjust_dst. exact Lp. Qed.
End CXPURE.

(* the shuffle of the received packet H ++ c1 ++ X ++ R, |c1| = n *)
Lemma cxp_adjust_wire n (H c1 X R : bytes) :
  length H = 12%nat -> length c1 = n -> length X = 4%nat ->
  adjust_dst n (H ++ c1 ++ X ++ R) = (H ++ X) ++ c1 ++ R.
Proof.
  intros L1 L2 L3. rewrite (app_assoc c1 X R).
  rewrite adjust_dst_app; [|exact L1|rewrite app_length; lia].
  rewrite (XtnProofs.drop_app_exact c1 X n L2), (XtnProofs.take_app_exact c1 X n L2).
  rewrite <- !app_assoc. reflexivity.
Qed.

(* the profile written back by the receiver is the one the packet had *)
Lemma unprof_set (pkt : bytes) hl v :
  (hl + 2 <= length pkt)%nat ->
  slice hl 2 pkt = be_bytes 2 (Z.to_N (be16 pkt hl)) ->
  cryptex_profile_of (be16 pkt hl) = Some v ->
  unprof hl (splice hl (be_bytes 2 (Z.to_N v)) pkt) = pkt /\
  (be16 (splice hl (be_bytes 2 (Z.to_N v)) pkt) hl = cryptex_one_byte_profile_c \/
   be16 (splice hl (be_bytes 2 (Z.to_N v)) pkt) hl = cryptex_two_byte_profile_c).
Proof.
  intros HLn PO PV.
  assert (B : forall vb : bytes, length vb = 2%nat -> be16 (splice hl vb pkt) hl = be16 vb 0).
  { intros vb Lv. unfold be16. rewrite <- Lv. rewrite slice_splice_same by lia.
    rewrite slice_0, XtnProofs.take_all. reflexivity. }
  unfold cryptex_profile_of in PV. unfold unprof, plain_profile_of.
  destruct (be16 pkt hl =? xtn_hdr_one_byte_profile_c) eqn:P1.
  - injection PV as <-. apply Z.eqb_eq in P1. rewrite P1 in PO.
    rewrite B by reflexivity. change (be16 (be_bytes 2 (Z.to_N cryptex_one_byte_profile_c)) 0) with cryptex_one_byte_profile_c.
    change (cryptex_one_byte_profile_c =? cryptex_one_byte_profile_c) with true. cbv iota.
    split; [|left; reflexivity].
    rewrite splice_splice_same by reflexivity. rewrite <- PO. apply splice_self.
  - destruct (be16 pkt hl =? xtn_hdr_two_byte_profile_c) eqn:P2; [|discriminate].
    injection PV as <-. apply Z.eqb_eq in P2. rewrite P2 in PO.
    rewrite B by reflexivity. change (be16 (be_bytes 2 (Z.to_N cryptex_two_byte_profile_c)) 0) with cryptex_two_byte_profile_c.
    change (cryptex_two_byte_profile_c =? cryptex_one_byte_profile_c) with false.
    change (cryptex_two_byte_profile_c =? cryptex_two_byte_profile_c) with true. cbv iota.
    split; [|right; reflexivity].
    rewrite splice_splice_same by reflexivity. rewrite <- PO. apply splice_self.
Qed.

(* ===================================================================== *)
(* 3. srtp_protect with a GCM key, cryptex, in place                       *)
(* ===================================================================== *)
Section CX_INPLACE.
Variables (L C : Z) (src d0 pkt : bytes).
Hypothesis HL : 0 <= L < 9223372036854775808.
Hypothesis HC : 0 <= C < 9223372036854775808.
Hypothesis HD : C <= lenZ d0.
(* in place: the block that receives the output holds the packet *)
Hypothesis Hpkt : take (zn L) d0 = pkt.
Hypothesis HLp : lenZ pkt = L.

Notation S := (St L C true src d0).

Ltac norm_b :=
  change (b_len (b_init L C true src d0)) with L;
  change (b_cap (b_init L C true src d0)) with C;
  change (b_alias (b_init L C true src d0)) with true;
  rewrite ?(Hpkt : take (zn L) (cur_src (b_init L C true src d0)) = pkt).

Definition PEc (s : Z) (w : world) : Prop := b_src (w_b w) = src /\ b_oob (w_b w) = false.
Lemma pec_exit ss D s w : S ss D w -> PEc s w.
Proof. intros (h0 & h1 & h2 & h3 & h4 & h5 & h6 & h7). split; assumption. Qed.

(* reading the input of an in-place call = reading the packet region of the block *)
Lemma rd_alias ss P off n E :
  0 <= off -> 0 <= n -> off + n <= L -> off + n <= lenZ P ->
  tri (S ss (facts_ok [(0, P)])) (rd_src off n)
      (fun d w => d = slice (zn off) (zn n) P /\ S ss (facts_ok [(0, P)]) w) E.
Proof.
  intros H1 H2 H3 H4. eapply t_post; [apply t_rd_src; assumption|].
  intros d w [(dd & Hf & _ & ->) Hw]. split; [|exact Hw]. cbv iota.
  apply (fact0_read dd P _ _ (Forall_inv Hf)). unfold lenZ, zn in *. lia.
Qed.

Variable ss0 : session.
Variable st0 : stream.
Hypothesis Hget : list_get (ss_list ss0) (hdr_ssrc pkt) = Some st0.
Hypothesis Hwf : stream_wf st0.
Hypothesis Hcx : s_cryptex st0 = true.
Hypothesis Hconf : rtp_conf st0 = true.
Hypothesis HX : hdr_x pkt = 1.
Hypothesis Hxk : forall k, In k (s_keys st0) -> k_xtn_c k = None.

Definition CProtQ i (l : Z) (w : world) : Prop :=
  exists ki k ss2 est st3 wire,
    sender_key_st (dir_stream st0 dir_srtp_sender_c) i = inl (ki, k) /\
    charge_fun (dir_session ss0 (hdr_ssrc pkt) st0 dir_srtp_sender_c) (hdr_ssrc pkt)
               (dir_stream st0 dir_srtp_sender_c) ki = (ss2, inl tt) /\
    index_step (charged_stream (dir_stream st0 dir_srtp_sender_c) ki) (hdr_seq pkt) = inl (est, st3) /\
    rtp_aead_cryptex_wire st0 k est pkt = Some wire /\
    l = lenZ wire /\ take (zn l) (b_dst (w_b w)) = wire /\
    w_s w = sess_put ss2 (hdr_ssrc pkt) st3 /\
    b_src (w_b w) = src /\ b_oob (w_b w) = false.

Lemma protect_aead_cryptex_tri i : tri (S ss0 (eq d0)) (protect_aead i) (CProtQ i) PEc.
Proof.
  unfold protect_aead.
  eapply t_bind; [apply t_get_b0|intros b]. apply t_pure; intros ->.
  cbv beta zeta. norm_b.
  change octets_in_rtp_header_c with 12. change octets_in_rtp_xtn_hdr_c with 4.
  unfold check_st. destruct (validate_rtp pkt L =? st_ok) eqn:EV.
  2:{ apply t_bind_exit. intros w Hw. exact (pec_exit _ _ _ _ Hw). }
  apply t_bind_ret. pose proof EV as EVb. apply Z.eqb_eq in EV.
  pose proof (validate_rtp_ok _ _ EV) as (V1 & V2 & V3). specialize (V3 HX).
  pose proof (hdr_cc_range pkt) as CC. pose proof (hdr_len_eq pkt) as HLn. pose proof (xtn_len_ge pkt) as XL.
  eapply t_bind; [eapply t_lookup_existing; exact Hget|intros r]. apply t_pure; intros ->.
  eapply t_bind; [eapply t_check_direction; exact Hget|intros ?].
  eapply t_bind; [apply t_get_stream_list; apply dir_session_get; exact Hget|intros st]. apply t_pure; intros Est.
  set (ss1 := dir_session ss0 (hdr_ssrc pkt) st0 dir_srtp_sender_c) in *.
  pose proof (dir_stream_cfg st0 dir_srtp_sender_c) as CF. rewrite <- Est in CF.
  assert (Wst : stream_wf st) by exact (stream_wf_cfg _ _ CF Hwf).
  destruct CF as (CK & _ & CU & CX). rewrite Hcx in CX.
  assert (CS : s_rtp_serv st = s_rtp_serv st0).
  { rewrite Est. unfold dir_stream. destruct (s_dir st0 =? _); [reflexivity|]. destruct (s_dir st0 =? _); reflexivity. }
  rewrite keys_by_index_eq. destruct (sender_key_st st i) as [[ki k]|e] eqn:EK.
  2:{ apply t_bind_exit. intros w Hw. exact (pec_exit _ _ _ _ Hw). }
  apply t_bind_ret. cbv beta iota.
  pose proof (sender_key_st_In _ _ _ _ EK) as Hk.
  pose proof (stream_wf_key _ _ Wst Hk) as (MK & TA & _).
  assert (XK : k_xtn_c k = None) by (apply Hxk; rewrite <- CK; exact Hk).
  destruct Wst as (Mb & U & _). rewrite max_mki_value in Mb.
  pose proof TA as [T _]. rewrite max_tag_value in T.
  eapply t_bind2; [eapply t_charge_key; apply dir_session_get; exact Hget| |intros ?].
  { intros s w (ss' & EC & Hw). exact (pec_exit _ _ _ _ Hw). }
  apply t_ex; intros ss2. apply t_pure; intros EC. apply t_pure; intros Hg2.
  rewrite <- Est in EC, Hg2.
  set (tl := ak_tag (k_rtp_a k)) in *. set (msz := s_mki_size st) in *.
  destruct (C <? L + tl + msz) eqn:E1.
  { apply t_bind_exit. intros w Hw. exact (pec_exit _ _ _ _ Hw). }
  apply t_bind_ret. apply Z.ltb_ge in E1.
  (* cryptex is in use, in place: the encrypted portion starts at 16 *)
  unfold rtp_conf in Hconf. rewrite CX, CS, Hconf, HX. cbn [andb negb Z.eqb Pos.eqb].
  rewrite andb_false_r. apply t_bind_ret.
  assert (ES16 : u64 (u64 (hdr_len pkt + xtn_len pkt - (xtn_len pkt - 4)) - hdr_cc pkt * 4) = 16).
  { rewrite (u64_small (hdr_len pkt + xtn_len pkt - (xtn_len pkt - 4))) by lia. rewrite u64_small by lia. lia. }
  rewrite ES16. apply t_bind_ret.
  destruct (L <? 16) eqn:E2; [apply Z.ltb_lt in E2; lia|]. apply t_bind_ret.
  apply t_bind_ret.
  apply t_weaken with (D' := facts_ok [(0, pkt)]).
  { intros dd _ <-. constructor; [|constructor]. split; [cbn [fst]; lia|]. cbn [fst snd].
    replace (length pkt) with (zn L) by (unfold lenZ, zn in *; lia). exact Hpkt. }
  (* index *)
  eapply t_bind; [apply t_get_stream_list; exact Hg2|intros st2]. apply t_pure; intros ->.
  set (st2 := charged_stream st ki) in *.
  pose proof (eq_refl (index_step st2 (hdr_seq pkt))) as SPEC. unfold index_step at 2 in SPEC.
  destruct (est_index st2 (hdr_seq pkt)) as [[est_st est] delta].
  destruct (negb (est_st =? st_ok) && negb (est_st =? st_pkt_idx_adv)).
  { apply t_bind_exit. intros w Hw. exact (pec_exit _ _ _ _ Hw). }
  apply t_bind_ret.
  apply t_bind with (R := fun _ w =>
    exists st3, index_step st2 (hdr_seq pkt) = inl (est, st3) /\
                S (sess_put ss2 (hdr_ssrc pkt) st3) (facts_ok [(0, pkt)]) w).
  { destruct (est_st =? st_pkt_idx_adv).
    - eapply t_post; [apply t_put_stream_list|]. intros ? w Hw. eexists. split; [exact SPEC|exact Hw].
    - destruct (negb (rdbx_check (s_rdbx st2) delta =? st_ok) &&
                (negb (rdbx_check (s_rdbx st2) delta =? st_replay_fail) || negb (s_allow_repeat st2))).
      + apply t_bind_exit. intros w Hw. exact (pec_exit _ _ _ _ Hw).
      + apply t_bind_ret. eapply t_post; [apply t_put_stream_list|]. intros ? w Hw. eexists. split; [exact SPEC|exact Hw]. }
  intros ?. apply t_ex; intros st3. apply t_pure; intros E3. clear SPEC.
  set (ss3 := sess_put ss2 (hdr_ssrc pkt) st3) in *.
  set (iv := aead_rtp_iv (k_salt k) (hdr_ssrc pkt) est).
  eapply t_bind; [apply t_log_gcm_iv|intros ?].
  rewrite XK. apply t_bind_ret. apply t_bind_ret.
  (* the profile *)
  set (hl := hdr_len pkt) in *. set (n := zn (4 * hdr_cc pkt)).
  assert (ZH : zn hl = (12 + n)%nat) by (subst n; unfold zn; lia).
  apply t_assoc. eapply t_bind; [apply t_rd_dst; lia|intros h]. apply t_pure; intros (dd & Hf & _ & ->).
  rewrite (fact0_read dd pkt _ _ (Forall_inv Hf)) by (unfold lenZ, zn in *; lia).
  change (zn 2) with 2%nat. rewrite be16_slice2_0. cbv zeta.
  assert (EQP : forall (f : Z -> M unit) (e : M unit),
            (if be16 pkt (zn hl) =? xtn_hdr_one_byte_profile_c then f cryptex_one_byte_profile_c
             else if be16 pkt (zn hl) =? xtn_hdr_two_byte_profile_c then f cryptex_two_byte_profile_c else e)
            = match cryptex_profile_of (be16 pkt (zn hl)) with Some v => f v | None => e end).
  { intros f e. unfold cryptex_profile_of. destruct (_ =? xtn_hdr_one_byte_profile_c); [reflexivity|].
    destruct (_ =? xtn_hdr_two_byte_profile_c); reflexivity. }
  rewrite (EQP (set_profile pkt) (exit_with st_parse_err)).
  destruct (cryptex_profile_of (be16 pkt (zn hl))) as [v|] eqn:PV.
  2:{ apply t_bind_exit. intros w Hw. exact (pec_exit _ _ _ _ Hw). }
  set (vb := be_bytes 2 (Z.to_N v)).
  assert (LV : lenZ vb = 2) by (subst vb; rewrite lenZ_be_bytes; reflexivity).
  set (p2 := splice (zn hl) vb pkt).
  assert (LP2 : lenZ p2 = L) by (subst p2; rewrite lenZ_splice; exact HLp).
  apply t_assoc. eapply t_bind; [unfold set_profile; fold hl vb; apply t_wr_in2; [lia|lia|lia|constructor]|intros ?].
  fold p2.
  eapply t_bind; [apply (t_adjust L C true src d0 pkt HD); fold hl; lia|intros ?].
  fold n.
  assert (Lp2n : (12 + n + 4 <= length p2)%nat) by (unfold lenZ, zn in *; subst n; unfold zn; lia).
  set (Hh := take 12 p2). set (X := slice (zn hl) 4 p2). set (Cs := slice 12 n p2). set (Tt := drop (zn (hl + 4)) p2).
  assert (ZH4 : zn (hl + 4) = (12 + n + 4)%nat) by (subst n; unfold zn; lia).
  destruct (cxp_len n p2 Lp2n) as (L1 & L2 & L3 & L4).
  pose proof (adjust_dst_length n p2) as LAD.
  (* AAD and payload from the shuffled block *)
  eapply t_bind; [apply t_rd_dst; [lia|lia|unfold lenZ in *; lia]|intros aad]. apply t_pure; intros (dd2 & Hf2 & _ & ->).
  rewrite (fact0_read dd2 _ _ _ (Forall_inv Hf2)) by (unfold lenZ, zn in *; lia).
  change (zn 0) with O. change (zn 16) with 16%nat. rewrite slice_0, (cxp_adjust_take n p2 Lp2n).
  rewrite <- ZH. fold Hh X.
  eapply t_bind; [apply rd_alias; [lia|lia|lia|unfold lenZ in *; lia]|intros d]. apply t_pure; intros ->.
  replace (slice (zn 16) (zn (L - 16)) (adjust_dst n p2)) with (Cs ++ Tt).
  2:{ change (zn 16) with 16%nat. rewrite slice_to_end by (unfold lenZ, zn in *; lia).
      rewrite (cxp_adjust_drop n p2 Lp2n). subst Cs Tt. rewrite ZH4. reflexivity. }
  assert (LPT : lenZ (Cs ++ Tt) = L - 16).
  { subst Cs Tt. rewrite lenZ_app. unfold lenZ in *. rewrite ZH4, L2, L4. lia. }
  rewrite gcm_seal_ok by lia. fold tl iv.
  assert (SPEC : rtp_aead_cryptex_wire st0 k est pkt =
                 let '(ct, tag) := gcm_encrypt (ck_rks (k_rtp_c k)) iv (Hh ++ X) (Cs ++ Tt) (zn tl) in
                 Some (Hh ++ take n ct ++ X ++ drop n ct ++ tag ++ (if s_use_mki st0 then k_mki k else []))).
  { unfold rtp_aead_cryptex_wire. rewrite HLp, EVb. cbn [negb]. cbv zeta. fold hl. rewrite PV.
    fold vb p2 n Hh X Cs Tt iv tl. reflexivity. }
  remember (gcm_encrypt (ck_rks (k_rtp_c k)) iv (Hh ++ X) (Cs ++ Tt) (zn tl)) as ge eqn:EG in *.
  destruct ge as [ct tag]. symmetry in EG. pose proof (gcm_encrypt_length _ _ _ _ _ _ _ EG) as [LG1 LG2].
  set (o := ct ++ tag) in *.
  assert (LCT : lenZ ct = L - 16) by (unfold lenZ in *; lia).
  assert (LTG : lenZ tag = tl) by (unfold lenZ, zn in *; lia).
  assert (LO : lenZ o = L - 16 + tl) by (subst o; rewrite lenZ_app; lia).
  change (negb (st_ok =? st_ok)) with false. cbv iota.
  eapply t_bind; [apply (t_wr_tail L C true src d0 HD); [unfold lenZ in *; lia|lia]|intros ?].
  change (zn 16) with 16%nat. rewrite (cxp_adjust_take n p2 Lp2n). rewrite <- ZH. fold Hh X.
  (* MKI *)
  set (mki := if s_use_mki st then k_mki k else []).
  assert (LM : lenZ mki = msz).
  { subst mki. destruct (s_use_mki st); [exact MK|]. rewrite (U eq_refl). reflexivity. }
  assert (LHX : lenZ (Hh ++ X) = 16) by (rewrite lenZ_app; subst Hh X; unfold lenZ; rewrite L1, ZH, L3; reflexivity).
  apply t_bind with (R := fun _ => S ss3 (facts_ok [(0, ((Hh ++ X) ++ o) ++ mki)])).
  { replace (s_use_mki st2) with (s_use_mki st) by (unfold st2; rewrite charged_umki; reflexivity).
    subst mki. destruct (s_use_mki st) eqn:EU.
    - replace (16 + lenZ o) with (lenZ ((Hh ++ X) ++ o)) by (rewrite lenZ_app; lia).
      apply t_wr_append; [exact HD|rewrite lenZ_app; lia|constructor].
    - apply t_ret. intros w Hw. rewrite app_nil_r. exact Hw. }
  intros ?.
  (* the shuffle is undone *)
  eapply t_bind; [apply (t_restore L C true src d0 pkt HD); fold hl;
                  [rewrite (lenZ_app ((Hh ++ X) ++ o)), (lenZ_app (Hh ++ X)); lia|lia]|intros ?].
  fold n. rewrite <- (app_assoc (Hh ++ X) o mki).
  subst Hh X. rewrite ZH. rewrite (cxp_restore n p2 Lp2n) by (subst o; rewrite app_length; unfold lenZ, zn in *; subst n; unfold zn; lia).
  rewrite <- ZH. set (Hh := take 12 p2). set (X := slice (zn hl) 4 p2).
  assert (TO : take n o = take n ct).
  { subst o. apply CryptexProofs.take_app_le. unfold lenZ, zn in *. subst n. unfold zn. lia. }
  assert (DO : drop n o = drop n ct ++ tag).
  { subst o. apply CryptexProofs.drop_app_le. unfold lenZ, zn in *. subst n. unfold zn. lia. }
  rewrite TO, DO.
  apply t_ret. intros w (h0 & h1 & h2 & h3 & h4 & h5 & h6 & h7).
  exists ki, k, ss2, est, st3, (Hh ++ take n ct ++ X ++ (drop n ct ++ tag) ++ mki).
  rewrite <- Est. split; [exact EK|]. split; [exact EC|]. split; [exact E3|].
  split; [rewrite SPEC, <- CU, <- app_assoc; reflexivity|].
  assert (LW : lenZ (Hh ++ take n ct ++ X ++ (drop n ct ++ tag) ++ mki) = L + tl + msz).
  { rewrite !lenZ_app. subst Hh X. unfold lenZ in *. rewrite L1, ZH, L3, take_length, drop_length.
    subst n. unfold zn in *. lia. }
  replace (16 + lenZ o + s_mki_size st2) with (lenZ (Hh ++ take n ct ++ X ++ (drop n ct ++ tag) ++ mki))
    by (unfold st2; rewrite charged_mki; fold msz; lia).
  rewrite u64_small by lia. split; [reflexivity|]. split; [|auto].
  rewrite zn_len. pose proof (fact_get _ _ 0 _ h7 ltac:(left; reflexivity)) as F.
  change (zn 0) with O in F. rewrite slice_0 in F. exact F.
Qed.
End CX_INPLACE.

(* ===================================================================== *)
(* 4. srtp_unprotect with a GCM key on that wire image, in place           *)
(* ===================================================================== *)
Section CX_INPLACE_RX.
Variables (L C : Z) (src d0 : bytes).
Variables (st rt : stream) (ki : Z) (k : skeys) (est delta : Z) (adv : bool) (pkt wire : bytes).
Hypothesis HC : 0 <= C < 9223372036854775808.
Hypothesis HD : C <= lenZ d0.
Hypothesis Hwire : take (zn L) d0 = wire.
Hypothesis HLw : lenZ wire = L.

Notation S := (St L C true src d0).

Ltac norm_b :=
  change (b_len (b_init L C true src d0)) with L;
  change (b_cap (b_init L C true src d0)) with C;
  change (b_alias (b_init L C true src d0)) with true;
  rewrite ?(Hwire : take (zn L) (cur_src (b_init L C true src d0)) = wire).
Ltac t_false := first [apply t_bind_exit | apply t_exit]; intros ? ?; exfalso.

Hypothesis HW : rtp_aead_cryptex_wire st k est pkt = Some wire.
Hypothesis HX : hdr_x pkt = 1.
(* the two profile octets of the packet are octets *)
Hypothesis PO : profile_octets pkt.
Hypothesis HCp : lenZ pkt <= C.
Hypothesis Wrt : stream_wf rt.
Hypothesis RCX : s_cryptex rt = true.
Hypothesis Rconf : rtp_conf rt = true.
Hypothesis EU : s_use_mki rt = s_use_mki st.
Hypothesis Hk : In k (s_keys rt).
Hypothesis XK : k_xtn_c k = None.
Hypothesis Hsel : aead_key_selected rt ki k.
Variable ss0 ss1 : session.
Hypothesis Hget : list_get (ss_list ss0) (hdr_ssrc pkt) = Some rt.
Hypothesis Hidx : rx_index rt (hdr_seq pkt) = inl (est, delta, adv).
Hypothesis Hch : charge_fun ss0 (hdr_ssrc pkt) rt ki = (ss1, inl tt).

Definition CRxQ (l : Z) (w : world) : Prop :=
  l = lenZ pkt /\
  w_s w = sess_put (dir_session ss1 (hdr_ssrc pkt) (charged_stream rt ki) dir_srtp_receiver_c) (hdr_ssrc pkt)
            (rx_commit (dir_stream (charged_stream rt ki) dir_srtp_receiver_c) est delta adv) /\
  take (zn l) (b_dst (w_b w)) = pkt /\ b_src (w_b w) = src /\ b_oob (w_b w) = false.

Lemma unprotect_aead_cryptex_tri : tri (S ss0 (eq d0)) unprotect_aead CRxQ (fun _ _ => False).
Proof.
  (* what the wire image consists of *)
  pose proof HW as HW'. unfold rtp_aead_cryptex_wire in HW'.
  destruct (validate_rtp pkt (lenZ pkt) =? st_ok) eqn:EVb; cbn [negb] in HW'; [|discriminate].
  pose proof EVb as EV. apply Z.eqb_eq in EV. cbv zeta in HW'.
  set (Lp := lenZ pkt) in *. set (hl := hdr_len pkt) in *. set (n := zn (4 * hdr_cc pkt)) in *.
  destruct (cryptex_profile_of (be16 pkt (zn hl))) as [v|] eqn:PV; [|discriminate].
  set (vb := be_bytes 2 (Z.to_N v)) in *. set (p2 := splice (zn hl) vb pkt) in *.
  set (tl := ak_tag (k_rtp_a k)) in *. set (iv := aead_rtp_iv (k_salt k) (hdr_ssrc pkt) est) in *.
  set (Hh := take 12 p2) in *. set (X := slice (zn hl) 4 p2) in *.
  set (Cs := slice 12 n p2) in *. set (Tt := drop (zn (hl + 4)) p2) in *.
  destruct (gcm_encrypt (ck_rks (k_rtp_c k)) iv (Hh ++ X) (Cs ++ Tt) (zn tl)) as [ct tag] eqn:EG.
  injection HW' as HW''.
  set (mki := if s_use_mki st then k_mki k else []) in *.
  assert (HW' : Hh ++ take n ct ++ X ++ drop n ct ++ tag ++ mki = wire) by exact HW''. clear HW''.
  pose proof (validate_rtp_ok _ _ EV) as (V1 & V2 & V3). specialize (V3 HX). fold hl in V2, V3.
  pose proof (hdr_cc_range pkt) as CC. pose proof (hdr_len_eq pkt) as HLn. fold hl in HLn. pose proof (xtn_len_ge pkt) as XL.
  assert (ZH : zn hl = (12 + n)%nat) by (subst n; unfold zn; lia).
  assert (ZH4 : zn (hl + 4) = (12 + n + 4)%nat) by (subst n; unfold zn; lia).
  assert (LV : length vb = 2%nat) by (subst vb; apply be_bytes_length).
  assert (LP2 : lenZ p2 = Lp) by (subst p2; rewrite lenZ_splice; reflexivity).
  assert (Lp2n : (12 + n + 4 <= length p2)%nat) by (unfold lenZ, zn in *; subst n; unfold zn; lia).
  destruct (cxp_len n p2 Lp2n) as (L1 & L2 & L3 & L4).
  pose proof (stream_wf_key _ _ Wrt Hk) as (MK & TA & _).
  pose proof Wrt as (Mb & U & _). rewrite max_mki_value in Mb.
  set (msz := s_mki_size rt) in *.
  pose proof TA as [T _]. rewrite max_tag_value in T. fold tl in T.
  pose proof (gcm_encrypt_length _ _ _ _ _ _ _ EG) as [LG1 LG2].
  assert (LCsT : lenZ (Cs ++ Tt) = Lp - 16).
  { subst Cs Tt. rewrite lenZ_app. unfold lenZ in *. rewrite ZH4, L2, L4. lia. }
  assert (LCT : lenZ ct = Lp - 16) by (unfold lenZ in *; lia).
  assert (LTG : lenZ tag = tl) by (unfold lenZ, zn in *; lia).
  assert (LM : lenZ mki = msz).
  { subst mki. rewrite <- EU. destruct (s_use_mki rt); [exact MK|]. rewrite (U eq_refl). reflexivity. }
  set (c1 := take n ct) in *. set (c2 := drop n ct) in *.
  assert (Lc1 : length c1 = n) by (subst c1; rewrite take_length; unfold lenZ, zn in *; subst n; unfold zn; lia).
  assert (Lc2 : lenZ c2 = Lp - 16 - 4 * hdr_cc pkt).
  { subst c2. unfold lenZ in *. rewrite drop_length. subst n. unfold zn in *. lia. }
  assert (LHh : length Hh = 12%nat) by exact L1.
  assert (LX : length X = 4%nat) by (subst X; rewrite ZH; exact L3).
  assert (LWl : L = Lp + tl + msz).
  { rewrite <- HLw, <- HW'. rewrite !lenZ_app. unfold lenZ in *. rewrite LHh, Lc1, LX. subst n. unfold zn in *. lia. }
  (* the header of the wire image *)
  assert (T12 : take 12 wire = take 12 pkt).
  { rewrite <- HW'. rewrite (XtnProofs.take_app_exact Hh _ 12 LHh). subst Hh p2.
    apply take_splice_below. unfold zn in *. lia. }
  destruct (hdr12 _ _ T12) as (Wcc & Wx & Wseq & Wssrc & Whl). fold hl in Whl.
  assert (WX : slice (zn hl) 4 wire = X).
  { rewrite <- HW', ZH. rewrite (app_assoc Hh c1). apply CryptexProofs.slice_mid; [rewrite app_length; lia|exact LX]. }
  assert (BX2 : be16 X 2 = be16 pkt (zn (hl + 2))).
  { subst X. rewrite be16_slice4. subst p2.
    replace (zn hl + 2)%nat with (zn (hl + 2)) by (unfold zn; lia).
    unfold be16. rewrite slice_splice_above by (rewrite LV; unfold zn; lia). reflexivity. }
  assert (Wxl : xtn_len wire = xtn_len pkt).
  { unfold xtn_len. rewrite Whl. fold hl. f_equal. f_equal.
    replace (zn (hl + 2)) with (zn hl + 2)%nat by (unfold zn; lia).
    rewrite <- (be16_slice4 wire (zn hl)), WX, BX2. f_equal. unfold zn; lia. }
  destruct (unprof_set pkt (zn hl) v ltac:(unfold lenZ, zn in *; lia) PO PV) as [UP BV]. fold vb p2 in UP, BV.
  assert (BX0 : be16 X 0 = be16 p2 (zn hl)) by (subst X; apply be16_slice4_0).
  assert (VW : validate_rtp wire L = st_ok).
  { apply (validate_rtp_longer wire pkt L Lp EV); [lia|exact Wcc|exact Wx|].
    unfold enc0. rewrite Wx, Whl, Wxl. reflexivity. }
  assert (WMK : slice (zn (L - 0 - msz)) (zn msz) wire = mki).
  { rewrite <- HW'. rewrite (app_assoc Hh), (app_assoc (Hh ++ c1)), (app_assoc ((Hh ++ c1) ++ X)), (app_assoc (((Hh ++ c1) ++ X) ++ c2)).
    rewrite <- (app_nil_r mki) at 1.
    apply slice_mid'; unfold lenZ, zn in *; rewrite ?app_length; rewrite ?LHh, ?Lc1, ?LX; subst n; unfold zn; lia. }
  assert (RK : receiver_key_st rt wire L 0 = inl (ki, k)).
  { unfold receiver_key_st. unfold aead_key_selected in Hsel. fold msz.
    destruct (s_use_mki rt) eqn:EUr; cbn [negb].
    - destruct (L <? 0) eqn:Q1; [apply Z.ltb_lt in Q1; lia|].
      destruct (L - 0 <? msz) eqn:Q2; [apply Z.ltb_lt in Q2; lia|].
      rewrite WMK. subst mki. rewrite <- EU. rewrite Hsel. reflexivity.
    - destruct Hsel as [Hh' ->]. destruct (s_keys rt) as [|k1 t]; [discriminate|]. cbn in Hh'. injection Hh' as ->. reflexivity. }
  (* the call *)
  unfold unprotect_aead.
  eapply t_bind; [apply t_get_b0|intros b]. apply t_pure; intros ->.
  cbv beta zeta. norm_b.
  change octets_in_rtp_header_c with 12. change octets_in_rtp_xtn_hdr_c with 4.
  rewrite VW. change (check_st st_ok) with (@ret unit tt). apply t_bind_ret.
  eapply t_bind; [apply t_get_s|intros ss]. apply t_pure; intros ->.
  rewrite Wssrc, Hget. apply t_bind_ret.
  eapply t_bind; [apply t_get_stream_list; exact Hget|intros st']. apply t_pure; intros ->.
  rewrite Wseq.
  eapply t_bind2; [apply t_rx_index| |intros eda].
  { intros s w [EI _]. rewrite Hidx in EI. discriminate EI. }
  apply t_pure; intros EI. rewrite Hidx in EI. injection EI as <-. cbv beta iota.
  pose proof Hwire as Hwire'.
  eapply t_bind2; [apply (t_keys_by_packet L C true src d0 wire Hwire' ss0 rt 0 Wrt); lia| |intros ik].
  { intros s w [EK _]. rewrite RK in EK. discriminate EK. }
  apply t_pure; intros EK. rewrite RK in EK. injection EK as <-. cbv beta iota.
  fold tl msz.
  (* cryptex is in use: profile and extension length from the packet *)
  unfold rtp_conf in Rconf. rewrite RCX, Rconf, Wx, HX, Whl, Wcc. cbn [andb Z.eqb Pos.eqb].
  assert (HLL : hl + xtn_len pkt <= L) by lia.
  apply t_bind with (R := fun iu w => iu = true /\ S ss0 (eq d0) w).
  { eapply t_bind; [apply (t_rd_src0 L C true src d0 wire Hwire'); lia|intros h]. apply t_pure; intros ->.
    apply t_ret. intros w Hw. split; [|exact Hw].
    change (zn 4) with 4%nat. rewrite WX, BX0. apply orb_true_iff. destruct BV as [B|B]; rewrite B; [left|right]; reflexivity. }
  intros iu. apply t_pure; intros ->. cbn [andb].
  apply t_bind with (R := fun xl w => xl = xtn_len pkt /\ S ss0 (eq d0) w).
  { eapply t_bind; [apply (t_rd_src0 L C true src d0 wire Hwire'); lia|intros h]. apply t_pure; intros ->.
    apply t_ret. intros w Hw. split; [|exact Hw].
    change (zn 4) with 4%nat. rewrite WX, BX2. unfold xtn_len. fold hl. reflexivity. }
  intros xl. apply t_pure; intros ->. rewrite Wxl.
  assert (ES16 : u64 (u64 (hl + xtn_len pkt - (xtn_len pkt - 4)) - hdr_cc pkt * 4) = 16).
  { rewrite (u64_small (hl + xtn_len pkt - (xtn_len pkt - 4))) by lia. rewrite u64_small by lia. lia. }
  rewrite ES16. apply t_bind_ret.
  replace (L - tl - msz) with Lp by lia.
  rewrite (u64_small Lp) by lia. rewrite (u64_small (16 + hdr_cc pkt * 4)) by lia.
  destruct (Lp <? 16 + hdr_cc pkt * 4) eqn:Q1; [apply Z.ltb_lt in Q1; lia|]. apply t_bind_ret.
  (* the whole extension ends in front of the trailer *)
  cbn [andb]. rewrite (u64_small (hl + xtn_len pkt)) by lia.
  destruct (Lp <? hl + xtn_len pkt) eqn:Q1b; [apply Z.ltb_lt in Q1b; lia|]. apply t_bind_ret.
  replace (L - 16 - msz) with (Lp - 16 + tl) by lia. rewrite (u64_small (Lp - 16 + tl)) by lia.
  set (el := Lp - 16 + tl) in *.
  destruct (el <? tl) eqn:Q2; [apply Z.ltb_lt in Q2; lia|]. apply t_bind_ret.
  replace (L - msz - tl) with Lp by lia. rewrite (u64_small Lp) by lia.
  destruct (C <? Lp) eqn:Q3; [apply Z.ltb_lt in Q3; lia|]. apply t_bind_ret.
  apply t_bind_ret.
  apply t_weaken with (D' := facts_ok [(0, wire)]).
  { intros dd _ <-. constructor; [|constructor]. split; [cbn [fst]; lia|]. cbn [fst snd].
    replace (length wire) with (zn L) by (unfold lenZ, zn in *; lia). exact Hwire. }
  (* the shuffle *)
  eapply t_bind; [apply (t_adjust L C true src d0 wire HD); rewrite Whl; lia|intros ?].
  rewrite Wcc. fold n.
  assert (EAW : adjust_dst n wire = (Hh ++ X) ++ c1 ++ c2 ++ tag ++ mki).
  { rewrite <- HW'. apply cxp_adjust_wire; assumption. }
  rewrite EAW.
  assert (LHX : lenZ (Hh ++ X) = 16) by (rewrite lenZ_app; unfold lenZ; rewrite LHh, LX; reflexivity).
  assert (LAW : lenZ ((Hh ++ X) ++ c1 ++ c2 ++ tag ++ mki) = L).
  { rewrite <- EAW. unfold lenZ. rewrite adjust_dst_length. exact HLw. }
  eapply t_bind; [apply (rd_alias L C src d0 pkt); lia|intros aad]. apply t_pure; intros ->.
  eapply t_bind; [apply (rd_alias L C src d0 pkt); lia|intros d]. apply t_pure; intros ->.
  change (zn 0) with O. rewrite slice_0. change (zn 16) with 16%nat.
  rewrite (XtnProofs.take_app_exact (Hh ++ X) _ 16) by (unfold lenZ in LHX; lia).
  rewrite (CryptexProofs.slice_app_exact (Hh ++ X) _ 16) by (unfold lenZ in LHX; lia).
  assert (ECT : take (zn el) (c1 ++ c2 ++ tag ++ mki) = ct ++ tag).
  { rewrite (app_assoc c1 c2), (app_assoc (c1 ++ c2) tag). subst c1 c2. rewrite XtnProofs.take_drop_id.
    apply XtnProofs.take_app_exact. rewrite app_length. unfold lenZ, zn in *. subst el. lia. }
  rewrite ECT.
  rewrite (gcm_open_eq _ tl _ _ _ el el) by (try (rewrite lenZ_app); lia).
  replace (zn (el - tl)) with (length ct) by (unfold lenZ, zn in *; subst el; lia).
  rewrite RtpSpecProofs.take_app_exact, RtpSpecProofs.drop_app_exact.
  fold iv. rewrite (gcm_decrypt_encrypt _ _ _ _ _ _ _ EG).
  change (negb (st_ok =? st_ok)) with false. cbv iota.
  eapply t_bind; [apply (t_wr_tail L C true src d0 HD); lia|intros ?].
  change (zn 16) with 16%nat.
  rewrite (XtnProofs.take_app_exact (Hh ++ X) _ 16) by (unfold lenZ in LHX; lia).
  (* key usage *)
  eapply t_bind2; [eapply t_charge_key; exact Hget| |intros ?].
  { intros s w (ss' & EC & _). rewrite Hch in EC. discriminate EC. }
  apply t_ex; intros ss1'. apply t_pure; intros EC. apply t_pure; intros Hg1.
  rewrite Hch in EC. injection EC as <-.
  eapply t_bind; [apply t_get_stream_list; exact Hg1|intros st1]. apply t_pure; intros ->.
  (* the shuffle undone, the profile restored *)
  replace (rd_dst hl 2) with (rd_dst (hdr_len wire) 2) by (rewrite Whl; reflexivity).
  eapply t_bind; [eapply t_bind; [apply (t_restore L C true src d0 wire HD); rewrite Whl; [rewrite lenZ_app; lia|lia]|intros ?];
                  apply (t_unprof L C true src d0 wire HD); rewrite Whl; [unfold lenZ; rewrite restore_dst_length; fold (lenZ ((Hh ++ X) ++ Cs ++ Tt)); rewrite lenZ_app; lia|lia]|intros ?].
  rewrite Wcc, Whl. fold n.
  subst Hh X Cs Tt. rewrite ZH, ZH4. rewrite (cxp_restore_plain n p2 Lp2n). rewrite <- ZH, UP.
  rewrite XK. apply t_bind_ret.
  eapply t_conseq; [apply (tail_tri L C true src d0 pkt ss1 (charged_stream rt ki) adv est delta pkt _ (fun _ _ => False) Hg1)| |intros s w H; exact H].
  - assert (LQ : lenZ (slice 12 n p2 ++ drop (zn hl + 4) p2) = Lp - 16).
    { rewrite lenZ_app. unfold lenZ in *. rewrite slice_length, drop_length. lia. }
    rewrite LQ, u64_small by lia. subst Lp. lia.
  - intros l w H. exact H.
Qed.
End CX_INPLACE_RX.

(* ===================================================================== *)
(* 5. the theorems, for worlds                                            *)
(* ===================================================================== *)
(* the class: cryptex in use for the packet, no header-extension cipher, in place *)
Theorem protect_aead_cryptex_wire i w st0 w' l :
  call_ok w -> b_alias (w_b w) = true ->
  list_get (ss_list (w_s w)) (hdr_ssrc (in_pkt w)) = Some st0 -> stream_wf st0 ->
  s_cryptex st0 = true -> rtp_conf st0 = true -> hdr_x (in_pkt w) = 1 ->
  (forall k, In k (s_keys st0) -> k_xtn_c k = None) ->
  protect_aead i w = (w', inl l) ->
  exists ki k ss2 est st3 wire,
    sender_key_st (dir_stream st0 dir_srtp_sender_c) i = inl (ki, k) /\
    charge_fun (dir_session (w_s w) (hdr_ssrc (in_pkt w)) st0 dir_srtp_sender_c) (hdr_ssrc (in_pkt w))
               (dir_stream st0 dir_srtp_sender_c) ki = (ss2, inl tt) /\
    index_step (charged_stream (dir_stream st0 dir_srtp_sender_c) ki) (hdr_seq (in_pkt w)) = inl (est, st3) /\
    rtp_aead_cryptex_wire st0 k est (in_pkt w) = Some wire /\
    l = lenZ wire /\ take (zn l) (b_dst (w_b w')) = wire /\
    w_s w' = sess_put ss2 (hdr_ssrc (in_pkt w)) st3 /\
    b_src (w_b w') = b_src (w_b w) /\ b_oob (w_b w') = false.
Proof.
  intros (HO & HL & HC & HD & HS) HA Hget Hwf Hcx Hconf HX Hxk E.
  assert (HLp : lenZ (in_pkt w) = b_len (w_b w)).
  { unfold in_pkt, lenZ, zn, size_ok in *. rewrite take_length. lia. }
  assert (Hp : take (zn (b_len (w_b w))) (b_dst (w_b w)) = in_pkt w) by (unfold in_pkt, cur_src; rewrite HA; reflexivity).
  pose proof (St_init w HO) as SI. rewrite HA in SI.
  pose proof (protect_aead_cryptex_tri (b_len (w_b w)) (b_cap (w_b w)) (b_src (w_b w)) (b_dst (w_b w))
                (in_pkt w) HL HC HD Hp HLp (w_s w) st0 Hget Hwf Hcx Hconf HX Hxk i w SI) as T.
  rewrite E in T. exact T.
Qed.
Print Assumptions protect_aead_cryptex_wire.

(* ROUND TRIP: st, k, est = the sender's stream, key and index; the receiver's call works in place on
   a block that holds the wire image; any number of CSRCs *)
Theorem rtp_aead_cryptex_round_trip st k est pkt wire w rt ki delta adv ss1 :
  rtp_aead_cryptex_wire st k est pkt = Some wire -> hdr_x pkt = 1 -> profile_octets pkt ->
  call_ok w -> b_alias (w_b w) = true -> in_pkt w = wire -> lenZ pkt <= b_cap (w_b w) ->
  list_get (ss_list (w_s w)) (hdr_ssrc pkt) = Some rt -> stream_wf rt ->
  s_cryptex rt = true -> rtp_conf rt = true -> s_use_mki rt = s_use_mki st ->
  In k (s_keys rt) -> k_xtn_c k = None -> aead_key_selected rt ki k ->
  rx_index rt (hdr_seq pkt) = inl (est, delta, adv) ->
  charge_fun (w_s w) (hdr_ssrc pkt) rt ki = (ss1, inl tt) ->
  exists w', unprotect_aead w = (w', inl (lenZ pkt)) /\
             take (zn (lenZ pkt)) (b_dst (w_b w')) = pkt /\
             w_s w' = sess_put (dir_session ss1 (hdr_ssrc pkt) (charged_stream rt ki) dir_srtp_receiver_c) (hdr_ssrc pkt)
                        (rx_commit (dir_stream (charged_stream rt ki) dir_srtp_receiver_c) est delta adv) /\
             b_oob (w_b w') = false /\ b_src (w_b w') = b_src (w_b w).
Proof.
  intros HW HX PO (HO & HL & HC & HD & HS) HA Hin HCp Hget Wrt RCX Rconf EU Hk XK Hsel Hidx Hch.
  assert (HLw : lenZ wire = b_len (w_b w)).
  { rewrite <- Hin. unfold in_pkt, lenZ, zn, size_ok in *. rewrite take_length. lia. }
  assert (Hp : take (zn (b_len (w_b w))) (b_dst (w_b w)) = wire) by (rewrite <- Hin; unfold in_pkt, cur_src; rewrite HA; reflexivity).
  pose proof (St_init w HO) as SI. rewrite HA in SI.
  pose proof (unprotect_aead_cryptex_tri (b_len (w_b w)) (b_cap (w_b w)) (b_src (w_b w)) (b_dst (w_b w))
                st rt ki k est delta adv pkt wire HC HD Hp HLw HW HX PO HCp Wrt RCX Rconf EU Hk XK Hsel
                (w_s w) ss1 Hget Hidx Hch w SI) as T.
  destruct (unprotect_aead w) as [w' [l|s]]; [|contradiction].
  destruct T as (-> & T1 & T2 & T3 & T4). exists w'. auto.
Qed.
Print Assumptions rtp_aead_cryptex_round_trip.
