(* IndexProofs.v — packet-index estimation (C06): srtp_index_guess,
   srtp_rdbx_estimate_index and the imposed-ROC estimator of srtp.c. *)
From Coq Require Import ZArith List Bool Lia.
From Srtp Require Import Util Constants Rdbx.
Local Open Scope Z_scope.
Ltac Zify.zify_post_hook ::= Z.div_mod_to_equations.

Lemma median_value : seq_num_median_c = 2 ^ 15. Proof. reflexivity. Qed.
Lemma seqmax_value : seq_num_max_c = 2 ^ 16. Proof. reflexivity. Qed.

(* the estimate is exact whenever the true index is within 2^15 of the local one *)
Lemma index_guess_exact local i :
  0 <= local < 2 ^ 48 -> 0 <= i < 2 ^ 48 -> Z.abs (i - local) < 2 ^ 15 ->
  index_guess local (i mod 65536) = (i, i - local).
Proof.
  intros Hl Hi Hd. unfold index_guess, u32, u16.
  rewrite median_value, seqmax_value.
  change (2 ^ 15) with 32768 in *. change (2 ^ 16) with 65536 in *. change (2 ^ 48) with 281474976710656 in *.
  destruct (local mod 65536 <? 32768) eqn:E1.
  - destruct (32768 <? i mod 65536 - local mod 65536) eqn:E2.
    + apply Z.ltb_lt in E1, E2. f_equal; lia.
    + apply Z.ltb_lt in E1. apply Z.ltb_ge in E2. f_equal; lia.
  - destruct (i mod 65536 <? local mod 65536 - 32768) eqn:E2.
    + apply Z.ltb_ge in E1. apply Z.ltb_lt in E2. f_equal; lia.
    + apply Z.ltb_ge in E1, E2. f_equal; lia.
Qed.

Lemma s64_small x : - 2 ^ 63 <= x < 2 ^ 63 -> s64 x = x.
Proof.
  intros H. unfold s64, u64.
  change (2 ^ 63) with 9223372036854775808 in H.
  destruct (x mod 18446744073709551616 <? 9223372036854775808) eqn:E.
  - apply Z.ltb_lt in E. lia.
  - apply Z.ltb_ge in E. lia.
Qed.

Lemma estimate_exact r i :
  0 <= index r < 2 ^ 48 -> 0 <= i < 2 ^ 48 -> Z.abs (i - index r) < 2 ^ 15 ->
  estimate r (i mod 65536) = (i, i - index r).
Proof.
  intros Hl Hi Hd. unfold estimate. rewrite median_value.
  destruct (2 ^ 15 <? index r) eqn:E.
  - apply index_guess_exact; assumption.
  - apply Z.ltb_ge in E. change (2 ^ 15) with 32768 in *. change (2 ^ 48) with 281474976710656 in *.
    assert (i mod 65536 = i) by lia. rewrite H.
    rewrite s64_small by (change (2 ^ 63) with 9223372036854775808; lia). reflexivity.
Qed.

(* RFC 3711 3.3.1 / Appendix A: the chosen ROC is one of ROC-1, ROC, ROC+1 (mod 2^32)
   and no other of the three candidates is closer to the local index *)
Lemma index_guess_closest local s :
  0 <= local < 2 ^ 48 -> 0 <= s < 2 ^ 16 ->
  let roc := local / 65536 in
  let '(g, d) := index_guess local s in
  exists v, (v = roc - 1 \/ v = roc \/ v = roc + 1) /\
            g = u32 v * 65536 + s /\ d = v * 65536 + s - local /\
            Z.abs d <= 2 ^ 15 /\
            forall w, (w = roc - 1 \/ w = roc \/ w = roc + 1) -> Z.abs d <= Z.abs (w * 65536 + s - local).
Proof.
  intros Hl Hs roc. unfold index_guess, u16.
  rewrite median_value, seqmax_value.
  change (2 ^ 15) with 32768 in *. change (2 ^ 16) with 65536 in *. change (2 ^ 48) with 281474976710656 in *.
  assert (Hroc : 0 <= roc < 4294967296) by (subst roc; lia).
  assert (Hu : u32 (local / 65536) = roc) by (unfold u32; subst roc; lia).
  rewrite Hu.
  assert (Hdec : local = roc * 65536 + local mod 65536) by (subst roc; lia).
  destruct (local mod 65536 <? 32768) eqn:E1.
  - destruct (32768 <? s - local mod 65536) eqn:E2.
    + apply Z.ltb_lt in E1, E2. exists (roc - 1).
      repeat split; try lia; try (intros w [-> | [-> | ->]]; lia).
    + apply Z.ltb_lt in E1. apply Z.ltb_ge in E2. exists roc.
      replace (u32 roc) with roc by (unfold u32; lia).
      repeat split; try lia; try (intros w [-> | [-> | ->]]; lia).
  - destruct (s <? local mod 65536 - 32768) eqn:E2.
    + apply Z.ltb_ge in E1. apply Z.ltb_lt in E2. exists (roc + 1).
      repeat split; try lia; try (intros w [-> | [-> | ->]]; lia).
    + apply Z.ltb_ge in E1, E2. exists roc.
      replace (u32 roc) with roc by (unfold u32; lia).
      repeat split; try lia; try (intros w [-> | [-> | ->]]; lia).
Qed.

(* while the local index is at most 2^15 the ROC-1 candidate is never produced:
   the estimate is the bare sequence number (ROC 0) *)
Lemma estimate_no_roc_minus_one r s :
  0 <= index r <= 2 ^ 15 -> 0 <= s < 2 ^ 16 -> fst (estimate r s) = s.
Proof.
  intros H Hs. unfold estimate. rewrite median_value.
  destruct (2 ^ 15 <? index r) eqn:E; [apply Z.ltb_lt in E; lia | reflexivity].
Qed.

(* what happens at ROC = 2^32-1 (outside the premise of every other theorem):
   a sequence number that wraps is estimated with ROC 0 *)
Lemma index_guess_wraps_at_max_roc :
  index_guess (4294967295 * 65536 + 65535) 0 = (0, 1).
Proof. vm_compute. reflexivity. Qed.

(* the imposed-ROC estimator: in its 'ok' range it returns the imposed index and the exact delta *)
Lemma estimate_pending_ok r roc s :
  0 <= index r < 2 ^ 63 -> 0 <= roc < 2 ^ 32 -> 0 <= s < 2 ^ 16 ->
  let est := roc * 65536 + s in
  let '(st, e, d) := estimate_pending r roc s in
  e = est /\
  (st = st_ok <-> Z.abs (est - index r) <= 2 ^ 15) /\
  (st = st_pkt_idx_adv <-> est - index r > 2 ^ 15) /\
  (st = st_pkt_idx_old <-> index r - est > 2 ^ 15) /\
  (st = st_ok -> d = est - index r) /\ (st <> st_ok -> d = 0).
Proof.
  intros Hi Hr Hs est. unfold estimate_pending. fold est. rewrite median_value.
  change (2 ^ 15) with 32768 in *. change (2 ^ 16) with 65536 in *.
  change (2 ^ 32) with 4294967296 in *. change (2 ^ 63) with 9223372036854775808 in *.
  assert (He : 0 <= est < 281474976710656) by (subst est; lia).
  assert (Hs64 : s64 (est - index r) = est - index r)
    by (apply s64_small; change (2 ^ 63) with 9223372036854775808; lia).
  unfold st_ok, st_pkt_idx_adv, st_pkt_idx_old.
  destruct (index r <? est) eqn:E1.
  - apply Z.ltb_lt in E1. destruct (32768 <? est - index r) eqn:E2.
    + apply Z.ltb_lt in E2. repeat split; intros; try discriminate; try lia.
    + apply Z.ltb_ge in E2. repeat split; intros; try discriminate; try lia.
  - apply Z.ltb_ge in E1. destruct (est <? index r) eqn:E3.
    + apply Z.ltb_lt in E3. destruct (32768 <? index r - est) eqn:E2.
      * apply Z.ltb_lt in E2. repeat split; intros; try discriminate; try lia.
      * apply Z.ltb_ge in E2. repeat split; intros; try discriminate; try lia.
    + apply Z.ltb_ge in E3. repeat split; intros; try discriminate; try lia.
Qed.
