(* RtpRoundTripCryptex.v — C01 (SRTP), cryptex class (RFC 9335): srtp_unprotect applied to what
   srtp_protect puts on the wire (rtp_wire of RtpSpec.v) returns exactly the RTP packet, in
   place and out of place, for streams WITH cryptex configured and no header-extension cipher
   (s_cryptex st = true, k_xtn_c k = None).

   Two sub-cases (cx_used below):
   - cryptex in use for this packet (confidentiality on and X = 1): on the wire the profile
     is 0xC0DE / 0xC2DE and CSRC list ++ everything behind the 4-octet extension header is one
     encrypted run.  In place the receiver moves the extension header in front of the CSRC list
     (cryptex_adjust), decrypts [16, len), moves it back (cryptex_restore) and restores the
     profile; out of place it decrypts the CSRC list in the destination (crypt_dst_region) and
     then the rest from the source.  The latter needs chunking independence of the cipher
     (CipherChunk.v).
   - cryptex configured but not in use (no confidentiality, or X = 0): the packet is treated
     as in the plain class.

   Domain: as srtp_round_trip, plus: the two profile octets of the packet are octets (< 256)
   — the model's byte strings are lists of N, and the receiver rewrites the profile with
   be_bytes; see profile_octets and the non-octet counterexample at the end of the file. *)
From Coq Require Import NArith ZArith List Bool Lia.
From Srtp Require Import XtnProofs CryptexProofs.
From Srtp Require Import Util Constants KeyLimit Rdb Rdbx Icm World Stream Rtp
     MonadLemmas EnvelopeProofs WfProofs BoundsRtcp BoundsRtp LengthProofs RtcpSpec RtpSpec RtpSpecProofs
     RtpRoundTrip RtpXtnApply RtpRoundTripXtn CipherChunk.
Import ListNotations.
Local Open Scope Z_scope.

(* ===================================================================== *)
(* 1. steps of srtp_unprotect on the destination block                    *)
(* ===================================================================== *)
Lemma be16_slice2_0 l o : be16 (slice o 2 l) 0 = be16 l o.
Proof. unfold be16. rewrite slice_slice by lia. rewrite Nat.add_0_r. reflexivity. Qed.
Lemma be16_app_r a b o : be16 (a ++ b) (length a + o) = be16 b o.
Proof. unfold be16. rewrite slice_app_r. reflexivity. Qed.

Section CXSTEPS.
Variables (L C : Z) (al : bool) (src d0 : bytes).
Hypothesis HD : C <= lenZ d0.
Notation S := (St L C al src d0).

(* srtp_cryptex_adjust_buffer: H ++ M ++ T |-> H ++ drop n M ++ take n M ++ T *)
Lemma adjust_tri ss pk (H M T : bytes) :
  length H = 12%nat -> lenZ M = 4 * hdr_cc pk + 4 ->
  hdr_len pk + 4 <= C -> lenZ (H ++ M ++ T) <= lenZ d0 ->
  tri (S ss (facts_ok [(0, H ++ M ++ T)])) (cryptex_adjust pk)
      (fun _ => S ss (facts_ok [(0, H ++ drop (zn (4 * hdr_cc pk)) M ++ take (zn (4 * hdr_cc pk)) M ++ T)]))
      (fun _ _ => False).
Proof.
  intros LH LM HCp HLd. pose proof (hdr_cc_range pk) as CC. pose proof (hdr_len_eq pk) as HLE.
  unfold cryptex_adjust. destruct (hdr_cc pk =? 0) eqn:E0.
  - apply Z.eqb_eq in E0. rewrite E0. change (zn (4 * 0)) with O. cbn [drop take app].
    apply t_ret. auto.
  - apply Z.eqb_neq in E0. change octets_in_rtp_header_c with 12.
    set (P := H ++ M ++ T) in *. set (n := zn (4 * hdr_cc pk)).
    assert (LP : hdr_len pk + 4 <= lenZ P).
    { subst P. rewrite !lenZ_app. pose proof (lenZ_nonneg T). unfold lenZ in *. lia. }
    eapply t_bind; [apply t_rd_dst; lia|intros tmp]. apply t_pure; intros (dd & Hf & _ & ->).
    rewrite (fact0_read dd P _ _ (Forall_inv Hf)) by (unfold lenZ, zn in *; lia).
    eapply t_bind; [apply t_rd_dst; lia|intros csrc]. apply t_pure; intros (dd2 & Hf2 & _ & ->).
    rewrite (fact0_read dd2 P _ _ (Forall_inv Hf2)) by (unfold lenZ, zn in *; lia).
    assert (L1 : lenZ (slice (zn 12) (zn (4 * hdr_cc pk)) P) = 4 * hdr_cc pk) by (apply lenZ_slice_eq; lia).
    assert (L2 : lenZ (slice (zn (hdr_len pk)) (zn 4) P) = 4) by (apply lenZ_slice_eq; lia).
    eapply t_bind; [apply t_wr_in2; [lia|lia|lia|constructor]|intros ?].
    eapply t_post; [apply t_wr_in2; [lia|rewrite lenZ_splice; lia|lia|constructor]|].
    intros ? w Hw. eapply St_weaken; [|exact Hw]. intros dd3 _ Hf3.
    replace (H ++ drop n M ++ take n M ++ T) with (adjust_dst n P); [|subst P; apply adjust_dst_app; [exact LH|unfold lenZ, n, zn in *; lia]].
    unfold adjust_dst. change (zn 12) with 12%nat in Hf3. change (zn (12 + 4)) with 16%nat in Hf3. change (zn 4) with 4%nat in Hf3.
    replace (zn (hdr_len pk)) with (12 + n)%nat in Hf3 by (unfold n, zn; lia). exact Hf3.
Qed.

(* srtp_cryptex_restore_buffer: H ++ M ++ T |-> H ++ drop 4 M ++ take 4 M ++ T *)
Lemma restore_tri ss pk (H M T : bytes) :
  length H = 12%nat -> lenZ M = 4 * hdr_cc pk + 4 ->
  hdr_len pk + 4 <= C -> lenZ (H ++ M ++ T) <= lenZ d0 ->
  tri (S ss (facts_ok [(0, H ++ M ++ T)])) (cryptex_restore pk)
      (fun _ => S ss (facts_ok [(0, if hdr_cc pk =? 0 then H ++ M ++ T else H ++ drop 4 M ++ take 4 M ++ T)]))
      (fun _ _ => False).
Proof.
  intros LH LM HCp HLd. pose proof (hdr_cc_range pk) as CC. pose proof (hdr_len_eq pk) as HLE.
  unfold cryptex_restore. destruct (hdr_cc pk =? 0) eqn:E0.
  - apply t_ret. auto.
  - apply Z.eqb_neq in E0. change octets_in_rtp_header_c with 12.
    set (P := H ++ M ++ T) in *. set (n := zn (4 * hdr_cc pk)).
    assert (LP : hdr_len pk + 4 <= lenZ P).
    { subst P. rewrite !lenZ_app. pose proof (lenZ_nonneg T). unfold lenZ in *. lia. }
    eapply t_bind; [apply t_rd_dst; lia|intros tmp]. apply t_pure; intros (dd & Hf & _ & ->).
    rewrite (fact0_read dd P _ _ (Forall_inv Hf)) by (unfold lenZ, zn in *; lia).
    eapply t_bind; [apply t_rd_dst; lia|intros csrc]. apply t_pure; intros (dd2 & Hf2 & _ & ->).
    rewrite (fact0_read dd2 P _ _ (Forall_inv Hf2)) by (unfold lenZ, zn in *; lia).
    assert (L1 : lenZ (slice (zn (12 + 4)) (zn (4 * hdr_cc pk)) P) = 4 * hdr_cc pk) by (apply lenZ_slice_eq; lia).
    assert (L2 : lenZ (slice (zn 12) (zn 4) P) = 4) by (apply lenZ_slice_eq; lia).
    eapply t_bind; [apply t_wr_in2; [lia|lia|lia|constructor]|intros ?].
    eapply t_post; [apply t_wr_in2; [lia|rewrite lenZ_splice; lia|lia|constructor]|].
    intros ? w Hw. eapply St_weaken; [|exact Hw]. intros dd3 _ Hf3.
    replace (H ++ drop 4 M ++ take 4 M ++ T) with (restore_dst n P); [|subst P; apply restore_dst_app; [exact LH|unfold lenZ, n, zn in *; lia]].
    unfold restore_dst. change (zn 12) with 12%nat in Hf3. change (zn (12 + 4)) with 16%nat in Hf3. change (zn 4) with 4%nat in Hf3.
    replace (zn (12 + 4 * hdr_cc pk)) with (12 + n)%nat in Hf3 by (unfold n, zn; lia). exact Hf3.
Qed.

(* crypt_dst_region: a run of the destination is replaced by its encryption *)
Lemma region_tri ss cs cs2 (A ct pt B : bytes) :
  cipher_encrypt cs ct = (st_ok, cs2, pt) -> length pt = length ct ->
  lenZ A + lenZ ct <= C -> lenZ (A ++ ct ++ B) <= lenZ d0 ->
  tri (S ss (facts_ok [(0, A ++ ct ++ B)])) (crypt_dst_region cs (lenZ A) (lenZ ct))
      (fun r w => r = cs2 /\ S ss (facts_ok [(0, A ++ pt ++ B)]) w) (fun _ _ => False).
Proof.
  intros EE LP HCp HLd. unfold crypt_dst_region.
  pose proof (lenZ_nonneg A). pose proof (lenZ_nonneg ct). pose proof (lenZ_nonneg B).
  assert (LL : lenZ (A ++ ct ++ B) = lenZ A + lenZ ct + lenZ B) by (rewrite !lenZ_app; lia).
  eapply t_bind; [apply t_rd_dst; lia|intros d]. apply t_pure; intros (dd & Hf & _ & ->).
  rewrite (fact0_read dd _ _ _ (Forall_inv Hf)) by (unfold lenZ, zn in *; lia).
  rewrite !zn_len. rewrite (slice_mid A ct B _ _ eq_refl eq_refl).
  rewrite EE. change (st_ok =? st_ok) with true. cbn [negb].
  eapply t_bind; [apply t_wr_in2; [lia|unfold lenZ in *; lia|unfold lenZ in *; lia|constructor]|intros ?].
  apply t_ret. intros w Hw. split; [reflexivity|].
  rewrite zn_len, (splice_mid A ct B pt _ eq_refl LP) in Hw. exact Hw.
Qed.

(* srtp_cryptex_unprotect_cleanup, last part: the plain profile id is written back *)
Lemma profile_tri ss pk (A xc xr T : bytes) (plain : Z) :
  lenZ A = hdr_len pk -> length xc = 2%nat ->
  (be16 xc 0 = cryptex_one_byte_profile_c /\ plain = xtn_hdr_one_byte_profile_c \/
   be16 xc 0 = cryptex_two_byte_profile_c /\ plain = xtn_hdr_two_byte_profile_c) ->
  hdr_len pk + 2 <= C -> lenZ (A ++ xc ++ xr ++ T) <= lenZ d0 ->
  tri (S ss (facts_ok [(0, A ++ xc ++ xr ++ T)]))
      (h <- rd_dst (hdr_len pk) 2 ;;
       let profile := be16 h 0 in
       if profile =? cryptex_one_byte_profile_c then set_profile pk xtn_hdr_one_byte_profile_c
       else if profile =? cryptex_two_byte_profile_c then set_profile pk xtn_hdr_two_byte_profile_c
       else ret tt)
      (fun _ => S ss (facts_ok [(0, A ++ be_bytes 2 (Z.to_N plain) ++ xr ++ T)])) (fun _ _ => False).
Proof.
  intros LA Lc HP HCp HLd.
  pose proof (lenZ_nonneg A). pose proof (lenZ_nonneg (xr ++ T)).
  assert (LL : lenZ (A ++ xc ++ xr ++ T) = lenZ A + 2 + lenZ (xr ++ T)) by (rewrite !lenZ_app; unfold lenZ in *; lia).
  eapply t_bind; [apply t_rd_dst; lia|intros h]. apply t_pure; intros (dd & Hf & _ & ->).
  rewrite (fact0_read dd _ _ _ (Forall_inv Hf)) by (unfold lenZ, zn in *; lia).
  change (zn 2) with 2%nat. rewrite be16_slice2_0.
  replace (zn (hdr_len pk)) with (length A + 0)%nat by (unfold lenZ, zn in *; lia).
  rewrite be16_app_r, be16_app_l by lia. cbv zeta.
  assert (W : forall v, lenZ (be_bytes 2 v) = 2) by (intros v; rewrite lenZ_be_bytes; reflexivity).
  assert (WR : forall v, tri (S ss (facts_ok [(0, A ++ xc ++ xr ++ T)])) (set_profile pk v)
                 (fun _ => S ss (facts_ok [(0, A ++ be_bytes 2 (Z.to_N v) ++ xr ++ T)])) (fun _ _ => False)).
  { intros v. unfold set_profile. eapply t_post; [apply t_wr_in2; [lia|rewrite W; lia|rewrite W; lia|constructor]|].
    intros ? w Hw. replace (zn (hdr_len pk)) with (length A) in Hw by (unfold lenZ, zn in *; lia).
    rewrite (splice_mid A xc (xr ++ T) _ _ eq_refl) in Hw; [exact Hw|]. rewrite be_bytes_length, Lc. reflexivity. }
  destruct HP as [[-> ->]|[-> ->]].
  - change (cryptex_one_byte_profile_c =? cryptex_one_byte_profile_c) with true. cbv iota. apply WR.
  - change (cryptex_two_byte_profile_c =? cryptex_one_byte_profile_c) with false.
    change (cryptex_two_byte_profile_c =? cryptex_two_byte_profile_c) with true. cbv iota. apply WR.
Qed.
End CXSTEPS.

(* ===================================================================== *)
(* 2. srtp_unprotect up to the authentication check, cryptex or not        *)
(* ===================================================================== *)
Lemma hdr12 a b :
  take 12 a = take 12 b ->
  hdr_cc a = hdr_cc b /\ hdr_x a = hdr_x b /\ hdr_seq a = hdr_seq b /\ hdr_ssrc a = hdr_ssrc b /\ hdr_len a = hdr_len b.
Proof.
  intros E.
  assert (E0 : nthb a 0 = nthb b 0) by (apply (nthb_prefix a b 12); [exact E|lia]).
  assert (Ecc : hdr_cc a = hdr_cc b) by (unfold hdr_cc; rewrite E0; reflexivity).
  split; [exact Ecc|]. split; [unfold hdr_x; rewrite E0; reflexivity|].
  split; [unfold hdr_seq; apply (be16_prefix a b 12); [exact E|lia]|].
  split; [unfold hdr_ssrc; apply (be32_prefix a b 12); [exact E|lia]|].
  unfold hdr_len. rewrite Ecc. reflexivity.
Qed.

(* cryptex applies to this packet *)
Definition cx_used (st : stream) (pkt : bytes) : bool := s_cryptex st && rtp_conf st && (hdr_x pkt =? 1).

Section CXG.
Variables (L C : Z) (al : bool) (src d0 : bytes).
Variables (rt : stream) (ki : Z) (k : skeys) (est delta : Z) (pkt wire : bytes).
Variables (cs1 : cstate) (pre body : bytes).
Hypothesis HL : 0 <= L < 9223372036854775808.
Hypothesis HC : 0 <= C < 9223372036854775808.
Hypothesis HD : C <= lenZ d0.
Hypothesis Hwire : take (zn L) (if al then d0 else src) = wire.
Hypothesis HLw : lenZ wire = L.

Let Lp := lenZ pkt.
Let es := enc0 pkt.
Let hl := hdr_len pkt.
Let iv := rtp_iv (ck_alg (k_rtp_c k)) (hdr_ssrc pkt) est.
Let mki := if s_use_mki rt then k_mki k else [].
Let tag := wire_tag (k_rtp_a k) (rtp_auth rt) pre body est.
Let msz := s_mki_size rt.
Let tl := ak_tag (k_rtp_a k).
Let cxu := cx_used rt pkt.
(* where decryption starts *)
Definition cx_start : Z := if cxu then hl + 4 - (if al then 4 * hdr_cc pkt else 0) else es.
Let es' := cx_start.

Hypothesis Wrt : stream_wf rt.
Hypothesis Hk : In k (s_keys rt).
Hypothesis Hsel : key_selected rt ki k.
Hypothesis Hidx : est_index rt (hdr_seq pkt) = (st_ok, est, delta).
Hypothesis Hchk : rdbx_check (s_rdbx rt) delta = st_ok.
(* the wire image: body ++ MKI ++ tag; the fixed header and the length of the extension are
   those of the packet; with cryptex in use the profile is a cryptex one *)
Hypothesis EV : validate_rtp pkt Lp = st_ok.
Hypothesis EP : wire_prefix (rtp_auth rt) (k_rtp_a k) (cipher_start (k_rtp_c k) iv) = Some (cs1, pre).
Hypothesis LB : lenZ body = Lp.
Hypothesis Ewire : wire = body ++ mki ++ tag.
Hypothesis T12 : take 12 wire = take 12 pkt.
Hypothesis HXL : hdr_x pkt = 1 -> be16 wire (zn (hl + 2)) = be16 pkt (zn (hl + 2)).
Hypothesis Hprof : cxu = true ->
  (be16 wire (zn hl) =? cryptex_one_byte_profile_c) || (be16 wire (zn hl) =? cryptex_two_byte_profile_c) = true.
Hypothesis HCp : Lp <= C.

Notation S := (St L C al src d0).

Lemma g_len_facts :
  lenZ mki = msz /\ lenZ tag = tl /\ L = Lp + msz + tl /\ 0 <= tl <= 16 /\ 0 <= ak_prefix (k_rtp_a k) <= tl /\
  0 <= msz <= 128.
Proof.
  destruct (rt_key rt k Wrt Hk) as (MK & TA & M & U).
  assert (L4 : lenZ mki = msz).
  { subst mki. unfold msz. destruct (s_use_mki rt); [exact MK|]. rewrite (U eq_refl). reflexivity. }
  pose proof (akey_prefix_le _ TA) as PL. pose proof TA as [T _]. rewrite max_tag_value in T.
  assert (L5 : lenZ tag = tl).
  { subst tag. apply wire_tag_len; [exact TA|]. exact (wire_prefix_len _ _ _ _ _ EP (proj1 PL)). }
  repeat split; try assumption; try lia. rewrite <- HLw, Ewire, !lenZ_app. lia.
Qed.

Lemma g_wire_slices :
  slice (zn 0) (zn Lp) wire = body /\ slice (zn Lp) (zn msz) wire = mki /\ slice (zn (L - tl)) (zn tl) wire = tag.
Proof.
  destruct g_len_facts as (L4 & L5 & L6 & T & PL & M).
  assert (NLp : 0 <= Lp) by apply lenZ_nonneg.
  assert (N2 : length body = zn Lp) by (unfold lenZ, zn in *; lia).
  assert (N3 : length mki = zn msz) by (unfold lenZ, zn in *; lia).
  assert (N4 : length tag = zn tl) by (unfold lenZ, zn in *; lia).
  split; [|split].
  - rewrite Ewire. change (zn 0) with O. rewrite slice_app_l by lia. rewrite slice_0. apply take_all. lia.
  - rewrite Ewire. rewrite (slice_app_n0 body _ _ _ N2). apply take_app_n. exact N3.
  - rewrite Ewire, app_assoc. replace (zn (L - tl)) with (zn (Lp + msz) + 0)%nat by (unfold zn in *; lia).
    rewrite (slice_app_n (body ++ mki)) by (rewrite app_length; unfold zn in *; lia).
    rewrite slice_0. apply take_all. lia.
Qed.

Lemma g_wire_hdr :
  hdr_cc wire = hdr_cc pkt /\ hdr_x wire = hdr_x pkt /\ hdr_seq wire = hdr_seq pkt /\
  hdr_ssrc wire = hdr_ssrc pkt /\ hdr_len wire = hl /\ enc0 wire = es.
Proof.
  destruct (hdr12 _ _ T12) as (H1 & H2 & H3 & H4 & H5). repeat (split; [assumption|]).
  unfold es, enc0. rewrite H2, H5. destruct (hdr_x pkt =? 1) eqn:EX; [|reflexivity]. apply Z.eqb_eq in EX.
  f_equal. unfold xtn_len. rewrite H5. fold hl. rewrite (HXL EX). reflexivity.
Qed.

Lemma g_wire_valid : validate_rtp wire L = st_ok.
Proof.
  destruct g_wire_hdr as (H1 & H2 & _ & _ & _ & H6). destruct g_len_facts as (_ & _ & L6 & T & _ & M).
  apply (validate_rtp_longer wire pkt L Lp EV); [lia|exact H1|exact H2|exact H6].
Qed.

Lemma g_bounds : 12 <= hl /\ hl <= es <= Lp /\ 0 <= hdr_cc pkt < 16 /\ hl = 12 + 4 * hdr_cc pkt /\
                 (cxu = true -> es = hl + xtn_len pkt /\ 4 <= xtn_len pkt /\ 16 <= es' <= hl + 4 /\ hl + 4 <= es) /\
                 12 <= es' <= Lp.
Proof.
  pose proof (enc0_bounds _ _ EV) as EB. pose proof (hdr_cc_range pkt) as CC. pose proof (hdr_len_eq pkt) as HLE.
  pose proof (xtn_len_ge pkt) as XG. fold es Lp in EB. fold hl in HLE.
  assert (HE : hl <= es).
  { unfold es, enc0. fold hl. destruct (hdr_x pkt =? 1); lia. }
  assert (CX : cxu = true -> es = hl + xtn_len pkt /\ 4 <= xtn_len pkt /\ 16 <= es' <= hl + 4 /\ hl + 4 <= es).
  { intros U. unfold es', cx_start. rewrite U. unfold cxu, cx_used in U. apply andb_true_iff in U. destruct U as [_ U].
    apply Z.eqb_eq in U. unfold es. rewrite (enc0_eq pkt U). fold hl. destruct al; lia. }
  split; [lia|]. split; [lia|]. split; [lia|]. split; [lia|]. split; [exact CX|].
  destruct cxu eqn:U; [destruct (CX eq_refl); lia|]. unfold es', cx_start. rewrite U. lia.
Qed.

(* reading the input block: it holds the wire image in both modes *)
Lemma g_rd_wire ss fs e off n E :
  0 <= e <= L -> 0 <= off -> 0 <= n -> off + n <= L ->
  tri (S ss (facts_ok ((0, P0 al wire e) :: fs))) (rd_src off n)
      (fun d w => d = slice (zn off) (zn n) wire /\ S ss (facts_ok ((0, P0 al wire e) :: fs)) w) E.
Proof.
  intros He H1 H2 H3. pose proof (in_slice L al src d0 wire Hwire off n H1 H2 H3) as I1.
  eapply t_post; [apply t_rd_src; assumption|].
  intros d w [(dd & Hf & _ & ->) Hw]. split; [|exact Hw]. unfold P0 in *. destruct al.
  - pose proof (Forall_inv Hf) as F0. apply (fact0_read _ _ _ _ F0). unfold lenZ, zn in *. lia.
  - exact I1.
Qed.

Variable ss0 : session.
Hypothesis Hget : list_get (ss_list ss0) (hdr_ssrc pkt) = Some rt.

Definition u_cx : upre :=
  {| u_pkt := wire; u_ssrc := hdr_ssrc pkt; u_ref := RList (hdr_ssrc pkt); u_est := est; u_delta := delta;
     u_adv := false; u_ki := ki; u_k := k; u_cs := cs1; u_iv := iv;
     u_enc_start := es'; u_enc_len := Lp - es'; u_inuse := cxu; u_inplace := cxu && al |}.

Lemma Hwire_b : take (zn L) (cur_src (b_init L C al src d0)) = wire.
Proof. exact Hwire. Qed.
Ltac norm_b :=
  change (b_len (b_init L C al src d0)) with L;
  change (b_cap (b_init L C al src d0)) with C;
  change (b_alias (b_init L C al src d0)) with al;
  rewrite ?Hwire_b.

Lemma g_pre_tri :
  tri (S ss0 (eq d0)) unprotect_pre
      (fun u w => u = u_cx /\ S ss0 (facts_ok [(0, P0 al wire es')]) w) (fun _ _ => False).
Proof.
  destruct g_bounds as (B1 & B2 & B3 & B4 & B5 & B6).
  destruct g_len_facts as (L4 & L5 & L6 & T & PL & M).
  destruct (rt_key rt k Wrt Hk) as (MK & TA & _ & U). destruct g_wire_slices as (W2 & W3 & W4).
  destruct g_wire_hdr as (H1 & H2 & H3 & H4 & H5 & H6).
  unfold unprotect_pre.
  eapply t_bind; [apply t_get_b0|intros b]. apply t_pure; intros ->.
  cbv beta zeta. norm_b.
  change octets_in_rtp_header_c with 12. change octets_in_rtp_xtn_hdr_c with 4.
  fold (enc0 wire). rewrite H6, H1, H2, H3, H4, H5.
  unfold check_st at 1. rewrite g_wire_valid. change (st_ok =? st_ok) with true. cbv iota. apply t_bind_ret.
  eapply t_bind; [apply t_get_s|intros ss]. apply t_pure; intros ->.
  rewrite Hget. apply t_bind_ret.
  eapply t_bind; [apply t_get_stream_list; exact Hget|intros st]. apply t_pure; intros ->.
  rewrite Hidx. cbv beta iota.
  change (st_ok =? st_ok) with true. change (st_ok =? st_pkt_idx_adv) with false. cbn [negb andb].
  apply t_bind with (R := fun eda w => eda = (est, delta, false) /\ S ss0 (eq d0) w).
  { apply t_bind_ret. rewrite Hchk. unfold check_st. change (st_ok =? st_ok) with true. cbv iota.
    apply t_bind_ret. apply t_ret. auto. }
  intros eda. apply t_pure; intros ->. cbv beta iota.
  fold (rtp_tag0 rt).
  (* the key *)
  apply t_bind with (R := fun ik w => ik = (ki, k) /\ S ss0 (eq d0) w).
  { unfold keys_by_packet. pose proof Hsel as SEL. unfold key_selected in SEL. fold msz.
    destruct (s_use_mki rt) eqn:EU; cbn [negb].
    - destruct SEL as [SF ST]. rewrite ST. fold tl.
      destruct (L <? tl) eqn:E1; [apply Z.ltb_lt in E1; lia|].
      destruct (L - tl <? msz) eqn:E2; [apply Z.ltb_lt in E2; lia|].
      eapply t_bind; [apply t_rd_src; lia|intros m]. apply t_pure; intros (dd & <- & _ & ->).
      rewrite (in_slice L al src d0 wire Hwire) by lia.
      replace (L - tl - msz) with Lp by lia. rewrite W3. unfold mki. rewrite ?EU. cbv iota. rewrite SF.
      apply t_ret. auto.
    - destruct SEL as [SF ->]. destruct (s_keys rt) as [|k0 t]; [discriminate SF|].
      cbn in SF. injection SF as ->. apply t_ret. auto. }
  intros ik. apply t_pure; intros ->. cbv beta iota. fold tl. fold msz. fold hl.
  (* srtp_cryptex_unprotect_init *)
  change (negb (Z.land (s_rtp_serv rt) sec_serv_conf_c =? 0)) with (rtp_conf rt).
  change (s_cryptex rt && rtp_conf rt && (hdr_x pkt =? 1)) with cxu.
  apply t_bind with (R := fun iu w => iu = cxu /\ S ss0 (eq d0) w).
  { destruct cxu eqn:EU.
    - destruct (B5 eq_refl) as (B51 & B52 & B53 & B54).
      eapply t_bind; [apply t_rd_src; lia|intros h]. apply t_pure; intros (dd & <- & _ & ->).
      rewrite (in_slice L al src d0 wire Hwire) by lia. change (zn 4) with 4%nat.
      rewrite be16_slice4_0, (Hprof eq_refl). apply t_ret. auto.
    - apply t_ret. auto. }
  intros iu. apply t_pure; intros ->.
  apply t_bind with (R := fun xl w => xl = (if cxu then xtn_len pkt else 0) /\ S ss0 (eq d0) w).
  { destruct cxu eqn:EU.
    - destruct (B5 eq_refl) as (B51 & B52 & B53 & B54).
      eapply t_bind; [apply t_rd_src; lia|intros h]. apply t_pure; intros (dd & <- & _ & ->).
      rewrite (in_slice L al src d0 wire Hwire) by lia. change (zn 4) with 4%nat.
      rewrite be16_slice4. replace (zn hl + 2)%nat with (zn (hl + 2)) by (unfold zn; lia).
      assert (EX : hdr_x pkt = 1).
      { unfold cxu, cx_used in EU. apply andb_true_iff in EU. destruct EU as [_ EU]. apply Z.eqb_eq in EU. exact EU. }
      rewrite (HXL EX). apply t_ret. auto.
    - apply t_ret. auto. }
  intros xl. apply t_pure; intros ->.
  assert (ES : (if cxu then u64 (u64 (es - ((if cxu then xtn_len pkt else 0) - 4)) - (if cxu && al then hdr_cc pkt * 4 else 0))
                else es) = es').
  { unfold es', cx_start. destruct cxu eqn:EU; [|reflexivity].
    destruct (B5 eq_refl) as (B51 & B52 & B53 & B54). cbn [andb].
    rewrite (u64_small (es - (xtn_len pkt - 4))) by lia. rewrite u64_small by (destruct al; lia).
    destruct al; lia. }
  rewrite ES.
  assert (EI : es' + (if cxu && al then hdr_cc pkt * 4 else 0) = if cxu then hl + 4 else es).
  { unfold es', cx_start. destruct cxu; [|cbn [andb]; lia]. cbn [andb]. destruct al; lia. }
  rewrite EI.
  destruct (u64 (L - tl - msz) <? u64 (if cxu then hl + 4 else es)) eqn:E3.
  { exfalso. apply Z.ltb_lt in E3. rewrite (u64_small (L - tl - msz)) in E3 by lia.
    destruct cxu; [destruct (B5 eq_refl) as (B51 & B52 & B53 & B54)|]; rewrite u64_small in E3 by lia; lia. }
  apply t_bind_ret.
  destruct (C <? u64 (L - msz - tl)) eqn:E4.
  { exfalso. apply Z.ltb_lt in E4. rewrite u64_small in E4 by lia. lia. }
  apply t_bind_ret.
  eapply t_bind; [apply (header_copy L C al src d0 wire HD Hwire HLw); lia|intros ?].
  change (negb (Z.land (s_rtp_serv rt) sec_serv_auth_c =? 0)) with (rtp_auth rt).
  fold iv.
  apply t_bind with (R := fun cs w => cs = cs1 /\ S ss0 (facts_ok [(0, P0 al wire es')]) w).
  { pose proof EP as EP'. unfold wire_prefix in EP'.
    remember (rtp_auth rt) as ra eqn:EA in |- *. destruct ra; rewrite <- EA in EP'; cbn [andb] in EP'.
    - apply t_bind with (R := fun p w => p = (cs1, pre) /\ S ss0 (facts_ok [(0, P0 al wire es')]) w).
      { destruct (negb (ak_prefix (k_rtp_a k) =? 0)).
        - destruct (cipher_output (cipher_start (k_rtp_c k) iv) (ak_prefix (k_rtp_a k))) as [[s cs'] ks].
          destruct (negb (s =? st_ok)); [discriminate EP'|]. injection EP' as -> ->.
          destruct (SRTP_MAX_TAG_LEN_c <? ak_prefix (k_rtp_a k)) eqn:E5.
          { exfalso. apply Z.ltb_lt in E5. rewrite max_tag_value in E5. lia. }
          apply t_ret. auto.
        - injection EP' as -> ->. apply t_ret. auto. }
      intros p. apply t_pure; intros ->. cbn [fst snd].
      replace (u64 (L - tl - msz)) with Lp by (rewrite u64_small by lia; lia).
      eapply t_bind; [apply g_rd_wire; lia|intros m]. apply t_pure; intros ->. rewrite W2.
      set (computed := auth_compute (k_rtp_a k) (body ++ take 4 (be64 (est * 65536)))).
      assert (Etag : tag = computed ++ drop (length computed) pre).
      { unfold tag, wire_tag. rewrite <- EA. reflexivity. }
      pose proof (auth_compute_le (k_rtp_a k) (body ++ take 4 (be64 (est * 65536))) TA) as LC. fold computed in LC. fold tl in LC.
      destruct (SRTP_MAX_TAG_LEN_c <? lenZ computed) eqn:E6.
      { exfalso. apply Z.ltb_lt in E6. rewrite max_tag_value in E6. lia. }
      apply t_bind_ret.
      eapply t_bind; [apply g_rd_wire; lia|intros t]. apply t_pure; intros ->. rewrite W4.
      rewrite <- Etag. rewrite take_app_n by (unfold lenZ, zn in *; lia). rewrite beqb_refl.
      apply t_bind_ret. apply t_ret. auto.
    - injection EP' as -> _. apply t_ret. auto. }
  intros cs. apply t_pure; intros ->.
  apply t_ret. intros w Hw. split; [|exact Hw].
  unfold u_cx. f_equal. rewrite u64_small by lia. lia.
Qed.
End CXG.

(* ===================================================================== *)
(* 3. after authentication, cryptex in use                                 *)
(* ===================================================================== *)
(* packet  = H12 ++ CS ++ xp ++ xr ++ T     (fixed header, CSRC list, profile, length, rest)
   body    = H12 ++ oc ++ xc ++ xr ++ ot    (oc ++ ot = encryption of CS ++ T, xc = cryptex profile) *)
Section CXA.
Variables (L C : Z) (al : bool) (src d0 : bytes).
Variables (rt : stream) (ki : Z) (k : skeys) (est delta : Z) (pkt wire : bytes).
Variables (cs1 : cstate) (pre body : bytes).
Variables (H12 CS xp xc xr T oc ot : bytes) (c2 : cstate) (plain : Z).
Hypothesis HL : 0 <= L < 9223372036854775808.
Hypothesis HC : 0 <= C < 9223372036854775808.
Hypothesis HD : C <= lenZ d0.
Hypothesis Hwire : take (zn L) (if al then d0 else src) = wire.
Hypothesis HLw : lenZ wire = L.

Let Lp := lenZ pkt.
Let hl := hdr_len pkt.
Let iv := rtp_iv (ck_alg (k_rtp_c k)) (hdr_ssrc pkt) est.
Let mki := if s_use_mki rt then k_mki k else [].
Let tag := wire_tag (k_rtp_a k) (rtp_auth rt) pre body est.
Let msz := s_mki_size rt.
Let tl := ak_tag (k_rtp_a k).
Let es' := cx_start al rt pkt.
Let cc := hdr_cc pkt.

Hypothesis Wrt : stream_wf rt.
Hypothesis Hk : In k (s_keys rt).
Hypothesis XK : k_xtn_c k = None.
Hypothesis Hcxu : cx_used rt pkt = true.
Hypothesis EP : wire_prefix (rtp_auth rt) (k_rtp_a k) (cipher_start (k_rtp_c k) iv) = Some (cs1, pre).
Hypothesis Ewire : wire = body ++ mki ++ tag.
Hypothesis HCp : Lp <= C.
Hypothesis Hcc : hdr_cc wire = cc.
Hypothesis Hhl : hdr_len wire = hl.

Hypothesis Epkt : pkt = H12 ++ CS ++ xp ++ xr ++ T.
Hypothesis Ebody : body = H12 ++ oc ++ xc ++ xr ++ ot.
Hypothesis LH12 : length H12 = 12%nat.
Hypothesis LCS : lenZ CS = 4 * cc.
Hypothesis Lxp : length xp = 2%nat.
Hypothesis Lxc : length xc = 2%nat.
Hypothesis Lxr : length xr = 2%nat.
Hypothesis Loc : length oc = length CS.
Hypothesis Lot : length ot = length T.
Hypothesis Hxp : xp = be_bytes 2 (Z.to_N plain).
Hypothesis HP : be16 xc 0 = cryptex_one_byte_profile_c /\ plain = xtn_hdr_one_byte_profile_c \/
                be16 xc 0 = cryptex_two_byte_profile_c /\ plain = xtn_hdr_two_byte_profile_c.
(* the cipher state for the second run, and what decrypts to what *)
Hypothesis Hc2 : if al then c2 = cs1 else if cc =? 0 then c2 = cs1 else cipher_encrypt cs1 oc = (st_ok, c2, CS).
Hypothesis Dec2 : if al then exists csf, cipher_encrypt cs1 (oc ++ ot) = (st_ok, csf, CS ++ T)
                  else exists csf, cipher_encrypt c2 ot = (st_ok, csf, T).

Notation S := (St L C al src d0).

Lemma a_lens :
  0 <= cc < 16 /\ hl = 12 + 4 * cc /\ Lp = hl + 4 + lenZ T /\ lenZ body = Lp /\ es' = (if al then 16 else hl + 4) /\
  lenZ oc = 4 * cc /\ lenZ ot = lenZ T /\ zn (4 * cc) = length oc /\
  lenZ mki = msz /\ lenZ tag = tl /\ L = Lp + msz + tl /\ 0 <= tl <= 16 /\ 0 <= msz <= 128 /\
  (if al then L else 0) <= lenZ d0.
Proof.
  pose proof (hdr_cc_range pkt) as CC. pose proof (hdr_len_eq pkt) as HLE. fold cc in CC, HLE. fold hl in HLE.
  assert (ELp : Lp = hl + 4 + lenZ T).
  { unfold Lp. rewrite Epkt, !lenZ_app. unfold lenZ in *. lia. }
  assert (LB : lenZ body = Lp).
  { rewrite ELp, Ebody, !lenZ_app. unfold lenZ in *. lia. }
  destruct (g_len_facts L al rt k est pkt wire cs1 pre body HLw Wrt Hk EP LB Ewire) as (L4 & L5 & L6 & TG & _ & M).
  split; [exact CC|]. split; [exact HLE|]. split; [exact ELp|]. split; [exact LB|].
  split; [unfold es', cx_start; rewrite Hcxu; fold hl cc; destruct al; lia|].
  split; [unfold lenZ in *; lia|]. split; [unfold lenZ in *; lia|]. split; [unfold lenZ, zn in *; lia|].
  repeat (split; [assumption|]).
  destruct al; [|apply lenZ_nonneg]. rewrite <- HLw, <- Hwire. unfold lenZ. rewrite take_length. lia.
Qed.

(* the packet region between the steps *)
Definition Q1 : bytes := if al then H12 ++ (xc ++ xr) ++ oc ++ ot ++ mki ++ tag else H12 ++ CS ++ xc ++ xr.
Definition Q2 : bytes := if al then (H12 ++ xc ++ xr) ++ CS ++ T else (H12 ++ CS ++ xc ++ xr) ++ T.

Lemma a_P0 : P0 al wire es' = if al then H12 ++ (oc ++ xc ++ xr) ++ ot ++ mki ++ tag else H12 ++ oc ++ xc ++ xr.
Proof.
  destruct a_lens as (CC & HLE & ELp & LB & ES & LO & LT & ZN & _).
  unfold P0. rewrite ES, Ewire, Ebody. destruct al.
  - repeat rewrite <- app_assoc. reflexivity.
  - replace (H12 ++ oc ++ xc ++ xr ++ ot) with ((H12 ++ oc ++ xc ++ xr) ++ ot) by (repeat rewrite <- app_assoc; reflexivity).
    rewrite <- app_assoc. apply take_app_n. rewrite !app_length. unfold lenZ, zn in *. lia.
Qed.

(* srtp_cryptex_unprotect, first part: shuffle (in place) or decrypt the CSRC list (out of place) *)
Lemma a_step1 ss :
  tri (S ss (facts_ok [(0, P0 al wire es')]))
      (if al then cryptex_adjust wire ;;; ret cs1
       else if hdr_cc wire =? 0 then ret cs1
       else crypt_dst_region cs1 12 (4 * hdr_cc wire))
      (fun r w => r = c2 /\ S ss (facts_ok [(0, Q1)]) w) (fun _ _ => False).
Proof.
  destruct a_lens as (CC & HLE & ELp & LB & ES & LO & LT & ZN & L4 & L5 & L6 & TG & M & LD0).
  rewrite a_P0, Hcc. unfold Q1. pose proof (lenZ_nonneg T) as NT.
  pose proof Hc2 as Hc2'. clear Hwire. destruct al.
  - subst c2. eapply t_bind; [|intros ?; apply t_ret; intros w Hw; split; [reflexivity|exact Hw]].
    eapply t_post; [apply adjust_tri; [exact HD|exact LH12| | |]|].
    + rewrite Hcc, !lenZ_app. unfold lenZ in *. lia.
    + rewrite Hhl. lia.
    + rewrite !lenZ_app. unfold lenZ in *. lia.
    + intros ? w Hw. rewrite Hcc, ZN in Hw. rewrite drop_app_exact, take_app_exact in Hw. exact Hw.
  - destruct (cc =? 0) eqn:E0.
    + apply Z.eqb_eq in E0. subst c2. apply t_ret. intros w Hw. split; [reflexivity|].
      assert (oc = []) by (apply length0_nil; unfold lenZ in *; lia).
      assert (CS = []) by (apply length0_nil; unfold lenZ in *; lia). subst oc CS. exact Hw.
    + replace 12 with (lenZ H12) by (unfold lenZ; rewrite LH12; reflexivity).
      replace (4 * cc) with (lenZ oc) by lia.
      apply region_tri; [exact HD|exact Hc2'|symmetry; exact Loc| |].
      * unfold lenZ in *. lia.
      * rewrite !lenZ_app. unfold lenZ in *. lia.
Qed.

(* the encrypted run *)
Lemma a_step2 ss :
  tri (S ss (facts_ok [(0, Q1)]))
      (d <- rd_src es' (Lp - es') ;;
       (let '(s, _, o') := cipher_encrypt c2 d in
        if negb (s =? st_ok) then exit_with st_cipher_fail else wr_dst es' o'))
      (fun _ => S ss (facts_ok [(0, Q2)])) (fun _ _ => False).
Proof.
  destruct a_lens as (CC & HLE & ELp & LB & ES & LO & LT & ZN & L4 & L5 & L6 & TG & M & LD0).
  pose proof (lenZ_nonneg T) as NT. rewrite ES. unfold Q1, Q2.
  assert (SRC : al = false -> slice (zn (hl + 4)) (zn (Lp - (hl + 4))) src = ot).
  { intros EA. rewrite EA in Hwire.
    transitivity (slice (zn (hl + 4)) (zn (Lp - (hl + 4))) wire).
    - rewrite <- Hwire. symmetry. apply slice_take. unfold zn. lia.
    - rewrite Ewire, Ebody.
      replace ((H12 ++ oc ++ xc ++ xr ++ ot) ++ mki ++ tag) with ((H12 ++ oc ++ xc ++ xr) ++ ot ++ mki ++ tag)
        by (repeat rewrite <- app_assoc; reflexivity).
      apply slice_mid; [rewrite !app_length|]; unfold lenZ, zn in *; lia. }
  pose proof Hc2 as Hc2'. pose proof Dec2 as Dec2'. clear Hwire. destruct al.
  - subst c2.
    pose proof (dec_gen L C true src d0 HD ss true cs1 16 (Lp - 16) (H12 ++ xc ++ xr) (oc ++ ot) (mki ++ tag) (CS ++ T)) as DG.
    cbv iota in DG.
    replace (H12 ++ (xc ++ xr) ++ oc ++ ot ++ mki ++ tag) with ((H12 ++ xc ++ xr) ++ (oc ++ ot) ++ mki ++ tag)
      by (repeat rewrite <- app_assoc; reflexivity).
    apply DG; first [exact Dec2' | (intros EA; discriminate EA) | (rewrite !lenZ_app; unfold lenZ in *; lia) | lia].
  - pose proof (dec_gen L C false src d0 HD ss true c2 (hl + 4) (Lp - (hl + 4)) (H12 ++ CS ++ xc ++ xr) ot [] T) as DG.
    cbv iota in DG.
    apply DG; first [exact Dec2' | exact SRC | (rewrite !lenZ_app; unfold lenZ in *; lia) | lia].
Qed.

(* srtp_cryptex_unprotect_cleanup *)
Lemma a_step3 ss :
  tri (S ss (facts_ok [(0, Q2)]))
      ((if al then cryptex_restore wire else ret tt) ;;;
       h <- rd_dst (hdr_len wire) 2 ;;
       let profile := be16 h 0 in
       if profile =? cryptex_one_byte_profile_c then set_profile wire xtn_hdr_one_byte_profile_c
       else if profile =? cryptex_two_byte_profile_c then set_profile wire xtn_hdr_two_byte_profile_c
       else ret tt)
      (fun _ => S ss (facts_ok [(0, pkt)])) (fun _ _ => False).
Proof.
  destruct a_lens as (CC & HLE & ELp & LB & ES & LO & LT & ZN & L4 & L5 & L6 & TG & M & LD0).
  pose proof (lenZ_nonneg T) as NT. unfold Q2.
  assert (LPd : Lp <= lenZ d0) by lia.
  apply t_bind with (R := fun _ => S ss (facts_ok [(0, (H12 ++ CS) ++ xc ++ xr ++ T)])).
  { clear Hwire. destruct al.
    - replace ((H12 ++ xc ++ xr) ++ CS ++ T) with (H12 ++ ((xc ++ xr) ++ CS) ++ T) by (repeat rewrite <- app_assoc; reflexivity).
      eapply t_post; [apply restore_tri; [exact HD|exact LH12| | |]|].
      + rewrite Hcc, !lenZ_app. unfold lenZ in *. lia.
      + rewrite Hhl. lia.
      + rewrite !lenZ_app. unfold lenZ in *. lia.
      + intros ? w Hw. rewrite Hcc in Hw. destruct (cc =? 0) eqn:E0.
        * apply Z.eqb_eq in E0. assert (CS = []) by (apply length0_nil; unfold lenZ in *; lia). subst CS.
          rewrite app_nil_r in *. repeat rewrite <- app_assoc in Hw. exact Hw.
        * replace 4%nat with (length (xc ++ xr)) in Hw by (rewrite app_length; lia).
          rewrite drop_app_exact, take_app_exact in Hw. repeat rewrite <- app_assoc in *. exact Hw.
    - apply t_ret. intros w Hw. repeat rewrite <- app_assoc in *. exact Hw. }
  intros ?.
  eapply t_post; [apply profile_tri with (A := H12 ++ CS) (xc := xc) (xr := xr) (T := T) (plain := plain); [|exact Lxc|exact HP| |]|].
  - rewrite Hhl, lenZ_app. unfold lenZ in *. lia.
  - rewrite Hhl. lia.
  - rewrite !lenZ_app. unfold lenZ in *. lia.
  - intros ? w Hw. rewrite <- Hxp in Hw. rewrite Epkt. repeat rewrite <- app_assoc in *. exact Hw.
Qed.

Variable ss0 ss1 : session.
Hypothesis Hget : list_get (ss_list ss0) (hdr_ssrc pkt) = Some rt.
Hypothesis Hcharge : charge_fun ss0 (hdr_ssrc pkt) rt ki = (ss1, inl tt).

Lemma a_post_tri :
  tri (S ss0 (facts_ok [(0, P0 al wire es')])) (unprotect_post (u_cx al rt ki k est delta pkt wire cs1))
      (fun l w => l = Lp /\ take (zn Lp) (b_dst (w_b w)) = pkt /\ b_oob (w_b w) = false /\ b_src (w_b w) = src)
      (fun _ _ => False).
Proof.
  destruct a_lens as (CC & HLE & ELp & LB & ES & LO & LT & ZN & L4 & L5 & L6 & TG & M & LD0).
  pose proof (lenZ_nonneg T) as NT.
  assert (RC : rtp_conf rt = true).
  { unfold cx_used in Hcxu. apply andb_true_iff in Hcxu. destruct Hcxu as [U _]. apply andb_true_iff in U. exact (proj2 U). }
  unfold unprotect_post.
  eapply t_bind; [apply t_get_b|intros b]. apply t_pure; intros (_ & _ & EAL).
  cbv beta zeta. rewrite EAL.
  unfold u_cx; cbn [u_pkt u_k u_ref u_enc_start u_enc_len u_inuse u_inplace u_ki u_cs u_iv u_ssrc u_adv u_est u_delta].
  eapply t_bind2; [eapply t_charge_key; exact Hget| |intros ?].
  { intros s w (ss' & EC & _). rewrite Hcharge in EC. discriminate. }
  apply t_ex; intros ss'. apply t_pure; intros EC. apply t_pure; intros Hg2.
  rewrite Hcharge in EC. injection EC as <-.
  eapply t_bind; [apply t_get_stream_list; exact Hg2|intros st]. apply t_pure; intros ->.
  rewrite XK. apply t_bind_ret. rewrite Hcxu. cbn [andb].
  change octets_in_rtp_header_c with 12.
  fold es'. fold Lp.
  eapply t_bind; [apply a_step1|intros r]. apply t_pure; intros ->.
  replace (negb (Z.land (s_rtp_serv (charged_stream rt ki)) sec_serv_conf_c =? 0)) with true
    by (rewrite <- RC; unfold rtp_conf; rewrite charged_serv; reflexivity).
  eapply t_bind; [apply a_step2|intros ?].
  eapply t_bind; [apply a_step3|intros ?].
  eapply t_bind; [eapply t_check_direction; exact Hg2|intros ?].
  unfold materialize. apply t_bind_ret.
  eapply t_bind; [apply t_get_stream_list; apply dir_session_get; exact Hg2|intros st2]. apply t_pure; intros ->.
  eapply t_bind; [apply t_put_stream_list|intros ?].
  apply t_ret. intros w (h0 & h1 & h2 & h3 & h4 & h5 & h6 & h7).
  split; [rewrite u64_small by (destruct al; lia); lia|].
  split; [|auto].
  pose proof (fact_get _ _ 0 pkt h7 ltac:(left; reflexivity)) as F. change (zn 0) with O in F.
  rewrite slice_0 in F. unfold Lp. rewrite zn_len. exact F.
Qed.
End CXA.

(* ===================================================================== *)
(* 4. the cryptex wire image                                               *)
(* ===================================================================== *)
(* a block laid out as fixed header, CSRC list, profile, extension length, rest *)
Lemma shape5 (H Cs X R T : bytes) n :
  length H = 12%nat -> length Cs = n -> length X = 2%nat -> length R = 2%nat ->
  let P := H ++ Cs ++ X ++ R ++ T in
  take 12 P = H /\ slice 12 n P = Cs /\ slice (12 + n) 2 P = X /\ slice (12 + n) 4 P = X ++ R /\
  drop (12 + n + 4) P = T /\ be16 P (12 + n) = be16 X 0 /\ be16 P (12 + n + 2) = be16 R 0.
Proof.
  intros LH LC LX LR P. subst P.
  split; [apply take_app_n; exact LH|].
  split; [apply (slice_mid H Cs _ 12 n LH LC)|].
  assert (LHC : length (H ++ Cs) = (12 + n)%nat) by (rewrite app_length; lia).
  split; [rewrite (app_assoc H Cs); apply (slice_mid (H ++ Cs) X _ _ 2 LHC LX)|].
  split.
  { rewrite (app_assoc H Cs), (app_assoc X R). apply (slice_mid (H ++ Cs) (X ++ R) T _ 4 LHC). rewrite app_length; lia. }
  split.
  { replace (H ++ Cs ++ X ++ R ++ T) with ((H ++ Cs ++ X ++ R) ++ T) by (repeat rewrite <- app_assoc; reflexivity).
    apply XtnProofs.drop_app_exact. rewrite !app_length. lia. }
  split.
  { rewrite (app_assoc H Cs). replace (12 + n)%nat with (length (H ++ Cs) + 0)%nat by lia.
    rewrite be16_app_r. apply be16_app_l. lia. }
  replace (H ++ Cs ++ X ++ R ++ T) with ((H ++ Cs ++ X) ++ R ++ T) by (repeat rewrite <- app_assoc; reflexivity).
  replace (12 + n + 2)%nat with (length (H ++ Cs ++ X) + 0)%nat by (rewrite !app_length; lia).
  rewrite be16_app_r. apply be16_app_l. lia.
Qed.

Lemma split5 (l : bytes) n :
  l = take 12 l ++ slice 12 n l ++ slice (12 + n) 2 l ++ slice (12 + n + 2) 2 l ++ drop (12 + n + 4) l.
Proof.
  unfold slice.
  rewrite <- (take_drop_id 12 l) at 1. f_equal.
  rewrite <- (take_drop_id n (drop 12 l)) at 1. f_equal. rewrite drop_drop.
  rewrite <- (take_drop_id 2 (drop (12 + n) l)) at 1. f_equal. rewrite drop_drop.
  rewrite <- (take_drop_id 2 (drop (12 + n + 2) l)) at 1. f_equal. rewrite drop_drop.
  f_equal. lia.
Qed.

(* the two profile octets of the packet are octets: the model's byte strings are lists of
   natural numbers, and only for octets is the profile id written back by the receiver
   (be_bytes) the one the packet had *)
Definition profile_octets (pkt : bytes) : Prop :=
  slice (zn (hdr_len pkt)) 2 pkt = be_bytes 2 (Z.to_N (be16 pkt (zn (hdr_len pkt)))).

Lemma profile_octets_of_octets pkt :
  SpecEqAes.octets pkt -> hdr_len pkt + 2 <= lenZ pkt -> profile_octets pkt.
Proof.
  intros O HLn. pose proof (hdr_len_eq pkt). pose proof (hdr_cc_range pkt).
  unfold profile_octets, be16. rewrite N2Z.id.
  set (x := slice (zn (hdr_len pkt)) 2 pkt).
  assert (Ox : SpecEqAes.octets x) by (apply SpecEqProofs.octets_take, SpecEqProofs.octets_drop; exact O).
  assert (Lx : length x = 2%nat) by (subst x; rewrite slice_length; unfold lenZ, zn in *; lia).
  rewrite <- Lx. symmetry. apply SpecEqProofs.be_bytes_be_val. exact Ox.
Qed.

(* what rtp_wire is made of when there is no header-extension cipher *)
Lemma rtp_wire_noxtn_inv st k est pkt wire :
  k_xtn_c k = None -> rtp_wire st k est pkt = Some wire ->
  validate_rtp pkt (lenZ pkt) = st_ok /\
  exists cs1 pre body,
    wire_prefix (rtp_auth st) (k_rtp_a k)
      (cipher_start (k_rtp_c k) (rtp_iv (ck_alg (k_rtp_c k)) (hdr_ssrc pkt) est)) = Some (cs1, pre) /\
    wire_crypt st cs1 pkt = inl body /\
    wire = body ++ (if s_use_mki st then k_mki k else []) ++ wire_tag (k_rtp_a k) (rtp_auth st) pre body est.
Proof.
  intros XK H. unfold rtp_wire, rtp_wire_r in H. rewrite XK in H.
  destruct (validate_rtp pkt (lenZ pkt) =? st_ok) eqn:EV; cbn [negb wire_xtn] in H; [|discriminate].
  apply Z.eqb_eq in EV. split; [exact EV|].
  destruct (_ && _); [discriminate|].
  destruct (wire_prefix _ _ _) as [[cs1 pre]|]; [|discriminate].
  destruct (wire_crypt st cs1 pkt) as [body|e] eqn:EB; [|discriminate].
  injection H as <-. exists cs1, pre, body. auto.
Qed.

Lemma wire_crypt_unused st cs p : cx_used st p = false -> wire_crypt st cs p = pay_body (rtp_conf st) cs (enc0 p) p.
Proof. intros H. unfold wire_crypt, pay_body. fold (cx_used st p). rewrite H. reflexivity. Qed.

Lemma cs_ok_prefix (do_auth : bool) a k ssrc est cs1 pre :
  0 <= ak_prefix a <= 16 ->
  wire_prefix do_auth a (cipher_start k (rtp_iv (ck_alg k) ssrc est)) = Some (cs1, pre) -> cs_ok cs1.
Proof.
  intros HP H. unfold wire_prefix in H. pose proof (cs_ok_start_rtp k ssrc est) as OK0.
  destruct (do_auth && negb (ak_prefix a =? 0)); [|injection H as <- _; exact OK0].
  destruct (cipher_output _ _) as [[s cs'] ks] eqn:EO.
  destruct (s =? st_ok) eqn:ES; cbn [negb] in H; [|discriminate]. injection H as <- _.
  apply (cs_ok_output _ (ak_prefix a) s cs' ks OK0); [lia|lia|exact EO|exact ES].
Qed.

(* the pieces of a cryptex wire image *)
Lemma wire_crypt_used st cs1 pkt body :
  cx_used st pkt = true -> validate_rtp pkt (lenZ pkt) = st_ok -> profile_octets pkt -> cs_ok cs1 ->
  lenZ pkt < 9223372036854775808 ->
  wire_crypt st cs1 pkt = inl body ->
  exists H12 CS xp xc xr T oc ot plain,
    pkt = H12 ++ CS ++ xp ++ xr ++ T /\ body = H12 ++ oc ++ xc ++ xr ++ ot /\
    length H12 = 12%nat /\ lenZ CS = 4 * hdr_cc pkt /\ length xp = 2%nat /\ length xc = 2%nat /\ length xr = 2%nat /\
    length oc = length CS /\ length ot = length T /\ xp = be_bytes 2 (Z.to_N plain) /\
    (be16 xc 0 = cryptex_one_byte_profile_c /\ plain = xtn_hdr_one_byte_profile_c \/
     be16 xc 0 = cryptex_two_byte_profile_c /\ plain = xtn_hdr_two_byte_profile_c) /\
    (exists csf, cipher_encrypt cs1 (oc ++ ot) = (st_ok, csf, CS ++ T)) /\
    (exists c2 csf, cipher_encrypt cs1 oc = (st_ok, c2, CS) /\ cipher_encrypt c2 ot = (st_ok, csf, T)).
Proof.
  intros U EV PO OK SZ H. unfold wire_crypt in H. fold (cx_used st pkt) in H. rewrite U in H.
  unfold cx_used in U. apply andb_true_iff in U. destruct U as [_ EX]. apply Z.eqb_eq in EX.
  pose proof (hdr_cc_range pkt) as CC. pose proof (hdr_len_eq pkt) as HLE. pose proof (xtn_len_ge pkt) as XG.
  apply validate_rtp_ok in EV. destruct EV as (_ & _ & V3). specialize (V3 EX).
  set (n := zn (4 * hdr_cc pkt)) in *.
  assert (ZH : zn (hdr_len pkt) = (12 + n)%nat) by (unfold n, zn; lia).
  assert (ZH4 : zn (hdr_len pkt + 4) = (12 + n + 4)%nat) by (unfold n, zn; lia).
  rewrite ZH, ZH4 in H. unfold profile_octets in PO. rewrite ZH in PO.
  (* the packet *)
  set (H12 := take 12 pkt). set (CS := slice 12 n pkt). set (xp := slice (12 + n) 2 pkt).
  set (xr := slice (12 + n + 2) 2 pkt). set (T := drop (12 + n + 4) pkt).
  assert (Epkt : pkt = H12 ++ CS ++ xp ++ xr ++ T) by apply split5.
  assert (LH : length H12 = 12%nat) by (subst H12; rewrite take_length; unfold lenZ in *; lia).
  assert (LC : length CS = n) by (subst CS; rewrite slice_length; unfold lenZ, n, zn in *; lia).
  assert (LX : length xp = 2%nat) by (subst xp; rewrite slice_length; unfold lenZ, n, zn in *; lia).
  assert (LR : length xr = 2%nat) by (subst xr; rewrite slice_length; unfold lenZ, n, zn in *; lia).
  destruct (shape5 H12 CS xp xr T n LH LC LX LR) as (_ & _ & _ & _ & _ & B1 & _). cbv zeta in B1. rewrite <- Epkt in B1.
  (* the profile *)
  assert (EPF : exists v plain,
            cryptex_profile_of (be16 pkt (12 + n)) = Some v /\ xp = be_bytes 2 (Z.to_N plain) /\
            (be16 (be_bytes 2 (Z.to_N v)) 0 = cryptex_one_byte_profile_c /\ plain = xtn_hdr_one_byte_profile_c \/
             be16 (be_bytes 2 (Z.to_N v)) 0 = cryptex_two_byte_profile_c /\ plain = xtn_hdr_two_byte_profile_c)).
  { unfold cryptex_profile_of. fold xp in PO.
    destruct (be16 pkt (12 + n) =? xtn_hdr_one_byte_profile_c) eqn:E1.
    - apply Z.eqb_eq in E1. exists cryptex_one_byte_profile_c, xtn_hdr_one_byte_profile_c.
      split; [reflexivity|]. split; [rewrite PO, E1; reflexivity|]. left. split; reflexivity.
    - destruct (be16 pkt (12 + n) =? xtn_hdr_two_byte_profile_c) eqn:E2.
      + apply Z.eqb_eq in E2. exists cryptex_two_byte_profile_c, xtn_hdr_two_byte_profile_c.
        split; [reflexivity|]. split; [rewrite PO, E2; reflexivity|]. right. split; reflexivity.
      + exfalso. unfold cryptex_profile_of in H. rewrite E1, E2 in H. discriminate H. }
  destruct EPF as (v & plain & EPF & Hxp & HPv). rewrite EPF in H.
  set (xc := be_bytes 2 (Z.to_N v)) in *.
  assert (Lxc : length xc = 2%nat) by (subst xc; apply be_bytes_length).
  (* the packet with the cryptex profile *)
  assert (Ep2 : splice (12 + n) xc pkt = H12 ++ CS ++ xc ++ xr ++ T).
  { rewrite Epkt at 1. rewrite (app_assoc H12 CS (xp ++ xr ++ T)), (app_assoc H12 CS (xc ++ xr ++ T)).
    apply splice_mid; [rewrite app_length; lia|lia]. }
  rewrite Ep2 in H.
  destruct (shape5 H12 CS xc xr T n LH LC Lxc LR) as (S1 & S2 & _ & S4 & S5 & _). cbv zeta in S1, S2, S4, S5.
  rewrite S1, S2, S4, S5 in H.
  destruct (cipher_encrypt cs1 (CS ++ T)) as [[s csf] oo] eqn:EE.
  destruct (s =? st_ok) eqn:ES; cbn [negb] in H; [|discriminate]. injection H as <-.
  destruct (cipher_encrypt_involutive _ _ _ _ _ EE ES) as [INV LOO].
  set (oc := take n oo). set (ot := drop n oo).
  assert (Eoo : oo = oc ++ ot) by (symmetry; apply take_drop_id).
  rewrite app_length in LOO.
  assert (Loc : length oc = n) by (subst oc; rewrite take_length; lia).
  assert (Lot : length ot = length T) by (subst ot; rewrite drop_length; lia).
  rewrite Eoo in INV.
  assert (SZ2 : lenZ (oc ++ ot) + 15 < 18446744073709551616).
  { rewrite lenZ_app. unfold lenZ in *. rewrite Epkt, !app_length in SZ. lia. }
  destruct (cipher_chunk cs1 oc ot csf (CS ++ T) OK SZ2 INV) as (c2 & K1 & K2).
  rewrite Loc, <- LC, take_app_exact in K1. rewrite Loc, <- LC, drop_app_exact in K2.
  exists H12, CS, xp, xc, xr, T, oc, ot, plain.
  split; [exact Epkt|]. split; [repeat rewrite <- app_assoc; reflexivity|].
  split; [exact LH|]. split; [unfold lenZ; rewrite LC; unfold n, zn; lia|].
  repeat (split; [first [assumption | lia]|]).
  split; [exists csf; exact INV|]. exists c2, csf. auto.
Qed.

(* the cipher state the second run starts from, in both modes *)
Lemma mk_c2 (al : bool) cc cs1 (oc ot CS T : bytes) :
  (cc = 0 -> oc = [] /\ CS = []) ->
  (exists csf, cipher_encrypt cs1 (oc ++ ot) = (st_ok, csf, CS ++ T)) ->
  (exists c2 csf, cipher_encrypt cs1 oc = (st_ok, c2, CS) /\ cipher_encrypt c2 ot = (st_ok, csf, T)) ->
  exists c2,
    (if al then c2 = cs1 else if cc =? 0 then c2 = cs1 else cipher_encrypt cs1 oc = (st_ok, c2, CS)) /\
    (if al then exists csf, cipher_encrypt cs1 (oc ++ ot) = (st_ok, csf, CS ++ T)
     else exists csf, cipher_encrypt c2 ot = (st_ok, csf, T)).
Proof.
  intros H0 DA (c2 & csf & K1 & K2). destruct al; [exists cs1; auto|].
  destruct (cc =? 0) eqn:E0.
  - apply Z.eqb_eq in E0. destruct (H0 E0) as [-> ->]. exists cs1. auto.
  - exists c2. split; [exact K1|]. exists csf. exact K2.
Qed.

Lemma u_cx_unused al rt ki k est delta pkt wire cs1 :
  cx_used rt pkt = false ->
  u_cx al rt ki k est delta pkt wire cs1 = u_expect ki k est delta pkt wire cs1 /\ cx_start al rt pkt = enc0 pkt.
Proof. intros U. unfold u_cx, u_expect, cx_start. rewrite U. split; reflexivity. Qed.

(* ===================================================================== *)
(* 5. C01 for SRTP without header-extension cipher, cryptex or not         *)
(* ===================================================================== *)
(* st, k, est: the sender's stream (after its direction update), key and packet index;
   w: the receiver's world, whose input block holds the wire image; rt: the receiver's
   stream for the packet's SSRC.  s_cryptex st is arbitrary. *)
Theorem srtp_round_trip_noxtn st k est pkt wire w rt ki delta ss1 :
  rtp_wire st k est pkt = Some wire ->
  call_ok w -> in_pkt w = wire -> lenZ pkt <= b_cap (w_b w) ->
  list_get (ss_list (w_s w)) (hdr_ssrc pkt) = Some rt -> stream_wf rt ->
  s_rtp_serv rt = s_rtp_serv st -> s_cryptex rt = s_cryptex st -> s_use_mki rt = s_use_mki st ->
  s_enc_xtn rt = s_enc_xtn st ->
  k_xtn_c k = None ->
  (* when cryptex applies to the packet, its two profile octets are octets *)
  (cx_used st pkt = true -> profile_octets pkt) ->
  In k (s_keys rt) -> key_selected rt ki k ->
  est_index rt (hdr_seq pkt) = (st_ok, est, delta) -> rdbx_check (s_rdbx rt) delta = st_ok ->
  charge_fun (w_s w) (hdr_ssrc pkt) rt ki = (ss1, inl tt) ->
  exists w', unprotect w = (w', inl (lenZ pkt)) /\
             take (zn (lenZ pkt)) (b_dst (w_b w')) = pkt /\
             b_oob (w_b w') = false /\ b_src (w_b w') = b_src (w_b w).
Proof.
  intros HW (HO & HL & HC & HD & HS) Hin HCp Hget Wrt E1 E2 E3 E4 XK PO Hk Hsel Hidx Hchk Hch.
  rewrite <- (rtp_wire_cfg st rt k est pkt E1 E2 E3 E4) in HW.
  assert (EU : cx_used st pkt = cx_used rt pkt) by (unfold cx_used, rtp_conf; rewrite E1, E2; reflexivity).
  rewrite EU in PO. clear EU.
  destruct (rtp_wire_noxtn_inv rt k est pkt wire XK HW) as (EV & cs1 & pre & body & EP & EB & Ewire).
  pose proof (enc0_bounds _ _ EV) as EBn.
  assert (HLw : lenZ wire = b_len (w_b w)).
  { rewrite <- Hin. unfold in_pkt, lenZ, zn, size_ok in *. rewrite take_length. lia. }
  set (L := b_len (w_b w)) in *. set (C := b_cap (w_b w)) in *. set (al := b_alias (w_b w)) in *.
  set (src := b_src (w_b w)) in *. set (d0 := b_dst (w_b w)) in *.
  assert (TRI : tri (St L C al src d0 (w_s w) (eq d0)) unprotect
            (fun l w' => l = lenZ pkt /\ take (zn (lenZ pkt)) (b_dst (w_b w')) = pkt /\ b_oob (w_b w') = false /\ b_src (w_b w') = src)
            (fun _ _ => False)).
  2:{ pose proof (TRI w (St_init w HO)) as T.
      destruct (unprotect w) as [w' [l|s]]; [|contradiction].
      destruct T as (-> & T2 & T3 & T4). exists w'. auto. }
  unfold unprotect.
  destruct (cx_used rt pkt) eqn:U.
  - (* cryptex in use *)
    destruct (rt_key rt k Wrt Hk) as (_ & TA & _ & _).
    pose proof (akey_prefix_le _ TA) as PL. pose proof TA as [TT _]. rewrite max_tag_value in TT.
    assert (PL16 : 0 <= ak_prefix (k_rtp_a k) <= 16) by lia.
    assert (OK : cs_ok cs1) by exact (cs_ok_prefix _ _ _ _ _ _ _ PL16 EP).
    assert (SZ : lenZ pkt < 9223372036854775808) by (unfold size_ok, C in *; lia).
    destruct (wire_crypt_used rt cs1 pkt body U EV (PO eq_refl) OK SZ EB)
      as (H12 & CS & xp & xc & xr & T & oc & ot & plain & Epkt & Ebody & LH12 & LCS & Lxp & Lxc & Lxr & Loc & Lot & Hxp & HP & DA & DS).
    pose proof (hdr_cc_range pkt) as CC. pose proof (hdr_len_eq pkt) as HLE.
    assert (ZN : zn (hdr_len pkt) = (12 + length oc)%nat) by (unfold lenZ, zn in *; lia).
    destruct (shape5 H12 CS xp xr T (length oc) LH12 (eq_sym Loc) Lxp Lxr) as (P1 & _ & _ & _ & _ & _ & P7).
    cbv zeta in P1, P7. rewrite <- Epkt in P1, P7.
    assert (Ew2 : wire = H12 ++ oc ++ xc ++ xr ++ (ot ++ (if s_use_mki rt then k_mki k else []) ++
                                                  wire_tag (k_rtp_a k) (rtp_auth rt) pre body est)).
    { rewrite Ewire, Ebody. repeat rewrite <- app_assoc. reflexivity. }
    destruct (shape5 H12 oc xc xr (ot ++ (if s_use_mki rt then k_mki k else []) ++
                wire_tag (k_rtp_a k) (rtp_auth rt) pre body est) (length oc) LH12 eq_refl Lxc Lxr)
      as (W1 & _ & _ & _ & _ & W6 & W7).
    cbv zeta in W1, W6, W7. rewrite <- Ew2 in W1, W6, W7.
    assert (T12 : take 12 wire = take 12 pkt) by (rewrite W1, P1; reflexivity).
    assert (HXL : hdr_x pkt = 1 -> be16 wire (zn (hdr_len pkt + 2)) = be16 pkt (zn (hdr_len pkt + 2))).
    { intros _. replace (zn (hdr_len pkt + 2)) with (12 + length oc + 2)%nat by (unfold zn in *; lia).
      rewrite W7, P7. reflexivity. }
    assert (Hprof : cx_used rt pkt = true ->
              (be16 wire (zn (hdr_len pkt)) =? cryptex_one_byte_profile_c) ||
              (be16 wire (zn (hdr_len pkt)) =? cryptex_two_byte_profile_c) = true).
    { intros _. rewrite ZN, W6. destruct HP as [[-> _]|[-> _]]; reflexivity. }
    assert (LB : lenZ body = lenZ pkt).
    { rewrite Ebody, Epkt, !lenZ_app. unfold lenZ in *. lia. }
    destruct (hdr12 _ _ T12) as (Hcc & _ & _ & _ & Hhl).
    destruct (mk_c2 al (hdr_cc pkt) cs1 oc ot CS T) as (c2 & Hc2 & Dec2); [|exact DA|exact DS|].
    { intros E0. split; apply length0_nil; unfold lenZ in *; lia. }
    eapply t_bind; [apply (g_pre_tri L C al src d0 rt ki k est delta pkt wire cs1 pre body HC HD Hin HLw Wrt Hk Hsel Hidx Hchk
                              EV EP LB Ewire T12 HXL Hprof HCp (w_s w) Hget)|intros u].
    apply t_pure; intros ->.
    apply (a_post_tri L C al src d0 rt ki k est delta pkt wire cs1 pre body H12 CS xp xc xr T oc ot c2 plain
             HC HD Hin HLw Wrt Hk XK U EP Ewire HCp Hcc Hhl Epkt Ebody LH12 LCS Lxp Lxc Lxr Loc Lot Hxp HP Hc2 Dec2
             (w_s w) ss1 Hget Hch).
  - (* cryptex not in use: as in the plain class *)
    rewrite (wire_crypt_unused rt cs1 pkt U) in EB.
    destruct (pay_body_inv _ _ _ _ _ EB ltac:(lia)) as (o & EBo & Lo & Dec).
    destruct (len_facts L src rt k est pkt wire cs1 pre body o HLw Wrt Hk EV EP EBo Lo Ewire) as (_ & _ & L3 & _).
    destruct (wire_slices L src rt k est pkt wire cs1 pre body o HLw Wrt Hk EV EP EBo Lo Ewire) as (W1 & _).
    assert (T12 : take 12 wire = take 12 pkt) by (apply (take_prefix_le _ _ _ _ W1); unfold zn; lia).
    assert (HXL : hdr_x pkt = 1 -> be16 wire (zn (hdr_len pkt + 2)) = be16 pkt (zn (hdr_len pkt + 2))).
    { intros X. pose proof (hdr_cc_range pkt). pose proof (hdr_len_eq pkt). pose proof (xtn_len_ge pkt).
      rewrite (enc0_eq pkt X) in *. apply (be16_prefix _ _ _ _ W1). unfold zn. lia. }
    assert (Hprof : cx_used rt pkt = true ->
              (be16 wire (zn (hdr_len pkt)) =? cryptex_one_byte_profile_c) ||
              (be16 wire (zn (hdr_len pkt)) =? cryptex_two_byte_profile_c) = true).
    { intros N. rewrite U in N. discriminate N. }
    destruct (u_cx_unused al rt ki k est delta pkt wire cs1 U) as [EUx ESx].
    eapply t_bind; [apply (g_pre_tri L C al src d0 rt ki k est delta pkt wire cs1 pre body HC HD Hin HLw Wrt Hk Hsel Hidx Hchk
                              EV EP L3 Ewire T12 HXL Hprof HCp (w_s w) Hget)|intros u].
    apply t_pure; intros ->. rewrite EUx, ESx.
    apply (post_tri L C al src d0 rt ki k est delta pkt wire cs1 pre body o HC HD Hin HLw Wrt Hk XK EV EP EBo Lo Dec
             Ewire HCp (w_s w) ss1 Hget Hch).
Qed.
Print Assumptions srtp_round_trip_noxtn.

(* the cryptex class *)
Theorem srtp_round_trip_cryptex st k est pkt wire w rt ki delta ss1 :
  rtp_wire st k est pkt = Some wire ->
  call_ok w -> in_pkt w = wire -> lenZ pkt <= b_cap (w_b w) ->
  list_get (ss_list (w_s w)) (hdr_ssrc pkt) = Some rt -> stream_wf rt ->
  s_rtp_serv rt = s_rtp_serv st -> s_cryptex rt = s_cryptex st -> s_use_mki rt = s_use_mki st ->
  s_enc_xtn rt = s_enc_xtn st ->
  s_cryptex st = true -> k_xtn_c k = None ->
  (rtp_conf st = true -> hdr_x pkt = 1 -> profile_octets pkt) ->
  In k (s_keys rt) -> key_selected rt ki k ->
  est_index rt (hdr_seq pkt) = (st_ok, est, delta) -> rdbx_check (s_rdbx rt) delta = st_ok ->
  charge_fun (w_s w) (hdr_ssrc pkt) rt ki = (ss1, inl tt) ->
  exists w', unprotect w = (w', inl (lenZ pkt)) /\
             take (zn (lenZ pkt)) (b_dst (w_b w')) = pkt /\
             b_oob (w_b w') = false /\ b_src (w_b w') = b_src (w_b w).
Proof.
  intros HW Hc Hin HCp Hget Wrt E1 E2 E3 E4 CX XK PO. apply (srtp_round_trip_noxtn st k est pkt wire w rt ki delta ss1); try assumption.
  intros U. unfold cx_used in U. apply andb_true_iff in U. destruct U as [U X]. apply andb_true_iff in U.
  apply PO; [exact (proj2 U)|apply Z.eqb_eq; exact X].
Qed.
Print Assumptions srtp_round_trip_cryptex.

(* all three classes in one statement: no cryptex (any header-extension cipher), or no
   header-extension cipher (any cryptex setting).  The remaining combination — cryptex and an
   RFC 6904 cipher on the same stream — does not round-trip (RtpRoundTripCryptexEx.v). *)
Corollary srtp_round_trip_classes st k est pkt wire w rt ki delta ss1 :
  rtp_wire st k est pkt = Some wire ->
  call_ok w -> in_pkt w = wire -> lenZ pkt <= b_cap (w_b w) ->
  list_get (ss_list (w_s w)) (hdr_ssrc pkt) = Some rt -> stream_wf rt ->
  s_rtp_serv rt = s_rtp_serv st -> s_cryptex rt = s_cryptex st -> s_use_mki rt = s_use_mki st ->
  s_enc_xtn rt = s_enc_xtn st ->
  s_cryptex st = false \/ (k_xtn_c k = None /\ (cx_used st pkt = true -> profile_octets pkt)) ->
  In k (s_keys rt) -> key_selected rt ki k ->
  est_index rt (hdr_seq pkt) = (st_ok, est, delta) -> rdbx_check (s_rdbx rt) delta = st_ok ->
  charge_fun (w_s w) (hdr_ssrc pkt) rt ki = (ss1, inl tt) ->
  exists w', unprotect w = (w', inl (lenZ pkt)) /\
             take (zn (lenZ pkt)) (b_dst (w_b w')) = pkt /\
             b_oob (w_b w') = false /\ b_src (w_b w') = b_src (w_b w).
Proof.
  intros HW Hc Hin HCp Hget Wrt E1 E2 E3 E4 [CX|[XK PO]] Hk Hsel Hidx Hchk Hch.
  - exact (srtp_round_trip_xtn st k est pkt wire w rt ki delta ss1 HW Hc Hin HCp Hget Wrt E1 E2 E3 E4 CX Hk Hsel Hidx Hchk Hch).
  - exact (srtp_round_trip_noxtn st k est pkt wire w rt ki delta ss1 HW Hc Hin HCp Hget Wrt E1 E2 E3 E4 XK PO Hk Hsel Hidx Hchk Hch).
Qed.
Print Assumptions srtp_round_trip_classes.
