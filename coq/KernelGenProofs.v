(* KernelGenProofs.v — the hand-written kernel models (KeyLimit.v, Rdbx.v) compute exactly what the Gallina functions
   GENERATED from the C text of key.c / rdbx.c / srtp.c (KernelGen.v, tools/gen_kernels.py) compute, on the whole range
   of the C types.  So the theorems about kl_update / index_guess / estimate_pending are theorems about the code as
   it is written now, up to the translator. *)
From Coq Require Import ZArith Bool Lia.
From Srtp Require Import Util Constants KeyLimit Rdbx KernelGen.
Local Open Scope Z_scope.

Ltac Zify.zify_post_hook ::= Z.div_mod_to_equations.

Lemma gen_u64 x : KernelGen.u64 x = Util.u64 x.  Proof. reflexivity. Qed.
Lemma gen_u32 x : KernelGen.u32 x = Util.u32 x.  Proof. reflexivity. Qed.
Lemma gen_u16 x : KernelGen.u16 x = Util.u16 x.  Proof. reflexivity. Qed.

(* ---- key.c ---- *)
Theorem key_limit_update_gen_eq k :
  0 <= num_left k < 18446744073709551616 ->
  srtp_key_limit_update_gen (num_left k) (kstate_code (kst k)) =
  (kevent_code (snd (kl_update k)), (num_left (fst (kl_update k)), kstate_code (kst (fst (kl_update k))))).
Proof.
  intros H. unfold srtp_key_limit_update_gen, kl_update, KernelGen.u64, KernelGen.u32, Util.u64.
  change soft_limit_c with 65536.
  destruct k as [n st]; cbn [num_left kst] in *.
  change (0 mod 18446744073709551616) with 0. change (65536 mod 18446744073709551616) with 65536.
  change (1 mod 18446744073709551616) with 1.
  destruct (n >? 0) eqn:E0; [apply Z.gtb_lt in E0|rewrite Z.gtb_ltb in E0; apply Z.ltb_ge in E0].
  - replace (0 <? n) with true by (symmetry; apply Z.ltb_lt; lia). cbn [negb Z.eqb].
    set (m := (n - 1) mod 18446744073709551616).
    destruct (m >=? 65536) eqn:E1.
    + rewrite Z.geb_leb in E1. rewrite E1. reflexivity.
    + rewrite Z.geb_leb in E1. rewrite E1. cbn [negb Z.eqb].
      destruct st; cbn [kstate_code]; change (0 mod 4294967296) with 0; change (1 mod 4294967296) with 1; change (2 mod 4294967296) with 2;
        cbn [Z.eqb negb]; destruct (m <? 1); reflexivity.
  - assert (n = 0) by lia. subst n. cbn. destruct st; reflexivity.
Qed.

Theorem key_limit_set_gen_eq s n0 s0 :
  0 <= s < 18446744073709551616 ->
  srtp_key_limit_set_gen s n0 s0 =
  match kl_set s with
  | Some k => (st_ok, (num_left k, kstate_code (kst k)))
  | None => (st_bad_param, (n0, s0))
  end.
Proof.
  intros H. unfold srtp_key_limit_set_gen, kl_set, KernelGen.u64, KernelGen.u32. change soft_limit_c with 65536.
  change (65536 mod 18446744073709551616) with 65536.
  destruct (s <? 65536); reflexivity.
Qed.

(* ---- rdbx.c: srtp_index_guess ---- *)
Lemma lor_shift16 a b : 0 <= a -> 0 <= b < 65536 -> Z.lor (Z.shiftl a 16) b = a * 65536 + b.
Proof.
  intros Ha Hb. rewrite Z.shiftl_mul_pow2 by lia. change (2 ^ 16) with 65536.
  rewrite <- Z.lxor_lor, <- Z.add_nocarry_lxor; try reflexivity.
  - apply Z.bits_inj'. intros i Hi. rewrite Z.land_spec, Z.bits_0.
    destruct (Z.ltb_spec i 16).
    + replace (a * 65536) with (a * 2 ^ 16) by reflexivity. rewrite Z.mul_pow2_bits_low by lia. reflexivity.
    + rewrite (Z.bits_above_log2 b i); [apply andb_false_r| lia |].
      destruct (Z.eq_dec b 0) as [->|Hn]; [cbn; lia|].
      assert (Z.log2 b < 16) by (apply Z.log2_lt_pow2; lia). lia.
  - apply Z.bits_inj'. intros i Hi. rewrite Z.land_spec, Z.bits_0.
    destruct (Z.ltb_spec i 16).
    + replace (a * 65536) with (a * 2 ^ 16) by reflexivity. rewrite Z.mul_pow2_bits_low by lia. reflexivity.
    + rewrite (Z.bits_above_log2 b i); [apply andb_false_r| lia |].
      destruct (Z.eq_dec b 0) as [->|Hn]; [cbn; lia|].
      assert (Z.log2 b < 16) by (apply Z.log2_lt_pow2; lia). lia.
Qed.

Theorem index_guess_gen_eq local s g0 :
  0 <= local < 18446744073709551616 -> 0 <= s < 65536 ->
  srtp_index_guess_gen s local g0 = (snd (index_guess local s), (local, fst (index_guess local s))).
Proof.
  intros HL HS. unfold srtp_index_guess_gen, index_guess.
  change seq_num_median_c with 32768. change seq_num_max_c with 65536.
  rewrite Z.shiftr_div_pow2 by lia. change (2 ^ 16) with 65536.
  change (Z.shiftl 1 (KernelGen.u64 (KernelGen.u64 (KernelGen.u64 8 * 2) - KernelGen.u64 1))) with 32768.
  change (Z.shiftl 1 (KernelGen.u64 (KernelGen.u64 8 * 2))) with 65536.
  unfold KernelGen.u64, KernelGen.u32, KernelGen.u16, KernelGen.s32, KernelGen.s64, Util.u32, Util.u16.
  change (1 mod 4294967296) with 1.
  set (lroc := (local / 65536 mod 18446744073709551616) mod 4294967296).
  assert (Hroc : lroc = (local / 65536) mod 4294967296) by (subst lroc; rewrite (Z.mod_small (local / 65536)) by lia; reflexivity).
  set (lseq := local mod 65536).
  assert (Hseq : 0 <= lseq < 65536) by (subst lseq; lia).
  assert (Hr : 0 <= lroc < 4294967296) by (subst lroc; lia).
  assert (W1 : forall x, -2147483648 <= x < 2147483648 -> (x + 2147483648) mod 4294967296 - 2147483648 = x) by (intros; lia).
  assert (W2 : forall x, -9223372036854775808 <= x < 9223372036854775808 -> (x + 9223372036854775808) mod 18446744073709551616 - 9223372036854775808 = x) by (intros; lia).
  rewrite !(W1 lseq), !(W1 s), !(W1 32768), !(W1 65536) by lia.
  rewrite !(W1 (s - lseq)) by lia. rewrite !(W1 (lseq - 32768)) by lia.
  rewrite <- Hroc.
  destruct (lseq <? 32768) eqn:E1; cbn [negb Z.eqb].
  - rewrite Z.gtb_ltb. destruct (32768 <? s - lseq) eqn:E2; cbn [negb Z.eqb fst snd].
    + apply Z.ltb_lt in E2. rewrite (W1 (s - lseq - 65536)), (W2 (s - lseq - 65536)) by lia.
      set (g := (lroc - 1) mod 4294967296). assert (0 <= g < 4294967296) by (subst g; lia).
      rewrite (Z.mod_small g 18446744073709551616), (Z.mod_small s 18446744073709551616) by lia.
      rewrite (Z.mod_small (Z.shiftl g 16)) by (rewrite Z.shiftl_mul_pow2 by lia; change (2^16) with 65536; lia).
      rewrite lor_shift16 by lia. rewrite Z.mod_small by lia. reflexivity.
    + apply Z.ltb_ge in E2. rewrite (W2 (s - lseq)) by lia.
      rewrite (Z.mod_small lroc 18446744073709551616), (Z.mod_small s 18446744073709551616) by lia.
      rewrite (Z.mod_small (Z.shiftl lroc 16)) by (rewrite Z.shiftl_mul_pow2 by lia; change (2^16) with 65536; lia).
      rewrite lor_shift16 by lia. rewrite Z.mod_small by lia. reflexivity.
  - rewrite Z.gtb_ltb. destruct (s <? lseq - 32768) eqn:E2; cbn [negb Z.eqb fst snd].
    + apply Z.ltb_lt in E2. apply Z.ltb_ge in E1. rewrite (W1 (s - lseq + 65536)), (W2 (s - lseq + 65536)) by lia.
      set (g := (lroc + 1) mod 4294967296). assert (0 <= g < 4294967296) by (subst g; lia).
      rewrite (Z.mod_small g 18446744073709551616), (Z.mod_small s 18446744073709551616) by lia.
      rewrite (Z.mod_small (Z.shiftl g 16)) by (rewrite Z.shiftl_mul_pow2 by lia; change (2^16) with 65536; lia).
      rewrite lor_shift16 by lia. rewrite Z.mod_small by lia. reflexivity.
    + apply Z.ltb_ge in E2. rewrite (W2 (s - lseq)) by lia.
      rewrite (Z.mod_small lroc 18446744073709551616), (Z.mod_small s 18446744073709551616) by lia.
      rewrite (Z.mod_small (Z.shiftl lroc 16)) by (rewrite Z.shiftl_mul_pow2 by lia; change (2^16) with 65536; lia).
      rewrite lor_shift16 by lia. rewrite Z.mod_small by lia. reflexivity.
Qed.
Print Assumptions index_guess_gen_eq.

Lemma gen_s64 x : KernelGen.s64 x = Util.s64 x.
Proof.
  unfold KernelGen.s64, Util.s64, Util.u64.
  destruct (x mod 18446744073709551616 <? 9223372036854775808) eqn:E; [apply Z.ltb_lt in E|apply Z.ltb_ge in E]; lia.
Qed.

(* ---- srtp.c: srtp_estimate_index (index estimation with an imposed rollover counter) ---- *)
Theorem estimate_index_gen_eq r roc s e0 d0 :
  0 <= index r < 18446744073709551616 -> 0 <= roc < 4294967296 -> 0 <= s < 65536 ->
  srtp_estimate_index_gen roc s e0 d0 (index r) =
  (let '(st, est, delta) := estimate_pending r roc s in (st, (est, delta, index r))).
Proof.
  intros HI HR HS. unfold srtp_estimate_index_gen, estimate_pending.
  change seq_num_median_c with 32768.
  change (Z.shiftl 1 (KernelGen.u64 (KernelGen.u64 (KernelGen.u64 8 * 2) - KernelGen.u64 1))) with 32768.
  rewrite !gen_s64.
  unfold KernelGen.u64, KernelGen.u32, KernelGen.s32.
  rewrite (Z.mod_small roc 18446744073709551616), (Z.mod_small s 18446744073709551616) by lia.
  rewrite (Z.mod_small (Z.shiftl roc 16)) by (rewrite Z.shiftl_mul_pow2 by lia; change (2^16) with 65536; lia).
  rewrite lor_shift16 by lia.
  set (est := roc * 65536 + s). assert (HE : 0 <= est < 281474976710656) by (subst est; lia).
  rewrite (Z.mod_small est 18446744073709551616) by lia.
  change ((32768 + 2147483648) mod 4294967296 - 2147483648) with 32768.
  change (32768 mod 18446744073709551616) with 32768.
  change (27 mod 4294967296) with st_pkt_idx_adv. change (26 mod 4294967296) with st_pkt_idx_old.
  change (0 mod 4294967296) with st_ok.
  change (Util.s64 0) with 0.
  set (i := index r) in *.
  assert (SS : Util.s64 ((est - i) mod 18446744073709551616) = Util.s64 (est - i)).
  { unfold Util.s64, Util.u64. rewrite Z.mod_mod by lia. reflexivity. }
  rewrite SS.
  rewrite Z.gtb_ltb. destruct (i <? est) eqn:E1; cbn [negb Z.eqb].
  - apply Z.ltb_lt in E1. rewrite (Z.mod_small (est - i)) by lia.
    rewrite Z.gtb_ltb. destruct (32768 <? est - i) eqn:E2; cbn [negb Z.eqb]; reflexivity.
  - apply Z.ltb_ge in E1. destruct (est <? i) eqn:E3; cbn [negb Z.eqb]; [|reflexivity].
    apply Z.ltb_lt in E3. rewrite (Z.mod_small (i - est)) by lia.
    rewrite Z.gtb_ltb. destruct (32768 <? i - est) eqn:E4; cbn [negb Z.eqb]; reflexivity.
Qed.
Print Assumptions estimate_index_gen_eq.

(* ---- rdb.c: srtp_rdb_increment (the sender's SRTCP index and its ceiling) ---- *)
From Srtp Require Import Rdb.
Theorem rdb_increment_gen_eq r :
  0 <= wstart r < 4294967296 ->
  srtp_rdb_increment_gen (wstart r) = (fst (rdb_incr r), wstart (snd (rdb_incr r))).
Proof.
  intros H. unfold srtp_rdb_increment_gen, rdb_incr. change rtcp_ceiling_c with 2147483647.
  unfold KernelGen.u32. change (2147483647 mod 4294967296) with 2147483647.
  rewrite Z.geb_leb. destruct (2147483647 <=? wstart r); reflexivity.
Qed.
Print Assumptions rdb_increment_gen_eq.
