(* HeapProofs.v — C17: ownership balance of the heap model.  Every call either
   succeeds or exits, and in both cases the number of live blocks equals what
   the session owns; after session_dealloc nothing remains.  All statements are
   for an arbitrary starting heap, i.e. for every value of the failure
   countdown h_fail (no failure, or the n-th allocation from now fails). *)
From Coq Require Import NArith ZArith List Bool Lia.
From Srtp Require Import Util Constants KeyLimit Rdb Rdbx Icm World Stream Rtp Session MonadLemmas.
Import ListNotations.
Local Open Scope Z_scope.

(* ------------------------------------------------------------------ *)
(* 0. vocabulary                                                      *)
(* ------------------------------------------------------------------ *)

Definition lv (w : world) : Z := h_live (w_h w).

Definition sumb (l : list stream) : Z := fold_right (fun s a => a + stream_blocks s) 0 l.

Definition session_blocks (s : session) : Z :=
  3 + sumb (ss_list s) + (match ss_template s with Some t => stream_blocks t | None => 0 end).

Definition balanced (w : world) (base : Z) : Prop :=
  h_live (w_h w) = base + session_blocks (w_s w).

(* "delta" triples for computations that do not touch the session:
   R relates the result to the change of h_live, E the exit status to it. *)
Definition dl {A} (m : M A) (R : A -> Z -> Prop) (E : Z -> Z -> Prop) : Prop :=
  forall w w' r, m w = (w', r) ->
    w_s w' = w_s w /\
    match r with inl a => R a (lv w' - lv w) | inr st => E st (lv w' - lv w) end.

Lemma dl_ret {A} (a : A) (R : A -> Z -> Prop) E : R a 0 -> dl (ret a) R E.
Proof.
  intros HR w w' r H. unfold ret in H. injection H as <- <-.
  split; [reflexivity|]. replace (lv w - lv w) with 0 by lia. exact HR.
Qed.

Lemma dl_exit {A} st (R : A -> Z -> Prop) (E : Z -> Z -> Prop) : E st 0 -> dl (@exit_with A st) R E.
Proof.
  intros HE w w' r H. unfold exit_with in H. injection H as <- <-.
  split; [reflexivity|]. replace (lv w - lv w) with 0 by lia. exact HE.
Qed.

Lemma dl_bind {A B} (m : M A) (f : A -> M B) Rm Em (R : B -> Z -> Prop) (E : Z -> Z -> Prop) :
  dl m Rm Em ->
  (forall st d, Em st d -> E st d) ->
  (forall a d1, Rm a d1 -> dl (f a) (fun b d2 => R b (d1 + d2)) (fun st d2 => E st (d1 + d2))) ->
  dl (bind m f) R E.
Proof.
  intros Hm HE Hf w w' r H. apply bind_inv in H.
  destruct H as [(a & w1 & H1 & H2)|(st & H1 & ->)].
  - destruct (Hm _ _ _ H1) as [S1 D1]. cbv beta iota in D1.
    destruct (Hf a _ D1 _ _ _ H2) as [S2 D2].
    split; [congruence|].
    replace (lv w' - lv w) with ((lv w1 - lv w) + (lv w' - lv w1)) by lia.
    destruct r; exact D2.
  - destruct (Hm _ _ _ H1) as [S1 D1]. split; [exact S1|]. apply HE. exact D1.
Qed.

Lemma dl_conseq {A} (m : M A) (R R' : A -> Z -> Prop) (E E' : Z -> Z -> Prop) :
  dl m R E -> (forall a d, R a d -> R' a d) -> (forall st d, E st d -> E' st d) -> dl m R' E'.
Proof.
  intros Hm HR HE w w' r H. destruct (Hm _ _ _ H) as [S1 D1]. split; [exact S1|].
  destruct r; [apply HR|apply HE]; exact D1.
Qed.

Lemma dl_catch {A} (m : M A) (R : A -> Z -> Prop) (E : Z -> Z -> Prop) :
  dl m R E ->
  dl (catch m) (fun r d => match r with inl a => R a d | inr st => E st d end) (fun _ _ => False).
Proof.
  intros Hm w w' r H. unfold catch in H. destruct (m w) as [w1 r1] eqn:E1.
  injection H as <- <-. exact (Hm _ _ _ E1).
Qed.

(* ------------------------------------------------------------------ *)
(* 1. leaf facts                                                      *)
(* ------------------------------------------------------------------ *)

Lemma alloc1_spec w w' r : alloc1 w = (w', r) ->
  w_s w' = w_s w /\
  ((r = inl true /\ lv w' = lv w + 1) \/ (r = inl false /\ lv w' = lv w)).
Proof.
  unfold alloc1, bind, get_h, put_h, ret, lv.
  destruct ((0 <? h_fail (w_h w)) && (h_fail (w_h w) =? 1)); intros H; injection H as <- <-; cbn; auto.
Qed.

Lemma free_n_spec n w w' r : free_n n w = (w', r) ->
  r = inl tt /\ w_s w' = w_s w /\ lv w' = lv w - n.
Proof.
  unfold free_n, bind, get_h, put_h, lv. intros H; injection H as <- <-; cbn; auto.
Qed.

Lemma alloc1_dl : dl alloc1 (fun b d => (b = true /\ d = 1) \/ (b = false /\ d = 0)) (fun _ _ => False).
Proof.
  intros w w' r H. destruct (alloc1_spec _ _ _ H) as [S [[-> L]|[-> L]]]; (split; [exact S|]).
  - left. split; [reflexivity|lia].
  - right. split; [reflexivity|lia].
Qed.

Lemma free_n_dl n : dl (free_n n) (fun _ d => d = - n) (fun _ _ => False).
Proof.
  intros w w' r H. destruct (free_n_spec _ _ _ _ H) as (-> & S & L). split; [exact S|]. lia.
Qed.

Lemma check_st_spec st w w' r : check_st st w = (w', r) ->
  w' = w /\ ((st = st_ok /\ r = inl tt) \/ (st <> st_ok /\ r = inr st)).
Proof.
  unfold check_st. destruct (st =? st_ok) eqn:Eq.
  - unfold ret. intros H; injection H as <- <-. apply Z.eqb_eq in Eq. auto.
  - unfold exit_with. intros H; injection H as <- <-. apply Z.eqb_neq in Eq. auto.
Qed.

Lemma check_st_dl st : dl (check_st st) (fun _ d => d = 0) (fun _ d => d = 0).
Proof.
  intros w w' r H. destruct (check_st_spec _ _ _ _ H) as [-> _]. split; [reflexivity|].
  destruct r; lia.
Qed.

(* the bind steps used below *)
Ltac dl_alloc1 ok :=
  eapply dl_bind; [apply alloc1_dl | cbv beta; intros; contradiction
                  | cbv beta; intros ok ? [[-> ->]|[-> ->]] ].
Ltac dl_free :=
  eapply dl_bind; [apply free_n_dl | cbv beta; intros; contradiction
                  | cbv beta; intros _ ? -> ].

Lemma alloc_seq_dl n :
  dl (alloc_seq n)
     (fun r d => d = snd r /\ (fst r = true -> snd r = Z.of_nat n) /\
                 (fst r = false -> 0 <= snd r < Z.of_nat n))
     (fun _ _ => False).
Proof.
  induction n as [|n IH]; cbn [alloc_seq].
  - apply dl_ret. cbn [fst snd]. split; [reflexivity|]. split; [intros _; reflexivity|discriminate].
  - dl_alloc1 ok.
    + eapply dl_bind; [apply IH | cbv beta; intros; contradiction | cbv beta; intros [b k] d1 HR].
      cbn [fst snd] in *. destruct HR as (Hd & Ht & Hf).
      apply dl_ret. cbn [fst snd]. split; [lia|]. split; intros Hb.
      * specialize (Ht Hb). lia.
      * specialize (Hf Hb). lia.
    + apply dl_ret. cbn [fst snd]. split; [lia|]. split; [discriminate|intros _; lia].
Qed.

(* explicit form of the leaf fact about alloc_seq *)
Lemma alloc_seq_spec n w w' r : alloc_seq n w = (w', r) ->
  w_s w' = w_s w /\
  ((r = inl (true, Z.of_nat n) /\ lv w' = lv w + Z.of_nat n) \/
   (exists k, r = inl (false, k) /\ 0 <= k < Z.of_nat n /\ lv w' = lv w + k)).
Proof.
  intros H. destruct (alloc_seq_dl n _ _ _ H) as [S D]. split; [exact S|].
  destruct r as [[b k]|st]; [|contradiction]. cbn [fst snd] in D. destruct D as (Hd & Ht & Hf).
  destruct b.
  - left. rewrite (Ht eq_refl) in *. split; [reflexivity|lia].
  - right. exists k. specialize (Hf eq_refl). split; [reflexivity|]. split; lia.
Qed.

(* ------------------------------------------------------------------ *)
(* 2. stream_alloc                                                    *)
(* ------------------------------------------------------------------ *)

Lemma cipher_blocks_range a : 1 <= cipher_blocks a <= 2.
Proof. unfold cipher_blocks. destruct (a =? SRTP_NULL_CIPHER_c); lia. Qed.

Lemma alloc_cipher_dl id klen owned :
  dl (alloc_cipher id klen owned)
     (fun o d => o = owned + cipher_blocks (cipher_alg_of id klen) /\
                 d = cipher_blocks (cipher_alg_of id klen))
     (fun _ d => d = - owned).
Proof.
  unfold alloc_cipher. cbv zeta.
  destruct (negb (cipher_alloc_status id klen =? st_ok)).
  - dl_free. apply dl_exit. lia.
  - pose proof (cipher_blocks_range (cipher_alg_of id klen)) as Hcb.
    eapply dl_bind; [apply alloc_seq_dl | cbv beta; intros; contradiction | cbv beta; intros [b k] d1 HR].
    cbn [fst snd] in *. destruct HR as (Hd & Ht & Hf). unfold zn in *.
    rewrite Z2Nat.id in * by lia.
    destruct b.
    + specialize (Ht eq_refl). apply dl_ret. lia.
    + specialize (Hf eq_refl). dl_free. apply dl_exit. lia.
Qed.

Lemma alloc_auth_dl id klen tlen owned :
  dl (alloc_auth id klen tlen owned) (fun o d => o = owned + 1 /\ d = 1) (fun _ d => d = - owned).
Proof.
  unfold alloc_auth. cbv zeta.
  destruct (negb (auth_alloc_status id klen tlen =? st_ok)).
  - dl_free. apply dl_exit. lia.
  - dl_alloc1 ok.
    + apply dl_ret. lia.
    + dl_free. apply dl_exit. lia.
Qed.

Lemma alloc_block_dl owned :
  dl (alloc_block owned) (fun o d => o = owned + 1 /\ d = 1) (fun _ d => d = - owned).
Proof.
  unfold alloc_block. dl_alloc1 ok.
  - apply dl_ret. lia.
  - dl_free. apply dl_exit. lia.
Qed.

Definition cb_rtp (p : policy) : Z :=
  cipher_blocks (cipher_alg_of (cp_cipher (p_rtp p)) (cp_keylen (p_rtp p))).
Definition cb_rtcp (p : policy) : Z :=
  cipher_blocks (cipher_alg_of (cp_cipher (p_rtcp p)) (cp_keylen (p_rtcp p))).
(* blocks srtp_stream_alloc obtains per master key / per key for the header-extension cipher *)
Definition key_alloc (p : policy) : Z := cb_rtp p + 1 + cb_rtcp p + 1 + 1.
Definition xtn_alloc (p : policy) : Z := if has_xtn p then cb_rtp p else 0.
Definition nk (p : policy) : Z := Z.of_nat (zn (num_keys p)).
(* what srtp_stream_alloc returns *)
Definition alloc_blocks (p : policy) : Z :=
  2 + nk p * key_alloc p + (if has_xtn p then 1 + nk p * cb_rtp p else 0).

Lemma alloc_keys_dl n p : forall owned,
  dl (alloc_keys n p owned)
     (fun o d => o = owned + Z.of_nat n * key_alloc p /\ d = Z.of_nat n * key_alloc p)
     (fun _ d => d = - owned).
Proof.
  induction n as [|n IH]; intros owned; cbn [alloc_keys].
  - apply dl_ret. lia.
  - eapply dl_bind; [apply alloc_cipher_dl | cbv beta; intros; lia | cbv beta; intros o1 d1 [-> ->]].
    eapply dl_bind; [apply alloc_auth_dl | cbv beta; intros; lia | cbv beta; intros o2 d2 [-> ->]].
    eapply dl_bind; [apply alloc_cipher_dl | cbv beta; intros; lia | cbv beta; intros o3 d3 [-> ->]].
    eapply dl_bind; [apply alloc_auth_dl | cbv beta; intros; lia | cbv beta; intros o4 d4 [-> ->]].
    eapply dl_bind; [apply alloc_block_dl | cbv beta; intros; lia | cbv beta; intros o5 d5 [-> ->]].
    eapply dl_conseq; [apply IH | cbv beta | cbv beta ]; unfold key_alloc, cb_rtp, cb_rtcp; intros; lia.
Qed.

Lemma alloc_xtn_ciphers_dl n p : forall owned,
  dl (alloc_xtn_ciphers n p owned)
     (fun o d => o = owned + Z.of_nat n * cb_rtp p /\ d = Z.of_nat n * cb_rtp p)
     (fun _ d => d = - owned).
Proof.
  induction n as [|n IH]; intros owned; cbn [alloc_xtn_ciphers].
  - apply dl_ret. lia.
  - change (xtn_cipher_id p) with (cp_cipher (p_rtp p)). change (xtn_cipher_klen p) with (cp_keylen (p_rtp p)).
    eapply dl_bind; [apply alloc_cipher_dl | cbv beta; intros; lia | cbv beta; intros o1 d1 [-> ->]].
    eapply dl_conseq; [apply IH | cbv beta | cbv beta ]; unfold cb_rtp; intros; lia.
Qed.

(* stream_alloc: success -> live grew by exactly the returned count (= alloc_blocks p);
   exit -> live unchanged; the session is never touched *)
Lemma stream_alloc_dl p :
  dl (stream_alloc p) (fun o d => o = alloc_blocks p /\ d = o) (fun _ d => d = 0).
Proof.
  unfold stream_alloc.
  eapply dl_bind; [apply check_st_dl | cbv beta; intros; lia | cbv beta; intros _ d0 ->].
  dl_alloc1 ok; cbn [negb].
  2: { apply dl_exit. lia. }
  eapply dl_bind; [apply alloc_block_dl | cbv beta; intros; lia | cbv beta; intros o1 d1 [-> ->]].
  eapply dl_bind; [apply alloc_keys_dl | cbv beta; intros; lia | cbv beta; intros o2 d2 [-> ->]].
  unfold alloc_blocks, nk. destruct (has_xtn p).
  - eapply dl_bind; [apply alloc_block_dl | cbv beta; intros; lia | cbv beta; intros o3 d3 [-> ->]].
    eapply dl_conseq; [apply alloc_xtn_ciphers_dl | cbv beta | cbv beta ]; intros; lia.
  - apply dl_ret. lia.
Qed.

Theorem stream_alloc_balance p w w' r : stream_alloc p w = (w', r) ->
  w_s w' = w_s w /\
  match r with
  | inl o => lv w' = lv w + o /\ o = alloc_blocks p
  | inr _ => lv w' = lv w
  end.
Proof.
  intros H. destruct (stream_alloc_dl p _ _ _ H) as [S D]. split; [exact S|].
  destruct r; lia.
Qed.

(* ------------------------------------------------------------------ *)
(* 3. stream_init                                                     *)
(* ------------------------------------------------------------------ *)

(* well-formedness of the policy as a model value: the key array has at least as many
   entries as the policy announces (in C: policy->key / policy->keys[i] are valid
   pointers) and mki_size is a size_t *)
Definition policy_wf (p : policy) : Prop :=
  num_keys p <= lenZ (p_keys p) /\ 0 <= p_mki_size p.

Definition mki01 (msz : Z) : Z := if msz =? 0 then 0 else 1.

(* a session-keys entry built for policy p with MKI length msz *)
Definition key_ok (p : policy) (msz : Z) (k : skeys) : Prop :=
  keys_blocks k = key_alloc p + xtn_alloc p + mki01 msz /\ (k_mki k = [] <-> msz = 0).

(* the MKI ids of a stream's keys are all present or all absent, according to mki_size
   (what srtp_stream_clone relies on) *)
Definition stream_wf (s : stream) : Prop :=
  Forall (fun k => k_mki k = [] <-> s_mki_size s = 0) (s_keys s).

Lemma ck_alg_cipher_key alg klen key : ck_alg (cipher_key alg klen key) = alg.
Proof. unfold cipher_key. destruct (alg =? SRTP_NULL_CIPHER_c); [reflexivity|]. destruct (is_gcm_alg alg); reflexivity. Qed.

Lemma pair_some_inv {A B} (a a' : A) (b b' : B) : (a, Some b) = (a', Some b') -> b = b'.
Proof. intros H; injection H; auto. Qed.

Lemma derive_keys_ok p mkey mki st d : derive_keys p mkey mki = (st, Some d) ->
  keys_blocks (d_keys d) = key_alloc p + xtn_alloc p + (match mki with [] => 0 | _ => 1 end) /\
  k_mki (d_keys d) = mki.
Proof.
  unfold derive_keys. cbv zeta.
  match goal with |- (if ?c then _ else _) = _ -> _ => destruct c end; [discriminate|].
  match goal with |- (if ?c then _ else _) = _ -> _ => destruct c end; [discriminate|].
  unfold key_alloc, xtn_alloc, cb_rtp, cb_rtcp.
  destruct (has_xtn p); cbv iota beta; intros H; apply pair_some_inv in H; subst d;
    lazy beta iota delta [d_keys k_rtp_c k_rtcp_c k_xtn_c k_mki keys_blocks];
    rewrite !ck_alg_cipher_key; (split; [lia|reflexivity]).
Qed.

Lemma init_keys_dl p msz km owned : 0 <= msz ->
  dl (init_keys p msz km owned)
     (fun r d => key_ok p msz (fst r) /\ snd r = owned + mki01 msz /\ d = mki01 msz)
     (fun _ _ => True).
Proof.
  intros Hm. unfold init_keys. change derive_keys_any with derive_keys.
  eapply dl_bind with (Rm := fun o1 d => o1 = owned + mki01 msz /\ d = mki01 msz /\ (msz <> 0 -> snd km <> []))
                      (Em := fun _ _ => True).
  - unfold mki01. destruct (msz =? 0) eqn:Emz; cbn [negb].
    + apply dl_ret. apply Z.eqb_eq in Emz. split; [lia|]. split; [lia|]. intros; contradiction.
    + destruct (snd km) as [|x l] eqn:Ekm.
      * apply dl_exit. exact I.
      * dl_alloc1 ok.
        -- apply dl_ret. split; [lia|]. split; [lia|]. intros _; discriminate.
        -- apply dl_exit. exact I.
  - auto.
  - cbv beta. intros o1 d1 (-> & -> & Hkm).
    destruct (derive_keys p (fst km) (if msz =? 0 then [] else take (zn msz) (snd km ++ zeros (zn msz))))
      as [st [d|]] eqn:Ed.
    2: { apply dl_exit. exact I. }
    eapply dl_bind; [apply alloc_seq_dl | cbv beta; intros; contradiction | cbv beta; intros [b k] d2 HR].
    cbn [fst snd] in *. destruct HR as (Hd & Ht & Hf).
    destruct b; cbn [negb].
    2: { dl_free. apply dl_exit. exact I. }
    specialize (Ht eq_refl). dl_free.
    destruct (d_overflow d); [apply dl_exit; exact I|].
    apply dl_ret. cbn [fst snd].
    split; [|split; [reflexivity|lia]].
    destruct (derive_keys_ok _ _ _ _ _ Ed) as [Hb Hk]. unfold key_ok. rewrite Hb, Hk.
    unfold mki01. destruct (msz =? 0) eqn:Emz.
    + apply Z.eqb_eq in Emz. split; [reflexivity|]. split; auto.
    + apply Z.eqb_neq in Emz. specialize (Hkm Emz).
      destruct (snd km) as [|x l]; [contradiction|].
      unfold zn. destruct (Z.to_nat msz) as [|n] eqn:En; [lia|].
      cbn [app take]. split; [reflexivity|]. split; [discriminate|intros; contradiction].
Qed.

Lemma init_all_keys_dl p msz : 0 <= msz -> forall kms owned,
  dl (init_all_keys p msz kms owned)
     (fun r d => Forall (key_ok p msz) (fst r) /\ length (fst r) = length kms /\
                 snd r = owned + lenZ (fst r) * mki01 msz /\ d = lenZ (fst r) * mki01 msz)
     (fun _ _ => True).
Proof.
  intros Hm. induction kms as [|km t IH]; intros owned; cbn [init_all_keys].
  - apply dl_ret. cbn [fst snd]. split; [constructor|]. split; [reflexivity|]. unfold lenZ. cbn [length]. lia.
  - eapply dl_bind; [apply init_keys_dl; exact Hm | auto | cbv beta; intros [k o1] d1 HR].
    cbn [fst snd] in *. destruct HR as (Hk & -> & ->).
    eapply dl_bind; [apply IH | auto | cbv beta; intros [ks o2] d2 HR].
    cbn [fst snd] in *. destruct HR as (Hks & Hlen & -> & ->).
    apply dl_ret. cbn [fst snd]. split; [constructor; assumption|].
    split; [cbn [length]; congruence|]. unfold lenZ. cbn [length]. lia.
Qed.

Lemma length_take {A} n : forall (l : list A), length (take n l) = Nat.min n (length l).
Proof.
  induction n as [|n IH]; intros l; [reflexivity|].
  destruct l as [|x l]; [reflexivity|]. cbn [take length]. rewrite IH. reflexivity.
Qed.

(* srtp_stream_init_all_master_keys *)
Lemma init_master_keys_dl p o : policy_wf p ->
  dl (if p_usekey p then
        (if p_use_mki p then exit_with st_bad_param else ret tt) ;;;
        init_all_keys p 0 (take 1 (p_keys p)) o
      else
        (if SRTP_MAX_NUM_MASTER_KEYS_c <? p_nkeys p then exit_with st_bad_param else ret tt) ;;;
        (if p_use_mki p && (p_mki_size p =? 0) then exit_with st_bad_param else ret tt) ;;;
        init_all_keys p (p_mki_size p) (take (zn (p_nkeys p)) (p_keys p)) o)
     (fun r d => let msz := if p_usekey p then 0 else p_mki_size p in
                 Forall (key_ok p msz) (fst r) /\ lenZ (fst r) = nk p /\
                 snd r = o + nk p * mki01 msz /\ d = nk p * mki01 msz)
     (fun _ _ => True).
Proof.
  intros [Hlen Hmsz]. unfold nk, num_keys in *. destruct (p_usekey p); cbv zeta.
  - eapply dl_bind with (Rm := fun _ d => d = 0) (Em := fun _ _ => True);
      [destruct (p_use_mki p); [apply dl_exit; exact I|apply dl_ret; reflexivity] | auto
      | cbv beta; intros _ d0 ->].
    eapply dl_conseq; [apply init_all_keys_dl; lia | cbv beta | auto].
    intros [ks o1] d (HF & HL & Ho & Hd). cbn [fst snd] in *.
    rewrite length_take in HL. unfold lenZ, zn in *.
    replace (Z.of_nat (Z.to_nat 1)) with 1 by lia.
    assert (Z.of_nat (length ks) = 1) as E1 by lia. rewrite E1 in *.
    split; [exact HF|]. split; [reflexivity|]. split; lia.
  - eapply dl_bind with (Rm := fun _ d => d = 0) (Em := fun _ _ => True);
      [destruct (SRTP_MAX_NUM_MASTER_KEYS_c <? p_nkeys p); [apply dl_exit; exact I|apply dl_ret; reflexivity]
      | auto | cbv beta; intros _ d0 ->].
    eapply dl_bind with (Rm := fun _ d => d = 0) (Em := fun _ _ => True);
      [destruct (p_use_mki p && (p_mki_size p =? 0)); [apply dl_exit; exact I|apply dl_ret; reflexivity]
      | auto | cbv beta; intros _ d1 ->].
    eapply dl_conseq; [apply init_all_keys_dl; lia | cbv beta | auto].
    intros [ks o1] d (HF & HL & Ho & Hd). cbn [fst snd] in *.
    rewrite length_take in HL. unfold lenZ, zn in *.
    assert (Z.of_nat (length ks) = Z.of_nat (Z.to_nat (p_nkeys p))) as E1 by lia. rewrite E1 in *.
    split; [exact HF|]. split; [reflexivity|]. split; lia.
Qed.

Lemma stream_init_dl p owned : policy_wf p ->
  dl (stream_init p owned)
     (fun r d => d = snd r - owned /\ s_clone (fst r) = false /\
                 Forall (key_ok p (s_mki_size (fst r))) (s_keys (fst r)) /\
                 lenZ (s_keys (fst r)) = nk p /\
                 snd r = owned + 1 + nk p * mki01 (s_mki_size (fst r)) /\
                 s_enc_xtn (fst r) = p_enc_xtn p /\ s_ssrc (fst r) = p_ssrc p)
     (fun _ _ => True).
Proof.
  intros Hwf. unfold stream_init.
  eapply dl_bind; [apply check_st_dl | auto | cbv beta; intros _ d0 ->].
  eapply dl_bind with (Rm := fun _ d => d = 0) (Em := fun _ _ => True);
    [match goal with |- dl (if ?c then _ else _) _ _ => destruct c end;
       [apply dl_exit; exact I|apply dl_ret; reflexivity]
    | auto | cbv beta; intros _ d1 ->].
  cbv zeta. dl_alloc1 ok; cbn [negb].
  2: { apply dl_exit. exact I. }
  destruct (rdbx_init (if p_window p =? 0 then window_default_c else p_window p)) as [rx|].
  2: { apply dl_exit. exact I. }
  eapply dl_bind; [apply dl_catch; apply init_master_keys_dl; exact Hwf
                  | cbv beta; intros; contradiction | cbv beta; intros r d2 HR].
  destruct r as [[keys o']|st].
  2: { dl_free. apply dl_exit. exact I. }
  cbn [fst snd] in HR. cbv zeta in HR. destruct HR as (HF & HL & Ho & Hd).
  apply dl_ret. cbn [fst snd s_clone s_keys s_mki_size s_enc_xtn s_ssrc].
  split; [lia|]. split; [reflexivity|]. split; [exact HF|]. split; [exact HL|].
  split; [lia|]. split; reflexivity.
Qed.

Lemma sum_keys_const c ks : Forall (fun k => keys_blocks k = c) ks ->
  fold_right (fun k a => a + keys_blocks k) 0 ks = lenZ ks * c.
Proof.
  unfold lenZ. induction 1 as [|k ks Hk _ IH]; cbn [fold_right length]; [lia|]. rewrite IH, Hk. lia.
Qed.

(* stream_init after stream_alloc: the returned count is stream_blocks of the new stream and
   is exactly what the two calls obtained together *)
Theorem stream_init_balance p w w' s o' : policy_wf p ->
  stream_init p (alloc_blocks p) w = (w', inl (s, o')) ->
  w_s w' = w_s w /\ o' = stream_blocks s /\ lv w' = lv w + o' - alloc_blocks p /\
  stream_wf s /\ s_clone s = false /\ s_ssrc s = p_ssrc p.
Proof.
  intros Hwf H. destruct (stream_init_dl p (alloc_blocks p) Hwf _ _ _ H) as [S D].
  cbn [fst snd] in D. destruct D as (Hd & Hc & HF & HL & Ho & Hx & Hs).
  split; [exact S|].
  assert (Hsum : fold_right (fun k a => a + keys_blocks k) 0 (s_keys s)
                 = lenZ (s_keys s) * (key_alloc p + xtn_alloc p + mki01 (s_mki_size s))).
  { apply sum_keys_const. eapply Forall_impl; [|exact HF]. intros k [Hk _]. exact Hk. }
  split.
  { unfold stream_blocks. rewrite Hc, Hsum, Hx, HL, Ho. unfold alloc_blocks, xtn_alloc, has_xtn.
    destruct (p_enc_xtn p); cbn [negb]; lia. }
  split; [lia|]. split; [|split; assumption].
  unfold stream_wf. eapply Forall_impl; [|exact HF]. intros k [_ Hk]. exact Hk.
Qed.

(* ------------------------------------------------------------------ *)
(* 4. build_stream                                                    *)
(* ------------------------------------------------------------------ *)

Ltac binv H a w1 H1 :=
  apply bind_inv in H; destruct H as [(a & w1 & H1 & H)|(a & H & ->)].

Lemma catch_inv {A} (m : M A) w w' r : catch m w = (w', r) -> exists r0, r = inl r0 /\ m w = (w', r0).
Proof.
  unfold catch. destruct (m w) as [w1 r1]. intros H; injection H as <- <-. exists r1. auto.
Qed.

Lemma live_now_spec w w' r : live_now w = (w', r) -> w' = w /\ r = inl (lv w).
Proof. unfold live_now, bind, get_h, ret, lv. intros H; injection H as <- <-. auto. Qed.

Lemma release_since_spec mark w w' r : release_since mark w = (w', r) ->
  r = inl tt /\ w_s w' = w_s w /\ lv w' = mark.
Proof.
  unfold release_since. intros H. binv H l w1 H1.
  - destruct (live_now_spec _ _ _ H1) as [-> E]. injection E as ->.
    destruct (free_n_spec _ _ _ _ H) as (-> & S & L). split; [reflexivity|]. split; [exact S|lia].
  - destruct (live_now_spec _ _ _ H) as [_ E]. discriminate.
Qed.

Theorem build_stream_balance p w w' r : policy_wf p -> build_stream p w = (w', r) ->
  w_s w' = w_s w /\
  match r with
  | inl s => lv w' = lv w + stream_blocks s /\ stream_wf s /\ s_clone s = false /\ s_ssrc s = p_ssrc p
  | inr _ => lv w' = lv w
  end.
Proof.
  intros Hwf H. unfold build_stream in H.
  binv H mark w1 H1.
  2: { destruct (live_now_spec _ _ _ H) as [_ E]. discriminate. }
  destruct (live_now_spec _ _ _ H1) as [-> E]. injection E as ->. clear H1.
  binv H r0 w2 H2.
  2: { destruct (catch_inv _ _ _ _ H) as (r1 & E & _). discriminate. }
  destruct (catch_inv _ _ _ _ H2) as (r1 & E & Hm). injection E as ->. clear H2.
  binv Hm o w3 H3.
  - destruct (stream_alloc_balance _ _ _ _ H3) as [S3 [L3 Eo]]. subst o.
    destruct r1 as [[s o']|st].
    + destruct (stream_init_balance _ _ _ _ _ Hwf Hm) as (S4 & Eo & L4 & W4 & C4 & I4).
      unfold ret in H. injection H as <- <-.
      split; [congruence|]. split; [lia|]. auto.
    + destruct (stream_init_dl p _ Hwf _ _ _ Hm) as [S4 _].
      binv H u w4 H4.
      * destruct (release_since_spec _ _ _ _ H4) as (_ & S5 & L5).
        unfold exit_with in H. injection H as <- <-. split; [congruence|exact L5].
      * destruct (release_since_spec _ _ _ _ H) as (E & _). discriminate.
  - destruct (stream_alloc_balance _ _ _ _ Hm) as [S3 L3].
    binv H u w4 H4.
    + destruct (release_since_spec _ _ _ _ H4) as (_ & S5 & L5).
      unfold exit_with in H. injection H as <- <-. split; [congruence|exact L5].
    + destruct (release_since_spec _ _ _ _ H) as (E & _). discriminate.
Qed.

(* ------------------------------------------------------------------ *)
(* 5. stream_clone                                                    *)
(* ------------------------------------------------------------------ *)

Lemma clone_mkis_dl n : forall owned,
  dl (clone_mkis n owned) (fun o d => o = owned + Z.of_nat n /\ d = Z.of_nat n) (fun _ d => d = - owned).
Proof.
  induction n as [|n IH]; intros owned; cbn [clone_mkis].
  - apply dl_ret. lia.
  - dl_alloc1 ok.
    + eapply dl_conseq; [apply IH | cbv beta | cbv beta]; intros; lia.
    + dl_free. apply dl_exit. lia.
Qed.

Lemma stream_clone_dl t ssrc :
  dl (stream_clone t ssrc)
     (fun s d => s_clone s = true /\ s_keys s = s_keys t /\ s_mki_size s = s_mki_size t /\
                 s_ssrc s = ssrc /\ d = 3 + (if s_mki_size t =? 0 then 0 else lenZ (s_keys t)))
     (fun _ d => d = 0).
Proof.
  unfold stream_clone.
  dl_alloc1 ok; cbn [negb].
  2: { apply dl_exit. lia. }
  dl_alloc1 ok2; cbn [negb].
  2: { dl_free. apply dl_exit. lia. }
  eapply dl_bind; [apply clone_mkis_dl | cbv beta; intros; lia | cbv beta; intros o d1 [-> ->]].
  dl_alloc1 ok3; cbn [negb].
  2: { dl_free. apply dl_exit. lia. }
  destruct (rdbx_init (wlen (s_rdbx t))) as [rx|].
  2: { dl_free. apply dl_exit. lia. }
  apply dl_ret. cbn [s_clone s_keys s_mki_size s_ssrc].
  repeat (split; [reflexivity|]).
  unfold lenZ. destruct (s_mki_size t =? 0); lia.
Qed.

Lemma stream_blocks_clone s : stream_wf s -> s_clone s = true ->
  stream_blocks s = 3 + (if s_mki_size s =? 0 then 0 else lenZ (s_keys s)).
Proof.
  unfold stream_wf, stream_blocks, lenZ. intros HF ->. f_equal.
  induction HF as [|k ks Hk _ IH]; cbn [fold_right length].
  - destruct (s_mki_size s =? 0); reflexivity.
  - rewrite IH. destruct (s_mki_size s =? 0) eqn:Em.
    + apply Z.eqb_eq in Em. apply Hk in Em. rewrite Em. reflexivity.
    + apply Z.eqb_neq in Em. destruct (k_mki k) eqn:Ek; [exfalso; apply Em, Hk; reflexivity|]. lia.
Qed.

Theorem stream_clone_balance t ssrc w w' r : stream_wf t -> stream_clone t ssrc w = (w', r) ->
  w_s w' = w_s w /\
  match r with
  | inl s => lv w' = lv w + stream_blocks s /\ stream_wf s /\ s_ssrc s = ssrc /\ s_clone s = true
  | inr _ => lv w' = lv w
  end.
Proof.
  intros Hwf H. destruct (stream_clone_dl t ssrc _ _ _ H) as [S D]. split; [exact S|].
  destruct r as [s|st]; [|lia]. destruct D as (Hc & Hk & Hm & Hs & Hd).
  assert (W : stream_wf s). { unfold stream_wf in *. rewrite Hk, Hm. exact Hwf. }
  rewrite (stream_blocks_clone s W Hc), Hm, Hk. split; [lia|]. auto.
Qed.

(* ------------------------------------------------------------------ *)
(* 6. the stream list                                                 *)
(* ------------------------------------------------------------------ *)

Lemma sumb_app l s : sumb (l ++ [s]) = sumb l + stream_blocks s.
Proof. unfold sumb. induction l as [|x l IH]; cbn [app fold_right]; [lia|]. rewrite IH. lia. Qed.

Lemma sumb_remove x : forall l s, list_get l x = Some s -> sumb (list_remove l x) = sumb l - stream_blocks s.
Proof.
  unfold sumb. induction l as [|y l IH]; intros s; cbn [list_get list_remove fold_right]; [discriminate|].
  destruct (s_ssrc y =? x).
  - intros E; injection E as <-. lia.
  - intros E. cbn [fold_right]. rewrite (IH _ E). lia.
Qed.

Lemma list_replace_last x n ns : s_ssrc ns = x -> forall l, list_get l x = None ->
  list_replace (l ++ [ns]) x n = l ++ [n].
Proof.
  intros Hs. induction l as [|y l IH]; cbn [app list_get list_replace].
  - intros _. rewrite Hs, Z.eqb_refl. reflexivity.
  - destruct (s_ssrc y =? x); [discriminate|]. intros E. rewrite (IH E). reflexivity.
Qed.

Lemma stream_blocks_upd s rx rb pe di li : stream_blocks (upd_stream s rx rb pe di li) = stream_blocks s.
Proof. reflexivity. Qed.
Lemma stream_wf_upd s rx rb pe di li : stream_wf s -> stream_wf (upd_stream s rx rb pe di li).
Proof. intros H. exact H. Qed.

Lemma list_insert_spec s w w' r : list_insert s w = (w', r) ->
  lv w' = lv w /\
  ((r = inl st_ok /\ ss_template (w_s w') = ss_template (w_s w) /\
    ss_list (w_s w') = ss_list (w_s w) ++ [s]) \/
   (r = inl st_alloc_fail /\ w_s w' = w_s w)).
Proof.
  unfold list_insert, bind, get_s. destruct (lenZ (ss_list (w_s w)) =? ss_cap (w_s w)).
  - unfold alloc1, bind, get_h, put_h, ret.
    destruct ((0 <? h_fail (w_h w)) && (h_fail (w_h w) =? 1)); cbn;
      intros H; injection H as <- <-; unfold lv; cbn; (split; [lia|auto]).
  - cbn. intros H; injection H as <- <-; unfold lv; cbn. auto.
Qed.

Lemma stream_dealloc_spec s w w' r : stream_dealloc s w = (w', r) ->
  r = inl tt /\ w_s w' = w_s w /\ lv w' = lv w - stream_blocks s.
Proof. unfold stream_dealloc. apply free_n_spec. Qed.

Lemma dealloc_exit_spec {A} s st w w' (r : A + Z) : (stream_dealloc s ;;; @exit_with A st) w = (w', r) ->
  r = inr st /\ w_s w' = w_s w /\ lv w' = lv w - stream_blocks s.
Proof.
  intros H. binv H u w1 H1.
  - destruct (stream_dealloc_spec _ _ _ _ H1) as (_ & S & L).
    unfold exit_with in H. injection H as <- <-. auto.
  - destruct (stream_dealloc_spec _ _ _ _ H) as (E & _). discriminate.
Qed.

(* insert_or_dealloc: on success the stream's blocks pass to the session (live unchanged, the list
   gains s); on failure they are released and the session is unchanged *)
Lemma insert_or_dealloc_spec s w w' r : insert_or_dealloc s w = (w', r) ->
  (r = inl tt /\ lv w' = lv w /\ ss_template (w_s w') = ss_template (w_s w) /\
   ss_list (w_s w') = ss_list (w_s w) ++ [s]) \/
  (exists st, r = inr st /\ w_s w' = w_s w /\ lv w' = lv w - stream_blocks s).
Proof.
  intros H. unfold insert_or_dealloc in H. binv H st w1 H1.
  - destruct (list_insert_spec _ _ _ _ H1) as [L [(E & T & Li)|(E & S)]]; injection E as ->.
    + change (st_ok =? st_ok) with true in H. cbv iota in H. unfold ret in H. injection H as <- <-.
      left. auto.
    + change (st_alloc_fail =? st_ok) with false in H. cbv iota in H.
      destruct (dealloc_exit_spec _ _ _ _ _ H) as (-> & S2 & L2).
      right. exists st_alloc_fail. split; [reflexivity|]. split; [congruence|lia].
  - destruct (list_insert_spec _ _ _ _ H) as [_ [(E & _)|(E & _)]]; discriminate.
Qed.

(* ------------------------------------------------------------------ *)
(* 7. the session API keeps the balance                               *)
(* ------------------------------------------------------------------ *)

Definition tb (o : option stream) : Z := match o with Some t => stream_blocks t | None => 0 end.
Definition twf (o : option stream) : Prop := match o with Some t => stream_wf t | None => True end.

(* side invariant of the session: the template is a stream built by stream_init *)
Definition sess_wf (s : session) : Prop := twf (ss_template s).

Definition inv (w : world) (base : Z) : Prop := balanced w base /\ sess_wf (w_s w).

Lemma inv_elim w base : inv w base ->
  lv w = base + 3 + sumb (ss_list (w_s w)) + tb (ss_template (w_s w)) /\ twf (ss_template (w_s w)).
Proof. unfold inv, balanced, session_blocks, sess_wf, lv, tb. intros [B W]. split; [lia|exact W]. Qed.

Lemma inv_intro w base l t :
  ss_list (w_s w) = l -> ss_template (w_s w) = t ->
  lv w = base + 3 + sumb l + tb t -> twf t -> inv w base.
Proof.
  unfold inv, balanced, session_blocks, sess_wf, lv, tb. intros -> -> L W. split; [lia|exact W].
Qed.

Lemma inv_same w w' base : w_s w' = w_s w -> lv w' = lv w -> inv w base -> inv w' base.
Proof.
  intros S L I. destruct (inv_elim _ _ I) as [B W].
  eapply inv_intro; [reflexivity|reflexivity| |]; rewrite S; [lia|exact W].
Qed.

Ltac bgets H :=
  let H1 := fresh "Hg" in
  apply bind_inv in H; destruct H as [(? & ? & H1 & H)|(? & H1 & _)];
  [unfold get_s in H1; injection H1 as <- <- | discriminate H1].

Lemma set_template_spec t w w' r : set_template t w = (w', r) ->
  r = inl tt /\ lv w' = lv w /\ ss_template (w_s w') = t /\ ss_list (w_s w') = ss_list (w_s w).
Proof.
  unfold set_template, bind, get_s, put_s, lv. intros H; injection H as <- <-. cbn. auto.
Qed.

Theorem stream_add_balanced p base w w' r :
  policy_wf p -> inv w base -> stream_add p w = (w', r) -> inv w' base.
Proof.
  intros Hwf I H. unfold stream_add in H.
  binv H u w1 H1.
  2: { destruct (check_st_spec _ _ _ _ H) as [-> _]. exact I. }
  destruct (check_st_spec _ _ _ _ H1) as [-> _]. clear H1.
  binv H s w2 H2.
  2: { destruct (build_stream_balance _ _ _ _ Hwf H) as [S L]. exact (inv_same _ _ _ S L I). }
  destruct (build_stream_balance _ _ _ _ Hwf H2) as [S (L & Wf & Cl & Ss)].
  destruct (inv_elim _ _ I) as [B W].
  bgets H.
  destruct ((p_ssrc_type p =? ssrc_any_outbound_c) || (p_ssrc_type p =? ssrc_any_inbound_c)).
  - destruct (ss_template (w_s w2)) as [t0|] eqn:ET.
    + destruct (dealloc_exit_spec _ _ _ _ _ H) as (_ & S3 & L3).
      apply (inv_same w); [congruence|lia|exact I].
    + destruct (set_template_spec _ _ _ _ H) as (_ & L3 & T3 & Li3).
      eapply inv_intro; [exact Li3|exact T3| |].
      * rewrite S in ET. rewrite ET in B. rewrite S. cbn [tb] in *.
        change (stream_blocks (set_dir s _)) with (stream_blocks s). lia.
      * exact Wf.
  - destruct (p_ssrc_type p =? ssrc_specific_c).
    + destruct (insert_or_dealloc_spec _ _ _ _ H) as [(_ & L3 & T3 & Li3)|(st & _ & S3 & L3)].
      * eapply inv_intro; [exact Li3|exact T3| |].
        -- rewrite sumb_app, S. lia.
        -- rewrite S. exact W.
      * apply (inv_same w); [congruence|lia|exact I].
    + destruct (dealloc_exit_spec _ _ _ _ _ H) as (_ & S3 & L3).
      apply (inv_same w); [congruence|lia|exact I].
Qed.

Lemma stream_remove_spec x w w' r : stream_remove x w = (w', r) ->
  match list_get (ss_list (w_s w)) x with
  | None => w' = w /\ r = inr st_no_ctx
  | Some s => r = inl tt /\ lv w' = lv w - stream_blocks s /\
              ss_template (w_s w') = ss_template (w_s w) /\
              ss_list (w_s w') = list_remove (ss_list (w_s w)) x
  end.
Proof.
  unfold stream_remove, bind, get_s. destruct (list_get (ss_list (w_s w)) x).
  - unfold put_s, stream_dealloc, free_n, bind, get_h, put_h, lv. cbn.
    intros H; injection H as <- <-. cbn. auto.
  - unfold exit_with. intros H; injection H as <- <-. auto.
Qed.

Theorem stream_remove_balanced x base w w' r :
  inv w base -> stream_remove x w = (w', r) -> inv w' base.
Proof.
  intros I H. destruct (inv_elim _ _ I) as [B W].
  pose proof (stream_remove_spec _ _ _ _ H) as R.
  destruct (list_get (ss_list (w_s w)) x) as [s|] eqn:EG.
  - destruct R as (_ & L & T & Li).
    eapply inv_intro; [exact Li|exact T| |exact W].
    rewrite (sumb_remove _ _ _ EG). lia.
  - destruct R as [-> _]. exact I.
Qed.

Theorem stream_update_specific_balanced p base w w' r :
  policy_wf p -> inv w base -> stream_update_specific p w = (w', r) -> inv w' base.
Proof.
  intros Hwf I H. unfold stream_update_specific in H.
  binv H u w1 H1.
  2: { destruct (check_st_spec _ _ _ _ H) as [-> _]. exact I. }
  destruct (check_st_spec _ _ _ _ H1) as [-> _]. clear H1.
  bgets H.
  destruct (list_get (ss_list (w_s w)) (p_ssrc p)) as [old|] eqn:EG.
  2: { unfold exit_with in H. injection H as <- _. exact I. }
  binv H u0 w2 H1.
  2: { destruct (check_st_spec _ _ _ _ H) as [-> _]. exact I. }
  destruct (check_st_spec _ _ _ _ H1) as [-> _]. clear H1.
  binv H n w3 H2.
  2: { destruct (build_stream_balance _ _ _ _ Hwf H) as [S L]. exact (inv_same _ _ _ S L I). }
  destruct (build_stream_balance _ _ _ _ Hwf H2) as [S (L & Wf & Cl & Ss)].
  destruct (inv_elim _ _ I) as [B W].
  binv H u3 w4 H3.
  - pose proof (stream_remove_spec _ _ _ _ H3) as R. rewrite S, EG in R.
    destruct R as (_ & L4 & T4 & Li4).
    destruct (insert_or_dealloc_spec _ _ _ _ H) as [(_ & L5 & T5 & Li5)|(st & _ & S5 & L5)].
    + eapply inv_intro; [exact Li5|exact T5| |].
      * rewrite sumb_app, Li4, T4, (sumb_remove _ _ _ EG).
        change (stream_blocks (set_pending _ _)) with (stream_blocks n). lia.
      * rewrite T4. exact W.
    + eapply inv_intro; [reflexivity|reflexivity| |].
      * rewrite S5, Li4, T4, (sumb_remove _ _ _ EG).
        change (stream_blocks (set_pending _ _)) with (stream_blocks n) in L5. lia.
      * rewrite S5, T4. exact W.
  - (* the removal cannot fail: the stream was found and build_stream keeps the session *)
    pose proof (stream_remove_spec _ _ _ _ H) as R. rewrite S, EG in R.
    destruct R as (E & _). discriminate.
Qed.

(* clone the template and hand the clone to the list (lookup_or_clone, materialize) *)
Lemma clone_insert_balanced t ssrc base w w1 w2 ns r :
  inv w base -> ss_template (w_s w) = Some t ->
  stream_clone t ssrc w = (w1, inl ns) -> insert_or_dealloc ns w1 = (w2, r) ->
  inv w2 base /\
  (r = inl tt -> ss_list (w_s w2) = ss_list (w_s w) ++ [ns] /\ s_ssrc ns = ssrc /\
                 ss_template (w_s w2) = ss_template (w_s w)).
Proof.
  intros I ET H1 H2. destruct (inv_elim _ _ I) as [B W].
  assert (Wt : stream_wf t). { rewrite ET in W. exact W. }
  destruct (stream_clone_balance _ _ _ _ _ Wt H1) as [S (L & Wn & Sn & Cn)].
  destruct (insert_or_dealloc_spec _ _ _ _ H2) as [(-> & L3 & T3 & Li3)|(st & -> & S3 & L3)].
  - split.
    + eapply inv_intro; [exact Li3|exact T3| |].
      * rewrite sumb_app, S. lia.
      * rewrite S. exact W.
    + intros _. rewrite Li3, T3, S. auto.
  - split; [|discriminate]. apply (inv_same w); [congruence|lia|exact I].
Qed.

Lemma put_stream_list_spec x n w w' r : put_stream (RList x) n w = (w', r) ->
  r = inl tt /\ lv w' = lv w /\ ss_template (w_s w') = ss_template (w_s w) /\
  ss_list (w_s w') = list_replace (ss_list (w_s w)) x n.
Proof.
  unfold put_stream, bind, get_s, put_s, lv. intros H; injection H as <- <-. cbn. auto.
Qed.

Theorem lookup_or_clone_balanced ssrc b base w w' r :
  inv w base -> lookup_or_clone ssrc b w = (w', r) -> inv w' base.
Proof.
  intros I H. unfold lookup_or_clone in H.
  bgets H.
  destruct (list_get (ss_list (w_s w)) ssrc) as [s0|] eqn:EG.
  { unfold ret in H. injection H as <- _. exact I. }
  destruct (ss_template (w_s w)) as [t|] eqn:ET.
  2: { unfold exit_with in H. injection H as <- _. exact I. }
  destruct (inv_elim _ _ I) as [B W].
  binv H ns w1 H1.
  2: { assert (Wt : stream_wf t) by (rewrite ET in W; exact W).
       destruct (stream_clone_balance _ _ _ _ _ Wt H) as [S L]. exact (inv_same _ _ _ S L I). }
  binv H u w2 H2.
  2: { exact (proj1 (clone_insert_balanced _ _ _ _ _ _ _ _ I ET H1 H)). }
  destruct (clone_insert_balanced _ _ _ _ _ _ _ _ I ET H1 H2) as [I2 R2].
  destruct u. destruct (R2 eq_refl) as (Li2 & Sn & T2).
  binv H u w3 H3.
  - unfold ret in H. injection H as <- _.
    destruct b.
    + destruct (put_stream_list_spec _ _ _ _ _ H3) as (_ & L3 & T3 & Li3).
      destruct (inv_elim _ _ I2) as [B2 W2].
      eapply inv_intro; [exact Li3|exact T3| |exact W2].
      rewrite L3, B2, Li2, (list_replace_last _ _ _ Sn _ EG), !sumb_app.
      change (stream_blocks (set_dir ns _)) with (stream_blocks ns). lia.
    + unfold ret in H3. injection H3 as <- _. exact I2.
  - destruct b.
    + destruct (put_stream_list_spec _ _ _ _ _ H) as (E & _). discriminate.
    + discriminate H.
Qed.

Lemma get_stream_tmpl_spec w w' r : get_stream RTemplate w = (w', r) ->
  w' = w /\ match ss_template (w_s w) with Some t => r = inl t | None => r = inr st_fail end.
Proof.
  unfold get_stream, bind, get_s. destruct (ss_template (w_s w));
    [unfold ret|unfold exit_with]; intros H; injection H as <- <-; auto.
Qed.

Theorem materialize_balanced rf ssrc base w w' r :
  inv w base -> materialize rf ssrc w = (w', r) -> inv w' base.
Proof.
  intros I H. unfold materialize in H. destruct rf as [|x].
  2: { unfold ret in H. injection H as <- _. exact I. }
  binv H t w1 H1.
  2: { destruct (get_stream_tmpl_spec _ _ _ H) as [-> _]. exact I. }
  destruct (get_stream_tmpl_spec _ _ _ H1) as [-> ET].
  destruct (ss_template (w_s w)) as [t0|] eqn:ET0; [|discriminate]. injection ET as ->.
  destruct (inv_elim _ _ I) as [B W].
  binv H ns w2 H2.
  2: { assert (Wt : stream_wf t0) by (rewrite ET0 in W; exact W).
       destruct (stream_clone_balance _ _ _ _ _ Wt H) as [S L]. exact (inv_same _ _ _ S L I). }
  binv H u w3 H3.
  2: { exact (proj1 (clone_insert_balanced _ _ _ _ _ _ _ _ I ET0 H2 H)). }
  unfold ret in H. injection H as <- _.
  exact (proj1 (clone_insert_balanced _ _ _ _ _ _ _ _ I ET0 H2 H3)).
Qed.

(* ---- srtp_dealloc / srtp_create ---- *)

Theorem session_dealloc_releases base w w' r :
  balanced w base -> session_dealloc w = (w', r) ->
  r = inl tt /\ lv w' = base /\ w_s w' = {| ss_template := None; ss_list := []; ss_cap := 0 |}.
Proof.
  unfold balanced, session_blocks, sumb, session_dealloc, bind, get_s, lv. intros B.
  destruct (ss_template (w_s w)) as [t|];
    unfold stream_dealloc, free_n, bind, get_h, put_h, put_s, ret; cbn;
    intros H; injection H as <- <-; cbn; (split; [reflexivity|]); (split; [lia|reflexivity]).
Qed.

Lemma add_all_balanced ps : Forall policy_wf ps -> forall base w w' r,
  inv w base -> add_all ps w = (w', r) -> inv w' base.
Proof.
  induction 1 as [|p ps Hp _ IH]; intros base w w' r I H; cbn [add_all] in H.
  - unfold ret in H. injection H as <- _. exact I.
  - binv H u w1 H1.
    + apply (IH base w1 w' r); [|exact H]. exact (stream_add_balanced _ _ _ _ _ Hp I H1).
    + exact (stream_add_balanced _ _ _ _ _ Hp I H).
Qed.

Theorem session_create_balanced ps base w w' r :
  Forall policy_wf ps -> lv w = base -> session_create ps w = (w', r) ->
  match r with
  | inl _ => inv w' base
  | inr _ => lv w' = base
  end.
Proof.
  intros Hps L0 H. unfold session_create in H.
  binv H u w1 H1.
  2: { destruct ps as [|p ps']; [discriminate H|]. destruct (check_st_spec _ _ _ _ H) as [-> _]. exact L0. }
  assert (w1 = w) as ->.
  { destruct ps as [|p ps']; [unfold ret in H1; injection H1 as <- _; reflexivity|].
    destruct (check_st_spec _ _ _ _ H1) as [-> _]. reflexivity. }
  clear H1.
  binv H ok w2 H2.
  2: { destruct (alloc1_spec _ _ _ H) as [_ [[E _]|[E _]]]; discriminate. }
  destruct (alloc1_spec _ _ _ H2) as [_ [[E L2]|[E L2]]]; injection E as ->; cbn [negb] in H.
  2: { unfold exit_with in H. injection H as <- <-. lia. }
  binv H ok1 w3 H3.
  2: { destruct (alloc1_spec _ _ _ H) as [_ [[E _]|[E _]]]; discriminate. }
  destruct (alloc1_spec _ _ _ H3) as [_ [[E L3]|[E L3]]]; injection E as ->; cbn [negb] in H.
  2: { binv H u2 w4 H4.
       - destruct (free_n_spec _ _ _ _ H4) as (_ & _ & L4).
         unfold exit_with in H. injection H as <- <-. lia.
       - destruct (free_n_spec _ _ _ _ H) as (E & _). discriminate. }
  binv H ok2 w4 H4.
  2: { destruct (alloc1_spec _ _ _ H) as [_ [[E _]|[E _]]]; discriminate. }
  destruct (alloc1_spec _ _ _ H4) as [_ [[E L4]|[E L4]]]; injection E as ->; cbn [negb] in H.
  2: { binv H u2 w5 H5.
       2: { destruct (free_n_spec _ _ _ _ H) as (E & _). discriminate. }
       destruct (free_n_spec _ _ _ _ H5) as (_ & _ & L5).
       binv H u3 w6 H6.
       - destruct (free_n_spec _ _ _ _ H6) as (_ & _ & L6).
         unfold exit_with in H. injection H as <- <-. lia.
       - destruct (free_n_spec _ _ _ _ H) as (E & _). discriminate. }
  binv H u5 w5 H5.
  2: { discriminate H. }
  assert (I5 : inv w5 base).
  { unfold put_s in H5. injection H5 as <- _.
    eapply inv_intro; cbn [w_s ss_list ss_template]; [reflexivity|reflexivity| |exact I].
    unfold lv in *. cbn [w_h sumb fold_right tb]. lia. }
  clear H5.
  binv H r6 w6 H6.
  2: { destruct (catch_inv _ _ _ _ H) as (r1 & E & _). discriminate. }
  destruct (catch_inv _ _ _ _ H6) as (r1 & E & Hm). injection E as ->. clear H6.
  pose proof (add_all_balanced _ Hps _ _ _ _ I5 Hm) as I6.
  destruct r1 as [u6|st].
  - unfold ret in H. injection H as <- <-. exact I6.
  - binv H u7 w7 H7.
    + destruct (session_dealloc_releases _ _ _ _ (proj1 I6) H7) as (_ & L7 & _).
      unfold exit_with in H. injection H as <- <-. exact L7.
    + destruct (session_dealloc_releases _ _ _ _ (proj1 I6) H) as (E & _). discriminate.
Qed.

(* srtp_create followed (after any balanced history) by srtp_dealloc: nothing is left *)
Corollary dealloc_after_balanced base w w' r :
  inv w base -> session_dealloc w = (w', r) -> lv w' = base.
Proof. intros [B _] H. exact (proj1 (proj2 (session_dealloc_releases _ _ _ _ B H))). Qed.

(* ------------------------------------------------------------------ *)
(* 7b. srtp_update with a template policy (update_template_streams)   *)
(* ------------------------------------------------------------------ *)

Lemma free_bind {B} a (k : M B) w w' r : (free_n a ;;; k) w = (w', r) ->
  exists w1, w_s w1 = w_s w /\ lv w1 = lv w - a /\ k w1 = (w', r).
Proof.
  intros H. binv H u w1 H1.
  - destruct (free_n_spec _ _ _ _ H1) as (_ & S & L). exists w1. auto.
  - destruct (free_n_spec _ _ _ _ H) as (E & _). discriminate.
Qed.

Lemma nl_insert_spec nl s w w' r : nl_insert nl s w = (w', r) ->
  w_s w' = w_s w /\ lv w' = lv w /\
  ((exists c, r = inl (st_ok, (fst nl ++ [s], c))) \/ r = inl (st_alloc_fail, nl)).
Proof.
  unfold nl_insert. destruct (lenZ (fst nl) =? snd nl).
  - intros H. binv H ok w1 H1.
    2: { destruct (alloc1_spec _ _ _ H) as [_ [[E _]|[E _]]]; discriminate. }
    destruct (alloc1_spec _ _ _ H1) as [S1 [[E L1]|[E L1]]]; injection E as ->; cbn [negb] in H.
    + destruct (free_bind _ _ _ _ _ H) as (w2 & S2 & L2 & H2).
      unfold ret in H2. injection H2 as <- <-.
      split; [congruence|]. split; [lia|]. left. eexists. reflexivity.
    + unfold ret in H. injection H as <- <-. auto.
  - unfold ret. intros H; injection H as <- <-.
    split; [reflexivity|]. split; [reflexivity|]. left. eexists. reflexivity.
Qed.

(* the quantity move_streams keeps: live blocks not accounted for by the old list or the
   list under construction *)
Definition side (w : world) (nl : list stream * Z) : Z :=
  lv w - sumb (ss_list (w_s w)) - sumb (fst nl).

Lemma move_streams_spec newt : stream_wf newt -> forall fuel nl w w' r,
  move_streams fuel newt nl w = (w', r) ->
  exists st nl', r = inl (st, nl') /\
    ss_template (w_s w') = ss_template (w_s w) /\ side w' nl' = side w nl.
Proof.
  intros Wn. induction fuel as [|f IH]; intros nl w w' r H; cbn [move_streams] in H.
  { unfold ret in H. injection H as <- <-. exists st_ok, nl. auto. }
  bgets H.
  destruct (ss_list (w_s w)) as [|s rest] eqn:EL.
  { unfold ret in H. injection H as <- <-. exists st_ok, nl. auto. }
  assert (EG : list_get (s :: rest) (s_ssrc s) = Some s).
  { cbn [list_get]. rewrite Z.eqb_refl. reflexivity. }
  assert (ER : list_remove (s :: rest) (s_ssrc s) = rest).
  { cbn [list_remove]. rewrite Z.eqb_refl. reflexivity. }
  destruct (negb (s_clone s)).
  - (* explicit stream *)
    rewrite ER in H.
    binv H u1 w1 H1; [|discriminate H].
    assert (S1 : ss_template (w_s w1) = ss_template (w_s w) /\ ss_list (w_s w1) = rest /\ lv w1 = lv w).
    { unfold put_s in H1. injection H1 as <- _. cbn. auto. }
    clear H1. destruct S1 as (T1 & Li1 & L1).
    binv H r2 w2 H2.
    2: { destruct (nl_insert_spec _ _ _ _ _ H) as (_ & _ & [[c E]|E]); discriminate. }
    destruct (nl_insert_spec _ _ _ _ _ H2) as (S2 & L2 & [[c E]|E]); injection E as ->; cbn [fst snd] in H.
    + change (st_ok =? st_ok) with true in H. cbv iota in H.
      destruct (IH _ _ _ _ H) as (st & nl' & -> & T3 & Q3).
      exists st, nl'. split; [reflexivity|]. split; [congruence|].
      rewrite Q3. unfold side. cbn [fst]. rewrite S2, Li1, EL, sumb_app.
      unfold sumb at 3. cbn [fold_right]. fold (sumb rest). lia.
    + change (st_alloc_fail =? st_ok) with false in H. cbv iota in H.
      binv H u3 w3 H3.
      2: { destruct (stream_dealloc_spec _ _ _ _ H) as (E & _). discriminate. }
      destruct (stream_dealloc_spec _ _ _ _ H3) as (_ & S3 & L3).
      unfold ret in H. injection H as <- <-.
      exists st_alloc_fail, nl. split; [reflexivity|]. split; [congruence|].
      unfold side. rewrite S3, S2, Li1, EL. unfold sumb at 3. cbn [fold_right]. fold (sumb rest). lia.
  - (* clone of the old template *)
    binv H rm w1 H1.
    2: { destruct (catch_inv _ _ _ _ H) as (r1 & E & _). discriminate. }
    destruct (catch_inv _ _ _ _ H1) as (r1 & E & Hrm). injection E as ->. clear H1.
    pose proof (stream_remove_spec _ _ _ _ Hrm) as R. rewrite EL, EG, ER in R.
    destruct R as (-> & L1 & T1 & Li1).
    binv H c w2 H2.
    2: { destruct (catch_inv _ _ _ _ H) as (r1 & E & _). discriminate. }
    destruct (catch_inv _ _ _ _ H2) as (r2 & E & Hcl). injection E as ->. clear H2.
    destruct (stream_clone_balance _ _ _ _ _ Wn Hcl) as [S2 D2].
    destruct r2 as [ns|st].
    2: { unfold ret in H. injection H as <- <-.
         exists st, nl. split; [reflexivity|]. split; [congruence|].
         unfold side. rewrite S2, Li1, EL. unfold sumb at 3. cbn [fold_right]. fold (sumb rest). lia. }
    destruct D2 as (L2 & _).
    cbv zeta in H.
    binv H r3 w3 H3.
    2: { destruct (nl_insert_spec _ _ _ _ _ H) as (_ & _ & [[c E]|E]); discriminate. }
    destruct (nl_insert_spec _ _ _ _ _ H3) as (S3 & L3 & [[c E]|E]); injection E as ->; cbn [fst snd] in H.
    + change (st_ok =? st_ok) with true in H. cbv iota in H.
      destruct (IH _ _ _ _ H) as (st & nl' & -> & T4 & Q4).
      exists st, nl'. split; [reflexivity|]. split; [congruence|].
      rewrite Q4. unfold side. cbn [fst]. rewrite S3, S2, Li1, EL, sumb_app.
      change (stream_blocks (set_pending _ _)) with (stream_blocks ns).
      unfold sumb at 3. cbn [fold_right]. fold (sumb rest). lia.
    + change (st_alloc_fail =? st_ok) with false in H. cbv iota in H.
      binv H u4 w4 H4.
      2: { destruct (stream_dealloc_spec _ _ _ _ H) as (E & _). discriminate. }
      destruct (stream_dealloc_spec _ _ _ _ H4) as (_ & S4 & L4).
      unfold ret in H. injection H as <- <-.
      exists st_alloc_fail, nl. split; [reflexivity|]. split; [congruence|].
      unfold side. rewrite S4, S3, S2, Li1, EL. unfold sumb at 3. cbn [fold_right]. fold (sumb rest). lia.
Qed.

Theorem update_template_balanced p base w w' r :
  policy_wf p -> inv w base -> update_template p w = (w', r) -> inv w' base.
Proof.
  intros Hwf I H. unfold update_template in H.
  binv H u w1 H1.
  2: { destruct (check_st_spec _ _ _ _ H) as [-> _]. exact I. }
  destruct (check_st_spec _ _ _ _ H1) as [-> _]. clear H1.
  bgets H.
  destruct (ss_template (w_s w)) as [oldt|] eqn:ET.
  2: { unfold exit_with in H. injection H as <- _. exact I. }
  binv H u0 w2 H1.
  2: { destruct (check_st_spec _ _ _ _ H) as [-> _]. exact I. }
  destruct (check_st_spec _ _ _ _ H1) as [-> _]. clear H1.
  binv H mark w1 H1.
  2: { destruct (live_now_spec _ _ _ H) as [_ E]. discriminate. }
  destruct (live_now_spec _ _ _ H1) as [-> E]. injection E as ->. clear H1.
  binv H owned w2 H2.
  2: { destruct (stream_alloc_balance _ _ _ _ H) as [S L]. exact (inv_same _ _ _ S L I). }
  destruct (stream_alloc_balance _ _ _ _ H2) as [S2 [L2 Eo]]. subst owned.
  binv H r3 w3 H3.
  2: { destruct (catch_inv _ _ _ _ H) as (r1 & E & _). discriminate. }
  destruct (catch_inv _ _ _ _ H3) as (r1 & E & Hin). injection E as ->. clear H3.
  destruct r1 as [[newt o']|st].
  2: { destruct (stream_init_dl p _ Hwf _ _ _ Hin) as [S3 _].
       binv H u4 w4 H4.
       - destruct (release_since_spec _ _ _ _ H4) as (_ & S4 & L4).
         unfold exit_with in H. injection H as <- _. apply (inv_same w); [congruence|exact L4|exact I].
       - destruct (release_since_spec _ _ _ _ H) as (E & _). discriminate. }
  destruct (stream_init_balance _ _ _ _ _ Hwf Hin) as (S3 & Eo & L3 & Wn & _ & _).
  assert (L3' : lv w3 = lv w + stream_blocks newt) by lia.
  assert (S3' : w_s w3 = w_s w) by congruence.
  clear L3 S3 L2 S2 H2 Hin Eo.
  destruct (inv_elim _ _ I) as [B W]. rewrite ET in B, W. cbn [tb twf] in B, W.
  (* srtp_stream_list_alloc *)
  binv H ok1 w4 H4.
  2: { destruct (alloc1_spec _ _ _ H) as [_ [[E _]|[E _]]]; discriminate. }
  destruct (alloc1_spec _ _ _ H4) as [S4 [[E L4]|[E L4]]]; injection E as ->; cbn [negb] in H.
  2: { destruct (dealloc_exit_spec _ _ _ _ _ H) as (_ & S5 & L5).
       apply (inv_same w); [congruence|lia|exact I]. }
  binv H ok2 w5 H5.
  2: { destruct (alloc1_spec _ _ _ H) as [_ [[E _]|[E _]]]; discriminate. }
  destruct (alloc1_spec _ _ _ H5) as [S5 [[E L5]|[E L5]]]; injection E as ->; cbn [negb] in H.
  2: { destruct (free_bind _ _ _ _ _ H) as (w6 & S6 & L6 & H6).
       destruct (dealloc_exit_spec _ _ _ _ _ H6) as (_ & S7 & L7).
       apply (inv_same w); [congruence|lia|exact I]. }
  binv H mv w6 H6.
  2: { destruct (move_streams_spec _ Wn _ _ _ _ _ H) as (st & nl' & E & _). discriminate. }
  destruct (move_streams_spec _ Wn _ _ _ _ _ H6) as (st & nl & E & T6 & Q6). injection E as ->.
  clear H6 H4 H5.
  unfold side in Q6. cbn [fst sumb fold_right] in Q6.
  assert (T6' : ss_template (w_s w6) = Some oldt) by congruence.
  assert (Q6' : lv w6 - sumb (ss_list (w_s w6)) - sumb (fst nl)
                = base + 3 + stream_blocks oldt + stream_blocks newt + 2).
  { rewrite Q6. replace (w_s w5) with (w_s w) by congruence. lia. }
  clear Q6 T6.
  cbv iota beta in H.
  destruct (negb (st =? st_ok)).
  - destruct (free_bind _ _ _ _ _ H) as (w7 & S7 & L7 & H7). fold (sumb (fst nl)) in L7.
    destruct (free_bind _ _ _ _ _ H7) as (w8 & S8 & L8 & H8).
    destruct (dealloc_exit_spec _ _ _ _ _ H8) as (_ & S9 & L9).
    assert (SS : w_s w' = w_s w6) by congruence.
    eapply inv_intro; [reflexivity|rewrite SS; exact T6'| |exact W].
    rewrite SS. cbn [tb]. lia.
  - bgets H.
    destruct (free_bind _ _ _ _ _ H) as (w7 & S7 & L7 & H7). fold (sumb (ss_list (w_s w6))) in L7.
    destruct (free_bind _ _ _ _ _ H7) as (w8 & S8 & L8 & H8).
    unfold stream_dealloc in H8.
    destruct (free_bind _ _ _ _ _ H8) as (w9 & S9 & L9 & H9).
    unfold put_s in H9. injection H9 as <- _.
    eapply inv_intro; cbn [w_s ss_list ss_template]; [reflexivity|reflexivity| |exact Wn].
    unfold lv in *. cbn [w_h tb]. lia.
Qed.

Theorem stream_update_balanced p base w w' r :
  policy_wf p -> inv w base -> stream_update p w = (w', r) -> inv w' base.
Proof.
  intros Hwf I H. unfold stream_update in H.
  binv H u w1 H1.
  2: { destruct (check_st_spec _ _ _ _ H) as [-> _]. exact I. }
  destruct (check_st_spec _ _ _ _ H1) as [-> _]. clear H1.
  destruct ((p_ssrc_type p =? ssrc_any_outbound_c) || (p_ssrc_type p =? ssrc_any_inbound_c)).
  - exact (update_template_balanced _ _ _ _ _ Hwf I H).
  - destruct (p_ssrc_type p =? ssrc_specific_c).
    + exact (stream_update_specific_balanced _ _ _ _ _ Hwf I H).
    + unfold exit_with in H. injection H as <- _. exact I.
Qed.

Lemma update_all_balanced ps : Forall policy_wf ps -> forall base w w' r,
  inv w base -> update_all ps w = (w', r) -> inv w' base.
Proof.
  induction 1 as [|p ps Hp _ IH]; intros base w w' r I H; cbn [update_all] in H.
  - unfold ret in H. injection H as <- _. exact I.
  - binv H u w1 H1.
    + apply (IH base w1 w' r); [|exact H]. exact (stream_update_balanced _ _ _ _ _ Hp I H1).
    + exact (stream_update_balanced _ _ _ _ _ Hp I H).
Qed.

Theorem session_update_balanced ps base w w' r :
  Forall policy_wf ps -> inv w base -> session_update ps w = (w', r) -> inv w' base.
Proof.
  intros Hps I H. unfold session_update in H. destruct ps as [|p ps'].
  - unfold exit_with in H. injection H as <- _. exact I.
  - binv H u w1 H1.
    2: { destruct (check_st_spec _ _ _ _ H) as [-> _]. exact I. }
    destruct (check_st_spec _ _ _ _ H1) as [-> _]. clear H1.
    exact (update_all_balanced _ Hps _ _ _ _ I H).
Qed.

(* item 6 phrased with session_blocks: a successful insert moves the stream's blocks into the
   session's account; a failed one releases them *)
Corollary insert_or_dealloc_blocks s w w' r : insert_or_dealloc s w = (w', r) ->
  match r with
  | inl _ => lv w' = lv w /\ session_blocks (w_s w') = session_blocks (w_s w) + stream_blocks s
  | inr _ => lv w' = lv w - stream_blocks s /\ w_s w' = w_s w
  end.
Proof.
  intros H. destruct (insert_or_dealloc_spec _ _ _ _ H) as [(-> & L & T & Li)|(st & -> & S & L)].
  - split; [exact L|]. unfold session_blocks. rewrite Li, T, sumb_app. lia.
  - auto.
Qed.

(* ------------------------------------------------------------------ *)
(* C17, assembled: any sequence of the calls above keeps inv, and      *)
(* session_dealloc from inv returns the heap to its base level.        *)
(* ------------------------------------------------------------------ *)

Inductive call :=
| CAdd (p : policy) | CRemove (ssrc : Z) | CUpdate (ps : list policy)
| CLookup (ssrc : Z) (sender : bool) | CMaterialize (r : sref) (ssrc : Z).

Definition call_wf (c : call) : Prop :=
  match c with
  | CAdd p => policy_wf p
  | CUpdate ps => Forall policy_wf ps
  | _ => True
  end.

(* run one call; its exit status is dropped (the caller sees an error code and goes on) *)
Definition run_call (c : call) (w : world) : world :=
  match c with
  | CAdd p => fst (stream_add p w)
  | CRemove x => fst (stream_remove x w)
  | CUpdate ps => fst (session_update ps w)
  | CLookup x b => fst (lookup_or_clone x b w)
  | CMaterialize r x => fst (materialize r x w)
  end.

Lemma run_call_balanced c base w : call_wf c -> inv w base -> inv (run_call c w) base.
Proof.
  intros Hc I. destruct c as [p|x|ps|x b|rf x]; cbn [run_call call_wf] in *.
  - destruct (stream_add p w) as [w' r] eqn:E. exact (stream_add_balanced _ _ _ _ _ Hc I E).
  - destruct (stream_remove x w) as [w' r] eqn:E. exact (stream_remove_balanced _ _ _ _ _ I E).
  - destruct (session_update ps w) as [w' r] eqn:E. exact (session_update_balanced _ _ _ _ _ Hc I E).
  - destruct (lookup_or_clone x b w) as [w' r] eqn:E. exact (lookup_or_clone_balanced _ _ _ _ _ _ I E).
  - destruct (materialize rf x w) as [w' r] eqn:E. exact (materialize_balanced _ _ _ _ _ _ I E).
Qed.

Theorem no_leak_after_dealloc ps cs w0 :
  Forall policy_wf ps -> Forall call_wf cs ->
  forall w1 r, session_create ps w0 = (w1, r) ->
  match r with
  | inr _ => lv w1 = lv w0                       (* failed create: nothing kept *)
  | inl _ =>
    let w2 := fold_left (fun w c => run_call c w) cs w1 in
    lv (fst (session_dealloc w2)) = lv w0         (* after srtp_dealloc: nothing kept *)
  end.
Proof.
  intros Hps Hcs w1 r H.
  pose proof (session_create_balanced ps (lv w0) w0 w1 r Hps eq_refl H) as C.
  destruct r as [u|st]; [|exact C].
  cbv zeta.
  assert (I2 : inv (fold_left (fun w c => run_call c w) cs w1) (lv w0)).
  { clear H. revert w1 C. induction Hcs as [|c cs Hc _ IH]; intros w1 C; cbn [fold_left]; [exact C|].
    apply IH. exact (run_call_balanced _ _ _ Hc C). }
  destruct (session_dealloc (fold_left (fun w c => run_call c w) cs w1)) as [w3 r3] eqn:E.
  exact (dealloc_after_balanced _ _ _ _ I2 E).
Qed.

Print Assumptions stream_alloc_balance.
Print Assumptions stream_init_balance.
Print Assumptions build_stream_balance.
Print Assumptions stream_clone_balance.
Print Assumptions insert_or_dealloc_spec.
Print Assumptions stream_add_balanced.
Print Assumptions stream_remove_balanced.
Print Assumptions stream_update_specific_balanced.
Print Assumptions lookup_or_clone_balanced.
Print Assumptions materialize_balanced.
Print Assumptions session_create_balanced.
Print Assumptions session_dealloc_releases.
Print Assumptions update_template_balanced.
Print Assumptions session_update_balanced.
Print Assumptions no_leak_after_dealloc.

(* ------------------------------------------------------------------ *)
(* 8. non-vacuity: concrete runs                                      *)
(* ------------------------------------------------------------------ *)

Definition cp_def : cpolicy :=
  {| cp_cipher := 1; cp_keylen := 30; cp_auth := 3; cp_authkeylen := 20; cp_taglen := 10; cp_serv := 3 |}.
Definition pol (ty ssrc : Z) (keys : list (bytes * bytes)) : policy :=
  {| p_ssrc_type := ty; p_ssrc := ssrc; p_rtp := cp_def; p_rtcp := cp_def; p_usekey := true; p_nkeys := 0;
     p_use_mki := false; p_mki_size := 0; p_window := 128; p_allow_repeat := false; p_cryptex := false;
     p_enc_xtn := []; p_keys := keys |}.
Definition key1 : bytes * bytes := (repeat 1%N 30, []).
Definition pol7 : policy := pol 1 7 [key1].
Definition tmpl (k : N) : policy := pol 3 0 [(repeat k 30, [])].
(* empty heap whose hf-th allocation from now fails (0 = none) *)
Definition mkw (hf : Z) : world :=
  {| w_s := {| ss_template := None; ss_list := []; ss_cap := 0 |};
     w_b := {| b_src := []; b_dst := []; b_alias := false; b_len := 0; b_cap := 0; b_oob := false |};
     w_ev := []; w_iv := [];
     w_h := {| h_live := 0; h_att := 0; h_fail := hf; h_frees := 0; h_dirty := 0 |} |}.
(* (exit status or 0, live blocks, session_blocks, allocation attempts) *)
Definition summary {A} (x : world * (A + Z)) : Z * Z * Z * Z :=
  (match snd x with inl _ => 0 | inr st => st end,
   lv (fst x), session_blocks (w_s (fst x)), h_att (w_h (fst x))).

Lemma pol7_wf : policy_wf pol7.
Proof. unfold policy_wf. cbn. lia. Qed.

(* no failure: srtp_create makes 15 allocation attempts, 13 blocks stay live = session_blocks *)
Example create_ok : summary (session_create [pol7] (mkw 0)) = (st_ok, 13, 13, 15).
Proof. vm_compute. reflexivity. Qed.
(* the 5th allocation fails: alloc_fail, and the heap is back to 0 *)
Example create_fail5 : summary (session_create [pol7] (mkw 5)) = (st_alloc_fail, 0, 3, 5).
Proof. vm_compute. reflexivity. Qed.
(* every failure point 1..15 of srtp_create: an error status and live = 0 *)
Example create_all_failure_points :
  forallb (fun k => let '(st, l, _, _) := summary (session_create [pol7] (mkw (Z.of_nat k))) in
                    negb (st =? st_ok) && (l =? 0)) (seq 1 15) = true.
Proof. vm_compute. reflexivity. Qed.

(* a longer history: template + explicit stream, clones made by packet calls, stream_add,
   srtp_update of the template (moves / re-clones every stream) and of an explicit stream,
   stream_remove, then srtp_dealloc; (live afterwards, allocation attempts) *)
Definition scenario (hf : Z) : Z * Z :=
  match session_create [tmpl 2; pol7] (mkw hf) with
  | (w1, inr _) => (lv w1, h_att (w_h w1))
  | (w1, inl _) =>
    let w2 := fold_left (fun w c => run_call c w)
                [CLookup 5 true; CLookup 6 false; CAdd (pol 1 9 [key1]); CMaterialize RTemplate 11;
                 CUpdate [tmpl 3; pol 1 9 [key1]]; CRemove 7; CLookup 12 true] w1 in
    let w3 := fst (session_dealloc w2) in (lv w3, h_att (w_h w3))
  end.
Example scenario_no_failure : scenario 0 = (0, 90).
Proof. vm_compute. reflexivity. Qed.
(* each of the 90 allocations failing in turn (and beyond): live = 0 after srtp_dealloc *)
Example scenario_all_failure_points :
  forallb (fun k => fst (scenario (Z.of_nat k)) =? 0) (seq 0 100) = true.
Proof. vm_compute. reflexivity. Qed.

(* ---- why policy_wf is assumed: the balance is false for policy VALUES that no C caller can
   build.  Both are artefacts of the model's policy record, not findings about /repo. ---- *)
Definition leak_of (p : policy) : Z * Z :=
  let '(w1, r) := session_create [p] (mkw 0) in
  (match r with inl _ => 0 | inr st => st end, lv (fst (session_dealloc w1))).
(* p_usekey = true ("policy->key != NULL") but no key in p_keys: stream_alloc obtains the blocks
   of one master key, stream_init builds none, stream_blocks does not count them: 7 blocks left *)
Example balance_without_key_count_refuted : leak_of (pol 1 7 []) = (st_ok, 7).
Proof. vm_compute. reflexivity. Qed.
(* a negative mki_size (size_t in C) passes valid_policy; the MKI block is obtained but the
   stored id is empty, so stream_blocks does not count it: 1 block left *)
Definition pol_negmki : policy :=
  {| p_ssrc_type := 1; p_ssrc := 7; p_rtp := cp_def; p_rtcp := cp_def; p_usekey := false; p_nkeys := 1;
     p_use_mki := true; p_mki_size := -1; p_window := 128; p_allow_repeat := false; p_cryptex := false;
     p_enc_xtn := []; p_keys := [(repeat 1%N 30, [1%N])] |}.
Example balance_with_negative_mki_size_refuted : leak_of pol_negmki = (st_ok, 1).
Proof. vm_compute. reflexivity. Qed.
