(* RdbxProofs.v — the SRTP replay window (C05): invariant relating the model
   state (index, bit window of any length) to the set of accepted packet
   indices, over any delivery order and any window size. *)
From Coq Require Import NArith ZArith List Bool Lia ZifyBool ZifyN.
From Srtp Require Import Util Constants Rdbx Seen IndexProofs.
Import ListNotations.
Local Open Scope Z_scope.
Ltac Zify.zify_post_hook ::= Z.div_mod_to_equations.

(* indices below this bound have ROC < 2^32-1: no 32-bit ROC wrap in the estimator *)
Definition IDX_MAX : Z := 2 ^ 48 - 2 ^ 16.

Lemma estimate_delta r s :
  0 <= index r < IDX_MAX -> 0 <= s < 2 ^ 16 ->
  let '(e, d) := estimate r s in
  d = e - index r /\ - 2 ^ 15 <= d < 2 ^ 16 /\ e mod 65536 = s /\ 0 <= e < 2 ^ 48.
Proof.
  unfold IDX_MAX. intros Hl Hs. unfold estimate. rewrite median_value.
  change (2 ^ 15) with 32768 in *. change (2 ^ 16) with 65536 in *. change (2 ^ 48) with 281474976710656 in *.
  destruct (32768 <? index r) eqn:E0.
  - apply Z.ltb_lt in E0. unfold index_guess, u16. rewrite median_value, seqmax_value.
    change (2 ^ 15) with 32768 in *. change (2 ^ 16) with 65536 in *.
    set (roc := index r / 65536).
    assert (Hroc : 0 <= roc < 4294967295) by (subst roc; lia).
    assert (Hdec : index r = roc * 65536 + index r mod 65536) by (subst roc; lia).
    assert (Hm : 0 <= index r mod 65536 < 65536) by lia.
    set (ls := index r mod 65536) in *.
    replace (u32 roc) with roc by (unfold u32; lia).
    destruct (ls <? 32768) eqn:E1.
    + destruct (32768 <? s - ls) eqn:E2.
      * apply Z.ltb_lt in E1, E2.
        replace (u32 (roc - 1)) with (roc - 1) by (unfold u32; lia). repeat split; lia.
      * apply Z.ltb_lt in E1. apply Z.ltb_ge in E2. repeat split; lia.
    + destruct (s <? ls - 32768) eqn:E2.
      * apply Z.ltb_ge in E1. apply Z.ltb_lt in E2.
        replace (u32 (roc + 1)) with (roc + 1) by (unfold u32; lia). repeat split; lia.
      * apply Z.ltb_ge in E1, E2. repeat split; lia.
  - apply Z.ltb_ge in E0.
    rewrite s64_small by (change (2 ^ 63) with 9223372036854775808; lia).
    repeat split; lia.
Qed.

(* the receiver's step for an authentic packet with true index i (srtp_unprotect):
   estimate from the 16-bit sequence number; the tag covers the ROC, so a packet
   whose estimate differs from its true index fails authentication (idealised
   MAC, see Properties_C04) and nothing changes; otherwise replay check, then add *)
Definition rdbx_rx (r : rdbx) (i : Z) : rdbx * bool :=
  let '(e, d) := estimate r (i mod 65536) in
  if e =? i then
    if rdbx_check r d =? st_ok then (rdbx_add r d, true) else (r, false)
  else (r, false).

Record Inv (r : rdbx) (seen : seen_t) : Prop := {
  inv_idx : 0 <= index r < IDX_MAX;
  inv_len : 0 < wlen r <= 32768;
  inv_hi : forall b, (Z.to_N (wlen r) <= b)%N -> N.testbit (mask r) b = false;
  inv_bits : forall d, 0 <= d < wlen r ->
      (N.testbit (mask r) (Z.to_N (wlen r - 1 - d)) = true <-> seen (index r - d));
  inv_top : forall i, seen i -> 0 <= i <= index r
}.

Lemma roundup32_bounds ws : 0 < ws <= 32767 -> ws <= roundup32 ws <= 32768 /\ roundup32 ws < ws + 32.
Proof. intros H. unfold roundup32. lia. Qed.

Lemma Inv_init ws r : 0 < ws <= 32767 -> rdbx_init ws = Some r -> Inv r (fun _ => False).
Proof.
  intros H E. unfold rdbx_init in E. destruct (ws =? 0) eqn:E0; [apply Z.eqb_eq in E0; lia|].
  injection E as <-. pose proof (roundup32_bounds ws H).
  constructor; cbn [index wlen mask]; intros; try (unfold IDX_MAX; lia); try tauto.
  - rewrite N.bits_0. split; [discriminate|tauto].
Qed.

Lemma s32_small x : 0 <= x < 2 ^ 31 -> s32 x = x.
Proof.
  intros H. unfold s32, u32. change (2 ^ 31) with 2147483648 in H.
  destruct (x mod 4294967296 <? 2147483648) eqn:E; [apply Z.ltb_lt in E|apply Z.ltb_ge in E]; lia.
Qed.

Lemma check_spec r seen d :
  Inv r seen -> - 2 ^ 15 <= d < 2 ^ 16 ->
  (rdbx_check r d = st_ok <-> (0 < d \/ (- wlen r < d /\ ~ seen (index r + d)))) /\
  (d <= - wlen r -> rdbx_check r d = st_replay_old) /\
  (d <= 0 -> seen (index r + d) -> - wlen r < d -> rdbx_check r d = st_replay_fail).
Proof.
  intros [Hi Hl Hh Hb Ht] Hd. unfold rdbx_check.
  rewrite s32_small by (change (2 ^ 31) with 2147483648; lia).
  change (2 ^ 15) with 32768 in *. change (2 ^ 16) with 65536 in *.
  destruct (0 <? d) eqn:E0.
  - apply Z.ltb_lt in E0.
    split; [split; [intros _; left; exact E0 | reflexivity] | split; intros; lia].
  - apply Z.ltb_ge in E0.
    destruct (wlen r - 1 + d <? 0) eqn:E1.
    + apply Z.ltb_lt in E1. unfold st_ok, st_replay_old.
      split; [split; [discriminate | intros [H|[H _]]; lia] | split; [reflexivity | intros; lia]].
    + apply Z.ltb_ge in E1.
      specialize (Hb (- d) ltac:(lia)).
      replace (wlen r - 1 - - d) with (wlen r - 1 + d) in Hb by lia.
      replace (index r - - d) with (index r + d) in Hb by lia.
      destruct (N.testbit (mask r) (Z.to_N (wlen r - 1 + d))) eqn:Hbit.
      * assert (S : seen (index r + d)) by (apply Hb; reflexivity).
        unfold st_ok, st_replay_fail.
        split; [split; [discriminate | intros [H|[_ H]]; [lia|tauto]] | split; [intros; lia | reflexivity]].
      * assert (S : ~ seen (index r + d)) by (intros S; apply Hb in S; discriminate).
        split; [split; [intros _; right; split; [lia|exact S] | reflexivity] | split; [intros; lia | intros; tauto]].
Qed.

Lemma add_inv r seen d :
  Inv r seen -> - wlen r < d < 2 ^ 16 -> 0 <= index r + d < IDX_MAX ->
  Inv (rdbx_add r d) (add_seen seen (index r + d)).
Proof.
  intros [Hi Hl Hh Hb Ht] Hd Hm. unfold rdbx_add. change (2 ^ 16) with 65536 in *.
  destruct (0 <? d) eqn:E0.
  - apply Z.ltb_lt in E0.
    assert (Hu16 : u16 d = d) by (unfold u16; lia).
    assert (Hu64 : u64 (index r + d) = index r + d) by (unfold u64, IDX_MAX in *; lia).
    rewrite Hu16, Hu64.
    set (sh := if wlen r <=? d then 0%N else N.shiftr (mask r) (Z.to_N d)).
    assert (Hsh : forall b, N.testbit sh b = if wlen r <=? d then false else N.testbit (mask r) (b + Z.to_N d)).
    { intros b. subst sh. destruct (wlen r <=? d); [apply N.bits_0 | apply N.shiftr_spec; lia]. }
    constructor; cbn [index wlen mask].
    + lia.
    + exact Hl.
    + intros b Hbb. rewrite N.setbit_neq by lia. rewrite Hsh.
      destruct (wlen r <=? d); [reflexivity|]. apply Hh. lia.
    + intros k Hk. unfold add_seen.
      destruct (Z.eq_dec k 0) as [->|Hne].
      * replace (wlen r - 1 - 0) with (wlen r - 1) by lia. rewrite N.setbit_eq.
        split; [intros _; right; lia|reflexivity].
      * rewrite N.setbit_neq by lia. rewrite Hsh.
        destruct (wlen r <=? d) eqn:E1.
        -- apply Z.leb_le in E1. split; [discriminate|].
           intros [S| E]; [|lia]. apply Ht in S. lia.
        -- apply Z.leb_gt in E1.
           destruct (Z_lt_le_dec k d) as [L|L].
           ++ rewrite Hh by lia. split; [discriminate|].
              intros [S|E]; [|lia]. apply Ht in S. lia.
           ++ replace (Z.to_N (wlen r - 1 - k) + Z.to_N d)%N with (Z.to_N (wlen r - 1 - (k - d))) by lia.
              rewrite Hb by lia. replace (index r - (k - d)) with (index r + d - k) by lia.
              split; [tauto|]. intros [S|E]; [exact S|lia].
    + intros k [S| ->]; [apply Ht in S; lia|lia].
  - apply Z.ltb_ge in E0.
    destruct (wlen r - 1 + d <? 0) eqn:E1; [apply Z.ltb_lt in E1; lia|]. apply Z.ltb_ge in E1.
    constructor; cbn [index wlen mask].
    + exact Hi.
    + exact Hl.
    + intros b Hbb. rewrite N.setbit_neq by lia. apply Hh; exact Hbb.
    + intros k Hk. unfold add_seen.
      destruct (Z.eq_dec k (- d)) as [->|Hne].
      * replace (wlen r - 1 - - d) with (wlen r - 1 + d) by lia. rewrite N.setbit_eq.
        split; [intros _; right; lia|reflexivity].
      * rewrite N.setbit_neq by lia. rewrite Hb by lia.
        split; [tauto|]. intros [S|E]; [exact S|lia].
    + intros k [S| ->]; [apply Ht in S; lia|lia].
Qed.

Lemma rx_step r seen i :
  Inv r seen -> 0 <= i < IDX_MAX ->
  let '(r', acc) := rdbx_rx r i in
  (acc = true -> ~ seen i /\ Inv r' (add_seen seen i) /\ - 2 ^ 15 <= i - index r < 2 ^ 16) /\
  (acc = false -> r' = r).
Proof.
  intros I Hi. unfold rdbx_rx.
  assert (Hs : 0 <= i mod 65536 < 2 ^ 16) by (change (2 ^ 16) with 65536; lia).
  pose proof (estimate_delta r (i mod 65536) (inv_idx _ _ I) Hs) as ED.
  destruct (estimate r (i mod 65536)) as [e d]. destruct ED as (Ed & Ea & Em & Er).
  destruct (e =? i) eqn:Ee; [|split; [discriminate|reflexivity]].
  apply Z.eqb_eq in Ee. subst e.
  destruct (rdbx_check r d =? st_ok) eqn:EC; [|split; [discriminate|reflexivity]].
  apply Z.eqb_eq in EC. split; [intros _|discriminate].
  pose proof (check_spec r seen d I Ea) as (C1 & _ & _).
  apply C1 in EC.
  assert (Hd : - wlen r < d) by (destruct I; destruct EC as [H|[H _]]; lia).
  replace i with (index r + d) by lia.
  split; [|split].
  - destruct EC as [H|[_ H]]; [|exact H]. intros S. apply (inv_top _ _ I) in S. lia.
  - apply add_inv; [exact I| change (2 ^ 16) with 65536 in *; lia | lia].
  - replace (index r + d - index r) with d by lia. exact Ea.
Qed.

Fixpoint rdbx_run (r : rdbx) (l : list Z) : rdbx * list bool :=
  match l with
  | [] => (r, [])
  | i :: t => let '(r1, a) := rdbx_rx r i in
              let '(r2, as_) := rdbx_run r1 t in (r2, a :: as_)
  end.

Lemma Inv_ext r s s' : Inv r s -> (forall i, s i <-> s' i) -> Inv r s'.
Proof.
  intros [a1 a2 a3 a4 a5] E. constructor; auto.
  - intros j Hj. rewrite a4 by exact Hj. apply E.
  - intros k Hk. apply a5. apply E. exact Hk.
Qed.

Lemma run_inv l : forall r seen,
  Inv r seen -> Forall (fun i => 0 <= i < IDX_MAX) l ->
  let '(r', acc) := rdbx_run r l in
  length acc = length l /\
  Inv r' (fun i => seen i \/ seen_of l acc i) /\
  (forall n i, nth_error l n = Some i -> nth_error acc n = Some true ->
      ~ seen i /\ forall m, (m < n)%nat -> nth_error l m = Some i -> nth_error acc m = Some false).
Proof.
  induction l as [|i t IH]; intros r seen I F; cbn [rdbx_run].
  - split; [reflexivity|]. split.
    + apply (Inv_ext r seen); [exact I|]. intros k. rewrite seen_of_nil. tauto.
    + intros n j H. destruct n; discriminate.
  - inversion F as [|? ? Hi Ft]; subst.
    pose proof (rx_step r seen i I Hi) as ST.
    destruct (rdbx_rx r i) as [r1 a] eqn:E1. destruct ST as [STt STf].
    destruct a.
    + destruct (STt eq_refl) as (NS & I1 & _).
      specialize (IH r1 (add_seen seen i) I1 Ft).
      destruct (rdbx_run r1 t) as [r2 acc] eqn:E2. destruct IH as (L & I2 & O).
      split; [cbn; lia|]. split.
      * apply (Inv_ext _ _ _ I2). intros k. rewrite seen_of_cons_true. unfold add_seen. tauto.
      * intros n j H1 H2. destruct n as [|n]; cbn in H1, H2.
        -- injection H1 as <-. split; [exact NS|]. intros m Hm. lia.
        -- destruct (O n j H1 H2) as [NS2 O2]. split.
           ++ intros S. apply NS2. left. exact S.
           ++ intros m Hm H3. destruct m as [|m]; cbn in H3 |- *.
              ** injection H3 as <-. exfalso. apply NS2. right. reflexivity.
              ** apply O2; [lia|exact H3].
    + rewrite (STf eq_refl) in *. clear STt STf.
      specialize (IH r seen I Ft).
      destruct (rdbx_run r t) as [r2 acc] eqn:E2. destruct IH as (L & I2 & O).
      split; [cbn; lia|]. split.
      * apply (Inv_ext _ _ _ I2). intros k. rewrite seen_of_cons_false. tauto.
      * intros n j H1 H2. destruct n as [|n]; cbn in H1, H2; [discriminate|].
        destruct (O n j H1 H2) as [NS2 O2]. split; [exact NS2|].
        intros m Hm H3. destruct m as [|m]; cbn in H3 |- *; [reflexivity|].
        apply O2; [lia|exact H3].
Qed.

(* verdict for one more packet in any reachable state *)
Lemma rx_verdict r seen i :
  Inv r seen -> 0 <= i < IDX_MAX -> Z.abs (i - index r) < 2 ^ 15 ->
  (seen i -> snd (rdbx_rx r i) = false) /\
  (i <= index r - wlen r -> snd (rdbx_rx r i) = false) /\
  (~ seen i -> index r - wlen r < i -> snd (rdbx_rx r i) = true).
Proof.
  intros I Hi Hd. unfold rdbx_rx.
  rewrite (estimate_exact r i) by (destruct I as [[? ?] _ _ _ _]; unfold IDX_MAX in *; lia).
  rewrite Z.eqb_refl.
  pose proof (check_spec r seen (i - index r) I ltac:(change (2 ^ 15) with 32768 in *; change (2 ^ 16) with 65536; lia)) as (C1 & C2 & C3).
  replace (index r + (i - index r)) with i in * by lia.
  repeat split.
  - intros S. destruct (rdbx_check r (i - index r) =? st_ok) eqn:E; [|reflexivity].
    apply Z.eqb_eq in E. apply C1 in E. destruct E as [E|[_ E]]; [|tauto].
    apply (inv_top _ _ I) in S. lia.
  - intros O. rewrite C2 by lia. reflexivity.
  - intros NS W. replace (rdbx_check r (i - index r)) with st_ok; [reflexivity|].
    symmetry. apply C1. destruct (Z_lt_le_dec 0 (i - index r)); [left; assumption|right; split; [lia|exact NS]].
Qed.

(* ---- corollaries in the form the property is stated ---- *)

Lemma rdbx_at_most_once ws r0 l :
  0 < ws <= 32767 -> rdbx_init ws = Some r0 ->
  Forall (fun i => 0 <= i < IDX_MAX) l ->
  let acc := snd (rdbx_run r0 l) in
  forall n m i, (m < n)%nat -> nth_error l n = Some i -> nth_error l m = Some i ->
    ~ (nth_error acc n = Some true /\ nth_error acc m = Some true).
Proof.
  intros Hws E F. pose proof (run_inv l r0 _ (Inv_init ws r0 Hws E) F) as R.
  destruct (rdbx_run r0 l) as [r acc]. destruct R as (_ & _ & O). cbn [snd].
  intros n m i Hmn Hn Hm [An Am].
  destruct (O n i Hn An) as [_ O2]. rewrite (O2 m Hmn Hm) in Am. discriminate.
Qed.

Lemma rdbx_reachable_inv ws r0 l :
  0 < ws <= 32767 -> rdbx_init ws = Some r0 ->
  Forall (fun i => 0 <= i < IDX_MAX) l ->
  let '(r, acc) := rdbx_run r0 l in
  Inv r (seen_of l acc) /\ wlen r = roundup32 ws /\ ws <= wlen r.
Proof.
  intros Hws E F. pose proof (run_inv l r0 _ (Inv_init ws r0 Hws E) F) as R.
  assert (HL : forall l r, wlen (fst (rdbx_run r l)) = wlen r).
  { clear. induction l as [|i t IH]; intros r; cbn [rdbx_run]; [reflexivity|].
    destruct (rdbx_rx r i) as [r1 a] eqn:E1. specialize (IH r1).
    destruct (rdbx_run r1 t) as [r2 acc]. cbn [fst] in *. rewrite IH.
    unfold rdbx_rx in E1. destruct (estimate r (i mod 65536)) as [e d].
    destruct (e =? i); [|injection E1 as <- _; reflexivity].
    destruct (rdbx_check r d =? st_ok); injection E1 as <- _; [|reflexivity].
    unfold rdbx_add. destruct (0 <? d); [reflexivity|]. destruct (wlen r - 1 + d <? 0); reflexivity. }
  specialize (HL l r0).
  destruct (rdbx_run r0 l) as [r acc]. destruct R as (_ & I & _). cbn [fst] in HL.
  split; [apply (Inv_ext _ _ _ I); intros k; tauto|].
  unfold rdbx_init in E. destruct (ws =? 0); [discriminate|]. injection E as <-. cbn [wlen] in HL.
  rewrite HL. split; [reflexivity|]. apply roundup32_bounds. exact Hws.
Qed.
