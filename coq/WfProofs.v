(* WfProofs.v — C10/C11, part 0: well-formed streams and sessions, list facts about
   take/drop/slice/splice, a Hoare logic for the state/exit monad of World.v, and the
   Hoare triples of the buffer primitives and of the session operations shared by the
   four packet functions (BoundsRtcp.v, BoundsRtp.v, LengthProofs.v build on this). *)
From Coq Require Import NArith ZArith List Bool Lia.
From Srtp Require Import Util Constants KeyLimit Rdb Rdbx Icm World Stream Rtp MonadLemmas EnvelopeProofs.
From Srtp.Crypto Require Import AES HMAC.
Import ListNotations.
Local Open Scope Z_scope.

Global Opaque aes_encrypt_rk hmac_sha1.

(* ===================================================================== *)
(* 1. lists                                                               *)
(* ===================================================================== *)
Lemma take_firstn {A} n (l : list A) : take n l = firstn n l.
Proof. revert l. induction n as [|n IH]; intros [|x l]; cbn; try reflexivity. rewrite IH. reflexivity. Qed.
Lemma drop_skipn {A} n (l : list A) : drop n l = skipn n l.
Proof. revert l. induction n as [|n IH]; intros [|x l]; cbn; try reflexivity. apply IH. Qed.

Lemma take_length {A} n (l : list A) : length (take n l) = Nat.min n (length l).
Proof. rewrite take_firstn. apply firstn_length. Qed.
Lemma drop_length {A} n (l : list A) : length (drop n l) = (length l - n)%nat.
Proof. rewrite drop_skipn. apply skipn_length. Qed.
Lemma slice_length {A} o n (l : list A) : length (slice o n l) = Nat.min n (length l - o).
Proof. unfold slice. rewrite take_length, drop_length. reflexivity. Qed.
Lemma splice_length {A} o (v l : list A) : length (splice o v l) = length l.
Proof.
  revert o v. induction l as [|x l IH]; intros o v.
  - destruct o; reflexivity.
  - destruct o as [|o].
    + destruct v as [|y v]; [reflexivity|]. cbn. rewrite IH. reflexivity.
    + cbn. rewrite IH. reflexivity.
Qed.

Lemma drop_drop {A} a b (l : list A) : drop a (drop b l) = drop (b + a) l.
Proof.
  revert l. induction b as [|b IH]; intros l; [reflexivity|].
  destruct l as [|x l]; cbn; [destruct a; reflexivity|]. apply IH.
Qed.

(* slice as "drop, then take" and as "take, then drop" *)
Lemma slice_alt {A} a n (l : list A) : slice a n l = drop a (take (a + n) l).
Proof. unfold slice. rewrite !take_firstn, !drop_skipn. apply firstn_skipn_comm. Qed.

Lemma take_take {A} i j (l : list A) : take i (take j l) = take (Nat.min i j) l.
Proof. rewrite !take_firstn. apply firstn_firstn. Qed.

Lemma slice_take {A} a n m (l : list A) : (a + n <= m)%nat -> slice a n (take m l) = slice a n l.
Proof.
  intros H. rewrite !slice_alt, take_take. replace (Nat.min (a + n) m) with (a + n)%nat by lia. reflexivity.
Qed.

Lemma slice_slice {A} a n b m (l : list A) : (a + n <= m)%nat -> slice a n (slice b m l) = slice (b + a) n l.
Proof.
  intros H. unfold slice at 2. rewrite slice_take by exact H. unfold slice. rewrite drop_drop. reflexivity.
Qed.

Lemma take_splice_below {A} m o (v l : list A) : (m <= o)%nat -> take m (splice o v l) = take m l.
Proof.
  revert m o. induction l as [|x l IH]; intros m o H.
  - destruct o; reflexivity.
  - destruct o as [|o].
    + replace m with O by lia. reflexivity.
    + destruct m as [|m]; [reflexivity|]. cbn. rewrite IH by lia. reflexivity.
Qed.

Lemma slice_splice_below {A} a n o (v l : list A) : (a + n <= o)%nat -> slice a n (splice o v l) = slice a n l.
Proof. intros H. rewrite !slice_alt, take_splice_below by exact H. reflexivity. Qed.

Lemma take_splice_0 {A} (v l : list A) : (length v <= length l)%nat -> take (length v) (splice 0 v l) = v.
Proof.
  revert l. induction v as [|y v IH]; intros l H; [reflexivity|].
  destruct l as [|x l]; [cbn in H; lia|]. cbn. rewrite IH; [reflexivity|]. cbn in H. lia.
Qed.

Lemma slice_splice_0 {A} a n (v l : list A) :
  (length v <= length l)%nat -> (a + n <= length v)%nat -> slice a n (splice 0 v l) = slice a n v.
Proof.
  intros H1 H2. rewrite <- (slice_take a n (length v) (splice 0 v l)) by exact H2.
  rewrite take_splice_0 by exact H1. reflexivity.
Qed.

(* ---- the same in Z ---- *)
Lemma lenZ_nonneg {A} (l : list A) : 0 <= lenZ l.
Proof. unfold lenZ. lia. Qed.
Lemma lenZ_slice_le {A} off n (l : list A) : 0 <= n -> lenZ (slice (zn off) (zn n) l) <= n.
Proof. intros H. unfold lenZ, zn. rewrite slice_length. lia. Qed.
Lemma lenZ_slice_eq {A} off n (l : list A) :
  0 <= off -> 0 <= n -> off + n <= lenZ l -> lenZ (slice (zn off) (zn n) l) = n.
Proof. unfold lenZ, zn. intros H1 H2 H3. rewrite slice_length. lia. Qed.
Lemma lenZ_splice {A} o (v l : list A) : lenZ (splice o v l) = lenZ l.
Proof. unfold lenZ. rewrite splice_length. reflexivity. Qed.
Lemma lenZ_zeros n : 0 <= n -> lenZ (zeros (zn n)) = n.
Proof. intros H. unfold lenZ, zeros, zn. rewrite repeat_length. lia. Qed.
Lemma lenZ_be_bytes n x : lenZ (be_bytes n x) = Z.of_nat n.
Proof. unfold lenZ. rewrite be_bytes_length. reflexivity. Qed.

Lemma be16_nonneg l o : 0 <= be16 l o.
Proof. unfold be16. lia. Qed.
Lemma be16_slice4 l hl : be16 (slice hl 4 l) 2 = be16 l (hl + 2).
Proof. unfold be16. rewrite slice_slice by lia. reflexivity. Qed.
Lemma be16_slice4_0 l hl : be16 (slice hl 4 l) 0 = be16 l hl.
Proof. unfold be16. rewrite slice_slice by lia. rewrite Nat.add_0_r. reflexivity. Qed.
Lemma be16_take l m o : (o + 2 <= m)%nat -> be16 (take m l) o = be16 l o.
Proof. intros H. unfold be16. rewrite slice_take by exact H. reflexivity. Qed.

(* ===================================================================== *)
(* 2. well-formed keys, streams, sessions                                 *)
(* ===================================================================== *)
(* an auth object as srtp_stream_init_keys builds it from a policy accepted by
   srtp_valid_policy: tag length within tmp_tag[SRTP_MAX_TAG_LEN]; keystream prefix 0 for
   HMAC-SHA1 and tag_len for the null auth *)
Definition akey_wf (a : akey) : Prop :=
  0 <= ak_tag a <= SRTP_MAX_TAG_LEN_c /\
  (if ak_kind a =? SRTP_HMAC_SHA1_c then ak_prefix a = 0 else ak_prefix a = ak_tag a).

(* msz = the stream's mki_size (0 when no MKI is in use): the key's MKI id has exactly that length *)
Definition key_wf (msz : Z) (k : skeys) : Prop :=
  lenZ (k_mki k) = msz /\ akey_wf (k_rtp_a k) /\ akey_wf (k_rtcp_a k).

Definition stream_wf (st : stream) : Prop :=
  0 <= s_mki_size st <= SRTP_MAX_MKI_LEN_c /\
  (s_use_mki st = false -> s_mki_size st = 0) /\
  Forall (key_wf (s_mki_size st)) (s_keys st).

(* a predicate holds of the template and of every stream in the list *)
Definition session_all (SP : stream -> Prop) (s : session) : Prop :=
  (forall t, ss_template s = Some t -> SP t) /\ Forall SP (ss_list s).

Definition session_wf (s : session) : Prop := session_all stream_wf s.

(* ---- srtp_auth_compute writes exactly tag_len octets (HMAC) or nothing (null auth) ---- *)
Lemma auth_compute_length_hmac a m :
  ak_kind a = SRTP_HMAC_SHA1_c -> 0 <= ak_tag a <= 20 -> lenZ (auth_compute a m) = ak_tag a.
Proof.
  intros K T. unfold auth_compute. rewrite K, Z.eqb_refl.
  unfold lenZ, zn. rewrite take_length, hmac_sha1_length. lia.
Qed.
Lemma auth_compute_length_null a m :
  ak_kind a <> SRTP_HMAC_SHA1_c -> lenZ (auth_compute a m) = 0.
Proof.
  intros K. unfold auth_compute. destruct (ak_kind a =? SRTP_HMAC_SHA1_c) eqn:E; [apply Z.eqb_eq in E; contradiction|reflexivity].
Qed.
Lemma auth_compute_length a m :
  0 <= ak_tag a <= 20 ->
  lenZ (auth_compute a m) = if ak_kind a =? SRTP_HMAC_SHA1_c then ak_tag a else 0.
Proof.
  intros T. destruct (ak_kind a =? SRTP_HMAC_SHA1_c) eqn:E.
  - apply Z.eqb_eq in E. apply auth_compute_length_hmac; assumption.
  - apply Z.eqb_neq in E. apply auth_compute_length_null; assumption.
Qed.
Lemma auth_compute_le a m : akey_wf a -> lenZ (auth_compute a m) <= ak_tag a.
Proof.
  intros [T _]. rewrite max_tag_value in T. rewrite auth_compute_length by lia.
  destruct (ak_kind a =? SRTP_HMAC_SHA1_c); lia.
Qed.
Lemma akey_prefix_le a : akey_wf a -> 0 <= ak_prefix a <= ak_tag a.
Proof. intros [T P]. destruct (ak_kind a =? SRTP_HMAC_SHA1_c); lia. Qed.

(* ---- cipher output lengths ---- *)
Lemma cipher_encrypt_le cs d : lenZ (snd (cipher_encrypt cs d)) <= lenZ d.
Proof.
  unfold cipher_encrypt. destruct cs as [|rks c]; [cbn [snd]; lia|].
  pose proof (icm_encrypt_length (aes_encrypt_rk rks) c d) as H.
  destruct (icm_encrypt (aes_encrypt_rk rks) c d) as [[s c'] o]. cbn [snd] in *. unfold lenZ. lia.
Qed.
Lemma cipher_output_le cs n : 0 <= n -> lenZ (snd (cipher_output cs n)) <= n.
Proof. intros H. pose proof (cipher_output_length cs n). lia. Qed.

(* ---- configuration of a stream that cloning and all per-packet updates keep ---- *)
Definition cfg_eq (a b : stream) : Prop :=
  s_keys b = s_keys a /\ s_mki_size b = s_mki_size a /\ s_use_mki b = s_use_mki a /\ s_cryptex b = s_cryptex a.
Lemma cfg_eq_refl a : cfg_eq a a.
Proof. repeat split. Qed.
Lemma cfg_eq_trans a b c : cfg_eq a b -> cfg_eq b c -> cfg_eq a c.
Proof. unfold cfg_eq. intros (a1 & a2 & a3 & a4) (b1 & b2 & b3 & b4). repeat split; congruence. Qed.
Lemma cfg_eq_upd st rx rb p d l : cfg_eq st (upd_stream st rx rb p d l).
Proof. repeat split. Qed.
Lemma cfg_eq_commit st est : cfg_eq st (commit_advance st est).
Proof. unfold commit_advance. destruct (set_roc_seq _ _ _) as [x rx]. repeat split. Qed.

Definition cfg_closed (SP : stream -> Prop) : Prop := forall a b, cfg_eq a b -> SP a -> SP b.

Lemma stream_wf_cfg : cfg_closed stream_wf.
Proof.
  intros a b (K & M & U & X) (W1 & W2 & W3). unfold stream_wf. rewrite K, M, U. auto.
Qed.

Lemma stream_wf_key st k : stream_wf st -> In k (s_keys st) -> key_wf (s_mki_size st) k.
Proof. intros (_ & _ & F) I. rewrite Forall_forall in F. exact (F k I). Qed.

(* ===================================================================== *)
(* 3. Hoare logic for M: precondition, normal postcondition, exit postcondition *)
(* ===================================================================== *)
Definition hoare {A} (P : world -> Prop) (m : M A) (Q : A -> world -> Prop) (E : world -> Prop) : Prop :=
  forall w, P w -> match m w with (w', inl a) => Q a w' | (w', inr _) => E w' end.

Lemma h_ret {A} (a : A) (P : world -> Prop) (Q : A -> world -> Prop) E :
  (forall w, P w -> Q a w) -> hoare P (ret a) Q E.
Proof. intros H w HP. cbn. auto. Qed.
Lemma h_exit {A} st (P : world -> Prop) (Q : A -> world -> Prop) (E : world -> Prop) :
  (forall w, P w -> E w) -> hoare P (exit_with st) Q E.
Proof. intros H w HP. cbn. auto. Qed.
Lemma h_bind {A B} (m : M A) (f : A -> M B) P R Q E :
  hoare P m R E -> (forall a, hoare (R a) (f a) Q E) -> hoare P (bind m f) Q E.
Proof.
  intros Hm Hf w HP. unfold bind. specialize (Hm w HP). destruct (m w) as [w1 [a|st]].
  - exact (Hf a w1 Hm).
  - exact Hm.
Qed.
Lemma h_pre {A} (P P' : world -> Prop) (m : M A) Q E :
  (forall w, P w -> P' w) -> hoare P' m Q E -> hoare P m Q E.
Proof. intros I H w HP. exact (H w (I w HP)). Qed.
Lemma h_post {A} (P : world -> Prop) (m : M A) (Q Q' : A -> world -> Prop) E :
  hoare P m Q' E -> (forall a w, Q' a w -> Q a w) -> hoare P m Q E.
Proof. intros H I w HP. specialize (H w HP). destruct (m w) as [w1 [a|st]]; auto. Qed.
Lemma h_pure {A} (F : Prop) (P : world -> Prop) (m : M A) Q E :
  (F -> hoare P m Q E) -> hoare (fun w => F /\ P w) m Q E.
Proof. intros H w [HF HP]. exact (H HF w HP). Qed.
Lemma h_bind_ret {A B} (a : A) (f : A -> M B) P Q E : hoare P (f a) Q E -> hoare P (bind (ret a) f) Q E.
Proof. intros H. exact H. Qed.
Lemma h_bind_exit {A B} st (f : A -> M B) (P : world -> Prop) Q (E : world -> Prop) :
  (forall w, P w -> E w) -> hoare P (bind (exit_with st) f) Q E.
Proof. intros H w HP. cbn. auto. Qed.
Lemma h_if {A} (c : bool) (m1 m2 : M A) P Q E :
  hoare P m1 Q E -> hoare P m2 Q E -> hoare P (if c then m1 else m2) Q E.
Proof. destruct c; auto. Qed.

(* value-only triples: what a computation can return *)
Definition returns {A} (m : M A) (F : A -> Prop) : Prop := forall w w' a, m w = (w', inl a) -> F a.
Lemma r_ret {A} (a : A) (F : A -> Prop) : F a -> returns (ret a) F.
Proof. intros H w w' x E. injection E as _ <-. exact H. Qed.
Lemma r_exit {A} st (F : A -> Prop) : returns (exit_with st) F.
Proof. intros w w' x E. discriminate. Qed.
Lemma r_bind {A B} (m : M A) (f : A -> M B) F : (forall a, returns (f a) F) -> returns (bind m f) F.
Proof.
  intros Hf w w' x E. apply bind_inv in E. destruct E as [(a & w1 & _ & E)|(s & _ & E)]; [|discriminate].
  exact (Hf a w1 w' x E).
Qed.
Lemma r_if {A} (c : bool) (m1 m2 : M A) F : returns m1 F -> returns m2 F -> returns (if c then m1 else m2) F.
Proof. destruct c; auto. Qed.

(* computations that touch neither the session nor the packet buffers *)
Definition sb_pres {A} (m : M A) : Prop := forall w, w_s (fst (m w)) = w_s w /\ w_b (fst (m w)) = w_b w.
Lemma sb_ret {A} (a : A) : sb_pres (ret a). Proof. intros w; cbn; auto. Qed.
Lemma sb_exit {A} st : sb_pres (@exit_with A st). Proof. intros w; cbn; auto. Qed.
Lemma sb_bind {A B} (m : M A) (f : A -> M B) : sb_pres m -> (forall a, sb_pres (f a)) -> sb_pres (bind m f).
Proof.
  intros Hm Hf w. unfold bind. specialize (Hm w). destruct (m w) as [w1 [a|st]]; cbn [fst] in *.
  - destruct (Hf a w1) as [E1 E2]. destruct Hm as [E3 E4]. split; congruence.
  - exact Hm.
Qed.
Lemma sb_if {A} (c : bool) (m1 m2 : M A) : sb_pres m1 -> sb_pres m2 -> sb_pres (if c then m1 else m2).
Proof. destruct c; auto. Qed.
Lemma sb_get_s : sb_pres get_s. Proof. intros w; cbn; auto. Qed.
Lemma sb_get_b : sb_pres get_b. Proof. intros w; cbn; auto. Qed.
Lemma sb_get_h : sb_pres get_h. Proof. intros w; cbn; auto. Qed.
Lemma sb_put_h h : sb_pres (put_h h). Proof. intros w; cbn; auto. Qed.
Lemma sb_emit e s : sb_pres (emit e s). Proof. intros w; cbn; auto. Qed.
Lemma sb_log_iv e : sb_pres (log_iv e). Proof. intros w; cbn; auto. Qed.
Lemma sb_alloc1 : sb_pres alloc1.
Proof.
  unfold alloc1. apply sb_bind; [apply sb_get_h|intros h].
  apply sb_if; (apply sb_bind; [apply sb_put_h|intros; apply sb_ret]).
Qed.
Lemma sb_free_n n : sb_pres (free_n n).
Proof. unfold free_n. apply sb_bind; [apply sb_get_h|intros h; apply sb_put_h]. Qed.
Lemma sb_log_encrypt_iv k iv : sb_pres (log_encrypt_iv k iv).
Proof. unfold log_encrypt_iv. apply sb_if; [apply sb_log_iv|apply sb_ret]. Qed.

Ltac sb_step :=
  first [ apply sb_ret | apply sb_exit | apply sb_get_s | apply sb_get_b | apply sb_get_h | apply sb_put_h
        | apply sb_emit | apply sb_log_iv | apply sb_alloc1 | apply sb_free_n | apply sb_log_encrypt_iv
        | (apply sb_bind; [ | intros ? ]) | apply sb_if ].
Ltac sb_auto :=
  repeat (sb_step || match goal with |- sb_pres (match ?x with _ => _ end) => destruct x end).

Lemma sb_clone_mkis n : forall o, sb_pres (clone_mkis n o).
Proof. induction n as [|n IH]; intros o; cbn [clone_mkis]; [apply sb_ret|]. sb_auto. apply IH. Qed.
Lemma sb_stream_clone t ssrc : sb_pres (stream_clone t ssrc).
Proof. unfold stream_clone. sb_auto; try apply sb_clone_mkis. Qed.
Lemma sb_stream_dealloc s : sb_pres (stream_dealloc s).
Proof. unfold stream_dealloc. apply sb_free_n. Qed.
Lemma sb_keys_by_index st i : sb_pres (keys_by_index st i).
Proof. unfold keys_by_index. sb_auto. Qed.

(* what srtp_stream_clone returns *)
Lemma r_stream_clone t ssrc : returns (stream_clone t ssrc) (fun ns => cfg_eq t ns /\ s_ssrc ns = ssrc).
Proof.
  unfold stream_clone.
  apply r_bind; intros ok. apply r_if; [apply r_exit|].
  apply r_bind; intros ok2. apply r_if; [apply r_bind; intros; apply r_exit|].
  apply r_bind; intros o. apply r_bind; intros ok3. apply r_if; [apply r_bind; intros; apply r_exit|].
  destruct (rdbx_init (wlen (s_rdbx t))); [|apply r_bind; intros; apply r_exit].
  apply r_ret. repeat split.
Qed.

Lemma r_keys_by_index st i :
  returns (keys_by_index st i)
          (fun ik => nth_error (s_keys st) (zn (if s_use_mki st then i else 0)) = Some (snd ik)).
Proof.
  unfold keys_by_index. apply r_if; [apply r_exit|].
  destruct (nth_error (s_keys st) (zn (if s_use_mki st then i else 0))) eqn:E; [|apply r_exit].
  apply r_ret. reflexivity.
Qed.

Lemma find_mki_In ks m : forall i r, find_mki ks m i = Some r -> In (snd r) ks.
Proof.
  induction ks as [|k t IH]; intros i r H; cbn in H; [discriminate|].
  destruct (beqb (k_mki k) m).
  - injection H as <-. left. reflexivity.
  - right. exact (IH _ _ H).
Qed.

(* ===================================================================== *)
(* 4. the invariant of one packet call                                    *)
(* ===================================================================== *)
Section INV.
Variable SP : stream -> Prop.          (* what is known of every stream of the session *)
Hypothesis SPc : cfg_closed SP.
Hypothesis SPwf : forall st, SP st -> stream_wf st.
Variables (L C : Z) (al : bool) (src d0 : bytes).   (* len, *out_len, in == out, the two blocks *)
Let dlen : Z := lenZ d0.

(* K: what is known of the current content of the destination block *)
Definition binv (K : bytes -> Prop) (b : bufs) : Prop :=
  b_len b = L /\ b_cap b = C /\ b_alias b = al /\ b_src b = src /\
  lenZ (b_dst b) = dlen /\ b_oob b = false /\ K (b_dst b).
Definition Inv (K : bytes -> Prop) (w : world) : Prop := session_all SP (w_s w) /\ binv K (w_b w).
Definition NoOob (w : world) : Prop := b_oob (w_b w) = false.
Definition Kany : bytes -> Prop := fun _ => True.
Definition b_init : bufs :=
  {| b_src := src; b_dst := d0; b_alias := al; b_len := L; b_cap := C; b_oob := false |}.

Lemma inv_noob K w : Inv K w -> NoOob w.
Proof. intros [_ (_ & _ & _ & _ & _ & H & _)]. exact H. Qed.
Lemma inv_weaken (K K' : bytes -> Prop) w :
  (forall dd, lenZ dd = dlen -> K dd -> K' dd) -> Inv K w -> Inv K' w.
Proof. intros I [HS (h1 & h2 & h3 & h4 & h5 & h6 & h7)]. split; [exact HS|]. repeat split; auto. Qed.
Lemma inv_any K w : Inv K w -> Inv Kany w.
Proof. apply inv_weaken. intros; exact I. Qed.

Lemma h_weaken {A} (K K' : bytes -> Prop) (m : M A) Q E :
  (forall dd, lenZ dd = dlen -> K dd -> K' dd) -> hoare (Inv K') m Q E -> hoare (Inv K) m Q E.
Proof. intros I. apply h_pre. intros w. apply inv_weaken. exact I. Qed.

(* frame: heap / event / IV-log operations *)
Lemma h_sb {A} K (m : M A) (F : A -> Prop) :
  sb_pres m -> returns m F -> hoare (Inv K) m (fun a w => F a /\ Inv K w) NoOob.
Proof.
  intros Hsb Hr w HI. pose proof (Hsb w) as [E1 E2]. pose proof (Hr w) as R.
  destruct (m w) as [w1 [a|st]]; cbn [fst] in *.
  - split; [exact (R w1 a eq_refl)|]. unfold Inv. rewrite E1, E2. exact HI.
  - unfold NoOob. rewrite E2. exact (inv_noob _ _ HI).
Qed.
Lemma r_any {A} (m : M A) : returns m (fun _ => True).
Proof. intros w w' a _. exact I. Qed.
Lemma h_sb0 {A} K (m : M A) : sb_pres m -> hoare (Inv K) m (fun _ => Inv K) NoOob.
Proof.
  intros Hsb. eapply h_post; [apply (h_sb K m _ Hsb (r_any m))|]. intros a w [_ H]. exact H.
Qed.

(* ---- buffers ---- *)
Lemma h_get_b0 : hoare (Inv (eq d0)) get_b (fun b w => b = b_init /\ Inv (eq d0) w) NoOob.
Proof.
  intros w HI. cbn. split; [|exact HI]. destruct HI as [_ (h1 & h2 & h3 & h4 & h5 & h6 & h7)].
  destruct (w_b w); cbn in *. unfold b_init. subst. reflexivity.
Qed.
Lemma h_get_b K :
  hoare (Inv K) get_b (fun b w => (b_len b = L /\ b_cap b = C /\ b_alias b = al) /\ Inv K w) NoOob.
Proof.
  intros w HI. cbn. split; [|exact HI]. destruct HI as [_ (h1 & h2 & h3 & _)]. auto.
Qed.

Lemma h_rd_src K off n :
  0 <= off -> 0 <= n -> off + n <= L ->
  hoare (Inv K) (rd_src off n)
        (fun d w => (exists dd, K dd /\ lenZ dd = dlen /\ d = slice (zn off) (zn n) (if al then dd else src)) /\ Inv K w)
        NoOob.
Proof.
  intros H1 H2 H3 w HI. unfold rd_src, bind, get_b.
  destruct HI as [HS (h1 & h2 & h3 & h4 & h5 & h6 & h7)].
  assert (Hc : (off <? 0) || (n <? 0) || (b_len (w_b w) <? off + n) = false).
  { rewrite h1. rewrite !orb_false_iff, !Z.ltb_ge. lia. }
  rewrite Hc. cbn [ret]. split.
  - exists (b_dst (w_b w)). split; [exact h7|]. split; [exact h5|]. unfold cur_src. rewrite h3, h4. reflexivity.
  - split; [exact HS|]. repeat split; assumption.
Qed.

Lemma h_rd_dst K off n :
  0 <= off -> 0 <= n -> off + n <= dlen ->
  hoare (Inv K) (rd_dst off n)
        (fun d w => (exists dd, K dd /\ lenZ dd = dlen /\ d = slice (zn off) (zn n) dd) /\ Inv K w)
        NoOob.
Proof.
  intros H1 H2 H3 w HI. unfold rd_dst, bind, get_b.
  destruct HI as [HS (h1 & h2 & h3 & h4 & h5 & h6 & h7)].
  assert (Hc : (off <? 0) || (n <? 0) || (lenZ (b_dst (w_b w)) <? off + n) = false).
  { rewrite h5. rewrite !orb_false_iff, !Z.ltb_ge. lia. }
  rewrite Hc. cbn [ret]. split.
  - exists (b_dst (w_b w)). auto.
  - split; [exact HS|]. repeat split; assumption.
Qed.

Lemma h_wr_dst (K K' : bytes -> Prop) off v :
  0 <= off -> off + lenZ v <= C ->
  (forall dd, lenZ dd = dlen -> K dd -> K' (splice (zn off) v dd)) ->
  hoare (Inv K) (wr_dst off v) (fun _ => Inv K') NoOob.
Proof.
  intros H1 H2 HK w HI. unfold wr_dst, bind, get_b, put_b. cbn.
  destruct HI as [HS (h1 & h2 & h3 & h4 & h5 & h6 & h7)].
  split; [exact HS|]. unfold binv. cbn.
  rewrite lenZ_splice. repeat split; try assumption.
  - rewrite h6, h2. cbn [orb]. rewrite orb_false_iff, !Z.ltb_ge. lia.
  - apply HK; assumption.
Qed.
Lemma h_wr_dst_any K off v :
  0 <= off -> off + lenZ v <= C -> hoare (Inv K) (wr_dst off v) (fun _ => Inv Kany) NoOob.
Proof. intros H1 H2. apply h_wr_dst; auto. intros; exact I. Qed.

(* ---- session ---- *)
Lemma list_get_SP l x st : Forall SP l -> list_get l x = Some st -> SP st.
Proof.
  induction l as [|s t IH]; intros F H; cbn in H; [discriminate|].
  inversion F as [|? ? F1 F2]; subst. destruct (s_ssrc s =? x); [injection H as <-; exact F1|exact (IH F2 H)].
Qed.
Lemma list_replace_SP l x n : Forall SP l -> SP n -> Forall SP (list_replace l x n).
Proof.
  induction l as [|s t IH]; intros F Hn; cbn; [constructor|].
  inversion F as [|? ? F1 F2]; subst. destruct (s_ssrc s =? x); constructor; auto.
Qed.

Lemma h_get_stream K r : hoare (Inv K) (get_stream r) (fun st w => SP st /\ Inv K w) NoOob.
Proof.
  intros w HI. unfold get_stream, bind, get_s. pose proof HI as [[HT HL] HB]. destruct r.
  - destruct (ss_template (w_s w)) eqn:E; cbn; [split; [exact (HT _ eq_refl)|exact HI]|exact (inv_noob _ _ HI)].
  - destruct (list_get (ss_list (w_s w)) ssrc) eqn:E; cbn; [split; [exact (list_get_SP _ _ _ HL E)|exact HI]|exact (inv_noob _ _ HI)].
Qed.
Lemma h_put_stream K r n : SP n -> hoare (Inv K) (put_stream r n) (fun _ => Inv K) NoOob.
Proof.
  intros Hn w HI. unfold put_stream, bind, get_s, put_s. destruct HI as [[HT HL] HB]. destruct r; cbn.
  - split; [|exact HB]. split; cbn; [intros t E; injection E as <-; exact Hn|exact HL].
  - split; [|exact HB]. split; cbn; [exact HT|apply list_replace_SP; assumption].
Qed.

Lemma h_get_s K : hoare (Inv K) get_s (fun ss w => session_all SP ss /\ Inv K w) NoOob.
Proof. intros w HI. cbn. split; [exact (proj1 HI)|exact HI]. Qed.
Lemma h_put_s K s' : session_all SP s' -> hoare (Inv K) (put_s s') (fun _ => Inv K) NoOob.
Proof. intros H w [_ HB]. cbn. split; [exact H|exact HB]. Qed.

Lemma h_list_insert K s : SP s -> hoare (Inv K) (list_insert s) (fun _ => Inv K) NoOob.
Proof.
  intros Hs. unfold list_insert. eapply h_bind; [apply h_get_s|intros ss]. apply h_pure; intros [HT HL].
  assert (F : Forall SP (ss_list ss ++ [s])) by (apply Forall_app; split; [exact HL|constructor; [exact Hs|constructor]]).
  destruct (lenZ (ss_list ss) =? ss_cap ss).
  - eapply h_bind; [apply h_sb0; apply sb_alloc1|intros ok].
    destruct ok; cbn [negb]; [|apply h_ret; auto].
    eapply h_bind; [apply h_sb0; apply sb_free_n|intros ?].
    eapply h_bind; [apply h_put_s; split; cbn; [exact HT|exact F]|intros ?]. apply h_ret; auto.
  - eapply h_bind; [apply h_put_s; split; cbn; [exact HT|exact F]|intros ?]. apply h_ret; auto.
Qed.

Lemma h_insert_or_dealloc K s : SP s -> hoare (Inv K) (insert_or_dealloc s) (fun _ => Inv K) NoOob.
Proof.
  intros Hs. unfold insert_or_dealloc. eapply h_bind; [apply h_list_insert; exact Hs|intros st].
  destruct (st =? st_ok); [apply h_ret; auto|].
  eapply h_bind; [apply h_sb0; apply sb_stream_dealloc|intros ?]. apply h_exit. apply inv_noob.
Qed.

Lemma h_stream_clone K t ssrc :
  SP t -> hoare (Inv K) (stream_clone t ssrc) (fun ns w => SP ns /\ Inv K w) NoOob.
Proof.
  intros Ht. eapply h_post; [apply (h_sb K _ _ (sb_stream_clone t ssrc) (r_stream_clone t ssrc))|].
  intros ns w [[Hc _] HI]. split; [exact (SPc _ _ Hc Ht)|exact HI].
Qed.

Lemma SP_upd st rx rb p d l : SP st -> SP (upd_stream st rx rb p d l).
Proof. apply SPc. apply cfg_eq_upd. Qed.
Lemma SP_commit st est : SP st -> SP (commit_advance st est).
Proof. apply SPc. apply cfg_eq_commit. Qed.

Lemma h_lookup_or_clone K ssrc flag :
  hoare (Inv K) (lookup_or_clone ssrc flag) (fun _ => Inv K) NoOob.
Proof.
  unfold lookup_or_clone. eapply h_bind; [apply h_get_s|intros ss]. apply h_pure; intros [HT HL].
  destruct (list_get (ss_list ss) ssrc); [apply h_ret; auto|].
  destruct (ss_template ss) as [t|] eqn:ET; [|apply h_exit; apply inv_noob].
  assert (Ht : SP t) by exact (HT _ eq_refl).
  eapply h_bind; [apply h_stream_clone; exact Ht|intros ns]. apply h_pure; intros Hns.
  eapply h_bind; [apply h_insert_or_dealloc; exact Hns|intros ?].
  apply h_bind with (R := fun _ => Inv K); [|intros ?; apply h_ret; auto].
  destruct flag; [apply h_put_stream; apply SP_upd; exact Hns|apply h_ret; auto].
Qed.

Lemma h_materialize K r ssrc : hoare (Inv K) (materialize r ssrc) (fun _ => Inv K) NoOob.
Proof.
  unfold materialize. destruct r; [|apply h_ret; auto].
  eapply h_bind; [apply h_get_stream|intros t]. apply h_pure; intros Ht.
  eapply h_bind; [apply h_stream_clone; exact Ht|intros ns]. apply h_pure; intros Hns.
  eapply h_bind; [apply h_insert_or_dealloc; exact Hns|intros ?]. apply h_ret; auto.
Qed.

Lemma h_check_direction K r want : hoare (Inv K) (check_direction r want) (fun _ => Inv K) NoOob.
Proof.
  unfold check_direction. eapply h_bind; [apply h_get_stream|intros st]. apply h_pure; intros Hst.
  destruct (s_dir st =? want); [apply h_ret; auto|].
  destruct (s_dir st =? dir_unknown_c); [apply h_put_stream; apply SP_upd; exact Hst|].
  apply h_sb0. apply sb_emit.
Qed.

Lemma h_limit_update K r i : hoare (Inv K) (limit_update r i) (fun _ => Inv K) NoOob.
Proof.
  unfold limit_update. eapply h_bind; [apply h_get_stream|intros st]. apply h_pure; intros Hst.
  destruct (s_clone st).
  - eapply h_bind; [apply h_get_stream|intros t]. apply h_pure; intros Ht.
    destruct (nth_error (s_limits t) (zn i)) as [k|]; [|apply h_exit; apply inv_noob].
    destruct (kl_update k) as [k' e].
    eapply h_bind; [apply h_put_stream; apply SP_upd; exact Ht|intros ?]. apply h_ret; auto.
  - destruct (nth_error (s_limits st) (zn i)) as [k|]; [|apply h_exit; apply inv_noob].
    destruct (kl_update k) as [k' e].
    eapply h_bind; [apply h_put_stream; apply SP_upd; exact Hst|intros ?]. apply h_ret; auto.
Qed.

Lemma h_charge_key K r i : hoare (Inv K) (charge_key r i) (fun _ => Inv K) NoOob.
Proof.
  unfold charge_key. eapply h_bind; [apply h_limit_update|intros e].
  eapply h_bind; [apply h_get_stream|intros st]. apply h_pure; intros Hst.
  destruct e.
  - apply h_ret; auto.
  - apply h_sb0. apply sb_emit.
  - eapply h_bind; [apply h_sb0; apply sb_emit|intros ?]. apply h_exit. apply inv_noob.
Qed.

Lemma h_log_encrypt_iv K k iv : hoare (Inv K) (log_encrypt_iv k iv) (fun _ => Inv K) NoOob.
Proof. apply h_sb0. apply sb_log_encrypt_iv. Qed.

Lemma h_keys_by_index K st i :
  hoare (Inv K) (keys_by_index st i) (fun ik w => In (snd ik) (s_keys st) /\ Inv K w) NoOob.
Proof.
  eapply h_post; [apply (h_sb K _ _ (sb_keys_by_index st i) (r_keys_by_index st i))|].
  intros ik w [H HI]. split; [exact (nth_error_In _ _ H)|exact HI].
Qed.

Lemma h_keys_by_packet K st tl :
  SP st -> 0 <= tl ->
  hoare (Inv K) (keys_by_packet st L tl) (fun ik w => In (snd ik) (s_keys st) /\ Inv K w) NoOob.
Proof.
  intros Hst Htl. pose proof (SPwf _ Hst) as (M & _ & _). unfold keys_by_packet.
  destruct (negb (s_use_mki st)).
  - destruct (s_keys st) as [|k t]; [apply h_exit; apply inv_noob|]. apply h_ret. intros w HI. split; [left; reflexivity|exact HI].
  - destruct (L <? tl) eqn:E1; [apply h_exit; apply inv_noob|].
    destruct (L - tl <? s_mki_size st) eqn:E2; [apply h_exit; apply inv_noob|].
    apply Z.ltb_ge in E1, E2.
    eapply h_bind; [apply h_rd_src; lia|intros m]. apply h_pure; intros _.
    destruct (find_mki (s_keys st) m 0) as [r|] eqn:F; [|apply h_exit; apply inv_noob].
    apply h_ret. intros w HI. split; [exact (find_mki_In _ _ _ _ F)|exact HI].
Qed.
End INV.

(* ===================================================================== *)
(* 5. srtp_stream_init only returns well-formed streams; srtp_stream_clone keeps them so *)
(* ===================================================================== *)
Lemma r_bind2 {A B} (m : M A) (f : A -> M B) (G : A -> Prop) F :
  returns m G -> (forall a, G a -> returns (f a) F) -> returns (bind m f) F.
Proof.
  intros Hm Hf w w' x E. apply bind_inv in E. destruct E as [(a & w1 & E1 & E2)|(s & _ & E)]; [|discriminate].
  exact (Hf a (Hm _ _ _ E1) w1 w' x E2).
Qed.
Lemma r_catch {A} (m : M A) (G : A -> Prop) :
  returns m G -> returns (catch m) (fun r => match r with inl a => G a | inr _ => True end).
Proof.
  intros Hm w w' r E. unfold catch in E. destruct (m w) as [w1 [a|st]] eqn:Em; injection E as _ <-; [|exact I].
  exact (Hm _ _ _ Em).
Qed.
Lemma r_bind_exit {A B} st (f : A -> M B) F : returns (bind (exit_with st) f) F.
Proof. intros w w' x E. cbn in E. discriminate. Qed.
Lemma r_weaken {A} (m : M A) (F G : A -> Prop) : (forall a, F a -> G a) -> returns m F -> returns m G.
Proof. intros I H w w' a E. apply I. exact (H w w' a E). Qed.

Lemma auth_key_wf id klen tlen key : 0 <= tlen <= SRTP_MAX_TAG_LEN_c -> akey_wf (auth_key id klen tlen key).
Proof.
  intros T. unfold auth_key, akey_wf. destruct (id =? SRTP_HMAC_SHA1_c) eqn:E; cbn [ak_tag ak_kind ak_prefix]; rewrite E; auto.
Qed.

Lemma pair_some_inj {A B} (a c : A) (b d : B) : (a, Some b) = (c, Some d) -> b = d.
Proof. intros H. injection H as _ E. exact E. Qed.
(* (no injection on the unfolded derive_keys: it normalises the whole let-chain) *)
Lemma derive_keys_shape p mkey mki st d :
  derive_keys p mkey mki = (st, Some d) ->
  k_mki (d_keys d) = mki /\
  (exists key, k_rtp_a (d_keys d) = auth_key (cp_auth (p_rtp p)) (cp_authkeylen (p_rtp p)) (cp_taglen (p_rtp p)) key) /\
  (exists key, k_rtcp_a (d_keys d) = auth_key (cp_auth (p_rtcp p)) (cp_authkeylen (p_rtcp p)) (cp_taglen (p_rtcp p)) key).
Proof.
  unfold derive_keys.
  match goal with |- context [if ?c then (st_bad_param, None) else _] => destruct c; [intros H; discriminate|] end.
  match goal with |- context [if ?c then (st_bad_param, None) else _] => destruct c; [intros H; discriminate|] end.
  destruct (has_xtn p); intros H; apply pair_some_inj in H; subst d;
  (split; [reflexivity|]; split; eexists; reflexivity).
Qed.

Lemma mki_copy_length msz (id : bytes) :
  0 <= msz -> lenZ (if msz =? 0 then [] else take (zn msz) (id ++ zeros (zn msz))) = msz.
Proof.
  intros H. destruct (msz =? 0) eqn:E; [apply Z.eqb_eq in E; subst; reflexivity|].
  unfold lenZ, zn. rewrite take_length, app_length. unfold zeros. rewrite repeat_length. lia.
Qed.

Section INITWF.
Variable p : policy.
Hypothesis T1 : 0 <= cp_taglen (p_rtp p) <= SRTP_MAX_TAG_LEN_c.
Hypothesis T2 : 0 <= cp_taglen (p_rtcp p) <= SRTP_MAX_TAG_LEN_c.

Lemma r_init_keys msz km o :
  0 <= msz -> returns (init_keys p msz km o) (fun r => key_wf msz (fst r)).
Proof.
  intros Hm. unfold init_keys. change derive_keys_any with derive_keys. apply r_bind; intros o1.
  destruct (derive_keys p (fst km) _) as [st [d|]] eqn:ED; [|apply r_exit].
  apply derive_keys_shape in ED. destruct ED as (E1 & [k1 E2] & [k2 E3]).
  apply r_bind; intros r. apply r_if; [apply r_bind; intros; apply r_exit|].
  apply r_bind; intros _. apply r_if; [apply r_exit|]. apply r_ret. cbn [fst].
  unfold key_wf. rewrite E1, E2, E3. split; [apply mki_copy_length; exact Hm|].
  split; apply auth_key_wf; assumption.
Qed.

Lemma r_init_all_keys msz kms : 0 <= msz ->
  forall o, returns (init_all_keys p msz kms o) (fun r => Forall (key_wf msz) (fst r)).
Proof.
  intros Hm. induction kms as [|km t IH]; intros o; cbn [init_all_keys].
  - apply r_ret. constructor.
  - eapply r_bind2; [apply r_init_keys; exact Hm|intros r Hr].
    eapply r_bind2; [apply IH|intros r2 Hr2]. apply r_ret. cbn [fst]. constructor; assumption.
Qed.

Theorem stream_init_wf owned :
  0 <= p_mki_size p -> returns (stream_init p owned) (fun r => stream_wf (fst r)).
Proof.
  intros Hm. unfold stream_init, check_st.
  destruct (valid_policy p =? st_ok) eqn:EV; [|apply r_bind_exit].
  apply Z.eqb_eq in EV. destruct (valid_policy_envelope p Hm EV) as (_ & _ & R).
  apply r_bind; intros _. apply r_bind; intros _. apply r_bind; intros ok.
  apply r_if; [apply r_exit|]. destruct (rdbx_init _) as [rx|]; [|apply r_exit].
  eapply r_bind2.
  { apply r_catch with (G := fun r => Forall (key_wf (if p_usekey p then 0 else p_mki_size p)) (fst r)).
    destruct (p_usekey p).
    - apply r_bind; intros _. apply r_init_all_keys. lia.
    - apply r_bind; intros _. apply r_bind; intros _. apply r_init_all_keys. exact Hm. }
  intros [[keys owned']|st] Hr; [|apply r_bind; intros; apply r_exit].
  apply r_ret. cbn [fst] in *. unfold stream_wf. cbn [s_mki_size s_use_mki s_keys].
  rewrite max_mki_value in *. destruct (p_usekey p).
  - split; [lia|]. split; [reflexivity|exact Hr].
  - destruct R as [_ R]. destruct (p_use_mki p).
    + split; [lia|]. split; [discriminate|exact Hr].
    + split; [lia|]. split; [intros _; exact R|exact Hr].
Qed.
End INITWF.

(* the same with the hypotheses on the policy spelled out: sizes are not negative *)
Theorem stream_init_returns_wf p owned w w' st o :
  0 <= p_mki_size p -> 0 <= cp_taglen (p_rtp p) -> 0 <= cp_taglen (p_rtcp p) ->
  stream_init p owned w = (w', inl (st, o)) -> stream_wf st.
Proof.
  intros Hm H1 H2 E.
  assert (V : valid_policy p = st_ok).
  { unfold stream_init, check_st in E. destruct (valid_policy p =? st_ok) eqn:EV; [apply Z.eqb_eq; exact EV|].
    cbn in E. discriminate. }
  destruct (valid_policy_envelope p Hm V) as (A1 & A2 & _).
  exact (stream_init_wf p (conj H1 A1) (conj H2 A2) owned Hm w w' (st, o) E).
Qed.
Print Assumptions stream_init_returns_wf.

Theorem stream_clone_wf t ssrc w w' ns :
  stream_wf t -> stream_clone t ssrc w = (w', inl ns) -> stream_wf ns.
Proof.
  intros Ht E. destruct (r_stream_clone t ssrc w w' ns E) as [Hc _]. exact (stream_wf_cfg _ _ Hc Ht).
Qed.
Print Assumptions stream_clone_wf.
