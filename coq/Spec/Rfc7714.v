(* Spec/Rfc7714.v — an independent specification, written from the text of RFC 7714 (AES-GCM
   authenticated encryption in SRTP), of
     8.1  SRTP IV formation for AES-GCM
            IV = (0x0000 ‖ SSRC (32 bits) ‖ ROC (32 bits) ‖ SEQ (16 bits)) XOR the 96-bit encryption salt
     9.1  SRTCP IV formation for AES-GCM
            IV = (0x0000 ‖ SSRC (32 bits) ‖ 0x0000 ‖ 0 (1 bit) ‖ SRTCP index (31 bits)) XOR the 96-bit salt
     8.2  data types in SRTP packets: AAD = the RTP header including the CSRC list and the header
          extension; plaintext = the payload
     9.2  encrypted SRTCP compound packets: AAD = the first 8 octets of the packet ‖ the ESRTCP word
          (E flag = 1 ‖ 31-bit SRTCP index); plaintext = the rest of the packet
     9.3  unencrypted SRTCP compound packets: AAD = the whole packet ‖ the ESRTCP word (E = 0); the
          plaintext is empty
   The IVs are formed as arithmetic on 96-bit NUMBERS (shifts, one xor, one big-endian encoding),
   not octet by octet as the model of libsrtp does (Aead.v: aead_rtp_iv / aead_rtcp_iv).
   Nothing here is shared with Aead.v / Rtp.v / Rtcp.v.  Specification only. *)
From Coq Require Import NArith List Bool.
From Srtp Require Import Util.
From Srtp.Crypto Require Import AES GCM.
Import ListNotations.
Local Open Scope N_scope.

(* ---- 8.1 / 9.1: the 96-bit numbers ---- *)
(* the salt as a 96-bit number: its 12 octets read big-endian *)
Definition salt_num (salt : bytes) : N := be_val salt.

(* 0x0000 ‖ SSRC ‖ ROC ‖ SEQ: bits 95..80 zero, SSRC in bits 79..48, ROC in bits 47..16, SEQ in bits 15..0 *)
Definition rtp_iv_num (salt : bytes) (ssrc roc seq : N) : N :=
  N.lxor (ssrc * 2 ^ 48 + roc * 2 ^ 16 + seq) (salt_num salt).
(* 0x0000 ‖ SSRC ‖ 0x0000 ‖ 0 ‖ index: SSRC in bits 79..48, bits 47..31 zero, the index in bits 30..0 *)
Definition rtcp_iv_num (salt : bytes) (ssrc index : N) : N :=
  N.lxor (ssrc * 2 ^ 48 + index) (salt_num salt).

(* the IV handed to AES-GCM: the 12 octets of the number, most significant first *)
Definition rtp_iv (salt : bytes) (ssrc roc seq : N) : bytes := be_bytes 12 (rtp_iv_num salt ssrc roc seq).
Definition rtcp_iv (salt : bytes) (ssrc index : N) : bytes := be_bytes 12 (rtcp_iv_num salt ssrc index).

(* the same in terms of the 48-bit packet index i = 2^16 * ROC + SEQ (RFC 3711 3.3.1) *)
Definition rtp_iv_of_index (salt : bytes) (ssrc i : N) : bytes := rtp_iv salt ssrc (i / 2 ^ 16) (i mod 2 ^ 16).

(* ---- 8.2: the parts of an RTP packet ---- *)
Definition hdr_cc (p : bytes) : nat := N.to_nat (N.land (nth 0 p 0) 15).
Definition hdr_x (p : bytes) : bool := N.testbit (nth 0 p 0) 4.
Definition be16at (p : bytes) (o : nat) : N := be_val (slice o 2 p).
Definition be32at (p : bytes) (o : nat) : N := be_val (slice o 4 p).
(* fixed header (12) + CSRC list (4*CC) + when X is set the extension (4 + 4*length) *)
Definition rtp_header_len (p : bytes) : nat :=
  let h := (12 + 4 * hdr_cc p)%nat in
  if hdr_x p then (h + 4 + 4 * N.to_nat (be16at p (h + 2)))%nat else h.
Definition rtp_aad (p : bytes) : bytes := take (rtp_header_len p) p.
Definition rtp_plaintext (p : bytes) : bytes := drop (rtp_header_len p) p.

(* ---- 9.2 / 9.3: the parts of an RTCP compound packet ---- *)
(* the ESRTCP word: E flag ‖ 31-bit SRTCP index, 4 octets *)
Definition esrtcp_word (e : bool) (index : N) : bytes := be_bytes 4 ((if e then 2 ^ 31 else 0) + index).
Definition rtcp_aad (encrypted : bool) (p : bytes) (index : N) : bytes :=
  (if encrypted then take 8 p else p) ++ esrtcp_word encrypted index.
Definition rtcp_plaintext (encrypted : bool) (p : bytes) : bytes := if encrypted then drop 8 p else [].

(* ---- the packets (no MKI, header extensions not encrypted) ---- *)
(* SRTP packet = header ‖ ciphertext ‖ tag (the AEAD ciphertext with its tag takes the place of the payload;
   there is no separate SRTP authentication tag: 7.1) *)
Definition srtp_protect (key salt : bytes) (taglen : nat) (roc : N) (p : bytes) : bytes :=
  let iv := rtp_iv salt (be32at p 8) roc (be16at p 2) in
  let '(ct, tag) := aes_gcm_encrypt key iv (rtp_aad p) (rtp_plaintext p) taglen in
  rtp_aad p ++ ct ++ tag.
(* SRTCP packet = first 8 octets ‖ ciphertext (or the rest of the packet in clear) ‖ tag ‖ ESRTCP word *)
Definition srtcp_protect (key salt : bytes) (taglen : nat) (encrypted : bool) (index : N) (p : bytes) : bytes :=
  let iv := rtcp_iv salt (be32at p 4) index in
  let '(ct, tag) := aes_gcm_encrypt key iv (rtcp_aad encrypted p index) (rtcp_plaintext encrypted p) taglen in
  take 8 p ++ (if encrypted then ct else drop 8 p) ++ tag ++ esrtcp_word encrypted index.

(* ---- test vectors: the IVs printed in RFC 7714 ---- *)
(* 16.1.1 (SRTP AEAD_AES_128_GCM encryption): RTP header 8040f17b 8041f8d3 5501a0b2, ROC 0,
   salt 51756964 2070726f 2071756f; "12-octet IV" 51753c65 80c2726f 20718414 *)
Definition rfc_salt : bytes := [0x51;0x75;0x69;0x64;0x20;0x70;0x72;0x6f;0x20;0x71;0x75;0x6f].
Example rtp_iv_16_1_1 :
  rtp_iv rfc_salt 0x5501a0b2 0 0xf17b = [0x51;0x75;0x3c;0x65;0x80;0xc2;0x72;0x6f;0x20;0x71;0x84;0x14].
Proof. vm_compute. reflexivity. Qed.
(* 17.1 (SRTCP AEAD_AES_128_GCM encryption): RTCP header 81c8000d 4d617273, SRTCP index 000005d4, same salt;
   IV 51752405 5203726f 207170bb *)
Example rtcp_iv_17_1 :
  rtcp_iv rfc_salt 0x4d617273 0x5d4 = [0x51;0x75;0x24;0x05;0x52;0x03;0x72;0x6f;0x20;0x71;0x70;0xbb].
Proof. vm_compute. reflexivity. Qed.

(* the complete packets of the same two sections (key 00010203 04050607 08090a0b 0c0d0e0f, 16-octet tag) *)
Definition rfc_key : bytes := [0;1;2;3;4;5;6;7;8;9;10;11;12;13;14;15].
Definition words (l : list N) : bytes := concat (map (be_bytes 4) l).
(* 16.1.1: payload "Gallia est omnis divisa in partes tres" *)
Definition rfc_rtp_packet : bytes :=
  words [0x8040f17b; 0x8041f8d3; 0x5501a0b2;
         0x47616c6c; 0x69612065; 0x7374206f; 0x6d6e6973; 0x20646976; 0x69736120; 0x696e2070; 0x61727465; 0x73207472]
  ++ [0x65; 0x73].
Example srtp_protect_16_1_1 :
  srtp_protect rfc_key rfc_salt 16 0 rfc_rtp_packet =
  words [0x8040f17b; 0x8041f8d3; 0x5501a0b2;
         0xf24de3a3; 0xfb34de6c; 0xacba861c; 0x9d7e4bca; 0xbe633bd5; 0x0d294e6f; 0x42a5f47a; 0x51c7d19b; 0x36de3adf;
         0x8833899d; 0x7f27beb1; 0x6a9152cf; 0x765ee439] ++ [0x0c; 0xce].
Proof. vm_compute. reflexivity. Qed.
(* 17.1: encrypted SRTCP, index 0x5d4 *)
Definition rfc_rtcp_packet : bytes :=
  words [0x81c8000d; 0x4d617273; 0x4e545031; 0x4e545032; 0x52545020; 0x0000042a; 0x0000e930; 0x4c756e61;
         0xdeadbeef; 0xdeadbeef; 0xdeadbeef; 0xdeadbeef; 0xdeadbeef].
Example srtcp_protect_17_1 :
  srtcp_protect rfc_key rfc_salt 16 true 0x5d4 rfc_rtcp_packet =
  words [0x81c8000d; 0x4d617273;
         0x63e94885; 0xdcdab67c; 0xa727d766; 0x2f6b7e99; 0x7ff5c0f7; 0x6c06f32d; 0xc676a5f1; 0x730d6fda; 0x4ce09b46;
         0x86303ded; 0x0bb9275b; 0xc84aa458; 0x96cf4d2f; 0xc5abf872; 0x45d9eade; 0x800005d4].
Proof. vm_compute. reflexivity. Qed.
