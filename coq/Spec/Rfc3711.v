(* Spec/Rfc3711.v — an independent executable specification of SRTP / SRTCP written from
   the RFC texts over AES (FIPS-197), SHA-1 / HMAC (FIPS 180-4, RFC 2104) only:
     RFC 3711  4.1.1 (AES-CM keystream and IV), 4.2 (HMAC-SHA1 tag over M ‖ ROC),
               4.3 (key derivation, labels 0..5, key_derivation_rate 0), 3.1 / 3.4 (packet layout, MKI, SRTCP trailer)
     RFC 6188  (AES-192 / AES-256 in counter mode, same KDF with the larger key)
     RFC 6904  (header-extension encryption, labels 6 and 7, positional mask)
   Nothing here is shared with the model of libsrtp (Rtp.v, Rtcp.v, Stream.v, Icm.v): numbers are
   big integers, not byte-wise state machines. *)
From Coq Require Import NArith ZArith List Bool.
From Srtp Require Import Util.
From Srtp.Crypto Require Import AES HMAC.
Import ListNotations.
Local Open Scope N_scope.

(* AES-CM: keystream block j is E(k, (IV + j) mod 2^128), IV a 128-bit integer *)
Fixpoint cm_blocks (k : list bytes) (iv : N) (j : N) (n : nat) : bytes :=
  match n with
  | O => []
  | S n' => aes_encrypt_rk k (be_bytes 16 ((iv + j) mod 2 ^ 128)) ++ cm_blocks k iv (j + 1) n'
  end.
Definition cm_keystream (key : bytes) (iv : N) (n : nat) : bytes :=
  take n (cm_blocks (aes_key_expand key) iv 0 (Nat.div (n + 15) 16)).

(* 4.3.1: key_id = label ‖ r (r = 0), x = key_id XOR master_salt, key = PRF_n(k_master, x) *)
Definition kdf (mkey msalt : bytes) (label : N) (n : nat) : bytes :=
  let salt := be_val msalt in                       (* 112-bit integer *)
  let key_id := label * 2 ^ 48 in
  let x := N.lxor key_id salt in
  cm_keystream mkey (x * 2 ^ 16) n.

Record skeys := { ke : bytes; ka : bytes; ks : bytes }.
Definition derive (mkey msalt : bytes) (l_e l_a l_s : N) (n_e n_a n_s : nat) : skeys :=
  {| ke := kdf mkey msalt l_e n_e; ka := kdf mkey msalt l_a n_a; ks := kdf mkey msalt l_s n_s |}.

(* 4.1.1: IV = (k_s * 2^16) XOR (SSRC * 2^64) XOR (i * 2^16) *)
Definition cm_iv (salt : bytes) (ssrc i : N) : N :=
  N.lxor (N.lxor (be_val salt * 2 ^ 16) (ssrc * 2 ^ 64)) (i * 2 ^ 16).

Definition hdr_cc (p : bytes) : nat := N.to_nat (N.land (nth 0 p 0) 15).
Definition hdr_x (p : bytes) : bool := N.testbit (nth 0 p 0) 4.
Definition be16at (p : bytes) (o : nat) : N := be_val (slice o 2 p).
Definition be32at (p : bytes) (o : nat) : N := be_val (slice o 4 p).
(* offset of the payload: 12 + 4*CC (+ 4 + 4*length when X) *)
Definition payload_off (p : bytes) : nat :=
  let h := (12 + 4 * hdr_cc p)%nat in
  if hdr_x p then (h + 4 + 4 * N.to_nat (be16at p (h + 2)))%nat else h.

(* RFC 6904: positional mask over the extension payload (after the 4-octet extension header):
   0xff on the data bytes of elements whose id is listed, 0 elsewhere *)
Fixpoint mask_one (fuel : nat) (ids : bytes) (d : bytes) : bytes :=
  match fuel with
  | O => map (fun _ => 0) d
  | S f =>
    match d with
    | [] => []
    | b :: r =>
      if b =? 0 then 0 :: mask_one f ids r                    (* padding *)
      else
        let id := N.shiftr b 4 in
        let len := S (N.to_nat (N.land b 15)) in
        if id =? 15 then map (fun _ => 0) d                   (* stop *)
        else
          let m := if existsb (N.eqb id) ids then 255 else 0 in
          (0 :: repeat m (min len (length r))) ++ mask_one f ids (drop len r)
    end
  end.
Fixpoint mask_two (fuel : nat) (ids : bytes) (d : bytes) : bytes :=
  match fuel with
  | O => map (fun _ => 0) d
  | S f =>
    match d with
    | [] => []
    | b :: r =>
      if b =? 0 then 0 :: mask_two f ids r
      else match r with
           | [] => [0]
           | l :: r2 =>
             let len := N.to_nat l in
             let m := if existsb (N.eqb b) ids then 255 else 0 in
             (0 :: 0 :: repeat m (min len (length r2))) ++ mask_two f ids (drop len r2)
           end
    end
  end.
Definition xtn_mask (ids : bytes) (profile : N) (d : bytes) : bytes :=
  if profile =? 0xBEDE then mask_one (S (length d)) ids d
  else if N.land profile 0xFFF0 =? 0x1000 then mask_two (S (length d)) ids d
  else map (fun _ => 0) d.

Record rtp_params := {
  rp_mkey : bytes; rp_msalt : bytes;            (* master key, 112-bit master salt *)
  rp_conf : bool; rp_null : bool;           (* confidentiality service; NULL cipher (identity keystream) *)
  rp_auth : bool; rp_tag : nat;
  rp_mki : bytes;
  rp_xtn_ids : bytes                             (* RFC 6904 ids; [] = none *)
}.

(* SRTP packet for RTP packet p, rollover counter roc (index = 2^16 roc + SEQ) *)
Definition srtp_protect (q : rtp_params) (roc : N) (p : bytes) : bytes :=
  let n_e := length (rp_mkey q) in
  let k := derive (rp_mkey q) (rp_msalt q) 0 1 2 n_e 20 14 in
  let seq := be16at p 2 in
  let ssrc := be32at p 8 in
  let i := roc * 65536 + seq in
  let iv := cm_iv (ks k) ssrc i in
  let off := payload_off p in
  (* RFC 6904 *)
  let p1 :=
    match rp_xtn_ids q with
    | [] => p
    | ids =>
      if hdr_x p then
        let kh := derive (rp_mkey q) (rp_msalt q) 6 1 7 n_e 20 14 in
        let h := (12 + 4 * hdr_cc p)%nat in
        let d := slice (h + 4) (off - (h + 4)) p in
        let stream := cm_keystream (ke kh) (cm_iv (ks kh) ssrc i) (length d) in
        let msk := xtn_mask ids (be16at p h) d in
        let d' := map (fun t => N.lxor (fst (fst t)) (N.land (snd (fst t)) (snd t)))
                      (combine (combine d stream) msk) in
        splice (h + 4) d' p
      else p
    end in
  let payload := drop off p1 in
  let enc := if rp_conf q && negb (rp_null q) then xor_bytes payload (cm_keystream (ke k) iv (length payload)) else payload in
  let m := take off p1 ++ enc in
  let tag := if rp_auth q then take (rp_tag q) (hmac_sha1 (ka k) (m ++ be_bytes 4 roc)) else [] in
  m ++ rp_mki q ++ tag.

(* SRTCP packet for RTCP packet p with SRTCP index idx *)
Definition srtcp_protect (q : rtp_params) (idx : N) (p : bytes) : bytes :=
  let n_e := length (rp_mkey q) in
  let k := derive (rp_mkey q) (rp_msalt q) 3 4 5 n_e 20 14 in
  let ssrc := be32at p 4 in
  let iv := cm_iv (ks k) ssrc idx in
  let body := drop 8 p in
  let enc := if rp_conf q && negb (rp_null q) then xor_bytes body (cm_keystream (ke k) iv (length body)) else body in
  let trailer := be_bytes 4 ((if rp_conf q then 2 ^ 31 else 0) + idx) in
  let m := take 8 p ++ enc ++ trailer in
  m ++ rp_mki q ++ take (rp_tag q) (hmac_sha1 (ka k) m).

(* ---- RFC 3711 Appendix B.3 key-derivation test vectors ---- *)
Definition hexn (l : list N) := l.
Example kdf_b3_cipher_key :
  kdf [0xE1;0xF9;0x7A;0x0D;0x3E;0x01;0x8B;0xE0;0xD6;0x4F;0xA3;0x2C;0x06;0xDE;0x41;0x39]
      [0x0E;0xC6;0x75;0xAD;0x49;0x8A;0xFE;0xEB;0xB6;0x96;0x0B;0x3A;0xAB;0xE6] 0 16
  = [0xC6;0x1E;0x7A;0x93;0x74;0x4F;0x39;0xEE;0x10;0x73;0x4A;0xFE;0x3F;0xF7;0xA0;0x87].
Proof. vm_compute. reflexivity. Qed.
Example kdf_b3_cipher_salt :
  kdf [0xE1;0xF9;0x7A;0x0D;0x3E;0x01;0x8B;0xE0;0xD6;0x4F;0xA3;0x2C;0x06;0xDE;0x41;0x39]
      [0x0E;0xC6;0x75;0xAD;0x49;0x8A;0xFE;0xEB;0xB6;0x96;0x0B;0x3A;0xAB;0xE6] 2 14
  = [0x30;0xCB;0xBC;0x08;0x86;0x3D;0x8C;0x85;0xD4;0x9D;0xB3;0x4A;0x9A;0xE1].
Proof. vm_compute. reflexivity. Qed.
Example kdf_b3_auth_key_prefix :
  take 16 (kdf [0xE1;0xF9;0x7A;0x0D;0x3E;0x01;0x8B;0xE0;0xD6;0x4F;0xA3;0x2C;0x06;0xDE;0x41;0x39]
               [0x0E;0xC6;0x75;0xAD;0x49;0x8A;0xFE;0xEB;0xB6;0x96;0x0B;0x3A;0xAB;0xE6] 1 94)
  = [0xCE;0xBE;0x32;0x1F;0x6F;0xF7;0x71;0x6B;0x6F;0xD4;0xAB;0x49;0xAF;0x25;0x6A;0x15].
Proof. vm_compute. reflexivity. Qed.
(* RFC 3711 B.2 AES-CM keystream *)
Example cm_b2 :
  take 16 (cm_keystream [0x2B;0x7E;0x15;0x16;0x28;0xAE;0xD2;0xA6;0xAB;0xF7;0x15;0x88;0x09;0xCF;0x4F;0x3C]
                        (be_val [0xF0;0xF1;0xF2;0xF3;0xF4;0xF5;0xF6;0xF7;0xF8;0xF9;0xFA;0xFB;0xFC;0xFD;0x00;0x00]) 32)
  = [0xE0;0x3E;0xAD;0x09;0x35;0xC9;0x5E;0x80;0xE1;0x66;0xB1;0x6D;0xD9;0x2B;0x4E;0xB4].
Proof. vm_compute. reflexivity. Qed.
