(* HmacModel.v -- model of /repo/crypto/hash/hmac.c (srtp_hmac_init /
   srtp_hmac_start / srtp_hmac_update / srtp_hmac_compute) on top of the
   SHA-1 context model of Sha1Model.v, parametric in the compression
   function [C].

   Definitions only; the proofs are in HmacProofs.v.

   State = the C struct srtp_hmac_ctx_t (crypto/include/hmac.h):
     uint8_t opad[64]          ->  hm_opad
     srtp_sha1_ctx_t ctx       ->  hm_ctx
     srtp_sha1_ctx_t init_ctx  ->  hm_init_ctx
   Error returns (srtp_err_status_bad_param) are [None]. *)

From Coq Require Import NArith List Arith.
From Srtp Require Import Util Sha1Model.
From Srtp.Crypto Require Import SHA1.
Import ListNotations.
Local Open Scope N_scope.

Record hmacctx : Type := mk_hmacctx {
  hm_opad : bytes;
  hm_ctx : sha1ctx;
  hm_init_ctx : sha1ctx
}.

(* The two loops of srtp_hmac_init that fill ipad / opad:
     for i < key_len : pad[i] = key[i] ^ c;   for key_len <= i < 64 : pad[i] = c *)
Definition hmac_pad (c : N) (key : bytes) : bytes :=
  map (fun b => N.lxor b c) key ++ repeat c (64 - length key)%nat.

Section HmacModel.

Variable C : list N -> list N -> list N.

(* srtp_hmac_init: key_len > 20 is rejected; otherwise opad is stored, ipad
   is hashed into init_ctx, and init_ctx is copied to ctx. *)
Definition hmac_init (key : bytes) : option hmacctx :=
  if (20 <? length key)%nat then None
  else
    let ic := sha1m_update C sha1m_init (hmac_pad 0x36 key) in
    Some {| hm_opad := hmac_pad 0x5c key; hm_ctx := ic; hm_init_ctx := ic |}.

(* srtp_hmac_start: ctx := init_ctx *)
Definition hmac_start (st : hmacctx) : hmacctx :=
  {| hm_opad := hm_opad st;
     hm_ctx := hm_init_ctx st;
     hm_init_ctx := hm_init_ctx st |}.

(* srtp_hmac_update: srtp_sha1_update on ctx *)
Definition hmac_update (st : hmacctx) (msg : bytes) : hmacctx :=
  {| hm_opad := hm_opad st;
     hm_ctx := sha1m_update C (hm_ctx st) msg;
     hm_init_ctx := hm_init_ctx st |}.

(* srtp_hmac_compute: tag_len > 20 is rejected; otherwise
     hmac_update(message); sha1_final(ctx, H);                 (inner digest)
     sha1_init(ctx); sha1_update(opad, 64); sha1_update(H, 20);
     sha1_final(ctx, hash_value);                              (outer digest)
     result[0..tag_len) = hash_value octets.
   Returns the state left behind and the tag. *)
Definition hmac_compute (st : hmacctx) (msg : bytes) (tag_len : nat)
  : option (hmacctx * bytes) :=
  if (20 <? tag_len)%nat then None
  else
    let inner_ctx := sha1m_update C (hm_ctx st) msg in
    let inner := sha1_words_to_bytes (sha1m_final C inner_ctx) in
    let outer_ctx :=
      sha1m_update C (sha1m_update C sha1m_init (hm_opad st)) inner in
    let hash_value := sha1_words_to_bytes (sha1m_final C outer_ctx) in
    Some ({| hm_opad := hm_opad st;
             hm_ctx := sha1m_final_ctx C outer_ctx;
             hm_init_ctx := hm_init_ctx st |},
          take tag_len hash_value).

(* The way libsrtp uses the auth function (srtp_auth_start, any number of
   srtp_auth_update, srtp_auth_compute): the tag only. *)
Definition hmac_run (st : hmacctx) (chunks : list bytes) (last : bytes)
           (tag_len : nat) : option bytes :=
  option_map snd
    (hmac_compute (fold_left hmac_update chunks (hmac_start st)) last tag_len).

End HmacModel.
