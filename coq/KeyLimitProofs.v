(* KeyLimitProofs.v — facts about the key usage budget model (KeyLimit.v). *)
From Coq Require Import ZArith List Bool Lia.
From Srtp Require Import Util Constants KeyLimit.
Import ListNotations.
Local Open Scope Z_scope.

Definition kl_ok (k : klimit) : Prop := 0 <= num_left k < 2 ^ 64.

Lemma soft_limit_value : soft_limit_c = 2 ^ 16.
Proof. reflexivity. Qed.

Lemma key_limit_init_value : key_limit_init_c = 2 ^ 48 - 1.
Proof. reflexivity. Qed.

Lemma u64_small x : 0 <= x < 2 ^ 64 -> u64 x = x.
Proof. intros H. unfold u64. apply Z.mod_small. lia. Qed.

(* one step, budget not yet exhausted: exact decrement and the event is a function of the new budget *)
Lemma kl_update_pos k :
  0 < num_left k < 2 ^ 64 ->
  let '(k', e) := kl_update k in
  num_left k' = num_left k - 1 /\
  (e = EvNormal <-> 2 ^ 16 <= num_left k') /\
  (e = EvHard <-> num_left k' = 0) /\
  (e = EvSoft <-> 0 < num_left k' < 2 ^ 16) /\
  (e = EvHard -> kst k' = KExpired).
Proof.
  intros H. unfold kl_update.
  replace (0 <? num_left k) with true by (symmetry; apply Z.ltb_lt; lia).
  rewrite u64_small by lia. rewrite soft_limit_value.
  destruct (2 ^ 16 <=? num_left k - 1) eqn:E1; cbn [num_left kst].
  - apply Z.leb_le in E1. repeat split; intros; try discriminate; try lia; auto.
  - apply Z.leb_gt in E1.
    destruct (num_left k - 1 <? 1) eqn:E2; cbn [num_left kst].
    + apply Z.ltb_lt in E2. repeat split; intros; try discriminate; try lia; auto.
    + apply Z.ltb_ge in E2. repeat split; intros; try discriminate; try lia; auto.
Qed.

(* the step at an exhausted budget *)
Lemma kl_update_zero k :
  num_left k = 0 -> kl_update k = ({| num_left := 0; kst := KExpired |}, EvHard).
Proof.
  intros H. unfold kl_update. rewrite H. reflexivity.
Qed.

Lemma kl_update_ok k : kl_ok k -> kl_ok (fst (kl_update k)).
Proof.
  unfold kl_ok. intros H.
  destruct (Z.eq_dec (num_left k) 0) as [E|E].
  - rewrite (kl_update_zero k E). cbn. lia.
  - pose proof (kl_update_pos k ltac:(lia)) as P.
    destruct (kl_update k) as [k' e]. cbn. destruct P as [P _]. lia.
Qed.

(* n further updates *)
Fixpoint kl_updates (n : nat) (k : klimit) : klimit * list kevent :=
  match n with
  | O => (k, [])
  | S n' => let '(k1, e) := kl_update k in
            let '(k2, es) := kl_updates n' k1 in (k2, e :: es)
  end.

(* expiry is permanent: once the budget is 0 every later update reports the hard limit *)
Lemma expired_forever n k :
  num_left k = 0 -> Forall (fun e => e = EvHard) (snd (kl_updates n k)) /\ num_left (fst (kl_updates n k)) = 0.
Proof.
  revert k. induction n as [|n IH]; intros k H; cbn [kl_updates].
  - split; [constructor | exact H].
  - rewrite (kl_update_zero k H).
    specialize (IH {| num_left := 0; kst := KExpired |} eq_refl).
    destruct (kl_updates n {| num_left := 0; kst := KExpired |}) as [k2 es]. cbn in *.
    destruct IH as [IH1 IH2]. split; [constructor; auto | exact IH2].
Qed.

(* whole-history statement: starting anywhere, the event sequence is
   normal* soft* hard*, with the soft/hard switch points fixed by the budget *)
Lemma kl_updates_events n k :
  kl_ok k ->
  let es := snd (kl_updates n k) in
  forall i e, nth_error es i = Some e ->
    (e = EvNormal <-> 2 ^ 16 <= num_left k - Z.of_nat i - 1) /\
    (e = EvSoft <-> 0 < num_left k - Z.of_nat i - 1 < 2 ^ 16) /\
    (e = EvHard <-> num_left k - Z.of_nat i - 1 <= 0).
Proof.
  revert k. induction n as [|n IH]; intros k Hk es i e Hn; subst es; cbn [kl_updates] in Hn.
  - destruct i; discriminate.
  - destruct (kl_update k) as [k1 e1] eqn:E1.
    destruct (kl_updates n k1) as [k2 es] eqn:E2. cbn [snd] in Hn.
    destruct (Z.eq_dec (num_left k) 0) as [Z0|NZ].
    + (* already exhausted *)
      pose proof (expired_forever (S n) k Z0) as [F _]. cbn [kl_updates] in F.
      rewrite E1, E2 in F. cbn [snd] in F.
      rewrite Forall_forall in F. specialize (F e (nth_error_In _ _ Hn)). subst e.
      repeat split; intros; try discriminate; try lia.
    + unfold kl_ok in Hk.
      pose proof (kl_update_pos k ltac:(lia)) as P. rewrite E1 in P.
      destruct P as (P1 & P2 & P3 & P4 & _).
      destruct i as [|i]; cbn [nth_error] in Hn.
      * injection Hn as <-. rewrite Nat2Z.inj_0.
        repeat split; intros; try (apply P2; lia); try (apply P3; lia); try (apply P4; lia);
          try (apply P2 in H; lia); try (apply P3 in H; lia); try (apply P4 in H; lia).
      * assert (Hk1 : kl_ok k1) by (unfold kl_ok; lia).
        specialize (IH k1 Hk1 i e). rewrite E2 in IH. cbn [snd] in IH.
        specialize (IH Hn). rewrite P1 in IH. rewrite Nat2Z.inj_succ.
        replace (num_left k - Z.succ (Z.of_nat i) - 1) with (num_left k - 1 - Z.of_nat i - 1) by lia.
        exact IH.
Qed.
