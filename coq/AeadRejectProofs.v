(* AeadRejectProofs.v — C13 for the AES-GCM receive paths (Aead.v): everything srtp_unprotect /
   srtp_unprotect_rtcp do with a GCM key up to and including the tag verification (gcm_open) leaves
   the session, the heap counters and the event log untouched; hence every exit taken there is a
   no-op on the session.  Each function is split as Rtp.v splits `unprotect`:
     unprotect_aead      = unprotect_aead_pre      ;; unprotect_aead_post        (pointwise)
     unprotect_rtcp_aead = unprotect_rtcp_aead_pre ;; unprotect_rtcp_aead_post   (pointwise)
   `pre` is session-preserving (sess_pres); `post` can only exit with the statuses listed in
   aead_post_status / rtcp_aead_post_status. *)
From Coq Require Import NArith ZArith List Bool Lia.
From Srtp Require Import Util Constants KeyLimit Rdb Rdbx Icm World Stream Rtp Rtcp Aead MonadLemmas WfProofs RejectProofs.
From Srtp.Crypto Require Import AES GCM.
Import ListNotations.
Local Open Scope Z_scope.

(* ===================================================================== *)
(* 0. pointwise equality of computations, to state the splits             *)
(* ===================================================================== *)
Definition meq {A} (m1 m2 : M A) : Prop := forall w, m1 w = m2 w.

Lemma meq_step {A B C} (m : M A) (f : A -> M C) (g : A -> M B) (h : B -> M C) :
  (forall a, meq (f a) (bind (g a) h)) -> meq (bind m f) (bind (bind m g) h).
Proof.
  intros H w. unfold bind. destruct (m w) as [w1 [a|st]]; [|reflexivity].
  exact (H a w1).
Qed.
Lemma meq_exit_l {A B} st (h : A -> M B) : meq (exit_with st) (bind (exit_with st) h).
Proof. intros w. reflexivity. Qed.

Ltac split_step := apply meq_step; intros ?; cbv beta zeta.

(* ===================================================================== *)
(* 1. the split of unprotect_aead                                         *)
(* ===================================================================== *)
Record apre := {
  a_pkt : bytes; a_ssrc : Z; a_ref : sref; a_est : Z; a_delta : Z; a_adv : bool;
  a_ki : Z; a_k : skeys; a_inuse : bool; a_inplace : bool; a_enc_start : Z; a_o : bytes
}.

(* everything up to and including gcm_open (and the write of the plaintext to the output) *)
Definition unprotect_aead_pre : M apre :=
  b <- get_b ;;
  let len := b_len b in
  let pkt := take (zn len) (cur_src b) in
  check_st (validate_rtp pkt len) ;;;
  let ssrc := hdr_ssrc pkt in
  ss <- get_s ;;
  r0 <- (match list_get (ss_list ss) ssrc with
         | Some _ => ret (RList ssrc)
         | None => match ss_template ss with Some _ => ret RTemplate | None => exit_with st_no_ctx end
         end) ;;
  st <- get_stream r0 ;;
  eda <- (match r0 with
          | RTemplate => ret (hdr_seq pkt, hdr_seq pkt, false)
          | RList _ =>
            let '(est_st, est, delta) := est_index st (hdr_seq pkt) in
            (if negb (est_st =? st_ok) && negb (est_st =? st_pkt_idx_adv) then exit_with est_st else ret tt) ;;;
            if est_st =? st_pkt_idx_adv then ret (est, delta, true)
            else check_st (rdbx_check (s_rdbx st) delta) ;;; ret (est, delta, false)
          end) ;;
  let '(est, delta, adv) := eda in
  ik <- keys_by_packet st len 0 ;;
  let '(ki, k) := ik in
  let tag_len := ak_tag (k_rtp_a k) in
  let iv := aead_rtp_iv (k_salt k) ssrc est in
  let enc0 := hdr_len pkt + (if hdr_x pkt =? 1 then xtn_len pkt else 0) in
  inuse <- (if s_cryptex st && negb (Z.land (s_rtp_serv st) sec_serv_conf_c =? 0) && (hdr_x pkt =? 1) then
              h <- rd_src (hdr_len pkt) 4 ;;
              let profile := be16 h 0 in
              ret ((profile =? cryptex_one_byte_profile_c) || (profile =? cryptex_two_byte_profile_c))
            else ret false) ;;
  let inplace := inuse && b_alias b in
  xl <- (if inuse then (h <- rd_src (hdr_len pkt) 4 ;; ret ((be16 h 2 + 1) * 4)) else ret 0) ;;
  let enc_start := if inuse then u64 (u64 (enc0 - (xl - octets_in_rtp_xtn_hdr_c))
                                      - (if inplace then hdr_cc pkt * 4 else 0)) else enc0 in
  (if inuse && negb inplace && negb (hdr_cc pkt =? 0) then exit_with st_cryptex_err else ret tt) ;;;
  (if u64 (len - tag_len - s_mki_size st) <? u64 (enc_start + (if inplace then hdr_cc pkt * 4 else 0))
   then exit_with st_parse_err else ret tt) ;;;
  (if inuse && (u64 (len - tag_len - s_mki_size st) <? u64 (hdr_len pkt + xl))
   then exit_with st_parse_err else ret tt) ;;;
  let enc_len := u64 (len - enc_start - s_mki_size st) in
  (if enc_len <? tag_len then exit_with st_cipher_fail else ret tt) ;;;
  (if b_cap b <? u64 (len - s_mki_size st - tag_len) then exit_with st_buffer_small else ret tt) ;;;
  (if b_alias b then ret tt else (h <- rd_src 0 enc_start ;; wr_dst 0 h)) ;;;
  (if inplace then cryptex_adjust pkt else ret tt) ;;;
  aad <- rd_src 0 enc_start ;;
  d <- rd_src enc_start enc_len ;;
  let '(s, o) := gcm_open (k_rtp_c k) tag_len iv aad d enc_len in
  (if negb (s =? st_ok) then exit_with s else wr_dst enc_start o) ;;;
  ret {| a_pkt := pkt; a_ssrc := ssrc; a_ref := r0; a_est := est; a_delta := delta; a_adv := adv;
         a_ki := ki; a_k := k; a_inuse := inuse; a_inplace := inplace; a_enc_start := enc_start; a_o := o |}.

(* the effects of an authentic packet *)
Definition unprotect_aead_post (u : apre) : M Z :=
  let pkt := a_pkt u in let k := a_k u in let r0 := a_ref u in
  let inuse := a_inuse u in let inplace := a_inplace u in
  charge_key r0 (a_ki u) ;;;
  st <- get_stream r0 ;;
  (if inuse then
     (if inplace then cryptex_restore pkt else ret tt) ;;;
     h <- rd_dst (hdr_len pkt) 2 ;;
     let profile := be16 h 0 in
     if profile =? cryptex_one_byte_profile_c then set_profile pkt xtn_hdr_one_byte_profile_c
     else if profile =? cryptex_two_byte_profile_c then set_profile pkt xtn_hdr_two_byte_profile_c
     else ret tt
   else ret tt) ;;;
  (match k_xtn_c k with
   | Some xk => if hdr_x pkt =? 1 then process_xtn st pkt (cipher_start xk (xtn_iv (a_ssrc u) (a_est u))) else ret tt
   | None => ret tt
   end) ;;;
  check_direction r0 dir_srtp_receiver_c ;;;
  r <- materialize r0 (a_ssrc u) ;;
  st2 <- get_stream r ;;
  (if a_adv u then put_stream r (commit_advance st2 (a_est u))
   else put_stream r (set_pending (set_rdbx st2 (rdbx_add (s_rdbx st2) (a_delta u))) 0)) ;;;
  ret (u64 (a_enc_start u + lenZ (a_o u))).

Theorem unprotect_aead_split : meq unprotect_aead (u <- unprotect_aead_pre ;; unprotect_aead_post u).
Proof.
  unfold unprotect_aead, unprotect_aead_pre.
  do 5 split_step.
  apply meq_step; intros [[est delta] adv]; cbv beta iota zeta.
  apply meq_step; intros [ki k]; cbv beta iota zeta.
  do 11 split_step.
  destruct (gcm_open _ _ _ _ _ _) as [s o].
  split_step.
  intros w. reflexivity.
Qed.

(* ===================================================================== *)
(* 2. the split of unprotect_rtcp_aead                                    *)
(* ===================================================================== *)
Record rapre := { ra_ssrc : Z; ra_ref : sref; ra_seq : Z; ra_out : Z }.

Definition unprotect_rtcp_aead_pre : M rapre :=
  b <- get_b ;;
  let len := b_len b in
  let pkt := take (zn len) (cur_src b) in
  (if len <? octets_in_rtcp_header_c + trailer_len then exit_with st_bad_param else ret tt) ;;;
  let ssrc := be32 pkt 4 in
  ss <- get_s ;;
  r0 <- (match list_get (ss_list ss) ssrc with
         | Some _ => ret (RList ssrc)
         | None => match ss_template ss with Some _ => ret RTemplate | None => exit_with st_no_ctx end
         end) ;;
  st <- get_stream r0 ;;
  let tag_len0 := match s_keys st with
                  | k0 :: _ => if is_gcm_alg (ck_alg (k_rtcp_c k0)) then 0 else ak_tag (k_rtcp_a k0)
                  | [] => 0 end in
  ik <- keys_by_packet st len tag_len0 ;;
  let '(ki, k) := ik in
  let tag_len := ak_tag (k_rtcp_a k) in
  (if len <? octets_in_rtcp_header_c + trailer_len + s_mki_size st + tag_len then exit_with st_bad_param else ret tt) ;;;
  let enc_start := octets_in_rtcp_header_c in
  let tr_off := len - trailer_len - s_mki_size st in
  tr <- rd_src tr_off 4 ;;
  let enc_len := len - (octets_in_rtcp_header_c + trailer_len + s_mki_size st) in
  let seq := Z.land (be32 tr 0) SRTCP_INDEX_MASK_c in
  check_st (rdb_check (s_rdb st) seq) ;;;
  let iv := aead_rtcp_iv (k_csalt k) ssrc seq in
  (if b_cap b <? u64 (len - trailer_len - s_mki_size st - tag_len) then exit_with st_buffer_small else ret tt) ;;;
  (if b_alias b then ret tt else (h <- rd_src 0 enc_start ;; wr_dst 0 h)) ;;;
  let e_bit := negb (N.land (nthb tr 0) (Z.to_N SRTCP_E_BYTE_BIT_c) =? 0)%N in
  (if e_bit then
     aad <- rd_src 0 octets_in_rtcp_header_c ;;
     d <- rd_src enc_start enc_len ;;
     let '(s, o) := gcm_open (k_rtcp_c k) tag_len iv (aad ++ tr) d enc_len in
     if negb (s =? st_ok) then exit_with s else wr_dst enc_start o
   else
     aad <- rd_src 0 (len - tag_len - trailer_len - s_mki_size st) ;;
     (if b_alias b then ret tt else (d <- rd_src enc_start (enc_len - tag_len) ;; wr_dst enc_start d)) ;;;
     t <- rd_src (len - tag_len - s_mki_size st - trailer_len) tag_len ;;
     let '(s, _) := gcm_open (k_rtcp_c k) tag_len iv (aad ++ tr) t 0 in
     if negb (s =? st_ok) then exit_with s else ret tt) ;;;
  ret {| ra_ssrc := ssrc; ra_ref := r0; ra_seq := seq;
         ra_out := u64 (len - (tag_len + trailer_len + s_mki_size st)) |}.

Definition unprotect_rtcp_aead_post (u : rapre) : M Z :=
  check_direction (ra_ref u) dir_srtp_receiver_c ;;;
  r <- materialize (ra_ref u) (ra_ssrc u) ;;
  st2 <- get_stream r ;;
  put_stream r (set_rdb st2 (snd (rdb_add (s_rdb st2) (ra_seq u)))) ;;;
  ret (ra_out u).

Theorem unprotect_rtcp_aead_split :
  meq unprotect_rtcp_aead (u <- unprotect_rtcp_aead_pre ;; unprotect_rtcp_aead_post u).
Proof.
  unfold unprotect_rtcp_aead, unprotect_rtcp_aead_pre.
  do 5 split_step.
  apply meq_step; intros [ki k]; cbv beta iota zeta.
  do 6 split_step.
  intros w. reflexivity.
Qed.

(* ===================================================================== *)
(* 3. the pre phases never write the session, the heap or the event log   *)
(* ===================================================================== *)
Lemma sp_cryptex_adjust pkt : sess_pres (cryptex_adjust pkt).
Proof. unfold cryptex_adjust. sp_auto. Qed.

Lemma sp_unprotect_aead_pre : sess_pres unprotect_aead_pre.
Proof.
  unfold unprotect_aead_pre.
  apply sp_bind; [apply sp_get_b|intros b].
  apply sp_bind; [apply sp_check_st|intros _].
  apply sp_bind; [apply sp_get_s|intros ss].
  apply sp_bind; [sp_auto|intros r0].
  apply sp_bind; [apply sp_get_stream|intros st].
  apply sp_bind.
  { destruct r0; [apply sp_ret|].
    destruct (est_index st (hdr_seq (take (zn (b_len b)) (cur_src b)))) as [[es e] d].
    sp_auto. }
  intros [[est delta] adv].
  apply sp_bind; [apply sp_keys_by_packet|intros [ki k]].
  apply sp_bind; [sp_auto|intros inuse].
  apply sp_bind; [sp_auto|intros xl].
  apply sp_bind; [sp_auto|intros _].
  apply sp_bind; [sp_auto|intros _].
  apply sp_bind; [sp_auto|intros _].
  apply sp_bind; [sp_auto|intros _].
  apply sp_bind; [sp_auto|intros _].
  apply sp_bind; [sp_auto|intros _].
  apply sp_bind; [apply sp_if; [apply sp_cryptex_adjust|apply sp_ret]|intros _].
  apply sp_bind; [apply sp_rd_src|intros aad].
  apply sp_bind; [apply sp_rd_src|intros d].
  destruct (gcm_open _ _ _ _ _ _) as [s o].
  sp_auto.
Qed.

Lemma sp_unprotect_rtcp_aead_pre : sess_pres unprotect_rtcp_aead_pre.
Proof.
  unfold unprotect_rtcp_aead_pre.
  apply sp_bind; [apply sp_get_b|intros b].
  apply sp_bind; [sp_auto|intros _].
  apply sp_bind; [apply sp_get_s|intros ss].
  apply sp_bind; [sp_auto|intros r0].
  apply sp_bind; [apply sp_get_stream|intros st].
  apply sp_bind; [apply sp_keys_by_packet|intros [ki k]].
  apply sp_bind; [sp_auto|intros _].
  apply sp_bind; [apply sp_rd_src|intros tr].
  apply sp_bind; [apply sp_check_st|intros _].
  apply sp_bind; [sp_auto|intros _].
  apply sp_bind; [sp_auto|intros _].
  apply sp_bind; [|intros _; apply sp_ret].
  apply sp_if.
  - apply sp_bind; [apply sp_rd_src|intros aad].
    apply sp_bind; [apply sp_rd_src|intros d].
    destruct (gcm_open _ _ _ _ _ _) as [s o]. sp_auto.
  - apply sp_bind; [apply sp_rd_src|intros aad].
    apply sp_bind; [sp_auto|intros _].
    apply sp_bind; [apply sp_rd_src|intros t].
    destruct (gcm_open _ _ _ _ _ _) as [s o]. sp_auto.
Qed.

(* ===================================================================== *)
(* 4. which statuses the post phases can exit with (generic in P)         *)
(* ===================================================================== *)
Ltac exg :=
  repeat (ex_step ||
          match goal with
          | |- exits_in (match ?x with _ => _ end) _ => destruct x
          | |- exits_in (exit_with _) _ => apply ex_exit; assumption
          | |- exits_in (get_stream _) _ => apply ex_get_stream; assumption
          end).

Section ExitsGeneric.
Variable P : Z -> Prop.

Lemma exg_limit_update r i : P st_fail -> exits_in (limit_update r i) P.
Proof. intros F. unfold limit_update. exg. Qed.
Lemma exg_charge_key r i : P st_fail -> P st_key_expired -> exits_in (charge_key r i) P.
Proof.
  intros F K. unfold charge_key. apply ex_bind; [apply exg_limit_update; exact F|intros e]. exg.
Qed.
Lemma exg_process_xtn st pkt xcs : P st_parse_err -> exits_in (process_xtn st pkt xcs) P.
Proof. intros F. unfold process_xtn. exg. Qed.
Lemma exg_cryptex_restore pkt : exits_in (cryptex_restore pkt) P.
Proof. unfold cryptex_restore. exg. Qed.
Lemma exg_set_profile pkt v : exits_in (set_profile pkt v) P.
Proof. unfold set_profile. exg. Qed.
Lemma exg_check_direction r want : P st_fail -> exits_in (check_direction r want) P.
Proof. intros F. unfold check_direction. exg. Qed.
Lemma exg_clone_mkis n : P st_init_fail -> forall o, exits_in (clone_mkis n o) P.
Proof. intros F. induction n as [|n IH]; intros o; cbn [clone_mkis]; [apply ex_ret|]. exg. apply IH. Qed.
(* srtp_stream_clone: bad_param only when the template's replay window has length 0 *)
Lemma exg_stream_clone t ssrc :
  P st_alloc_fail -> P st_init_fail -> (wlen (s_rdbx t) = 0 -> P st_bad_param) ->
  exits_in (stream_clone t ssrc) P.
Proof.
  intros F1 F2 F3. unfold stream_clone.
  apply ex_bind; [apply ex_alloc1|intros ok]. apply ex_if; [apply ex_exit; exact F1|].
  apply ex_bind; [apply ex_alloc1|intros ok2]. apply ex_if; [exg|].
  apply ex_bind; [apply exg_clone_mkis; exact F2|intros o].
  apply ex_bind; [apply ex_alloc1|intros ok3]. apply ex_if; [exg|].
  unfold rdbx_init. destruct (wlen (s_rdbx t) =? 0) eqn:E; [|apply ex_ret].
  apply Z.eqb_eq in E. specialize (F3 E). exg.
Qed.
Lemma exg_stream_dealloc s : exits_in (stream_dealloc s) P.
Proof. unfold stream_dealloc. exg. Qed.
Lemma exg_list_insert s : exits_in (list_insert s) P.
Proof. unfold list_insert. exg. Qed.
Lemma exg_insert_or_dealloc s : P st_alloc_fail -> exits_in (insert_or_dealloc s) P.
Proof.
  intros F w w' st H. unfold insert_or_dealloc in H.
  apply bind_inv in H. destruct H as [(r & w1 & H1 & H2)|(s0 & H1 & E0)].
  2: { injection E0 as ->. exact (exg_list_insert s _ _ _ H1). }
  destruct (list_insert_value _ _ _ _ H1) as [->| ->].
  - cbn in H2. discriminate.
  - change (st_alloc_fail =? st_ok) with false in H2.
    apply bind_inv in H2. destruct H2 as [(u & w2 & _ & H3)|(s1 & H3 & E3)].
    + unfold exit_with in H3. injection H3 as _ <-. exact F.
    + injection E3 as ->. exact (exg_stream_dealloc s _ _ _ H3).
Qed.
End ExitsGeneric.

(* unconditional: what materialize can exit with, whatever the template looks like *)
Lemma exg_materialize (P : Z -> Prop) r ssrc :
  P st_fail -> P st_alloc_fail -> P st_init_fail -> P st_bad_param -> exits_in (materialize r ssrc) P.
Proof.
  intros F1 F2 F3 F4. unfold materialize. destruct r; [|apply ex_ret].
  apply ex_bind; [apply ex_get_stream; exact F1|intros t].
  apply ex_bind; [apply exg_stream_clone; auto|intros ns].
  apply ex_bind; [apply exg_insert_or_dealloc; exact F2|intros _]. apply ex_ret.
Qed.

(* statuses the post-authentication phase of unprotect_aead can exit with; parse_err there is the
   refusal of srtp_process_header_encryption (RFC 6904) on the decrypted packet, which needs a
   packet with an extension header and a key with a header-extension cipher *)
Definition aead_post_status (u : apre) (st : Z) : Prop :=
  st = st_key_expired \/ st = st_fail \/
  (st = st_parse_err /\ hdr_x (a_pkt u) = 1 /\ k_xtn_c (a_k u) <> None) \/
  st = st_alloc_fail \/ st = st_init_fail \/ st = st_bad_param.
(* ... of unprotect_rtcp_aead (no key budget on the SRTCP side, no header extensions) *)
Definition rtcp_aead_post_status (st : Z) : Prop :=
  st = st_fail \/ st = st_alloc_fail \/ st = st_init_fail \/ st = st_bad_param.

Lemma ex_unprotect_aead_post u : exits_in (unprotect_aead_post u) (aead_post_status u).
Proof.
  assert (F1 : aead_post_status u st_fail) by (unfold aead_post_status; tauto).
  assert (F2 : aead_post_status u st_key_expired) by (unfold aead_post_status; tauto).
  assert (F4 : aead_post_status u st_alloc_fail) by (unfold aead_post_status; tauto).
  assert (F5 : aead_post_status u st_init_fail) by (unfold aead_post_status; tauto).
  assert (F6 : aead_post_status u st_bad_param) by (unfold aead_post_status; tauto).
  unfold unprotect_aead_post. cbv zeta.
  apply ex_bind; [apply exg_charge_key; assumption|intros _].
  apply ex_bind; [apply ex_get_stream; exact F1|intros st].
  apply ex_bind.
  { apply ex_if; [|apply ex_ret].
    apply ex_bind; [apply ex_if; [apply exg_cryptex_restore|apply ex_ret]|intros _].
    apply ex_bind; [apply ex_rd_dst|intros h].
    apply ex_if; [apply exg_set_profile|]. apply ex_if; [apply exg_set_profile|apply ex_ret]. }
  intros _.
  apply ex_bind.
  { destruct (k_xtn_c (a_k u)) eqn:EK; [|apply ex_ret].
    destruct (hdr_x (a_pkt u) =? 1) eqn:EX; [|apply ex_ret].
    apply exg_process_xtn. right; right; left. split; [reflexivity|]. split; [apply Z.eqb_eq; exact EX|rewrite EK; discriminate]. }
  intros _.
  apply ex_bind; [apply exg_check_direction; exact F1|intros _].
  apply ex_bind; [apply exg_materialize; assumption|intros r].
  apply ex_bind; [apply ex_get_stream; exact F1|intros st2].
  apply ex_bind; [apply ex_if; apply ex_put_stream|intros _].
  apply ex_ret.
Qed.

Lemma ex_unprotect_rtcp_aead_post u : exits_in (unprotect_rtcp_aead_post u) rtcp_aead_post_status.
Proof.
  assert (F1 : rtcp_aead_post_status st_fail) by (unfold rtcp_aead_post_status; tauto).
  assert (F4 : rtcp_aead_post_status st_alloc_fail) by (unfold rtcp_aead_post_status; tauto).
  assert (F5 : rtcp_aead_post_status st_init_fail) by (unfold rtcp_aead_post_status; tauto).
  assert (F6 : rtcp_aead_post_status st_bad_param) by (unfold rtcp_aead_post_status; tauto).
  unfold unprotect_rtcp_aead_post.
  apply ex_bind; [apply exg_check_direction; exact F1|intros _].
  apply ex_bind; [apply exg_materialize; assumption|intros r].
  apply ex_bind; [apply ex_get_stream; exact F1|intros st2].
  apply ex_bind; [apply ex_put_stream|intros _].
  apply ex_ret.
Qed.

(* ===================================================================== *)
(* 5. the same with the one fact about the session that rules out bad_param: the template's
      replay window is not empty (srtp_stream_init refuses a window of 0: rdbx_init)          *)
(* ===================================================================== *)
Definition tmpl_ok (s : session) : Prop := forall t, ss_template s = Some t -> wlen (s_rdbx t) <> 0.

Lemma tmpl_ok_eq s s' : ss_template s' = ss_template s -> tmpl_ok s -> tmpl_ok s'.
Proof. intros E H t Ht. apply H. rewrite <- E. exact Ht. Qed.

(* exits in P, and keeps tmpl_ok, from any world where tmpl_ok holds *)
Definition xi {A} (m : M A) (P : Z -> Prop) : Prop :=
  forall w w' r, tmpl_ok (w_s w) -> m w = (w', r) ->
    match r with inl _ => tmpl_ok (w_s w') | inr st => P st end.

Lemma xi_ret {A} (a : A) P : xi (ret a) P.
Proof. intros w w' r I H. unfold ret in H. injection H as <- <-. exact I. Qed.
Lemma xi_exit {A} st (P : Z -> Prop) : P st -> xi (@exit_with A st) P.
Proof. intros F w w' r I H. unfold exit_with in H. injection H as <- <-. exact F. Qed.
Lemma xi_bind {A B} (m : M A) (f : A -> M B) P : xi m P -> (forall a, xi (f a) P) -> xi (bind m f) P.
Proof.
  intros Hm Hf w w' r I H. apply bind_inv in H. destruct H as [(a & w1 & H1 & H2)|(s & H1 & ->)].
  - exact (Hf a w1 w' r (Hm w w1 (inl a) I H1) H2).
  - exact (Hm w w' (inr s) I H1).
Qed.
Lemma xi_if {A} (c : bool) (m1 m2 : M A) P : xi m1 P -> xi m2 P -> xi (if c then m1 else m2) P.
Proof. destruct c; auto. Qed.
Lemma xi_sp {A} (m : M A) P : sess_pres m -> exits_in m P -> xi m P.
Proof.
  intros S E w w' r I H. pose proof (S w) as S1. rewrite H in S1. destruct S1 as (S1 & _).
  destruct r as [a|st]; [rewrite S1; exact I|exact (E w w' st H)].
Qed.
Lemma xi_sb {A} (m : M A) P : sb_pres m -> exits_in m P -> xi m P.
Proof.
  intros S E w w' r I H. pose proof (S w) as S1. rewrite H in S1. destruct S1 as (S1 & _). cbn [fst] in S1.
  destruct r as [a|st]; [rewrite S1; exact I|exact (E w w' st H)].
Qed.
Lemma xi_emit e s P : xi (emit e s) P.
Proof. intros w w' r I H. unfold emit in H. injection H as <- <-. exact I. Qed.

Lemma get_stream_inv r w w1 st :
  get_stream r w = (w1, inl st) ->
  w1 = w /\ match r with
            | RTemplate => ss_template (w_s w) = Some st
            | RList x => list_get (ss_list (w_s w)) x = Some st
            end.
Proof.
  unfold get_stream, bind, get_s. destruct r.
  - destruct (ss_template (w_s w)); cbn; intros H; [injection H as <- <-; auto|discriminate].
  - destruct (list_get (ss_list (w_s w)) ssrc); cbn; intros H; [injection H as <- <-; auto|discriminate].
Qed.

Lemma xi_get_stream_bind {B} r (f : stream -> M B) (P : Z -> Prop) :
  P st_fail -> (forall st, (r = RTemplate -> wlen (s_rdbx st) <> 0) -> xi (f st) P) ->
  xi (bind (get_stream r) f) P.
Proof.
  intros F H w w' res I E. apply bind_inv in E. destruct E as [(st & w1 & H1 & H2)|(s & H1 & ->)].
  - apply get_stream_inv in H1. destruct H1 as (-> & H1).
    refine (H st _ w w' res I H2). intros ->. exact (I st H1).
  - exact (ex_get_stream r P F w w' s H1).
Qed.

Lemma xi_put_stream r n P : (r = RTemplate -> wlen (s_rdbx n) <> 0) -> xi (put_stream r n) P.
Proof.
  intros Hn w w' res I H. unfold put_stream, bind, get_s, put_s in H. destruct r.
  - injection H as <- <-. intros t E. cbn in E. injection E as <-. exact (Hn eq_refl).
  - injection H as <- <-. intros t E. cbn in E. exact (I t E).
Qed.

Lemma xi_limit_update r i (P : Z -> Prop) : P st_fail -> xi (limit_update r i) P.
Proof.
  intros F. unfold limit_update. apply xi_get_stream_bind; [exact F|intros st Hst].
  destruct (s_clone st).
  - apply xi_get_stream_bind; [exact F|intros t Ht].
    destruct (nth_error (s_limits t) (zn i)) as [k|]; [|apply xi_exit; exact F].
    destruct (kl_update k) as [k' e].
    apply xi_bind; [apply xi_put_stream; intros _; exact (Ht eq_refl)|intros _; apply xi_ret].
  - destruct (nth_error (s_limits st) (zn i)) as [k|]; [|apply xi_exit; exact F].
    destruct (kl_update k) as [k' e].
    apply xi_bind; [apply xi_put_stream; exact Hst|intros _; apply xi_ret].
Qed.

Lemma xi_charge_key r i (P : Z -> Prop) : P st_fail -> P st_key_expired -> xi (charge_key r i) P.
Proof.
  intros F K. unfold charge_key. apply xi_bind; [apply xi_limit_update; exact F|intros e].
  apply xi_bind; [apply xi_sp; [apply sp_get_stream|apply ex_get_stream; exact F]|intros st].
  destruct e; [apply xi_ret|apply xi_emit|].
  apply xi_bind; [apply xi_emit|intros _; apply xi_exit; exact K].
Qed.

Lemma xi_check_direction r want (P : Z -> Prop) : P st_fail -> xi (check_direction r want) P.
Proof.
  intros F. unfold check_direction. apply xi_get_stream_bind; [exact F|intros st Hst].
  apply xi_if; [apply xi_ret|]. apply xi_if; [apply xi_put_stream; exact Hst|apply xi_emit].
Qed.

Lemma list_insert_tmpl s w w' r : list_insert s w = (w', r) -> ss_template (w_s w') = ss_template (w_s w).
Proof.
  unfold list_insert, bind, get_s. destruct (lenZ (ss_list (w_s w)) =? ss_cap (w_s w)).
  - unfold alloc1, bind, get_h, put_h, ret, free_n, put_s.
    destruct ((0 <? h_fail (w_h w)) && (h_fail (w_h w) =? 1)); cbn; intros H; injection H as <- _; reflexivity.
  - cbn. intros H; injection H as <- _; reflexivity.
Qed.

Lemma xi_insert_or_dealloc s (P : Z -> Prop) : P st_alloc_fail -> xi (insert_or_dealloc s) P.
Proof.
  intros F w w' r I H. destruct r as [a|st]; [|exact (exg_insert_or_dealloc P s F w w' st H)].
  unfold insert_or_dealloc in H. apply bind_inv in H. destruct H as [(c & w1 & H1 & H2)|(s0 & _ & E0)]; [|discriminate].
  apply list_insert_tmpl in H1. destruct (c =? st_ok).
  - unfold ret in H2. injection H2 as <- _. exact (tmpl_ok_eq _ _ H1 I).
  - apply bind_inv in H2. destruct H2 as [(x & w2 & _ & H3)|(s1 & _ & E1)]; [|discriminate].
    unfold exit_with in H3. discriminate.
Qed.

Lemma xi_materialize r ssrc (P : Z -> Prop) :
  P st_fail -> P st_alloc_fail -> P st_init_fail -> xi (materialize r ssrc) P.
Proof.
  intros F1 F2 F3. unfold materialize. destruct r; [|apply xi_ret].
  apply xi_get_stream_bind; [exact F1|intros t Ht].
  apply xi_bind.
  { apply xi_sb; [apply sb_stream_clone|].
    apply exg_stream_clone; [exact F2|exact F3|]. intros E. exfalso. exact (Ht eq_refl E). }
  intros ns. apply xi_bind; [apply xi_insert_or_dealloc; exact F2|intros _; apply xi_ret].
Qed.

Definition aead_post_status_wf (u : apre) (st : Z) : Prop :=
  st = st_key_expired \/ st = st_fail \/
  (st = st_parse_err /\ hdr_x (a_pkt u) = 1 /\ k_xtn_c (a_k u) <> None) \/
  st = st_alloc_fail \/ st = st_init_fail.
Definition rtcp_aead_post_status_wf (st : Z) : Prop :=
  st = st_fail \/ st = st_alloc_fail \/ st = st_init_fail.

(* the weaker form for the tail of a computation: only the exits matter *)
Definition xe {A} (m : M A) (P : Z -> Prop) : Prop :=
  forall w w' st, tmpl_ok (w_s w) -> m w = (w', inr st) -> P st.
Lemma xe_bind {A B} (m : M A) (f : A -> M B) P : xi m P -> (forall a, xe (f a) P) -> xe (bind m f) P.
Proof.
  intros Hm Hf w w' st I H. apply bind_inv in H. destruct H as [(a & w1 & H1 & H2)|(s & H1 & E)].
  - exact (Hf a w1 w' st (Hm w w1 (inl a) I H1) H2).
  - injection E as ->. exact (Hm w w' (inr s) I H1).
Qed.
Lemma xe_ex {A} (m : M A) P : exits_in m P -> xe m P.
Proof. intros E w w' st _ H. exact (E w w' st H). Qed.

Lemma xe_unprotect_aead_post u : xe (unprotect_aead_post u) (aead_post_status_wf u).
Proof.
  assert (F1 : aead_post_status_wf u st_fail) by (unfold aead_post_status_wf; tauto).
  assert (F2 : aead_post_status_wf u st_key_expired) by (unfold aead_post_status_wf; tauto).
  assert (F4 : aead_post_status_wf u st_alloc_fail) by (unfold aead_post_status_wf; tauto).
  assert (F5 : aead_post_status_wf u st_init_fail) by (unfold aead_post_status_wf; tauto).
  unfold unprotect_aead_post. cbv zeta.
  apply xe_bind; [apply xi_charge_key; assumption|intros _].
  apply xe_bind; [apply xi_sp; [apply sp_get_stream|apply ex_get_stream; exact F1]|intros st].
  apply xe_bind.
  { apply xi_sp.
    - unfold cryptex_restore, set_profile. sp_auto.
    - apply ex_if; [|apply ex_ret].
      apply ex_bind; [apply ex_if; [apply exg_cryptex_restore|apply ex_ret]|intros _].
      apply ex_bind; [apply ex_rd_dst|intros h].
      apply ex_if; [apply exg_set_profile|]. apply ex_if; [apply exg_set_profile|apply ex_ret]. }
  intros _.
  apply xe_bind.
  { destruct (k_xtn_c (a_k u)) eqn:EK; [|apply xi_ret].
    destruct (hdr_x (a_pkt u) =? 1) eqn:EX; [|apply xi_ret].
    apply xi_sp; [unfold process_xtn; sp_auto|].
    apply exg_process_xtn. right; right; left. split; [reflexivity|]. split; [apply Z.eqb_eq; exact EX|rewrite EK; discriminate]. }
  intros _.
  apply xe_bind; [apply xi_check_direction; exact F1|intros _].
  apply xe_bind; [apply xi_materialize; assumption|intros r].
  apply xe_ex.
  apply ex_bind; [apply ex_get_stream; exact F1|intros st2].
  apply ex_bind; [apply ex_if; apply ex_put_stream|intros _].
  apply ex_ret.
Qed.

Lemma xe_unprotect_rtcp_aead_post u : xe (unprotect_rtcp_aead_post u) rtcp_aead_post_status_wf.
Proof.
  assert (F1 : rtcp_aead_post_status_wf st_fail) by (unfold rtcp_aead_post_status_wf; tauto).
  assert (F4 : rtcp_aead_post_status_wf st_alloc_fail) by (unfold rtcp_aead_post_status_wf; tauto).
  assert (F5 : rtcp_aead_post_status_wf st_init_fail) by (unfold rtcp_aead_post_status_wf; tauto).
  unfold unprotect_rtcp_aead_post.
  apply xe_bind; [apply xi_check_direction; exact F1|intros _].
  apply xe_bind; [apply xi_materialize; assumption|intros r].
  apply xe_ex.
  apply ex_bind; [apply ex_get_stream; exact F1|intros st2].
  apply ex_bind; [apply ex_put_stream|intros _].
  apply ex_ret.
Qed.

(* ===================================================================== *)
(* 6. what a normal return of the pre phase means: gcm_open accepted the packet *)
(* ===================================================================== *)
Lemma unprotect_aead_pre_ok w w1 u :
  unprotect_aead_pre w = (w1, inl u) ->
  a_pkt u = take (zn (b_len (w_b w))) (cur_src (w_b w)) /\
  exists iv aad d room,
    gcm_open (k_rtp_c (a_k u)) (ak_tag (k_rtp_a (a_k u))) iv aad d room = (st_ok, a_o u).
Proof.
  intros H. unfold unprotect_aead_pre in H. unfold bind at 1, get_b at 1 in H.
  remember (w_b w) as b eqn:Eb. clear Eb. revert w w1 u H. cbv zeta.
  match goal with |- forall w w1 u, ?m w = (w1, inl u) -> @?F u => change (returns m F) end.
  do 4 (apply r_bind; intros ?).
  apply r_bind; intros [[est delta] adv].
  apply r_bind; intros [ki k].
  do 11 (apply r_bind; intros ?).
  destruct (gcm_open _ _ _ _ _ _) as [s o] eqn:G.
  destruct (s =? st_ok) eqn:ES; cbn [negb]; [|apply r_bind_exit].
  apply Z.eqb_eq in ES. subst s.
  apply r_bind; intros _. apply r_ret. cbn [a_pkt a_k a_o].
  split; [reflexivity|]. eexists. eexists. eexists. eexists. exact G.
Qed.

(* ===================================================================== *)
(* 7. C13 for srtp_unprotect with a GCM key                               *)
(* ===================================================================== *)
Definition noop (w w' : world) : Prop := w_s w' = w_s w /\ w_h w' = w_h w /\ w_ev w' = w_ev w.

(* every exit of the call is either taken in the pre phase (up to and including the tag check:
   nothing but the output buffer has been written) or after gcm_open accepted the packet, and then
   with one of the statuses of aead_post_status *)
Theorem unprotect_aead_exit_cases w w' st :
  unprotect_aead w = (w', inr st) ->
  (unprotect_aead_pre w = (w', inr st) /\ noop w w') \/
  (exists u w1 iv aad d room,
      unprotect_aead_pre w = (w1, inl u) /\ noop w w1 /\
      gcm_open (k_rtp_c (a_k u)) (ak_tag (k_rtp_a (a_k u))) iv aad d room = (st_ok, a_o u) /\
      a_pkt u = take (zn (b_len (w_b w))) (cur_src (w_b w)) /\
      unprotect_aead_post u w1 = (w', inr st) /\ aead_post_status u st /\
      (tmpl_ok (w_s w) -> st <> st_bad_param)).
Proof.
  intros H. rewrite unprotect_aead_split in H. apply bind_inv in H.
  pose proof (sp_unprotect_aead_pre w) as S.
  destruct H as [(u & w1 & H1 & H2)|(s & H1 & E)].
  - right. rewrite H1 in S. destruct (unprotect_aead_pre_ok _ _ _ H1) as (EP & iv & aad & d & room & G).
    exists u, w1, iv, aad, d, room. repeat split; try (apply S); try assumption.
    + exact (ex_unprotect_aead_post u _ _ _ H2).
    + intros T. assert (T1 : tmpl_ok (w_s w1)) by (destruct S as (S1 & _); rewrite S1; exact T).
      pose proof (xe_unprotect_aead_post u w1 w' st T1 H2) as X.
      unfold aead_post_status_wf, st_key_expired, st_fail, st_parse_err, st_alloc_fail, st_init_fail in X.
      unfold st_bad_param. lia.
  - injection E as <-. left. rewrite H1 in S. split; [exact H1|exact S].
Qed.

(* the statuses of the property's list that the post phase cannot produce *)
Definition aead_rejected (st : Z) : Prop :=
  st = st_no_ctx \/ st = st_bad_mki \/ st = st_auth_fail \/ st = st_replay_fail \/
  st = st_replay_old \/ st = st_pkt_idx_old \/ st = st_cant_check \/ st = st_cipher_fail \/
  st = st_buffer_small \/ st = st_cryptex_err.

(* which statuses CAN come with a changed session: only those of the post phase *)
Theorem unprotect_aead_changed_status w w' st :
  unprotect_aead w = (w', inr st) -> ~ noop w w' ->
  st = st_key_expired \/ st = st_fail \/ st = st_parse_err \/
  st = st_alloc_fail \/ st = st_init_fail \/ (st = st_bad_param /\ ~ tmpl_ok (w_s w)).
Proof.
  intros H N. destruct (unprotect_aead_exit_cases _ _ _ H) as [(_ & S)|(u & w1 & iv & aad & d & room & _ & _ & _ & _ & _ & PS & T)].
  - contradiction.
  - unfold aead_post_status in PS. destruct PS as [E|[E|[(E & _)|[E|[E|E]]]]]; tauto.
Qed.

Theorem unprotect_aead_reject_noop_partial w w' st :
  unprotect_aead w = (w', inr st) -> aead_rejected st ->
  w_s w' = w_s w /\ w_h w' = w_h w /\ w_ev w' = w_ev w.
Proof.
  intros H R. destruct (unprotect_aead_exit_cases _ _ _ H) as [(_ & S)|(u & w1 & iv & aad & d & room & _ & _ & _ & _ & _ & PS & _)].
  - exact S.
  - exfalso. unfold aead_post_status in PS.
    unfold aead_rejected, st_no_ctx, st_bad_mki, st_auth_fail, st_replay_fail, st_replay_old,
      st_pkt_idx_old, st_cant_check, st_cipher_fail, st_buffer_small, st_cryptex_err in R.
    unfold st_key_expired, st_fail, st_parse_err, st_alloc_fail, st_init_fail, st_bad_param in PS. lia.
Qed.

(* bad_param (malformed header) is a no-op too on every session whose template has a replay window *)
Theorem unprotect_aead_bad_param_noop w w' :
  tmpl_ok (w_s w) -> unprotect_aead w = (w', inr st_bad_param) ->
  w_s w' = w_s w /\ w_h w' = w_h w /\ w_ev w' = w_ev w.
Proof.
  intros T H. destruct (unprotect_aead_exit_cases _ _ _ H) as [(_ & S)|(u & w1 & iv & aad & d & room & _ & _ & _ & _ & _ & _ & X)].
  - exact S.
  - exfalso. exact (X T eq_refl).
Qed.

(* parse_err is a no-op when it is the pre-authentication length check that refuses the packet; in
   particular for every packet without an extension header *)
Theorem unprotect_aead_parse_err_noop w w' :
  hdr_x (take (zn (b_len (w_b w))) (cur_src (w_b w))) <> 1 ->
  unprotect_aead w = (w', inr st_parse_err) ->
  w_s w' = w_s w /\ w_h w' = w_h w /\ w_ev w' = w_ev w.
Proof.
  intros X H. destruct (unprotect_aead_exit_cases _ _ _ H) as [(_ & S)|(u & w1 & iv & aad & d & room & _ & _ & _ & EP & _ & PS & _)].
  - exact S.
  - exfalso. unfold aead_post_status in PS. rewrite EP in PS.
    unfold st_key_expired, st_fail, st_parse_err, st_alloc_fail, st_init_fail, st_bad_param in PS.
    destruct PS as [E|[E|[(_ & E & _)|[E|[E|E]]]]]; lia.
Qed.

(* the property's full list, under the two side conditions *)
Definition c13_rejected (st : Z) : Prop :=
  st = st_bad_param \/ st = st_no_ctx \/ st = st_bad_mki \/ st = st_auth_fail \/ st = st_replay_fail \/
  st = st_replay_old \/ st = st_pkt_idx_old \/ st = st_parse_err \/ st = st_cipher_fail \/
  st = st_buffer_small \/ st = st_cryptex_err.

Theorem unprotect_aead_reject_noop w w' st :
  tmpl_ok (w_s w) ->
  hdr_x (take (zn (b_len (w_b w))) (cur_src (w_b w))) <> 1 ->
  unprotect_aead w = (w', inr st) -> c13_rejected st ->
  w_s w' = w_s w /\ w_h w' = w_h w /\ w_ev w' = w_ev w.
Proof.
  intros T X H R. unfold c13_rejected in R.
  destruct R as [->|R]; [exact (unprotect_aead_bad_param_noop _ _ T H)|].
  destruct R as [R|[R|[R|[R|[R|[R|[->|R]]]]]]];
    try (apply (unprotect_aead_reject_noop_partial _ _ _ H); unfold aead_rejected; tauto).
  exact (unprotect_aead_parse_err_noop _ _ X H).
Qed.

(* malformed input: refused before anything is looked at, buffers included *)
Theorem unprotect_aead_malformed w :
  let b := w_b w in
  validate_rtp (take (zn (b_len b)) (cur_src b)) (b_len b) <> st_ok ->
  unprotect_aead w = (w, inr (validate_rtp (take (zn (b_len b)) (cur_src b)) (b_len b))).
Proof.
  intros b H. unfold unprotect_aead, bind, get_b. fold b.
  unfold check_st. destruct (validate_rtp _ _ =? st_ok) eqn:E; [apply Z.eqb_eq in E; contradiction|].
  reflexivity.
Qed.

(* ===================================================================== *)
(* 8. C13 for srtp_unprotect_rtcp with a GCM key                          *)
(* ===================================================================== *)
Theorem unprotect_rtcp_aead_exit_cases w w' st :
  unprotect_rtcp_aead w = (w', inr st) ->
  (unprotect_rtcp_aead_pre w = (w', inr st) /\ noop w w') \/
  (exists u w1,
      unprotect_rtcp_aead_pre w = (w1, inl u) /\ noop w w1 /\
      unprotect_rtcp_aead_post u w1 = (w', inr st) /\ rtcp_aead_post_status st /\
      (tmpl_ok (w_s w) -> st <> st_bad_param)).
Proof.
  intros H. rewrite unprotect_rtcp_aead_split in H. apply bind_inv in H.
  pose proof (sp_unprotect_rtcp_aead_pre w) as S.
  destruct H as [(u & w1 & H1 & H2)|(s & H1 & E)].
  - right. rewrite H1 in S. exists u, w1. repeat split; try (apply S); try assumption.
    + exact (ex_unprotect_rtcp_aead_post u _ _ _ H2).
    + intros T. assert (T1 : tmpl_ok (w_s w1)) by (destruct S as (S1 & _); rewrite S1; exact T).
      pose proof (xe_unprotect_rtcp_aead_post u w1 w' st T1 H2) as X.
      unfold rtcp_aead_post_status_wf, st_fail, st_alloc_fail, st_init_fail in X.
      unfold st_bad_param. lia.
  - injection E as <-. left. rewrite H1 in S. split; [exact H1|exact S].
Qed.

Theorem unprotect_rtcp_aead_changed_status w w' st :
  unprotect_rtcp_aead w = (w', inr st) -> ~ noop w w' ->
  st = st_fail \/ st = st_alloc_fail \/ st = st_init_fail \/ (st = st_bad_param /\ ~ tmpl_ok (w_s w)).
Proof.
  intros H N. destruct (unprotect_rtcp_aead_exit_cases _ _ _ H) as [(_ & S)|(u & w1 & _ & _ & _ & PS & T)].
  - contradiction.
  - unfold rtcp_aead_post_status in PS. destruct PS as [E|[E|[E|E]]]; tauto.
Qed.

(* unconditional: every status of the list except bad_param (and parse_err / cant_check as well) *)
Definition rtcp_aead_rejected (st : Z) : Prop := aead_rejected st \/ st = st_parse_err.

Theorem unprotect_rtcp_aead_reject_noop_partial w w' st :
  unprotect_rtcp_aead w = (w', inr st) -> rtcp_aead_rejected st ->
  w_s w' = w_s w /\ w_h w' = w_h w /\ w_ev w' = w_ev w.
Proof.
  intros H R. destruct (unprotect_rtcp_aead_exit_cases _ _ _ H) as [(_ & S)|(u & w1 & _ & _ & _ & PS & _)].
  - exact S.
  - exfalso. unfold rtcp_aead_post_status in PS.
    unfold rtcp_aead_rejected, aead_rejected, st_no_ctx, st_bad_mki, st_auth_fail, st_replay_fail, st_replay_old,
      st_pkt_idx_old, st_cant_check, st_cipher_fail, st_buffer_small, st_cryptex_err, st_parse_err in R.
    unfold st_fail, st_alloc_fail, st_init_fail, st_bad_param in PS. lia.
Qed.

(* the property's full list on every session whose template has a replay window *)
Theorem unprotect_rtcp_aead_reject_noop w w' st :
  tmpl_ok (w_s w) ->
  unprotect_rtcp_aead w = (w', inr st) -> c13_rejected st ->
  w_s w' = w_s w /\ w_h w' = w_h w /\ w_ev w' = w_ev w.
Proof.
  intros T H R. destruct (unprotect_rtcp_aead_exit_cases _ _ _ H) as [(_ & S)|(u & w1 & _ & _ & _ & PS & X)].
  - exact S.
  - exfalso. specialize (X T). unfold rtcp_aead_post_status in PS.
    unfold c13_rejected, st_no_ctx, st_bad_mki, st_auth_fail, st_replay_fail, st_replay_old,
      st_pkt_idx_old, st_cipher_fail, st_buffer_small, st_cryptex_err, st_parse_err in R.
    unfold st_fail, st_alloc_fail, st_init_fail, st_bad_param in *. lia.
Qed.

Theorem unprotect_rtcp_aead_short w :
  b_len (w_b w) < octets_in_rtcp_header_c + trailer_len ->
  unprotect_rtcp_aead w = (w, inr st_bad_param).
Proof.
  intros H. unfold unprotect_rtcp_aead, bind, get_b.
  replace (b_len (w_b w) <? octets_in_rtcp_header_c + trailer_len) with true by (symmetry; apply Z.ltb_lt; exact H).
  reflexivity.
Qed.

(* ===================================================================== *)
(* 9. the two side conditions are necessary: witnesses                    *)
(* ===================================================================== *)
(* streams with an AES-GCM-128 key (16-octet tag), an AES-ICM-128 header-extension cipher and
   enc_xtn_hdr = {1}, built directly as records *)
Module AeadWitness.
Definition gk (a : nat) : ckey :=
  {| ck_alg := SRTP_AES_GCM_128_c; ck_klen := 28; ck_rks := aes_key_expand (map N.of_nat (seq a 16)); ck_salt := [] |}.
Definition xk : ckey :=
  {| ck_alg := SRTP_AES_ICM_128_c; ck_klen := 30; ck_rks := aes_key_expand (map N.of_nat (seq 50 16));
     ck_salt := map N.of_nat (seq 70 14) |}.
Definition na : akey := {| ak_kind := SRTP_NULL_AUTH_c; ak_key := []; ak_klen := 0; ak_tag := 16; ak_prefix := 16 |}.
Definition keys : skeys :=
  {| k_rtp_c := gk 1; k_rtp_a := na; k_xtn_c := Some xk; k_rtcp_c := gk 21; k_rtcp_a := na;
     k_salt := map N.of_nat (seq 100 12); k_csalt := map N.of_nat (seq 120 12); k_mki := [] |}.
Definition ssrc : Z := 3405691582.
Definition strm (window dir : Z) : stream :=
  {| s_ssrc := ssrc; s_clone := false; s_keys := [keys]; s_limits := [mk_limit];
     s_rdbx := {| index := 0; wlen := window; mask := 0%N |}; s_rdb := rdb_init;
     s_pending_roc := 0; s_dir := dir; s_rtp_serv := 3; s_rtcp_serv := 3;
     s_use_mki := false; s_mki_size := 0; s_allow_repeat := false; s_cryptex := false; s_enc_xtn := [1%N] |}.
Definition h0 : heap := {| h_live := 0; h_att := 0; h_fail := 0; h_frees := 0; h_dirty := 0 |}.
Definition mkw (s : session) (p : bytes) : world :=
  {| w_s := s;
     w_b := {| b_src := []; b_dst := p ++ repeat 170%N 32; b_alias := true; b_len := lenZ p; b_cap := lenZ p + 32; b_oob := false |};
     w_ev := []; w_iv := []; w_h := h0 |}.

(* RTP: V=2, X=1, CC=0, seq 1, SSRC CAFEBABE; extension header with profile 0x1234 and no element *)
Definition hdr : bytes := [144;96;0;1; 0;0;0;9; 202;254;186;190; 18;52;0;0]%N.
Definition payload : bytes := [1;2;3;4;5]%N.
Definition pkt : bytes :=
  hdr ++ snd (gcm_seal (gk 1) 16 (aead_rtp_iv (k_salt keys) ssrc 1) hdr payload 64).
Definition sess : session := {| ss_template := None; ss_list := [strm 128 dir_srtp_receiver_c]; ss_cap := 2 |}.
Definition wit : world := mkw sess pkt.
Definition budget (w : world) : list Z :=
  map (fun st => match s_limits st with k :: _ => num_left k | [] => -1 end) (ss_list (w_s w)).

(* RTCP: RR, SSRC CAFEBABE, 4 octets of report, E bit set, index 1; the session has only a template
   whose replay window has length 0 (srtp_stream_init never builds one) *)
Definition chdr : bytes := [128;201;0;1; 202;254;186;190]%N.
Definition ctr : bytes := [128;0;0;1]%N.
Definition cpkt : bytes :=
  chdr ++ snd (gcm_seal (gk 21) 16 (aead_rtcp_iv (k_csalt keys) ssrc 1) (chdr ++ ctr) [9;8;7;6]%N 64) ++ ctr.
Definition sess0 : session := {| ss_template := Some (strm 0 dir_unknown_c); ss_list := []; ss_cap := 2 |}.
Definition cwit : world := mkw sess0 cpkt.
End AeadWitness.

(* 9a. parse_err AFTER authentication.  An authentic packet (sealed under the stream's own key)
   whose extension header carries a profile that srtp_process_header_encryption does not know
   (0x1234): gcm_open accepts it, the key budget is charged (srtp_key_limit_update), then the
   RFC 6904 step refuses the packet with parse_err.  The session is well-formed, the stream is an
   explicit receiver stream, nothing is out of bounds; the key's num_left has gone down by one. *)
Example unprotect_aead_parse_err_witness :
  session_wf (w_s AeadWitness.wit) /\ tmpl_ok (w_s AeadWitness.wit) /\
  snd (unprotect_aead AeadWitness.wit) = inr st_parse_err /\
  AeadWitness.budget AeadWitness.wit = [key_limit_init_c] /\
  AeadWitness.budget (fst (unprotect_aead AeadWitness.wit)) = [key_limit_init_c - 1] /\
  b_oob (w_b (fst (unprotect_aead AeadWitness.wit))) = false.
Proof.
  split.
  { unfold session_wf, session_all. split; [intros t E; discriminate|].
    repeat constructor; cbn; try lia; try reflexivity; unfold SRTP_MAX_MKI_LEN_c, SRTP_MAX_TAG_LEN_c; lia. }
  split; [intros t E; discriminate|].
  repeat split; vm_compute; reflexivity.
Qed.

Theorem unprotect_aead_reject_noop_refuted :
  ~ (forall w w' st, unprotect_aead w = (w', inr st) -> c13_rejected st ->
       w_s w' = w_s w /\ w_h w' = w_h w /\ w_ev w' = w_ev w).
Proof.
  intros H. destruct unprotect_aead_parse_err_witness as (_ & _ & R & B0 & B1 & _).
  destruct (unprotect_aead AeadWitness.wit) as [w' r] eqn:E. cbn [fst snd] in R, B1. subst r.
  destruct (H _ _ _ E) as (S & _); [unfold c13_rejected; tauto|].
  assert (B : AeadWitness.budget w' = AeadWitness.budget AeadWitness.wit) by (unfold AeadWitness.budget; rewrite S; reflexivity).
  rewrite B0, B1 in B. vm_compute in B. discriminate.
Qed.

(* 9b. bad_param AFTER authentication needs a template with an empty replay window, which
   srtp_stream_init never builds (rdbx_init refuses 0): an authentic SRTCP packet for a new SSRC sets
   the template's direction and runs three allocations before srtp_rdbx_init refuses the clone *)
Example unprotect_rtcp_aead_bad_param_witness :
  ~ tmpl_ok (w_s AeadWitness.cwit) /\
  snd (unprotect_rtcp_aead AeadWitness.cwit) = inr st_bad_param /\
  h_att (w_h AeadWitness.cwit) = 0 /\
  h_att (w_h (fst (unprotect_rtcp_aead AeadWitness.cwit))) = 3.
Proof.
  split; [intros T; exact (T _ eq_refl eq_refl)|].
  repeat split; vm_compute; reflexivity.
Qed.

Theorem unprotect_rtcp_aead_reject_noop_unconditional_refuted :
  ~ (forall w w' st, unprotect_rtcp_aead w = (w', inr st) -> c13_rejected st ->
       w_s w' = w_s w /\ w_h w' = w_h w /\ w_ev w' = w_ev w).
Proof.
  intros H. destruct unprotect_rtcp_aead_bad_param_witness as (_ & R & B0 & B1).
  destruct (unprotect_rtcp_aead AeadWitness.cwit) as [w' r] eqn:E. cbn [fst snd] in R, B1. subst r.
  destruct (H _ _ _ E) as (_ & S & _); [unfold c13_rejected; tauto|].
  rewrite S, B0 in B1. discriminate.
Qed.

Print Assumptions unprotect_aead_split.
Print Assumptions unprotect_rtcp_aead_split.
Print Assumptions sp_unprotect_aead_pre.
Print Assumptions sp_unprotect_rtcp_aead_pre.
Print Assumptions ex_unprotect_aead_post.
Print Assumptions ex_unprotect_rtcp_aead_post.
Print Assumptions unprotect_aead_pre_ok.
Print Assumptions unprotect_aead_exit_cases.
Print Assumptions unprotect_aead_changed_status.
Print Assumptions unprotect_aead_reject_noop_partial.
Print Assumptions unprotect_aead_bad_param_noop.
Print Assumptions unprotect_aead_parse_err_noop.
Print Assumptions unprotect_aead_reject_noop.
Print Assumptions unprotect_aead_malformed.
Print Assumptions unprotect_rtcp_aead_exit_cases.
Print Assumptions unprotect_rtcp_aead_changed_status.
Print Assumptions unprotect_rtcp_aead_reject_noop_partial.
Print Assumptions unprotect_rtcp_aead_reject_noop.
Print Assumptions unprotect_rtcp_aead_short.
Print Assumptions unprotect_aead_parse_err_witness.
Print Assumptions unprotect_aead_reject_noop_refuted.
Print Assumptions unprotect_rtcp_aead_bad_param_witness.
Print Assumptions unprotect_rtcp_aead_reject_noop_unconditional_refuted.
