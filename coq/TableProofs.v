(* TableProofs.v — C14: the session behaves as a map from SSRC to stream, with
   wildcard (template) fallback.  Also the "heap only" reasoning principle used
   for the allocation-heavy functions (stream_alloc / stream_init / stream_clone /
   build_stream): they never touch the session, the event log or the buffers. *)
From Coq Require Import NArith ZArith List Bool Lia.
From Srtp Require Import Util Constants KeyLimit Rdb Rdbx Icm World Stream Rtp Session MonadLemmas.
Import ListNotations.
Local Open Scope Z_scope.

(* ===================================================================== *)
(* 1. dictionary laws of list_get / list_remove / list_replace             *)

Lemma list_get_ssrc l x t : list_get l x = Some t -> s_ssrc t = x.
Proof.
  induction l as [|a l IH]; cbn [list_get]; [discriminate|].
  destruct (s_ssrc a =? x) eqn:E; [|exact IH].
  intros H. injection H as <-. apply Z.eqb_eq. exact E.
Qed.

Lemma list_get_In l x t : list_get l x = Some t -> In t l.
Proof.
  induction l as [|a l IH]; cbn [list_get]; [discriminate|].
  destruct (s_ssrc a =? x); intros H; [injection H as <-; left; reflexivity | right; exact (IH H)].
Qed.

Lemma list_get_none_iff l x : list_get l x = None <-> ~ In x (map s_ssrc l).
Proof.
  induction l as [|a l IH]; cbn [list_get map In]; [tauto|].
  destruct (s_ssrc a =? x) eqn:E.
  - apply Z.eqb_eq in E. split; [discriminate|intros H; exfalso; apply H; left; exact E].
  - apply Z.eqb_neq in E. rewrite IH. tauto.
Qed.

(* lookup in a list with one more entry at the end: earlier entries win *)
Lemma list_get_app l s x :
  list_get (l ++ [s]) x =
  match list_get l x with
  | Some t => Some t
  | None => if s_ssrc s =? x then Some s else None
  end.
Proof.
  induction l as [|a l IH]; cbn [app list_get]; [reflexivity|].
  destruct (s_ssrc a =? x); [reflexivity|exact IH].
Qed.

Lemma list_get_app_extends l s x t : list_get l x = Some t -> list_get (l ++ [s]) x = Some t.
Proof. intros H. rewrite list_get_app, H. reflexivity. Qed.

Lemma list_get_app_new l s : list_get l (s_ssrc s) = None -> list_get (l ++ [s]) (s_ssrc s) = Some s.
Proof. intros H. rewrite list_get_app, H, Z.eqb_refl. reflexivity. Qed.

Lemma list_get_app_other l s y : s_ssrc s <> y -> list_get (l ++ [s]) y = list_get l y.
Proof.
  intros H. rewrite list_get_app. apply Z.eqb_neq in H. rewrite H.
  destruct (list_get l y); reflexivity.
Qed.

(* removal of x never disturbs another key — no uniqueness assumption needed *)
Lemma list_get_remove_other l x y : y <> x -> list_get (list_remove l x) y = list_get l y.
Proof.
  intros N. induction l as [|a l IH]; cbn [list_remove list_get]; [reflexivity|].
  destruct (s_ssrc a =? x) eqn:E.
  - apply Z.eqb_eq in E. destruct (s_ssrc a =? y) eqn:E2; [apply Z.eqb_eq in E2; congruence|reflexivity].
  - cbn [list_get]. destruct (s_ssrc a =? y); [reflexivity|exact IH].
Qed.

Lemma list_remove_absent l x : list_get l x = None -> list_remove l x = l.
Proof.
  induction l as [|a l IH]; cbn [list_remove list_get]; [reflexivity|].
  destruct (s_ssrc a =? x); [discriminate|]. intros H. rewrite (IH H). reflexivity.
Qed.

(* what removal does exactly: it deletes the entry that list_get finds (the first one) *)
Lemma list_remove_first l x s :
  list_get l x = Some s ->
  exists l1 l2, l = l1 ++ s :: l2 /\ list_get l1 x = None /\ list_remove l x = l1 ++ l2.
Proof.
  induction l as [|a l IH]; cbn [list_remove list_get]; [discriminate|].
  destruct (s_ssrc a =? x) eqn:E.
  - intros H. injection H as <-. exists [], l. repeat split; reflexivity.
  - intros H. destruct (IH H) as (l1 & l2 & -> & Hn & Hr).
    exists (a :: l1), l2. cbn [app list_get]. rewrite E, Hr. repeat split; assumption.
Qed.

(* with duplicates a removed key can still be found: the next entry with that SSRC shows up *)
Lemma list_get_remove_same_dup a b l x :
  s_ssrc a = x -> s_ssrc b = x -> list_get (list_remove (a :: b :: l) x) x = Some b.
Proof. intros <- E. cbn [list_remove list_get]. rewrite Z.eqb_refl. cbn [list_get]. apply Z.eqb_eq in E. rewrite E. reflexivity. Qed.

(* with unique SSRCs: get after remove of the same key is None *)
Lemma list_get_remove_same l x :
  NoDup (map s_ssrc l) -> list_get (list_remove l x) x = None.
Proof.
  induction l as [|a l IH]; cbn [list_remove list_get map]; [reflexivity|].
  intros ND. inversion ND as [|? ? Hnin ND']; subst.
  destruct (s_ssrc a =? x) eqn:E.
  - apply Z.eqb_eq in E. subst x. apply list_get_none_iff. exact Hnin.
  - cbn [list_get]. rewrite E. exact (IH ND').
Qed.

Lemma In_map_remove l x y : In y (map s_ssrc (list_remove l x)) -> In y (map s_ssrc l).
Proof.
  induction l as [|a l IH]; cbn [list_remove map In]; [tauto|].
  destruct (s_ssrc a =? x); cbn [map In]; [tauto|]. intros [H|H]; [left; exact H|right; exact (IH H)].
Qed.

Lemma NoDup_remove l x : NoDup (map s_ssrc l) -> NoDup (map s_ssrc (list_remove l x)).
Proof.
  induction l as [|a l IH]; cbn [list_remove map]; [auto|].
  intros ND. inversion ND as [|? ? Hnin ND']; subst.
  destruct (s_ssrc a =? x); [exact ND'|].
  cbn [map]. constructor; [|exact (IH ND')].
  intros H. apply Hnin. exact (In_map_remove _ _ _ H).
Qed.

Lemma length_remove l x s : list_get l x = Some s -> length l = S (length (list_remove l x)).
Proof.
  intros H. destruct (list_remove_first _ _ _ H) as (l1 & l2 & -> & _ & ->).
  rewrite !app_length. cbn [length]. lia.
Qed.

(* replacement (the new entry carries the same SSRC) *)
Lemma map_ssrc_replace l x n : s_ssrc n = x -> map s_ssrc (list_replace l x n) = map s_ssrc l.
Proof.
  intros Hn. induction l as [|a l IH]; cbn [list_replace map]; [reflexivity|].
  destruct (s_ssrc a =? x) eqn:E; cbn [map].
  - apply Z.eqb_eq in E. congruence.
  - rewrite IH. reflexivity.
Qed.

Lemma length_replace l x n : length (list_replace l x n) = length l.
Proof.
  induction l as [|a l IH]; cbn [list_replace length]; [reflexivity|].
  destruct (s_ssrc a =? x); cbn [length]; [reflexivity|rewrite IH; reflexivity].
Qed.

Lemma list_get_replace_other l x n y :
  s_ssrc n = x -> y <> x -> list_get (list_replace l x n) y = list_get l y.
Proof.
  intros Hn N. induction l as [|a l IH]; cbn [list_replace list_get]; [reflexivity|].
  destruct (s_ssrc a =? x) eqn:E; cbn [list_get].
  - apply Z.eqb_eq in E.
    destruct (s_ssrc n =? y) eqn:E1; [apply Z.eqb_eq in E1; congruence|].
    destruct (s_ssrc a =? y) eqn:E2; [apply Z.eqb_eq in E2; congruence|reflexivity].
  - destruct (s_ssrc a =? y); [reflexivity|exact IH].
Qed.

Lemma list_get_replace_same l x n :
  s_ssrc n = x ->
  list_get (list_replace l x n) x = match list_get l x with Some _ => Some n | None => None end.
Proof.
  intros Hn. induction l as [|a l IH]; cbn [list_replace list_get]; [reflexivity|].
  destruct (s_ssrc a =? x) eqn:E; cbn [list_get].
  - subst x. rewrite Z.eqb_refl. reflexivity.
  - rewrite E. exact IH.
Qed.

Lemma list_get_replace l x n y :
  s_ssrc n = x ->
  list_get (list_replace l x n) y =
  if y =? x then match list_get l x with Some _ => Some n | None => None end else list_get l y.
Proof.
  intros Hn. destruct (y =? x) eqn:E.
  - apply Z.eqb_eq in E. subst y. apply list_get_replace_same. exact Hn.
  - apply Z.eqb_neq in E. apply list_get_replace_other; assumption.
Qed.

Lemma list_replace_absent l x n : list_get l x = None -> list_replace l x n = l.
Proof.
  induction l as [|a l IH]; cbn [list_replace list_get]; [reflexivity|].
  destruct (s_ssrc a =? x); [discriminate|]. intros H. rewrite (IH H). reflexivity.
Qed.

Lemma list_replace_app_last l s x n :
  list_get l x = None -> s_ssrc s = x -> list_replace (l ++ [s]) x n = l ++ [n].
Proof.
  intros H Hs. induction l as [|a l IH]; cbn [app list_replace].
  - apply Z.eqb_eq in Hs. rewrite Hs. reflexivity.
  - cbn [list_get] in H. destruct (s_ssrc a =? x); [discriminate|]. rewrite (IH H). reflexivity.
Qed.

(* ===================================================================== *)
(* 2. computations that only touch the heap                               *)

Definition heap_only {A} (m : M A) : Prop :=
  forall w, let '(w', _) := m w in
    w_s w' = w_s w /\ w_ev w' = w_ev w /\ w_b w' = w_b w /\ w_iv w' = w_iv w /\
    (h_fail (w_h w) = 0 -> h_fail (w_h w') = 0).

Lemma ho_ret {A} (a : A) : heap_only (ret a).
Proof. intros w. cbn. auto 6. Qed.
Lemma ho_exit {A} st : heap_only (@exit_with A st).
Proof. intros w. cbn. auto 6. Qed.
Lemma ho_bind {A B} (m : M A) (f : A -> M B) :
  heap_only m -> (forall a, heap_only (f a)) -> heap_only (bind m f).
Proof.
  intros Hm Hf w. unfold bind. specialize (Hm w). destruct (m w) as [w1 [a|st]].
  - specialize (Hf a w1). destruct (f a w1) as [w2 r].
    destruct Hm as (a1 & a2 & a3 & a4 & a5), Hf as (b1 & b2 & b3 & b4 & b5).
    repeat split; try congruence. auto.
  - exact Hm.
Qed.
Lemma ho_if {A} (c : bool) (m1 m2 : M A) : heap_only m1 -> heap_only m2 -> heap_only (if c then m1 else m2).
Proof. destruct c; auto. Qed.
Lemma ho_catch {A} (m : M A) : heap_only m -> heap_only (catch m).
Proof. intros H w. unfold catch. specialize (H w). destruct (m w) as [w1 r]. exact H. Qed.
Lemma ho_get_h : heap_only get_h. Proof. intros w; cbn; auto 6. Qed.
Lemma ho_get_s : heap_only get_s. Proof. intros w; cbn; auto 6. Qed.
Lemma ho_check_st st : heap_only (check_st st).
Proof. unfold check_st. destruct (st =? st_ok); [apply ho_ret|apply ho_exit]. Qed.
Lemma ho_alloc1 : heap_only alloc1.
Proof.
  intros w. unfold alloc1, bind, get_h, put_h, ret.
  destruct ((0 <? h_fail (w_h w)) && (h_fail (w_h w) =? 1)) eqn:E; cbn; repeat split; auto.
  intros H. rewrite H. reflexivity.
Qed.
Lemma ho_free_n n : heap_only (free_n n).
Proof. intros w. unfold free_n, bind, get_h, put_h. cbn. auto 6. Qed.
Lemma ho_live_now : heap_only live_now.
Proof. unfold live_now. apply ho_bind; [apply ho_get_h|intros; apply ho_ret]. Qed.
Lemma ho_release_since m : heap_only (release_since m).
Proof. unfold release_since. apply ho_bind; [apply ho_live_now|intros; apply ho_free_n]. Qed.

Ltac ho_step :=
  first
    [ apply ho_ret | apply ho_exit | apply ho_get_h | apply ho_get_s | apply ho_check_st
    | apply ho_alloc1 | apply ho_free_n | apply ho_live_now | apply ho_release_since
    | (apply ho_bind; [ | intros ? ])
    | apply ho_if
    | (apply ho_catch) ].
Ltac ho_auto :=
  repeat (ho_step ||
          match goal with
          | |- heap_only (match ?x with _ => _ end) => destruct x
          end).

Lemma ho_alloc_seq n : heap_only (alloc_seq n).
Proof. induction n as [|n IH]; cbn [alloc_seq]; [apply ho_ret|]. ho_auto. exact IH. Qed.
Lemma ho_alloc_cipher id klen o : heap_only (alloc_cipher id klen o).
Proof. unfold alloc_cipher. ho_auto. apply ho_alloc_seq. Qed.
Lemma ho_alloc_auth id klen tlen o : heap_only (alloc_auth id klen tlen o).
Proof. unfold alloc_auth. ho_auto. Qed.
Lemma ho_alloc_block o : heap_only (alloc_block o).
Proof. unfold alloc_block. ho_auto. Qed.
Lemma ho_alloc_keys n p : forall o, heap_only (alloc_keys n p o).
Proof.
  induction n as [|n IH]; intros o; cbn [alloc_keys]; [apply ho_ret|].
  apply ho_bind; [apply ho_alloc_cipher|intros o1].
  apply ho_bind; [apply ho_alloc_auth|intros o2].
  apply ho_bind; [apply ho_alloc_cipher|intros o3].
  apply ho_bind; [apply ho_alloc_auth|intros o4].
  apply ho_bind; [apply ho_alloc_block|intros o5]. apply IH.
Qed.
Lemma ho_alloc_xtn_ciphers n p : forall o, heap_only (alloc_xtn_ciphers n p o).
Proof.
  induction n as [|n IH]; intros o; cbn [alloc_xtn_ciphers]; [apply ho_ret|].
  apply ho_bind; [apply ho_alloc_cipher|intros o1]. apply IH.
Qed.
Lemma ho_stream_alloc p : heap_only (stream_alloc p).
Proof.
  unfold stream_alloc.
  apply ho_bind; [apply ho_check_st|intros _].
  apply ho_bind; [apply ho_alloc1|intros ok].
  apply ho_if; [apply ho_exit|].
  apply ho_bind; [apply ho_alloc_block|intros o1].
  apply ho_bind; [apply ho_alloc_keys|intros o2].
  apply ho_if; [|apply ho_ret].
  apply ho_bind; [apply ho_alloc_block|intros o3]. apply ho_alloc_xtn_ciphers.
Qed.
Lemma ho_init_keys p ms km o : heap_only (init_keys p ms km o).
Proof.
  unfold init_keys. change derive_keys_any with derive_keys.
  apply ho_bind.
  { apply ho_if; [|apply ho_ret]. destruct (snd km); [apply ho_exit|]. ho_auto. }
  intros o1. destruct (derive_keys _ _ _) as [st [d|]]; [|apply ho_exit].
  apply ho_bind; [apply ho_alloc_seq|intros r]. ho_auto.
Qed.
Lemma ho_init_all_keys p ms kms : forall o, heap_only (init_all_keys p ms kms o).
Proof.
  induction kms as [|km t IH]; intros o; cbn [init_all_keys]; [apply ho_ret|].
  apply ho_bind; [apply ho_init_keys|intros r].
  apply ho_bind; [apply IH|intros r2]. apply ho_ret.
Qed.
Lemma ho_stream_init p o : heap_only (stream_init p o).
Proof.
  unfold stream_init.
  apply ho_bind; [apply ho_check_st|intros _].
  apply ho_bind; [apply ho_if; [apply ho_exit|apply ho_ret]|intros _].
  apply ho_bind; [apply ho_alloc1|intros ok].
  apply ho_if; [apply ho_exit|].
  destruct (rdbx_init _) as [rx|]; [|apply ho_exit].
  apply ho_bind.
  { apply ho_catch. apply ho_if.
    - apply ho_bind; [apply ho_if; [apply ho_exit|apply ho_ret]|intros _]. apply ho_init_all_keys.
    - apply ho_bind; [apply ho_if; [apply ho_exit|apply ho_ret]|intros _].
      apply ho_bind; [apply ho_if; [apply ho_exit|apply ho_ret]|intros _]. apply ho_init_all_keys. }
  intros [[keys o']|st]; [apply ho_ret|].
  apply ho_bind; [apply ho_free_n|intros _; apply ho_exit].
Qed.
Lemma ho_build_stream p : heap_only (build_stream p).
Proof.
  unfold build_stream.
  apply ho_bind; [apply ho_live_now|intros mark].
  apply ho_bind.
  { apply ho_catch. apply ho_bind; [apply ho_stream_alloc|intros o; apply ho_stream_init]. }
  intros [[s o]|st]; [apply ho_ret|].
  apply ho_bind; [apply ho_release_since|intros _; apply ho_exit].
Qed.
Lemma ho_clone_mkis n : forall o, heap_only (clone_mkis n o).
Proof. induction n as [|n IH]; intros o; cbn [clone_mkis]; [apply ho_ret|]. ho_auto. apply IH. Qed.
Lemma ho_stream_clone t ssrc : heap_only (stream_clone t ssrc).
Proof. unfold stream_clone. ho_auto; try apply ho_clone_mkis. Qed.
Lemma ho_stream_dealloc s : heap_only (stream_dealloc s).
Proof. unfold stream_dealloc. apply ho_free_n. Qed.

(* using a heap_only fact on a concrete run *)
Lemma ho_run {A} (m : M A) w w' r :
  heap_only m -> m w = (w', r) ->
  w_s w' = w_s w /\ w_ev w' = w_ev w /\ w_b w' = w_b w /\ w_iv w' = w_iv w /\
  (h_fail (w_h w) = 0 -> h_fail (w_h w') = 0).
Proof. intros H E. specialize (H w). rewrite E in H. exact H. Qed.

(* ---- when no allocation failure is scheduled, allocation succeeds ---- *)
Lemma alloc1_ok w :
  h_fail (w_h w) = 0 ->
  exists w1, alloc1 w = (w1, inl true) /\ h_live (w_h w1) = h_live (w_h w) + 1.
Proof.
  intros H. unfold alloc1, bind, get_h, put_h, ret. rewrite H. cbn.
  eexists. split; [reflexivity|]. reflexivity.
Qed.

(* one step of a run whose head is an allocation with h_fail = 0 *)
Lemma alloc1_bind_ok {B} (f : bool -> M B) w :
  h_fail (w_h w) = 0 ->
  exists w1, bind alloc1 f w = f true w1 /\
             w_s w1 = w_s w /\ w_ev w1 = w_ev w /\ w_b w1 = w_b w /\ w_iv w1 = w_iv w /\
             h_fail (w_h w1) = 0 /\ h_live (w_h w1) = h_live (w_h w) + 1.
Proof.
  intros H. destruct (alloc1_ok w H) as (w1 & E & L).
  destruct (ho_run _ _ _ _ ho_alloc1 E) as (a1 & a2 & a3 & a4 & a5).
  exists w1. unfold bind. rewrite E. repeat split; auto.
Qed.

Lemma clone_mkis_ok n : forall o w,
  h_fail (w_h w) = 0 ->
  exists w1, clone_mkis n o w = (w1, inl (o + Z.of_nat n)) /\
             h_live (w_h w1) = h_live (w_h w) + Z.of_nat n.
Proof.
  induction n as [|n IH]; intros o w H.
  - exists w. cbn [clone_mkis]. unfold ret. split; [f_equal; f_equal; lia|lia].
  - cbn [clone_mkis]. destruct (alloc1_bind_ok (fun ok => if ok then clone_mkis n (o + 1) else free_n o;;; exit_with st_init_fail) w H)
      as (w1 & E & _ & _ & _ & _ & F & L).
    rewrite E. destruct (IH (o + 1) w1 F) as (w2 & E2 & L2).
    exists w2. rewrite E2. split; [f_equal; f_equal; lia|lia].
Qed.

(* ===================================================================== *)
(* 3. list_insert: append, capacity doubling keeps every entry             *)

Lemma list_insert_inv s w w' r :
  list_insert s w = (w', r) ->
  (r = inl st_ok /\
   ss_list (w_s w') = ss_list (w_s w) ++ [s] /\
   ss_template (w_s w') = ss_template (w_s w) /\
   ss_cap (w_s w') = (if lenZ (ss_list (w_s w)) =? ss_cap (w_s w) then 2 * ss_cap (w_s w) else ss_cap (w_s w)) /\
   h_live (w_h w') = h_live (w_h w) /\ w_ev w' = w_ev w)
  \/
  (r = inl st_alloc_fail /\ w_s w' = w_s w /\ h_live (w_h w') = h_live (w_h w) /\ w_ev w' = w_ev w /\
   lenZ (ss_list (w_s w)) = ss_cap (w_s w) /\ h_fail (w_h w) = 1).
Proof.
  unfold list_insert, bind, get_s.
  destruct (lenZ (ss_list (w_s w)) =? ss_cap (w_s w)) eqn:Ecap.
  - unfold alloc1, bind, get_h, put_h, ret.
    destruct ((0 <? h_fail (w_h w)) && (h_fail (w_h w) =? 1)) eqn:E; cbn.
    + intros H. injection H as <- <-. right. cbn.
      apply andb_prop in E. destruct E as [_ E]. apply Z.eqb_eq in E. apply Z.eqb_eq in Ecap. auto 6.
    + intros H. injection H as <- <-. left. cbn. repeat split; auto. lia.
  - cbn. intros H. injection H as <- <-. left. cbn. auto 6.
Qed.

(* growth preserves: every lookup that succeeded before gives the same stream afterwards,
   and the new stream is reachable under its SSRC unless an older entry shadows it *)
Theorem list_insert_extends s w w' :
  list_insert s w = (w', inl st_ok) ->
  ss_list (w_s w') = ss_list (w_s w) ++ [s] /\
  ss_template (w_s w') = ss_template (w_s w) /\
  (forall y t, list_get (ss_list (w_s w)) y = Some t -> list_get (ss_list (w_s w')) y = Some t) /\
  (forall y, y <> s_ssrc s -> list_get (ss_list (w_s w')) y = list_get (ss_list (w_s w)) y) /\
  (list_get (ss_list (w_s w)) (s_ssrc s) = None -> list_get (ss_list (w_s w')) (s_ssrc s) = Some s).
Proof.
  intros H. apply list_insert_inv in H.
  destruct H as [(_ & L & T & _)|(E & _)]; [|discriminate].
  rewrite L. repeat split; auto.
  - intros y t G. apply list_get_app_extends. exact G.
  - intros y N. apply list_get_app_other. congruence.
  - apply list_get_app_new.
Qed.

Theorem list_insert_fail_noop s w w' st :
  list_insert s w = (w', inl st) -> st <> st_ok -> st = st_alloc_fail /\ w_s w' = w_s w.
Proof.
  intros H N. apply list_insert_inv in H.
  destruct H as [(E & _)|(E & S & _)]; injection E as ->; [contradiction|auto].
Qed.

(* capacity invariant: the list never outgrows its capacity *)
Lemma list_insert_cap s w w' :
  list_insert s w = (w', inl st_ok) ->
  0 < ss_cap (w_s w) -> lenZ (ss_list (w_s w)) <= ss_cap (w_s w) ->
  0 < ss_cap (w_s w') /\ lenZ (ss_list (w_s w')) <= ss_cap (w_s w').
Proof.
  intros H C L. apply list_insert_inv in H.
  destruct H as [(_ & Hl & _ & Hc & _)|(E & _)]; [|discriminate].
  rewrite Hl, Hc. unfold lenZ in *. rewrite app_length. cbn [length].
  destruct (Z.of_nat (length (ss_list (w_s w))) =? ss_cap (w_s w)) eqn:E.
  - apply Z.eqb_eq in E. lia.
  - apply Z.eqb_neq in E. lia.
Qed.

Lemma list_insert_ok s w :
  h_fail (w_h w) = 0 ->
  exists w1, list_insert s w = (w1, inl st_ok) /\ h_fail (w_h w1) = 0.
Proof.
  intros F. unfold list_insert, bind, get_s.
  destruct (lenZ (ss_list (w_s w)) =? ss_cap (w_s w)).
  - unfold alloc1, bind, get_h, put_h, ret. rewrite F. cbn. eexists. split; reflexivity.
  - cbn. eexists. split; [reflexivity|exact F].
Qed.

Lemma insert_or_dealloc_ok s w :
  h_fail (w_h w) = 0 ->
  exists w1, insert_or_dealloc s w = (w1, inl tt) /\ list_insert s w = (w1, inl st_ok) /\ h_fail (w_h w1) = 0.
Proof.
  intros F. destruct (list_insert_ok s w F) as (w1 & E & F1).
  exists w1. unfold insert_or_dealloc, bind. rewrite E. cbn. auto.
Qed.

(* insert_or_dealloc, any history: success = the insert happened; exit = alloc_fail, session unchanged *)
Lemma insert_or_dealloc_inv s w w' r :
  insert_or_dealloc s w = (w', r) ->
  (r = inl tt /\ list_insert s w = (w', inl st_ok)) \/
  (r = inr st_alloc_fail /\ w_s w' = w_s w /\ h_fail (w_h w) = 1 /\
   lenZ (ss_list (w_s w)) = ss_cap (w_s w) /\ h_live (w_h w') = h_live (w_h w) - stream_blocks s).
Proof.
  unfold insert_or_dealloc. intros H. apply bind_inv in H.
  destruct H as [(st & w1 & H1 & H2)|(st & H1 & _)].
  - pose proof H1 as H1'. apply list_insert_inv in H1'.
    destruct H1' as [(E & _)|(E & S & L & _ & C & F)]; injection E as ->.
    + cbn in H2. injection H2 as <- <-. left. auto.
    + change (st_alloc_fail =? st_ok) with false in H2. cbn beta iota in H2.
      unfold stream_dealloc, free_n, bind, get_h, put_h, exit_with in H2. cbn in H2.
      injection H2 as <- <-. right. cbn. rewrite L. auto 6.
  - exfalso. unfold list_insert, bind, get_s in H1.
    destruct (lenZ (ss_list (w_s w)) =? ss_cap (w_s w)).
    + unfold alloc1, bind, get_h, put_h, ret in H1.
      destruct ((0 <? h_fail (w_h w)) && (h_fail (w_h w) =? 1)); cbn in H1; discriminate.
    + cbn in H1. discriminate.
Qed.

(* ===================================================================== *)
(* 4. stream_remove                                                        *)

Lemma stream_remove_absent ssrc w :
  list_get (ss_list (w_s w)) ssrc = None -> stream_remove ssrc w = (w, inr st_no_ctx).
Proof. intros H. unfold stream_remove, bind, get_s. rewrite H. reflexivity. Qed.

Lemma stream_remove_present ssrc w s :
  list_get (ss_list (w_s w)) ssrc = Some s ->
  exists w', stream_remove ssrc w = (w', inl tt) /\
    w_s w' = {| ss_template := ss_template (w_s w);
                ss_list := list_remove (ss_list (w_s w)) ssrc; ss_cap := ss_cap (w_s w) |} /\
    h_live (w_h w') = h_live (w_h w) - stream_blocks s /\
    h_fail (w_h w') = h_fail (w_h w) /\ w_ev w' = w_ev w /\ w_b w' = w_b w /\ w_iv w' = w_iv w.
Proof.
  intros H. unfold stream_remove, bind, get_s. rewrite H.
  unfold put_s, stream_dealloc, free_n, bind, get_h, put_h. cbn.
  eexists. split; [reflexivity|]. cbn. auto 8.
Qed.

Theorem stream_remove_spec ssrc w w' r :
  stream_remove ssrc w = (w', r) ->
  (r = inl tt <-> list_get (ss_list (w_s w)) ssrc <> None) /\
  (list_get (ss_list (w_s w)) ssrc = None -> r = inr st_no_ctx /\ w' = w) /\
  (r = inl tt ->
     ss_template (w_s w') = ss_template (w_s w) /\
     ss_cap (w_s w') = ss_cap (w_s w) /\
     ss_list (w_s w') = list_remove (ss_list (w_s w)) ssrc /\
     (forall y, y <> ssrc -> list_get (ss_list (w_s w')) y = list_get (ss_list (w_s w)) y) /\
     (NoDup (map s_ssrc (ss_list (w_s w))) -> list_get (ss_list (w_s w')) ssrc = None)).
Proof.
  intros H. destruct (list_get (ss_list (w_s w)) ssrc) as [s|] eqn:G.
  - destruct (stream_remove_present ssrc w s G) as (w1 & E & S & _).
    rewrite E in H. injection H as <- <-.
    split; [split; [discriminate|reflexivity]|]. split; [discriminate|]. intros _.
    rewrite S. cbn [ss_template ss_cap ss_list]. repeat split.
    + intros y N. apply list_get_remove_other. exact N.
    + apply list_get_remove_same.
  - rewrite (stream_remove_absent ssrc w G) in H. injection H as <- <-.
    split; [split; [discriminate|intros C; contradiction]|]. split; [auto|discriminate].
Qed.

(* an unsuccessful remove is the only exit, its status is no_ctx, and nothing at all changed *)
Corollary stream_remove_exit ssrc w w' st :
  stream_remove ssrc w = (w', inr st) ->
  st = st_no_ctx /\ w' = w /\ list_get (ss_list (w_s w)) ssrc = None.
Proof.
  intros H. destruct (list_get (ss_list (w_s w)) ssrc) as [s|] eqn:G.
  - destruct (stream_remove_present ssrc w s G) as (w1 & E & _). rewrite E in H. discriminate.
  - rewrite (stream_remove_absent ssrc w G) in H. injection H as <- <-. auto.
Qed.

(* ===================================================================== *)
(* 5. set_roc / get_roc: explicit streams only — the template does not count *)

Theorem get_roc_spec ssrc w :
  get_roc ssrc w =
  match list_get (ss_list (w_s w)) ssrc with
  | Some s => (w, inl (rdbx_roc (s_rdbx s)))
  | None => (w, inr st_bad_param)
  end.
Proof. unfold get_roc, bind, get_s. destruct (list_get (ss_list (w_s w)) ssrc); reflexivity. Qed.

Corollary get_roc_noop ssrc w w' r : get_roc ssrc w = (w', r) -> w' = w.
Proof. rewrite get_roc_spec. destruct (list_get _ _); intros H; injection H as <- _; reflexivity. Qed.

Corollary get_roc_fails_iff ssrc w w' r :
  get_roc ssrc w = (w', r) ->
  (r = inr st_bad_param <-> list_get (ss_list (w_s w)) ssrc = None) /\
  (forall st, r = inr st -> st = st_bad_param).
Proof.
  rewrite get_roc_spec. destruct (list_get _ _) as [s|]; intros H; injection H as <- <-.
  - split; [split; discriminate|discriminate].
  - split; [tauto|]. intros st E. injection E as <-. reflexivity.
Qed.

Definition with_s (w : world) (s : session) : world :=
  {| w_s := s; w_b := w_b w; w_ev := w_ev w; w_iv := w_iv w; w_h := w_h w |}.

Theorem set_roc_spec ssrc roc w :
  set_roc ssrc roc w =
  match list_get (ss_list (w_s w)) ssrc with
  | Some s => (with_s w {| ss_template := ss_template (w_s w);
                           ss_list := list_replace (ss_list (w_s w)) ssrc (set_pending s roc);
                           ss_cap := ss_cap (w_s w) |}, inl tt)
  | None => (w, inr st_bad_param)
  end.
Proof.
  unfold set_roc, bind, get_s. destruct (list_get (ss_list (w_s w)) ssrc); [|reflexivity].
  unfold put_stream, bind, get_s, put_s, with_s. reflexivity.
Qed.

Corollary set_roc_fails_iff ssrc roc w w' r :
  set_roc ssrc roc w = (w', r) ->
  (r = inr st_bad_param <-> list_get (ss_list (w_s w)) ssrc = None) /\
  (r = inl tt <-> list_get (ss_list (w_s w)) ssrc <> None) /\
  (forall st, r = inr st -> st = st_bad_param /\ w' = w).
Proof.
  rewrite set_roc_spec. destruct (list_get _ _) as [s|]; intros H; injection H as <- <-.
  - repeat split; intros; try discriminate; try congruence.
  - repeat split; intros; try tauto; try discriminate; try congruence.
Qed.

(* a session that has only a template: both calls refuse every SSRC *)
Corollary roc_calls_ignore_template t cap b ev iv h ssrc roc :
  let w := {| w_s := {| ss_template := Some t; ss_list := []; ss_cap := cap |};
              w_b := b; w_ev := ev; w_iv := iv; w_h := h |} in
  set_roc ssrc roc w = (w, inr st_bad_param) /\ get_roc ssrc w = (w, inr st_bad_param).
Proof. split; reflexivity. Qed.

(* ===================================================================== *)
(* 6. sender-side dispatch: lookup_or_clone                                *)

Theorem lookup_explicit ssrc b w s :
  list_get (ss_list (w_s w)) ssrc = Some s ->
  lookup_or_clone ssrc b w = (w, inl (RList ssrc)).
Proof. intros H. unfold lookup_or_clone, bind, get_s. rewrite H. reflexivity. Qed.

Theorem lookup_no_ctx ssrc b w :
  list_get (ss_list (w_s w)) ssrc = None -> ss_template (w_s w) = None ->
  lookup_or_clone ssrc b w = (w, inr st_no_ctx).
Proof. intros H T. unfold lookup_or_clone, bind, get_s. rewrite H, T. reflexivity. Qed.

(* stream_clone with no scheduled failure *)
Lemma stream_clone_ok t ssrc w :
  h_fail (w_h w) = 0 -> wlen (s_rdbx t) <> 0 ->
  exists w1 ns, stream_clone t ssrc w = (w1, inl ns) /\
    s_ssrc ns = ssrc /\ s_clone ns = true /\ s_keys ns = s_keys t /\ s_limits ns = [] /\
    s_rdbx ns = {| index := 0; wlen := roundup32 (wlen (s_rdbx t)); mask := 0%N |} /\
    s_rdb ns = rdb_init /\ s_pending_roc ns = 0 /\ s_dir ns = s_dir t /\
    w_s w1 = w_s w /\ w_ev w1 = w_ev w /\ h_fail (w_h w1) = 0.
Proof.
  intros F W. unfold stream_clone.
  destruct (alloc1_bind_ok
    (fun ok => if negb ok then exit_with st_alloc_fail else
       ok2 <- alloc1 ;;
       if negb ok2 then free_n 1 ;;; exit_with st_alloc_fail else
       o <- clone_mkis (if s_mki_size t =? 0 then O else length (s_keys t)) 2 ;;
       ok3 <- alloc1 ;;
       if negb ok3 then free_n o ;;; exit_with st_alloc_fail else
       match rdbx_init (wlen (s_rdbx t)) with
       | None => free_n (o + 1) ;;; exit_with st_bad_param
       | Some rx =>
         ret {| s_ssrc := ssrc; s_clone := true; s_keys := s_keys t; s_limits := [];
                s_rdbx := rx; s_rdb := rdb_init; s_pending_roc := 0; s_dir := s_dir t;
                s_rtp_serv := s_rtp_serv t; s_rtcp_serv := s_rtcp_serv t;
                s_use_mki := s_use_mki t; s_mki_size := s_mki_size t;
                s_allow_repeat := s_allow_repeat t; s_cryptex := s_cryptex t; s_enc_xtn := s_enc_xtn t |}
       end) w F) as (w1 & E1 & S1 & V1 & _ & _ & F1 & _).
  rewrite E1. cbn [negb]. cbv iota.
  match goal with |- context [bind alloc1 ?f w1] =>
    destruct (alloc1_bind_ok f w1 F1) as (w2 & E2 & S2 & V2 & _ & _ & F2 & _) end.
  rewrite E2. cbn [negb]. cbv iota.
  set (n := if s_mki_size t =? 0 then O else length (s_keys t)).
  destruct (clone_mkis_ok n 2 w2 F2) as (w3 & E3 & _).
  destruct (ho_run _ _ _ _ (ho_clone_mkis n 2) E3) as (S3 & V3 & _ & _ & F3'). specialize (F3' F2).
  unfold bind at 1. rewrite E3.
  match goal with |- context [bind alloc1 ?f w3] =>
    destruct (alloc1_bind_ok f w3 F3') as (w4 & E4 & S4 & V4 & _ & _ & F4 & _) end.
  rewrite E4. cbn [negb]. cbv iota.
  unfold rdbx_init. destruct (wlen (s_rdbx t) =? 0) eqn:EW; [apply Z.eqb_eq in EW; contradiction|].
  eexists. eexists. split; [reflexivity|]. cbn.
  repeat split; congruence.
Qed.

(* no explicit stream, a template, no allocation failure: a clone of the template is
   inserted under the packet's SSRC; every other SSRC and the template are untouched *)
Theorem lookup_clone ssrc b w t :
  list_get (ss_list (w_s w)) ssrc = None -> ss_template (w_s w) = Some t ->
  h_fail (w_h w) = 0 -> wlen (s_rdbx t) <> 0 ->
  exists w' ns,
    lookup_or_clone ssrc b w = (w', inl (RList ssrc)) /\
    list_get (ss_list (w_s w')) ssrc = Some ns /\
    ss_list (w_s w') = ss_list (w_s w) ++ [ns] /\
    s_ssrc ns = ssrc /\ s_clone ns = true /\ s_keys ns = s_keys t /\
    s_rdbx ns = {| index := 0; wlen := roundup32 (wlen (s_rdbx t)); mask := 0%N |} /\
    s_rdb ns = rdb_init /\ s_pending_roc ns = 0 /\
    s_dir ns = (if b then dir_srtp_sender_c else s_dir t) /\
    ss_template (w_s w') = Some t /\
    (forall y, y <> ssrc -> list_get (ss_list (w_s w')) y = list_get (ss_list (w_s w)) y) /\
    w_ev w' = w_ev w.
Proof.
  intros G T F W. unfold lookup_or_clone, bind at 1, get_s. rewrite G, T.
  destruct (stream_clone_ok t ssrc w F W) as (w1 & ns & E1 & P1 & P2 & P3 & P4 & P5 & P6 & P7 & P8 & S1 & V1 & F1).
  unfold bind at 1. rewrite E1.
  destruct (insert_or_dealloc_ok ns w1 F1) as (w2 & E2 & I2 & F2).
  unfold bind at 1. rewrite E2.
  destruct (list_insert_extends _ _ _ I2) as (L2 & T2 & _ & O2 & N2).
  apply list_insert_inv in I2. destruct I2 as [(_ & _ & _ & _ & _ & V2)|(C & _)]; [|discriminate].
  rewrite S1 in L2, T2, O2, N2. rewrite P1 in N2, O2. specialize (N2 G).
  destruct b.
  - (* direction set to sender *)
    unfold put_stream, bind, get_s, put_s, ret. cbn beta iota.
    exists (with_s w2 {| ss_template := ss_template (w_s w2);
                         ss_list := list_replace (ss_list (w_s w2)) ssrc (set_dir ns dir_srtp_sender_c);
                         ss_cap := ss_cap (w_s w2) |}), (set_dir ns dir_srtp_sender_c).
    split; [reflexivity|]. cbn [with_s w_s ss_list ss_template w_ev].
    rewrite L2, (list_replace_app_last _ ns ssrc _ G P1).
    assert (Hd : s_ssrc (set_dir ns dir_srtp_sender_c) = ssrc) by exact P1.
    split.
    { rewrite list_get_app, G, Hd, Z.eqb_refl. reflexivity. }
    split; [reflexivity|]. cbn [set_dir upd_stream s_ssrc s_clone s_keys s_rdbx s_rdb s_pending_roc s_dir].
    repeat split; try assumption; try congruence.
    intros y N. rewrite list_get_app_other by (rewrite Hd; congruence). reflexivity.
  - exists w2, ns. unfold bind, ret. split; [reflexivity|].
    repeat split; try assumption; try congruence.
Qed.

(* ===================================================================== *)
(* 7. a second wildcard policy is refused and the session is unchanged     *)

Definition is_wildcard (p : policy) : bool :=
  (p_ssrc_type p =? ssrc_any_outbound_c) || (p_ssrc_type p =? ssrc_any_inbound_c).

Theorem stream_add_second_template p w w' r t :
  is_wildcard p = true -> ss_template (w_s w) = Some t ->
  stream_add p w = (w', r) ->
  w_s w' = w_s w /\ w_ev w' = w_ev w /\
  (exists st, r = inr st) /\
  (forall w1 s, valid_policy p = st_ok -> build_stream p w = (w1, inl s) ->
     r = inr st_bad_param /\ h_live (w_h w') = h_live (w_h w1) - stream_blocks s).
Proof.
  intros Wc T H. unfold stream_add in H.
  apply bind_inv in H. destruct H as [([] & w0 & H0 & H)|(st & H0 & ->)].
  2:{ unfold check_st in H0. destruct (valid_policy p =? st_ok) eqn:EV; [discriminate|].
      unfold exit_with in H0. injection H0 as <- <-.
      split; [reflexivity|]. split; [reflexivity|]. split; [eauto|].
      intros w9 s9 V. rewrite V in EV. discriminate. }
  unfold check_st in H0. destruct (valid_policy p =? st_ok) eqn:EV; [|discriminate].
  unfold ret in H0. injection H0 as <-.
  apply bind_inv in H. destruct H as [(s & w1 & H1 & H)|(st & H1 & ->)].
  2:{ destruct (ho_run _ _ _ _ (ho_build_stream p) H1) as (S & V & _).
      split; [exact S|]. split; [exact V|]. split; [eauto|].
      intros w2 s _ B. rewrite B in H1. discriminate. }
  destruct (ho_run _ _ _ _ (ho_build_stream p) H1) as (S & V & _).
  unfold bind at 1, get_s in H. unfold is_wildcard in Wc. rewrite Wc in H.
  rewrite S, T in H.
  unfold stream_dealloc, free_n, bind, get_h, put_h, exit_with in H. cbn in H.
  injection H as <- <-. cbn [w_s w_ev w_h h_live].
  split; [exact S|]. split; [exact V|]. split; [eauto|].
  intros w2 s2 _ B. rewrite B in H1. injection H1 as -> ->. auto.
Qed.

Print Assumptions list_get_app.
Print Assumptions list_get_remove_other.
Print Assumptions list_get_remove_same.
Print Assumptions list_get_replace.
Print Assumptions list_insert_extends.
Print Assumptions stream_remove_spec.
Print Assumptions get_roc_spec.
Print Assumptions set_roc_spec.
Print Assumptions lookup_explicit.
Print Assumptions lookup_no_ctx.
Print Assumptions lookup_clone.
Print Assumptions stream_add_second_template.
