(* RtpExamples.v — C01 / C12 non-vacuity and class coverage by evaluation (vm_compute):
   concrete sessions built by session_create from policies, concrete packets, srtp_protect
   followed by srtp_unprotect in all four alias combinations.  Classes: plain (AES-ICM-128 /
   HMAC-SHA1-80, MKI with two keys, CSRCs and a header extension), RFC 6904 header-extension
   encryption (one- and two-byte forms), cryptex (RFC 9335) with CSRCs.  These are EXAMPLES:
   the unbounded statements are protect_refines / srtp_round_trip / srtp_protect_unprotect. *)
From Coq Require Import NArith ZArith List Bool Lia.
From Srtp Require Import Util Constants KeyLimit Rdb Rdbx Icm World Stream Rtp Session BoundsRtp RtcpSpec RtpSpec.
Import ListNotations.
Local Open Scope Z_scope.

Module RtpEx.
Definition cp (serv : Z) : cpolicy :=
  {| cp_cipher := 1; cp_keylen := 30; cp_auth := 3; cp_authkeylen := 20; cp_taglen := 10; cp_serv := serv |}.
Definition key (a : nat) : bytes := map N.of_nat (seq a 30).
Definition ssrc : Z := 3405691582.   (* 0xCAFEBABE *)
Definition pol (mki cryptex : bool) (xtn : bytes) : policy :=
  {| p_ssrc_type := 1; p_ssrc := ssrc; p_rtp := cp 3; p_rtcp := cp 3; p_usekey := negb mki; p_nkeys := if mki then 2 else 0;
     p_use_mki := mki; p_mki_size := if mki then 2 else 0; p_window := 0; p_allow_repeat := false; p_cryptex := cryptex;
     p_enc_xtn := xtn;
     p_keys := if mki then [(key 1, [7%N; 1%N]); (key 100, [7%N; 2%N])] else [(key 1, [])] |}.
Definition sess (p : policy) : session := w_s (fst (session_create [p] Witness.w0)).
Definition cap : Z := 96.
Definition inplace (p : bytes) : bufs :=
  {| b_src := []; b_dst := p ++ repeat 170%N (zn cap - length p); b_alias := true; b_len := lenZ p; b_cap := cap; b_oob := false |}.
Definition outofplace (fill : N) (p : bytes) : bufs :=
  {| b_src := p; b_dst := repeat fill (zn cap); b_alias := false; b_len := lenZ p; b_cap := cap; b_oob := false |}.
Definition run_protect (p : policy) (i : Z) (b : bufs) : option bytes :=
  match protect i (Witness.mkw (sess p) b) with
  | (w', inl l) => Some (take (zn l) (b_dst (w_b w')))
  | _ => None
  end.
Definition run_unprotect (p : policy) (b : bufs) : option bytes :=
  match unprotect (Witness.mkw (sess p) b) with
  | (w', inl l) => Some (take (zn l) (b_dst (w_b w')))
  | _ => None
  end.
(* all four alias combinations give the packet back, and the wire image is the same in both modes *)
Definition four_ways (p : policy) (i : Z) (pkt : bytes) : bool :=
  match run_protect p i (inplace pkt), run_protect p i (outofplace 238 pkt), run_protect p i (outofplace 0 pkt) with
  | Some w1, Some w2, Some w3 =>
    beqb w1 w2 && beqb w1 w3 && negb (beqb (take (length pkt) w1) pkt) &&
    match run_unprotect p (inplace w1), run_unprotect p (outofplace 238 w1), run_unprotect p (outofplace 0 w1) with
    | Some p1, Some p2, Some p3 => beqb p1 pkt && beqb p2 pkt && beqb p3 pkt
    | _, _, _ => false
    end
  | _, _, _ => false
  end.

(* V=2, X=1, CC=2, seq 0x1234, SSRC CAFEBABE, two CSRCs, one-byte-form extension of 2 words
   (id 1 len 3, id 2 len 2, one pad octet), 13 octets of payload *)
Definition pkt_x1 : bytes :=
  [146;96;18;52; 0;0;0;9; 202;254;186;190; 1;2;3;4; 5;6;7;8; 190;222;0;2; 18;170;187;204; 33;221;238;0]%N
  ++ map N.of_nat (seq 60 13).
(* two-byte form: id 1 len 3, id 2 len 0, id 3 len 1 *)
Definition pkt_x2 : bytes :=
  [145;96;18;53; 0;0;0;9; 202;254;186;190; 1;2;3;4; 16;0;0;3; 1;3;170;187; 204;2;0;3; 1;99;0;0]%N
  ++ map N.of_nat (seq 60 5).
(* no extension, no CSRC, empty payload *)
Definition pkt_empty : bytes := [128;96;18;54; 0;0;0;9; 202;254;186;190]%N.

Example plain_mki_key0 : four_ways (pol true false []) 0 pkt_x1 = true.       Proof. vm_compute. reflexivity. Qed.
Example plain_mki_key1 : four_ways (pol true false []) 1 pkt_x2 = true.       Proof. vm_compute. reflexivity. Qed.
(* an empty payload leaves nothing to encrypt: the "wire differs from the packet" conjunct is dropped *)
Example plain_empty_payload :
  match run_protect (pol false false []) 0 (inplace pkt_empty) with
  | Some w1 => run_unprotect (pol false false []) (outofplace 1 w1) = Some pkt_empty /\ length w1 = 22%nat
  | None => False
  end.
Proof. vm_compute. split; reflexivity. Qed.
Example xtn6904_one_byte : four_ways (pol false false [1%N; 2%N]) 0 pkt_x1 = true.   Proof. vm_compute. reflexivity. Qed.
Example xtn6904_two_byte : four_ways (pol false false [1%N; 3%N]) 0 pkt_x2 = true.   Proof. vm_compute. reflexivity. Qed.
Example xtn6904_with_mki : four_ways (pol true false [2%N]) 1 pkt_x1 = true.         Proof. vm_compute. reflexivity. Qed.
Example cryptex_csrc_one_byte : four_ways (pol false true []) 0 pkt_x1 = true.       Proof. vm_compute. reflexivity. Qed.
Example cryptex_two_byte : four_ways (pol false true []) 0 pkt_x2 = true.            Proof. vm_compute. reflexivity. Qed.
Example cryptex_with_mki : four_ways (pol true true []) 1 pkt_x1 = true.             Proof. vm_compute. reflexivity. Qed.
(* the cryptex wire image carries the RFC 9335 profile id in clear and hides the CSRC list *)
Example cryptex_wire_shape :
  match run_protect (pol false true []) 0 (inplace pkt_x1) with
  | Some w1 => slice 20 2 w1 = [192; 222]%N /\ slice 12 8 w1 <> slice 12 8 pkt_x1 /\ take 12 w1 = take 12 pkt_x1
  | None => False
  end.
Proof. vm_compute. split; [reflexivity|]. split; [discriminate|reflexivity]. Qed.
End RtpEx.
