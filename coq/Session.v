(* Session.v — model of the session API of srtp/srtp.c: srtp_create, srtp_stream_add,
   srtp_stream_remove, srtp_update / srtp_stream_update (explicit and template),
   srtp_dealloc, srtp_stream_set_roc / get_roc, the trailer-length queries. *)
From Coq Require Import NArith ZArith List Bool.
From Srtp Require Import Util Constants KeyLimit Rdb Rdbx Icm World Stream Rtp.
Import ListNotations.
Local Open Scope Z_scope.

Definition live_now : M Z := h <- get_h ;; ret (h_live h).
(* release whatever was obtained since `mark` (full cleanup of a partially built object) *)
Definition release_since (mark : Z) : M unit := l <- live_now ;; free_n (l - mark).

(* allocate + initialise a stream for a policy; on failure everything is released
   (srtp_stream_add's "srtp_stream_dealloc(tmp, NULL)") *)
Definition build_stream (p : policy) : M stream :=
  mark <- live_now ;;
  r <- catch (o <- stream_alloc p ;; stream_init p o) ;;
  match r with
  | inl (s, _) => ret s
  | inr st => release_since mark ;;; exit_with st
  end.

Definition set_template (t : option stream) : M unit :=
  ss <- get_s ;; put_s {| ss_template := t; ss_list := ss_list ss; ss_cap := ss_cap ss |}.

(* srtp_stream_add *)
Definition stream_add (p : policy) : M unit :=
  check_st (valid_policy p) ;;;
  s <- build_stream p ;;
  ss <- get_s ;;
  if (p_ssrc_type p =? ssrc_any_outbound_c) || (p_ssrc_type p =? ssrc_any_inbound_c) then
    match ss_template ss with
    | Some _ => stream_dealloc s ;;; exit_with st_bad_param
    | None => set_template (Some (set_dir s (if p_ssrc_type p =? ssrc_any_outbound_c
                                               then dir_srtp_sender_c else dir_srtp_receiver_c)))
    end
  else if p_ssrc_type p =? ssrc_specific_c then insert_or_dealloc s
  else stream_dealloc s ;;; exit_with st_bad_param.

(* srtp_dealloc *)
Definition session_dealloc : M unit :=
  ss <- get_s ;;
  free_n (fold_right (fun s a => a + stream_blocks s) 0 (ss_list ss)) ;;;
  (match ss_template ss with Some t => stream_dealloc t | None => ret tt end) ;;;
  free_n 3 ;;;       (* entries, list, session *)
  put_s {| ss_template := None; ss_list := []; ss_cap := 0 |}.

(* srtp_create; the bool says whether a session exists afterwards *)
Fixpoint add_all (ps : list policy) : M unit :=
  match ps with
  | [] => ret tt
  | p :: t => stream_add p ;;; add_all t
  end.

Definition session_create (ps : list policy) : M unit :=
  (match ps with p :: _ => check_st (valid_policy p) | [] => ret tt end) ;;;
  ok <- alloc1 ;;
  if negb ok then exit_with st_alloc_fail else
  (* srtp_stream_list_alloc; on failure only the context is released *)
  ok1 <- alloc1 ;;
  if negb ok1 then free_n 1 ;;; exit_with st_alloc_fail else
  ok2 <- alloc1 ;;
  if negb ok2 then free_n 1 ;;; free_n 1 ;;; exit_with st_alloc_fail else
  put_s {| ss_template := None; ss_list := []; ss_cap := INITIAL_STREAM_INDEX_SIZE_c |} ;;;
  r <- catch (add_all ps) ;;
  match r with
  | inl _ => ret tt
  | inr st => session_dealloc ;;; exit_with st
  end.

(* srtp_stream_remove (ssrc in host order = the numeric value) *)
Definition stream_remove (ssrc : Z) : M unit :=
  ss <- get_s ;;
  match list_get (ss_list ss) ssrc with
  | None => exit_with st_no_ctx
  | Some s =>
    put_s {| ss_template := ss_template ss; ss_list := list_remove (ss_list ss) ssrc; ss_cap := ss_cap ss |} ;;;
    stream_dealloc s
  end.

Definition compatible (s : stream) (p : policy) : Z :=
  if negb (Bool.eqb (s_use_mki s) (p_use_mki p)) then st_bad_param
  else if s_use_mki s && negb (s_mki_size s =? p_mki_size p) then st_bad_param
  else st_ok.

(* stream_update (explicit SSRC): build the replacement, remove the old stream, insert the new one
   with the old index, SRTCP window and a rollover counter imposed by set_roc that no packet has taken up yet *)
Definition stream_update_specific (p : policy) : M unit :=
  check_st (valid_policy p) ;;;
  ss <- get_s ;;
  match list_get (ss_list ss) (p_ssrc p) with
  | None => exit_with st_bad_param
  | Some old =>
    check_st (compatible old p) ;;;
    n <- build_stream p ;;
    stream_remove (p_ssrc p) ;;;
    let rx := s_rdbx n in
    insert_or_dealloc
      (set_pending (set_rdb (set_rdbx n {| index := index (s_rdbx old); wlen := wlen rx; mask := mask rx |}) (s_rdb old))
                   (s_pending_roc old))
  end.

(* a stream list under construction (update_template_streams) *)
Definition nl_insert (nl : list stream * Z) (s : stream) : M (Z * (list stream * Z)) :=
  if lenZ (fst nl) =? snd nl then
    ok <- alloc1 ;;
    if negb ok then ret (st_alloc_fail, nl)
    else free_n 1 ;;; ret (st_ok, (fst nl ++ [s], 2 * snd nl))
  else ret (st_ok, (fst nl ++ [s], snd nl)).

(* update_template_stream_cb over the old list; returns (status, new list) *)
Fixpoint move_streams (fuel : nat) (newt : stream) (nl : list stream * Z) : M (Z * (list stream * Z)) :=
  match fuel with
  | O => ret (st_ok, nl)
  | S f =>
    ss <- get_s ;;
    match ss_list ss with
    | [] => ret (st_ok, nl)
    | s :: rest =>
      if negb (s_clone s) then
        (* explicit stream: moved unchanged *)
        put_s {| ss_template := ss_template ss; ss_list := list_remove (ss_list ss) (s_ssrc s); ss_cap := ss_cap ss |} ;;;
        r <- nl_insert nl s ;;
        if fst r =? st_ok then move_streams f newt (snd r)
        else stream_dealloc s ;;; ret (fst r, nl)
      else
        (* clone of the old template: removed, re-cloned from the new template *)
        rm <- catch (stream_remove (s_ssrc s)) ;;
        match rm with
        | inr st => ret (st, nl)
        | inl _ =>
          c <- catch (stream_clone newt (s_ssrc s)) ;;
          match c with
          | inr st => ret (st, nl)
          | inl ns =>
            let ns' := set_pending (set_rdb (set_rdbx ns {| index := index (s_rdbx s); wlen := wlen (s_rdbx ns); mask := mask (s_rdbx ns) |}) (s_rdb s))
                                   (s_pending_roc s) in
            r <- nl_insert nl ns' ;;
            if fst r =? st_ok then move_streams f newt (snd r)
            else stream_dealloc ns ;;; ret (fst r, nl)
          end
        end
    end
  end.

(* update_template_streams *)
Definition update_template (p : policy) : M unit :=
  check_st (valid_policy p) ;;;
  ss <- get_s ;;
  match ss_template ss with
  | None => exit_with st_bad_param
  | Some oldt =>
    check_st (compatible oldt p) ;;;
    mark <- live_now ;;
    owned <- stream_alloc p ;;
    r <- catch (stream_init p owned) ;;
    match r with
    | inr st => release_since mark ;;; exit_with st   (* srtp_stream_dealloc(new_stream_template, NULL) *)
    | inl (newt, _) =>
      (* srtp_stream_list_alloc *)
      ok1 <- alloc1 ;;
      if negb ok1 then stream_dealloc newt ;;; exit_with st_alloc_fail else
      ok2 <- alloc1 ;;
      if negb ok2 then free_n 1 ;;; stream_dealloc newt ;;; exit_with st_alloc_fail else
      mv <- move_streams (S (length (ss_list ss))) newt ([], INITIAL_STREAM_INDEX_SIZE_c) ;;
      let '(st, nl) := mv in
      if negb (st =? st_ok) then
        free_n (fold_right (fun s a => a + stream_blocks s) 0 (fst nl)) ;;;
        free_n 2 ;;; stream_dealloc newt ;;; exit_with st
      else
        ss2 <- get_s ;;
        free_n (fold_right (fun s a => a + stream_blocks s) 0 (ss_list ss2)) ;;;
        free_n 2 ;;; stream_dealloc oldt ;;;
        put_s {| ss_template := Some newt; ss_list := fst nl; ss_cap := snd nl |}
    end
  end.

(* srtp_stream_update *)
Definition stream_update (p : policy) : M unit :=
  check_st (valid_policy p) ;;;
  if (p_ssrc_type p =? ssrc_any_outbound_c) || (p_ssrc_type p =? ssrc_any_inbound_c) then update_template p
  else if p_ssrc_type p =? ssrc_specific_c then stream_update_specific p
  else exit_with st_bad_param.

(* srtp_update over a policy chain (NULL chain = bad_param) *)
Fixpoint update_all (ps : list policy) : M unit :=
  match ps with
  | [] => ret tt
  | p :: t => stream_update p ;;; update_all t
  end.
Definition session_update (ps : list policy) : M unit :=
  match ps with
  | [] => exit_with st_bad_param
  | p :: _ => check_st (valid_policy p) ;;; update_all ps
  end.

(* srtp_stream_set_roc / srtp_stream_get_roc *)
Definition set_roc (ssrc roc : Z) : M unit :=
  ss <- get_s ;;
  match list_get (ss_list ss) ssrc with
  | None => exit_with st_bad_param
  | Some s => put_stream (RList ssrc) (set_pending s roc)
  end.
Definition get_roc (ssrc : Z) : M Z :=
  ss <- get_s ;;
  match list_get (ss_list ss) ssrc with
  | None => exit_with st_bad_param
  | Some s => ret (rdbx_roc (s_rdbx s))
  end.

(* stream_get_protect_trailer_length: (status, length) *)
Definition stream_trailer (s : stream) (is_rtp : bool) (mki_index : Z) : Z * Z :=
  if s_use_mki s && ((mki_index <? 0) || (lenZ (s_keys s) <=? mki_index)) then (st_bad_mki, 0)
  else
    let i := if s_use_mki s then mki_index else 0 in
    match nth_error (s_keys s) (zn i) with
    | None => (st_bad_mki, 0)
    | Some k =>
      let m := if s_use_mki s then s_mki_size s else 0 in
      (st_ok, if is_rtp then m + ak_tag (k_rtp_a k) else m + ak_tag (k_rtcp_a k) + sizeof_srtcp_trailer_c)
    end.

Definition trailer_length (is_rtp : bool) (mki_index : Z) : M Z :=
  ss <- get_s ;;
  let t0 := match ss_template ss with
            | Some t => (true, snd (stream_trailer t is_rtp mki_index))
            | None => (false, 0) end in
  let r := fold_left (fun acc s =>
                        let '(st, l) := stream_trailer s is_rtp mki_index in
                        if st =? st_ok then (true, if snd acc <? l then l else snd acc) else acc)
                     (ss_list ss) t0 in
  if fst r then ret (snd r) else exit_with st_bad_param.
