(* EqualProofs.v — srtp_octet_string_equal (EqualModel.v): both chunk
   schedules return true exactly when the two strings are equal. *)
From Coq Require Import Arith NArith ZArith List Bool Lia ZifyBool ZifyN.
From Srtp Require Import Util BitvecProofs EqualModel.
Import ListNotations.
Local Open Scope N_scope.
Ltac Zify.zify_post_hook ::= Z.div_mod_to_equations.

Definition octets (l : bytes) : Prop := Forall (fun x => x < 256) l.

(* ------------------------------------------------------------------ *)
(* take / drop                                                          *)

Lemma take_length {A} n (l : list A) : length (take n l) = Nat.min n (length l).
Proof.
  revert l. induction n as [|n IH]; intros l; destruct l as [|x r];
    cbn [take length Nat.min]; auto.
Qed.

Lemma drop_length {A} n (l : list A) : length (drop n l) = (length l - n)%nat.
Proof.
  revert l. induction n as [|n IH]; intros l; destruct l as [|x r];
    cbn [drop length Nat.sub]; auto.
Qed.

Lemma take_drop {A} n (l : list A) : take n l ++ drop n l = l.
Proof.
  revert l. induction n as [|n IH]; intros l; destruct l as [|x r]; cbn [take drop app]; auto.
  rewrite IH. reflexivity.
Qed.

Lemma drop_drop {A} n k (l : list A) : drop k (drop n l) = drop (n + k) l.
Proof.
  revert l. induction n as [|n IH]; intros l.
  - reflexivity.
  - destruct l as [|x r]; cbn [drop Nat.add].
    + destruct k; reflexivity.
    + apply IH.
Qed.

Lemma drop_all {A} n (l : list A) : (length l <= n)%nat -> drop n l = [].
Proof.
  revert l. induction n as [|n IH]; intros l Hl; destruct l as [|x r];
    cbn [drop length] in *; auto; try lia.
  apply IH. lia.
Qed.

Lemma octets_take n l : octets l -> octets (take n l).
Proof.
  unfold octets. intros Hl. revert n.
  induction Hl as [|x r Hx Hr IH]; intros n; destruct n; cbn [take]; constructor; auto.
Qed.

Lemma octets_drop n l : octets l -> octets (drop n l).
Proof.
  unfold octets. intros Hl. revert n.
  induction Hl as [|x r Hx Hr IH]; intros n; destruct n; cbn [drop]; try constructor; auto.
Qed.

(* ------------------------------------------------------------------ *)
(* little-endian loads                                                   *)

Lemma le_val_cons x r : le_val (x :: r) = x + 256 * le_val r.
Proof. reflexivity. Qed.

Lemma le_val_inj x y :
  length x = length y -> octets x -> octets y -> le_val x = le_val y -> x = y.
Proof.
  unfold octets. intros Hlen Hx. revert y Hlen.
  induction Hx as [|u r Hu Hr IH]; intros y Hlen Hy Hv; destruct y as [|v s];
    cbn [length] in Hlen; try discriminate; [reflexivity|].
  inversion Hy as [|v' s' Hv' Hs']; subst v' s'.
  rewrite !le_val_cons in Hv.
  assert (Huv : u = v) by lia. assert (Hrs : le_val r = le_val s) by lia.
  f_equal; [exact Huv|]. apply IH; [lia|exact Hs'|exact Hrs].
Qed.

Lemma le_val_lt l : octets l -> le_val l < 2 ^ (8 * N.of_nat (length l)).
Proof.
  unfold octets. intros Hl. induction Hl as [|x r Hx Hr IH].
  - cbn [le_val length]. change (8 * N.of_nat 0) with 0. rewrite N.pow_0_r. lia.
  - rewrite le_val_cons. cbn [length]. rewrite Nat2N.inj_succ, N.mul_succ_r, N.add_comm.
    rewrite N.pow_add_r. change (2 ^ 8) with 256.
    set (P := 2 ^ (8 * N.of_nat (length r))) in *. lia.
Qed.

Lemma xor_at_lt a b pos k e :
  octets a -> octets b -> 8 * N.of_nat k <= e -> xor_at a b pos k < 2 ^ e.
Proof.
  intros Ha Hb He. unfold xor_at, load, slice.
  assert (Hgen : forall p, octets p -> le_val (take k (drop pos p)) < 2 ^ e).
  { intros p Hp.
    eapply N.lt_le_trans; [apply le_val_lt, octets_take, octets_drop, Hp|].
    apply N.pow_le_mono_r; [discriminate|]. rewrite take_length. lia. }
  apply lxor_lt_pow2; apply Hgen; assumption.
Qed.

(* ------------------------------------------------------------------ *)
(* one chunk: OR-ing in the XOR of the chunk [pos, pos+k) moves the
   invariant "accumulator is zero and the strings agree from pos on" to
   pos+k.  `drop pos a = drop pos b` says the not yet covered suffixes
   [pos, len) agree. *)

Section Strings.
Variables a b : bytes.
Hypothesis Hlen : length a = length b.
Hypothesis Ha : octets a.
Hypothesis Hb : octets b.

Definition agree_from (pos : nat) : Prop := drop pos a = drop pos b.

Lemma step_iff pos k acc :
  (pos + k <= length a)%nat ->
  (N.lor acc (xor_at a b pos k) = 0 /\ agree_from (pos + k)) <->
  (acc = 0 /\ agree_from pos).
Proof.
  intros Hk. unfold agree_from, xor_at, load, slice.
  rewrite N.lor_eq_0_iff, N.lxor_eq_0_iff, <- !drop_drop.
  set (a' := drop pos a). set (b' := drop pos b).
  assert (Hla : length (take k a') = k)
    by (rewrite take_length; unfold a'; rewrite drop_length; lia).
  assert (Hlb : length (take k b') = k)
    by (rewrite take_length; unfold b'; rewrite drop_length; lia).
  split.
  - intros [[Hacc Hv] Hd]. split; [exact Hacc|].
    apply le_val_inj in Hv;
      [|lia|apply octets_take, octets_drop, Ha|apply octets_take, octets_drop, Hb].
    rewrite <- (take_drop k a'), <- (take_drop k b'), Hv, Hd. reflexivity.
  - intros [Hacc Hd]. rewrite Hd. auto.
Qed.

Lemma agree_from_0 : agree_from 0 <-> a = b.
Proof. unfold agree_from. cbn [drop]. reflexivity. Qed.

Lemma agree_from_end pos : (length a <= pos)%nat -> agree_from pos.
Proof.
  intros Hp. unfold agree_from. rewrite !drop_all by lia. reflexivity.
Qed.

(* while (b < end) ... *)
Lemma byte_loop_iff n pos acc :
  (pos + n = length a)%nat ->
  (byte_loop n a b pos acc = 0 <-> acc = 0 /\ agree_from pos).
Proof.
  revert pos acc. induction n as [|n IH]; intros pos acc Hn; cbn [byte_loop].
  - split; [intros Hacc; split; [exact Hacc|apply agree_from_end; lia]|tauto].
  - rewrite IH by lia. apply step_iff. lia.
Qed.

(* the two-accumulator main loop, for chunk size k (4: portable, 16: SSE2) *)
Fixpoint gen_loop (k n : nat) (pos : nat) (acc1 acc2 : N) : nat * N * N :=
  match n with
  | O => (pos, acc1, acc2)
  | S n' => gen_loop k n' (pos + (k + k))
              (N.lor acc1 (xor_at a b pos k))
              (N.lor acc2 (xor_at a b (pos + k) k))
  end.

Lemma gen_loop_spec k n : forall pos acc1 acc2 pos' r1 r2,
  (pos + (k + k) * n <= length a)%nat ->
  gen_loop k n pos acc1 acc2 = (pos', r1, r2) ->
  pos' = (pos + (k + k) * n)%nat /\
  ((r1 = 0 /\ r2 = 0 /\ agree_from pos') <-> (acc1 = 0 /\ acc2 = 0 /\ agree_from pos)) /\
  (forall e, 8 * N.of_nat k <= e -> acc1 < 2 ^ e -> acc2 < 2 ^ e -> r1 < 2 ^ e /\ r2 < 2 ^ e).
Proof.
  induction n as [|n IH]; intros pos acc1 acc2 pos' r1 r2 Hn HL; cbn [gen_loop] in HL.
  - inversion HL; subst pos' r1 r2. split; [lia|]. split; [tauto|]. auto.
  - apply IH in HL; [|lia]. destruct HL as [Hpos [Hiff Hbound]].
    split; [lia|]. split.
    + rewrite Hiff.
      pose proof (step_iff (pos + k) k acc2 ltac:(lia)) as S2.
      pose proof (step_iff pos k acc1 ltac:(lia)) as S1.
      replace (pos + k + k)%nat with (pos + (k + k))%nat in S2 by lia.
      tauto.
    + intros e He H1 H2. apply Hbound; [exact He| |].
      * apply lor_lt_pow2; [exact H1|apply xor_at_lt; assumption].
      * apply lor_lt_pow2; [exact H2|apply xor_at_lt; assumption].
Qed.

Lemma port_loop_gen n : forall pos acc1 acc2,
  port_loop n a b pos acc1 acc2 = gen_loop 4 n pos acc1 acc2.
Proof.
  induction n as [|n IH]; intros pos acc1 acc2; cbn [port_loop gen_loop]; [reflexivity|].
  apply IH.
Qed.

Lemma sse_loop_gen n : forall pos acc1 acc2,
  sse_loop n a b pos acc1 acc2 = gen_loop 16 n pos acc1 acc2.
Proof.
  induction n as [|n IH]; intros pos acc1 acc2; cbn [sse_loop gen_loop]; [reflexivity|].
  apply IH.
Qed.

(* ---- portable schedule: 8 8 ... 8 [4] 1 ... 1 ---- *)

Lemma oct_equal_portable_iff_aux :
  oct_equal_portable a b (length a) = true <-> a = b.
Proof.
  unfold oct_equal_portable. set (len := length a).
  destruct (port_loop (Nat.div len 8) a b 0 0 0) as [[pos r1] r2] eqn:HL.
  rewrite port_loop_gen in HL.
  pose proof (Nat.mul_div_le len 8 ltac:(discriminate)) as Hdiv.
  apply gen_loop_spec in HL; [|fold len; lia].
  destruct HL as [Hpos [Hiff _]]. rewrite <- agree_from_0.
  destruct (4 <=? len - pos)%nat eqn:H4.
  - apply Nat.leb_le in H4.
    rewrite N.eqb_eq, byte_loop_iff by (fold len; lia).
    rewrite step_iff by (fold len; lia).
    rewrite N.lor_eq_0_iff. tauto.
  - apply Nat.leb_gt in H4.
    rewrite N.eqb_eq, byte_loop_iff by (fold len; lia).
    rewrite N.lor_eq_0_iff. tauto.
Qed.

(* ---- SSE2 schedule: 32 32 ... 32 [16] [8] 1 ... 1 ---- *)

Lemma fold128_zero_iff x : x < 2 ^ 128 -> (fold128 x = 0 <-> x = 0).
Proof.
  intros Hx. split.
  2:{ intros Hz. rewrite Hz. reflexivity. }
  intros Hf. apply N.bits_inj_0. intros m.
  destruct (128 <=? m) eqn:Hm.
  - apply (small_bits x 128 m Hx). lia.
  - remember (m mod 32) as k eqn:Ek.
    assert (Hk : N.testbit (fold128 x) k = false) by (rewrite Hf; apply N.bits_0).
    unfold fold128 in Hk. cbv zeta in Hk.
    rewrite N.mod_pow2_bits_low in Hk by lia.
    repeat rewrite ?N.lor_spec, ?N.shiftr_spec' in Hk.
    apply orb_false_iff in Hk. destruct Hk as [Hk1 Hk2].
    apply orb_false_iff in Hk1. destruct Hk1 as [B0 B64].
    apply orb_false_iff in Hk2. destruct Hk2 as [B32 B96].
    assert (Hcase : m = k \/ m = k + 64 \/ m = k + 32 \/ m = k + 32 + 64) by lia.
    destruct Hcase as [E|[E|[E|E]]]; rewrite E; assumption.
Qed.

Lemma oct_equal_sse2_iff_aux :
  oct_equal_sse2 a b (length a) = true <-> a = b.
Proof.
  unfold oct_equal_sse2. set (len := length a).
  destruct (sse_loop (Nat.div len 32) a b 0 0 0) as [[pos r1] r2] eqn:HL.
  rewrite sse_loop_gen in HL.
  pose proof (Nat.mul_div_le len 32 ltac:(discriminate)) as Hdiv.
  apply gen_loop_spec in HL; [|fold len; lia].
  destruct HL as [Hpos [Hiff Hbound]]. rewrite <- agree_from_0.
  assert (H0 : 0 < 2 ^ 128) by apply zero_lt_pow2.
  destruct (Hbound 128 ltac:(change (8 * N.of_nat 16) with 128; lia) H0 H0) as [Hr1 Hr2].
  assert (Hm0 : N.lor r1 r2 < 2 ^ 128) by (apply lor_lt_pow2; assumption).
  assert (Hx : forall p k, (k <= 16)%nat -> xor_at a b p k < 2 ^ 128)
    by (intros p k Hk; apply xor_at_lt; [assumption|assumption|lia]).
  destruct (16 <=? len - pos)%nat eqn:H16.
  - apply Nat.leb_le in H16.
    destruct (8 <=? len - (pos + 16))%nat eqn:H8.
    + apply Nat.leb_le in H8.
      rewrite N.eqb_eq, byte_loop_iff by (fold len; lia).
      rewrite fold128_zero_iff by (repeat apply lor_lt_pow2; try assumption; apply Hx; lia).
      rewrite step_iff by (fold len; lia).
      rewrite step_iff by (fold len; lia).
      rewrite N.lor_eq_0_iff. tauto.
    + apply Nat.leb_gt in H8.
      rewrite N.eqb_eq, byte_loop_iff by (fold len; lia).
      rewrite fold128_zero_iff by (repeat apply lor_lt_pow2; try assumption; apply Hx; lia).
      rewrite step_iff by (fold len; lia).
      rewrite N.lor_eq_0_iff. tauto.
  - apply Nat.leb_gt in H16.
    destruct (8 <=? len - pos)%nat eqn:H8.
    + apply Nat.leb_le in H8.
      rewrite N.eqb_eq, byte_loop_iff by (fold len; lia).
      rewrite fold128_zero_iff by (repeat apply lor_lt_pow2; try assumption; apply Hx; lia).
      rewrite step_iff by (fold len; lia).
      rewrite N.lor_eq_0_iff. tauto.
    + apply Nat.leb_gt in H8.
      rewrite N.eqb_eq, byte_loop_iff by (fold len; lia).
      rewrite fold128_zero_iff by (repeat apply lor_lt_pow2; try assumption; apply Hx; lia).
      rewrite N.lor_eq_0_iff. tauto.
Qed.

End Strings.

(* ------------------------------------------------------------------ *)
(* main statements                                                       *)

Theorem oct_equal_iff : forall a b n,
  length a = n -> length b = n ->
  Forall (fun x => x < 256) a -> Forall (fun x => x < 256) b ->
  (oct_equal_sse2 a b n = true <-> a = b).
Proof.
  intros a b n Hla Hlb Ha Hb. subst n.
  apply oct_equal_sse2_iff_aux; [symmetry; exact Hlb|exact Ha|exact Hb].
Qed.

Print Assumptions oct_equal_iff.

Theorem oct_equal_portable_iff : forall a b n,
  length a = n -> length b = n ->
  Forall (fun x => x < 256) a -> Forall (fun x => x < 256) b ->
  (oct_equal_portable a b n = true <-> a = b).
Proof.
  intros a b n Hla Hlb Ha Hb. subst n.
  apply oct_equal_portable_iff_aux; [symmetry; exact Hlb|exact Ha|exact Hb].
Qed.

Print Assumptions oct_equal_portable_iff.

Theorem oct_equal_agree : forall a b n,
  length a = n -> length b = n ->
  Forall (fun x => x < 256) a -> Forall (fun x => x < 256) b ->
  oct_equal_sse2 a b n = oct_equal_portable a b n.
Proof.
  intros a b n Hla Hlb Ha Hb.
  pose proof (oct_equal_iff a b n Hla Hlb Ha Hb) as H1.
  pose proof (oct_equal_portable_iff a b n Hla Hlb Ha Hb) as H2.
  destruct (oct_equal_sse2 a b n); destruct (oct_equal_portable a b n);
    try reflexivity; exfalso.
  - assert (false = true) by tauto. discriminate.
  - assert (false = true) by tauto. discriminate.
Qed.

Print Assumptions oct_equal_agree.

(* the comparison used by the session model (Util.beqb) is plain equality,
   hence equal to both C schedules *)
Lemma beqb_iff a b : beqb a b = true <-> a = b.
Proof.
  revert b. induction a as [|x r IH]; intros b; destruct b as [|y s]; cbn [beqb].
  - tauto.
  - split; discriminate.
  - split; discriminate.
  - rewrite andb_true_iff, N.eqb_eq, IH. split.
    + intros [Hxy Hrs]. rewrite Hxy, Hrs. reflexivity.
    + intros Heq. inversion Heq. auto.
Qed.

Theorem oct_equal_beqb : forall a b n,
  length a = n -> length b = n ->
  Forall (fun x => x < 256) a -> Forall (fun x => x < 256) b ->
  oct_equal_sse2 a b n = beqb a b /\ oct_equal_portable a b n = beqb a b.
Proof.
  intros a b n Hla Hlb Ha Hb.
  pose proof (oct_equal_iff a b n Hla Hlb Ha Hb) as H1.
  pose proof (oct_equal_portable_iff a b n Hla Hlb Ha Hb) as H2.
  pose proof (beqb_iff a b) as H3.
  destruct (oct_equal_sse2 a b n); destruct (oct_equal_portable a b n);
    destruct (beqb a b); split; try reflexivity; exfalso;
    assert (false = true) by tauto; discriminate.
Qed.

Print Assumptions oct_equal_beqb.

(* ------------------------------------------------------------------ *)
(* non-vacuity: every step of both schedules is exercised (len = 61 =
   32 + 16 + 8 + 5 = 7*8 + 4 + 1), a difference in each region is seen *)

Definition ex_a : bytes := map N.of_nat (seq 0 61).
Definition ex_flip (i : nat) : bytes := splice i [255] ex_a.

Example ex_equal : oct_equal_sse2 ex_a ex_a 61 = true /\ oct_equal_portable ex_a ex_a 61 = true.
Proof. vm_compute. split; reflexivity. Qed.

Example ex_differ :
  forallb (fun i => negb (oct_equal_sse2 ex_a (ex_flip i) 61) &&
                    negb (oct_equal_portable ex_a (ex_flip i) 61)) (seq 0 61) = true.
Proof. vm_compute. reflexivity. Qed.

Example ex_empty : oct_equal_sse2 [] [] 0 = true /\ oct_equal_portable [] [] 0 = true.
Proof. vm_compute. split; reflexivity. Qed.
