(* BoundsRtp.v — C10 for SRTP: srtp_protect and srtp_unprotect never access the packet
   buffers out of bounds (b_oob stays false). *)
From Coq Require Import NArith ZArith List Bool Lia.
From Srtp Require Import Util Constants KeyLimit Rdb Rdbx Icm World Stream Rtp Rtcp Session MonadLemmas EnvelopeProofs WfProofs BoundsRtcp.
Import ListNotations.
Local Open Scope Z_scope.

(* ---- RTP header facts ---- *)
Lemma hdr_cc_range p : 0 <= hdr_cc p < 16.
Proof. unfold hdr_cc. apply Z.mod_pos_bound. lia. Qed.
Lemma hdr_x_range p : 0 <= hdr_x p < 2.
Proof. unfold hdr_x. apply Z.mod_pos_bound. lia. Qed.
Lemma hdr_len_eq p : hdr_len p = 12 + 4 * hdr_cc p.
Proof. reflexivity. Qed.
Lemma xtn_len_ge p : 4 <= xtn_len p.
Proof. unfold xtn_len. pose proof (be16_nonneg p (zn (hdr_len p + 2))). lia. Qed.

Lemma validate_rtp_ok p len :
  validate_rtp p len = st_ok ->
  12 <= len /\ hdr_len p <= len /\ (hdr_x p = 1 -> hdr_len p + xtn_len p <= len).
Proof.
  unfold validate_rtp. change octets_in_rtp_header_c with 12. change octets_in_rtp_xtn_hdr_c with 4.
  destruct (len <? 12) eqn:E1; [discriminate|].
  destruct (len <? hdr_len p) eqn:E2; [discriminate|].
  apply Z.ltb_ge in E1, E2.
  destruct (hdr_x p =? 1) eqn:EX.
  - destruct (len <? hdr_len p + 4) eqn:E3; [discriminate|].
    destruct (len <? hdr_len p + xtn_len p) eqn:E4; [discriminate|].
    apply Z.ltb_ge in E4. intros _. auto.
  - apply Z.eqb_neq in EX. intros _. repeat split; try assumption. intros; contradiction.
Qed.

(* ---- RFC 6904 walks keep the length of the extension block ---- *)
Lemma xtn_one_length fuel ids : forall cs d p d', xtn_one fuel ids cs d p = Some d' -> length d' = length d.
Proof.
  induction fuel as [|f IH]; intros cs d p d' H; cbn [xtn_one] in H; [injection H as <-; reflexivity|].
  destruct (p <? lenZ d); [|injection H as <-; reflexivity].
  destruct (lenZ d <? _); [discriminate|].
  destruct (_ =? 15)%N; [injection H as <-; reflexivity|].
  destruct (cipher_output cs _) as [[s cs'] ks].
  destruct (negb (s =? st_ok)); [discriminate|].
  apply IH in H. rewrite H. destruct (in_ids ids _); [apply splice_length|reflexivity].
Qed.
Lemma xtn_two_length fuel ids : forall cs d p d', xtn_two fuel ids cs d p = Some d' -> length d' = length d.
Proof.
  induction fuel as [|f IH]; intros cs d p d' H; cbn [xtn_two] in H; [injection H as <-; reflexivity|].
  destruct (p + 1 <? lenZ d); [|injection H as <-; reflexivity].
  destruct (lenZ d <? _); [discriminate|].
  destruct (cipher_output cs _) as [[s cs'] ks].
  destruct (negb (s =? st_ok)); [discriminate|].
  apply IH in H. rewrite H. destruct (_ && in_ids ids _); [apply splice_length|reflexivity].
Qed.

(* what is known of the destination between the header copy and the RFC 6904 step: the four
   octets of the extension header are those of the input packet *)
Definition CI (pkt dd : bytes) : Prop :=
  hdr_x pkt = 1 -> slice (zn (hdr_len pkt)) 4 dd = slice (zn (hdr_len pkt)) 4 pkt.

Lemma CI_above pkt off v dd :
  (hdr_x pkt = 1 -> hdr_len pkt + 4 <= off) -> CI pkt dd -> CI pkt (splice (zn off) v dd).
Proof.
  intros H HC X. pose proof (hdr_cc_range pkt). pose proof (hdr_len_eq pkt).
  rewrite slice_splice_below by (specialize (H X); unfold zn; lia). exact (HC X).
Qed.

Section RTP.
Variable SP : stream -> Prop.
Hypothesis SPc : cfg_closed SP.
Hypothesis SPwf : forall st, SP st -> stream_wf st.
Variables (L C : Z) (al : bool) (src d0 : bytes).
Hypothesis HL : 0 <= L < 9223372036854775808.
Hypothesis HC : 0 <= C < 9223372036854775808.
Hypothesis HD : C <= lenZ d0.
Hypothesis HA : al = true -> L <= lenZ d0.
Hypothesis HS : al = false -> L <= lenZ src.

Notation I := (Inv SP L C al src d0).
Ltac hs := try exact SPc; try exact SPwf.
Ltac hexit := first [apply h_bind_exit | apply h_exit]; apply inv_noob.
Ltac hseq K := apply h_bind with (R := fun _ => I K); [ | intros ? ].
Ltac hkeep := apply h_ret; intros ? ?; assumption.
Ltac hany := apply h_ret; intros ?; apply inv_any.
Ltac hif := match goal with |- hoare _ (if ?c then _ else _) _ _ => destruct c end.

Lemma h_process_xtn (K : bytes -> Prop) st pkt xcs :
  (forall dd, lenZ dd = lenZ d0 -> K dd -> slice (zn (hdr_len pkt)) 4 dd = slice (zn (hdr_len pkt)) 4 pkt) ->
  hdr_len pkt + xtn_len pkt <= C ->
  hoare (I K) (process_xtn st pkt xcs) (fun _ => I Kany) NoOob.
Proof.
  intros HK HB. pose proof (hdr_cc_range pkt) as CC. pose proof (hdr_len_eq pkt) as HLn.
  pose proof (xtn_len_ge pkt) as XL.
  unfold process_xtn.
  eapply h_bind; [apply h_rd_dst; lia|intros h]. apply h_pure; intros (dd & Kdd & Ldd & ->).
  change (zn 4) with 4%nat. rewrite (HK dd Ldd Kdd).
  assert (EN : be16 (slice (zn (hdr_len pkt)) 4 pkt) 2 * 4 = xtn_len pkt - 4).
  { rewrite be16_slice4. unfold xtn_len. replace (zn (hdr_len pkt + 2)) with (zn (hdr_len pkt) + 2)%nat by (unfold zn; lia). lia. }
  rewrite EN.
  hif; [hexit|].
  eapply h_bind; [apply h_rd_dst; lia|intros d]. apply h_pure; intros (dd2 & _ & _ & ->).
  pose proof (lenZ_slice_le (hdr_len pkt + 4) (xtn_len pkt - 4) dd2 ltac:(lia)) as LD.
  set (d := slice (zn (hdr_len pkt + 4)) (zn (xtn_len pkt - 4)) dd2) in *.
  match goal with |- context [match ?r with Some _ => _ | None => _ end] => destruct r as [d'|] eqn:ER end; [|hexit].
  assert (LE : length d' = length d).
  { destruct (_ =? xtn_hdr_one_byte_profile_c); [exact (xtn_one_length _ _ _ _ _ _ ER)|exact (xtn_two_length _ _ _ _ _ _ ER)]. }
  apply h_wr_dst_any; [lia|]. unfold lenZ in *. lia.
Qed.

(* with a cryptex profile in the extension header the RFC 6904 step only reads the four
   header octets: it refuses the profile (parse_err) before looking at the elements *)
Definition cryptex_profile (pkt : bytes) : Prop :=
  be16 pkt (zn (hdr_len pkt)) = cryptex_one_byte_profile_c \/ be16 pkt (zn (hdr_len pkt)) = cryptex_two_byte_profile_c.
Lemma h_process_xtn_cx (K : bytes -> Prop) st pkt xcs :
  (forall dd, lenZ dd = lenZ d0 -> K dd -> slice (zn (hdr_len pkt)) 4 dd = slice (zn (hdr_len pkt)) 4 pkt) ->
  hdr_len pkt + 4 <= lenZ d0 -> cryptex_profile pkt ->
  hoare (I K) (process_xtn st pkt xcs) (fun _ => I Kany) NoOob.
Proof.
  intros HK HB HP. pose proof (hdr_cc_range pkt) as CC. pose proof (hdr_len_eq pkt) as HLn.
  unfold process_xtn.
  eapply h_bind; [apply h_rd_dst; lia|intros h]. apply h_pure; intros (dd & Kdd & Ldd & ->).
  change (zn 4) with 4%nat. rewrite (HK dd Ldd Kdd). rewrite be16_slice4_0.
  match goal with |- hoare _ (if ?c then _ else _) _ _ => destruct c eqn:E end; [hexit|].
  exfalso. destruct HP as [P|P]; rewrite P in E; vm_compute in E; discriminate.
Qed.

Lemma h_cryptex_adjust (K : bytes -> Prop) pkt :
  hdr_len pkt + 4 <= C -> hoare (I K) (cryptex_adjust pkt) (fun _ => I Kany) NoOob.
Proof.
  intros HB. pose proof (hdr_cc_range pkt) as CC. pose proof (hdr_len_eq pkt) as HLn.
  unfold cryptex_adjust. change octets_in_rtp_header_c with 12.
  destruct (hdr_cc pkt =? 0); [hany|].
  eapply h_bind; [apply h_rd_dst; lia|intros tmp]. apply h_pure; intros (dd & _ & _ & ->).
  eapply h_bind; [apply h_rd_dst; lia|intros csrc]. apply h_pure; intros (dd2 & _ & _ & ->).
  pose proof (lenZ_slice_le (hdr_len pkt) 4 dd ltac:(lia)).
  pose proof (lenZ_slice_le 12 (4 * hdr_cc pkt) dd2 ltac:(lia)).
  hseq Kany; [apply h_wr_dst_any; lia|]. apply h_wr_dst_any; lia.
Qed.
Lemma h_cryptex_restore (K : bytes -> Prop) pkt :
  hdr_len pkt + 4 <= C -> hoare (I K) (cryptex_restore pkt) (fun _ => I Kany) NoOob.
Proof.
  intros HB. pose proof (hdr_cc_range pkt) as CC. pose proof (hdr_len_eq pkt) as HLn.
  unfold cryptex_restore. change octets_in_rtp_header_c with 12.
  destruct (hdr_cc pkt =? 0); [hany|].
  eapply h_bind; [apply h_rd_dst; lia|intros tmp]. apply h_pure; intros (dd & _ & _ & ->).
  eapply h_bind; [apply h_rd_dst; lia|intros csrc]. apply h_pure; intros (dd2 & _ & _ & ->).
  pose proof (lenZ_slice_le 12 4 dd ltac:(lia)).
  pose proof (lenZ_slice_le (12 + 4) (4 * hdr_cc pkt) dd2 ltac:(lia)).
  hseq Kany; [apply h_wr_dst_any; lia|]. apply h_wr_dst_any; lia.
Qed.
Lemma h_set_profile (K : bytes -> Prop) pkt v :
  hdr_len pkt + 2 <= C -> hoare (I K) (set_profile pkt v) (fun _ => I Kany) NoOob.
Proof.
  intros HB. pose proof (hdr_cc_range pkt) as CC. pose proof (hdr_len_eq pkt) as HLn.
  unfold set_profile. apply h_wr_dst_any; [lia|]. rewrite lenZ_be_bytes. lia.
Qed.
Lemma h_crypt_dst_region (K : bytes -> Prop) cs off n :
  0 <= off -> 0 <= n -> off + n <= C ->
  hoare (I K) (crypt_dst_region cs off n) (fun _ => I Kany) NoOob.
Proof.
  intros H1 H2 H3. unfold crypt_dst_region.
  eapply h_bind; [apply h_rd_dst; lia|intros d]. apply h_pure; intros (dd & _ & _ & ->).
  pose proof (cipher_encrypt_le cs (slice (zn off) (zn n) dd)) as LE.
  destruct (cipher_encrypt cs _) as [[s cs'] o]. cbn [snd] in LE.
  pose proof (lenZ_slice_le off n dd H2).
  destruct (negb (s =? st_ok)); [hexit|].
  hseq Kany; [apply h_wr_dst_any; lia|hkeep].
Qed.

(* the payload step shared by protect and unprotect *)
Lemma h_payload (K : bytes -> Prop) (conf : bool) cs es el :
  0 <= es -> 0 <= el -> es + el <= L -> es + el <= C ->
  hoare (I K)
    (if conf then
       d <- rd_src es el ;;
       let '(s, _, o) := cipher_encrypt cs d in
       if negb (s =? st_ok) then exit_with st_cipher_fail else wr_dst es o
     else if al then ret tt
     else (d <- rd_src es el ;; wr_dst es d))
    (fun _ => I Kany) NoOob.
Proof.
  intros H1 H2 H3 H4. destruct conf.
  - eapply h_bind; [apply h_rd_src; lia|intros d]. apply h_pure; intros (dd & _ & _ & ->).
    match goal with |- context [cipher_encrypt ?a ?d] =>
      pose proof (cipher_encrypt_le a d) as LE; destruct (cipher_encrypt a d) as [[s c'] o] end.
    cbn [snd] in LE. pose proof (lenZ_slice_le es el (if al then dd else src) H2).
    destruct (negb (s =? st_ok)); [hexit|apply h_wr_dst_any; lia].
  - destruct al; [hany|].
    eapply h_bind; [apply h_rd_src; lia|intros d]. apply h_pure; intros (dd & _ & _ & ->).
    pose proof (lenZ_slice_le es el src H2). apply h_wr_dst_any; lia.
Qed.

(* the header copy of an out-of-place call establishes CI; in place it holds from the start *)
Lemma h_copy_header pkt es :
  pkt = take (zn L) (if al then d0 else src) ->
  0 <= es -> es <= L -> es <= C ->
  (al = false -> hdr_x pkt = 1 -> hdr_len pkt + 4 <= es) ->
  (hdr_x pkt = 1 -> hdr_len pkt + 4 <= L) ->
  hoare (I (eq d0)) (if al then ret tt else (h <- rd_src 0 es ;; wr_dst 0 h)) (fun _ => I (CI pkt)) NoOob.
Proof.
  intros Hp H1 H2 H3 H4 H5. pose proof (hdr_cc_range pkt) as CC. pose proof (hdr_len_eq pkt) as HLn.
  destruct al eqn:EA.
  - apply h_ret. intros w. apply inv_weaken. intros dd _ <- X. specialize (H5 X). specialize (HA eq_refl).
    pose proof (slice_take (zn (hdr_len pkt)) 4 (zn L) d0 ltac:(unfold zn; lia)) as E.
    cbv iota in Hp. rewrite <- Hp in E. symmetry. exact E.
  - specialize (HS eq_refl).
    eapply h_bind; [apply h_rd_src; lia|intros h]. apply h_pure; intros (dd & _ & _ & ->).
    assert (LH : lenZ (slice (zn 0) (zn es) src) = es) by (apply lenZ_slice_eq; lia).
    apply h_wr_dst; [lia|lia|].
    intros d1 Ld1 _ X. specialize (H4 eq_refl X). change (zn 0) with O in *.
    rewrite slice_splice_0 by (unfold lenZ, zn in *; lia).
    rewrite slice_slice by (unfold zn; lia). cbn [Nat.add].
    pose proof (slice_take (zn (hdr_len pkt)) 4 (zn L) src ltac:(unfold zn; lia)) as E.
    cbv iota in Hp. rewrite <- Hp in E. symmetry. exact E.
Qed.

Lemma protect_safe i : hoare (I (eq d0)) (protect i) (fun _ => I Kany) NoOob.
Proof.
  unfold protect.
  eapply h_bind; [apply h_get_b0|intros b]. apply h_pure; intros ->.
  cbv beta zeta. unfold b_init, cur_src; cbn [b_len b_cap b_alias b_src b_dst].
  change octets_in_rtp_header_c with 12. change octets_in_rtp_xtn_hdr_c with 4.
  match goal with |- context [validate_rtp ?p L] => remember p as pkt eqn:Hp end.
  pose proof (hdr_cc_range pkt) as CC. pose proof (hdr_len_eq pkt) as HLn.
  pose proof (xtn_len_ge pkt) as XL. pose proof (hdr_x_range pkt) as XR.
  eapply h_bind; [apply h_check_st|intros ?]. apply h_pure; intros V.
  apply validate_rtp_ok in V. destruct V as (V1 & V2 & V3).
  eapply h_bind; [apply h_lookup_or_clone; hs|intros r].
  eapply h_bind; [apply h_check_direction; hs|intros ?].
  eapply h_bind; [apply h_get_stream|intros st]. apply h_pure; intros Hst.
  eapply h_bind; [apply h_keys_by_index|intros [ki k]]. apply h_pure; cbn [snd]; intros Hk.
  destruct (SP_key SP SPwf _ _ Hst Hk) as (M & U & MK & TA & _).
  pose proof (akey_prefix_le _ TA) as PL. pose proof TA as [T _]. rewrite max_tag_value in T.
  eapply h_bind; [apply h_charge_key; hs|intros ?].
  destruct (C <? L + s_mki_size st + ak_tag (k_rtp_a k)) eqn:E1; [hexit|]. apply h_bind_ret. apply Z.ltb_ge in E1.
  remember (s_cryptex st && negb (Z.land (s_rtp_serv st) sec_serv_conf_c =? 0)) as want eqn:Hwant.
  remember (want && (hdr_x pkt =? 1)) as inuse eqn:Hinuse.
  destruct (want && negb (hdr_cc pkt =? 0) && (hdr_x pkt =? 0)); [hexit|]. apply h_bind_ret.
  match goal with |- context [L <? ?e] => remember e as es eqn:Hes end.
  assert (ES : 0 <= es /\ (al = false -> hdr_x pkt = 1 -> hdr_len pkt + 4 <= es) /\
               (inuse = true -> hdr_x pkt = 1)).
  { subst es. destruct inuse eqn:EI.
    - symmetry in Hinuse. apply andb_true_iff in Hinuse. destruct Hinuse as [_ X]. apply Z.eqb_eq in X.
      rewrite X. cbn [Z.eqb Pos.eqb]. split; [apply u64_range|]. split; [|auto].
      intros -> _. cbn [andb].
      rewrite (u64_small (hdr_len pkt + xtn_len pkt - (xtn_len pkt - 4))) by lia. rewrite u64_small by lia. lia.
    - split; [destruct (hdr_x pkt =? 1); lia|]. split; [|discriminate].
      intros _ X. rewrite X. cbn [Z.eqb Pos.eqb]. lia. }
  destruct ES as (ES1 & ES2 & ES3).
  destruct (L <? es) eqn:E2; [hexit|]. apply h_bind_ret. apply Z.ltb_ge in E2.
  assert (X4 : hdr_x pkt = 1 -> hdr_len pkt + 4 <= L) by (intros X; specialize (V3 X); lia).
  hseq (CI pkt). { apply (h_copy_header pkt es Hp); try assumption; lia. }
  hseq (CI pkt).
  { destruct (s_use_mki st); [|hkeep]. apply h_wr_dst; [lia|lia|]. intros dd _. apply CI_above. exact X4. }
  remember (negb (Z.land (s_rtp_serv st) sec_serv_auth_c =? 0)) as do_auth eqn:Hauth.
  hseq (CI pkt).
  { destruct do_auth; [hkeep|]. apply h_wr_dst; [lia|rewrite lenZ_zeros; lia|].
    intros dd _. apply CI_above. intros X; specialize (X4 X); lia. }
  eapply h_bind; [apply h_get_stream|intros st2]. apply h_pure; intros Hst2.
  destruct (est_index st2 (hdr_seq pkt)) as [[est_st est] delta].
  hseq (CI pkt). { destruct (negb (est_st =? st_ok) && negb (est_st =? st_pkt_idx_adv)); [apply h_exit; apply inv_noob|hkeep]. }
  hseq (CI pkt).
  { destruct (est_st =? st_pkt_idx_adv).
    - apply h_put_stream. apply (SP_commit SP SPc). exact Hst2.
    - hseq (CI pkt). { hif; [hexit|hkeep]. }
      apply h_put_stream. apply (SP_upd SP SPc). apply (SP_upd SP SPc). exact Hst2. }
  hseq (CI pkt). { apply h_log_encrypt_iv. }
  hseq (CI pkt). { destruct (k_xtn_c k); [apply h_log_encrypt_iv|hkeep]. }
  apply h_bind with (R := fun _ => I (CI pkt)).
  { destruct (do_auth && negb (ak_prefix (k_rtp_a k) =? 0)); [|hkeep].
    match goal with |- context [cipher_output ?a ?n] =>
      pose proof (cipher_output_le a n (proj1 PL)) as LK; destruct (cipher_output a n) as [[ps cs'] ks] end.
    cbn [snd] in LK. destruct (negb (ps =? st_ok)); [hexit|].
    hseq (CI pkt); [|hkeep]. apply h_wr_dst; [lia|lia|].
    intros dd _. apply CI_above. intros X; specialize (X4 X); lia. }
  intros cs1.
  hseq Kany.
  { destruct (k_xtn_c k) as [xk|]; [|hany].
    destruct (hdr_x pkt =? 1) eqn:EX; [|hany]. apply Z.eqb_eq in EX.
    apply h_process_xtn; [|specialize (V3 EX); lia]. intros dd _ HCI. exact (HCI EX). }
  apply h_bind with (R := fun _ => I Kany).
  { destruct inuse eqn:EI; [|hkeep]. specialize (ES3 eq_refl). specialize (X4 ES3).
    eapply h_bind; [apply h_rd_dst; lia|intros h]. apply h_pure; intros _.
    hseq Kany.
    { hif; [apply h_set_profile; lia|]. hif; [apply h_set_profile; lia|hexit]. }
    hif.
    - hseq Kany; [apply h_cryptex_adjust; lia|hkeep].
    - hif; [hkeep|]. eapply h_post; [apply h_crypt_dst_region; lia|]. intros ? ? H; exact H. }
  intros cs2.
  hseq Kany. { apply h_payload; lia. }
  hseq Kany.
  { destruct (inuse && al) eqn:EIA; [|hkeep]. apply andb_true_iff in EIA. destruct EIA as [EI _].
    specialize (X4 (ES3 EI)). apply h_cryptex_restore. lia. }
  hseq Kany.
  { destruct do_auth; [|hkeep].
    eapply h_bind; [apply h_rd_dst; lia|intros m]. apply h_pure; intros _.
    apply h_wr_dst_any; [lia|].
    pose proof (auth_compute_le (k_rtp_a k) (m ++ take 4 (be64 (est * 65536))) TA). lia. }
  hkeep.
Qed.

(* ---- srtp_unprotect ---- *)
Definition upre_ok (u : upre) : Prop :=
  u_pkt u = take (zn L) (if al then d0 else src) /\
  (hdr_x (u_pkt u) = 1 -> hdr_len (u_pkt u) + xtn_len (u_pkt u) <= L) /\
  0 <= u_enc_start u /\ 0 <= u_enc_len u /\
  u_enc_start u + u_enc_len u <= L /\ u_enc_start u + u_enc_len u <= C /\
  u_inplace u = u_inuse u && al /\
  (u_inuse u = true -> hdr_x (u_pkt u) = 1 /\ hdr_len (u_pkt u) + 4 <= C) /\
  (hdr_x (u_pkt u) = 1 ->
   hdr_len (u_pkt u) + xtn_len (u_pkt u) <= C \/
   (hdr_len (u_pkt u) + 4 <= lenZ d0 /\ cryptex_profile (u_pkt u))).

Lemma u64_neg x : - 9223372036854775808 <= x < 0 -> u64 x = x + 18446744073709551616.
Proof. intros H. unfold u64. symmetry. apply Z.mod_unique with (q := -1); lia. Qed.

Lemma unprotect_pre_safe :
  hoare (I (eq d0)) unprotect_pre (fun u w => upre_ok u /\ I (CI (u_pkt u)) w) NoOob.
Proof.
  unfold unprotect_pre.
  eapply h_bind; [apply h_get_b0|intros b]. apply h_pure; intros ->.
  cbv beta zeta. unfold b_init, cur_src; cbn [b_len b_cap b_alias b_src b_dst].
  change octets_in_rtp_header_c with 12. change octets_in_rtp_xtn_hdr_c with 4.
  match goal with |- context [validate_rtp ?p L] => remember p as pkt eqn:Hp end.
  pose proof (hdr_cc_range pkt) as CC. pose proof (hdr_len_eq pkt) as HLn.
  pose proof (xtn_len_ge pkt) as XL. pose proof (hdr_x_range pkt) as XR.
  eapply h_bind; [apply h_check_st|intros ?]. apply h_pure; intros V.
  apply validate_rtp_ok in V. destruct V as (V1 & V2 & V3).
  assert (X4 : hdr_x pkt = 1 -> hdr_len pkt + 4 <= L) by (intros X; specialize (V3 X); lia).
  eapply h_bind; [apply h_get_s|intros ss]. apply h_pure; intros _.
  apply h_bind with (R := fun _ => I (eq d0)).
  { destruct (list_get (ss_list ss) _); [hkeep|]. destruct (ss_template ss); [hkeep|hexit]. }
  intros r0.
  eapply h_bind; [apply h_get_stream|intros st]. apply h_pure; intros Hst.
  apply h_bind with (R := fun _ => I (eq d0)).
  { destruct r0; [hkeep|]. destruct (est_index st (hdr_seq pkt)) as [[est_st est] delta].
    hseq (eq d0). { hif; [hexit|hkeep]. }
    hif; [hkeep|]. eapply h_bind; [apply h_check_st|intros ?]. apply h_pure; intros _. hkeep. }
  intros [[est delta] adv].
  assert (T0 : 0 <= match s_keys st with k0 :: _ => ak_tag (k_rtp_a k0) | [] => 0 end).
  { destruct (s_keys st) as [|k0 t] eqn:EK; [lia|].
    assert (I0 : In k0 (s_keys st)) by (rewrite EK; left; reflexivity).
    destruct (SP_key SP SPwf _ _ Hst I0) as (_ & _ & _ & [T _] & _). lia. }
  eapply h_bind; [apply h_keys_by_packet; hs; [exact Hst|exact T0]|intros [ki k]].
  apply h_pure; cbn [snd]; intros Hk.
  destruct (SP_key SP SPwf _ _ Hst Hk) as (M & U & MK & TA & _).
  pose proof (akey_prefix_le _ TA) as PL. pose proof TA as [T _]. rewrite max_tag_value in T.
  (* cryptex in use? *)
  apply h_bind with (R := fun (iu : bool) w => (iu = true -> s_cryptex st = true /\ hdr_x pkt = 1 /\ cryptex_profile pkt) /\ I (eq d0) w).
  { destruct (s_cryptex st && negb (Z.land (s_rtp_serv st) sec_serv_conf_c =? 0) && (hdr_x pkt =? 1)) eqn:EC.
    - apply andb_true_iff in EC. destruct EC as [EC1 EC2]. apply andb_true_iff in EC1. destruct EC1 as [EC1 _].
      apply Z.eqb_eq in EC2. specialize (X4 EC2).
      eapply h_bind; [apply h_rd_src; lia|intros h]. apply h_pure; intros (dd & <- & _ & ->).
      apply h_ret. intros w HI. split; [|exact HI]. intros HP. split; [exact EC1|]. split; [exact EC2|].
      change (zn 4) with 4%nat in HP. rewrite be16_slice4_0 in HP.
      match type of HP with context [be16 ?X (zn (hdr_len pkt))] =>
        pose proof (be16_take X (zn L) (zn (hdr_len pkt)) ltac:(unfold zn in *; lia)) as EB;
        rewrite <- EB in HP; replace (take (zn L) X) with pkt in HP by exact Hp end.
      apply orb_true_iff in HP. unfold cryptex_profile.
      destruct HP as [HP|HP]; apply Z.eqb_eq in HP; auto.
    - apply h_ret. intros w HI. split; [discriminate|exact HI]. }
  intros inuse. apply h_pure; intros IU.
  apply h_bind with (R := fun (xl : Z) w => (inuse = true -> xl = xtn_len pkt) /\ I (eq d0) w).
  { destruct inuse; [|apply h_ret; intros w HI; split; [discriminate|exact HI]].
    destruct (IU eq_refl) as (_ & X & _). specialize (X4 X).
    eapply h_bind; [apply h_rd_src; lia|intros h]. apply h_pure; intros (dd & <- & _ & ->).
    apply h_ret. intros w HI. split; [|exact HI]. intros _.
    change (zn 4) with 4%nat. rewrite be16_slice4. unfold xtn_len.
    replace (zn (hdr_len pkt + 2)) with (zn (hdr_len pkt) + 2)%nat by (unfold zn; lia).
    subst pkt. rewrite be16_take by (unfold zn in *; lia). reflexivity. }
  intros xl. apply h_pure; intros XLE.
  match goal with |- context [u64 (L - ak_tag (k_rtp_a k) - s_mki_size st) <? u64 (?e + ?f)] =>
    remember e as es eqn:Hes; remember f as sh eqn:Hsh end.
  assert (ES : 0 <= es /\ 0 <= sh /\ es + sh <= L /\
               (al = false -> hdr_x pkt = 1 -> hdr_len pkt + 4 <= es) /\
               (inuse = false -> hdr_x pkt = 1 -> es = hdr_len pkt + xtn_len pkt) /\
               (inuse = true -> es + sh = hdr_len pkt + 4)).
  { subst es sh. destruct inuse.
    - destruct (IU eq_refl) as (_ & X & _). rewrite (XLE eq_refl), X. cbn [Z.eqb Pos.eqb andb].
      specialize (X4 X).
      assert (E : u64 (u64 (hdr_len pkt + xtn_len pkt - (xtn_len pkt - 4)) - (if al then hdr_cc pkt * 4 else 0)) =
                  hdr_len pkt + 4 - (if al then hdr_cc pkt * 4 else 0)).
      { rewrite (u64_small (hdr_len pkt + xtn_len pkt - (xtn_len pkt - 4))) by lia.
        rewrite u64_small by (destruct al; lia). lia. }
      rewrite E. clear E. destruct al; repeat split; try lia; try discriminate; intros; lia.
    - cbn [andb]. split; [destruct (hdr_x pkt =? 1); lia|]. split; [lia|].
      split; [destruct (hdr_x pkt =? 1) eqn:EX; [apply Z.eqb_eq in EX; specialize (V3 EX); lia|lia]|].
      split; [intros _ X; rewrite X; cbn [Z.eqb Pos.eqb]; lia|].
      split; [intros _ X; rewrite X; reflexivity|discriminate]. }
  destruct ES as (ES1 & ESh & ESL & ES2 & ES3 & ES4).
  destruct (u64 (L - ak_tag (k_rtp_a k) - s_mki_size st) <? u64 (es + sh)) eqn:E2; [hexit|]. apply h_bind_ret. apply Z.ltb_ge in E2.
  destruct (C <? u64 (L - s_mki_size st - ak_tag (k_rtp_a k))) eqn:E3; [hexit|]. apply h_bind_ret. apply Z.ltb_ge in E3.
  assert (A0 : 0 <= L - s_mki_size st - ak_tag (k_rtp_a k)).
  { destruct (Z_lt_le_dec (L - s_mki_size st - ak_tag (k_rtp_a k)) 0) as [N|]; [|assumption].
    rewrite u64_neg in E3 by lia. lia. }
  rewrite u64_small in E3 by lia. rewrite (u64_small (es + sh)) in E2 by lia. rewrite u64_small in E2 by lia.
  rewrite (u64_small (L - ak_tag (k_rtp_a k) - s_mki_size st)) by lia.
  rewrite (u64_small (L - es - s_mki_size st - ak_tag (k_rtp_a k))) by lia.
  hseq (CI pkt). { apply (h_copy_header pkt es Hp); try assumption; lia. }
  apply h_bind with (R := fun _ => I (CI pkt)).
  { hif; [|hkeep].
    apply h_bind with (R := fun _ => I (CI pkt)).
    { hif; [|hkeep]. destruct (cipher_output _ _) as [[s cs'] ks]. hif; [hexit|]. hif; [hexit|hkeep]. }
    intros pre.
    eapply h_bind; [apply h_rd_src; lia|intros m]. apply h_pure; intros _.
    hseq (CI pkt). { hif; [hexit|hkeep]. }
    eapply h_bind; [apply h_rd_src; lia|intros t]. apply h_pure; intros _.
    hseq (CI pkt). { hif; [hkeep|hexit]. }
    hkeep. }
  intros cs1.
  apply h_ret. intros w HI. split; [|exact HI].
  unfold upre_ok. cbn [u_pkt u_enc_start u_enc_len u_inuse u_inplace u_k].
  split; [exact Hp|]. split; [exact V3|]. split; [exact ES1|]. split; [lia|]. split; [lia|]. split; [lia|].
  split; [reflexivity|]. split.
  - intros ->. destruct (IU eq_refl) as (CX & X & _). split; [exact X|]. specialize (ES4 eq_refl). lia.
  - intros X. destruct inuse eqn:EI.
    + destruct (IU eq_refl) as (_ & _ & PF). right. split; [|exact PF]. specialize (ES4 eq_refl). lia.
    + left. rewrite (ES3 eq_refl X) in E2. lia.
Qed.

Lemma unprotect_post_safe u :
  upre_ok u -> hoare (I (CI (u_pkt u))) (unprotect_post u) (fun _ => I Kany) NoOob.
Proof.
  intros (U1 & U2 & U3 & U4 & U5 & U6 & U7 & U8 & U9). unfold unprotect_post.
  eapply h_bind; [apply h_get_b|intros b]. apply h_pure; intros (_ & _ & EAL).
  cbv beta zeta. rewrite EAL. change octets_in_rtp_header_c with 12.
  remember (u_pkt u) as pkt eqn:Hp.
  pose proof (hdr_cc_range pkt) as CC. pose proof (hdr_len_eq pkt) as HLn.
  pose proof (xtn_len_ge pkt) as XL.
  hseq (CI pkt). { apply h_charge_key; hs. }
  eapply h_bind; [apply h_get_stream|intros st]. apply h_pure; intros Hst.
  hseq Kany.
  { destruct (k_xtn_c (u_k u)) as [xk|] eqn:EK; [|hany].
    destruct (hdr_x pkt =? 1) eqn:EX; [|hany]. apply Z.eqb_eq in EX.
    destruct (U9 EX) as [B|[B PF]].
    - apply h_process_xtn; [|exact B]. intros dd _ HCI. exact (HCI EX).
    - apply h_process_xtn_cx; [|exact B|exact PF]. intros dd _ HCI. exact (HCI EX). }
  apply h_bind with (R := fun _ => I Kany).
  { destruct (u_inuse u) eqn:EI; [|hkeep]. destruct (U8 eq_refl) as [X B].
    rewrite U7. hif.
    - hseq Kany; [apply h_cryptex_adjust; lia|hkeep].
    - hif; [hkeep|]. eapply h_post; [apply h_crypt_dst_region; lia|]. intros ? ? H; exact H. }
  intros cs2.
  hseq Kany. { apply h_payload; lia. }
  hseq Kany.
  { destruct (u_inuse u) eqn:EI; [|hkeep]. destruct (U8 eq_refl) as [X B].
    hseq Kany. { rewrite U7. hif; [apply h_cryptex_restore; lia|hkeep]. }
    eapply h_bind; [apply h_rd_dst; lia|intros h]. apply h_pure; intros _.
    hif; [apply h_set_profile; lia|]. hif; [apply h_set_profile; lia|hkeep]. }
  hseq Kany. { apply h_check_direction; hs. }
  eapply h_bind; [apply h_materialize; hs|intros r].
  eapply h_bind; [apply h_get_stream|intros st2]. apply h_pure; intros Hst2.
  hseq Kany.
  { hif; apply h_put_stream; [apply (SP_commit SP SPc)|apply (SP_upd SP SPc); apply (SP_upd SP SPc)]; exact Hst2. }
  hkeep.
Qed.

Lemma unprotect_safe : hoare (I (eq d0)) unprotect (fun _ => I Kany) NoOob.
Proof.
  unfold unprotect. eapply h_bind; [apply unprotect_pre_safe|intros u].
  apply h_pure; intros U. apply unprotect_post_safe. exact U.
Qed.
End RTP.

(* ===================================================================== *)
(* C10 for SRTP                                                           *)
Theorem protect_no_oob w i :
  b_oob (w_b w) = false -> size_ok (b_len (w_b w)) ->
  b_cap (w_b w) <= lenZ (b_dst (w_b w)) ->
  (b_alias (w_b w) = true -> b_len (w_b w) <= lenZ (b_dst (w_b w))) ->
  (b_alias (w_b w) = false -> b_len (w_b w) <= lenZ (b_src (w_b w))) ->
  session_wf (w_s w) ->
  b_oob (w_b (fst (protect i w))) = false.
Proof.
  intros HO HL HD HA HS HW.
  eapply hoare_noob; [apply (protect_safe stream_wf stream_wf_cfg (fun st h => h) _ _ _ _ _ HL HD HA HS i)| |apply inv_init; assumption].
  intros a w' H. exact (inv_noob _ _ _ _ _ _ _ _ H).
Qed.
Print Assumptions protect_no_oob.

(* srtp_unprotect.  *out_len only has to hold len - mki - tag octets; the parse check
   "un-shifted header end <= len - tag - mki" keeps the cryptex buffer shuffles and the
   profile restore below that bound, and the RFC 6904 step refuses a cryptex profile
   before it looks at the extension elements, so nothing else is asked of the session. *)
Theorem unprotect_no_oob w :
  b_oob (w_b w) = false -> size_ok (b_len (w_b w)) -> size_ok (b_cap (w_b w)) ->
  b_cap (w_b w) <= lenZ (b_dst (w_b w)) ->
  (b_alias (w_b w) = true -> b_len (w_b w) <= lenZ (b_dst (w_b w))) ->
  (b_alias (w_b w) = false -> b_len (w_b w) <= lenZ (b_src (w_b w))) ->
  session_wf (w_s w) ->
  b_oob (w_b (fst (unprotect w))) = false.
Proof.
  intros HO HL HC HD HA HS HW.
  eapply hoare_noob; [apply (unprotect_safe stream_wf stream_wf_cfg (fun st h => h) _ _ _ _ _ HL HC HD HA HS)| |apply inv_init; assumption].
  intros a w' H. exact (inv_noob _ _ _ _ _ _ _ _ H).
Qed.
Print Assumptions unprotect_no_oob.

(* ===================================================================== *)
(* The two worlds that refuted the statement for the earlier model / library (before the
   parse check covered the un-shifted header and before process_xtn checked the profile
   first) are now refused with parse_err and touch nothing out of bounds.  Sessions built
   by session_create from one template policy (AES-ICM-128, HMAC-SHA1 tag 10, cryptex
   enabled, rtp services = confidentiality only so that no tag has to be forged). *)
Module Witness.
Definition cp (serv : Z) : cpolicy :=
  {| cp_cipher := 1; cp_keylen := 30; cp_auth := 3; cp_authkeylen := 20; cp_taglen := 10; cp_serv := serv |}.
Definition pol (xtn : bytes) : policy :=
  {| p_ssrc_type := 2; p_ssrc := 0; p_rtp := cp 1; p_rtcp := cp 3; p_usekey := true; p_nkeys := 0;
     p_use_mki := false; p_mki_size := 0; p_window := 0; p_allow_repeat := false; p_cryptex := true;
     p_enc_xtn := xtn; p_keys := [(repeat 1%N 30, [])] |}.
Definition h0 : heap := {| h_live := 0; h_att := 0; h_fail := 0; h_frees := 0; h_dirty := 0 |}.
Definition w0 : world :=
  {| w_s := {| ss_template := None; ss_list := []; ss_cap := 0 |};
     w_b := {| b_src := []; b_dst := []; b_alias := false; b_len := 0; b_cap := 0; b_oob := false |};
     w_ev := []; w_iv := []; w_h := h0 |}.
Definition mkw (s : session) (b : bufs) : world := {| w_s := s; w_b := b; w_ev := []; w_iv := []; w_h := h0 |}.

(* W1: in place, CC = 2, X = 1, cryptex profile 0xC0DE with an empty extension; 26 octets of
   which the last 10 count as the tag, so len - tag = 16 = *out_len; the extension header
   sits at [20,24), beyond *out_len *)
Definition sess1 : session := w_s (fst (session_create [pol []] w0)).
Definition pkt1 : bytes := [146;0;0;1; 0;0;0;0; 202;254;186;190; 1;2;3;4; 5;6;7;8; 192;222;0;0; 9;9]%N.
Definition wit1 : world :=
  mkw sess1 {| b_src := []; b_dst := pkt1; b_alias := true; b_len := 26; b_cap := 16; b_oob := false |}.

(* W2: out of place, header-extension encryption configured too; CC = 0, extension of
   3 words so that header + extension = 28 > len - tag = 20 = *out_len = size of the block *)
Definition sess2 : session := w_s (fst (session_create [pol [1%N]] w0)).
Definition pkt2 : bytes := [144;0;0;1; 0;0;0;0; 202;254;186;190; 192;222;0;3; 1;2;3;4; 5;6;7;8; 9;10;11;12; 13;14]%N.
Definition wit2 : world :=
  mkw sess2 {| b_src := pkt2; b_dst := repeat 0%N 20; b_alias := false; b_len := 30; b_cap := 20; b_oob := false |}.

Ltac conc_wf :=
  unfold session_wf, session_all; split;
  [ vm_compute ss_template; intros t E; injection E as <-;
    unfold stream_wf; cbn [s_mki_size s_use_mki s_keys]; split; [rewrite max_mki_value; lia|];
    split; [reflexivity|];
    repeat constructor; cbn; try lia; try reflexivity; try (unfold SRTP_MAX_TAG_LEN_c; lia)
  | vm_compute ss_list; constructor ].
Lemma sess1_wf : session_wf sess1. Proof. conc_wf. Qed.
Lemma sess2_wf : session_wf sess2. Proof. conc_wf. Qed.
End Witness.

Definition bufs_ok (w : world) : Prop :=
  b_oob (w_b w) = false /\ size_ok (b_len (w_b w)) /\ size_ok (b_cap (w_b w)) /\
  b_cap (w_b w) <= lenZ (b_dst (w_b w)) /\
  (b_alias (w_b w) = true -> b_len (w_b w) <= lenZ (b_dst (w_b w))) /\
  (b_alias (w_b w) = false -> b_len (w_b w) <= lenZ (b_src (w_b w))).

(* in place: the packet whose extension header overlaps the trailer is refused, nothing is
   flagged and the buffer is left as it was *)
Example unprotect_w1_refused :
  bufs_ok Witness.wit1 /\ session_wf (w_s Witness.wit1) /\
  snd (unprotect Witness.wit1) = inr st_parse_err /\
  b_oob (w_b (fst (unprotect Witness.wit1))) = false /\
  b_dst (w_b (fst (unprotect Witness.wit1))) = b_dst (w_b Witness.wit1).
Proof.
  split.
  { unfold bufs_ok, size_ok. cbn. repeat split; try lia; try discriminate; intros; lia. }
  split; [exact Witness.sess1_wf|]. repeat split; vm_compute; reflexivity.
Qed.

(* out of place: the RFC 6904 step refuses the cryptex profile before reading [16,28) from the
   20-octet destination *)
Example unprotect_w2_refused :
  bufs_ok Witness.wit2 /\ session_wf (w_s Witness.wit2) /\
  snd (unprotect Witness.wit2) = inr st_parse_err /\
  b_oob (w_b (fst (unprotect Witness.wit2))) = false.
Proof.
  split.
  { unfold bufs_ok, size_ok. cbn. repeat split; try lia; try discriminate; intros; lia. }
  split; [exact Witness.sess2_wf|]. repeat split; vm_compute; reflexivity.
Qed.
Print Assumptions unprotect_w1_refused.
Print Assumptions unprotect_w2_refused.
