(* AeadIvProofs.v — the AES-GCM (RFC 7714) paths of Aead.v:
     1. C08: the IV formations aead_rtp_iv / aead_rtcp_iv are injective in (SSRC, index) for every salt;
     2. C03: they compute the IVs of the independent specification Spec/Rfc7714.v (8.1 / 9.1), and the
        AAD the SRTCP functions hand to the cipher is the specification's AAD (9.2 / 9.3);
     3. C09: protect_aead charges the key budget once, first thing of srtp_protect_aead; unprotect_aead
        charges it once, after gcm_open has accepted the packet, and not at all otherwise.
   Proofs only. *)
From Coq Require Import NArith ZArith List Bool Lia ZifyBool ZifyN ZifyNat.
From Srtp Require Import Util Constants KeyLimit Rdb Rdbx Icm World Stream Rtp Rtcp Aead.
From Srtp Require Import MonadLemmas IvProofs IcmProofs SpecEqAes SpecEqProofs.
From Srtp Require Import WfProofs RejectProofs AeadRejectProofs LimitProofs.
From Srtp Require BoundsRtp AeadBoundsRtp.
From Srtp.Crypto Require Import AES GCM.
From Srtp.Spec Require Rfc7714.
Import ListNotations.
Local Open Scope Z_scope.
Ltac Zify.zify_post_hook ::= Z.div_mod_to_equations.

(* ===================================================================== *)
(* 1. C08: injectivity                                                    *)
(* ===================================================================== *)
(* xor with a fixed string is injective (whatever the lengths: xor_bytes keeps the length of its
   first argument and is an involution on it) *)
Lemma xor_fixed_inj a b k : xor_bytes a k = xor_bytes b k -> a = b.
Proof.
  intros E. rewrite <- (xor_bytes_involutive_gen a k), E. apply xor_bytes_involutive_gen.
Qed.

Lemma salt12_length salt : length (take 12 (salt ++ zeros 12)) = 12%nat.
Proof. rewrite IcmProofs.take_firstn, firstn_length, app_length. unfold zeros. rewrite repeat_length. lia. Qed.

Theorem aead_rtp_iv_length salt ssrc est : length (aead_rtp_iv salt ssrc est) = 12%nat.
Proof.
  unfold aead_rtp_iv. rewrite xor_bytes_length, !app_length, !be_bytes_length. reflexivity.
Qed.
Theorem aead_rtcp_iv_length csalt ssrc seq : length (aead_rtcp_iv csalt ssrc seq) = 12%nat.
Proof.
  unfold aead_rtcp_iv. rewrite xor_bytes_length, !app_length, !be_bytes_length. reflexivity.
Qed.

Theorem aead_rtp_iv_injective salt ssrc est ssrc' est' :
  0 <= ssrc < 2 ^ 32 -> 0 <= ssrc' < 2 ^ 32 -> 0 <= est < 2 ^ 48 -> 0 <= est' < 2 ^ 48 ->
  aead_rtp_iv salt ssrc est = aead_rtp_iv salt ssrc' est' -> ssrc = ssrc' /\ est = est'.
Proof.
  intros H1 H2 H3 H4 E. unfold aead_rtp_iv in E. apply xor_fixed_inj in E.
  apply app_inj_len in E; [|reflexivity]. destruct E as [_ E].
  apply app_inj_len in E; [|rewrite !be_bytes_length; reflexivity]. destruct E as [Es E].
  apply app_inj_len in E; [|rewrite !be_bytes_length; reflexivity]. destruct E as [Er Eq].
  change (2 ^ 32) with 4294967296 in *. change (2 ^ 48) with 281474976710656 in *.
  apply be_bytes_inj in Es; [|cbn; lia|cbn; lia].
  apply be_bytes_inj in Er; [|unfold u32; cbn; lia|unfold u32; cbn; lia].
  apply be_bytes_inj in Eq; [|cbn; lia|cbn; lia].
  unfold u32 in Er. split; lia.
Qed.

Theorem aead_rtcp_iv_injective csalt ssrc seq ssrc' seq' :
  0 <= ssrc < 2 ^ 32 -> 0 <= ssrc' < 2 ^ 32 -> 0 <= seq < 2 ^ 31 -> 0 <= seq' < 2 ^ 31 ->
  aead_rtcp_iv csalt ssrc seq = aead_rtcp_iv csalt ssrc' seq' -> ssrc = ssrc' /\ seq = seq'.
Proof.
  intros H1 H2 H3 H4 E. unfold aead_rtcp_iv in E. apply xor_fixed_inj in E.
  apply app_inj_len in E; [|reflexivity]. destruct E as [_ E].
  apply app_inj_len in E; [|rewrite !be_bytes_length; reflexivity]. destruct E as [Es E].
  apply app_inj_len in E; [|reflexivity]. destruct E as [_ Eq].
  change (2 ^ 32) with 4294967296 in *. change (2 ^ 31) with 2147483648 in *.
  apply be_bytes_inj in Es; [|cbn; lia|cbn; lia].
  apply be_bytes_inj in Eq; [|cbn; lia|cbn; lia].
  split; lia.
Qed.
Print Assumptions aead_rtp_iv_length.
Print Assumptions aead_rtcp_iv_length.
Print Assumptions aead_rtp_iv_injective.
Print Assumptions aead_rtcp_iv_injective.

(* ===================================================================== *)
(* 2. C03: the model's IV octets are the specification's 96-bit numbers    *)
(* ===================================================================== *)
Lemma salt12_id salt : length salt = 12%nat -> take 12 (salt ++ zeros 12) = salt.
Proof. intros L. rewrite <- L. apply take_app_len. Qed.

(* an octet string of 12 octets is the big-endian encoding of its value *)
Lemma be_bytes12_be_val l : length l = 12%nat -> octets l -> be_bytes 12 (be_val l) = l.
Proof. intros L H. rewrite <- L. apply be_bytes_be_val. exact H. Qed.

(* value of 0000 | a (4 octets) | b (4 octets) | c (2 octets) *)
Lemma be_val_iv_rtp a b c :
  be_val (zeros 2 ++ be_bytes 4 a ++ be_bytes 4 b ++ be_bytes 2 c)
  = ((a mod 2 ^ 32) * 2 ^ 48 + (b mod 2 ^ 32) * 2 ^ 16 + c mod 2 ^ 16)%N.
Proof.
  rewrite !be_val_app_gen, be_val_zeros, !be_val_be_bytes, !app_length, !be_bytes_length.
  change (256 ^ N.of_nat 4)%N with (2 ^ 32)%N. change (256 ^ N.of_nat 2)%N with (2 ^ 16)%N.
  change (256 ^ N.of_nat (4 + 2))%N with (2 ^ 48)%N.
  change (256 ^ N.of_nat (4 + (4 + 2)))%N with (2 ^ 80)%N.
  change (2 ^ 48)%N with (2 ^ 32 * 2 ^ 16)%N. lia.
Qed.
(* value of 0000 | a (4 octets) | 0000 | b (4 octets) *)
Lemma be_val_iv_rtcp a b :
  be_val (zeros 2 ++ be_bytes 4 a ++ zeros 2 ++ be_bytes 4 b)
  = ((a mod 2 ^ 32) * 2 ^ 48 + b mod 2 ^ 32)%N.
Proof.
  rewrite !be_val_app_gen, !be_val_zeros, !be_val_be_bytes, !app_length, !be_bytes_length.
  change (length (zeros 2)) with 2%nat.
  change (256 ^ N.of_nat 4)%N with (2 ^ 32)%N.
  change (256 ^ N.of_nat (2 + 4))%N with (2 ^ 48)%N.
  change (256 ^ N.of_nat (4 + (2 + 4)))%N with (2 ^ 80)%N. lia.
Qed.

Lemma octets_iv_rtp a b c : octets (zeros 2 ++ be_bytes 4 a ++ be_bytes 4 b ++ be_bytes 2 c).
Proof. repeat (apply octets_app; [first [apply octets_zeros|apply be_bytes_bytes]|]). apply be_bytes_bytes. Qed.
Lemma octets_iv_rtcp a b : octets (zeros 2 ++ be_bytes 4 a ++ zeros 2 ++ be_bytes 4 b).
Proof. repeat (apply octets_app; [first [apply octets_zeros|apply be_bytes_bytes]|]). apply be_bytes_bytes. Qed.

(* RFC 7714 8.1: ROC = est / 2^16, SEQ = est mod 2^16 *)
Theorem aead_rtp_iv_spec salt ssrc est :
  octets salt -> length salt = 12%nat -> 0 <= ssrc < 2 ^ 32 -> 0 <= est < 2 ^ 48 ->
  aead_rtp_iv salt ssrc est =
  Rfc7714.rtp_iv salt (Z.to_N ssrc) (Z.to_N (est / 65536)) (Z.to_N (est mod 65536)).
Proof.
  intros Hs Ls Hssrc Hest.
  change (2 ^ 32) with 4294967296 in Hssrc. change (2 ^ 48) with 281474976710656 in Hest.
  unfold aead_rtp_iv. rewrite (salt12_id salt Ls).
  set (A := zeros 2 ++ _).
  assert (LA : length A = 12%nat) by (subst A; rewrite !app_length, !be_bytes_length; reflexivity).
  assert (OA : octets A) by apply octets_iv_rtp.
  rewrite <- (be_bytes12_be_val (xor_bytes A salt)); [|rewrite xor_bytes_length; exact LA|apply octets_xor; assumption].
  unfold Rfc7714.rtp_iv, Rfc7714.rtp_iv_num, Rfc7714.salt_num. f_equal.
  rewrite be_val_xor; [|lia|exact OA|exact Hs]. f_equal.
  subst A. rewrite be_val_iv_rtp. unfold u32.
  rewrite p32, p16. change (2 ^ 48)%N with 281474976710656%N. lia.
Qed.

(* the same with the packet index as one number *)
Corollary aead_rtp_iv_spec_index salt ssrc est :
  octets salt -> length salt = 12%nat -> 0 <= ssrc < 2 ^ 32 -> 0 <= est < 2 ^ 48 ->
  aead_rtp_iv salt ssrc est = Rfc7714.rtp_iv_of_index salt (Z.to_N ssrc) (Z.to_N est).
Proof.
  intros Hs Ls Hssrc Hest. rewrite (aead_rtp_iv_spec salt ssrc est Hs Ls Hssrc Hest).
  unfold Rfc7714.rtp_iv_of_index. change (2 ^ 16)%N with 65536%N.
  change (2 ^ 48) with 281474976710656 in Hest.
  f_equal; lia.
Qed.

(* RFC 7714 9.1 *)
Theorem aead_rtcp_iv_spec csalt ssrc seq :
  octets csalt -> length csalt = 12%nat -> 0 <= ssrc < 2 ^ 32 -> 0 <= seq < 2 ^ 31 ->
  aead_rtcp_iv csalt ssrc seq = Rfc7714.rtcp_iv csalt (Z.to_N ssrc) (Z.to_N seq).
Proof.
  intros Hs Ls Hssrc Hseq.
  change (2 ^ 32) with 4294967296 in Hssrc. change (2 ^ 31) with 2147483648 in Hseq.
  unfold aead_rtcp_iv. rewrite (salt12_id csalt Ls).
  set (A := zeros 2 ++ _).
  assert (LA : length A = 12%nat) by (subst A; rewrite !app_length, !be_bytes_length; reflexivity).
  assert (OA : octets A) by apply octets_iv_rtcp.
  rewrite <- (be_bytes12_be_val (xor_bytes A csalt)); [|rewrite xor_bytes_length; exact LA|apply octets_xor; assumption].
  unfold Rfc7714.rtcp_iv, Rfc7714.rtcp_iv_num, Rfc7714.salt_num. f_equal.
  rewrite be_val_xor; [|lia|exact OA|exact Hs]. f_equal.
  subst A. rewrite be_val_iv_rtcp.
  rewrite p32. change (2 ^ 48)%N with 281474976710656%N. lia.
Qed.
Print Assumptions aead_rtp_iv_spec.
Print Assumptions aead_rtp_iv_spec_index.
Print Assumptions aead_rtcp_iv_spec.

(* the model on the IVs printed in RFC 7714 16.1.1 and 17.1 *)
Example aead_rtp_iv_rfc :
  aead_rtp_iv Rfc7714.rfc_salt 0x5501a0b2 0xf17b = [0x51;0x75;0x3c;0x65;0x80;0xc2;0x72;0x6f;0x20;0x71;0x84;0x14]%N.
Proof. vm_compute. reflexivity. Qed.
Example aead_rtcp_iv_rfc :
  aead_rtcp_iv Rfc7714.rfc_salt 0x4d617273 0x5d4 = [0x51;0x75;0x24;0x05;0x52;0x03;0x72;0x6f;0x20;0x71;0x70;0xbb]%N.
Proof. vm_compute. reflexivity. Qed.

(* what the driver's cipher wrapper records for a GCM IV: fingerprint (4) | the 12 IV octets | 0000 0000,
   the 20-octet record shape of the AES-ICM paths *)
Lemma key_fp_length k : length (key_fp k) = 4%nat.
Proof.
  unfold key_fp. rewrite IcmProofs.take_firstn, firstn_length, app_length. unfold zeros. rewrite repeat_length. lia.
Qed.
Theorem log_gcm_iv_record k iv w :
  length iv = 12%nat ->
  log_gcm_iv k iv w = (fst (log_gcm_iv k iv w), inl tt) /\
  w_iv (fst (log_gcm_iv k iv w)) = w_iv w ++ [key_fp k ++ iv ++ zeros 4] /\
  length (key_fp k ++ iv ++ zeros 4) = 20%nat /\
  w_s (fst (log_gcm_iv k iv w)) = w_s w /\ w_b (fst (log_gcm_iv k iv w)) = w_b w.
Proof.
  intros L. unfold log_gcm_iv, log_iv. cbn [fst w_iv w_s w_b]. rewrite (salt12_id iv L).
  repeat split. rewrite !app_length, key_fp_length, L. reflexivity.
Qed.
Print Assumptions log_gcm_iv_record.

(* ---- the AAD rule (RFC 7714 8.2, 9.2, 9.3) ---- *)
(* the trailer word srtp_protect_rtcp_aead writes and appends to the AAD is the ESRTCP word *)
Lemma esrtcp_word_model (conf : bool) (seq : Z) :
  0 <= seq ->
  be_bytes 4 (Z.to_N ((if conf then SRTCP_E_BIT_c else 0) + seq)) = Rfc7714.esrtcp_word conf (Z.to_N seq).
Proof.
  intros H. unfold Rfc7714.esrtcp_word. f_equal. change (2 ^ 31)%N with 2147483648%N.
  destruct conf; unfold SRTCP_E_BIT_c; lia.
Qed.
(* the AAD of protect_rtcp_aead / unprotect_rtcp_aead: with confidentiality the 8-octet header, without
   the whole packet, followed by the trailer word *)
Theorem rtcp_aad_model (conf : bool) (pkt : bytes) (seq : Z) :
  0 <= seq ->
  (if conf then take 8 pkt else pkt) ++ be_bytes 4 (Z.to_N ((if conf then SRTCP_E_BIT_c else 0) + seq))
  = Rfc7714.rtcp_aad conf pkt (Z.to_N seq).
Proof. intros H. rewrite (esrtcp_word_model conf seq H). reflexivity. Qed.

(* the offset at which protect_aead / unprotect_aead start encrypting a packet (no cryptex) is the
   specification's header length: fixed header + CSRCs + extension *)
Theorem rtp_header_len_model pkt :
  hdr_len pkt + (if hdr_x pkt =? 1 then xtn_len pkt else 0) = Z.of_nat (Rfc7714.rtp_header_len pkt).
Proof.
  unfold Rfc7714.rtp_header_len, Rfc7714.hdr_cc, Rfc7714.hdr_x, Rfc7714.be16at.
  unfold xtn_len, hdr_len, hdr_cc, hdr_x, be16, nthb. change octets_in_rtp_header_c with 12.
  set (b0 := nth 0 pkt 0%N).
  change 15%N with (N.ones 4). rewrite N.land_ones. rewrite N.testbit_eqb.
  change (2 ^ 4)%N with 16%N.
  assert (C : N.to_nat (b0 mod 16) = zn (Z.of_N b0 mod 16)) by (unfold zn; lia).
  rewrite C. set (cc := Z.of_N b0 mod 16). assert (Hcc : 0 <= cc < 16) by (subst cc; lia).
  replace (zn (12 + 4 * cc + 2)) with (12 + 4 * zn cc + 2)%nat by (unfold zn; lia).
  set (x := be_val (slice (12 + 4 * zn cc + 2) 2 pkt)).
  assert (X : ((Z.of_N b0 / 16) mod 2 =? 1) = ((b0 / 16) mod 2 =? 1)%N) by lia.
  rewrite X. destruct ((b0 / 16) mod 2 =? 1)%N; unfold zn; lia.
Qed.
Corollary rtp_aad_model pkt :
  take (zn (hdr_len pkt + (if hdr_x pkt =? 1 then xtn_len pkt else 0))) pkt = Rfc7714.rtp_aad pkt.
Proof. rewrite rtp_header_len_model. unfold zn. rewrite Nat2Z.id. reflexivity. Qed.
Print Assumptions rtcp_aad_model.
Print Assumptions rtp_header_len_model.
Print Assumptions rtp_aad_model.

(* ===================================================================== *)
(* 3. C09: the key budget                                                 *)
(* ===================================================================== *)
(* ---- 3.1 the budgets of a session: for every stream its SSRC, whether it is a clone of the
        template (then it has no budget of its own: srtp_key_limit_update works on the template's),
        and its key limits ---- *)
Definition sview := (Z * bool * list klimit)%type.
Definition sv (s : stream) : sview := (s_ssrc s, s_clone s, s_limits s).
Definition view := (option sview * list sview)%type.
Definition lv (ss : session) : view := (option_map sv (ss_template ss), map sv (ss_list ss)).

Fixpoint vfind (l : list sview) (x : Z) : option sview :=
  match l with
  | [] => None
  | e :: t => if fst (fst e) =? x then Some e else vfind t x
  end.
Definition vget (V : view) (r : sref) : option sview :=
  match r with RTemplate => fst V | RList x => vfind (snd V) x end.

(* the only other change a packet call makes to this view: streams cloned from the template are
   appended; they have no limits of their own *)
Definition clone_entry (e : sview) : Prop := snd (fst e) = true /\ snd e = [].
Definition ext (V V' : view) : Prop :=
  fst V' = fst V /\ exists l, snd V' = snd V ++ l /\ Forall clone_entry l.

Lemma ext_refl V : ext V V.
Proof. split; [reflexivity|]. exists []. rewrite app_nil_r. split; [reflexivity|constructor]. Qed.
Lemma ext_trans V1 V2 V3 : ext V1 V2 -> ext V2 V3 -> ext V1 V3.
Proof.
  intros (T1 & l1 & E1 & F1) (T2 & l2 & E2 & F2). split; [congruence|].
  exists (l1 ++ l2). split; [rewrite E2, E1, app_assoc; reflexivity|apply Forall_app; split; assumption].
Qed.
Lemma eq_ext V V' : V' = V -> ext V V'.
Proof. intros ->. apply ext_refl. Qed.

Lemma vfind_map l x : vfind (map sv l) x = option_map sv (list_get l x).
Proof.
  induction l as [|s t IH]; [reflexivity|]. cbn [map vfind list_get sv fst].
  destruct (s_ssrc s =? x); [reflexivity|exact IH].
Qed.
Lemma vfind_app l l' x e : vfind l x = Some e -> vfind (l ++ l') x = Some e.
Proof.
  induction l as [|a t IH]; cbn [vfind app]; [discriminate|].
  destruct (fst (fst a) =? x); [auto|exact IH].
Qed.
Lemma vfind_app_none l l' x : vfind l x = None -> vfind (l ++ l') x = vfind l' x.
Proof.
  induction l as [|a t IH]; cbn [vfind app]; [reflexivity|].
  destruct (fst (fst a) =? x); [discriminate|exact IH].
Qed.
(* an existing stream keeps its entry when clones are appended *)
Lemma vget_ext V V' r e : ext V V' -> vget V r = Some e -> vget V' r = Some e.
Proof.
  intros (T & l & E & _) H. destruct r; cbn [vget] in *; [congruence|].
  rewrite E. apply vfind_app. exact H.
Qed.

Lemma map_sv_replace l x n : vfind (map sv l) x = Some (sv n) -> map sv (list_replace l x n) = map sv l.
Proof.
  induction l as [|s t IH]; [reflexivity|]. cbn [map vfind list_replace].
  change (fst (fst (sv s))) with (s_ssrc s).
  destruct (s_ssrc s =? x); cbn [map].
  - intros H. assert (E : sv n = sv s) by congruence. rewrite E. reflexivity.
  - intros H. rewrite (IH H). reflexivity.
Qed.

(* ---- 3.2 triples over the view: from every world whose view is V the computation leads to a
        view related to V by G (here: = or ext), and a normal return satisfies Q ---- *)
Definition s_pres {A} (m : M A) : Prop := forall w, w_s (fst (m w)) = w_s w.
Lemma sp_s {A} (m : M A) : sess_pres m -> s_pres m.
Proof. intros S w. specialize (S w). destruct (m w) as [w1 r]. exact (proj1 S). Qed.
Lemma sb_s {A} (m : M A) : sb_pres m -> s_pres m.
Proof. intros S w. exact (proj1 (S w)). Qed.

Section VT.
Variable G : view -> view -> Prop.
Hypothesis Grefl : forall V, G V V.
Hypothesis Gtrans : forall V1 V2 V3, G V1 V2 -> G V2 V3 -> G V1 V3.

Definition vt {A} (V : view) (m : M A) (Q : A -> view -> Prop) : Prop :=
  forall w, lv (w_s w) = V ->
    let '(w', r) := m w in
    G V (lv (w_s w')) /\ match r with inl a => Q a (lv (w_s w')) | inr _ => True end.

Lemma vt_ret {A} V (a : A) (Q : A -> view -> Prop) : Q a V -> vt V (ret a) Q.
Proof. intros H w E. cbn. rewrite E. split; [apply Grefl|exact H]. Qed.
Lemma vt_exit {A} V st (Q : A -> view -> Prop) : vt V (exit_with st) Q.
Proof. intros w E. cbn. rewrite E. split; [apply Grefl|exact I]. Qed.
Lemma vt_bind {A B} V (m : M A) (f : A -> M B) (R : A -> view -> Prop) Q :
  vt V m R -> (forall a V1, G V V1 -> R a V1 -> vt V1 (f a) Q) -> vt V (bind m f) Q.
Proof.
  intros Hm Hf w E. unfold bind. specialize (Hm w E). destruct (m w) as [w1 [a|st]].
  - destruct Hm as [G1 R1]. specialize (Hf a _ G1 R1 w1 eq_refl).
    destruct (f a w1) as [w2 r]. destruct Hf as [G2 Q2]. split; [exact (Gtrans _ _ _ G1 G2)|exact Q2].
  - exact Hm.
Qed.
Lemma vt_post {A} V (m : M A) (Q Q' : A -> view -> Prop) :
  vt V m Q' -> (forall a V1, Q' a V1 -> Q a V1) -> vt V m Q.
Proof.
  intros H HI w E. specialize (H w E). destruct (m w) as [w1 [a|st]]; [|exact H].
  destruct H as [G1 Q1]. split; [exact G1|exact (HI _ _ Q1)].
Qed.
Lemma vt_if {A} V (c : bool) (m1 m2 : M A) Q : vt V m1 Q -> vt V m2 Q -> vt V (if c then m1 else m2) Q.
Proof. destruct c; auto. Qed.

(* the same view afterwards *)
Definition same (V : view) {A} : A -> view -> Prop := fun _ V1 => V1 = V.

(* computations that do not write the session *)
Lemma vt_s {A} V (m : M A) : s_pres m -> vt V m (same V).
Proof.
  intros S w E. specialize (S w). destruct (m w) as [w1 r]. cbn [fst] in S.
  rewrite S, E. split; [apply Grefl|]. destruct r; [reflexivity|exact I].
Qed.
(* ... with what they return *)
Lemma vt_s_r {A} V (m : M A) (F : A -> Prop) : s_pres m -> returns m F -> vt V m (fun a V1 => V1 = V /\ F a).
Proof.
  intros S R w E. specialize (S w). specialize (R w). destruct (m w) as [w1 r]. cbn [fst] in S.
  rewrite S, E. split; [apply Grefl|]. destruct r as [a|]; [|exact I]. split; [reflexivity|exact (R w1 a eq_refl)].
Qed.
Lemma vt_sp {A} V (m : M A) : sess_pres m -> vt V m (same V).
Proof. intros S. apply vt_s. apply sp_s. exact S. Qed.
Lemma vt_sb {A} V (m : M A) : sb_pres m -> vt V m (same V).
Proof. intros S. apply vt_s. apply sb_s. exact S. Qed.
Lemma vt_get_s V : vt V get_s (fun ss V1 => V1 = V /\ lv ss = V).
Proof. intros w E. cbn. rewrite E. split; [apply Grefl|]. split; reflexivity. Qed.
(* a step that keeps the view, then the rest *)
Lemma vt_seq {A B} V (m : M A) (f : A -> M B) Q :
  vt V m (same V) -> (forall a, vt V (f a) Q) -> vt V (bind m f) Q.
Proof. intros Hm Hf. eapply vt_bind; [exact Hm|]. intros a V1 _ E. unfold same in E. subst V1. apply Hf. Qed.

Lemma vt_get_stream V r : vt V (get_stream r) (fun st V1 => V1 = V /\ vget V r = Some (sv st)).
Proof.
  intros w E. unfold get_stream, bind, get_s. subst V. destruct r; cbn [vget lv fst snd].
  - destruct (ss_template (w_s w)) as [t|]; cbn; (split; [apply Grefl|]); [split; reflexivity|exact I].
  - rewrite vfind_map. destruct (list_get (ss_list (w_s w)) ssrc) as [t|]; cbn; (split; [apply Grefl|]); [split; reflexivity|exact I].
Qed.
Lemma vt_get_stream_bind {B} V r (f : stream -> M B) Q :
  (forall st, vget V r = Some (sv st) -> vt V (f st) Q) -> vt V (bind (get_stream r) f) Q.
Proof. intros H. eapply vt_bind; [apply vt_get_stream|]. intros st V1 _ [-> E]. exact (H st E). Qed.

(* writing back a stream with the same SSRC, clone flag and limits *)
Lemma vt_put_stream V r n : vget V r = Some (sv n) -> vt V (put_stream r n) (same V).
Proof.
  intros H w E. unfold put_stream, bind, get_s, put_s. subst V. destruct r; cbn [vget lv fst snd] in *.
  - cbv beta iota. cbn [w_s]. unfold lv at 2 4. cbn [ss_template ss_list option_map]. rewrite <- H.
    split; [apply Grefl|reflexivity].
  - cbv beta iota. cbn [w_s]. unfold lv at 2 4. cbn [ss_template ss_list option_map]. rewrite (map_sv_replace _ _ _ H).
    split; [apply Grefl|reflexivity].
Qed.
End VT.

(* ---- 3.3 srtp_protect with a GCM key = shared prefix ; srtp_key_limit_update ; the rest ---- *)
Record ppre := { p_b : bufs; p_ref : sref; p_st : stream; p_ki : Z; p_k : skeys }.
Definition p_pkt (c : ppre) : bytes := take (zn (b_len (p_b c))) (cur_src (p_b c)).

(* srtp_protect up to the call of srtp_protect_aead (the prefix shared with the non-AEAD path) *)
Definition protect_aead_pre (mki_index : Z) : M ppre :=
  b <- get_b ;;
  let len := b_len b in
  let pkt := take (zn len) (cur_src b) in
  check_st (validate_rtp pkt len) ;;;
  let ssrc := hdr_ssrc pkt in
  r <- lookup_or_clone ssrc true ;;
  check_direction r dir_srtp_sender_c ;;;
  st <- get_stream r ;;
  ik <- keys_by_index st mki_index ;;
  let '(ki, k) := ik in
  ret {| p_b := b; p_ref := r; p_st := st; p_ki := ki; p_k := k |}.

(* srtp_protect_aead after its first statement (the key-limit update) *)
Definition protect_aead_post (c : ppre) : M Z :=
  let b := p_b c in let r := p_ref c in let st := p_st c in let k := p_k c in
  let len := b_len b in
  let pkt := take (zn len) (cur_src b) in
  let ssrc := hdr_ssrc pkt in
  let tag_len := ak_tag (k_rtp_a k) in
  (if b_cap b <? len + tag_len + s_mki_size st then exit_with st_buffer_small else ret tt) ;;;
  let enc0 := hdr_len pkt + (if hdr_x pkt =? 1 then xtn_len pkt else 0) in
  let want_cryptex := s_cryptex st && negb (Z.land (s_rtp_serv st) sec_serv_conf_c =? 0) in
  (if want_cryptex && negb (hdr_cc pkt =? 0) && (hdr_x pkt =? 0) then exit_with st_cryptex_err else ret tt) ;;;
  let inuse := want_cryptex && (hdr_x pkt =? 1) in
  let inplace := inuse && b_alias b in
  let enc_start := if inuse then u64 (u64 (enc0 - (xtn_len pkt - octets_in_rtp_xtn_hdr_c))
                                      - (if inplace then hdr_cc pkt * 4 else 0)) else enc0 in
  (if inuse && negb inplace && negb (hdr_cc pkt =? 0) then exit_with st_cryptex_err else ret tt) ;;;
  (if len <? enc_start then exit_with st_parse_err else ret tt) ;;;
  let enc_len := len - enc_start in
  (if b_alias b then ret tt else (h <- rd_src 0 enc_start ;; wr_dst 0 h)) ;;;
  st <- get_stream r ;;
  let '(est_st, est, delta) := est_index st (hdr_seq pkt) in
  (if negb (est_st =? st_ok) && negb (est_st =? st_pkt_idx_adv) then exit_with est_st else ret tt) ;;;
  (if est_st =? st_pkt_idx_adv then put_stream r (commit_advance st est)
   else
     let cs := rdbx_check (s_rdbx st) delta in
     (if negb (cs =? st_ok) && (negb (cs =? st_replay_fail) || negb (s_allow_repeat st))
      then exit_with cs else ret tt) ;;;
     put_stream r (set_pending (set_rdbx st (rdbx_add (s_rdbx st) delta)) 0)) ;;;
  let iv := aead_rtp_iv (k_salt k) ssrc est in
  log_gcm_iv (k_rtp_c k) iv ;;;
  (match k_xtn_c k with Some xk => log_encrypt_iv xk (key_fp xk ++ xtn_iv ssrc est) | None => ret tt end) ;;;
  (match k_xtn_c k with
   | Some xk => if hdr_x pkt =? 1 then process_xtn st pkt (cipher_start xk (xtn_iv ssrc est)) else ret tt
   | None => ret tt
   end) ;;;
  (if inuse then
     h <- rd_dst (hdr_len pkt) 2 ;;
     let profile := be16 h 0 in
     (if profile =? xtn_hdr_one_byte_profile_c then set_profile pkt cryptex_one_byte_profile_c
      else if profile =? xtn_hdr_two_byte_profile_c then set_profile pkt cryptex_two_byte_profile_c
      else exit_with st_parse_err) ;;;
     if inplace then cryptex_adjust pkt else ret tt
   else ret tt) ;;;
  aad <- rd_dst 0 enc_start ;;
  d <- rd_src enc_start enc_len ;;
  let '(s, o) := gcm_seal (k_rtp_c k) tag_len iv aad d (b_cap b - enc_start) in
  (if negb (s =? st_ok) then exit_with st_cipher_fail else wr_dst enc_start o) ;;;
  (if s_use_mki st then wr_dst (enc_start + lenZ o) (k_mki k) else ret tt) ;;;
  (if inplace then cryptex_restore pkt else ret tt) ;;;
  ret (u64 (enc_start + lenZ o + s_mki_size st)).

Theorem protect_aead_split i :
  meq (protect_aead i) (c <- protect_aead_pre i ;; charge_key (p_ref c) (p_ki c) ;;; protect_aead_post c).
Proof.
  unfold protect_aead, protect_aead_pre.
  do 5 split_step.
  apply meq_step; intros [ki k]; cbv beta iota zeta.
  intros w. reflexivity.
Qed.

(* ---- 3.4 what the pieces do to the budgets ---- *)
Ltac solve_pre := first [exact ext_refl | exact ext_trans | exact (@eq_refl view) | exact (@eq_trans view)].
Ltac sp_tac :=
  unfold log_gcm_iv, log_encrypt_iv, process_xtn, set_profile, cryptex_adjust, cryptex_restore, keys_by_index; sp_auto.
Ltac vseq := apply vt_seq; [solve_pre| |intros ?].
Ltac vsp := apply vt_sp; [solve_pre|sp_tac].

Lemma sv_commit st est : sv (commit_advance st est) = sv st.
Proof. unfold commit_advance. destruct (set_roc_seq _ _ _). reflexivity. Qed.

(* everything srtp_protect_aead does after the key-limit update leaves every budget alone *)
Lemma vt_protect_aead_post V c : vt eq V (protect_aead_post c) (same V).
Proof.
  unfold protect_aead_post. cbv zeta.
  do 5 (vseq; [vsp|]).
  apply vt_get_stream_bind; [solve_pre|solve_pre|intros st Hst].
  destruct (est_index st _) as [[est_st est] delta].
  vseq; [vsp|].
  vseq.
  { apply vt_if.
    - apply vt_put_stream; [solve_pre|]. rewrite sv_commit. exact Hst.
    - vseq; [vsp|]. apply vt_put_stream; [solve_pre|]. exact Hst. }
  vsp.
Qed.

(* srtp_get_stream + direction check: at most a direction is written *)
Lemma vt_check_direction (G : view -> view -> Prop) (Gr : forall V, G V V) (Gt : forall V1 V2 V3, G V1 V2 -> G V2 V3 -> G V1 V3) V r want :
  vt G V (check_direction r want) (same V).
Proof.
  unfold check_direction. apply vt_get_stream_bind; [exact Gr|exact Gt|intros st Hst].
  apply vt_if; [apply vt_ret; [exact Gr|reflexivity]|].
  apply vt_if; [apply vt_put_stream; [exact Gr|exact Hst]|].
  apply vt_sb; [exact Gr|apply sb_emit].
Qed.

(* srtp_stream_clone returns a stream that shares the template's limits *)
Lemma r_stream_clone_sv t ssrc : returns (stream_clone t ssrc) (fun ns => sv ns = (ssrc, true, [])).
Proof.
  unfold stream_clone.
  apply r_bind; intros ok. apply r_if; [apply r_exit|].
  apply r_bind; intros ok2. apply r_if; [apply r_bind; intros; apply r_exit|].
  apply r_bind; intros o. apply r_bind; intros ok3. apply r_if; [apply r_bind; intros; apply r_exit|].
  destruct (rdbx_init (wlen (s_rdbx t))); [|apply r_bind; intros; apply r_exit].
  apply r_ret. reflexivity.
Qed.

(* srtp_stream_list_insert / dealloc on failure: one clone entry appended, or nothing *)
Lemma vt_insert_or_dealloc V ns :
  clone_entry (sv ns) -> vt ext V (insert_or_dealloc ns) (fun _ V1 => V1 = (fst V, snd V ++ [sv ns])).
Proof.
  intros C w E. unfold insert_or_dealloc, list_insert, bind at 1 2, get_s at 1.
  assert (X : ext V (fst V, snd V ++ [sv ns])).
  { split; [reflexivity|]. exists [sv ns]. split; [reflexivity|]. constructor; [exact C|constructor]. }
  assert (L : forall c, lv {| ss_template := ss_template (w_s w); ss_list := ss_list (w_s w) ++ [ns]; ss_cap := c |}
                     = (fst V, snd V ++ [sv ns])).
  { intros c. subst V. unfold lv. cbn [ss_template ss_list fst snd]. rewrite map_app. reflexivity. }
  destruct (lenZ (ss_list (w_s w)) =? ss_cap (w_s w)).
  - pose proof (sb_alloc1 w) as [A1 _]. destruct (alloc1 w) as [w1 [ok|s1]] eqn:EA; cbn [fst] in A1.
    2: { exfalso. exact (ex_alloc1 (fun _ => False) _ _ _ EA). }
    unfold bind at 1. rewrite EA. destruct ok; cbn [negb].
    + cbv [bind free_n get_h put_h put_s ret]. change (st_ok =? st_ok) with true. cbv iota beta.
      cbn [w_s]. rewrite L. split; [exact X|reflexivity].
    + cbv [bind ret]. change (st_alloc_fail =? st_ok) with false. cbv iota beta.
      cbv [stream_dealloc free_n bind get_h put_h exit_with]. cbn [w_s]. rewrite A1, E.
      split; [apply ext_refl|exact I].
  - cbv [bind put_s ret]. change (st_ok =? st_ok) with true. cbv iota beta. cbn [w_s].
    rewrite L. split; [exact X|reflexivity].
Qed.

(* srtp_protect's stream lookup: the stream of the packet's SSRC, cloned from the template when new *)
Lemma vt_lookup_or_clone V ssrc flag :
  vt ext V (lookup_or_clone ssrc flag) (fun r _ => r = RList ssrc).
Proof.
  unfold lookup_or_clone.
  eapply vt_bind; [exact ext_trans|apply vt_get_s; exact ext_refl|]. intros ss V1 _ [-> Ess].
  destruct (list_get (ss_list ss) ssrc) eqn:LG; [apply vt_ret; [exact ext_refl|reflexivity]|].
  destruct (ss_template ss) as [t|]; [|apply vt_exit; exact ext_refl].
  eapply vt_bind; [exact ext_trans|apply (vt_s_r ext ext_refl V _ _ (sb_s _ (sb_stream_clone t ssrc)) (r_stream_clone_sv t ssrc))|].
  intros ns V1 _ [-> Ens]. cbv beta.
  assert (C : clone_entry (sv ns)) by (rewrite Ens; split; reflexivity).
  eapply vt_bind; [exact ext_trans|apply vt_insert_or_dealloc; exact C|].
  intros _ V1 _ ->. cbv beta.
  eapply vt_bind with (R := fun _ _ => True); [exact ext_trans| |intros; apply vt_ret; [exact ext_refl|reflexivity]].
  destruct flag; [|apply vt_ret; [exact ext_refl|exact I]].
  eapply vt_post; [apply vt_put_stream; [exact ext_refl|]|intros; exact I].
  cbn [vget snd]. rewrite vfind_app_none.
  - change (sv (set_dir ns dir_srtp_sender_c)) with (sv ns). cbn [vfind].
    replace (fst (fst (sv ns))) with ssrc by (rewrite Ens; reflexivity). rewrite Z.eqb_refl. reflexivity.
  - rewrite <- Ess. cbn [lv snd]. rewrite vfind_map, LG. reflexivity.
Qed.

Lemma vt_protect_aead_pre V i :
  vt ext V (protect_aead_pre i) (fun c _ => p_ref c = RList (hdr_ssrc (p_pkt c))).
Proof.
  unfold protect_aead_pre.
  eapply vt_bind; [exact ext_trans|apply vt_sp; [exact ext_refl|apply sp_get_b]|]. intros b V1 _ ->.
  vseq; [vsp|]. cbv zeta.
  eapply vt_bind; [exact ext_trans|apply vt_lookup_or_clone|]. intros r V1 _ ->. cbv beta.
  eapply vt_bind; [exact ext_trans|apply vt_check_direction; [exact ext_refl|exact ext_trans]|]. intros _ V2 _ ->.
  apply vt_get_stream_bind; [exact ext_refl|exact ext_trans|intros st _].
  eapply vt_bind; [exact ext_trans|apply vt_sp; [exact ext_refl|sp_tac]|]. intros [ki k] V3 _ ->.
  apply vt_ret; [exact ext_refl|reflexivity].
Qed.

(* ---- 3.5 the shared prefix touches neither the packet buffers nor the IV log ---- *)
Definition bi_pres {A} (m : M A) : Prop := forall w, w_b (fst (m w)) = w_b w /\ w_iv (fst (m w)) = w_iv w.
Lemma bi_ret {A} (a : A) : bi_pres (ret a). Proof. intros w; cbn; auto. Qed.
Lemma bi_exit {A} st : bi_pres (@exit_with A st). Proof. intros w; cbn; auto. Qed.
Lemma bi_bind {A B} (m : M A) (f : A -> M B) : bi_pres m -> (forall a, bi_pres (f a)) -> bi_pres (bind m f).
Proof.
  intros Hm Hf w. unfold bind. specialize (Hm w). destruct (m w) as [w1 [a|st]]; cbn [fst] in *; [|exact Hm].
  specialize (Hf a w1). destruct Hm as [a1 a2], Hf as [b1 b2]. split; congruence.
Qed.
Lemma bi_if {A} (c : bool) (m1 m2 : M A) : bi_pres m1 -> bi_pres m2 -> bi_pres (if c then m1 else m2).
Proof. destruct c; auto. Qed.
Lemma bi_get_s : bi_pres get_s. Proof. intros w; cbn; auto. Qed.
Lemma bi_put_s s : bi_pres (put_s s). Proof. intros w; cbn; auto. Qed.
Lemma bi_get_b : bi_pres get_b. Proof. intros w; cbn; auto. Qed.
Lemma bi_get_h : bi_pres get_h. Proof. intros w; cbn; auto. Qed.
Lemma bi_put_h h : bi_pres (put_h h). Proof. intros w; cbn; auto. Qed.
Lemma bi_emit e s : bi_pres (emit e s). Proof. intros w; cbn; auto. Qed.
Ltac bi_auto :=
  repeat (first [ apply bi_ret | apply bi_exit | apply bi_get_s | apply bi_put_s | apply bi_get_b | apply bi_get_h
                | apply bi_put_h | apply bi_emit | (apply bi_bind; [|intros ?]) | apply bi_if ]
          || match goal with |- bi_pres (match ?x with _ => _ end) => destruct x end).
Lemma bi_clone_mkis n : forall o, bi_pres (clone_mkis n o).
Proof. induction n as [|n IH]; intros o; cbn [clone_mkis]; [apply bi_ret|]. unfold alloc1, free_n. bi_auto. apply IH. Qed.
Lemma bi_protect_aead_pre i : bi_pres (protect_aead_pre i).
Proof.
  unfold protect_aead_pre, check_st, lookup_or_clone, check_direction, keys_by_index, stream_clone, insert_or_dealloc,
    list_insert, stream_dealloc, get_stream, put_stream, alloc1, free_n.
  bi_auto; apply bi_clone_mkis.
Qed.

Lemma protect_aead_pre_b i w w0 c : protect_aead_pre i w = (w0, inl c) -> p_b c = w_b w.
Proof.
  unfold protect_aead_pre. unfold bind at 1, get_b at 1.
  remember (w_b w) as b eqn:Eb. clear Eb. revert w w0 c. cbv zeta.
  match goal with |- forall w w0 c, ?m w = (w0, inl c) -> @?F c => change (returns m F) end.
  do 4 (apply r_bind; intros ?). apply r_bind; intros [ki k]. apply r_ret. reflexivity.
Qed.

(* ---- 3.6 C09 for srtp_protect with a GCM key ---- *)
(* The call is: shared prefix; key-limit update; rest.
   - An exit of the prefix charges nothing: no budget of the session changes (clones may be appended).
   - Otherwise the key-limit update of the selected key of the packet's stream is the first effect of
     srtp_protect_aead: the packet buffers and the IV log are still those of the call.  If it exits
     (key_expired at the hard limit) the call ends there, with the buffers untouched.  If not, nothing
     the rest of the call does changes any budget, whatever its outcome: exactly one update.
   What the update itself does is LimitProofs.charge_key_explicit / charge_key_clone. *)
Theorem protect_aead_charges_once i w :
  match protect_aead_pre i w with
  | (w0, inr s) => protect_aead i w = (w0, inr s) /\ ext (lv (w_s w)) (lv (w_s w0))
  | (w0, inl c) =>
    ext (lv (w_s w)) (lv (w_s w0)) /\ w_b w0 = w_b w /\ w_iv w0 = w_iv w /\
    p_b c = w_b w /\ p_ref c = RList (hdr_ssrc (p_pkt c)) /\
    match charge_key (p_ref c) (p_ki c) w0 with
    | (w1, inr s) => protect_aead i w = (w1, inr s) /\ w_b w1 = w_b w /\ w_iv w1 = w_iv w
    | (w1, inl _) => lv (w_s (fst (protect_aead i w))) = lv (w_s w1)
    end
  end.
Proof.
  pose proof (vt_protect_aead_pre (lv (w_s w)) i w eq_refl) as P.
  pose proof (bi_protect_aead_pre i w) as B.
  pose proof (protect_aead_pre_b i w) as PB.
  pose proof (protect_aead_split i w) as ER. unfold bind at 1 in ER.
  destruct (protect_aead_pre i w) as [w0 [c|s]]; cbn [fst] in B.
  - destruct P as [P1 P2]. destruct B as [B1 B2].
    split; [exact P1|]. split; [exact B1|]. split; [exact B2|]. split; [exact (PB _ _ eq_refl)|]. split; [exact P2|].
    unfold bind in ER.
    assert (CB : bi_pres (charge_key (p_ref c) (p_ki c))).
    { unfold charge_key, limit_update, get_stream, put_stream. bi_auto. }
    specialize (CB w0).
    destruct (charge_key (p_ref c) (p_ki c) w0) as [w1 [u|s]]; cbn [fst] in *.
    + pose proof (vt_protect_aead_post (lv (w_s w1)) c w1 eq_refl) as Q.
      rewrite ER. destruct (protect_aead_post c w1) as [w2 r]. cbn [fst]. destruct Q as [Q _]. symmetry. exact Q.
    + split; [exact ER|]. destruct CB as [C1 C2]. split; congruence.
  - split; [exact ER|exact (proj1 P)].
Qed.
Print Assumptions protect_aead_split.
Print Assumptions protect_aead_charges_once.

(* ---- 3.7 the key-limit update on the view: exactly one kl_update, on the stream's own budget or,
        for a clone, on the template's ---- *)
Fixpoint vreplace (l : list sview) (x : Z) (e : sview) : list sview :=
  match l with
  | [] => []
  | a :: t => if fst (fst a) =? x then e :: t else a :: vreplace t x e
  end.
Definition vput (V : view) (r : sref) (e : sview) : view :=
  match r with RTemplate => (Some e, snd V) | RList x => (fst V, vreplace (snd V) x e) end.
(* whose budget a reference is charged on *)
Definition budget_ref (V : view) (r : sref) : option sref :=
  match vget V r with Some e => Some (if snd (fst e) then RTemplate else r) | None => None end.
Definition charge_view (V : view) (r : sref) (i : nat) : option (view * kevent) :=
  match budget_ref V r with
  | Some br =>
    match vget V br with
    | Some e => match nth_error (snd e) i with
                | Some k => Some (vput V br (fst e, replace_nth i (snd e) (fst (kl_update k))), snd (kl_update k))
                | None => None
                end
    | None => None
    end
  | None => None
  end.

Lemma map_sv_vreplace l x n : map sv (list_replace l x n) = vreplace (map sv l) x (sv n).
Proof.
  induction l as [|s t IH]; [reflexivity|]. cbn [map list_replace vreplace].
  change (fst (fst (sv s))) with (s_ssrc s). destruct (s_ssrc s =? x); cbn [map]; [reflexivity|rewrite IH; reflexivity].
Qed.
Lemma put_stream_view r n w :
  put_stream r n w = (fst (put_stream r n w), inl tt) /\ lv (w_s (fst (put_stream r n w))) = vput (lv (w_s w)) r (sv n).
Proof.
  unfold put_stream, bind, get_s, put_s. destruct r; cbn [fst w_s]; (split; [reflexivity|]).
  - reflexivity.
  - unfold lv, vput. cbn [ss_template ss_list fst snd]. rewrite map_sv_vreplace. reflexivity.
Qed.
Lemma get_stream_cases r w :
  (exists st, get_stream r w = (w, inl st) /\ vget (lv (w_s w)) r = Some (sv st)) \/
  (get_stream r w = (w, inr st_fail) /\ vget (lv (w_s w)) r = None).
Proof.
  unfold get_stream, bind, get_s. destruct r; cbn [vget lv fst snd].
  - destruct (ss_template (w_s w)) as [t|]; [left; exists t; split; reflexivity|right; split; reflexivity].
  - rewrite vfind_map. destruct (list_get (ss_list (w_s w)) ssrc) as [t|]; [left; exists t; split; reflexivity|right; split; reflexivity].
Qed.

Lemma limit_update_view r i w :
  match limit_update r i w with
  | (w1, inl e) => charge_view (lv (w_s w)) r (zn i) = Some (lv (w_s w1), e)
  | (w1, inr s) => w1 = w /\ charge_view (lv (w_s w)) r (zn i) = None /\ s = st_fail
  end.
Proof.
  unfold limit_update, charge_view, budget_ref, bind at 1.
  destruct (get_stream_cases r w) as [(st & G1 & V1)|(G1 & V1)]; rewrite G1, V1; [|repeat split].
  change (snd (fst (sv st))) with (s_clone st).
  destruct (s_clone st).
  - unfold bind at 1. destruct (get_stream_cases RTemplate w) as [(t & G2 & V2)|(G2 & V2)]; rewrite G2, V2; [|repeat split].
    change (snd (sv t)) with (s_limits t).
    destruct (nth_error (s_limits t) (zn i)) as [k|]; [|repeat split].
    destruct (kl_update k) as [k' e]. cbn [fst snd]. unfold bind.
    destruct (put_stream_view RTemplate (set_limits t (replace_nth (zn i) (s_limits t) k')) w) as [P1 P2].
    rewrite P1. cbn [ret]. unfold ret. rewrite P2. reflexivity.
  - rewrite V1. change (snd (sv st)) with (s_limits st).
    destruct (nth_error (s_limits st) (zn i)) as [k|]; [|repeat split].
    destruct (kl_update k) as [k' e]. cbn [fst snd]. unfold bind.
    destruct (put_stream_view r (set_limits st (replace_nth (zn i) (s_limits st) k')) w) as [P1 P2].
    rewrite P1. unfold ret. rewrite P2. reflexivity.
Qed.

(* srtp_key_limit_update as the packet functions use it: either nothing (status fail: no such
   stream / key) or exactly one kl_update at key i of the charged budget, whatever the status *)
Lemma charge_key_view r i w :
  let '(w1, res) := charge_key r i w in
  (lv (w_s w1) = lv (w_s w) /\ res = inr st_fail) \/
  (exists e, charge_view (lv (w_s w)) r (zn i) = Some (lv (w_s w1), e) /\
             (res = inl tt \/ res = inr st_fail \/ (res = inr st_key_expired /\ e = EvHard))).
Proof.
  unfold charge_key, bind at 1. pose proof (limit_update_view r i w) as L.
  destruct (limit_update r i w) as [w1 [e|s]].
  - unfold bind at 1.
    destruct (get_stream_cases r w1) as [(st & G1 & _)|(G1 & _)]; rewrite G1.
    + destruct e.
      * unfold ret. right. exists EvNormal. split; [exact L|left; reflexivity].
      * unfold emit. cbn [w_s]. right. exists EvSoft. split; [exact L|left; reflexivity].
      * unfold bind, emit, exit_with. cbn [w_s]. right. exists EvHard.
        split; [exact L|right; right; split; reflexivity].
    + right. exists e. split; [exact L|right; left; reflexivity].
  - left. destruct L as (-> & _ & ->). split; reflexivity.
Qed.

(* the budgets after srtp_protect with a GCM key: untouched (only clones appended), or exactly one
   kl_update at one key of the budget of the packet's stream *)
Corollary protect_aead_budget i w :
  let V := lv (w_s w) in
  let V' := lv (w_s (fst (protect_aead i w))) in
  ext V V' \/
  exists V0 x ki e, ext V V0 /\ charge_view V0 (RList x) ki = Some (V', e).
Proof.
  intros V V'. subst V V'. pose proof (protect_aead_charges_once i w) as H.
  destruct (protect_aead_pre i w) as [w0 [c|s]].
  - destruct H as (X & _ & _ & _ & R & H). rewrite R in H.
    pose proof (charge_key_view (RList (hdr_ssrc (p_pkt c))) (p_ki c) w0) as CK.
    destruct (charge_key (RList (hdr_ssrc (p_pkt c))) (p_ki c) w0) as [w1 [u|s]].
    + rewrite H. destruct CK as [(E & _)|(e & E & _)].
      * left. rewrite E. exact X.
      * right. exists (lv (w_s w0)), (hdr_ssrc (p_pkt c)), (zn (p_ki c)), e. split; [exact X|exact E].
    + destruct H as (H & _). rewrite H. cbn [fst]. destruct CK as [(E & _)|(e & E & _)].
      * left. rewrite E. exact X.
      * right. exists (lv (w_s w0)), (hdr_ssrc (p_pkt c)), (zn (p_ki c)), e. split; [exact X|exact E].
  - destruct H as (H & X). rewrite H. left. exact X.
Qed.
Print Assumptions protect_aead_budget.

(* ---- 3.8 C09 for srtp_unprotect with a GCM key ---- *)
(* srtp_unprotect_aead after the key-limit update *)
Definition unprotect_aead_rest (u : apre) : M Z :=
  let pkt := a_pkt u in let k := a_k u in let r0 := a_ref u in
  let inuse := a_inuse u in let inplace := a_inplace u in
  st <- get_stream r0 ;;
  (if inuse then
     (if inplace then cryptex_restore pkt else ret tt) ;;;
     h <- rd_dst (hdr_len pkt) 2 ;;
     let profile := be16 h 0 in
     if profile =? cryptex_one_byte_profile_c then set_profile pkt xtn_hdr_one_byte_profile_c
     else if profile =? cryptex_two_byte_profile_c then set_profile pkt xtn_hdr_two_byte_profile_c
     else ret tt
   else ret tt) ;;;
  (match k_xtn_c k with
   | Some xk => if hdr_x pkt =? 1 then process_xtn st pkt (cipher_start xk (xtn_iv (a_ssrc u) (a_est u))) else ret tt
   | None => ret tt
   end) ;;;
  check_direction r0 dir_srtp_receiver_c ;;;
  r <- materialize r0 (a_ssrc u) ;;
  st2 <- get_stream r ;;
  (if a_adv u then put_stream r (commit_advance st2 (a_est u))
   else put_stream r (set_pending (set_rdbx st2 (rdbx_add (s_rdbx st2) (a_delta u))) 0)) ;;;
  ret (u64 (a_enc_start u + lenZ (a_o u))).

Lemma unprotect_aead_post_eq u :
  unprotect_aead_post u = (charge_key (a_ref u) (a_ki u) ;;; unprotect_aead_rest u).
Proof. reflexivity. Qed.

Lemma vt_materialize V r ssrc : vt ext V (materialize r ssrc) (fun _ _ => True).
Proof.
  unfold materialize. destruct r; [|apply vt_ret; [exact ext_refl|exact I]].
  apply vt_get_stream_bind; [exact ext_refl|exact ext_trans|intros t _].
  eapply vt_bind; [exact ext_trans|apply (vt_s_r ext ext_refl V _ _ (sb_s _ (sb_stream_clone t ssrc)) (r_stream_clone_sv t ssrc))|].
  intros ns V1 _ [-> Ens]. cbv beta.
  assert (C : clone_entry (sv ns)) by (rewrite Ens; split; reflexivity).
  eapply vt_bind; [exact ext_trans|apply vt_insert_or_dealloc; exact C|].
  intros _ V1 _ _. apply vt_ret; [exact ext_refl|exact I].
Qed.

(* after the update no budget changes; a stream cloned from the template may be appended *)
Lemma vt_unprotect_aead_rest V u : vt ext V (unprotect_aead_rest u) (fun _ _ => True).
Proof.
  unfold unprotect_aead_rest. cbv zeta.
  apply vt_get_stream_bind; [exact ext_refl|exact ext_trans|intros st _].
  vseq; [vsp|].
  vseq; [vsp|].
  vseq; [apply vt_check_direction; [exact ext_refl|exact ext_trans]|].
  eapply vt_bind; [exact ext_trans|apply vt_materialize|]. intros r V1 _ _.
  apply vt_get_stream_bind; [exact ext_refl|exact ext_trans|intros st2 Hst2].
  vseq.
  { apply vt_if; (apply vt_put_stream; [exact ext_refl|]); [rewrite sv_commit|]; exact Hst2. }
  apply vt_ret; [exact ext_refl|exact I].
Qed.

(* a normal return of the part before the update means that gcm_open accepted the packet under the
   IV of the estimated index *)
Lemma unprotect_aead_pre_authentic w w0 u :
  unprotect_aead_pre w = (w0, inl u) ->
  exists aad d room,
    gcm_open (k_rtp_c (a_k u)) (ak_tag (k_rtp_a (a_k u)))
             (aead_rtp_iv (k_salt (a_k u)) (a_ssrc u) (a_est u)) aad d room = (st_ok, a_o u).
Proof.
  revert w w0 u.
  match goal with |- forall w w0 u, ?m w = (w0, inl u) -> @?F u => change (returns m F) end.
  unfold unprotect_aead_pre.
  do 5 (apply r_bind; intros ?).
  apply r_bind; intros [[est delta] adv].
  apply r_bind; intros [ki k].
  do 11 (apply r_bind; intros ?).
  destruct (gcm_open _ _ _ _ _ _) as [s o] eqn:G.
  destruct (s =? st_ok) eqn:ES; cbn [negb]; [|apply r_bind_exit].
  apply Z.eqb_eq in ES. subst s.
  apply r_bind; intros _. apply r_ret. cbn [a_k a_o a_ssrc a_est].
  eexists. eexists. eexists. exact G.
Qed.

(* The call is: everything up to and including gcm_open (unprotect_aead_pre); key-limit update; rest.
   - An exit before the update (the packet is malformed, replayed, for an unknown MKI, too short,
     or gcm_open rejects its tag) leaves the whole session as it was: nothing is charged.
   - Otherwise gcm_open accepted the packet and the session is still untouched when the key of the
     packet (by its MKI) is charged.  If the update exits (key_expired) the call ends there; if not,
     nothing after it changes a budget (a clone of the template may be appended): exactly one update. *)
Theorem unprotect_aead_charges_after_auth w :
  match unprotect_aead_pre w with
  | (w0, inr s) => unprotect_aead w = (w0, inr s) /\ w_s w0 = w_s w /\ w_h w0 = w_h w /\ w_ev w0 = w_ev w
  | (w0, inl u) =>
    w_s w0 = w_s w /\ w_h w0 = w_h w /\ w_ev w0 = w_ev w /\
    (exists aad d room,
        gcm_open (k_rtp_c (a_k u)) (ak_tag (k_rtp_a (a_k u)))
                 (aead_rtp_iv (k_salt (a_k u)) (a_ssrc u) (a_est u)) aad d room = (st_ok, a_o u)) /\
    match charge_key (a_ref u) (a_ki u) w0 with
    | (w1, inr s) => unprotect_aead w = (w1, inr s)
    | (w1, inl _) => ext (lv (w_s w1)) (lv (w_s (fst (unprotect_aead w))))
    end
  end.
Proof.
  pose proof (sp_unprotect_aead_pre w) as S.
  pose proof (unprotect_aead_pre_authentic w) as A.
  pose proof (unprotect_aead_split w) as ER. unfold bind at 1 in ER.
  destruct (unprotect_aead_pre w) as [w0 [u|s]].
  - destruct S as (S1 & S2 & S3). split; [exact S1|]. split; [exact S2|]. split; [exact S3|].
    split; [exact (A _ _ eq_refl)|].
    rewrite unprotect_aead_post_eq in ER. unfold bind in ER.
    destruct (charge_key (a_ref u) (a_ki u) w0) as [w1 [x|s]]; [|exact ER].
    pose proof (vt_unprotect_aead_rest (lv (w_s w1)) u w1 eq_refl) as Q.
    rewrite ER. destruct (unprotect_aead_rest u w1) as [w2 r]. cbn [fst]. exact (proj1 Q).
  - split; [exact ER|exact S].
Qed.
Print Assumptions unprotect_aead_charges_after_auth.

Corollary unprotect_aead_budget w :
  let V := lv (w_s w) in
  let V' := lv (w_s (fst (unprotect_aead w))) in
  V' = V \/
  exists u w0 V1 e,
    unprotect_aead_pre w = (w0, inl u) /\          (* gcm_open accepted: unprotect_aead_pre_authentic *)
    charge_view V (a_ref u) (zn (a_ki u)) = Some (V1, e) /\ ext V1 V'.
Proof.
  intros V V'. subst V V'. pose proof (unprotect_aead_charges_after_auth w) as H.
  destruct (unprotect_aead_pre w) as [w0 [u|s]].
  - destruct H as (S1 & _ & _ & _ & H).
    pose proof (charge_key_view (a_ref u) (a_ki u) w0) as CK. rewrite S1 in CK.
    destruct (charge_key (a_ref u) (a_ki u) w0) as [w1 [x|s]].
    + destruct CK as [(_ & E)|(e & E & _)]; [discriminate|].
      right. exists u, w0, (lv (w_s w1)), e. split; [reflexivity|]. split; [exact E|exact H].
    + rewrite H. cbn [fst]. destruct CK as [(E & _)|(e & E & _)]; [left; exact E|].
      right. exists u, w0, (lv (w_s w1)), e. split; [reflexivity|]. split; [exact E|apply ext_refl].
  - destruct H as (H & S1 & _). rewrite H. cbn [fst]. left. rewrite S1. reflexivity.
Qed.
Print Assumptions unprotect_aead_budget.

(* ---- 3.9 non-vacuity on the concrete GCM session of AeadBoundsRtp.AeadWitness (one explicit stream,
        budget 2^48 - 1) ---- *)
Module W := AeadBoundsRtp.AeadWitness.
Example protect_aead_charges_example :
  lv (w_s W.sender) = (None, [(W.ssrc0, false, [{| num_left := 281474976710655; kst := KNormal |}])]) /\
  snd (protect_aead 0 W.sender) = inl 45 /\
  lv (w_s (fst (protect_aead 0 W.sender))) = (None, [(W.ssrc0, false, [{| num_left := 281474976710654; kst := KNormal |}])]).
Proof. vm_compute. repeat split. Qed.
Example unprotect_aead_charges_example :
  snd (unprotect_aead W.receiver) = inl 29 /\
  lv (w_s (fst (unprotect_aead W.receiver))) = (None, [(W.ssrc0, false, [{| num_left := 281474976710654; kst := KNormal |}])]).
Proof. vm_compute. repeat split. Qed.
(* the same packet with the last tag octet changed: auth_fail, nothing charged *)
Example unprotect_aead_forged_not_charged :
  let w := BoundsRtp.Witness.mkw W.sess0 (W.inpl (take 44 W.wire ++ [6%N])) in
  snd (unprotect_aead w) = inr st_auth_fail /\ w_s (fst (unprotect_aead w)) = w_s w.
Proof. vm_compute. repeat split. Qed.
