(* KernelGenProofs2.v — the replay-database kernels GENERATED from the C text (KernelGen.v, tools/gen_kernels.py:
   arrays as functions Z -> Z, calls, fuel-bounded loops) compute what the hand-written models Rdb.v / Rdbx.v /
   BitvecModel.v compute.

   Abstraction of an array of 32-bit words (v128_t.v32, bitvector_t.word) of n words held in a function a : Z -> Z :
       words a n = [a 0; ...; a (n-1)]  (as N)          absN a n = pack (words a n) = sum_{i<n} a i * 2^(32 i)
   with every word in range:  inrange a n  :=  forall k, 0 <= k < n -> 0 <= a k < 2^32.
   Functions Z -> Z are compared pointwise (no functional extensionality): a result array a' is described by
   `words a' n` (or absN a' n), by inrange a' n, and by  frame a a' n := forall k, ~ 0 <= k < n -> a' k = a k.

   Theorems (<C function>_gen_eq), every C-typed input with its range hypothesis:
     srtp_rdbx_estimate_index   = Rdbx.estimate                      (calls srtp_index_guess)
     srtp_rdb_check             = Rdb.rdb_check
     srtp_rdbx_check            = Rdbx.rdbx_check                    under "no signed overflow in (int)(len-1)+delta";
                                  corollary _31 for 0 < len <= 2^31; srtp_rdbx_check_gen_overflow_refuted beyond
     v128_left_shift            = BitvecModel.v128_left_shift        fuel >= 4
     bitvector_set_to_zero      = all words 0                        len = 32 n
     bitvector_left_shift       = BitvecModel.bv_left_shift          fuel >= n, len = 32 n
     srtp_rdb_add_index         = Rdb.rdb_add                        fuel >= 4
     srtp_index_advance         = u64 (pi + s)
     srtp_rdbx_add_index        = Rdbx.rdbx_add                      fuel >= n > 0, len = 32 n, delta <= 0 -> 0 <= len-1+delta
     srtp_rdbx_set_roc_seq      = Rdbx.set_roc_seq                   len = 32 n
     srtp_rdbx_get_roc          = Rdbx.rdbx_roc
     srtp_rdbx_get_packet_index = index
   `fuel` is the explicit iteration bound of the generated loops (KernelGen.iter): with fuel >= the number of
   words every loop terminates (result Some _); nothing is claimed for smaller fuel. *)
From Coq Require Import ZArith NArith List Bool Lia.
From Srtp Require Import Util Constants Rdb Rdbx BitvecModel BitvecProofs KernelGen KernelGenProofs.
Import ListNotations.
Local Open Scope Z_scope.

Ltac Zify.zify_post_hook ::= Z.div_mod_to_equations.

(* ------------------------------------------------------------------ *)
(* wrap helpers                                                         *)

Lemma u64_small x : 0 <= x < 18446744073709551616 -> KernelGen.u64 x = x.
Proof. intros. unfold KernelGen.u64. apply Z.mod_small. assumption. Qed.
Lemma u32_small x : 0 <= x < 4294967296 -> KernelGen.u32 x = x.
Proof. intros. unfold KernelGen.u32. apply Z.mod_small. assumption. Qed.
Lemma u16_small x : 0 <= x < 65536 -> KernelGen.u16 x = x.
Proof. intros. unfold KernelGen.u16. apply Z.mod_small. assumption. Qed.
Lemma s64_small x : -9223372036854775808 <= x < 9223372036854775808 -> KernelGen.s64 x = x.
Proof. intros. unfold KernelGen.s64. lia. Qed.
Lemma s32_small x : -2147483648 <= x < 2147483648 -> KernelGen.s32 x = x.
Proof. intros. unfold KernelGen.s32. lia. Qed.

(* ------------------------------------------------------------------ *)
(* 1. rdbx.c: srtp_rdbx_estimate_index  (calls srtp_index_guess)        *)

Theorem srtp_rdbx_estimate_index_gen_eq r s g0 :
  0 <= index r < 18446744073709551616 -> 0 <= s < 65536 ->
  srtp_rdbx_estimate_index_gen s (index r) g0 = (snd (estimate r s), (index r, fst (estimate r s))).
Proof.
  intros HI HS. unfold srtp_rdbx_estimate_index_gen, estimate.
  change seq_num_median_c with 32768.
  change (KernelGen.u64 (KernelGen.s32 (Z.shiftl 1 (KernelGen.u64 (KernelGen.u64 (KernelGen.u64 8 * 2) - KernelGen.u64 1)))))
    with 32768.
  rewrite Z.gtb_ltb. destruct (32768 <? index r) eqn:E; cbn [negb Z.eqb].
  - rewrite (index_guess_gen_eq (index r) s g0 HI HS). reflexivity.
  - rewrite gen_s64, (u64_small s) by lia. cbn [fst snd]. f_equal.
    unfold Util.s64, Util.u64, KernelGen.u64. rewrite Z.mod_mod by lia. reflexivity.
Qed.
Print Assumptions srtp_rdbx_estimate_index_gen_eq.

(* ------------------------------------------------------------------ *)
(* arrays of 32-bit words as functions, and their abstraction           *)

Definition inrange (a : Z -> Z) (n : nat) : Prop := forall k, 0 <= k < Z.of_nat n -> 0 <= a k < 4294967296.
Definition words (a : Z -> Z) (n : nat) : list N := map (fun i => Z.to_N (a (Z.of_nat i))) (seq 0 n).
Definition absN (a : Z -> Z) (n : nat) : N := pack (words a n).
(* nothing outside the n words changes *)
Definition frame (a a' : Z -> Z) (n : nat) : Prop := forall k, ~ 0 <= k < Z.of_nat n -> a' k = a k.

Lemma words_length a n : length (words a n) = n.
Proof. unfold words. rewrite map_length, seq_length. reflexivity. Qed.

Lemma nth_words a n k : (k < n)%nat -> nth k (words a n) 0%N = Z.to_N (a (Z.of_nat k)).
Proof. intros H. unfold words. rewrite nth_map_seq by assumption. reflexivity. Qed.

Lemma word_words a n k : word (words a n) k = if (k <? n)%nat then Z.to_N (a (Z.of_nat k)) else 0%N.
Proof.
  destruct (Nat.ltb_spec k n).
  - apply nth_words. assumption.
  - apply word_out. rewrite words_length. assumption.
Qed.

Lemma words32_words a n : inrange a n -> Forall (fun w => (w < 2 ^ 32)%N) (words a n).
Proof.
  intros H. apply Forall_nth. intros i d Hi. rewrite words_length in Hi.
  rewrite (nth_indep _ d 0%N) by (rewrite words_length; assumption).
  rewrite nth_words by assumption. specialize (H (Z.of_nat i)).
  change (2 ^ 32)%N with 4294967296%N. lia.
Qed.

Lemma words_ext a b n : (forall k, 0 <= k < Z.of_nat n -> a k = b k) -> words a n = words b n.
Proof.
  intros H. unfold words. apply map_ext_in. intros i Hi. apply in_seq in Hi. rewrite H by lia. reflexivity.
Qed.

(* a list of n in-range words IS words a n for the function reading it *)
Lemma words_eq_list a n l :
  length l = n -> (forall k, (k < n)%nat -> Z.to_N (a (Z.of_nat k)) = nth k l 0%N) -> words a n = l.
Proof.
  intros HL H. apply (nth_ext _ _ 0%N 0%N).
  - rewrite words_length. symmetry. assumption.
  - intros k Hk. rewrite words_length in Hk. rewrite nth_words by assumption. apply H. assumption.
Qed.

(* ---- N <-> Z for the bit operations ---- *)
Lemma of_N_shiftr a k : Z.of_N (N.shiftr a k) = Z.shiftr (Z.of_N a) (Z.of_N k).
Proof.
  apply Z.bits_inj'. intros i Hi. rewrite Z.shiftr_spec by lia.
  rewrite !Z.testbit_of_N' by lia. rewrite N.shiftr_spec'. f_equal. lia.
Qed.
Lemma of_N_shiftl a k : Z.of_N (N.shiftl a k) = Z.shiftl (Z.of_N a) (Z.of_N k).
Proof.
  rewrite N.shiftl_mul_pow2, Z.shiftl_mul_pow2 by lia. rewrite N2Z.inj_mul, N2Z.inj_pow. reflexivity.
Qed.
Lemma of_N_lxor a b : Z.of_N (N.lxor a b) = Z.lxor (Z.of_N a) (Z.of_N b).
Proof.
  apply Z.bits_inj'. intros i Hi. rewrite Z.lxor_spec, !Z.testbit_of_N' by lia. apply N.lxor_spec.
Qed.
Lemma of_N_lor a b : Z.of_N (N.lor a b) = Z.lor (Z.of_N a) (Z.of_N b).
Proof.
  apply Z.bits_inj'. intros i Hi. rewrite Z.lor_spec, !Z.testbit_of_N' by lia. apply N.lor_spec.
Qed.
Lemma u32_of_N a : (a < 2 ^ 32)%N -> KernelGen.u32 (Z.of_N a) = Z.of_N a.
Proof. intros H. apply u32_small. change (2 ^ 32)%N with 4294967296%N in H. lia. Qed.

(* ---- the get_bit macro:  (word[b >> 5] >> (b & 31)) & 1 ---- *)
Lemma land1_shiftr w k : 0 <= k -> Z.land (Z.shiftr w k) 1 = Z.b2z (Z.testbit w k).
Proof.
  intros Hk. change 1 with (Z.ones 1) at 1. rewrite Z.land_ones by lia. change (2 ^ 1) with 2.
  rewrite <- Z.bit0_mod, Z.shiftr_spec by lia. reflexivity.
Qed.

Lemma get_bit_abs a n b :
  inrange a n -> 0 <= b < 32 * Z.of_nat n ->
  Z.land (Z.shiftr (a (b / 32)) (b mod 32)) 1 = Z.b2z (N.testbit (absN a n) (Z.to_N b)).
Proof.
  intros Ha Hb. rewrite land1_shiftr by lia. f_equal.
  unfold absN. rewrite (pack_testbit _ _ (words32_words a n Ha)).
  assert (Hq : N.to_nat (Z.to_N b / 32) = Z.to_nat (b / 32)) by lia.
  rewrite Hq, nth_words by lia. rewrite Z2Nat.id by lia.
  assert (Hm : (Z.to_N b mod 32)%N = Z.to_N (b mod 32)) by lia.
  rewrite Hm. specialize (Ha (b / 32)).
  rewrite <- (Z2N.id (a (b / 32))) at 1 by lia. rewrite Z.testbit_of_N' by lia. reflexivity.
Qed.

(* ------------------------------------------------------------------ *)
(* 2. rdb.c: srtp_rdb_check  (v128_get_bit: array read ->v32[i])        *)

Theorem srtp_rdb_check_gen_eq r i v :
  0 <= wstart r < 4294967296 -> 0 <= i < 4294967296 -> inrange v 4 -> bitmask r = absN v 4 ->
  srtp_rdb_check_gen i (wstart r) v = (rdb_check r i, (wstart r, v)).
Proof.
  intros HW HI HV HA. unfold srtp_rdb_check_gen, rdb_check. change rdb_bits_in_bitmask_c with 128.
  change (KernelGen.u64 (KernelGen.u64 8 * 16)) with 128. change (KernelGen.u32 31) with (Z.ones 5).
  change (KernelGen.u32 1) with 1.
  rewrite (u64_small i), (u64_small (wstart r)) by lia. rewrite (u64_small (wstart r + 128)) by lia.
  rewrite Z.geb_leb. destruct (wstart r + 128 <=? i) eqn:E1; cbn [negb Z.eqb]; [reflexivity|].
  destruct (i <? wstart r) eqn:E2; cbn [negb Z.eqb]; [reflexivity|].
  apply Z.leb_gt in E1. apply Z.ltb_ge in E2.
  rewrite (u32_small (i - wstart r)) by lia. set (b := i - wstart r).
  rewrite (Z.shiftr_div_pow2 b 5), (Z.land_ones b 5) by lia. change (2 ^ 5) with 32.
  rewrite (u32_small (b / 32)), (u32_small (b mod 32)) by lia.
  rewrite (u32_small (Z.shiftr _ _)).
  2:{ specialize (HV (b / 32)). rewrite Z.shiftr_div_pow2 by lia.
      assert (0 < 2 ^ (b mod 32)) by (apply Z.pow_pos_nonneg; lia). nia. }
  rewrite (get_bit_abs v 4 b HV) by lia. rewrite <- HA.
  destruct (N.testbit (bitmask r) (Z.to_N b)); reflexivity.
Qed.
Print Assumptions srtp_rdb_check_gen_eq.

(* ------------------------------------------------------------------ *)
(* 3. rdbx.c: srtp_rdbx_check  (bitvector_get_bit: ->word[i] through a pointer member) *)

Lemma gen_s32_u64 x : KernelGen.s32 (KernelGen.u64 x) = Util.s32 x.
Proof.
  unfold KernelGen.s32, KernelGen.u64, Util.s32, Util.u32.
  destruct (x mod 4294967296 <? 2147483648) eqn:E; [apply Z.ltb_lt in E|apply Z.ltb_ge in E]; lia.
Qed.

(* Hypothesis HOV: the C expression  (int)(length - 1) + delta  (computed in `long`) does not overflow.  For the
   lengths bitvector_alloc produces in libsrtp (0 < length <= 2^31) it never does (corollary below); where it
   does, the C behaviour is undefined and the wrapping reading of the translator differs from the model
   (srtp_rdbx_check_gen_overflow_refuted). *)
Theorem srtp_rdbx_check_gen_eq r delta n w :
  wlen r = 32 * Z.of_nat n -> wlen r < 18446744073709551616 ->
  -9223372036854775808 <= delta < 9223372036854775808 ->
  (delta <= 0 -> -9223372036854775808 <= Util.s32 (wlen r - 1) + delta) ->
  inrange w n -> mask r = absN w n ->
  srtp_rdbx_check_gen delta (wlen r) w = (rdbx_check r delta, (wlen r, w)).
Proof.
  intros HL HLT HD HOV HW HA. unfold srtp_rdbx_check_gen, rdbx_check.
  set (L := wlen r) in *.
  change (KernelGen.s64 0) with 0. change (KernelGen.u32 1) with 1. change (KernelGen.u64 31) with (Z.ones 5).
  rewrite Z.gtb_ltb. destruct (0 <? delta) eqn:E0; cbn [negb Z.eqb]; [reflexivity|].
  apply Z.ltb_ge in E0. specialize (HOV E0).
  change (KernelGen.u64 1) with 1. rewrite gen_s32_u64.
  assert (Hm : -2147483648 <= Util.s32 (L - 1) < 2147483648).
  { unfold Util.s32, Util.u32. destruct (_ <? _) eqn:E; [apply Z.ltb_lt in E|apply Z.ltb_ge in E]; lia. }
  assert (Hm2 : 1 <= L -> Util.s32 (L - 1) <= L - 1).
  { intros. unfold Util.s32, Util.u32. destruct (_ <? _) eqn:E; [apply Z.ltb_lt in E|apply Z.ltb_ge in E]; lia. }
  assert (Hm0 : L = 0 -> Util.s32 (L - 1) = -1) by (intros ->; reflexivity).
  set (m := Util.s32 (L - 1)) in *.
  rewrite (s64_small m) by lia. rewrite (s64_small (m + delta)) by lia.
  destruct (m + delta <? 0) eqn:E1; cbn [negb Z.eqb]; [reflexivity|].
  apply Z.ltb_ge in E1.
  assert (HL1 : 1 <= L) by lia.
  assert (Hb : KernelGen.u64 (KernelGen.u64 (L - 1) + KernelGen.u64 delta) = L - 1 + delta).
  { unfold KernelGen.u64. lia. }
  rewrite Hb. set (b := L - 1 + delta) in *.
  assert (Hb0 : 0 <= b < 32 * Z.of_nat n) by lia.
  rewrite (Z.shiftr_div_pow2 b 5), (Z.land_ones b 5) by lia. change (2 ^ 5) with 32.
  rewrite (u64_small (b / 32)), (u64_small (b mod 32)) by lia.
  rewrite (u32_small (Z.shiftr _ _)).
  2:{ specialize (HW (b / 32)). rewrite Z.shiftr_div_pow2 by lia.
      assert (0 < 2 ^ (b mod 32)) by (apply Z.pow_pos_nonneg; lia). nia. }
  rewrite (get_bit_abs w n b HW Hb0). rewrite <- HA.
  destruct (N.testbit (mask r) (Z.to_N b)); reflexivity.
Qed.
Print Assumptions srtp_rdbx_check_gen_eq.

Corollary srtp_rdbx_check_gen_eq_31 r delta n w :
  wlen r = 32 * Z.of_nat n -> 0 < wlen r <= 2147483648 ->
  -9223372036854775808 <= delta < 9223372036854775808 ->
  inrange w n -> mask r = absN w n ->
  srtp_rdbx_check_gen delta (wlen r) w = (rdbx_check r delta, (wlen r, w)).
Proof.
  intros HL HR HD HW HA. apply (srtp_rdbx_check_gen_eq r delta n w); try assumption; try lia.
  intros _. unfold Util.s32, Util.u32.
  destruct (_ <? _) eqn:E; [apply Z.ltb_lt in E|apply Z.ltb_ge in E]; lia.
Qed.

(* where (int)(length-1) + delta overflows `long` (undefined in C; needs a window of more than 2^31 bits), the
   wrapping translation and the unbounded model part ways *)
Example srtp_rdbx_check_gen_overflow_refuted :
  let r := {| index := 0; wlen := 2147483680; mask := 0%N |} in
  let delta := -9223372036854775808 in
  srtp_rdbx_check_gen delta (wlen r) (fun _ => 0) = (st_ok, (wlen r, fun _ => 0)) /\
  rdbx_check r delta = st_replay_old.
Proof. vm_compute. split; reflexivity. Qed.

(* ------------------------------------------------------------------ *)
(* loops: the combinator `iter` of the generated header                 *)

Lemma iter_spec {S : Type} (cond : S -> bool) (body : S -> S) (P : nat -> S -> Prop) :
  (forall k s, P (Datatypes.S k) s -> cond s = true /\ P k (body s)) ->
  (forall s, P O s -> cond s = false) ->
  forall k fuel s, (k <= fuel)%nat -> P k s -> exists s', iter fuel cond body s = Some s' /\ P O s'.
Proof.
  intros Hstep Hend. induction k as [|k IH]; intros fuel s Hf HP.
  - exists s. split; [|assumption]. destruct fuel; cbn [iter]; rewrite (Hend s HP); reflexivity.
  - destruct fuel as [|fuel]; [lia|]. destruct (Hstep k s HP) as [Hc HP']. cbn [iter]. rewrite Hc.
    apply IH; [lia|assumption].
Qed.

(* a[j] holds G j on [lo, i) and is unchanged elsewhere *)
Definition filled (G : Z -> Z) (lo i : Z) (a0 a : Z -> Z) : Prop :=
  forall j, a j = if (lo <=? j) && (j <? i) then G j else a0 j.

(* for (i = lo; i < hi; i++) a[i] = G i;   state (a, i) *)
Lemma fill_loop (cond : (Z -> Z) * Z -> bool) (body : (Z -> Z) * Z -> (Z -> Z) * Z) (G : Z -> Z) lo hi fuel a0 :
  lo <= hi -> (Z.to_nat (hi - lo) <= fuel)%nat ->
  (forall a i, lo <= i < hi -> filled G lo i a0 a ->
     cond (a, i) = true /\ exists a', body (a, i) = (a', i + 1) /\ forall j, a' j = if j =? i then G i else a j) ->
  (forall a, cond (a, hi) = false) ->
  exists a', iter fuel cond body (a0, lo) = Some (a', hi) /\ filled G lo hi a0 a'.
Proof.
  intros Hlh Hfuel Hstep Hend.
  destruct (iter_spec cond body
              (fun k s => Z.of_nat k <= hi - lo /\ snd s = hi - Z.of_nat k /\ filled G lo (snd s) a0 (fst s))
              ) with (k := Z.to_nat (hi - lo)) (fuel := fuel) (s := (a0, lo)) as (s' & E & HP).
  - intros k [a i] (Hk & Hi & HF). cbn [fst snd] in *.
    destruct (Hstep a i ltac:(lia) HF) as (Hc & a' & Hb & Ha'). split; [assumption|].
    rewrite Hb. cbn [fst snd]. split; [lia|]. split; [lia|].
    intros j. rewrite Ha'. destruct (Z.eqb_spec j i) as [->|Hne].
    + replace ((lo <=? i) && (i <? i + 1)) with true by lia. reflexivity.
    + rewrite (HF j). replace ((lo <=? j) && (j <? i + 1)) with ((lo <=? j) && (j <? i)) by lia. reflexivity.
  - intros [a i] (Hk & Hi & HF). cbn [fst snd] in *. replace i with hi by lia. apply Hend.
  - assumption.
  - cbn [fst snd]. split; [lia|]. split; [lia|]. intros j.
    replace ((lo <=? j) && (j <? lo)) with false by lia. reflexivity.
  - destruct s' as [a' i']. destruct HP as (_ & Hi & HF). cbn [fst snd] in *.
    exists a'. replace i' with hi in * by lia. split; assumption.
Qed.

Lemma word_rd x n : inrange x n -> forall k, 0 <= k < Z.of_nat n -> Z.of_N (word (words x n) (Z.to_nat k)) = x k.
Proof.
  intros Hx k Hk. rewrite word_words. replace (Z.to_nat k <? n)%nat with true by (symmetry; apply Nat.ltb_lt; lia).
  rewrite Z2Nat.id by lia. specialize (Hx k). lia.
Qed.

(* ---- the words written by the shift loops, uniformly: word j of the result is G j ---- *)
Section ShiftWords.
  Variables (x : Z -> Z) (n : nat) (shift : Z).
  Hypothesis Hx : inrange x n.
  Hypothesis Hs : 0 <= shift.
  Let base := shift / 32.
  Let bit := shift mod 32.
  Definition shiftG (j : Z) : Z := Z.of_N (spec_word (words x n) (Z.to_N shift) (Z.to_nat j)).

  Lemma shiftG_range j : 0 <= shiftG j < 4294967296.
  Proof.
    unfold shiftG. pose proof (spec_word_lt (words x n) (Z.to_N shift) (Z.to_nat j) (words32_words x n Hx)) as H.
    change (2 ^ 32)%N with 4294967296%N in H. lia.
  Qed.

  Lemma to_N_base : N.to_nat (Z.to_N shift / 32) = Z.to_nat base.
  Proof. subst base. lia. Qed.
  Lemma to_N_bit : (Z.to_N shift mod 32)%N = Z.to_N bit.
  Proof. subst bit. lia. Qed.

  (* bit_index == 0:  x[j] = x[j + base] *)
  Lemma shiftG_copy j : bit = 0 -> 0 <= j -> j + base < Z.of_nat n -> x (j + base) = shiftG j.
  Proof.
    intros Hb Hj Hjb. unfold shiftG, spec_word. cbv zeta. rewrite to_N_bit, to_N_base, Hb. cbn [Z.to_N N.eqb].
    rewrite <- Z2Nat.inj_add by (subst base; lia). rewrite (word_rd x n Hx) by (subst base; lia). reflexivity.
  Qed.

  (* x[j] = (x[j + base] >> bit) ^ (x[j + base + 1] << (32 - bit)) *)
  Lemma shiftG_mix j : bit <> 0 -> 0 <= j -> j + base + 1 < Z.of_nat n ->
    KernelGen.u32 (Z.lxor (KernelGen.u32 (Z.shiftr (x (j + base)) bit))
                          (KernelGen.u32 (Z.shiftl (x (j + base + 1)) (32 - bit)))) = shiftG j.
  Proof.
    intros Hb Hj Hjb. assert (Hbit : 0 < bit < 32) by (subst bit; lia). assert (Hbase : 0 <= base) by (subst base; lia).
    unfold shiftG, spec_word. cbv zeta. rewrite to_N_bit, to_N_base.
    replace (Z.to_N bit =? 0)%N with false by (symmetry; apply N.eqb_neq; lia).
    pose proof (words32_words x n Hx) as Hw32.
    set (w1 := word (words x n) (Z.to_nat j + Z.to_nat base)).
    set (w2 := word (words x n) (Z.to_nat j + Z.to_nat base + 1)).
    assert (H1 : Z.of_N w1 = x (j + base)).
    { subst w1. rewrite <- Z2Nat.inj_add by lia. apply (word_rd x n Hx). lia. }
    assert (H2 : Z.of_N w2 = x (j + base + 1)).
    { subst w2. change 1%nat with (Z.to_nat 1). rewrite <- !Z2Nat.inj_add by lia. apply (word_rd x n Hx). lia. }
    rewrite <- H1, <- H2.
    assert (Hw1 : (w1 < 2 ^ 32)%N) by (apply word_lt; assumption).
    replace bit with (Z.of_N (Z.to_N bit)) at 1 by lia. rewrite <- of_N_shiftr.
    rewrite (u32_of_N (N.shiftr w1 (Z.to_N bit))) by (apply shiftr_lt_pow2; assumption).
    replace (32 - bit) with (Z.of_N (32 - Z.to_N bit)) by lia. rewrite <- of_N_shiftl.
    unfold KernelGen.u32 at 2. change 4294967296 with (Z.of_N (2 ^ 32)). rewrite <- N2Z.inj_mod.
    fold (trunc32 (N.shiftl w2 (32 - Z.to_N bit))). rewrite <- of_N_lxor.
    apply u32_of_N. apply lxor_lt_pow2; [apply shiftr_lt_pow2; assumption|].
    unfold trunc32. apply N.mod_lt. apply pow2_nz.
  Qed.

  (* x[n - base - 1] = x[n - 1] >> bit *)
  Lemma shiftG_last j : bit <> 0 -> 0 <= j -> j + base + 1 = Z.of_nat n ->
    KernelGen.u32 (Z.shiftr (x (Z.of_nat n - 1)) bit) = shiftG j.
  Proof.
    intros Hb Hj Hjb. assert (Hbit : 0 < bit < 32) by (subst bit; lia). assert (Hbase : 0 <= base) by (subst base; lia).
    unfold shiftG, spec_word. cbv zeta. rewrite to_N_bit, to_N_base.
    replace (Z.to_N bit =? 0)%N with false by (symmetry; apply N.eqb_neq; lia).
    pose proof (words32_words x n Hx) as Hw32.
    rewrite (word_out (words x n) (Z.to_nat j + Z.to_nat base + 1)) by (rewrite words_length; lia).
    unfold trunc32. rewrite N.shiftl_0_l, N.mod_0_l, N.lxor_0_r by apply pow2_nz.
    set (w1 := word (words x n) (Z.to_nat j + Z.to_nat base)).
    assert (H1 : Z.of_N w1 = x (Z.of_nat n - 1)).
    { subst w1. rewrite <- Z2Nat.inj_add by lia. rewrite (word_rd x n Hx) by lia. f_equal. lia. }
    rewrite <- H1. replace bit with (Z.of_N (Z.to_N bit)) at 1 by lia. rewrite <- of_N_shiftr.
    apply u32_of_N. apply shiftr_lt_pow2. apply word_lt. assumption.
  Qed.

  (* x[j] = 0 for j >= n - base *)
  Lemma shiftG_zero j : 0 <= j -> Z.of_nat n <= j + base -> shiftG j = 0.
  Proof.
    intros Hj Hjb. unfold shiftG. rewrite spec_word_out; [reflexivity|].
    rewrite words_length, to_N_base. subst base. lia.
  Qed.

  (* an array that holds G on [0, n) is the model's shifted vector *)
  Lemma shiftG_words x' :
    (forall j, 0 <= j < Z.of_nat n -> x' j = shiftG j) ->
    words x' n = bv_left_shift (words x n) (Z.to_N shift) /\ inrange x' n.
  Proof.
    intros H. split.
    - apply words_eq_list.
      + rewrite bv_left_shift_length. apply words_length.
      + intros k Hk. rewrite nth_bv_left_shift, H by lia. unfold shiftG. rewrite N2Z.id, Nat2Z.id. reflexivity.
    - intros k Hk. rewrite H by assumption. apply shiftG_range.
  Qed.
End ShiftWords.

(* ------------------------------------------------------------------ *)
(* 4a. datatypes.c: v128_left_shift  (three for-loops over the four words) *)

(* one loop of the generated code, by fill_loop: the goal mentions  iter fuel c b (a0, lo) *)
Ltac run_loop G lo hi a0 a1 E F :=
  match goal with
  | |- context [iter ?fuel ?c ?b (a0, lo)] =>
      destruct (fill_loop c b G lo hi fuel a0) as (a1 & E & F);
      [ try lia | try lia | | | rewrite E; cbn beta iota ]
  end.

Theorem v128_left_shift_gen_eq fuel shift x :
  (4 <= fuel)%nat -> 0 <= shift < 18446744073709551616 -> inrange x 4 ->
  exists x', v128_left_shift_gen fuel shift x = Some x' /\
             words x' 4 = BitvecModel.v128_left_shift (words x 4) (Z.to_N shift) /\
             inrange x' 4 /\ frame x x' 4.
Proof.
  intros Hfuel Hs Hx. unfold v128_left_shift_gen.
  change (KernelGen.u64 127) with 127. change (KernelGen.u64 31) with (Z.ones 5). change (KernelGen.u64 0) with 0.
  change (KernelGen.u64 4) with 4. change (KernelGen.u64 1) with 1. change (KernelGen.u64 32) with 32.
  change (KernelGen.u32 0) with 0. change (KernelGen.s32 (4 - 1)) with 3.
  rewrite (Z.shiftr_div_pow2 shift 5), (Z.land_ones shift 5) by lia. change (2 ^ 5) with 32.
  rewrite (u64_small (shift / 32)), (u64_small (shift mod 32)) by lia.
  cbv zeta.
  rewrite Z.gtb_ltb. destruct (127 <? shift) eqn:E0; cbn [negb Z.eqb].
  - (* shift > 127: v128_set_to_zero *)
    apply Z.ltb_lt in E0. eexists. split; [reflexivity|]. split; [|split].
    + unfold BitvecModel.v128_left_shift. replace (127 <? Z.to_N shift)%N with true by lia. reflexivity.
    + intros k Hk. unfold upd. repeat match goal with |- context [k =? ?c] => destruct (k =? c); [lia|] end.
      apply Hx. assumption.
    + intros k Hk. unfold upd.
      repeat match goal with |- context [k =? ?c] => destruct (Z.eqb_spec k c); [lia|] end. reflexivity.
  - apply Z.ltb_ge in E0.
    set (base := shift / 32) in *. set (bit := shift mod 32) in *.
    assert (Hbase : 0 <= base <= 3) by (subst base; lia). assert (Hbit : 0 <= bit < 32) by (subst bit; lia).
    rewrite !(u64_small (4 - base)) by lia. rewrite ?(u64_small (4 - base - 1)) by lia.
    set (G := shiftG x 4 shift).
    (* the zero-fill loop and the conclusion, common to both branches *)
    assert (Fin : forall a1, filled G 0 (4 - base) x a1 ->
      exists x', match iter fuel (fun '(_, i0) => negb ((if i0 <? 4 then 1 else 0) =? 0))
                            (fun '(x_v0, i0) => (upd x_v0 i0 0, KernelGen.u64 (i0 + 1))) (a1, 4 - base)
                 with Some (x_v0, _) => Some x_v0 | None => None end = Some x' /\
                 words x' 4 = BitvecModel.v128_left_shift (words x 4) (Z.to_N shift) /\
                 inrange x' 4 /\ frame x x' 4).
    { intros a1 F1. run_loop G (4 - base) 4 a1 a3 E3 F3.
      - intros a i Hi HF. cbn beta iota. split; [replace (i <? 4) with true by lia; reflexivity|].
        eexists. split; [rewrite (u64_small (i + 1)) by lia; reflexivity|].
        intros j. unfold upd. destruct (j =? i); [|reflexivity].
        symmetry. apply shiftG_zero; fold base; lia.
      - intros a. cbn beta iota. rewrite Z.ltb_irrefl. reflexivity.
      - exists a3. split; [reflexivity|].
        assert (HG : forall j, 0 <= j < Z.of_nat 4 -> a3 j = G j).
        { intros j Hj. rewrite (F3 j), (F1 j).
          destruct ((4 - base <=? j) && (j <? 4)) eqn:C1; [reflexivity|].
          replace ((0 <=? j) && (j <? 4 - base)) with true by lia. reflexivity. }
        destruct (shiftG_words x 4 shift Hx a3 HG) as [HW HR].
        split; [rewrite v128_left_shift_eq by apply words_length; exact HW|]. split; [exact HR|].
        intros j Hj. rewrite (F3 j), (F1 j).
        replace ((4 - base <=? j) && (j <? 4)) with false by lia.
        replace ((0 <=? j) && (j <? 4 - base)) with false by lia. reflexivity. }
    destruct (bit =? 0) eqn:EB; cbn [negb Z.eqb].
    + (* bit_index == 0: word copy *)
      apply Z.eqb_eq in EB.
      run_loop G 0 (4 - base) x a1 E1 F1.
      * intros a i Hi HF. cbn beta iota. split; [replace (i <? 4 - base) with true by lia; reflexivity|].
        eexists. split; [rewrite (u64_small (i + 1)) by lia; reflexivity|].
        intros j. unfold upd. destruct (j =? i); [|reflexivity].
        rewrite (u64_small (i + base)) by lia. rewrite (HF (i + base)).
        replace ((0 <=? i + base) && (i + base <? i)) with false by lia.
        apply shiftG_copy; fold base; fold bit; try assumption; lia.
      * intros a. cbn beta iota. rewrite Z.ltb_irrefl. reflexivity.
      * apply Fin. exact F1.
    + (* bit_index != 0: two words combined, then the last word *)
      apply Z.eqb_neq in EB.
      run_loop G 0 (4 - base - 1) x a1 E1 F1.
      * intros a i Hi HF. cbn beta iota. split; [replace (i <? 4 - base - 1) with true by lia; reflexivity|].
        eexists. split; [rewrite (u64_small (i + 1)) by lia; reflexivity|].
        intros j. unfold upd. destruct (j =? i); [|reflexivity].
        rewrite (u64_small (i + base)) by lia. rewrite (u64_small (i + base + 1)), (u64_small (32 - bit)) by lia.
        rewrite (HF (i + base)), (HF (i + base + 1)).
        replace ((0 <=? i + base) && (i + base <? i)) with false by lia.
        replace ((0 <=? i + base + 1) && (i + base + 1 <? i)) with false by lia.
        apply shiftG_mix; fold base; fold bit; try assumption; lia.
      * intros a. cbn beta iota. rewrite Z.ltb_irrefl. reflexivity.
      * apply Fin. intros j. unfold upd. rewrite (F1 j), (F1 3).
        replace ((0 <=? 3) && (3 <? 4 - base - 1)) with false by lia.
        destruct (Z.eqb_spec j (4 - base - 1)) as [->|Hne].
        -- replace ((0 <=? 4 - base - 1) && (4 - base - 1 <? 4 - base)) with true by lia.
           apply (shiftG_last x 4 shift Hx); fold base; fold bit; try assumption; lia.
        -- replace ((0 <=? j) && (j <? 4 - base)) with ((0 <=? j) && (j <? 4 - base - 1)) by lia. reflexivity.
Qed.
Print Assumptions v128_left_shift_gen_eq.

(* ------------------------------------------------------------------ *)
(* 4b. datatypes.c: bitvector_set_to_zero (memset), bitvector_left_shift *)

Lemma memset0_words a n j :
  memset_u32 a 0 (4 * Z.of_nat n) j = if (0 <=? j) && (j <? Z.of_nat n) then 0 else a j.
Proof.
  unfold memset_u32. cbv zeta. change (0 mod 256) with 0. change (0 + 256 * 0 + 65536 * 0 + 16777216 * 0) with 0.
  replace (4 * Z.of_nat n / 4) with (Z.of_nat n) by lia. replace (4 * Z.of_nat n mod 4) with 0 by lia.
  change (2 ^ (8 * 0)) with 1. destruct ((0 <=? j) && (j <? Z.of_nat n)); [reflexivity|].
  destruct (j =? Z.of_nat n); [|reflexivity]. rewrite Z.mod_1_r, Z.div_1_r. lia.
Qed.

Theorem bitvector_set_to_zero_gen_eq w len n :
  len = 32 * Z.of_nat n -> len < 18446744073709551616 ->
  exists w', bitvector_set_to_zero_gen w len = (w', len) /\
             words w' n = repeat 0%N n /\ inrange w' n /\ frame w w' n.
Proof.
  intros HL HLT. unfold bitvector_set_to_zero_gen. eexists. split; [reflexivity|].
  rewrite (Z.shiftr_div_pow2 len 3) by lia. change (2 ^ 3) with 8. rewrite (u64_small (len / 8)) by lia.
  replace (len / 8) with (4 * Z.of_nat n) by lia.
  split; [|split].
  - apply words_eq_list; [apply repeat_length|]. intros k Hk. rewrite memset0_words, nth_repeat0.
    replace ((0 <=? Z.of_nat k) && (Z.of_nat k <? Z.of_nat n)) with true by lia. reflexivity.
  - intros k Hk. rewrite memset0_words. replace ((0 <=? k) && (k <? Z.of_nat n)) with true by lia. lia.
  - intros k Hk. rewrite memset0_words. replace ((0 <=? k) && (k <? Z.of_nat n)) with false by lia. reflexivity.
Qed.

Theorem bitvector_left_shift_gen_eq fuel shift len n x :
  (n <= fuel)%nat -> len = 32 * Z.of_nat n -> len < 18446744073709551616 ->
  0 <= shift < 18446744073709551616 -> inrange x n ->
  exists x', bitvector_left_shift_gen fuel shift len x = Some (len, x') /\
             words x' n = bv_left_shift (words x n) (Z.to_N shift) /\
             inrange x' n /\ frame x x' n.
Proof.
  intros Hfuel HL HLT Hs Hx. unfold bitvector_left_shift_gen.
  change (KernelGen.u64 31) with (Z.ones 5). change (KernelGen.u64 0) with 0.
  change (KernelGen.u64 1) with 1. change (KernelGen.u64 32) with 32. change (KernelGen.u32 0) with 0.
  rewrite (Z.shiftr_div_pow2 shift 5), (Z.land_ones shift 5), (Z.shiftr_div_pow2 len 5) by lia. change (2 ^ 5) with 32.
  rewrite (u64_small (shift / 32)), (u64_small (shift mod 32)), (u64_small (len / 32)) by lia.
  replace (len / 32) with (Z.of_nat n) by lia.
  cbv zeta.
  rewrite Z.geb_leb. destruct (len <=? shift) eqn:E0; cbn [negb Z.eqb].
  - (* shift >= length: bitvector_set_to_zero *)
    apply Z.leb_le in E0.
    destruct (bitvector_set_to_zero_gen_eq x len n HL HLT) as (w' & E & HW & HR & HF). rewrite E.
    exists w'. split; [reflexivity|]. split; [|split; assumption].
    rewrite HW. unfold bv_left_shift. rewrite words_length.
    replace (32 * N.of_nat n <=? Z.to_N shift)%N with true by lia. reflexivity.
  - apply Z.leb_gt in E0.
    set (base := shift / 32) in *. set (bit := shift mod 32) in *.
    assert (Hbase : 0 <= base < Z.of_nat n) by (subst base; lia). assert (Hbit : 0 <= bit < 32) by (subst bit; lia).
    rewrite !(u64_small (Z.of_nat n - base)) by lia. rewrite ?(u64_small (Z.of_nat n - base - 1)) by lia.
    rewrite ?(u64_small (Z.of_nat n - 1)) by lia.
    set (G := shiftG x n shift).
    (* the zero-fill loop and the conclusion, common to both branches *)
    assert (Fin : forall a1, filled G 0 (Z.of_nat n - base) x a1 ->
      exists x', match iter fuel (fun '(_, i0) => negb ((if i0 <? Z.of_nat n then 1 else 0) =? 0))
                            (fun '(x_word0, i0) => (upd x_word0 i0 0, KernelGen.u64 (i0 + 1))) (a1, Z.of_nat n - base)
                 with Some (x_word0, _) => Some (len, x_word0) | None => None end = Some (len, x') /\
                 words x' n = bv_left_shift (words x n) (Z.to_N shift) /\
                 inrange x' n /\ frame x x' n).
    { intros a1 F1. run_loop G (Z.of_nat n - base) (Z.of_nat n) a1 a3 E3 F3.
      - intros a i Hi HF. cbn beta iota. split; [replace (i <? Z.of_nat n) with true by lia; reflexivity|].
        eexists. split; [rewrite (u64_small (i + 1)) by lia; reflexivity|].
        intros j. unfold upd. destruct (j =? i); [|reflexivity].
        symmetry. apply shiftG_zero; fold base; lia.
      - intros a. cbn beta iota. rewrite Z.ltb_irrefl. reflexivity.
      - exists a3. split; [reflexivity|].
        assert (HG : forall j, 0 <= j < Z.of_nat n -> a3 j = G j).
        { intros j Hj. rewrite (F3 j), (F1 j).
          destruct ((Z.of_nat n - base <=? j) && (j <? Z.of_nat n)) eqn:C1; [reflexivity|].
          replace ((0 <=? j) && (j <? Z.of_nat n - base)) with true by lia. reflexivity. }
        destruct (shiftG_words x n shift Hx a3 HG) as [HW HR].
        split; [exact HW|]. split; [exact HR|].
        intros j Hj. rewrite (F3 j), (F1 j).
        replace ((Z.of_nat n - base <=? j) && (j <? Z.of_nat n)) with false by lia.
        replace ((0 <=? j) && (j <? Z.of_nat n - base)) with false by lia. reflexivity. }
    destruct (bit =? 0) eqn:EB; cbn [negb Z.eqb].
    + (* bit_index == 0: word copy *)
      apply Z.eqb_eq in EB.
      run_loop G 0 (Z.of_nat n - base) x a1 E1 F1.
      * intros a i Hi HF. cbn beta iota. split; [replace (i <? Z.of_nat n - base) with true by lia; reflexivity|].
        eexists. split; [rewrite (u64_small (i + 1)) by lia; reflexivity|].
        intros j. unfold upd. destruct (j =? i); [|reflexivity].
        rewrite (u64_small (i + base)) by lia. rewrite (HF (i + base)).
        replace ((0 <=? i + base) && (i + base <? i)) with false by lia.
        apply shiftG_copy; fold base; fold bit; try assumption; lia.
      * intros a. cbn beta iota. rewrite Z.ltb_irrefl. reflexivity.
      * apply Fin. exact F1.
    + (* bit_index != 0: two words combined, then the last word *)
      apply Z.eqb_neq in EB.
      run_loop G 0 (Z.of_nat n - base - 1) x a1 E1 F1.
      * intros a i Hi HF. cbn beta iota. split; [replace (i <? Z.of_nat n - base - 1) with true by lia; reflexivity|].
        eexists. split; [rewrite (u64_small (i + 1)) by lia; reflexivity|].
        intros j. unfold upd. destruct (j =? i); [|reflexivity].
        rewrite (u64_small (i + base)) by lia. rewrite (u64_small (i + base + 1)), (u64_small (32 - bit)) by lia.
        rewrite (HF (i + base)), (HF (i + base + 1)).
        replace ((0 <=? i + base) && (i + base <? i)) with false by lia.
        replace ((0 <=? i + base + 1) && (i + base + 1 <? i)) with false by lia.
        apply shiftG_mix; fold base; fold bit; try assumption; lia.
      * intros a. cbn beta iota. rewrite Z.ltb_irrefl. reflexivity.
      * apply Fin. intros j. unfold upd. rewrite (F1 j), (F1 (Z.of_nat n - 1)).
        replace ((0 <=? Z.of_nat n - 1) && (Z.of_nat n - 1 <? Z.of_nat n - base - 1)) with false by lia.
        destruct (Z.eqb_spec j (Z.of_nat n - base - 1)) as [->|Hne].
        -- replace ((0 <=? Z.of_nat n - base - 1) && (Z.of_nat n - base - 1 <? Z.of_nat n - base)) with true by lia.
           apply (shiftG_last x n shift Hx); fold base; fold bit; try assumption; lia.
        -- replace ((0 <=? j) && (j <? Z.of_nat n - base)) with ((0 <=? j) && (j <? Z.of_nat n - base - 1)) by lia.
           reflexivity.
Qed.
Print Assumptions bitvector_left_shift_gen_eq.

(* ------------------------------------------------------------------ *)
(* the set_bit macro:  word[b >> 5] |= (uint32_t)1 << (b & 31)          *)

Lemma set_bit_abs a n b :
  inrange a n -> 0 <= b < 32 * Z.of_nat n ->
  let a' := upd a (b / 32)
              (KernelGen.u32 (KernelGen.u32 (Z.lor (KernelGen.u32 (a (b / 32)))
                                                   (KernelGen.u32 (Z.shiftl 1 (b mod 32)))))) in
  absN a' n = N.setbit (absN a n) (Z.to_N b) /\ inrange a' n /\ frame a a' n.
Proof.
  intros Ha Hb a'. pose proof (words32_words a n Ha) as Hw32.
  assert (Hbn : (Z.to_N b < 32 * N.of_nat (length (words a n)))%N) by (rewrite words_length; lia).
  destruct (bv_set_bit_spec (words a n) (Z.to_N b) Hw32 Hbn) as (HP & HLen & HW).
  assert (Hq : N.to_nat (Z.to_N b / 32) = Z.to_nat (b / 32)) by lia.
  assert (Hm : (Z.to_N b mod 32)%N = Z.to_N (b mod 32)) by lia.
  set (V := N.lor (word (words a n) (Z.to_nat (b / 32))) (N.shiftl 1 (Z.to_N (b mod 32)))).
  assert (HV : a' (b / 32) = Z.of_N V).
  { subst a' V. unfold upd. rewrite Z.eqb_refl.
    rewrite <- (word_rd a n Ha (b / 32)) by lia.
    replace (b mod 32) with (Z.of_N (Z.to_N (b mod 32))) at 1 by lia.
    change 1 with (Z.of_N 1) at 1. rewrite <- of_N_shiftl.
    rewrite (u32_of_N (word _ _)) by (apply word_lt; assumption).
    rewrite (u32_of_N (N.shiftl 1 _)) by (apply bit_mask_lt; lia).
    rewrite <- of_N_lor.
    rewrite !u32_of_N by (apply lor_lt_pow2; [apply word_lt; assumption|apply bit_mask_lt; lia]).
    reflexivity. }
  assert (HE : words a' n = bv_set_bit (words a n) (Z.to_N b)).
  { apply words_eq_list; [rewrite HLen; apply words_length|].
    intros k Hk. unfold bv_set_bit. cbv zeta. rewrite nth_upd by (rewrite words_length; lia).
    rewrite Hq, Hm. fold V.
    destruct (Nat.eqb_spec k (Z.to_nat (b / 32))) as [->|Hne].
    - rewrite Z2Nat.id by lia. rewrite HV. apply N2Z.id.
    - rewrite nth_words by assumption. subst a'. unfold upd.
      destruct (Z.eqb_spec (Z.of_nat k) (b / 32)); [lia|reflexivity]. }
  split; [|split].
  - unfold absN. rewrite HE. exact HP.
  - intros k Hk. destruct (Z.eq_dec k (b / 32)) as [->|Hne].
    + rewrite HV. pose proof (lor_lt_pow2 (word (words a n) (Z.to_nat (b / 32)))
        (N.shiftl 1 (Z.to_N (b mod 32))) 32 (word_lt _ _ Hw32) (bit_mask_lt (Z.to_N (b mod 32)) ltac:(lia))) as HB.
      fold V in HB. change (2 ^ 32)%N with 4294967296%N in HB. lia.
    + subst a'. unfold upd. destruct (Z.eqb_spec k (b / 32)); [lia|]. apply Ha. assumption.
  - intros k Hk. subst a'. unfold upd. destruct (Z.eqb_spec k (b / 32)); [lia|reflexivity].
Qed.

(* ------------------------------------------------------------------ *)
(* 5. rdb.c: srtp_rdb_add_index  (v128_set_bit + call of v128_left_shift) *)

Theorem srtp_rdb_add_index_gen_eq fuel r i v :
  (4 <= fuel)%nat -> 0 <= wstart r < 4294967296 -> 0 <= i < 4294967296 -> inrange v 4 -> bitmask r = absN v 4 ->
  exists v', srtp_rdb_add_index_gen fuel i (wstart r) v
             = Some (fst (rdb_add r i), (wstart (snd (rdb_add r i)), v')) /\
             bitmask (snd (rdb_add r i)) = absN v' 4 /\ inrange v' 4 /\ frame v v' 4.
Proof.
  intros Hfuel HW HI HV HA. unfold srtp_rdb_add_index_gen, rdb_add. change rdb_bits_in_bitmask_c with 128.
  change (KernelGen.u64 (KernelGen.u64 8 * 16)) with 128. change (KernelGen.u64 1) with 1.
  change (KernelGen.u64 (128 - 1)) with 127. change (KernelGen.u32 31) with (Z.ones 5).
  change (KernelGen.u64 31) with (Z.ones 5). change (KernelGen.u32 1) with 1.
  cbv zeta.
  destruct (i <? wstart r) eqn:E0; cbn [negb Z.eqb fst snd].
  - exists v. split; [reflexivity|]. split; [assumption|]. split; [assumption|]. intros k _. reflexivity.
  - apply Z.ltb_ge in E0.
    assert (HU : Util.u32 (i - wstart r) = i - wstart r) by (unfold Util.u32; apply Z.mod_small; lia).
    rewrite HU, (u32_small (i - wstart r)) by lia. set (D := i - wstart r) in *.
    assert (HD : 0 <= D < 4294967296) by lia. rewrite (u64_small D) by lia.
    destruct (D <? 128) eqn:E1; cbn [negb Z.eqb fst snd wstart bitmask].
    + (* inside the window: v128_set_bit *)
      apply Z.ltb_lt in E1.
      rewrite (Z.shiftr_div_pow2 D 5), (Z.land_ones D 5) by lia. change (2 ^ 5) with 32.
      rewrite (u32_small (D / 32)), (u32_small (D mod 32)) by lia.
      destruct (set_bit_abs v 4 D HV ltac:(lia)) as (HS & HR & HF).
      eexists. split; [reflexivity|]. split; [|split; assumption].
      rewrite HS, HA. reflexivity.
    + (* beyond the window: v128_left_shift, then bit 127 *)
      apply Z.ltb_ge in E1.
      assert (HD2 : KernelGen.u32 (KernelGen.u64 (D - 127)) = D - 127).
      { rewrite (u64_small (D - 127)) by lia. apply u32_small. lia. }
      rewrite HD2. assert (HU2 : Util.u32 (D - (128 - 1)) = D - 127) by (unfold Util.u32; apply Z.mod_small; lia).
      rewrite HU2. rewrite (u64_small (D - 127)) by lia.
      destruct (v128_left_shift_gen_eq fuel (D - 127) v Hfuel ltac:(lia) HV) as (v1 & EV & HW1 & HR1 & HF1).
      rewrite EV.
      change (KernelGen.u64 (Z.shiftr 127 5)) with (127 / 32).
      change (KernelGen.u64 (Z.land 127 (Z.ones 5))) with (127 mod 32).
      destruct (set_bit_abs v1 4 127 HR1 ltac:(lia)) as (HS & HR & HF).
      eexists. split; [|split; [|split]].
      * f_equal. f_equal. f_equal. unfold KernelGen.u32, Util.u32. rewrite !Z.mod_mod by lia.
        rewrite (Z.mod_small (wstart r)) by lia. reflexivity.
      * rewrite HS. change (Z.to_N (128 - 1)) with (Z.to_N 127). f_equal.
        unfold absN at 1. rewrite HW1, HA. unfold absN.
        rewrite <- (rdb_v128_shift_justified (words v 4) (Z.to_N (D - 127)) (words_length v 4) (words32_words v 4 HV)).
        rewrite Z2N.id by lia. reflexivity.
      * exact HR.
      * intros k Hk. rewrite (HF k Hk). apply HF1. assumption.
Qed.
Print Assumptions srtp_rdb_add_index_gen_eq.

(* ------------------------------------------------------------------ *)
(* 6. rdbx.c: srtp_index_advance, srtp_rdbx_add_index, srtp_rdbx_set_roc_seq, srtp_rdbx_get_roc,
      srtp_rdbx_get_packet_index *)

Lemma srtp_index_advance_gen_eq pi s :
  0 <= pi < 18446744073709551616 -> 0 <= s < 65536 -> srtp_index_advance_gen s pi = Util.u64 (pi + s).
Proof.
  intros HP HS. unfold srtp_index_advance_gen. rewrite (u64_small pi), (u64_small s) by lia.
  unfold KernelGen.u64, Util.u64. rewrite Z.mod_mod by lia. reflexivity.
Qed.

(* Precondition HDOM: for delta <= 0 the C code sets bit length-1+delta without a check (callers establish it with
   srtp_rdbx_check); 0 < n: the bit vector is not empty (srtp_rdbx_init refuses ws = 0). *)
Theorem srtp_rdbx_add_index_gen_eq fuel r delta n w :
  (n <= fuel)%nat -> (0 < n)%nat -> wlen r = 32 * Z.of_nat n -> wlen r < 18446744073709551616 ->
  0 <= index r < 18446744073709551616 ->
  -9223372036854775808 <= delta < 9223372036854775808 ->
  (delta <= 0 -> 0 <= wlen r - 1 + delta) ->
  inrange w n -> mask r = absN w n ->
  exists w', srtp_rdbx_add_index_gen fuel delta (index r) (wlen r) w
             = Some (st_ok, (index (rdbx_add r delta), wlen (rdbx_add r delta), w')) /\
             mask (rdbx_add r delta) = absN w' n /\ inrange w' n /\ frame w w' n.
Proof.
  intros Hfuel Hn HL HLT HI HD HDOM HW HA. unfold srtp_rdbx_add_index_gen, rdbx_add.
  set (L := wlen r) in *.
  change (KernelGen.s64 0) with 0. change (KernelGen.u64 1) with 1. change (KernelGen.u64 31) with (Z.ones 5).
  change (KernelGen.u32 1) with 1. change (KernelGen.u32 0) with st_ok.
  rewrite Z.gtb_ltb. destruct (0 <? delta) eqn:E0; cbn [negb Z.eqb index wlen mask].
  - (* delta > 0: advance the index, shift the window, set the top bit *)
    apply Z.ltb_lt in E0.
    rewrite (u64_small delta) by lia.
    rewrite (srtp_index_advance_gen_eq (index r) (KernelGen.u16 delta)) by (unfold KernelGen.u16; lia).
    destruct (bitvector_left_shift_gen_eq fuel delta L n w Hfuel HL HLT ltac:(lia) HW) as (w1 & E & HW1 & HR1 & HF1).
    rewrite E. rewrite (u64_small (L - 1)) by lia.
    rewrite (Z.shiftr_div_pow2 (L - 1) 5), (Z.land_ones (L - 1) 5) by lia. change (2 ^ 5) with 32.
    rewrite (u64_small ((L - 1) / 32)), (u64_small ((L - 1) mod 32)) by lia.
    destruct (set_bit_abs w1 n (L - 1) HR1 ltac:(lia)) as (HS & HR & HF).
    eexists. split; [reflexivity|]. split; [|split].
    + rewrite HS. f_equal. unfold absN. rewrite HW1.
      rewrite <- (rdbx_shift_justified (words w n) (Z.to_N delta) (words32_words w n HW)).
      rewrite words_length, HA. unfold absN.
      destruct (L <=? delta) eqn:C1; destruct (32 * N.of_nat n <=? Z.to_N delta)%N eqn:C2; try reflexivity; lia.
    + exact HR.
    + intros k Hk. rewrite (HF k Hk). apply HF1. assumption.
  - (* delta <= 0: set the bit of an index inside the window *)
    apply Z.ltb_ge in E0. specialize (HDOM E0).
    replace (L - 1 + delta <? 0) with false by lia. cbn [index wlen mask].
    assert (Hb : KernelGen.u64 (KernelGen.u64 (L - 1) + KernelGen.u64 delta) = L - 1 + delta).
    { unfold KernelGen.u64. lia. }
    rewrite Hb. set (b := L - 1 + delta) in *.
    rewrite (Z.shiftr_div_pow2 b 5), (Z.land_ones b 5) by lia. change (2 ^ 5) with 32.
    rewrite (u64_small (b / 32)), (u64_small (b mod 32)) by lia.
    destruct (set_bit_abs w n b HW ltac:(lia)) as (HS & HR & HF).
    eexists. split; [reflexivity|]. split; [|split; assumption].
    rewrite HS, HA. reflexivity.
Qed.
Print Assumptions srtp_rdbx_add_index_gen_eq.

Theorem srtp_rdbx_set_roc_seq_gen_eq r roc s n w :
  0 <= index r < 18446744073709551616 -> 0 <= roc < 4294967296 -> 0 <= s < 65536 ->
  wlen r = 32 * Z.of_nat n -> wlen r < 18446744073709551616 -> inrange w n -> mask r = absN w n ->
  exists w', srtp_rdbx_set_roc_seq_gen roc s (index r) w (wlen r)
             = (fst (set_roc_seq r roc s),
                (index (snd (set_roc_seq r roc s)), w', wlen (snd (set_roc_seq r roc s)))) /\
             mask (snd (set_roc_seq r roc s)) = absN w' n /\ inrange w' n /\ frame w w' n.
Proof.
  intros HI HR HS HL HLT HW HA. unfold srtp_rdbx_set_roc_seq_gen, set_roc_seq.
  rewrite (u64_small roc), (u64_small s) by lia.
  rewrite (Z.shiftr_div_pow2 (index r) 16) by lia. change (2 ^ 16) with 65536.
  rewrite (u64_small (index r / 65536)) by lia.
  destruct (roc <? index r / 65536) eqn:E0; cbn [negb Z.eqb fst snd index wlen mask].
  - exists w. split; [reflexivity|]. split; [assumption|]. split; [assumption|]. intros k _. reflexivity.
  - destruct (bitvector_set_to_zero_gen_eq w (wlen r) n HL HLT) as (w' & E & HW' & HR' & HF'). rewrite E.
    exists w'. split; [|split; [|split; assumption]].
    + rewrite (u64_small s) by lia.
      rewrite (u64_small (Z.shiftl roc 16)) by (rewrite Z.shiftl_mul_pow2 by lia; change (2 ^ 16) with 65536; lia).
      rewrite Z.lor_comm, lor_shift16 by lia. rewrite !(u64_small (roc * 65536 + s)) by lia. reflexivity.
    + unfold absN. rewrite HW'. rewrite pack_repeat0. reflexivity.
Qed.
Print Assumptions srtp_rdbx_set_roc_seq_gen_eq.

Theorem srtp_rdbx_get_roc_gen_eq r :
  0 <= index r < 18446744073709551616 ->
  srtp_rdbx_get_roc_gen (index r) = (rdbx_roc r, index r).
Proof.
  intros HI. unfold srtp_rdbx_get_roc_gen, rdbx_roc. cbv zeta.
  rewrite (Z.shiftr_div_pow2 (index r) 16) by lia. change (2 ^ 16) with 65536.
  rewrite (u64_small (index r / 65536)) by lia. reflexivity.
Qed.
Print Assumptions srtp_rdbx_get_roc_gen_eq.

Theorem srtp_rdbx_get_packet_index_gen_eq r :
  srtp_rdbx_get_packet_index_gen (index r) = (index r, index r).
Proof. reflexivity. Qed.

Print Assumptions srtp_rdbx_check_gen_eq_31.
Print Assumptions srtp_rdbx_check_gen_overflow_refuted.
Print Assumptions bitvector_set_to_zero_gen_eq.
Print Assumptions srtp_index_advance_gen_eq.
Print Assumptions srtp_rdbx_get_packet_index_gen_eq.
