(* AeadBoundsRtp.v — C10 / C11 for the AES-GCM paths of SRTP (Aead.v: protect_aead, unprotect_aead):
   no out-of-bounds access of the packet buffers, and the length contract. *)
From Coq Require Import NArith ZArith List Bool Lia.
From Srtp Require Import Util Constants KeyLimit Rdb Rdbx Icm World Stream Rtp Rtcp Session MonadLemmas RejectProofs
  EnvelopeProofs WfProofs BoundsRtcp BoundsRtp LengthProofs Aead.
From Srtp Require RtpSpecProofs.
From Srtp.Crypto Require Import AES GCM.
Import ListNotations.
Local Open Scope Z_scope.

(* ---- the GCM cipher object: output lengths ---- *)
Lemma gcm_seal_length k tag_len iv aad pt room s o :
  0 <= tag_len <= 16 -> gcm_seal k tag_len iv aad pt room = (s, o) ->
  (s = st_ok /\ lenZ o = lenZ pt + tag_len /\ lenZ pt + tag_len <= room) \/ (s <> st_ok /\ o = []).
Proof.
  intros HT. unfold gcm_seal. destruct (room <? lenZ pt + tag_len) eqn:ER.
  - intros H. injection H as <- <-. right. split; [discriminate|reflexivity].
  - apply Z.ltb_ge in ER.
    destruct (gcm_encrypt (ck_rks k) iv aad pt (zn tag_len)) as [ct tag] eqn:E.
    intros H. injection H as <- <-. left.
    pose proof (gcm_encrypt_length _ _ _ _ _ _ _ E) as [L1 L2].
    split; [reflexivity|]. split; [|exact ER].
    unfold lenZ. rewrite app_length, L1, L2. unfold zn. lia.
Qed.

Lemma gcm_open_length k tag_len iv aad ct room s o :
  0 <= tag_len -> gcm_open k tag_len iv aad ct room = (s, o) ->
  (s = st_ok /\ lenZ o = lenZ ct - tag_len /\ tag_len <= lenZ ct) \/ (s <> st_ok /\ o = []).
Proof.
  intros HT. unfold gcm_open. destruct (lenZ ct <? tag_len) eqn:E1.
  { intros H. injection H as <- <-. right. split; [discriminate|reflexivity]. }
  destruct (room <? lenZ ct - tag_len) eqn:E2.
  { intros H. injection H as <- <-. right. split; [discriminate|reflexivity]. }
  apply Z.ltb_ge in E1.
  destruct (gcm_decrypt _ _ _ _ _) as [pt|] eqn:ED.
  - intros H. injection H as <- <-. left. split; [reflexivity|]. split; [|exact E1].
    apply gcm_decrypt_length in ED. unfold lenZ. rewrite ED, take_length. unfold lenZ, zn in *. lia.
  - intros H. injection H as <- <-. right. split; [discriminate|reflexivity].
Qed.

(* ---- two triples about the same run can be put together ---- *)
Lemma h_conj {A} (P1 P2 : world -> Prop) (m : M A) Q1 Q2 E :
  hoare P1 m Q1 E -> hoare P2 m Q2 TT ->
  hoare (fun w => P1 w /\ P2 w) m (fun a w => Q1 a w /\ Q2 a w) E.
Proof.
  intros H1 H2 w [p1 p2]. specialize (H1 w p1). specialize (H2 w p2).
  destruct (m w) as [w' [a|s]]; auto.
Qed.
Lemma h_facts {A} (F : Prop) (P P' : world -> Prop) (m : M A) Q E :
  (forall w, P w -> F /\ P' w) -> (F -> hoare P' m Q E) -> hoare P m Q E.
Proof. intros H1 H2 w HP. destruct (H1 w HP) as [f p]. exact (H2 f w p). Qed.

Lemma slice_splice_eq {A} o n (v l : list A) :
  length v = n -> (o + n <= length l)%nat -> slice o n (splice o v l) = v.
Proof. intros <- H. apply RtpSpecProofs.slice_splice_same. exact H. Qed.

Section AEAD_RTP.
Variable SP : stream -> Prop.
Hypothesis SPc : cfg_closed SP.
Hypothesis SPwf : forall st, SP st -> stream_wf st.
Variables (L C : Z) (al : bool) (src d0 : bytes).
Hypothesis HL : 0 <= L < 9223372036854775808.
Hypothesis HC : 0 <= C < 9223372036854775808.
Hypothesis HD : C <= lenZ d0.
Hypothesis HA : al = true -> L <= lenZ d0.
Hypothesis HS : al = false -> L <= lenZ src.
Variable w0 : world.

Notation I := (Inv SP L C al src d0).
Variable pkt0 : bytes.
Hypothesis Hpkt0 : pkt0 = take (zn L) (if al then d0 else src).
Notation ssrc0 := (hdr_ssrc pkt0).

Ltac hs := try exact SPc; try exact SPwf; try exact HD; try exact HA; try exact HS.
Ltac hexit := first [apply h_bind_exit | apply h_exit]; apply inv_noob.
Ltac hseq K := apply h_bind with (R := fun _ => I K); [ | intros ? ].
Ltac hkeep := apply h_ret; intros ? ?; assumption.
Ltac hany := apply h_ret; intros ?; apply inv_any.
Ltac hif := match goal with |- hoare _ (if ?c then _ else _) _ _ => destruct c end.

(* with no CSRC the buffer shuffles do nothing *)
Lemma h_cryptex_adjust0 (K : bytes -> Prop) pkt :
  hdr_cc pkt = 0 -> hoare (I K) (cryptex_adjust pkt) (fun _ => I K) NoOob.
Proof. intros E. unfold cryptex_adjust. rewrite E. cbn [Z.eqb]. hkeep. Qed.

(* the length of what a read of the source yields *)
Lemma src_slice_len dd off n :
  lenZ dd = lenZ d0 -> 0 <= off -> 0 <= n -> off + n <= L ->
  lenZ (slice (zn off) (zn n) (if al then dd else src)) = n.
Proof.
  intros Ld H1 H2 H3. apply lenZ_slice_eq; [lia|lia|].
  destruct al; [rewrite Ld; specialize (HA eq_refl); lia|specialize (HS eq_refl); lia].
Qed.

(* the state of the combined walk: the buffer invariant and "the list holds the stream of the
   packet's SSRC, configured as st0" *)
Definition J (K : bytes -> Prop) (st0 : stream) (w : world) : Prop := I K w /\ Sx ssrc0 st0 w.

Lemma hj_sess {A} K st0 (m : M A) :
  hoare (I K) m (fun _ => I K) NoOob -> hoare (Sx ssrc0 st0) m (fun _ => Sx ssrc0 st0) TT ->
  hoare (J K st0) m (fun _ => J K st0) NoOob.
Proof. intros H1 H2. exact (h_conj _ _ _ _ _ _ H1 H2). Qed.
Lemma hj_buf {A} K K' st0 (m : M A) :
  hoare (I K) m (fun _ => I K') NoOob -> sess_pres m -> hoare (J K st0) m (fun _ => J K' st0) NoOob.
Proof. intros H1 H2. exact (h_conj _ _ _ _ _ _ H1 (h_sp _ _ H2 (Sx_sess_only _ _))). Qed.

Definition aead_len_post (i : Z) (l : Z) : Prop :=
  exists st k, pkt_stream (w_s w0) ssrc0 = Some st /\ sender_key st i = Some k /\
               12 <= L /\ L + ak_tag (k_rtp_a k) + s_mki_size st <= C /\
               l = L + ak_tag (k_rtp_a k) + s_mki_size st.

Lemma protect_aead_full i :
  hoare (fun w => I (eq d0) w /\ w0 = w) (protect_aead i)
        (fun l w => I Kany w /\ aead_len_post i l) NoOob.
Proof.
  clear HC. unfold protect_aead.
  eapply h_bind; [apply (h_conj _ _ _ _ _ _ (h_get_b0 SP L C al src d0) (h_get_b_eq w0))|intros b].
  apply h_facts with (F := b = b_init L C al src d0) (P' := fun w => I (eq d0) w /\ w0 = w).
  { intros w [[e1 i1] [e2 e3]]. auto. }
  intros ->.
  cbv beta zeta. unfold b_init, cur_src; cbn [b_len b_cap b_alias b_src b_dst].
  change octets_in_rtp_header_c with 12. change octets_in_rtp_xtn_hdr_c with 4.
  match goal with |- context [validate_rtp ?p L] => remember p as pkt eqn:Hp end.
  assert (EP : pkt = pkt0) by (rewrite Hp, Hpkt0; reflexivity). clear Hp. subst pkt.
  pose proof (hdr_cc_range pkt0) as CC. pose proof (hdr_len_eq pkt0) as HLn.
  pose proof (xtn_len_ge pkt0) as XL. pose proof (hdr_x_range pkt0) as XR.
  eapply h_bind; [apply (h_conj _ _ _ _ _ _ (BoundsRtcp.h_check_st SP L C al src d0 _ _) (h_check_stP _ _))|intros ?].
  apply h_facts with (F := validate_rtp pkt0 L = st_ok) (P' := fun w => I (eq d0) w /\ w0 = w).
  { intros w [[e1 i1] [e2 e3]]. auto. }
  intros V. apply validate_rtp_ok in V. destruct V as (V1 & V2 & V3).
  eapply h_bind; [apply (h_conj _ _ _ _ _ _ (h_lookup_or_clone SP SPc L C al src d0 _ _ _) (lookup_or_clone_Sx _ _ w0))|intros r].
  apply h_pre with (P' := fun w => exists st0, (r = RList ssrc0 /\ pkt_stream (w_s w0) ssrc0 = Some st0) /\ J (eq d0) st0 w).
  { intros w [i1 [e1 [st0 [e2 sx]]]]. exists st0. split; [auto|split; assumption]. }
  apply h_ex; intros st0. apply h_pure; intros [-> Hst0].
  eapply h_bind; [apply hj_sess; [apply h_check_direction; hs|apply check_direction_Sx]|intros ?].
  eapply h_bind; [apply (h_conj _ _ _ _ _ _ (h_get_stream SP L C al src d0 _ _) (get_stream_Sx _ _))|intros st].
  apply h_facts with (F := SP st /\ cfg_eq st0 st) (P' := J (eq d0) st0).
  { intros w [[e1 i1] [e2 e3]]. split; [auto|split; assumption]. }
  intros [Hst Hc].
  eapply h_bind.
  { apply (h_conj _ _ _ _ _ _ (h_keys_by_index SP L C al src d0 _ st i)
            (h_sbP _ _ _ (sb_keys_by_index st i) (r_keys_by_index st i) (Sx_sess_only ssrc0 st0))). }
  intros [ki k]. cbn [snd].
  apply h_facts with (F := In k (s_keys st) /\ nth_error (s_keys st) (zn (if s_use_mki st then i else 0)) = Some k) (P' := J (eq d0) st0).
  { intros w [[e1 i1] [e2 e3]]. split; [auto|split; assumption]. }
  intros [Hk Hnth].
  destruct (SP_key SP SPwf _ _ Hst Hk) as (M & U & MK & TA & _).
  pose proof TA as [T _]. rewrite max_tag_value in T.
  eapply h_bind; [apply hj_sess; [apply h_charge_key; hs|apply charge_key_Sx]|intros ?].
  destruct (C <? L + ak_tag (k_rtp_a k) + s_mki_size st) eqn:E1; [apply h_bind_exit; intros w [HI _]; exact (inv_noob _ _ _ _ _ _ _ _ HI)|].
  apply h_bind_ret. apply Z.ltb_ge in E1.
  remember (s_cryptex st && negb (Z.land (s_rtp_serv st) sec_serv_conf_c =? 0)) as want eqn:Hwant.
  remember (want && (hdr_x pkt0 =? 1)) as inuse eqn:Hinuse.
  destruct (want && negb (hdr_cc pkt0 =? 0) && (hdr_x pkt0 =? 0)); [apply h_bind_exit; intros w [HI _]; exact (inv_noob _ _ _ _ _ _ _ _ HI)|].
  apply h_bind_ret.
  match goal with |- context [L <? ?e] => remember e as es eqn:Hes end.
  assert (ES : 0 <= es /\ (al = false -> hdr_x pkt0 = 1 -> hdr_len pkt0 + 4 <= es) /\
               (inuse = true -> hdr_x pkt0 = 1) /\
               (inuse = false -> hdr_x pkt0 = 1 -> es = hdr_len pkt0 + xtn_len pkt0) /\
               (inuse = true -> es = hdr_len pkt0 + 4 - (if al then hdr_cc pkt0 * 4 else 0))).
  { subst es. destruct inuse eqn:EI.
    - symmetry in Hinuse. apply andb_true_iff in Hinuse. destruct Hinuse as [_ X]. apply Z.eqb_eq in X.
      rewrite X. cbn [Z.eqb Pos.eqb andb].
      assert (E : u64 (u64 (hdr_len pkt0 + xtn_len pkt0 - (xtn_len pkt0 - 4)) - (if al then hdr_cc pkt0 * 4 else 0)) =
                  hdr_len pkt0 + 4 - (if al then hdr_cc pkt0 * 4 else 0)).
      { rewrite (u64_small (hdr_len pkt0 + xtn_len pkt0 - (xtn_len pkt0 - 4))) by lia.
        rewrite u64_small by (destruct al; lia). lia. }
      rewrite E. clear E.
      split; [destruct al; lia|]. split; [intros -> _; lia|]. split; [auto|]. split; [discriminate|reflexivity].
    - split; [destruct (hdr_x pkt0 =? 1); lia|]. split; [intros _ X; rewrite X; cbn [Z.eqb Pos.eqb]; lia|].
      split; [discriminate|]. split; [intros _ X; rewrite X; reflexivity|discriminate]. }
  destruct ES as (ES1 & ES2 & ES3 & ES4 & ES5).
  destruct (inuse && negb (inuse && al) && negb (hdr_cc pkt0 =? 0)) eqn:ENP;
    [apply h_bind_exit; intros w [HI _]; exact (inv_noob _ _ _ _ _ _ _ _ HI)|]. apply h_bind_ret.
  destruct (L <? es) eqn:E2; [apply h_bind_exit; intros w [HI _]; exact (inv_noob _ _ _ _ _ _ _ _ HI)|].
  apply h_bind_ret. apply Z.ltb_ge in E2.
  assert (X4 : hdr_x pkt0 = 1 -> hdr_len pkt0 + 4 <= L) by (intros X; specialize (V3 X); lia).
  apply h_bind with (R := fun _ => J (CI pkt0) st0); [|intros ?].
  { apply hj_buf; [|sp_auto]. apply (h_copy_header SP L C al src d0 HD HA HS pkt0 es Hpkt0); try assumption; lia. }
  eapply h_bind; [apply (h_conj _ _ _ _ _ _ (h_get_stream SP L C al src d0 _ _) (get_stream_Sx _ _))|intros st2].
  apply h_facts with (F := SP st2 /\ cfg_eq st0 st2) (P' := I (CI pkt0)).
  { intros w [[e1 i1] [e2 e3]]. split; [auto|exact i1]. }
  intros [Hst2 Hc2].
  assert (M2 : s_mki_size st2 = s_mki_size st) by (pose proof Hc as (_ & mA & _); pose proof Hc2 as (_ & mB & _); congruence).
  (* from here on the session no longer matters for the result *)
  apply h_post with (Q' := fun l w => l = L + ak_tag (k_rtp_a k) + s_mki_size st /\ I Kany w).
  2:{ intros l w [-> HI]. split; [exact HI|]. exists st0, k. pose proof Hc as (_ & M0 & _).
      rewrite M0 in *. split; [exact Hst0|]. split; [exact (cfg_sender_key _ _ _ _ Hc Hnth)|]. repeat split; try lia. }
  destruct (est_index st2 (hdr_seq pkt0)) as [[est_st est] delta].
  hseq (CI pkt0). { destruct (negb (est_st =? st_ok) && negb (est_st =? st_pkt_idx_adv)); [apply h_exit; apply inv_noob|hkeep]. }
  hseq (CI pkt0).
  { destruct (est_st =? st_pkt_idx_adv).
    - apply h_put_stream. apply (SP_commit SP SPc). exact Hst2.
    - hseq (CI pkt0). { hif; [hexit|hkeep]. }
      apply h_put_stream. apply (SP_upd SP SPc). apply (SP_upd SP SPc). exact Hst2. }
  hseq (CI pkt0). { unfold log_gcm_iv. apply h_sb0. apply sb_log_iv. }
  hseq (CI pkt0). { destruct (k_xtn_c k); [apply h_log_encrypt_iv|hkeep]. }
  (* RFC 6904 *)
  assert (LC : L <= C) by lia.
  hseq Kany.
  { destruct (k_xtn_c k) as [xk|]; [|hany].
    destruct (hdr_x pkt0 =? 1) eqn:EX; [|hany]. apply Z.eqb_eq in EX.
    apply h_process_xtn; hs; [|specialize (V3 EX); lia]. intros dd _ HCI. exact (HCI EX). }
  (* cryptex *)
  hseq Kany.
  { destruct inuse eqn:EI; [|hkeep]. specialize (ES3 eq_refl). specialize (X4 ES3).
    eapply h_bind; [apply h_rd_dst; lia|intros h]. apply h_pure; intros _.
    hseq Kany.
    { hif; [apply h_set_profile; lia|]. hif; [apply h_set_profile; lia|hexit]. }
    cbn [andb]. destruct al; [apply h_cryptex_adjust; hs; lia|hkeep]. }
  (* AAD, payload, seal *)
  eapply h_bind; [apply h_rd_dst; lia|intros aad]. apply h_pure; intros _.
  eapply h_bind; [apply h_rd_src; lia|intros d]. apply h_pure; intros (dd & _ & Ldd & ->).
  pose proof (src_slice_len dd es (L - es) Ldd ES1 ltac:(lia) ltac:(lia)) as LD.
  match goal with |- context [gcm_seal ?a ?b ?c ?e ?f ?g] => destruct (gcm_seal a b c e f g) as [s o] eqn:EG end.
  destruct (gcm_seal_length _ _ _ _ _ _ _ _ T EG) as [(-> & LO & _)|(NS & ->)].
  2:{ apply Z.eqb_neq in NS. rewrite NS. cbn [negb]. hexit. }
  cbn [Z.eqb negb]. rewrite LD in LO.
  hseq Kany. { apply h_wr_dst_any; lia. }
  hseq Kany. { destruct (s_use_mki st2); [apply h_wr_dst_any; lia|hkeep]. }
  hseq Kany.
  { destruct (inuse && al) eqn:EIA; [|hkeep]. apply andb_true_iff in EIA. destruct EIA as [EI _].
    specialize (X4 (ES3 EI)). apply h_cryptex_restore; hs. lia. }
  apply h_ret. intros w HI. split; [|exact HI].
  rewrite M2, LO. rewrite u64_small by lia. lia.
Qed.

(* ---- srtp_unprotect with a GCM key ---- *)
(* what is known of the destination while cryptex works on it *)
Definition LF (pkt dd : bytes) : Prop :=
  hdr_x pkt = 1 -> slice (zn (hdr_len pkt) + 2) 2 dd = slice (zn (hdr_len pkt) + 2) 2 pkt.
Definition CA (pkt dd : bytes) : Prop :=
  hdr_x pkt = 1 -> slice 12 4 dd = slice (zn (hdr_len pkt)) 4 pkt.

Lemma CI_LF pkt dd : CI pkt dd -> LF pkt dd.
Proof.
  intros H X. rewrite <- !(slice_slice 2 2 (zn (hdr_len pkt)) 4) by lia. rewrite (H X). reflexivity.
Qed.

(* the RFC 6904 walk only needs the length field of the extension header *)
Lemma h_process_xtn_lf (K : bytes -> Prop) st pkt xcs :
  (forall dd, lenZ dd = lenZ d0 -> K dd -> slice (zn (hdr_len pkt) + 2) 2 dd = slice (zn (hdr_len pkt) + 2) 2 pkt) ->
  hdr_len pkt + xtn_len pkt <= C ->
  hoare (I K) (process_xtn st pkt xcs) (fun _ => I Kany) NoOob.
Proof.
  intros HK HB. pose proof (hdr_cc_range pkt) as CC. pose proof (hdr_len_eq pkt) as HLn.
  pose proof (xtn_len_ge pkt) as XL.
  unfold process_xtn.
  eapply h_bind; [apply h_rd_dst; lia|intros h]. apply h_pure; intros (dd & Kdd & Ldd & ->).
  change (zn 4) with 4%nat.
  assert (EN : be16 (slice (zn (hdr_len pkt)) 4 dd) 2 * 4 = xtn_len pkt - 4).
  { rewrite be16_slice4. unfold be16 at 1. rewrite (HK dd Ldd Kdd). unfold xtn_len.
    replace (zn (hdr_len pkt + 2)) with (zn (hdr_len pkt) + 2)%nat by (unfold zn; lia). unfold be16. lia. }
  rewrite EN.
  hif; [hexit|].
  eapply h_bind; [apply h_rd_dst; lia|intros d]. apply h_pure; intros (dd2 & _ & _ & ->).
  pose proof (lenZ_slice_le (hdr_len pkt + 4) (xtn_len pkt - 4) dd2 ltac:(lia)) as LD.
  set (d := slice (zn (hdr_len pkt + 4)) (zn (xtn_len pkt - 4)) dd2) in *.
  match goal with |- context [match ?r with Some _ => _ | None => _ end] => destruct r as [d'|] eqn:ER end; [|hexit].
  assert (LE : length d' = length d).
  { destruct (_ =? xtn_hdr_one_byte_profile_c); [exact (xtn_one_length _ _ _ _ _ _ ER)|exact (xtn_two_length _ _ _ _ _ _ ER)]. }
  apply h_wr_dst_any; [lia|]. unfold lenZ in *. lia.
Qed.

(* the two buffer shuffles, with what they do to the extension header *)
Lemma h_cryptex_adjust_c pkt :
  hdr_cc pkt <> 0 -> hdr_len pkt + 4 <= C ->
  hoare (I (CI pkt)) (cryptex_adjust pkt) (fun _ => I (CA pkt)) NoOob.
Proof.
  intros NC HB. pose proof (hdr_cc_range pkt) as CC. pose proof (hdr_len_eq pkt) as HLn.
  unfold cryptex_adjust. change octets_in_rtp_header_c with 12.
  destruct (hdr_cc pkt =? 0) eqn:E0; [apply Z.eqb_eq in E0; contradiction|].
  eapply h_bind; [apply h_rd_dst; lia|intros tmp]. apply h_pure; intros (dd & Kdd & Ldd & ->).
  eapply h_bind; [apply h_rd_dst; lia|intros csrc]. apply h_pure; intros (dd2 & _ & _ & ->).
  pose proof (lenZ_slice_eq (hdr_len pkt) 4 dd ltac:(lia) ltac:(lia) ltac:(lia)) as LT.
  pose proof (lenZ_slice_le 12 (4 * hdr_cc pkt) dd2 ltac:(lia)).
  hseq Kany; [apply h_wr_dst_any; lia|].
  apply h_wr_dst; [lia|lia|]. intros dd3 Ld3 _ X.
  change (zn 12) with 12%nat. change (zn 4) with 4%nat in *.
  rewrite slice_splice_eq by (unfold lenZ in *; lia). exact (Kdd X).
Qed.
Lemma h_cryptex_restore_c pkt :
  hdr_cc pkt <> 0 -> hdr_len pkt + 4 <= C ->
  hoare (I (CA pkt)) (cryptex_restore pkt) (fun _ => I (CI pkt)) NoOob.
Proof.
  intros NC HB. pose proof (hdr_cc_range pkt) as CC. pose proof (hdr_len_eq pkt) as HLn.
  unfold cryptex_restore. change octets_in_rtp_header_c with 12.
  destruct (hdr_cc pkt =? 0) eqn:E0; [apply Z.eqb_eq in E0; contradiction|].
  eapply h_bind; [apply h_rd_dst; lia|intros tmp]. apply h_pure; intros (dd & Kdd & Ldd & ->).
  eapply h_bind; [apply h_rd_dst; lia|intros csrc]. apply h_pure; intros (dd2 & _ & _ & ->).
  pose proof (lenZ_slice_eq 12 4 dd ltac:(lia) ltac:(lia) ltac:(lia)) as LT.
  pose proof (lenZ_slice_le (12 + 4) (4 * hdr_cc pkt) dd2 ltac:(lia)).
  hseq Kany; [apply h_wr_dst_any; lia|].
  apply h_wr_dst; [lia|lia|]. intros dd3 Ld3 _ X.
  change (zn 12) with 12%nat in *. change (zn 4) with 4%nat in *.
  rewrite <- HLn.
  rewrite slice_splice_eq by (unfold lenZ, zn in *; lia). exact (Kdd X).
Qed.
Lemma h_cryptex_restore0 (K : bytes -> Prop) pkt :
  hdr_cc pkt = 0 -> hoare (I K) (cryptex_restore pkt) (fun _ => I K) NoOob.
Proof. intros E. unfold cryptex_restore. rewrite E. cbn [Z.eqb]. hkeep. Qed.

(* With cryptex the extension elements lie in the encrypted part of the packet: the second parse
   check of srtp_unprotect_aead (the whole extension must end before the trailer) keeps the
   RFC 6904 walk, which runs on the restored header, inside the decrypted packet. *)
Lemma unprotect_aead_safe : hoare (I (eq d0)) unprotect_aead (fun _ => I Kany) NoOob.
Proof.
  unfold unprotect_aead.
  eapply h_bind; [apply h_get_b0|intros b]. apply h_pure; intros ->.
  cbv beta zeta. unfold b_init, cur_src; cbn [b_len b_cap b_alias b_src b_dst].
  change octets_in_rtp_header_c with 12. change octets_in_rtp_xtn_hdr_c with 4.
  match goal with |- context [validate_rtp ?p L] => remember p as pkt eqn:Hp end.
  assert (EP : pkt = pkt0) by (rewrite Hp, Hpkt0; reflexivity). rewrite EP in *. clear EP pkt.
  pose proof (hdr_cc_range pkt0) as CC. pose proof (hdr_len_eq pkt0) as HLn.
  pose proof (xtn_len_ge pkt0) as XL. pose proof (hdr_x_range pkt0) as XR.
  eapply h_bind; [apply BoundsRtcp.h_check_st|intros ?]. apply h_pure; intros V.
  apply validate_rtp_ok in V. destruct V as (V1 & V2 & V3).
  assert (X4 : hdr_x pkt0 = 1 -> hdr_len pkt0 + 4 <= L) by (intros X; specialize (V3 X); lia).
  eapply h_bind; [apply h_get_s|intros ss]. apply h_pure; intros _.
  apply h_bind with (R := fun _ => I (eq d0)).
  { destruct (list_get (ss_list ss) _); [hkeep|]. destruct (ss_template ss); [hkeep|hexit]. }
  intros r0.
  eapply h_bind; [apply h_get_stream|intros st]. apply h_pure; intros Hst.
  apply h_bind with (R := fun _ => I (eq d0)).
  { destruct r0; [hkeep|]. destruct (est_index st (hdr_seq pkt0)) as [[est_st est] delta].
    hseq (eq d0). { hif; [hexit|hkeep]. }
    hif; [hkeep|]. eapply h_bind; [apply BoundsRtcp.h_check_st|intros ?]. apply h_pure; intros _. hkeep. }
  intros [[est delta] adv].
  eapply h_bind; [apply h_keys_by_packet; hs; [exact Hst|lia]|intros [ki k]].
  apply h_pure; cbn [snd]; intros Hk.
  destruct (SP_key SP SPwf _ _ Hst Hk) as (M & U & MK & TA & _).
  pose proof TA as [T _]. rewrite max_tag_value in T.
  (* cryptex in use? *)
  apply h_bind with (R := fun (iu : bool) w => (iu = true -> hdr_x pkt0 = 1 /\ cryptex_profile pkt0) /\ I (eq d0) w).
  { destruct (s_cryptex st && negb (Z.land (s_rtp_serv st) sec_serv_conf_c =? 0) && (hdr_x pkt0 =? 1)) eqn:EC.
    - apply andb_true_iff in EC. destruct EC as [_ EC2].
      apply Z.eqb_eq in EC2. specialize (X4 EC2).
      eapply h_bind; [apply h_rd_src; lia|intros h]. apply h_pure; intros (dd & <- & _ & ->).
      apply h_ret. intros w HI. split; [|exact HI]. intros HP. split; [exact EC2|].
      change (zn 4) with 4%nat in HP. rewrite be16_slice4_0 in HP.
      match type of HP with context [be16 ?X (zn (hdr_len pkt0))] =>
        pose proof (be16_take X (zn L) (zn (hdr_len pkt0)) ltac:(unfold zn in *; lia)) as EB;
        rewrite <- EB in HP; replace (take (zn L) X) with pkt0 in HP by exact Hp end.
      apply orb_true_iff in HP. unfold cryptex_profile.
      destruct HP as [HP|HP]; apply Z.eqb_eq in HP; auto.
    - apply h_ret. intros w HI. split; [discriminate|exact HI]. }
  intros inuse. apply h_pure; intros IU.
  apply h_bind with (R := fun (xl : Z) w => (inuse = true -> xl = xtn_len pkt0) /\ I (eq d0) w).
  { destruct inuse; [|apply h_ret; intros w HI; split; [discriminate|exact HI]].
    destruct (IU eq_refl) as (X & _). specialize (X4 X).
    eapply h_bind; [apply h_rd_src; lia|intros h]. apply h_pure; intros (dd & <- & _ & ->).
    apply h_ret. intros w HI. split; [|exact HI]. intros _.
    change (zn 4) with 4%nat. rewrite be16_slice4. unfold xtn_len.
    replace (zn (hdr_len pkt0 + 2)) with (zn (hdr_len pkt0) + 2)%nat by (unfold zn; lia).
    rewrite Hp. rewrite be16_take by (rewrite <- Hp; unfold zn in *; lia). reflexivity. }
  intros xl. apply h_pure; intros XLE.
  match goal with |- context [u64 (L - ak_tag (k_rtp_a k) - s_mki_size st) <? u64 (?e + ?f)] =>
    remember e as es eqn:Hes; remember f as sh eqn:Hsh end.
  assert (ES : 0 <= es /\ 0 <= sh /\ es + sh <= L /\
               (al = false -> hdr_x pkt0 = 1 -> hdr_len pkt0 + 4 <= es) /\
               (inuse = false -> hdr_x pkt0 = 1 -> es = hdr_len pkt0 + xtn_len pkt0) /\
               (inuse = true -> es + sh = hdr_len pkt0 + 4) /\
               (sh = if inuse && al then hdr_cc pkt0 * 4 else 0)).
  { subst es sh. destruct inuse.
    - destruct (IU eq_refl) as (X & _). rewrite (XLE eq_refl), X. cbn [Z.eqb Pos.eqb andb].
      specialize (X4 X).
      assert (E : u64 (u64 (hdr_len pkt0 + xtn_len pkt0 - (xtn_len pkt0 - 4)) - (if al then hdr_cc pkt0 * 4 else 0)) =
                  hdr_len pkt0 + 4 - (if al then hdr_cc pkt0 * 4 else 0)).
      { rewrite (u64_small (hdr_len pkt0 + xtn_len pkt0 - (xtn_len pkt0 - 4))) by lia.
        rewrite u64_small by (destruct al; lia). lia. }
      rewrite E. clear E. destruct al; repeat split; try lia; try discriminate; intros; lia.
    - cbn [andb]. split; [destruct (hdr_x pkt0 =? 1); lia|]. split; [lia|].
      split; [destruct (hdr_x pkt0 =? 1) eqn:EX; [apply Z.eqb_eq in EX; specialize (V3 EX); lia|lia]|].
      split; [intros _ X; rewrite X; cbn [Z.eqb Pos.eqb]; lia|].
      split; [intros _ X; rewrite X; reflexivity|]. split; [discriminate|reflexivity]. }
  destruct ES as (ES1 & ESh & ESL & ES2 & ES3 & ES4 & ES5).
  destruct (inuse && negb (inuse && al) && negb (hdr_cc pkt0 =? 0)) eqn:ENP; [hexit|]. apply h_bind_ret.
  destruct (u64 (L - ak_tag (k_rtp_a k) - s_mki_size st) <? u64 (es + sh)) eqn:E2; [hexit|]. apply h_bind_ret. apply Z.ltb_ge in E2.
  destruct (inuse && (u64 (L - ak_tag (k_rtp_a k) - s_mki_size st) <? u64 (hdr_len pkt0 + xl))) eqn:EXF; [hexit|]. apply h_bind_ret.
  destruct (u64 (L - es - s_mki_size st) <? ak_tag (k_rtp_a k)) eqn:E2b; [hexit|]. apply h_bind_ret. apply Z.ltb_ge in E2b.
  destruct (C <? u64 (L - s_mki_size st - ak_tag (k_rtp_a k))) eqn:E3; [hexit|]. apply h_bind_ret. apply Z.ltb_ge in E3.
  assert (A0 : 0 <= L - s_mki_size st - ak_tag (k_rtp_a k)).
  { destruct (Z_lt_le_dec (L - s_mki_size st - ak_tag (k_rtp_a k)) 0) as [N|]; [|assumption].
    rewrite u64_neg in E3 by lia. lia. }
  rewrite u64_small in E3 by lia. rewrite (u64_small (es + sh)) in E2 by lia. rewrite u64_small in E2 by lia.
  assert (XF : inuse = true -> hdr_len pkt0 + xtn_len pkt0 <= L - ak_tag (k_rtp_a k) - s_mki_size st).
  { intros EI. rewrite EI in EXF. cbn [andb] in EXF. apply Z.ltb_ge in EXF.
    destruct (IU EI) as (X & _). specialize (V3 X). rewrite (XLE EI) in EXF.
    rewrite (u64_small (hdr_len pkt0 + xtn_len pkt0)) in EXF by lia. rewrite u64_small in EXF by lia. exact EXF. }
  clear EXF.
  rewrite (u64_small (L - es - s_mki_size st)) in * by lia.
  (* shuf: the header is shuffled in place between cryptex_adjust and cryptex_restore *)
  remember (inuse && al && negb (hdr_cc pkt0 =? 0)) as shuf eqn:Hshuf.
  assert (SH0 : shuf = false -> sh = 0).
  { intros E. rewrite ES5. rewrite E in Hshuf. destruct (inuse && al); [|reflexivity].
    cbn [andb] in Hshuf. destruct (hdr_cc pkt0 =? 0) eqn:EC0; [apply Z.eqb_eq in EC0; lia|discriminate]. }
  assert (SH1 : shuf = true -> inuse = true /\ al = true /\ hdr_cc pkt0 <> 0 /\ es = 16).
  { intros E. rewrite E in Hshuf. symmetry in Hshuf. apply andb_true_iff in Hshuf. destruct Hshuf as [H1 H2].
    apply andb_true_iff in H1. destruct H1 as [EI EA].
    assert (NC : hdr_cc pkt0 <> 0) by (intros Z0; rewrite Z0 in H2; discriminate).
    split; [exact EI|]. split; [exact EA|]. split; [exact NC|].
    specialize (ES4 EI). rewrite EI, EA in ES5. cbn [andb] in ES5. lia. }
  set (KA := fun dd : bytes => if shuf then CA pkt0 dd else CI pkt0 dd).
  hseq (CI pkt0). { apply (h_copy_header SP L C al src d0 HD HA HS pkt0 es Hpkt0); try assumption; lia. }
  hseq KA.
  { subst KA. destruct (inuse && al) eqn:EIA.
    - destruct (hdr_cc pkt0 =? 0) eqn:EC0.
      + cbn in Hshuf. subst shuf. apply Z.eqb_eq in EC0. apply h_cryptex_adjust0; exact EC0.
      + cbn in Hshuf. subst shuf. destruct (SH1 eq_refl) as (EI & _ & NC & _). specialize (ES4 EI).
        apply h_cryptex_adjust_c; [exact NC|lia].
    - cbn in Hshuf. subst shuf. hkeep. }
  eapply h_bind; [apply h_rd_src; lia|intros aad]. apply h_pure; intros _.
  eapply h_bind; [apply h_rd_src; lia|intros d]. apply h_pure; intros (dd & _ & Ldd & ->).
  pose proof (src_slice_len dd es (L - es - s_mki_size st) Ldd ES1 ltac:(lia) ltac:(lia)) as LD.
  match goal with |- context [gcm_open ?a ?b ?c ?e ?f ?g] => destruct (gcm_open a b c e f g) as [s o] eqn:EG end.
  destruct (gcm_open_length _ _ _ _ _ _ _ _ (proj1 T) EG) as [(-> & LO & _)|(NS & ->)].
  2:{ apply Z.eqb_neq in NS. rewrite NS. cbn [negb]. hexit. }
  cbn [Z.eqb negb]. rewrite LD in LO.
  hseq KA.
  { apply h_wr_dst; [lia|lia|]. intros dd1 _ HKA. subst KA. cbv beta in *. destruct shuf.
    - destruct (SH1 eq_refl) as (_ & _ & _ & E16). intros X. rewrite E16.
      rewrite slice_splice_below by (unfold zn; lia). exact (HKA X).
    - apply CI_above; [|exact HKA]. intros X. specialize (SH0 eq_refl). destruct inuse.
      + specialize (ES4 eq_refl). lia.
      + rewrite (ES3 eq_refl X). lia. }
  hseq KA. { apply h_charge_key; hs. }
  eapply h_bind; [apply h_get_stream|intros st']. apply h_pure; intros Hst'.
  (* srtp_cryptex_unprotect_cleanup, now before the RFC 6904 walk *)
  hseq (LF pkt0).
  { destruct inuse eqn:EI.
    - destruct (IU eq_refl) as (X & _). specialize (ES4 eq_refl).
      hseq (CI pkt0).
      { subst KA. destruct (true && al) eqn:EIA.
        - destruct (hdr_cc pkt0 =? 0) eqn:EC0.
          + cbn in Hshuf. subst shuf. apply Z.eqb_eq in EC0. apply h_cryptex_restore0; exact EC0.
          + cbn in Hshuf. subst shuf. destruct (SH1 eq_refl) as (_ & _ & NC & _).
            apply h_cryptex_restore_c; [exact NC|lia].
        - cbn in Hshuf. subst shuf. hkeep. }
      eapply h_bind; [apply h_rd_dst; lia|intros h]. apply h_pure; intros _.
      assert (SPF : forall v, hoare (I (CI pkt0)) (set_profile pkt0 v) (fun _ => I (LF pkt0)) NoOob).
      { intros v. unfold set_profile. apply h_wr_dst; [lia|rewrite lenZ_be_bytes; lia|].
        intros dd1 _ HCI X1. rewrite RtpSpecProofs.slice_splice_above.
        - exact (CI_LF _ _ HCI X1).
        - pose proof (lenZ_be_bytes 2 (Z.to_N v)) as LB. unfold lenZ in LB. lia. }
      hif; [apply SPF|]. hif; [apply SPF|].
      apply h_ret. intros w. apply inv_weaken. intros dd1 _. apply CI_LF.
    - assert (shuf = false) as -> by (subst shuf; reflexivity). subst KA.
      apply h_ret. intros w. apply inv_weaken. intros dd1 _. apply CI_LF. }
  (* RFC 6904 on the output *)
  hseq Kany.
  { destruct (k_xtn_c k) as [xk|] eqn:EK; [|hany].
    destruct (hdr_x pkt0 =? 1) eqn:EX; [|hany]. apply Z.eqb_eq in EX.
    apply h_process_xtn_lf; [intros dd1 _ HLF; exact (HLF EX)|].
    destruct inuse eqn:EI.
    - specialize (XF eq_refl). lia.
    - specialize (SH0 ltac:(subst shuf; reflexivity)). rewrite (ES3 eq_refl EX) in E2. lia. }
  hseq Kany. { apply h_check_direction; hs. }
  eapply h_bind; [apply h_materialize; hs|intros r].
  eapply h_bind; [apply h_get_stream|intros st2]. apply h_pure; intros Hst2.
  hseq Kany.
  { hif; apply h_put_stream; [apply (SP_commit SP SPc)|apply (SP_upd SP SPc); apply (SP_upd SP SPc)]; exact Hst2. }
  hkeep.
Qed.
End AEAD_RTP.

(* ===================================================================== *)
(* C10 / C11 for srtp_protect with a GCM key                              *)
(* ===================================================================== *)
Lemma hoare_run {A} (P : world -> Prop) (m : M A) Q E w w' a :
  hoare P m Q E -> P w -> m w = (w', inl a) -> Q a w'.
Proof. intros H HP Em. specialize (H w HP). rewrite Em in H. exact H. Qed.

(* Premises as for protect_no_oob.  The tag length of the GCM key is known from session_wf
   (akey_wf: 0 <= ak_tag <= SRTP_MAX_TAG_LEN), no extra hypothesis. *)
Theorem protect_aead_no_oob w i :
  b_oob (w_b w) = false -> size_ok (b_len (w_b w)) ->
  b_cap (w_b w) <= lenZ (b_dst (w_b w)) ->
  (b_alias (w_b w) = true -> b_len (w_b w) <= lenZ (b_dst (w_b w))) ->
  (b_alias (w_b w) = false -> b_len (w_b w) <= lenZ (b_src (w_b w))) ->
  session_wf (w_s w) ->
  b_oob (w_b (fst (protect_aead i w))) = false.
Proof.
  intros HO HL HD HA HS HW.
  eapply hoare_noob;
    [apply (protect_aead_full stream_wf stream_wf_cfg (fun st h => h) _ _ _ _ _ HL HD HA HS w _ eq_refl i)
    | |split; [apply inv_init; assumption|reflexivity]].
  intros a w' [H _]. exact (inv_noob _ _ _ _ _ _ _ _ H).
Qed.
Print Assumptions protect_aead_no_oob.

(* the length contract: input length + tag + MKI, never more than *out_len.  The stream and
   the key are those a direct recomputation from the initial session yields (LengthProofs.v).
   The buffer premises say that the blocks really hold b_len resp. b_cap octets: the output
   length of the GCM cipher is the length of what was read from the input. *)
Theorem protect_aead_length w0 i w' l :
  b_oob (w_b w0) = false -> size_ok (b_len (w_b w0)) ->
  b_cap (w_b w0) <= lenZ (b_dst (w_b w0)) ->
  (b_alias (w_b w0) = true -> b_len (w_b w0) <= lenZ (b_dst (w_b w0))) ->
  (b_alias (w_b w0) = false -> b_len (w_b w0) <= lenZ (b_src (w_b w0))) ->
  session_wf (w_s w0) ->
  protect_aead i w0 = (w', inl l) ->
  exists st k, pkt_stream (w_s w0) (hdr_ssrc (take (zn (b_len (w_b w0))) (cur_src (w_b w0)))) = Some st /\
               sender_key st i = Some k /\
               l = b_len (w_b w0) + ak_tag (k_rtp_a k) + s_mki_size st /\ l <= b_cap (w_b w0).
Proof.
  intros HO HL HD HA HS HW E.
  pose proof (hoare_run _ _ _ _ _ _ _
    (protect_aead_full stream_wf stream_wf_cfg (fun st h => h) _ _ _ _ _ HL HD HA HS w0 _ eq_refl i)
    (conj (inv_init stream_wf w0 HW HO) eq_refl) E) as [_ (st & k & H1 & H2 & H3 & H4 & H5)].
  exists st, k. unfold cur_src. repeat split; try assumption. lia.
Qed.
Print Assumptions protect_aead_length.

(* "small buffer refused", for every world: only the prefix up to the capacity test matters *)
Lemma h_const {A} (P : world -> Prop) (m : M A) (F : Prop) : F -> hoare P m (fun _ _ => F) TT.
Proof. intros HF w _. destruct (m w) as [w' [a|s]]; [exact HF|exact I]. Qed.

Section AEAD_SMALL.
Variable w0 : world.
Let L := b_len (w_b w0).
Let C := b_cap (w_b w0).
Let pkt := take (zn L) (cur_src (w_b w0)).
Let ssrc := hdr_ssrc pkt.

Lemma protect_aead_cap_h i :
  hoare (eq w0) (protect_aead i)
    (fun _ _ => exists st k, pkt_stream (w_s w0) ssrc = Some st /\ sender_key st i = Some k /\
                 L + ak_tag (k_rtp_a k) + s_mki_size st <= C) TT.
Proof.
  unfold protect_aead.
  eapply h_bind; [apply h_get_b_eq|intros b]. apply h_pure; intros ->.
  cbv beta zeta. fold L C pkt ssrc.
  eapply h_bind; [apply h_check_stP|intros ?]. apply h_pure; intros _.
  eapply h_bind; [apply lookup_or_clone_Sx|intros r]. apply h_pure; intros ->.
  apply h_ex; intros st0. apply h_pure; intros Hst0.
  eapply h_bind; [apply check_direction_Sx|intros ?].
  eapply h_bind; [apply get_stream_Sx|intros st]. apply h_pure; intros Hc.
  eapply h_bind; [apply (h_sbP _ _ _ (sb_keys_by_index st i) (r_keys_by_index st i) (Sx_sess_only ssrc st0))|intros [ki k]].
  apply h_pure; cbn [snd]; intros Hk.
  eapply h_bind; [apply charge_key_Sx|intros ?].
  destruct (C <? L + ak_tag (k_rtp_a k) + s_mki_size st) eqn:E1; [apply h_bind_exit; apply tt_any|]. apply h_bind_ret.
  apply Z.ltb_ge in E1. apply h_const.
  exists st0, k. pose proof Hc as (_ & M & _ & _). rewrite M in *.
  split; [exact Hst0|]. split; [exact (cfg_sender_key _ _ _ _ Hc Hk)|exact E1].
Qed.

Theorem protect_aead_small_buffer_refused i st k :
  pkt_stream (w_s w0) ssrc = Some st -> sender_key st i = Some k ->
  C < L + ak_tag (k_rtp_a k) + s_mki_size st ->
  forall w' l, protect_aead i w0 <> (w', inl l).
Proof.
  intros H1 H2 HS w' l E.
  destruct (hoare_run _ _ _ _ _ _ _ (protect_aead_cap_h i) eq_refl E) as (st' & k' & G1 & G2 & G3).
  rewrite H1 in G1. injection G1 as <-. rewrite H2 in G2. injection G2 as <-. lia.
Qed.
End AEAD_SMALL.
Print Assumptions protect_aead_small_buffer_refused.

(* ===================================================================== *)
(* C10 for srtp_unprotect with a GCM key                                  *)
(* ===================================================================== *)
(* Same premises as unprotect_no_oob, no condition on cryptex or RFC 6904.  (The statement was
   refuted twice for earlier versions of srtp_unprotect_aead; the two witnesses are kept below
   as regression statements.) *)
Theorem unprotect_aead_no_oob w :
  b_oob (w_b w) = false -> size_ok (b_len (w_b w)) -> size_ok (b_cap (w_b w)) ->
  b_cap (w_b w) <= lenZ (b_dst (w_b w)) ->
  (b_alias (w_b w) = true -> b_len (w_b w) <= lenZ (b_dst (w_b w))) ->
  (b_alias (w_b w) = false -> b_len (w_b w) <= lenZ (b_src (w_b w))) ->
  session_wf (w_s w) ->
  b_oob (w_b (fst (unprotect_aead w))) = false.
Proof.
  intros HO HL HC HD HA HS HW.
  eapply hoare_noob;
    [apply (unprotect_aead_safe stream_wf stream_wf_cfg (fun st h => h) _ _ _ _ _ HL HC HD HA HS _ eq_refl)
    | |apply inv_init; assumption].
  intros a w' H. exact (inv_noob _ _ _ _ _ _ _ _ H).
Qed.
Print Assumptions unprotect_aead_no_oob.

(* ===================================================================== *)
(* witnesses                                                              *)
(* ===================================================================== *)
(* One stream (SSRC CAFEBABE): AES-GCM-128 with a 16-octet tag, cryptex enabled, RFC 6904
   header-extension encryption configured for id 1 (an AES-ICM-128 extension cipher), no MKI. *)
Module AeadWitness.
Definition gkey : ckey := cipher_key SRTP_AES_GCM_128_c 28 (map N.of_nat (seq 1 28)).
Definition xkey : ckey := cipher_key SRTP_AES_ICM_128_c 30 (map N.of_nat (seq 50 30)).
Definition akey0 : akey := {| ak_kind := SRTP_NULL_AUTH_c; ak_key := []; ak_klen := 0; ak_tag := 16; ak_prefix := 16 |}.
Definition keys0 : skeys :=
  {| k_rtp_c := gkey; k_rtp_a := akey0; k_xtn_c := Some xkey; k_rtcp_c := gkey; k_rtcp_a := akey0;
     k_salt := map N.of_nat (seq 17 12); k_csalt := map N.of_nat (seq 17 12); k_mki := [] |}.
Definition ssrc0 : Z := 3405691582.
Definition strm : stream :=
  {| s_ssrc := ssrc0; s_clone := false; s_keys := [keys0];
     s_limits := [{| num_left := 281474976710655; kst := KNormal |}];
     s_rdbx := {| index := 0; wlen := 128; mask := 0%N |}; s_rdb := rdb_init;
     s_pending_roc := 0; s_dir := 0; s_rtp_serv := 3; s_rtcp_serv := 3;
     s_use_mki := false; s_mki_size := 0; s_allow_repeat := false; s_cryptex := true;
     s_enc_xtn := [1%N] |}.
Definition sess0 : session := {| ss_template := None; ss_list := [strm]; ss_cap := 1 |}.

(* (1) the witness against the library before the fix "srtp_unprotect_aead restores the cryptex
   layout before RFC 6904 processing": V=2 X=1 CC=1, seq 0x1234, SSRC CAFEBABE, CSRC BEDE0040,
   extension BEDE of one word (id 1 len 3), five octets of payload; protected and unprotected
   in place in a 96-octet block *)
Definition pkt : bytes :=
  [145;96;18;52; 0;0;0;9; 202;254;186;190; 190;222;0;64; 190;222;0;1; 18;170;187;204; 1;2;3;4;5]%N.
Definition inpl (p : bytes) : bufs :=
  {| b_src := []; b_dst := p ++ repeat 170%N (96 - length p); b_alias := true; b_len := lenZ p; b_cap := 96; b_oob := false |}.
Definition sender : world := Witness.mkw sess0 (inpl pkt).
Definition wire : bytes :=
  [145;96;18;52; 0;0;0;9; 202;254;186;190; 4;79;6;116; 192;222;0;1; 171;161;254;86; 33;99;19;0;140;
   85;245;228;14;201;166;110;105;84;165;98;89;111;202;251;5]%N.
Definition receiver : world := Witness.mkw sess0 (inpl wire).

(* (2) an authentic packet whose extension header announces more than the packet holds:
   12-octet header (X=1, CC=0), extension header C0 DE 00 04 (cryptex profile, four words of
   extension data), NO further plaintext, and the 16-octet GCM tag of the empty plaintext with
   these 16 octets as AAD (made with the session key: gcm_encrypt below).  len = 32,
   len - tag = 16 = *out_len; the "extension data" [16,32) are the tag.  Witness against the
   library before the fix "srtp_unprotect_aead checks that the whole cryptex extension fits". *)
Definition hdr2 : bytes := [144;96;18;52; 0;0;0;9; 202;254;186;190; 192;222;0;4]%N.
Definition tag2 : bytes := [240;8;78;151;82;226;247;217;95;225;215;139;74;182;199;55]%N.
Definition wire2 : bytes := hdr2 ++ tag2.
Definition receiver2_out_of_place : world := Witness.mkw sess0
  {| b_src := wire2; b_dst := repeat 0%N 16; b_alias := false; b_len := 32; b_cap := 16; b_oob := false |}.
Definition receiver2_in_place : world := Witness.mkw sess0
  {| b_src := []; b_dst := wire2; b_alias := true; b_len := 32; b_cap := 16; b_oob := false |}.

Lemma sess0_wf : session_wf sess0.
Proof.
  split; [intros t E; discriminate|]. constructor; [|constructor].
  unfold stream_wf. cbn [strm s_mki_size s_use_mki s_keys]. split; [rewrite max_mki_value; lia|].
  split; [reflexivity|]. constructor; [|constructor].
  unfold key_wf, akey_wf. cbn. rewrite max_tag_value. repeat split; try lia; reflexivity.
Qed.
End AeadWitness.

Example aead_wire_is_protected :
  snd (protect_aead 0 AeadWitness.sender) = inl 45 /\
  take 45 (b_dst (w_b (fst (protect_aead 0 AeadWitness.sender)))) = AeadWitness.wire /\
  b_oob (w_b (fst (protect_aead 0 AeadWitness.sender))) = false.
Proof. vm_compute. repeat split. Qed.

(* regression: the old witness is now unprotected without any out-of-bounds access, and gives
   the sender's packet back *)
Theorem unprotect_aead_old_witness_safe :
  bufs_ok AeadWitness.receiver /\ session_wf (w_s AeadWitness.receiver) /\
  snd (unprotect_aead AeadWitness.receiver) = inl 29 /\
  b_oob (w_b (fst (unprotect_aead AeadWitness.receiver))) = false /\
  take 29 (b_dst (w_b (fst (unprotect_aead AeadWitness.receiver)))) = AeadWitness.pkt.
Proof.
  split.
  { unfold bufs_ok, size_ok. cbn. repeat split; try lia; try discriminate; intros; lia. }
  split; [exact AeadWitness.sess0_wf|]. repeat split; vm_compute; reflexivity.
Qed.

(* regression: the second witness (against the version that walked the extension on the restored
   header without checking that the whole extension fits the decrypted packet).  The packet is
   authentic ... *)
Example aead_wire2_is_authentic :
  AeadWitness.tag2 = snd (gcm_encrypt (ck_rks AeadWitness.gkey)
                            (aead_rtp_iv (k_salt AeadWitness.keys0) AeadWitness.ssrc0 4660) AeadWitness.hdr2 [] 16).
Proof. vm_compute. reflexivity. Qed.

(* ... and is now refused with parse_err before anything is written: no out-of-bounds access,
   destination and session untouched, in both alias modes *)
Theorem unprotect_aead_overlong_extension_refused :
  (bufs_ok AeadWitness.receiver2_out_of_place /\ session_wf (w_s AeadWitness.receiver2_out_of_place) /\
   snd (unprotect_aead AeadWitness.receiver2_out_of_place) = inr st_parse_err /\
   b_oob (w_b (fst (unprotect_aead AeadWitness.receiver2_out_of_place))) = false /\
   b_dst (w_b (fst (unprotect_aead AeadWitness.receiver2_out_of_place))) = b_dst (w_b AeadWitness.receiver2_out_of_place) /\
   w_s (fst (unprotect_aead AeadWitness.receiver2_out_of_place)) = w_s AeadWitness.receiver2_out_of_place) /\
  (bufs_ok AeadWitness.receiver2_in_place /\ session_wf (w_s AeadWitness.receiver2_in_place) /\
   snd (unprotect_aead AeadWitness.receiver2_in_place) = inr st_parse_err /\
   b_oob (w_b (fst (unprotect_aead AeadWitness.receiver2_in_place))) = false /\
   b_dst (w_b (fst (unprotect_aead AeadWitness.receiver2_in_place))) = b_dst (w_b AeadWitness.receiver2_in_place) /\
   w_s (fst (unprotect_aead AeadWitness.receiver2_in_place)) = w_s AeadWitness.receiver2_in_place).
Proof.
  split.
  - split. { unfold bufs_ok, size_ok. cbn. repeat split; try lia; try discriminate; intros; lia. }
    split; [exact AeadWitness.sess0_wf|]. repeat split; vm_compute; reflexivity.
  - split. { unfold bufs_ok, size_ok. cbn. repeat split; try lia; try discriminate; intros; lia. }
    split; [exact AeadWitness.sess0_wf|]. repeat split; vm_compute; reflexivity.
Qed.
Print Assumptions aead_wire_is_protected.
Print Assumptions unprotect_aead_old_witness_safe.
Print Assumptions aead_wire2_is_authentic.
Print Assumptions unprotect_aead_overlong_extension_refused.

(* ===================================================================== *)
(* C11 for srtp_unprotect with a GCM key                                  *)
(* ===================================================================== *)
(* computations that keep the shape of the buffers: lengths, alias mode, b_len *)
Definition shape (b : bufs) : Z * bool * nat * nat := (b_len b, b_alias b, length (b_src b), length (b_dst b)).
Definition shape_pres {A} (m : M A) : Prop := forall w, shape (w_b (fst (m w))) = shape (w_b w).
Lemma shp_ret {A} (a : A) : shape_pres (ret a). Proof. intros w; reflexivity. Qed.
Lemma shp_exit {A} st : shape_pres (@exit_with A st). Proof. intros w; reflexivity. Qed.
Lemma shp_bind {A B} (m : M A) (f : A -> M B) : shape_pres m -> (forall a, shape_pres (f a)) -> shape_pres (bind m f).
Proof.
  intros Hm Hf w. unfold bind. specialize (Hm w). destruct (m w) as [w1 [a|st]]; cbn [fst] in *.
  - rewrite (Hf a w1). exact Hm.
  - exact Hm.
Qed.
Lemma shp_if {A} (c : bool) (m1 m2 : M A) : shape_pres m1 -> shape_pres m2 -> shape_pres (if c then m1 else m2).
Proof. destruct c; auto. Qed.
Lemma shp_rd_src off n : shape_pres (rd_src off n).
Proof. intros w. unfold rd_src, bind, get_b. destruct (_ || _); reflexivity. Qed.
Lemma shp_rd_dst off n : shape_pres (rd_dst off n).
Proof. intros w. unfold rd_dst, bind, get_b. destruct (_ || _); reflexivity. Qed.
Lemma shp_wr_dst off v : shape_pres (wr_dst off v).
Proof. intros w. unfold wr_dst, bind, get_b, put_b, shape. cbn. rewrite splice_length. reflexivity. Qed.
Lemma shp_cryptex_adjust p : shape_pres (cryptex_adjust p).
Proof.
  unfold cryptex_adjust. apply shp_if; [apply shp_ret|].
  apply shp_bind; [apply shp_rd_dst|intros ?]. apply shp_bind; [apply shp_rd_dst|intros ?].
  apply shp_bind; [apply shp_wr_dst|intros ?]. apply shp_wr_dst.
Qed.

Section AEAD_LEN2.
Variable w0 : world.
Let L := b_len (w_b w0).
Let C := b_cap (w_b w0).
Let pkt := take (zn L) (cur_src (w_b w0)).
Let ssrc := hdr_ssrc pkt.
Hypothesis HW : session_wf (w_s w0).
Hypothesis HLs : size_ok L.
Hypothesis HCs : size_ok C.
Hypothesis HSrc : L <= lenZ (cur_src (w_b w0)).

(* the input block still holds L octets *)
Definition Shp (w : world) : Prop := b_len (w_b w) = L /\ L <= lenZ (cur_src (w_b w)).
Lemma h_shape {A} (m : M A) : shape_pres m -> hoare Shp m (fun _ => Shp) TT.
Proof.
  intros Hm w [S1 S2]. specialize (Hm w). destruct (m w) as [w' [a|s]]; [|exact I]. cbn [fst] in Hm.
  unfold shape in Hm. injection Hm as E1 E2 E3 E4. unfold Shp, cur_src, lenZ in *. rewrite E1, E2.
  split; [exact S1|]. destruct (b_alias (w_b w)); [rewrite E4|rewrite E3]; exact S2.
Qed.
Lemma h_rd_src_shp off n :
  0 <= off -> 0 <= n -> off + n <= L ->
  hoare Shp (rd_src off n) (fun d w => lenZ d = n /\ Shp w) TT.
Proof.
  intros H1 H2 H3 w [S1 S2]. unfold rd_src, bind, get_b.
  assert (Hc : (off <? 0) || (n <? 0) || (b_len (w_b w) <? off + n) = false).
  { rewrite S1. rewrite !orb_false_iff, !Z.ltb_ge. lia. }
  rewrite Hc. cbn [ret]. split; [|split; assumption]. apply lenZ_slice_eq; lia.
Qed.

Lemma unprotect_aead_len_h :
  hoare (eq w0) unprotect_aead
    (fun l _ => exists st k, pkt_stream (w_s w0) ssrc = Some st /\
                 receiver_key st (cur_src (w_b w0)) L 0 = Some k /\
                 12 <= L /\ l = L - s_mki_size st - ak_tag (k_rtp_a k) /\ l <= C) TT.
Proof.
  unfold unprotect_aead.
  eapply h_bind; [apply h_get_b_eq|intros b]. apply h_pure; intros ->.
  cbv beta zeta. fold L C pkt ssrc.
  change octets_in_rtp_header_c with 12. change octets_in_rtp_xtn_hdr_c with 4.
  pose proof (hdr_cc_range pkt) as CC. pose proof (hdr_len_eq pkt) as HLn.
  pose proof (xtn_len_ge pkt) as XL. pose proof (hdr_x_range pkt) as XR.
  eapply h_bind; [apply h_check_stP|intros ?]. apply h_pure; intros V.
  apply validate_rtp_ok in V. destruct V as (V1 & V2 & V3).
  assert (X4 : hdr_x pkt = 1 -> hdr_len pkt + 4 <= L) by (intros X; specialize (V3 X); lia).
  apply h_bind with (R := fun ss w => ss = w_s w0 /\ w0 = w); [intros w <-; cbn; exact (conj eq_refl eq_refl)|intros ss]. apply h_pure; intros ->.
  apply h_bind with (R := fun r w => pkt_stream (w_s w0) ssrc = lookup (w_s w0) r /\ w0 = w).
  { unfold pkt_stream. destruct (list_get (ss_list (w_s w0)) ssrc) eqn:E1.
    - apply h_ret. intros w <-. cbn [lookup]. rewrite E1. auto.
    - destruct (ss_template (w_s w0)) eqn:E2; [|apply h_exit; apply tt_any]. apply h_ret. intros w <-. cbn [lookup]. auto. }
  intros r0. apply h_pure; intros Hr0.
  eapply h_bind; [apply h_get_stream_eq|intros st]. apply h_pure; intros Hst. rewrite <- Hr0 in Hst.
  pose proof (pkt_stream_wf _ _ _ HW Hst) as W.
  eapply h_bind.
  { apply h_wp. destruct r0; [apply wp_ret|]. destruct (est_index st (hdr_seq pkt)) as [[es e] d].
    apply wp_bind; [apply wp_if; [apply wp_exit|apply wp_ret]|intros ?].
    apply wp_if; [apply wp_ret|]. apply wp_bind; [apply wp_check_st|intros ?]. apply wp_ret. }
  intros [[est delta] adv].
  eapply h_bind; [apply (h_keys_by_packet_eq w0 st 0 W ltac:(lia))|intros [ki k]].
  apply h_pure; cbn [snd]; intros Hk. fold L in Hk.
  destruct (receiver_key_wf _ _ _ _ _ W Hk) as (_ & [T _] & _). rewrite max_tag_value in T.
  pose proof W as (M & _ & _). rewrite max_mki_value in M.
  unfold size_ok in HLs, HCs.
  (* cryptex in use?  the packet has not been touched so far *)
  apply h_bind with (R := fun (iu : bool) w => (iu = true -> hdr_x pkt = 1) /\ w0 = w).
  { destruct (s_cryptex st && negb (Z.land (s_rtp_serv st) sec_serv_conf_c =? 0) && (hdr_x pkt =? 1)) eqn:EC.
    - apply andb_true_iff in EC. destruct EC as [_ EC2]. apply Z.eqb_eq in EC2. specialize (X4 EC2).
      eapply h_bind; [apply h_rd_src_eq; fold L; lia|intros h]. apply h_pure; intros _.
      apply h_ret. intros w <-. auto.
    - apply h_ret. intros w <-. split; [discriminate|reflexivity]. }
  intros inuse. apply h_pure; intros IU.
  apply h_bind with (R := fun (xl : Z) w => (inuse = true -> xl = xtn_len pkt) /\ w0 = w).
  { destruct inuse; [|apply h_ret; intros w <-; split; [discriminate|reflexivity]].
    specialize (IU eq_refl). specialize (X4 IU).
    eapply h_bind; [apply h_rd_src_eq; fold L; lia|intros h]. apply h_pure; intros ->.
    apply h_ret. intros w <-. split; [|reflexivity]. intros _.
    change (zn 4) with 4%nat. rewrite be16_slice4. unfold xtn_len.
    replace (zn (hdr_len pkt + 2)) with (zn (hdr_len pkt) + 2)%nat by (unfold zn; lia).
    symmetry. change (be16 pkt) with (be16 (take (zn L) (cur_src (w_b w0)))).
    rewrite be16_take by (unfold zn in *; lia). reflexivity. }
  intros xl. apply h_pure; intros XLE.
  match goal with |- context [u64 (L - ak_tag (k_rtp_a k) - s_mki_size st) <? u64 (?e + ?f)] =>
    remember e as es eqn:Hes; remember f as sh eqn:Hsh end.
  assert (ES : 0 <= es /\ 0 <= sh /\ es + sh <= L).
  { subst es sh. destruct inuse.
    - specialize (IU eq_refl). rewrite (XLE eq_refl), IU. cbn [Z.eqb Pos.eqb andb].
      specialize (X4 IU).
      assert (E : u64 (u64 (hdr_len pkt + xtn_len pkt - (xtn_len pkt - 4)) - (if b_alias (w_b w0) then hdr_cc pkt * 4 else 0)) =
                  hdr_len pkt + 4 - (if b_alias (w_b w0) then hdr_cc pkt * 4 else 0)).
      { rewrite (u64_small (hdr_len pkt + xtn_len pkt - (xtn_len pkt - 4))) by lia.
        rewrite u64_small by (destruct (b_alias (w_b w0)); lia). lia. }
      rewrite E. clear E. destruct (b_alias (w_b w0)); lia.
    - cbn [andb]. split; [destruct (hdr_x pkt =? 1); lia|]. split; [lia|].
      destruct (hdr_x pkt =? 1) eqn:EX; [apply Z.eqb_eq in EX; specialize (V3 EX); lia|lia]. }
  destruct ES as (ES1 & ESh & ESL).
  destruct (inuse && negb (inuse && b_alias (w_b w0)) && negb (hdr_cc pkt =? 0)); [apply h_bind_exit; apply tt_any|]. apply h_bind_ret.
  destruct (u64 (L - ak_tag (k_rtp_a k) - s_mki_size st) <? u64 (es + sh)) eqn:E2; [apply h_bind_exit; apply tt_any|]. apply h_bind_ret. apply Z.ltb_ge in E2.
  destruct (inuse && (u64 (L - ak_tag (k_rtp_a k) - s_mki_size st) <? u64 (hdr_len pkt + xl))); [apply h_bind_exit; apply tt_any|]. apply h_bind_ret.
  destruct (u64 (L - es - s_mki_size st) <? ak_tag (k_rtp_a k)) eqn:E2b; [apply h_bind_exit; apply tt_any|]. apply h_bind_ret. apply Z.ltb_ge in E2b.
  destruct (C <? u64 (L - s_mki_size st - ak_tag (k_rtp_a k))) eqn:E3; [apply h_bind_exit; apply tt_any|]. apply h_bind_ret. apply Z.ltb_ge in E3.
  assert (A0 : 0 <= L - s_mki_size st - ak_tag (k_rtp_a k)).
  { destruct (Z_lt_le_dec (L - s_mki_size st - ak_tag (k_rtp_a k)) 0) as [N|]; [|assumption].
    rewrite u64_neg in E3 by lia. lia. }
  rewrite u64_small in E3 by lia. rewrite (u64_small (es + sh)) in E2 by lia. rewrite u64_small in E2 by lia.
  rewrite (u64_small (L - es - s_mki_size st)) in * by lia.
  (* from here on only the shape of the buffers matters *)
  apply h_pre with (P' := Shp). { intros w <-. split; [reflexivity|exact HSrc]. }
  apply h_bind with (R := fun _ => Shp); [|intros ?].
  { apply h_shape. apply shp_if; [apply shp_ret|]. apply shp_bind; [apply shp_rd_src|intros ?]. apply shp_wr_dst. }
  apply h_bind with (R := fun _ => Shp); [|intros ?].
  { apply h_shape. apply shp_if; [apply shp_cryptex_adjust|apply shp_ret]. }
  eapply h_bind; [apply h_rd_src_shp; lia|intros aad]. apply h_pure; intros _.
  eapply h_bind; [apply h_rd_src_shp; lia|intros d]. apply h_pure; intros LD.
  match goal with |- context [gcm_open ?a ?b ?c ?e ?f ?g] => destruct (gcm_open a b c e f g) as [s o] eqn:EG end.
  destruct (gcm_open_length _ _ _ _ _ _ _ _ (proj1 T) EG) as [(-> & LO & _)|(NS & ->)].
  2:{ apply Z.eqb_neq in NS. rewrite NS. cbn [negb]. apply h_bind_exit. apply tt_any. }
  rewrite LD in LO.
  apply h_returns. rwalk.
  all: exists st, k; (split; [exact Hst|]); (split; [exact Hk|]); (split; [exact V1|]);
       rewrite LO; rewrite u64_small by lia; lia.
Qed.

Theorem unprotect_aead_length w' l :
  unprotect_aead w0 = (w', inl l) ->
  exists st k, pkt_stream (w_s w0) ssrc = Some st /\
               receiver_key st (cur_src (w_b w0)) L 0 = Some k /\
               l = L - s_mki_size st - ak_tag (k_rtp_a k) /\ l <= C.
Proof.
  intros E. destruct (hoare_run _ _ _ _ _ _ _ unprotect_aead_len_h eq_refl E) as (st & k & H1 & H2 & _ & H4 & H5).
  exists st, k. auto.
Qed.
End AEAD_LEN2.
Print Assumptions unprotect_aead_length.
