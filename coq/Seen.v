(* Seen.v — the abstract "set of accepted indices" used by the replay proofs. *)
From Coq Require Import ZArith List Bool Lia.
Import ListNotations.
Local Open Scope Z_scope.

Definition seen_t := Z -> Prop.
Definition add_seen (s : seen_t) (i : Z) : seen_t := fun j => s j \/ j = i.

Definition seen_of (l : list Z) (acc : list bool) : seen_t :=
  fun i => exists n, nth_error l n = Some i /\ nth_error acc n = Some true.

Lemma seen_of_nil i : seen_of [] [] i <-> False.
Proof. unfold seen_of. split; [intros [n [H _]]; destruct n; discriminate | tauto]. Qed.

Lemma seen_of_cons_true i t acc k :
  seen_of (i :: t) (true :: acc) k <-> (k = i \/ seen_of t acc k).
Proof.
  unfold seen_of. split.
  - intros [n [H1 H2]]. destruct n as [|n]; cbn in H1, H2.
    + injection H1 as <-. left; reflexivity.
    + right. exists n. split; assumption.
  - intros [->|[n [H1 H2]]]; [exists 0%nat; split; reflexivity | exists (S n); split; assumption].
Qed.

Lemma seen_of_cons_false i t acc k :
  seen_of (i :: t) (false :: acc) k <-> seen_of t acc k.
Proof.
  unfold seen_of. split.
  - intros [n [H1 H2]]. destruct n as [|n]; cbn in H1, H2; [discriminate|].
    exists n. split; assumption.
  - intros [n [H1 H2]]. exists (S n). split; assumption.
Qed.

