(* HmacProofs.v -- the model of hmac.c (HmacModel.v over Sha1Model.v)
   computes RFC 2104 HMAC-SHA1 ([Srtp.Crypto.HMAC.hmac_sha1]) for every key
   of at most 20 octets, every tag length up to 20, every message shorter
   than 2^29 - 64 octets and every chunking of the message into update
   calls.  (Property C18.)

   Main statements:
     hmac_run_spec        generic in C: tag = take tag_len (reference HMAC
                          built from [mblocks C] and [sha1_pad])
     hmac_model_correct   C := sha1_compress, state from hmac_init:
                          tag = take tag_len (hmac_sha1 key msg)
     hmac_keyed_correct   the same for any state reachable from hmac_init by
                          start / update / compute (context re-use) *)

From Coq Require Import NArith ZArith List Arith Bool Lia ZifyBool ZifyN ZifyNat.
From Srtp Require Import Util Sha1Model Sha1Proofs HmacModel.
From Srtp.Crypto Require Import SHA1 HMAC.
Import ListNotations.

Ltac Zify.zify_post_hook ::= Z.div_mod_to_equations.

(* ------------------------------------------------------------------ *)
(* ipad / opad                                                         *)
(* ------------------------------------------------------------------ *)

Lemma hmac_pad_length :
  forall c key, (length key <= 64)%nat -> length (hmac_pad c key) = 64%nat.
Proof.
  intros c key Hk. unfold hmac_pad.
  rewrite app_length, map_length, repeat_length. lia.
Qed.

Lemma map_lxor_zeros :
  forall c n, map (N.lxor c) (repeat 0%N n) = repeat c n.
Proof.
  intros c n. induction n as [|n IHn].
  - reflexivity.
  - cbn [repeat map]. rewrite IHn, N.lxor_0_r. reflexivity.
Qed.

(* The pads of hmac.c are the RFC 2104 pads of the zero-extended key. *)
Lemma hmac_pad_key_block :
  forall c key,
    (length key <= 64)%nat ->
    hmac_pad c key = map (N.lxor c) (hmac_sha1_key_block key).
Proof.
  intros c key Hk. unfold hmac_pad, hmac_sha1_key_block.
  destruct (64 <? length key)%nat eqn:Hlong.
  - apply Nat.ltb_lt in Hlong. lia.
  - rewrite map_app, map_lxor_zeros. f_equal.
    apply map_ext. intros b. apply N.lxor_comm.
Qed.

Section HmacProofs.

Variable C : list N -> list N -> list N.
Hypothesis C_length : forall h b, length (C h b) = 5%nat.

Local Notation sha1m_update := (sha1m_update C).
Local Notation sha1m_final := (sha1m_final C).
Local Notation hmac_init := (hmac_init C).
Local Notation hmac_update := (hmac_update C).
Local Notation hmac_compute := (hmac_compute C).
Local Notation hmac_run := (hmac_run C).

(* init, one update, final -- the digest as octets *)
Definition hash_ref (msg : bytes) : bytes :=
  sha1_words_to_bytes (mblocks C sha1_init (sha1_pad msg)).

(* RFC 2104 over that hash, for a key of at most 64 octets *)
Definition hmac_ref (key msg : bytes) : bytes :=
  hash_ref (hmac_pad 0x5c key ++ hash_ref (hmac_pad 0x36 key ++ msg)).

Lemma mblocks_n_length :
  forall n h data, length h = 5%nat -> length (mblocks_n C n h data) = 5%nat.
Proof.
  induction n as [|n IHn]; intros h data Hh.
  - exact Hh.
  - cbn [mblocks_n]. apply IHn. apply C_length.
Qed.

Lemma hash_ref_length : forall msg, length (hash_ref msg) = 20%nat.
Proof.
  intros msg. unfold hash_ref, mblocks.
  rewrite sha1_words_to_bytes_length, mblocks_n_length; reflexivity.
Qed.

(* One complete hash through the context model, started from an update. *)
Lemma sha1m_hash_two_updates :
  forall a b,
    (N.of_nat (length (a ++ b)) < 2 ^ 29)%N ->
    sha1_words_to_bytes
      (sha1m_final (sha1m_update (sha1m_update sha1m_init a) b)) =
    hash_ref (a ++ b).
Proof.
  intros a b Hlen.
  rewrite sha1m_update_app by exact (sha1m_init_ok).
  rewrite sha1m_final_spec by exact Hlen.
  reflexivity.
Qed.

(* A state that holds the key: what srtp_hmac_init establishes and every
   other operation preserves. *)
Definition hmac_keyed (key : bytes) (st : hmacctx) : Prop :=
  hm_opad st = hmac_pad 0x5c key /\
  hm_init_ctx st = sha1m_update sha1m_init (hmac_pad 0x36 key).

Lemma hmac_init_some :
  forall key,
    (length key <= 20)%nat ->
    exists st, hmac_init key = Some st /\ hmac_keyed key st.
Proof.
  clear C_length.
  intros key Hk. unfold HmacModel.hmac_init.
  destruct (20 <? length key)%nat eqn:Hlong.
  - apply Nat.ltb_lt in Hlong. lia.
  - eexists. split; [reflexivity|]. split; reflexivity.
Qed.

Lemma hmac_init_long_key :
  forall key, (20 < length key)%nat -> hmac_init key = None.
Proof.
  intros key Hk. unfold HmacModel.hmac_init.
  apply Nat.ltb_lt in Hk. rewrite Hk. reflexivity.
Qed.

Lemma hmac_compute_long_tag :
  forall st msg tag_len, (20 < tag_len)%nat -> hmac_compute st msg tag_len = None.
Proof.
  intros st msg tag_len Ht. unfold HmacModel.hmac_compute.
  apply Nat.ltb_lt in Ht. rewrite Ht. reflexivity.
Qed.

Lemma hmac_start_keyed :
  forall key st, hmac_keyed key st -> hmac_keyed key (hmac_start st).
Proof. intros key st Hkeyed. exact Hkeyed. Qed.

Lemma hmac_update_keyed :
  forall key st msg, hmac_keyed key st -> hmac_keyed key (hmac_update st msg).
Proof. intros key st msg Hkeyed. exact Hkeyed. Qed.

Lemma hmac_compute_keyed :
  forall key st msg tag_len st' tag,
    hmac_keyed key st ->
    hmac_compute st msg tag_len = Some (st', tag) ->
    hmac_keyed key st'.
Proof.
  intros key st msg tag_len st' tag Hkeyed Hc.
  unfold HmacModel.hmac_compute in Hc.
  destruct (20 <? tag_len)%nat eqn:Hlong; [discriminate|].
  injection Hc as Hst' _. subst st'. exact Hkeyed.
Qed.

(* The updates act on hm_ctx only. *)
Lemma hmac_updates_ctx :
  forall chunks st,
    hm_ctx (fold_left hmac_update chunks st) =
    fold_left sha1m_update chunks (hm_ctx st).
Proof.
  induction chunks as [|x chunks IHchunks]; intros st.
  - reflexivity.
  - cbn [fold_left]. rewrite IHchunks. reflexivity.
Qed.

Lemma hmac_updates_opad :
  forall chunks st, hm_opad (fold_left hmac_update chunks st) = hm_opad st.
Proof.
  induction chunks as [|x chunks IHchunks]; intros st.
  - reflexivity.
  - cbn [fold_left]. rewrite IHchunks. reflexivity.
Qed.

(* start, updates, compute on a keyed state: RFC 2104 over the model hash *)
Theorem hmac_run_spec :
  forall key st chunks last tag_len,
    (length key <= 20)%nat ->
    (tag_len <= 20)%nat ->
    (N.of_nat (length (concat chunks ++ last)) < 2 ^ 29 - 64)%N ->
    hmac_keyed key st ->
    hmac_run st chunks last tag_len =
    Some (take tag_len (hmac_ref key (concat chunks ++ last))).
Proof.
  intros key st chunks last tag_len Hkey Htag Hlen [Hopad Hinit].
  change (2 ^ 29 - 64)%N with 536870848%N in Hlen.
  unfold HmacModel.hmac_run, HmacModel.hmac_compute.
  destruct (20 <? tag_len)%nat eqn:Hlong.
  { apply Nat.ltb_lt in Hlong. lia. }
  cbn [option_map snd]. f_equal. f_equal.
  rewrite hmac_updates_ctx, hmac_updates_opad.
  cbn [HmacModel.hmac_start hm_ctx hm_opad].
  rewrite Hopad, Hinit.
  assert (Hipad : length (hmac_pad 0x36 key) = 64%nat)
    by (apply hmac_pad_length; lia).
  assert (Hopadlen : length (hmac_pad 0x5c key) = 64%nat)
    by (apply hmac_pad_length; lia).
  rewrite sha1m_update_chunks_from by exact sha1m_init_ok.
  (* outer hash: opad ++ 20 octets; the rewrite leaves the inner one *)
  rewrite (sha1m_hash_two_updates (hmac_pad 0x5c key)).
  2:{ change (2 ^ 29)%N with 536870912%N.
      rewrite app_length, Hopadlen, sha1_words_to_bytes_length.
      rewrite sha1m_final_length by exact C_length. lia. }
  (* inner hash: ipad ++ message *)
  rewrite sha1m_hash_two_updates.
  2:{ change (2 ^ 29)%N with 536870912%N.
      rewrite app_length in Hlen. repeat rewrite app_length. rewrite Hipad.
      lia. }
  rewrite <- app_assoc.
  reflexivity.
Qed.

End HmacProofs.

Print Assumptions hmac_run_spec.

(* ------------------------------------------------------------------ *)
(* Instance: C := sha1_compress                                        *)
(* ------------------------------------------------------------------ *)

Lemma hash_ref_sha1 : forall msg, hash_ref sha1_compress msg = sha1 msg.
Proof.
  intros msg. unfold hash_ref, sha1. rewrite mblocks_sha1. reflexivity.
Qed.

Lemma hmac_ref_sha1 :
  forall key msg,
    (length key <= 64)%nat ->
    hmac_ref sha1_compress key msg = hmac_sha1 key msg.
Proof.
  intros key msg Hk. unfold hmac_ref, hmac_sha1.
  rewrite !hash_ref_sha1, !hmac_pad_key_block by exact Hk.
  reflexivity.
Qed.

(* Any state that holds [key] (after hmac_init, and after any further
   start / update / compute calls): start, update*, compute gives the
   RFC 2104 tag. *)
Theorem hmac_keyed_correct :
  forall key st chunks last tag_len,
    (length key <= 20)%nat ->
    (tag_len <= 20)%nat ->
    (N.of_nat (length (concat chunks ++ last)) < 2 ^ 29 - 64)%N ->
    hmac_keyed sha1_compress key st ->
    hmac_run sha1_compress st chunks last tag_len =
    Some (take tag_len (hmac_sha1 key (concat chunks ++ last))).
Proof.
  intros key st chunks last tag_len Hkey Htag Hlen Hkeyed.
  rewrite (hmac_run_spec sha1_compress sha1_compress_length key)
    by assumption.
  rewrite hmac_ref_sha1 by lia. reflexivity.
Qed.

(* Property C18: srtp_hmac_init with a key of at most 20 octets succeeds,
   and start / any updates / compute returns the first tag_len octets of
   HMAC-SHA1(key, message) per RFC 2104 / FIPS 180-4. *)
Theorem hmac_model_correct :
  forall key chunks last tag_len,
    (length key <= 20)%nat ->
    (tag_len <= 20)%nat ->
    (N.of_nat (length (concat chunks ++ last)) < 2 ^ 29 - 64)%N ->
    exists st,
      hmac_init sha1_compress key = Some st /\
      option_map snd
        (hmac_compute sha1_compress
           (fold_left (hmac_update sha1_compress) chunks
                      (hmac_start st))
           last tag_len) =
      Some (take tag_len (hmac_sha1 key (concat chunks ++ last))).
Proof.
  intros key chunks last tag_len Hkey Htag Hlen.
  destruct (hmac_init_some sha1_compress key Hkey) as [st [Hinit Hkeyed]].
  exists st. split; [exact Hinit|].
  apply (hmac_keyed_correct key st chunks last tag_len Hkey Htag Hlen Hkeyed).
Qed.

Print Assumptions hmac_keyed_correct.
Print Assumptions hmac_model_correct.

(* hmac_init leaves ctx = init_ctx, so the first use does not even need
   srtp_hmac_start (srtp_hmac_init does the memcpy itself). *)
Lemma hmac_init_started :
  forall key st,
    hmac_init sha1_compress key = Some st -> hmac_start st = st.
Proof.
  intros key st Hinit. unfold hmac_init in Hinit.
  destruct (20 <? length key)%nat eqn:Hlong; [discriminate|].
  injection Hinit as Hst. subst st. reflexivity.
Qed.

(* Context re-use: the state left by compute still holds the key, so the
   next start / update* / compute is correct again. *)
Theorem hmac_reuse_correct :
  forall key st msg0 tag_len0 st' tag0 chunks last tag_len,
    (length key <= 20)%nat ->
    (tag_len <= 20)%nat ->
    (N.of_nat (length (concat chunks ++ last)) < 2 ^ 29 - 64)%N ->
    hmac_keyed sha1_compress key st ->
    hmac_compute sha1_compress st msg0 tag_len0 = Some (st', tag0) ->
    hmac_run sha1_compress st' chunks last tag_len =
    Some (take tag_len (hmac_sha1 key (concat chunks ++ last))).
Proof.
  intros key st msg0 tag_len0 st' tag0 chunks last tag_len
         Hkey Htag Hlen Hkeyed Hc.
  apply hmac_keyed_correct; try assumption.
  apply (hmac_compute_keyed sha1_compress key st msg0 tag_len0 st' tag0);
    assumption.
Qed.

Print Assumptions hmac_reuse_correct.

(* ------------------------------------------------------------------ *)
(* Non-vacuity                                                         *)
(* ------------------------------------------------------------------ *)

Definition hmac_model_tag (key : bytes) (chunks : list bytes) (last : bytes)
           (tag_len : nat) : option bytes :=
  match hmac_init sha1_compress key with
  | None => None
  | Some st => hmac_run sha1_compress st chunks last tag_len
  end.

(* RFC 2202 test case 1 (the libsrtp self-test srtp_hmac_test_case_0):
   key = 0x0b * 20, data = "Hi There", split over two updates + compute *)
Example hmac_model_rfc2202_1 :
  hmac_model_tag (repeat 0x0b%N 20)
                 [[0x48;0x69;0x20]%N; [0x54;0x68]%N] [0x65;0x72;0x65]%N 20 =
  Some [0xb6;0x17;0x31;0x86;0x55;0x05;0x72;0x64;0xe2;0x8b;
        0xc0;0xb6;0xfb;0x37;0x8c;0x8e;0xf1;0x46;0xbe;0x00]%N.
Proof. vm_compute. reflexivity. Qed.

(* RFC 2202 test case 2, key "Jefe", 10-octet tag (SRTP default) *)
Example hmac_model_rfc2202_2 :
  hmac_model_tag [0x4a;0x65;0x66;0x65]%N []
    [0x77;0x68;0x61;0x74;0x20;0x64;0x6f;0x20;0x79;0x61;0x20;0x77;0x61;0x6e;
     0x74;0x20;0x66;0x6f;0x72;0x20;0x6e;0x6f;0x74;0x68;0x69;0x6e;0x67;0x3f]%N
    10 =
  Some [0xef;0xfc;0xdf;0x6a;0xe5;0xeb;0x2f;0xa2;0xd2;0x74]%N.
Proof. vm_compute. reflexivity. Qed.

Definition hmac_ok (key : bytes) (n : nat) (sizes : list nat) (tag_len : nat)
  : bool :=
  let parts := chop sizes (test_msg n) in
  match hmac_model_tag key (removelast parts) (last parts []) tag_len with
  | Some tag => beqb tag (take tag_len (hmac_sha1 key (test_msg n)))
  | None => false
  end.

(* message lengths for which the inner hash (64 + n octets) ends in every
   padding case, odd chunkings, key lengths 0, 1, 16, 20, tag lengths 0..20 *)
Example hmac_model_examples :
  forallb (fun key =>
    forallb (fun n => hmac_ok key n [1; 0; 7; 13; 33; 3; 61] 10
                      && hmac_ok key n [] 20)
            [0; 1; 55; 56; 63; 64; 119; 120; 127; 128]%nat)
    [[]; [0xff%N]; test_msg 16; test_msg 20] = true.
Proof. vm_compute. reflexivity. Qed.

Example hmac_model_tag_lengths :
  forallb (fun t => hmac_ok (test_msg 20) 100 [5; 59; 1] t) (seq 0 21) = true.
Proof. vm_compute. reflexivity. Qed.

(* the error returns *)
Example hmac_model_key_21 : hmac_model_tag (test_msg 21) [] [] 10 = None.
Proof. vm_compute. reflexivity. Qed.

Example hmac_model_tag_21 : hmac_model_tag (test_msg 20) [] [] 21 = None.
Proof. vm_compute. reflexivity. Qed.
