(* IvProofs.v — C08: IV formation is injective in (SSRC, index); the sender never
   uses a packet index twice; the SRTCP index is strictly increasing and bounded. *)
From Coq Require Import NArith ZArith List Bool Lia ZifyBool ZifyN.
From Srtp Require Import Util Constants Rdb Rdbx Seen IndexProofs RdbProofs RdbxProofs Icm World Rtp Rtcp.
Import ListNotations.
Local Open Scope Z_scope.
Ltac Zify.zify_post_hook ::= Z.div_mod_to_equations.

(* ---- big-endian encoding is injective on its range ---- *)
Lemma be_val_app a b : be_val (a ++ [b]) = (be_val a * 256 + b)%N.
Proof.
  induction a as [|x a IH]; cbn [be_val app length].
  - cbn. lia.
  - rewrite IH. rewrite app_length. cbn [length].
    replace (N.of_nat (length a + 1)) with (N.succ (N.of_nat (length a))) by lia.
    rewrite N.pow_succ_r'. lia.
Qed.

Lemma be_val_be_bytes n x : be_val (be_bytes n x) = (x mod 256 ^ N.of_nat n)%N.
Proof.
  revert x. induction n as [|n IH]; intros x.
  - cbn. rewrite N.mod_1_r. reflexivity.
  - rewrite be_bytes_S, be_val_app, IH.
    replace (N.of_nat (S n)) with (N.succ (N.of_nat n)) by lia.
    rewrite N.pow_succ_r'.
    change 255%N with (N.ones 8). rewrite N.land_ones. rewrite N.shiftr_div_pow2.
    change (2 ^ 8)%N with 256%N.
    set (p := (256 ^ N.of_nat n)%N). assert (Hp : (0 < p)%N) by (subst p; apply N.neq_0_lt_0, N.pow_nonzero; discriminate).
    (* x mod (256*p) = ((x/256) mod p) * 256 + x mod 256 *)
    rewrite N.mod_mul_r by lia. lia.
Qed.

Lemma be_bytes_inj n x y :
  (x < 256 ^ N.of_nat n)%N -> (y < 256 ^ N.of_nat n)%N -> be_bytes n x = be_bytes n y -> x = y.
Proof.
  intros Hx Hy E. apply (f_equal be_val) in E. rewrite !be_val_be_bytes in E.
  rewrite !N.mod_small in E by assumption. exact E.
Qed.

Lemma app_inj_len {A} (a b c d : list A) : length a = length c -> a ++ b = c ++ d -> a = c /\ b = d.
Proof.
  revert c. induction a as [|x a IH]; intros [|y c] L E; cbn in L; try discriminate.
  - split; [reflexivity|exact E].
  - cbn in E. injection E as -> E. destruct (IH c ltac:(lia) E) as [-> ->]. split; reflexivity.
Qed.

(* ---- SRTP IV (RFC 3711 4.1.1 as the code forms it) ---- *)
Lemma rtp_iv_inj alg s1 e1 s2 e2 :
  is_icm_alg alg = true ->
  0 <= s1 < 2 ^ 32 -> 0 <= s2 < 2 ^ 32 -> 0 <= e1 < 2 ^ 48 -> 0 <= e2 < 2 ^ 48 ->
  rtp_iv alg s1 e1 = rtp_iv alg s2 e2 -> s1 = s2 /\ e1 = e2.
Proof.
  intros Ha H1 H2 H3 H4 E. unfold rtp_iv in E. rewrite Ha in E.
  apply app_inj_len in E; [|reflexivity]. destruct E as [_ E].
  apply app_inj_len in E; [|rewrite !be_bytes_length; reflexivity]. destruct E as [Es Ee].
  change (2 ^ 32) with 4294967296 in *. change (2 ^ 48) with 281474976710656 in *.
  apply be_bytes_inj in Es; [|cbn; lia|cbn; lia].
  unfold be64 in Ee. apply be_bytes_inj in Ee.
  - unfold u64 in Ee. split; lia.
  - unfold u64. cbn. lia.
  - unfold u64. cbn. lia.
Qed.

(* ---- SRTCP IV ---- *)
Lemma rtcp_iv_inj alg s1 q1 s2 q2 :
  is_icm_alg alg = true ->
  0 <= s1 < 2 ^ 32 -> 0 <= s2 < 2 ^ 32 -> 0 <= q1 < 2 ^ 31 -> 0 <= q2 < 2 ^ 31 ->
  rtcp_iv alg s1 q1 = rtcp_iv alg s2 q2 -> s1 = s2 /\ q1 = q2.
Proof.
  intros Ha H1 H2 H3 H4 E. unfold rtcp_iv in E. rewrite Ha in E.
  apply app_inj_len in E; [|reflexivity]. destruct E as [_ E].
  apply app_inj_len in E; [|rewrite !be_bytes_length; reflexivity]. destruct E as [Es E].
  apply app_inj_len in E; [|rewrite !be_bytes_length; reflexivity]. destruct E as [Eh El].
  change (2 ^ 32) with 4294967296 in *. change (2 ^ 31) with 2147483648 in *.
  apply be_bytes_inj in Es; [|cbn; lia|cbn; lia].
  apply be_bytes_inj in Eh; [|unfold u32; cbn; lia|unfold u32; cbn; lia].
  apply be_bytes_inj in El; [|unfold u32; cbn; lia|unfold u32; cbn; lia].
  unfold u32 in *. split; lia.
Qed.

(* the counter block the cipher starts from is the IV xor a per-key constant: injective in the IV *)
Lemma xor_offset_inj off iv1 iv2 :
  length iv1 = length off -> length iv2 = length off ->
  xor_bytes off iv1 = xor_bytes off iv2 -> iv1 = iv2.
Proof.
  revert iv1 iv2. induction off as [|o off IH]; intros [|a iv1] [|b iv2] L1 L2 E; cbn in *; try discriminate; try reflexivity.
  injection E as E1 E2. f_equal.
  - apply (f_equal (N.lxor o)) in E1. rewrite <- !N.lxor_assoc, N.lxor_nilpotent, !N.lxor_0_l in E1. exact E1.
  - apply IH; [lia|lia|exact E2].
Qed.

(* ---- the sender never reuses an index (no allow_repeat_tx, no imposed ROC) ---- *)
(* srtp_protect's index handling: estimate from the sequence number, replay check, add *)
Definition tx_step (r : rdbx) (seq : Z) : rdbx * option Z :=
  let '(e, d) := estimate r seq in
  if rdbx_check r d =? st_ok then (rdbx_add r d, Some e) else (r, None).

Lemma tx_step_rx r seen seq :
  Inv r seen -> 0 <= seq < 2 ^ 16 ->
  let e := fst (estimate r seq) in
  tx_step r seq = (fst (rdbx_rx r e), if snd (rdbx_rx r e) then Some e else None) /\ 0 <= e < 2 ^ 48.
Proof.
  intros I Hs e. subst e.
  pose proof (estimate_delta r seq (inv_idx _ _ I) Hs) as ED.
  unfold tx_step, rdbx_rx. destruct (estimate r seq) as [e d] eqn:EE. cbn [fst].
  destruct ED as (Ed & Ea & Em & Er). rewrite Em, EE. rewrite Z.eqb_refl.
  split; [|exact Er].
  destruct (rdbx_check r d =? st_ok); reflexivity.
Qed.

Fixpoint tx_run (r : rdbx) (l : list Z) : rdbx * list (option Z) :=
  match l with
  | [] => (r, [])
  | s :: t => let '(r1, o) := tx_step r s in
              let '(r2, os) := tx_run r1 t in (r2, o :: os)
  end.

(* every index produced along a run (accepted or not) stays below the bound *)
Fixpoint tx_bounded (r : rdbx) (l : list Z) : Prop :=
  match l with
  | [] => True
  | s :: t => fst (estimate r s) < IDX_MAX /\ tx_bounded (fst (tx_step r s)) t
  end.

Lemma tx_run_distinct l : forall r seen,
  Inv r seen -> Forall (fun s => 0 <= s < 2 ^ 16) l -> tx_bounded r l ->
  let '(r', os) := tx_run r l in
  exists seen', Inv r' seen' /\ (forall i, seen i -> seen' i) /\
    (forall n i, nth_error os n = Some (Some i) -> ~ seen i /\ seen' i /\
        forall m, (m < n)%nat -> nth_error os m <> Some (Some i)).
Proof.
  induction l as [|s t IH]; intros r seen I F B; cbn [tx_run].
  - exists seen. split; [exact I|]. split; [auto|]. intros n i H. destruct n; discriminate.
  - inversion F as [|? ? Hs Ft]; subst. destruct B as [Bs Bt].
    pose proof (tx_step_rx r seen s I Hs) as [TX Er].
    set (e := fst (estimate r s)) in *.
    pose proof (rx_step r seen e I ltac:(lia)) as RX.
    destruct (rdbx_rx r e) as [r1 a] eqn:E1. cbn [fst snd] in TX. rewrite TX in *. cbn [fst] in Bt.
    destruct RX as [RXt RXf]. destruct a.
    + destruct (RXt eq_refl) as (NS & I1 & _).
      specialize (IH r1 (add_seen seen e) I1 Ft Bt).
      destruct (tx_run r1 t) as [r2 os]. destruct IH as (seen' & I2 & Mono & D).
      exists seen'. split; [exact I2|]. split; [intros i Si; apply Mono; left; exact Si|].
      intros n i H. destruct n as [|n]; cbn in H.
      * injection H as <-. split; [exact NS|]. split; [apply Mono; right; reflexivity|]. intros m Hm. lia.
      * destruct (D n i H) as (NS2 & S2 & O2). split; [intros Si; apply NS2; left; exact Si|]. split; [exact S2|].
        intros m Hm. destruct m as [|m]; cbn.
        -- intros Eq. injection Eq as <-. apply NS2. right. reflexivity.
        -- apply O2. lia.
    + rewrite (RXf eq_refl) in *.
      specialize (IH r seen I Ft Bt).
      destruct (tx_run r t) as [r2 os]. destruct IH as (seen' & I2 & Mono & D).
      exists seen'. split; [exact I2|]. split; [exact Mono|].
      intros n i H. destruct n as [|n]; cbn in H; [discriminate|].
      destruct (D n i H) as (NS2 & S2 & O2). split; [exact NS2|]. split; [exact S2|].
      intros m Hm. destruct m as [|m]; cbn; [discriminate|]. apply O2. lia.
Qed.

(* ---- SRTCP sender: indices strictly increase by one and stop at 2^31-1 ---- *)
Fixpoint rtcp_tx_run (r : rdb) (n : nat) : rdb * list (Z * Z) :=   (* (status, index used) *)
  match n with
  | O => (r, [])
  | S n' => let '(s, r1) := rdb_incr r in
            let '(r2, l) := rtcp_tx_run r1 n' in (r2, (s, wstart r1) :: l)
  end.

Lemma rtcp_tx_spec n : forall r,
  0 <= wstart r < 2 ^ 31 ->
  forall k s i, nth_error (snd (rtcp_tx_run r n)) k = Some (s, i) ->
    (wstart r + Z.of_nat k + 1 <= 2 ^ 31 - 1 -> s = st_ok /\ i = wstart r + Z.of_nat k + 1) /\
    (wstart r + Z.of_nat k + 1 > 2 ^ 31 - 1 -> s = st_key_expired /\ i = 2 ^ 31 - 1).
Proof.
  induction n as [|n IH]; intros r Hr k s i H; cbn [rtcp_tx_run] in H.
  - destruct k; discriminate.
  - pose proof (RdbProofs.incr_spec r Hr) as IS.
    destruct (rdb_incr r) as [s0 r1] eqn:E0. destruct IS as [ISok ISexp].
    destruct (rtcp_tx_run r1 n) as [r2 l] eqn:E1. cbn [snd] in H.
    change (2 ^ 31) with 2147483648 in *.
    destruct k as [|k]; cbn [nth_error] in H.
    + injection H as <- <-. rewrite Nat2Z.inj_0. split; intros C.
      * destruct (ISok ltac:(lia)) as [-> ->]. split; [reflexivity|lia].
      * destruct (ISexp ltac:(lia)) as [-> ->]. split; [reflexivity|lia].
    + assert (Hr1 : 0 <= wstart r1 < 2147483648).
      { destruct (Z_lt_le_dec (wstart r) (2147483648 - 1)) as [L|L].
        - destruct (ISok L) as [_ ->]. lia.
        - destruct (ISexp ltac:(lia)) as [_ ->]. exact Hr. }
      specialize (IH r1 Hr1 k s i). rewrite E1 in IH. cbn [snd] in IH. specialize (IH H).
      rewrite Nat2Z.inj_succ.
      destruct (Z_lt_le_dec (wstart r) (2147483648 - 1)) as [L|L].
      * destruct (ISok L) as [_ W]. rewrite W in IH. destruct IH as [A B]. split; intros C; [destruct (A ltac:(lia)); split; lia | destruct (B ltac:(lia)); split; lia].
      * destruct (ISexp ltac:(lia)) as [_ W]. rewrite W in IH. destruct IH as [A B]. split; intros C; [lia| destruct (B ltac:(lia)); split; lia].
Qed.
