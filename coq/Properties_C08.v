(* Properties_C08.v — a sender never encrypts two packets with the same key and IV (C08).
   Statements only; proofs in IvProofs.v (on top of the replay-window invariant of RdbxProofs.v
   and RdbProofs.v).  tx_step is srtp_protect's index handling (estimate, replay check, add)
   without allow_repeat_tx and without an imposed ROC; rtcp_tx_run is srtp_rdb_increment. *)
From Coq Require Import NArith ZArith List Bool.
From Srtp Require Import Util Constants Rdb Rdbx Seen RdbProofs RdbxProofs Icm World Rtp Rtcp IvProofs.
Import ListNotations.
Local Open Scope Z_scope.

(* any sequence of sequence numbers presented to srtp_protect (repeated, reordered, wrapping):
   the indices under which packets are actually encrypted are pairwise distinct *)
Theorem tx_indices_distinct : forall l r seen,
  RdbxProofs.Inv r seen -> Forall (fun s => 0 <= s < 2 ^ 16) l -> tx_bounded r l ->
  let '(r', os) := tx_run r l in
  exists seen', RdbxProofs.Inv r' seen' /\ (forall i, seen i -> seen' i) /\
    (forall n i, nth_error os n = Some (Some i) -> ~ seen i /\ seen' i /\
        forall m, (m < n)%nat -> nth_error os m <> Some (Some i)).
Proof. exact tx_run_distinct. Qed.
Print Assumptions tx_indices_distinct.

(* SRTCP: the k-th call uses index start+k+1 while that is at most 2^31-1, and fails with
   key_expired (index stuck at 2^31-1) for ever after *)
Theorem rtcp_tx_strictly_increasing : forall n r,
  0 <= wstart r < 2 ^ 31 ->
  forall k s i, nth_error (snd (rtcp_tx_run r n)) k = Some (s, i) ->
    (wstart r + Z.of_nat k + 1 <= 2 ^ 31 - 1 -> s = st_ok /\ i = wstart r + Z.of_nat k + 1) /\
    (wstart r + Z.of_nat k + 1 > 2 ^ 31 - 1 -> s = st_key_expired /\ i = 2 ^ 31 - 1).
Proof. exact rtcp_tx_spec. Qed.
Print Assumptions rtcp_tx_strictly_increasing.

(* equal IVs under one key imply equal (SSRC, index): distinct streams sharing a wildcard key and
   distinct indices of one stream never collide *)
Theorem srtp_iv_injective : forall alg s1 e1 s2 e2,
  is_icm_alg alg = true ->
  0 <= s1 < 2 ^ 32 -> 0 <= s2 < 2 ^ 32 -> 0 <= e1 < 2 ^ 48 -> 0 <= e2 < 2 ^ 48 ->
  rtp_iv alg s1 e1 = rtp_iv alg s2 e2 -> s1 = s2 /\ e1 = e2.
Proof. exact rtp_iv_inj. Qed.
Print Assumptions srtp_iv_injective.

Theorem srtcp_iv_injective : forall alg s1 q1 s2 q2,
  is_icm_alg alg = true ->
  0 <= s1 < 2 ^ 32 -> 0 <= s2 < 2 ^ 32 -> 0 <= q1 < 2 ^ 31 -> 0 <= q2 < 2 ^ 31 ->
  rtcp_iv alg s1 q1 = rtcp_iv alg s2 q2 -> s1 = s2 /\ q1 = q2.
Proof. exact rtcp_iv_inj. Qed.
Print Assumptions srtcp_iv_injective.

(* the cipher's starting counter block = per-key offset xor IV: injective in the IV *)
Theorem counter_block_injective : forall off iv1 iv2,
  length iv1 = length off -> length iv2 = length off ->
  xor_bytes off iv1 = xor_bytes off iv2 -> iv1 = iv2.
Proof. exact xor_offset_inj. Qed.
Print Assumptions counter_block_injective.

(* outside the premise (index < 2^48): with ROC 2^32-1 a wrapping sequence number is estimated
   with ROC 0 -- reaching it needs 2^33 srtp_protect calls or srtp_stream_set_roc *)
Example roc_wrap_outside_premise : index_guess (4294967295 * 65536 + 65535) 0 = (0, 1).
Proof. vm_compute. reflexivity. Qed.

Example tx_example :
  match rdbx_init 128 with
  | Some r0 => snd (tx_run r0 [10; 11; 10; 9; 65535; 3; 3])
  | None => []
  end = [Some 10; Some 11; None; Some 9; Some 65535; Some 65539; None].
Proof. vm_compute. reflexivity. Qed.

(* ---- AES-GCM (RFC 7714) IV formations (Aead.v), OpenSSL configuration; statements printed by Coq's Check ---- *)
From Srtp Require Import Util Constants KeyLimit Rdb Rdbx Icm World Stream Rtp Rtcp Aead AeadIvProofs.
(* AES-GCM: the SRTP IV formation is injective in (SSRC, packet index) for any salt   [AeadIvProofs.v] *)
Theorem C08_aead_rtp_iv_injective :
  forall (salt : bytes) (ssrc est ssrc' est' : Z),
       0 <= ssrc < 2 ^ 32 ->
       0 <= ssrc' < 2 ^ 32 ->
       0 <= est < 2 ^ 48 ->
       0 <= est' < 2 ^ 48 ->
       aead_rtp_iv salt ssrc est = aead_rtp_iv salt ssrc' est' -> ssrc = ssrc' /\ est = est'.
Proof. exact aead_rtp_iv_injective. Qed.
Print Assumptions C08_aead_rtp_iv_injective.

(* AES-GCM: the SRTCP IV formation is injective in (SSRC, index)   [AeadIvProofs.v] *)
Theorem C08_aead_rtcp_iv_injective :
  forall (csalt : bytes) (ssrc seq ssrc' seq' : Z),
       0 <= ssrc < 2 ^ 32 ->
       0 <= ssrc' < 2 ^ 32 ->
       0 <= seq < 2 ^ 31 ->
       0 <= seq' < 2 ^ 31 ->
       aead_rtcp_iv csalt ssrc seq = aead_rtcp_iv csalt ssrc' seq' -> ssrc = ssrc' /\ seq = seq'.
Proof. exact aead_rtcp_iv_injective. Qed.
Print Assumptions C08_aead_rtcp_iv_injective.

