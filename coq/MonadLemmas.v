(* MonadLemmas.v — reasoning principles for the state/exit monad of World.v. *)
From Coq Require Import NArith ZArith List Bool Lia.
From Srtp Require Import Util Constants KeyLimit Rdb Rdbx Icm World.
Import ListNotations.
Local Open Scope Z_scope.

Lemma bind_inv {A B} (m : M A) (f : A -> M B) w w2 r :
  bind m f w = (w2, r) ->
  (exists a w1, m w = (w1, inl a) /\ f a w1 = (w2, r)) \/
  (exists st, m w = (w2, inr st) /\ r = inr st).
Proof.
  unfold bind. destruct (m w) as [w1 [a|st]] eqn:E; intros H.
  - left. exists a, w1. split; [reflexivity|exact H].
  - right. exists st. injection H as <- <-. split; reflexivity.
Qed.

(* a computation that leaves the session, the heap and the event log alone
   (it may read them, write the packet buffers, log IVs, and exit) *)
Definition sess_pres {A} (m : M A) : Prop :=
  forall w, let '(w', _) := m w in w_s w' = w_s w /\ w_h w' = w_h w /\ w_ev w' = w_ev w.

Lemma sp_ret {A} (a : A) : sess_pres (ret a).
Proof. intros w. cbn. auto. Qed.
Lemma sp_exit {A} st : sess_pres (@exit_with A st).
Proof. intros w. cbn. auto. Qed.
Lemma sp_bind {A B} (m : M A) (f : A -> M B) :
  sess_pres m -> (forall a, sess_pres (f a)) -> sess_pres (bind m f).
Proof.
  intros Hm Hf w. unfold bind. specialize (Hm w). destruct (m w) as [w1 [a|st]].
  - specialize (Hf a w1). destruct (f a w1) as [w2 r]. destruct Hm as (a1 & a2 & a3), Hf as (b1 & b2 & b3).
    repeat split; congruence.
  - exact Hm.
Qed.
Lemma sp_get_s : sess_pres get_s. Proof. intros w; cbn; auto. Qed.
Lemma sp_get_b : sess_pres get_b. Proof. intros w; cbn; auto. Qed.
Lemma sp_get_h : sess_pres get_h. Proof. intros w; cbn; auto. Qed.
Lemma sp_getw : sess_pres getw. Proof. intros w; cbn; auto. Qed.
Lemma sp_put_b b : sess_pres (put_b b). Proof. intros w; cbn; auto. Qed.
Lemma sp_log_iv e : sess_pres (log_iv e). Proof. intros w; cbn; auto. Qed.
Lemma sp_check_st st : sess_pres (check_st st).
Proof. unfold check_st. destruct (st =? st_ok); [apply sp_ret|apply sp_exit]. Qed.
Lemma sp_if {A} (c : bool) (m1 m2 : M A) : sess_pres m1 -> sess_pres m2 -> sess_pres (if c then m1 else m2).
Proof. destruct c; auto. Qed.

Lemma sp_rd_src off n : sess_pres (rd_src off n).
Proof.
  unfold rd_src. apply sp_bind; [apply sp_get_b|]. intros b.
  apply sp_if; [apply sp_bind; [apply sp_put_b|intros; apply sp_ret] | apply sp_ret].
Qed.
Lemma sp_rd_dst off n : sess_pres (rd_dst off n).
Proof.
  unfold rd_dst. apply sp_bind; [apply sp_get_b|]. intros b.
  apply sp_if; [apply sp_bind; [apply sp_put_b|intros; apply sp_ret] | apply sp_ret].
Qed.
Lemma sp_wr_dst off v : sess_pres (wr_dst off v).
Proof. unfold wr_dst. apply sp_bind; [apply sp_get_b|]. intros b. apply sp_put_b. Qed.

Lemma sp_get_stream r : sess_pres (get_stream r).
Proof.
  unfold get_stream. apply sp_bind; [apply sp_get_s|]. intros s.
  destruct r.
  - destruct (ss_template s); [apply sp_ret|apply sp_exit].
  - destruct (list_get (ss_list s) ssrc); [apply sp_ret|apply sp_exit].
Qed.

(* automation: peel binds / ifs / matches, closing leaves with the lemmas above *)
Ltac sp_step :=
  first
    [ apply sp_ret | apply sp_exit | apply sp_get_s | apply sp_get_b | apply sp_get_h | apply sp_getw
    | apply sp_put_b | apply sp_log_iv | apply sp_check_st | apply sp_rd_src | apply sp_rd_dst
    | apply sp_wr_dst | apply sp_get_stream
    | (apply sp_bind; [ | intros ? ])
    | apply sp_if ].

(* ---- which statuses a computation can exit with ---- *)
Definition exits_in {A} (m : M A) (P : Z -> Prop) : Prop :=
  forall w w' st, m w = (w', inr st) -> P st.

Lemma ex_ret {A} (a : A) P : exits_in (ret a) P.
Proof. intros w w' st H. discriminate. Qed.
Lemma ex_exit {A} st (P : Z -> Prop) : P st -> exits_in (@exit_with A st) P.
Proof. intros HP w w' s H. unfold exit_with in H. injection H as _ E. subst s. exact HP. Qed.
Lemma ex_bind {A B} (m : M A) (f : A -> M B) P :
  exits_in m P -> (forall a, exits_in (f a) P) -> exits_in (bind m f) P.
Proof.
  intros Hm Hf w w' st H. apply bind_inv in H. destruct H as [(a & w1 & H1 & H2)|(s & H1 & H2)].
  - exact (Hf a w1 w' st H2).
  - injection H2 as E. subst st. exact (Hm w w' s H1).
Qed.
Lemma ex_if {A} (c : bool) (m1 m2 : M A) P : exits_in m1 P -> exits_in m2 P -> exits_in (if c then m1 else m2) P.
Proof. destruct c; auto. Qed.
Lemma ex_weaken {A} (m : M A) (P Q : Z -> Prop) : (forall s, P s -> Q s) -> exits_in m P -> exits_in m Q.
Proof. intros I H w w' st E. apply I. exact (H w w' st E). Qed.
Lemma ex_noexit_state {A} (m : world -> world * A) P : exits_in (fun w => let '(w', a) := m w in (w', inl a)) P.
Proof. intros w w' st H. destruct (m w). discriminate. Qed.

Lemma ex_get_s P : exits_in get_s P. Proof. intros w w' st H; discriminate. Qed.
Lemma ex_get_b P : exits_in get_b P. Proof. intros w w' st H; discriminate. Qed.
Lemma ex_get_h P : exits_in get_h P. Proof. intros w w' st H; discriminate. Qed.
Lemma ex_put_s s P : exits_in (put_s s) P. Proof. intros w w' st H; discriminate. Qed.
Lemma ex_put_b b P : exits_in (put_b b) P. Proof. intros w w' st H; discriminate. Qed.
Lemma ex_put_h h P : exits_in (put_h h) P. Proof. intros w w' st H; discriminate. Qed.
Lemma ex_emit e s P : exits_in (emit e s) P. Proof. intros w w' st H; discriminate. Qed.
Lemma ex_log_iv e P : exits_in (log_iv e) P. Proof. intros w w' st H; discriminate. Qed.
Lemma ex_check_st s (P : Z -> Prop) : (s <> st_ok -> P s) -> exits_in (check_st s) P.
Proof.
  intros HP. unfold check_st. destruct (s =? st_ok) eqn:E; [apply ex_ret|].
  apply ex_exit. apply HP. intros ->. discriminate.
Qed.
Lemma ex_rd_src off n P : exits_in (rd_src off n) P.
Proof. unfold rd_src. apply ex_bind; [apply ex_get_b|intros b]. apply ex_if; [apply ex_bind; [apply ex_put_b|intros; apply ex_ret]|apply ex_ret]. Qed.
Lemma ex_rd_dst off n P : exits_in (rd_dst off n) P.
Proof. unfold rd_dst. apply ex_bind; [apply ex_get_b|intros b]. apply ex_if; [apply ex_bind; [apply ex_put_b|intros; apply ex_ret]|apply ex_ret]. Qed.
Lemma ex_wr_dst off v P : exits_in (wr_dst off v) P.
Proof. unfold wr_dst. apply ex_bind; [apply ex_get_b|intros b]. apply ex_put_b. Qed.
Lemma ex_get_stream r (P : Z -> Prop) : P st_fail -> exits_in (get_stream r) P.
Proof.
  intros HP. unfold get_stream. apply ex_bind; [apply ex_get_s|intros s]. destruct r.
  - destruct (ss_template s); [apply ex_ret|apply ex_exit; exact HP].
  - destruct (list_get (ss_list s) ssrc); [apply ex_ret|apply ex_exit; exact HP].
Qed.
Lemma ex_put_stream r n P : exits_in (put_stream r n) P.
Proof. unfold put_stream. apply ex_bind; [apply ex_get_s|intros s]. destruct r; apply ex_put_s. Qed.
Lemma ex_alloc1 P : exits_in alloc1 P.
Proof.
  unfold alloc1. apply ex_bind; [apply ex_get_h|intros h].
  apply ex_if; (apply ex_bind; [apply ex_put_h|intros; apply ex_ret]).
Qed.
Lemma ex_free_n n P : exits_in (free_n n) P.
Proof. unfold free_n. apply ex_bind; [apply ex_get_h|intros h]. apply ex_put_h. Qed.

Ltac ex_step :=
  first
    [ apply ex_ret | apply ex_get_s | apply ex_get_b | apply ex_get_h | apply ex_put_s | apply ex_put_b
    | apply ex_put_h | apply ex_emit | apply ex_log_iv | apply ex_rd_src | apply ex_rd_dst | apply ex_wr_dst
    | apply ex_put_stream | apply ex_alloc1 | apply ex_free_n
    | (apply ex_bind; [ | intros ? ])
    | apply ex_if ].
