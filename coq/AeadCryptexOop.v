(* AeadCryptexOop.v — cryptex (RFC 9335) under AES-GCM, part 3: the OUT-OF-PLACE calls, which the
   library supports for packets without CSRC (with CSRCs they refuse: AeadCryptexRtp.v), and the
   round trip in every alias combination the model allows.  Streams with cryptex, confidentiality
   on, NO header-extension cipher; packets with a header extension (X = 1).

     unprotect_aead on rtp_aead_cryptex_wire, out of place, CC = 0     (section 1)
     rtp_aead_cryptex_round_trip_oop      the receiver's out-of-place call gives the packet back
     rtp_aead_cryptex_round_trip_any      receiver in place (any CSRC count) or out of place (CC = 0)
     rtp_aead_cryptex_protect_unprotect   C01 on two worlds: sender in place or out of place (a
                                          successful out-of-place call has CC = 0), receiver in place,
                                          or out of place when CC = 0
   The sender's out-of-place wire image is AeadProtectFun.protect_aead_emits_wire.

   Cryptex TOGETHER with RFC 6904 (section 3): in place the pair now round-trips (example by
   computation); out of place the send side walks the not-yet-copied destination, so status and
   output depend on what the destination held — protect_aead_alias_cryptex_xtn_refuted. *)
From Coq Require Import NArith ZArith List Bool Lia.
From Srtp Require Import XtnProofs CryptexProofs.
From Srtp Require Import Util Constants KeyLimit Rdb Rdbx Icm World Stream Rtp Aead AeadProofs
     MonadLemmas EnvelopeProofs WfProofs BoundsRtcp BoundsRtp LengthProofs RtcpSpec RtpSpec RtpSpecProofs
     RtpRoundTrip RtpXtnApply RtpRefineXtn RtpRoundTripXtn RtpUnprotSpec RtpUnprotProofs RtpRoundTripCryptex
     AeadRoundTripRtp AeadCryptexInplace AeadCryptexRtp AeadProtectFun.
From Srtp.Crypto Require Import GCM.
Import ListNotations.
Local Open Scope Z_scope.

(* ===================================================================== *)
(* 1. srtp_unprotect with a GCM key on the cryptex wire image, out of place, no CSRC *)
(* ===================================================================== *)
Section CX_OOP_RX.
Variables (L C : Z) (src d0 : bytes).
Variables (st rt : stream) (ki : Z) (k : skeys) (est delta : Z) (adv : bool) (pkt wire : bytes).
Hypothesis HC : 0 <= C < 9223372036854775808.
Hypothesis HD : C <= lenZ d0.
Hypothesis Hwire : take (zn L) src = wire.
Hypothesis HLw : lenZ wire = L.

Notation S := (St L C false src d0).

Ltac norm_b :=
  change (b_len (b_init L C false src d0)) with L;
  change (b_cap (b_init L C false src d0)) with C;
  change (b_alias (b_init L C false src d0)) with false;
  rewrite ?(Hwire : take (zn L) (cur_src (b_init L C false src d0)) = wire).

Hypothesis HW : rtp_aead_cryptex_wire st k est pkt = Some wire.
Hypothesis HX : hdr_x pkt = 1.
Hypothesis HCC : hdr_cc pkt = 0.
Hypothesis PO : profile_octets pkt.
Hypothesis HCp : lenZ pkt <= C.
Hypothesis Wrt : stream_wf rt.
Hypothesis RCX : s_cryptex rt = true.
Hypothesis Rconf : rtp_conf rt = true.
Hypothesis EU : s_use_mki rt = s_use_mki st.
Hypothesis Hk : In k (s_keys rt).
Hypothesis XK : k_xtn_c k = None.
Hypothesis Hsel : aead_key_selected rt ki k.
Variable ss0 ss1 : session.
Hypothesis Hget : list_get (ss_list ss0) (hdr_ssrc pkt) = Some rt.
Hypothesis Hidx : rx_index rt (hdr_seq pkt) = inl (est, delta, adv).
Hypothesis Hch : charge_fun ss0 (hdr_ssrc pkt) rt ki = (ss1, inl tt).

Lemma unprotect_aead_cryptex_oop_tri :
  tri (S ss0 (eq d0)) unprotect_aead (CRxQ src rt ki est delta adv pkt ss1) (fun _ _ => False).
Proof.
  (* what the wire image consists of *)
  pose proof HW as HW'. unfold rtp_aead_cryptex_wire in HW'.
  destruct (validate_rtp pkt (lenZ pkt) =? st_ok) eqn:EVb; cbn [negb] in HW'; [|discriminate].
  pose proof EVb as EV. apply Z.eqb_eq in EV. cbv zeta in HW'.
  set (Lp := lenZ pkt) in *. set (hl := hdr_len pkt) in *.
  rewrite HCC in HW'. change (zn (4 * 0)) with O in HW'.
  destruct (cryptex_profile_of (be16 pkt (zn hl))) as [v|] eqn:PV; [|discriminate].
  set (vb := be_bytes 2 (Z.to_N v)) in *. set (p2 := splice (zn hl) vb pkt) in *.
  set (tl := ak_tag (k_rtp_a k)) in *. set (iv := aead_rtp_iv (k_salt k) (hdr_ssrc pkt) est) in *.
  set (Hh := take 12 p2) in *. set (X := slice (zn hl) 4 p2) in *.
  set (Cs := slice 12 0 p2) in *. set (Tt := drop (zn (hl + 4)) p2) in *.
  destruct (gcm_encrypt (ck_rks (k_rtp_c k)) iv (Hh ++ X) (Cs ++ Tt) (zn tl)) as [ct tag] eqn:EG.
  injection HW' as HW''.
  set (mki := if s_use_mki st then k_mki k else []) in *.
  assert (HW' : (Hh ++ X) ++ ct ++ tag ++ mki = wire) by (rewrite <- app_assoc; exact HW''). clear HW''.
  pose proof (validate_rtp_ok _ _ EV) as (V1 & V2 & V3). specialize (V3 HX). fold hl in V2, V3.
  pose proof (hdr_len_eq pkt) as HLn. fold hl in HLn. pose proof (xtn_len_ge pkt) as XL.
  assert (HL12 : hl = 12) by lia.
  assert (ZH : zn hl = 12%nat) by (rewrite HL12; reflexivity).
  assert (ZH4 : zn (hl + 4) = 16%nat) by (rewrite HL12; reflexivity).
  assert (LV : length vb = 2%nat) by (subst vb; apply be_bytes_length).
  assert (LP2 : lenZ p2 = Lp) by (subst p2; rewrite lenZ_splice; reflexivity).
  assert (Lp2n : (12 + 0 + 4 <= length p2)%nat) by (unfold lenZ, zn in *; lia).
  destruct (cxp_len 0 p2 Lp2n) as (L1 & L2 & L3 & L4).
  pose proof (stream_wf_key _ _ Wrt Hk) as (MK & TA & _).
  pose proof Wrt as (Mb & U & _). rewrite max_mki_value in Mb.
  set (msz := s_mki_size rt) in *.
  pose proof TA as [T _]. rewrite max_tag_value in T. fold tl in T.
  pose proof (gcm_encrypt_length _ _ _ _ _ _ _ EG) as [LG1 LG2].
  assert (LCsT : lenZ (Cs ++ Tt) = Lp - 16).
  { subst Cs Tt. rewrite lenZ_app. unfold lenZ in *. rewrite ZH4, L2, drop_length. lia. }
  assert (LCT : lenZ ct = Lp - 16) by (unfold lenZ in *; lia).
  assert (LTG : lenZ tag = tl) by (unfold lenZ, zn in *; lia).
  assert (LM : lenZ mki = msz).
  { subst mki. rewrite <- EU. destruct (s_use_mki rt); [exact MK|]. rewrite (U eq_refl). reflexivity. }
  assert (LHh : length Hh = 12%nat) by exact L1.
  assert (LX : length X = 4%nat) by (subst X; rewrite ZH; exact L3).
  assert (LHX : lenZ (Hh ++ X) = 16) by (rewrite lenZ_app; unfold lenZ; rewrite LHh, LX; reflexivity).
  assert (LWl : L = Lp + tl + msz).
  { rewrite <- HLw, <- HW'. rewrite !lenZ_app. unfold lenZ in *. rewrite LHh, LX. lia. }
  (* the header of the wire image *)
  assert (T16 : take 16 wire = Hh ++ X).
  { rewrite <- HW'. apply XtnProofs.take_app_exact. unfold lenZ in LHX. lia. }
  assert (T12 : take 12 wire = take 12 pkt).
  { rewrite <- HW', <- app_assoc. rewrite (XtnProofs.take_app_exact Hh _ 12 LHh). subst Hh p2.
    apply take_splice_below. unfold zn in *. lia. }
  destruct (hdr12 _ _ T12) as (Wcc & Wx & Wseq & Wssrc & Whl). fold hl in Whl.
  assert (WX : slice (zn hl) 4 wire = X).
  { rewrite <- HW', ZH, <- app_assoc. apply CryptexProofs.slice_mid; [exact LHh|exact LX]. }
  assert (BX2 : be16 X 2 = be16 pkt (zn (hl + 2))).
  { subst X. rewrite be16_slice4. subst p2.
    replace (zn hl + 2)%nat with (zn (hl + 2)) by (unfold zn; lia).
    unfold be16. rewrite slice_splice_above by (rewrite LV; unfold zn; lia). reflexivity. }
  assert (Wxl : xtn_len wire = xtn_len pkt).
  { unfold xtn_len. rewrite Whl. fold hl. f_equal. f_equal.
    replace (zn (hl + 2)) with (zn hl + 2)%nat by (unfold zn; lia).
    rewrite <- (be16_slice4 wire (zn hl)), WX, BX2. f_equal. unfold zn; lia. }
  destruct (unprof_set pkt (zn hl) v ltac:(unfold lenZ, zn in *; lia) PO PV) as [UP BV]. fold vb p2 in UP, BV.
  assert (BX0 : be16 X 0 = be16 p2 (zn hl)) by (subst X; apply be16_slice4_0).
  assert (VW : validate_rtp wire L = st_ok).
  { apply (validate_rtp_longer wire pkt L Lp EV); [lia|exact Wcc|exact Wx|].
    unfold enc0. rewrite Wx, Whl, Wxl. reflexivity. }
  assert (WMK : slice (zn (L - 0 - msz)) (zn msz) wire = mki).
  { rewrite <- HW'. rewrite (app_assoc (Hh ++ X)), (app_assoc ((Hh ++ X) ++ ct)).
    rewrite <- (app_nil_r mki) at 1.
    apply slice_mid'; unfold lenZ, zn in *; rewrite ?app_length; rewrite ?LHh, ?LX; lia. }
  assert (RK : receiver_key_st rt wire L 0 = inl (ki, k)).
  { unfold receiver_key_st. unfold aead_key_selected in Hsel. fold msz.
    destruct (s_use_mki rt) eqn:EUr; cbn [negb].
    - destruct (L <? 0) eqn:Q1; [apply Z.ltb_lt in Q1; lia|].
      destruct (L - 0 <? msz) eqn:Q2; [apply Z.ltb_lt in Q2; lia|].
      rewrite WMK. subst mki. rewrite <- EU. rewrite Hsel. reflexivity.
    - destruct Hsel as [Hh' ->]. destruct (s_keys rt) as [|k1 t]; [discriminate|]. cbn in Hh'. injection Hh' as ->. reflexivity. }
  (* the call *)
  unfold unprotect_aead.
  eapply t_bind; [apply t_get_b0|intros b]. apply t_pure; intros ->.
  cbv beta zeta. norm_b.
  change octets_in_rtp_header_c with 12. change octets_in_rtp_xtn_hdr_c with 4.
  rewrite VW. change (check_st st_ok) with (@ret unit tt). apply t_bind_ret.
  eapply t_bind; [apply t_get_s|intros ss]. apply t_pure; intros ->.
  rewrite Wssrc, Hget. apply t_bind_ret.
  eapply t_bind; [apply t_get_stream_list; exact Hget|intros st']. apply t_pure; intros ->.
  rewrite Wseq.
  eapply t_bind2; [apply t_rx_index| |intros eda].
  { intros s w [EI _]. rewrite Hidx in EI. discriminate EI. }
  apply t_pure; intros EI. rewrite Hidx in EI. injection EI as <-. cbv beta iota.
  pose proof Hwire as Hwire'.
  eapply t_bind2; [apply (t_keys_by_packet L C false src d0 wire Hwire' ss0 rt 0 Wrt); lia| |intros ik].
  { intros s w [EK _]. rewrite RK in EK. discriminate EK. }
  apply t_pure; intros EK. rewrite RK in EK. injection EK as <-. cbv beta iota.
  fold tl msz.
  (* cryptex is in use: profile and extension length from the packet *)
  unfold rtp_conf in Rconf. rewrite RCX, Rconf, Wx, HX, Whl, Wcc. cbn [andb Z.eqb Pos.eqb].
  assert (HLL : hl + xtn_len pkt <= L) by lia.
  apply t_bind with (R := fun iu w => iu = true /\ S ss0 (eq d0) w).
  { eapply t_bind; [apply (t_rd_src0 L C false src d0 wire Hwire'); lia|intros h]. apply t_pure; intros ->.
    apply t_ret. intros w Hw. split; [|exact Hw].
    change (zn 4) with 4%nat. rewrite WX, BX0. apply orb_true_iff. destruct BV as [B|B]; rewrite B; [left|right]; reflexivity. }
  intros iu. apply t_pure; intros ->. cbn [andb].
  apply t_bind with (R := fun xl w => xl = xtn_len pkt /\ S ss0 (eq d0) w).
  { eapply t_bind; [apply (t_rd_src0 L C false src d0 wire Hwire'); lia|intros h]. apply t_pure; intros ->.
    apply t_ret. intros w Hw. split; [|exact Hw].
    change (zn 4) with 4%nat. rewrite WX, BX2. unfold xtn_len. fold hl. reflexivity. }
  intros xl. apply t_pure; intros ->. rewrite Wxl.
  (* out of place, no CSRC: not refused; the encrypted portion starts at 16 *)
  rewrite HCC. change (0 =? 0) with true. cbn [andb negb]. change (0 * 4) with 0.
  assert (ES16 : u64 (u64 (hl + xtn_len pkt - (xtn_len pkt - 4)) - 0) = 16).
  { rewrite (u64_small (hl + xtn_len pkt - (xtn_len pkt - 4))) by lia. rewrite u64_small by lia. lia. }
  rewrite ES16. apply t_bind_ret.
  replace (L - tl - msz) with Lp by lia.
  rewrite (u64_small Lp) by lia. change (u64 (16 + 0)) with 16.
  destruct (Lp <? 16) eqn:Q1; [apply Z.ltb_lt in Q1; lia|]. apply t_bind_ret.
  rewrite (u64_small (hl + xtn_len pkt)) by lia.
  destruct (Lp <? hl + xtn_len pkt) eqn:Q1b; [apply Z.ltb_lt in Q1b; lia|]. apply t_bind_ret.
  replace (L - 16 - msz) with (Lp - 16 + tl) by lia. rewrite (u64_small (Lp - 16 + tl)) by lia.
  set (el := Lp - 16 + tl) in *.
  destruct (el <? tl) eqn:Q2; [apply Z.ltb_lt in Q2; lia|]. apply t_bind_ret.
  replace (L - msz - tl) with Lp by lia. rewrite (u64_small Lp) by lia.
  destruct (C <? Lp) eqn:Q3; [apply Z.ltb_lt in Q3; lia|]. apply t_bind_ret.
  (* the header is copied *)
  eapply t_bind; [apply (header_copy L C false src d0 wire HD Hwire' HLw); lia|intros ?].
  apply t_bind_ret.
  eapply t_bind; [apply (rd_pkt L C false src d0 wire Hwire' HLw); lia|intros aad]. apply t_pure; intros ->.
  eapply t_bind; [apply (rd_pkt L C false src d0 wire Hwire' HLw); lia|intros d]. apply t_pure; intros ->.
  change (zn 0) with O. rewrite slice_0. change (zn 16) with 16%nat. rewrite T16.
  assert (ECT : slice 16 (zn el) wire = ct ++ tag).
  { rewrite <- HW'. rewrite (CryptexProofs.slice_app_exact (Hh ++ X) _ 16) by (unfold lenZ in LHX; lia).
    rewrite (app_assoc ct tag). apply XtnProofs.take_app_exact. rewrite app_length. unfold lenZ, zn in *. subst el. lia. }
  rewrite ECT.
  rewrite (gcm_open_eq _ tl _ _ _ el el) by (try (rewrite lenZ_app); lia).
  replace (zn (el - tl)) with (length ct) by (unfold lenZ, zn in *; subst el; lia).
  rewrite RtpSpecProofs.take_app_exact, RtpSpecProofs.drop_app_exact.
  fold iv. rewrite (gcm_decrypt_encrypt _ _ _ _ _ _ _ EG).
  change (negb (st_ok =? st_ok)) with false. cbv iota.
  assert (LP0 : lenZ (P0 false wire 16) = 16) by (unfold P0, lenZ, zn in *; rewrite take_length; lia).
  eapply t_bind; [apply (t_wr_tail L C false src d0 HD); lia|intros ?].
  unfold P0. change (zn 16) with 16%nat. rewrite take_take. change (Nat.min 16 16) with 16%nat. rewrite T16.
  (* key usage *)
  eapply t_bind2; [eapply t_charge_key; exact Hget| |intros ?].
  { intros s w (ss' & EC & _). rewrite Hch in EC. discriminate EC. }
  apply t_ex; intros ss1'. apply t_pure; intros EC. apply t_pure; intros Hg1.
  rewrite Hch in EC. injection EC as <-.
  eapply t_bind; [apply t_get_stream_list; exact Hg1|intros st1]. apply t_pure; intros ->.
  (* nothing to shuffle back; the profile is restored *)
  assert (EP2 : (Hh ++ X) ++ Cs ++ Tt = p2).
  { rewrite <- (restore_dst_0 ((Hh ++ X) ++ Cs ++ Tt)). subst Hh X Cs Tt. rewrite ZH, ZH4.
    exact (cxp_restore_plain 0 p2 Lp2n). }
  rewrite EP2.
  replace (rd_dst hl 2) with (rd_dst (hdr_len wire) 2) by (rewrite Whl; reflexivity).
  eapply t_bind; [apply t_bind_ret; apply (t_unprof L C false src d0 wire HD); rewrite Whl; lia|intros ?].
  rewrite Whl, UP.
  rewrite XK. apply t_bind_ret.
  eapply t_conseq; [apply (tail_tri L C false src d0 pkt ss1 (charged_stream rt ki) adv est delta pkt _ (fun _ _ => False) Hg1)| |intros s w H; exact H].
  - rewrite LCsT, u64_small by lia. subst Lp. lia.
  - intros l w H. exact H.
Qed.
End CX_OOP_RX.

(* ===================================================================== *)
(* 2. the theorems, for worlds                                            *)
(* ===================================================================== *)
(* ROUND TRIP, receiver OUT OF PLACE, packet without CSRC: st, k, est = the sender's stream, key and
   index; w = the receiver's world, whose input block holds the wire image; whatever the destination
   held before *)
Theorem rtp_aead_cryptex_round_trip_oop st k est pkt wire w rt ki delta adv ss1 :
  rtp_aead_cryptex_wire st k est pkt = Some wire -> hdr_x pkt = 1 -> hdr_cc pkt = 0 -> profile_octets pkt ->
  call_ok w -> b_alias (w_b w) = false -> in_pkt w = wire -> lenZ pkt <= b_cap (w_b w) ->
  list_get (ss_list (w_s w)) (hdr_ssrc pkt) = Some rt -> stream_wf rt ->
  s_cryptex rt = true -> rtp_conf rt = true -> s_use_mki rt = s_use_mki st ->
  In k (s_keys rt) -> k_xtn_c k = None -> aead_key_selected rt ki k ->
  rx_index rt (hdr_seq pkt) = inl (est, delta, adv) ->
  charge_fun (w_s w) (hdr_ssrc pkt) rt ki = (ss1, inl tt) ->
  exists w', unprotect_aead w = (w', inl (lenZ pkt)) /\
             take (zn (lenZ pkt)) (b_dst (w_b w')) = pkt /\
             w_s w' = sess_put (dir_session ss1 (hdr_ssrc pkt) (charged_stream rt ki) dir_srtp_receiver_c) (hdr_ssrc pkt)
                        (rx_commit (dir_stream (charged_stream rt ki) dir_srtp_receiver_c) est delta adv) /\
             b_oob (w_b w') = false /\ b_src (w_b w') = b_src (w_b w).
Proof.
  intros HW HX HCC PO (HO & HL & HC & HD & HS) HA Hin HCp Hget Wrt RCX Rconf EU Hk XK Hsel Hidx Hch.
  assert (HLw : lenZ wire = b_len (w_b w)).
  { rewrite <- Hin. unfold in_pkt, lenZ, zn, size_ok in *. rewrite take_length. lia. }
  assert (Hp : take (zn (b_len (w_b w))) (b_src (w_b w)) = wire) by (rewrite <- Hin; unfold in_pkt, cur_src; rewrite HA; reflexivity).
  pose proof (St_init w HO) as SI. rewrite HA in SI.
  pose proof (unprotect_aead_cryptex_oop_tri (b_len (w_b w)) (b_cap (w_b w)) (b_src (w_b w)) (b_dst (w_b w))
                st rt ki k est delta adv pkt wire HC HD Hp HLw HW HX HCC PO HCp Wrt RCX Rconf EU Hk XK Hsel
                (w_s w) ss1 Hget Hidx Hch w SI) as T.
  destruct (unprotect_aead w) as [w' [l|s]]; [|contradiction].
  destruct T as (-> & T1 & T2 & T3 & T4). exists w'. auto.
Qed.
Print Assumptions rtp_aead_cryptex_round_trip_oop.

(* ROUND TRIP in every mode the receiver supports: in place (any CSRC count) or out of place (no CSRC) *)
Theorem rtp_aead_cryptex_round_trip_any st k est pkt wire w rt ki delta adv ss1 :
  rtp_aead_cryptex_wire st k est pkt = Some wire -> hdr_x pkt = 1 -> profile_octets pkt ->
  call_ok w -> b_alias (w_b w) = true \/ hdr_cc pkt = 0 -> in_pkt w = wire -> lenZ pkt <= b_cap (w_b w) ->
  list_get (ss_list (w_s w)) (hdr_ssrc pkt) = Some rt -> stream_wf rt ->
  s_cryptex rt = true -> rtp_conf rt = true -> s_use_mki rt = s_use_mki st ->
  In k (s_keys rt) -> k_xtn_c k = None -> aead_key_selected rt ki k ->
  rx_index rt (hdr_seq pkt) = inl (est, delta, adv) ->
  charge_fun (w_s w) (hdr_ssrc pkt) rt ki = (ss1, inl tt) ->
  exists w', unprotect_aead w = (w', inl (lenZ pkt)) /\
             take (zn (lenZ pkt)) (b_dst (w_b w')) = pkt /\
             w_s w' = sess_put (dir_session ss1 (hdr_ssrc pkt) (charged_stream rt ki) dir_srtp_receiver_c) (hdr_ssrc pkt)
                        (rx_commit (dir_stream (charged_stream rt ki) dir_srtp_receiver_c) est delta adv) /\
             b_oob (w_b w') = false /\ b_src (w_b w') = b_src (w_b w).
Proof.
  intros HW HX PO OK MODE Hin HCp Hget Wrt RCX Rconf EU Hk XK Hsel Hidx Hch.
  destruct (b_alias (w_b w)) eqn:HA.
  - exact (rtp_aead_cryptex_round_trip st k est pkt wire w rt ki delta adv ss1 HW HX PO OK HA Hin HCp Hget Wrt RCX Rconf EU Hk XK Hsel Hidx Hch).
  - destruct MODE as [M|HCC]; [discriminate M|].
    exact (rtp_aead_cryptex_round_trip_oop st k est pkt wire w rt ki delta adv ss1 HW HX HCC PO OK HA Hin HCp Hget Wrt RCX Rconf EU Hk XK Hsel Hidx Hch).
Qed.
Print Assumptions rtp_aead_cryptex_round_trip_any.

(* a successful OUT-OF-PLACE srtp_protect with cryptex in use means the packet has no CSRC *)
Lemma protect_aead_oop_fun_ok_cc ss i C pkt ss' wire st0 :
  protect_aead_oop_fun ss i C pkt = (ss', inl wire) ->
  list_get (ss_list ss) (hdr_ssrc pkt) = Some st0 -> cryptex_inuse st0 pkt = true -> hdr_cc pkt = 0.
Proof.
  unfold protect_aead_oop_fun, protect_aead_fun_gen. cbv zeta. intros H G IU. rewrite G in H. revert H.
  destruct (negb (validate_rtp pkt (lenZ pkt) =? st_ok)); [intros H; discriminate|].
  destruct (sender_key_st _ i) as [[ki k]|e]; [|intros H; discriminate].
  destruct (charge_fun _ _ _ ki) as [ss2 [u|e]]; [|intros H; discriminate].
  destruct (C <? _); [intros H; discriminate|].
  destruct (_ && _ && _ && _); [intros H; discriminate|].
  rewrite cryptex_inuse_dir, IU. cbn [andb].
  destruct (hdr_cc pkt =? 0) eqn:E0; cbn [negb]; [intros _; apply Z.eqb_eq; exact E0|intros H; discriminate].
Qed.

(* protect followed by unprotect, the statement of C01 on two worlds for the cryptex class (no
   header-extension cipher).  Sender: in place with any CSRC count, or out of place (then the call
   only succeeds for a packet without CSRC).  Receiver: in place, or out of place when the packet has
   no CSRC (with CSRCs it refuses: unprotect_aead_cryptex_refusal). *)
Corollary rtp_aead_cryptex_protect_unprotect i ws st0 ws' l wr rt ki delta adv ss1 :
  (* sender *)
  call_ok ws -> list_get (ss_list (w_s ws)) (hdr_ssrc (in_pkt ws)) = Some st0 -> stream_wf st0 ->
  s_cryptex st0 = true -> rtp_conf st0 = true -> hdr_x (in_pkt ws) = 1 ->
  (forall k, In k (s_keys st0) -> k_xtn_c k = None) -> profile_octets (in_pkt ws) ->
  protect_aead i ws = (ws', inl l) ->
  (* the receiver's input block holds the l octets the sender produced *)
  call_ok wr -> in_pkt wr = take (zn l) (b_dst (w_b ws')) -> b_len (w_b ws) <= b_cap (w_b wr) ->
  b_alias (w_b wr) = true \/ hdr_cc (in_pkt ws) = 0 ->
  list_get (ss_list (w_s wr)) (hdr_ssrc (in_pkt ws)) = Some rt -> stream_wf rt ->
  s_cryptex rt = true -> rtp_conf rt = true ->
  s_use_mki rt = s_use_mki st0 -> s_keys rt = s_keys st0 ->
  (forall kj k, sender_key_st (dir_stream st0 dir_srtp_sender_c) i = inl (kj, k) -> aead_key_selected rt ki k) ->
  (forall est st3 kj, index_step (charged_stream (dir_stream st0 dir_srtp_sender_c) kj) (hdr_seq (in_pkt ws)) = inl (est, st3) ->
                      rx_index rt (hdr_seq (in_pkt ws)) = inl (est, delta, adv)) ->
  charge_fun (w_s wr) (hdr_ssrc (in_pkt ws)) rt ki = (ss1, inl tt) ->
  exists wr', unprotect_aead wr = (wr', inl (b_len (w_b ws))) /\
              take (zn (b_len (w_b ws))) (b_dst (w_b wr')) = in_pkt ws /\ b_oob (w_b wr') = false.
Proof.
  intros Hcs Hgs Wst CX0 CF0 HX Hxk PO EPr Hcr Hin HCp MODE Hgr Wrt RCX Rconf E3 EK Hsel Hidx Hch.
  assert (IU : cryptex_inuse st0 (in_pkt ws) = true) by (unfold cryptex_inuse; rewrite CX0, CF0, HX; reflexivity).
  destruct (protect_aead_emits_wire i ws st0 ws' l Hcs Hgs Wst (or_intror Hxk) EPr)
    as (kj & k & ss2 & est & st3 & wire & SK & _ & IS & HW & -> & Hd & _).
  rewrite IU in HW.
  pose proof (dir_stream_cfg st0 dir_srtp_sender_c) as (CK & _).
  pose proof (sender_key_st_In _ _ _ _ SK) as Hks. rewrite CK in Hks.
  assert (Hk : In k (s_keys rt)) by (rewrite EK; exact Hks).
  pose proof (in_pkt_len ws Hcs) as LP.
  rewrite Hd in Hin.
  destruct (rtp_aead_cryptex_round_trip_any st0 k est (in_pkt ws) wire wr rt ki delta adv ss1 HW HX PO Hcr MODE Hin
              ltac:(lia) Hgr Wrt RCX Rconf E3 Hk (Hxk _ Hks) (Hsel _ _ SK) (Hidx _ _ _ IS) Hch) as (wr' & U1 & U2 & _ & U3 & _).
  rewrite LP in U1, U2. exists wr'. auto.
Qed.
Print Assumptions rtp_aead_cryptex_protect_unprotect.

(* and the sender's side of "out of place": a successful out-of-place call had no CSRC to deal with,
   so the receiver may work out of place too *)
Corollary protect_aead_oop_success_cc0 i ws st0 ws' l :
  call_ok ws -> b_alias (w_b ws) = false ->
  list_get (ss_list (w_s ws)) (hdr_ssrc (in_pkt ws)) = Some st0 -> stream_wf st0 -> aead_tx_class st0 ->
  cryptex_inuse st0 (in_pkt ws) = true ->
  protect_aead i ws = (ws', inl l) -> hdr_cc (in_pkt ws) = 0.
Proof.
  intros OK HA Hget Hwf CLS IU E.
  pose proof (protect_aead_refines_cx i ws st0 OK Hget Hwf CLS) as T. rewrite E, HA in T. cbv zeta in T.
  destruct T as (wire & F & _). exact (protect_aead_oop_fun_ok_cc _ _ _ _ _ _ _ F Hget IU).
Qed.
Print Assumptions protect_aead_oop_success_cc0.

(* ===================================================================== *)
(* 3. cryptex TOGETHER with RFC 6904 under GCM                             *)
(* ===================================================================== *)
From Srtp Require Import RtpExamples.
Module AeadCxXtn.
Import RtpEx AeadRtpExample.
(* AES-GCM-128, cryptex, header-extension cipher (AES-ICM-128) for the ids 1 and 2 (resp. 1 and 3) *)
Definition s12 : stream := gstream false true [1%N; 2%N].
Definition s13 : stream := gstream false true [1%N; 3%N].
Definition wa : world := Witness.mkw (gsess s12) (inplace pkt_x0).
Definition wo (fill : N) : world := Witness.mkw (gsess s12) (outofplace fill pkt_x0).
End AeadCxXtn.

(* IN PLACE the combination round-trips now (send side: RFC 6904, then cryptex; receive side: the
   cryptex layout is restored before the RFC 6904 walk): one-byte form with two CSRCs, two-byte form
   with one CSRC, one-byte form without CSRC (whose wire image the receiver also takes out of place);
   the extension elements on the wire differ from the plain ones and the profile is the RFC 9335 one *)
Example gcm_cryptex_xtn_inplace_round_trip :
  (match AeadRtpExample.g_protect AeadCxXtn.s12 0 (RtpEx.inplace RtpEx.pkt_x1) with
   | inl w1 => AeadRtpExample.g_unprotect AeadCxXtn.s12 (RtpEx.inplace w1) = inl RtpEx.pkt_x1 /\
               slice 20 2 w1 = [192; 222]%N /\ slice 24 8 w1 <> slice 24 8 RtpEx.pkt_x1
   | inr _ => False end) /\
  (match AeadRtpExample.g_protect AeadCxXtn.s13 0 (RtpEx.inplace RtpEx.pkt_x2) with
   | inl w1 => AeadRtpExample.g_unprotect AeadCxXtn.s13 (RtpEx.inplace w1) = inl RtpEx.pkt_x2 /\
               slice 16 2 w1 = [194; 222]%N
   | inr _ => False end) /\
  (match AeadRtpExample.g_protect AeadCxXtn.s12 0 (RtpEx.inplace AeadRtpExample.pkt_x0) with
   | inl w1 => AeadRtpExample.g_unprotect AeadCxXtn.s12 (RtpEx.inplace w1) = inl AeadRtpExample.pkt_x0 /\
               AeadRtpExample.g_unprotect AeadCxXtn.s12 (RtpEx.outofplace 0 w1) = inl AeadRtpExample.pkt_x0 /\
               AeadRtpExample.g_unprotect AeadCxXtn.s12 (RtpEx.outofplace 255 w1) = inl AeadRtpExample.pkt_x0
   | inr _ => False end).
Proof.
  vm_compute. repeat split; try reflexivity. intros H; discriminate H.
Qed.

(* REFUTED out of place (the known finding of the non-AEAD path, reproduced for GCM): with cryptex in
   use srtp_protect_aead copies only the first enc_start = 16 octets (fixed header and extension
   header) to the output before srtp_process_header_encryption walks the extension elements IN THE
   OUTPUT BUFFER, i.e. over whatever that buffer held; the AEAD encryption then takes the elements from
   the source.  So the RFC 6904 encryption is lost, and status and output depend on the alias mode and
   on the stale content of the destination.  Worse than a refusal: the image produced out of place
   into a zeroed block AUTHENTICATES at the receiver, which then "decrypts" extension elements that
   were never encrypted and returns ok with a packet that differs from the one sent.
   (Aead.v: `rd_src 0 enc_start ;; wr_dst 0 h` followed by `process_xtn st pkt ...`, whose rd_dst
   reads at hdr_len + 4 >= enc_start.) *)
Theorem protect_aead_alias_cryptex_xtn_refuted :
  (* same session with an explicit stream for the SSRC (cryptex, ids 1 and 2 encrypted), same packet
     (X = 1, CC = 0, one-byte form: id 1, 3 octets), same *out_len *)
  w_s AeadCxXtn.wa = w_s (AeadCxXtn.wo 0) /\ in_pkt AeadCxXtn.wa = in_pkt (AeadCxXtn.wo 0) /\
  in_pkt (AeadCxXtn.wo 255) = in_pkt (AeadCxXtn.wo 0) /\
  b_cap (w_b AeadCxXtn.wa) = b_cap (w_b (AeadCxXtn.wo 0)) /\
  (exists st0, list_get (ss_list (w_s AeadCxXtn.wa)) (hdr_ssrc (in_pkt AeadCxXtn.wa)) = Some st0 /\
               s_cryptex st0 = true /\ s_enc_xtn st0 = [1%N; 2%N] /\ hdr_cc (in_pkt AeadCxXtn.wa) = 0) /\
  (* in place and out of place into a zeroed block: both succeed with 42 octets, which differ in the
     extension element *)
  snd (protect_aead 0 AeadCxXtn.wa) = inl 42 /\ snd (protect_aead 0 (AeadCxXtn.wo 0)) = inl 42 /\
  slice 16 4 (b_dst (w_b (fst (protect_aead 0 AeadCxXtn.wa)))) = [89; 170; 176; 150]%N /\
  slice 16 4 (b_dst (w_b (fst (protect_aead 0 (AeadCxXtn.wo 0))))) = [89; 246; 148; 120]%N /\
  (* out of place into a block that held FF: parse error *)
  snd (protect_aead 0 (AeadCxXtn.wo 255)) = inr st_parse_err /\
  (* the out-of-place image is what a stream WITHOUT header-extension cipher emits ... *)
  AeadRtpExample.g_protect AeadCxXtn.s12 0 (RtpEx.outofplace 0 AeadRtpExample.pkt_x0) =
  AeadRtpExample.g_protect (AeadRtpExample.gstream false true []) 0 (RtpEx.inplace AeadRtpExample.pkt_x0) /\
  (* ... and the receiver accepts it and returns a different packet *)
  (match AeadRtpExample.g_protect AeadCxXtn.s12 0 (RtpEx.outofplace 0 AeadRtpExample.pkt_x0) with
   | inl w1 => exists p, AeadRtpExample.g_unprotect AeadCxXtn.s12 (RtpEx.inplace w1) = inl p /\
                         p <> AeadRtpExample.pkt_x0 /\ slice 16 4 p = [18; 246; 159; 34]%N /\
                         slice 16 4 AeadRtpExample.pkt_x0 = [18; 170; 187; 204]%N
   | inr _ => False end).
Proof.
  split; [vm_compute; reflexivity|]. split; [vm_compute; reflexivity|]. split; [vm_compute; reflexivity|].
  split; [vm_compute; reflexivity|].
  split.
  { eexists. split; [vm_compute; reflexivity|]. repeat split; vm_compute; reflexivity. }
  split; [vm_compute; reflexivity|]. split; [vm_compute; reflexivity|].
  split; [vm_compute; reflexivity|]. split; [vm_compute; reflexivity|].
  split; [vm_compute; reflexivity|]. split; [vm_compute; reflexivity|].
  vm_compute. eexists. split; [reflexivity|]. split; [intros H; discriminate H|]. split; reflexivity.
Qed.
Print Assumptions protect_aead_alias_cryptex_xtn_refuted.
