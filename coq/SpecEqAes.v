(* SpecEqAes.v — helper for SpecEqProofs.v: AES maps octet strings to octet strings
   (every list element < 256), for the block function and for the key expansion.
   Needed because the session salt is itself AES-CM keystream and the IV formula
   "octet-wise xor = N.lxor of big-endian values" holds for octet strings only. *)
From Coq Require Import NArith List Bool Arith Lia.
From Srtp.Crypto Require Import CTR AES.
Import ListNotations.
Local Open Scope N_scope.

Definition octets (l : list N) : Prop := Forall (fun b => b < 256) l.

(* ---- bit facts ---- *)
Lemma land_lxor_distr a b c : N.land (N.lxor a b) c = N.lxor (N.land a c) (N.land b c).
Proof.
  apply N.bits_inj. intros n. rewrite N.land_spec, !N.lxor_spec, !N.land_spec.
  destruct (N.testbit a n), (N.testbit b n), (N.testbit c n); reflexivity.
Qed.

Lemma lxor_lt_pow2 k a b : a < 2 ^ k -> b < 2 ^ k -> N.lxor a b < 2 ^ k.
Proof.
  intros Ha Hb.
  assert (P : 2 ^ k <> 0) by (apply N.pow_nonzero; discriminate).
  rewrite <- (N.mod_small a (2 ^ k)), <- (N.mod_small b (2 ^ k)) by assumption.
  rewrite <- !N.land_ones, <- land_lxor_distr, N.land_ones. apply N.mod_lt. exact P.
Qed.

Lemma lxor256 a b : a < 256 -> b < 256 -> N.lxor a b < 256.
Proof. change 256 with (2 ^ 8). apply lxor_lt_pow2. Qed.

(* ---- generic list facts ---- *)
Lemma list_ind4 {A} (P : list A -> Prop) :
  P [] -> (forall a, P [a]) -> (forall a b, P [a; b]) -> (forall a b c, P [a; b; c]) ->
  (forall a b c d r, P r -> P (a :: b :: c :: d :: r)) -> forall l, P l.
Proof.
  intros H0 H1 H2 H3 H4.
  assert (H : forall l, P l /\ (forall a, P (a :: l)) /\ (forall a b, P (a :: b :: l)) /\
                        (forall a b c, P (a :: b :: c :: l))).
  { induction l as [|x l (IH0 & IH1 & IH2 & IH3)].
    - repeat split; auto.
    - split; [apply IH1|]. split; [intros; apply IH2|]. split; [intros; apply IH3|].
      intros a b c. apply H4. exact IH0. }
  intros l. apply H.
Qed.

Lemma nth_Forall {A} (P : A -> Prop) d : P d -> forall l n, Forall P l -> P (nth n l d).
Proof.
  intros Hd l. induction l as [|x l IH]; intros [|n] H; cbn [nth]; try exact Hd.
  - inversion H; assumption.
  - apply IH. inversion H; assumption.
Qed.

Lemma octets_nil : octets []. Proof. constructor. Qed.

Lemma octets_cons_inv a r : octets (a :: r) -> a < 256 /\ octets r.
Proof. intros H. inversion H; subst. split; assumption. Qed.
Ltac inv_octets :=
  repeat match goal with H : octets (_ :: _) |- _ => apply octets_cons_inv in H; destruct H as [? H] end.

Lemma octets_app a b : octets a -> octets b -> octets (a ++ b).
Proof. intros Ha Hb. apply Forall_app. split; assumption. Qed.

Lemma octets_firstn n : forall l, octets l -> octets (firstn n l).
Proof.
  induction n as [|n IH]; intros l H; [constructor|].
  destruct H as [|b r Hb Hr]; cbn [firstn]; constructor; [exact Hb|apply IH; exact Hr].
Qed.

Lemma octets_repeat0 n : octets (repeat 0 n).
Proof. induction n as [|n IH]; constructor; [reflexivity|exact IH]. Qed.

Lemma octets_map_any (f : N -> N) : (forall b, f b < 256) -> forall l, octets (map f l).
Proof. intros Hf l. induction l as [|x l IH]; constructor; [apply Hf|exact IH]. Qed.

(* ---- byte functions ---- *)
Lemma sbox_octets : octets sbox.
Proof. unfold sbox. repeat (constructor; [reflexivity|]). constructor. Qed.

Lemma sub_byte_lt b : sub_byte b < 256.
Proof. unfold sub_byte. apply (nth_Forall (fun b => b < 256)); [reflexivity|exact sbox_octets]. Qed.

Lemma xtime_lt b : b < 256 -> xtime b < 256.
Proof.
  intros Hb. unfold xtime. destruct (N.testbit b 7) eqn:T.
  - apply lxor256; [apply land_255_lt|reflexivity].
  - rewrite N.testbit_eqb in T. change (2 ^ 7) with 128 in T.
    rewrite N.shiftl_mul_pow2. change (2 ^ 1) with 2.
    apply N.eqb_neq in T.
    assert (Q : b / 128 < 2) by (apply N.div_lt_upper_bound; [discriminate|exact Hb]).
    assert (Q0 : b / 128 = 0).
    { set (q := b / 128) in *. clearbody q.
      destruct (N.eq_dec q 0) as [E|E]; [exact E|]. exfalso. apply T.
      assert (E1 : q = 1) by lia. rewrite E1. reflexivity. }
    apply N.div_small_iff in Q0; [|discriminate]. lia.
Qed.

Lemma xor_list_octets : forall a b, octets a -> octets b -> octets (xor_list a b).
Proof.
  induction a as [|x a IH]; intros [|y b] Ha Hb; cbn [xor_list]; try assumption.
  inversion Ha as [|? ? Hx Ha']; subst. inversion Hb as [|? ? Hy Hb']; subst.
  constructor; [apply lxor256; assumption|apply IH; assumption].
Qed.

Lemma take16_octets l : octets l -> octets (take16 l).
Proof. intros H. unfold take16. apply octets_firstn, octets_app; [exact H|apply octets_repeat0]. Qed.

Lemma sub_bytes_octets s : octets (sub_bytes s).
Proof. apply octets_map_any, sub_byte_lt. Qed.

Lemma shift_rows_map (f : N -> N) s : shift_rows (map f s) = map f (shift_rows s).
Proof. do 16 (destruct s as [|? s]; [reflexivity|]). destruct s; reflexivity. Qed.

Lemma shift_sub_octets s : octets (shift_rows (sub_bytes s)).
Proof. unfold sub_bytes. rewrite shift_rows_map. apply octets_map_any, sub_byte_lt. Qed.

Lemma mix_col_octets a0 a1 a2 a3 : a0 < 256 -> a1 < 256 -> a2 < 256 -> a3 < 256 -> octets (mix_col a0 a1 a2 a3).
Proof.
  intros H0 H1 H2 H3. unfold mix_col. cbv zeta.
  pose proof (xtime_lt a0 H0). pose proof (xtime_lt a1 H1). pose proof (xtime_lt a2 H2). pose proof (xtime_lt a3 H3).
  repeat constructor; repeat apply lxor256; assumption.
Qed.

Lemma mix_columns_octets : forall s, octets s -> octets (mix_columns s).
Proof.
  apply (list_ind4 (fun s => octets s -> octets (mix_columns s))); intros; try apply octets_nil.
  cbn [mix_columns].
  inv_octets.
  apply octets_app; [apply mix_col_octets; assumption|auto].
Qed.

(* ---- cipher ---- *)
Lemma aes_rounds_octets : forall rks s, Forall octets rks -> octets s -> octets (aes_rounds rks s).
Proof.
  induction rks as [|rk rest IH]; intros s Hr Hs; [exact Hs|].
  inversion Hr as [|? ? Hrk Hrest]; subst.
  destruct rest as [|rk2 rest2].
  - cbn [aes_rounds]. apply xor_list_octets; [apply shift_sub_octets|exact Hrk].
  - change (aes_rounds (rk :: rk2 :: rest2) s)
      with (aes_rounds (rk2 :: rest2) (add_round_key (mix_columns (shift_rows (sub_bytes s))) rk)).
    apply IH; [exact Hrest|].
    apply xor_list_octets; [apply mix_columns_octets, shift_sub_octets|exact Hrk].
Qed.

Theorem aes_encrypt_rk_octets : forall rks blk, Forall octets rks -> octets blk -> octets (aes_encrypt_rk rks blk).
Proof.
  intros [|rk0 rest] blk Hr Hb; cbn [aes_encrypt_rk]; apply take16_octets; [exact Hb|].
  inversion Hr as [|? ? H0 Hrest]; subst.
  apply aes_rounds_octets; [exact Hrest|apply xor_list_octets; assumption].
Qed.

(* ---- key expansion ---- *)
Lemma words4_octets : forall l, octets l -> Forall octets (words4 l).
Proof.
  apply (list_ind4 (fun l => octets l -> Forall octets (words4 l))); intros; try constructor.
  - inv_octets.
    repeat constructor; assumption.
  - inv_octets. auto.
Qed.

Lemma group4_octets : forall ws, Forall octets ws -> Forall octets (group4 ws).
Proof.
  apply (list_ind4 (fun ws => Forall octets ws -> Forall octets (group4 ws))); intros; try constructor.
  - repeat match goal with H : Forall octets (_ :: _) |- _ => inversion H; clear H; subst end.
    repeat apply octets_app; assumption.
  - repeat match goal with H : Forall octets (_ :: _) |- _ => inversion H; clear H; subst end. auto.
Qed.

Lemma rot_word_octets w : octets w -> octets (rot_word w).
Proof.
  intros H. unfold rot_word.
  destruct w as [|a [|b [|c [|d [|e w]]]]]; try exact H.
  inv_octets.
  repeat constructor; assumption.
Qed.

Lemma sub_word_octets w : octets (sub_word w).
Proof. apply octets_map_any, sub_byte_lt. Qed.

Lemma expand_words_octets : forall fuel i nk rcon w,
  rcon < 256 -> Forall octets w -> Forall octets (expand_words fuel i nk rcon w).
Proof.
  induction fuel as [|f IH]; intros i nk rcon w Hr Hw; [exact Hw|].
  cbn [expand_words].
  assert (Hn : forall n, octets (nth n w [])) by (intros n; apply (nth_Forall octets); [apply octets_nil|exact Hw]).
  destruct (i mod nk =? 0)%nat; [|destruct ((6 <? nk) && (i mod nk =? 4))%nat].
  - apply IH; [apply xtime_lt; exact Hr|]. apply Forall_app. split; [exact Hw|]. constructor; [|constructor].
    apply xor_list_octets; [apply Hn|]. apply xor_list_octets; [apply sub_word_octets|].
    repeat (constructor; [first [exact Hr|reflexivity]|]). constructor.
  - apply IH; [exact Hr|]. apply Forall_app. split; [exact Hw|]. constructor; [|constructor].
    apply xor_list_octets; [apply Hn|apply sub_word_octets].
  - apply IH; [exact Hr|]. apply Forall_app. split; [exact Hw|]. constructor; [|constructor].
    apply xor_list_octets; apply Hn.
Qed.

Lemma expand_key_octets nk key : octets key -> Forall octets (expand_key nk key).
Proof.
  intros H. unfold expand_key. apply group4_octets, expand_words_octets; [reflexivity|].
  apply words4_octets. exact H.
Qed.

Theorem aes_key_expand_octets : forall key, octets key -> Forall octets (aes_key_expand key).
Proof.
  intros key H. unfold aes_key_expand.
  set (n := length key). clearbody n.
  do 33 (destruct n as [|n]; [first [apply expand_key_octets; exact H | constructor]|]).
  constructor.
Qed.

Corollary aes_block_octets : forall key blk, octets key -> octets blk ->
  octets (aes_encrypt_rk (aes_key_expand key) blk).
Proof. intros key blk Hk Hb. apply aes_encrypt_rk_octets; [apply aes_key_expand_octets; exact Hk|exact Hb]. Qed.
Print Assumptions aes_block_octets.
