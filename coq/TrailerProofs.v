(* TrailerProofs.v — the session-wide trailer-length query (srtp_get_protect_trailer_length /
   srtp_get_protect_rtcp_trailer_length, Session.trailer_length) covers every stream of the session:
   its value bounds the trailer of the template and of every stream whose own query succeeds, it is the
   maximum of those values, it fails exactly when nothing contributes, and (through the length theorems
   of LengthProofs.v / AeadBoundsRtp.v / AeadBoundsRtcp.v) it bounds the number of octets a successful
   protect call appends. *)
From Coq Require Import NArith ZArith List Bool Lia.
From Srtp Require Import Util Constants KeyLimit Rdb Rdbx Icm World Stream Rtp Rtcp Session MonadLemmas
                         EnvelopeProofs WfProofs BoundsRtcp BoundsRtp LengthProofs Aead AeadBoundsRtp AeadBoundsRtcp RtpExamples.
Import ListNotations.
Local Open Scope Z_scope.

(* ===================================================================== *)
(* 1. the fold of trailer_length, in closed form                          *)
(* ===================================================================== *)
(* s is the template or a member of the stream list *)
Definition covered (ss : session) (s : stream) : Prop := ss_template ss = Some s \/ In s (ss_list ss).

Definition tr_ok (is_rtp : bool) (mki : Z) (s : stream) : bool := fst (stream_trailer s is_rtp mki) =? st_ok.
Definition tr_len (is_rtp : bool) (mki : Z) (s : stream) : Z := snd (stream_trailer s is_rtp mki).

(* the accumulator step and the initial accumulator of Session.trailer_length *)
Definition tr_step (is_rtp : bool) (mki : Z) (acc : bool * Z) (s : stream) : bool * Z :=
  let '(st, l) := stream_trailer s is_rtp mki in
  if st =? st_ok then (true, if snd acc <? l then l else snd acc) else acc.
Definition tr_init (is_rtp : bool) (mki : Z) (ss : session) : bool * Z :=
  match ss_template ss with
  | Some t => (true, snd (stream_trailer t is_rtp mki))
  | None => (false, 0)
  end.
(* the value the template contributes (whatever its status), 0 without a template *)
Definition tr_base (is_rtp : bool) (mki : Z) (ss : session) : Z :=
  match ss_template ss with Some t => tr_len is_rtp mki t | None => 0 end.
(* the query's value, as a maximum *)
Definition tr_max (is_rtp : bool) (mki : Z) (ss : session) : Z :=
  fold_left Z.max (map (tr_len is_rtp mki) (filter (tr_ok is_rtp mki) (ss_list ss))) (tr_base is_rtp mki ss).

Lemma trailer_length_unfold is_rtp mki w :
  trailer_length is_rtp mki w =
  (w, if fst (fold_left (tr_step is_rtp mki) (ss_list (w_s w)) (tr_init is_rtp mki (w_s w)))
      then inl (snd (fold_left (tr_step is_rtp mki) (ss_list (w_s w)) (tr_init is_rtp mki (w_s w))))
      else inr st_bad_param).
Proof.
  unfold trailer_length, bind, get_s. cbv zeta.
  change (fun (acc : bool * Z) (s : stream) =>
            let '(st, l) := stream_trailer s is_rtp mki in
            if st =? st_ok then (true, if snd acc <? l then l else snd acc) else acc)
    with (tr_step is_rtp mki).
  change (match ss_template (w_s w) with
          | Some t => (true, snd (stream_trailer t is_rtp mki))
          | None => (false, 0)
          end) with (tr_init is_rtp mki (w_s w)).
  destruct (fst (fold_left (tr_step is_rtp mki) (ss_list (w_s w)) (tr_init is_rtp mki (w_s w)))); reflexivity.
Qed.

Lemma tr_step_eq is_rtp mki acc s :
  tr_step is_rtp mki acc s =
  if tr_ok is_rtp mki s then (true, Z.max (snd acc) (tr_len is_rtp mki s)) else acc.
Proof.
  unfold tr_step, tr_ok, tr_len. destruct (stream_trailer s is_rtp mki) as [st l]. cbn [fst snd].
  destruct (st =? st_ok); [|reflexivity]. f_equal.
  destruct (snd acc <? l) eqn:E; [apply Z.ltb_lt in E|apply Z.ltb_ge in E]; lia.
Qed.

Lemma fold_tr_step is_rtp mki l acc :
  fold_left (tr_step is_rtp mki) l acc =
  (fst acc || existsb (tr_ok is_rtp mki) l,
   fold_left Z.max (map (tr_len is_rtp mki) (filter (tr_ok is_rtp mki) l)) (snd acc)).
Proof.
  revert acc. induction l as [|s t IH]; intros acc.
  - cbn. rewrite orb_false_r. destruct acc; reflexivity.
  - cbn [fold_left existsb filter]. rewrite IH, tr_step_eq.
    destruct (tr_ok is_rtp mki s); cbn [fst snd map fold_left orb].
    + rewrite orb_true_r. reflexivity.
    + reflexivity.
Qed.

(* ---- maxima ---- *)
Lemma fold_max_ge_init xs a : a <= fold_left Z.max xs a.
Proof. revert a. induction xs as [|x t IH]; intros a; cbn; [lia|]. specialize (IH (Z.max a x)). lia. Qed.
Lemma fold_max_ge_in xs a x : In x xs -> x <= fold_left Z.max xs a.
Proof.
  revert a. induction xs as [|y t IH]; intros a H; cbn; [contradiction|]. destruct H as [->|H].
  - pose proof (fold_max_ge_init t (Z.max a x)). lia.
  - exact (IH _ H).
Qed.
Lemma fold_max_attained xs a : fold_left Z.max xs a = a \/ In (fold_left Z.max xs a) xs.
Proof.
  revert a. induction xs as [|y t IH]; intros a; cbn; [left; reflexivity|].
  destruct (IH (Z.max a y)) as [E|I]; [|right; right; exact I].
  rewrite E. destruct (Z.max_spec a y) as [[_ M]|[_ M]]; rewrite M; [right; left; reflexivity|left; reflexivity].
Qed.

(* a failing per-stream query reports length 0 *)
Lemma stream_trailer_status s is_rtp mki :
  fst (stream_trailer s is_rtp mki) = st_ok \/
  stream_trailer s is_rtp mki = (st_bad_mki, 0).
Proof.
  unfold stream_trailer.
  destruct (s_use_mki s && ((mki <? 0) || (lenZ (s_keys s) <=? mki))); [right; reflexivity|].
  destruct (nth_error (s_keys s) (zn (if s_use_mki s then mki else 0))); [left|right]; reflexivity.
Qed.
Lemma stream_trailer_not_ok_zero s is_rtp mki :
  fst (stream_trailer s is_rtp mki) <> st_ok -> snd (stream_trailer s is_rtp mki) = 0.
Proof. intros H. destruct (stream_trailer_status s is_rtp mki) as [E|E]; [contradiction|rewrite E; reflexivity]. Qed.

Lemma tr_ok_iff is_rtp mki s : tr_ok is_rtp mki s = true <-> fst (stream_trailer s is_rtp mki) = st_ok.
Proof. unfold tr_ok. apply Z.eqb_eq. Qed.

(* the whole function: never changes the world; value and failure in closed form *)
Theorem trailer_length_eq is_rtp mki w :
  trailer_length is_rtp mki w =
  (w, if match ss_template (w_s w) with Some _ => true | None => false end
         || existsb (tr_ok is_rtp mki) (ss_list (w_s w))
      then inl (tr_max is_rtp mki (w_s w)) else inr st_bad_param).
Proof.
  rewrite trailer_length_unfold, fold_tr_step. cbn [fst snd]. unfold tr_max, tr_base, tr_init, tr_len.
  destruct (ss_template (w_s w)); reflexivity.
Qed.

(* ===================================================================== *)
(* 2. the theorems                                                        *)
(* ===================================================================== *)
(* (1) a successful query leaves the world alone; its value bounds the trailer of every stream (template or
   list member) whose own query succeeds for that mki_index, and of the template whatever its status (the
   template contributes snd (stream_trailer t ..), which is 0 when its status is not ok); and the value is
   attained: by a list member with status ok, or it is the template's contribution, or — without a template —
   it is 0 (the fold starts from 0, so list members with a NEGATIVE trailer cannot pull it below 0; see
   trailer_length_attained_refuted and, for well-formed sessions, trailer_length_ok_attained_wf). *)
Theorem trailer_length_ok_covers is_rtp mki w w' n :
  trailer_length is_rtp mki w = (w', inl n) ->
  w' = w /\
  (forall s, covered (w_s w) s -> fst (stream_trailer s is_rtp mki) = st_ok ->
             snd (stream_trailer s is_rtp mki) <= n) /\
  (forall t, ss_template (w_s w) = Some t -> snd (stream_trailer t is_rtp mki) <= n) /\
  n = tr_max is_rtp mki (w_s w) /\
  ((exists s, In s (ss_list (w_s w)) /\ fst (stream_trailer s is_rtp mki) = st_ok /\
              n = snd (stream_trailer s is_rtp mki)) \/
   (exists t, ss_template (w_s w) = Some t /\ n = snd (stream_trailer t is_rtp mki)) \/
   (ss_template (w_s w) = None /\ n = 0 /\
    exists s, In s (ss_list (w_s w)) /\ fst (stream_trailer s is_rtp mki) = st_ok)).
Proof.
  rewrite trailer_length_eq. intros H.
  destruct ((match ss_template (w_s w) with Some _ => true | None => false end)
            || existsb (tr_ok is_rtp mki) (ss_list (w_s w))) eqn:EB; [|discriminate].
  injection H as <- <-. split; [reflexivity|].
  assert (HT : forall t, ss_template (w_s w) = Some t -> snd (stream_trailer t is_rtp mki) <= tr_max is_rtp mki (w_s w)).
  { intros t Ht. unfold tr_max, tr_base. rewrite Ht. apply fold_max_ge_init. }
  assert (HL : forall s, In s (ss_list (w_s w)) -> fst (stream_trailer s is_rtp mki) = st_ok ->
                         snd (stream_trailer s is_rtp mki) <= tr_max is_rtp mki (w_s w)).
  { intros s Hs Hok. unfold tr_max. apply fold_max_ge_in.
    change (snd (stream_trailer s is_rtp mki)) with (tr_len is_rtp mki s). apply in_map.
    apply filter_In. split; [exact Hs|apply tr_ok_iff; exact Hok]. }
  split; [|split; [exact HT|split; [reflexivity|]]].
  { intros s [Ht|Hs] Hok; [exact (HT s Ht)|exact (HL s Hs Hok)]. }
  unfold tr_max.
  destruct (fold_max_attained (map (tr_len is_rtp mki) (filter (tr_ok is_rtp mki) (ss_list (w_s w))))
                              (tr_base is_rtp mki (w_s w))) as [E|I].
  - unfold tr_max in *. rewrite E. unfold tr_base. destruct (ss_template (w_s w)) as [t|] eqn:ET.
    + right. left. exists t. split; reflexivity.
    + right. right. split; [reflexivity|]. split; [reflexivity|].
      cbn [orb] in EB. apply existsb_exists in EB. destruct EB as (s & Hs & Hok).
      exists s. split; [exact Hs|apply tr_ok_iff; exact Hok].
  - left. apply in_map_iff in I. destruct I as (s & Es & Is). apply filter_In in Is. destruct Is as [Hs Hok].
    exists s. split; [exact Hs|]. split; [apply tr_ok_iff; exact Hok|]. symmetry. exact Es.
Qed.

(* (2) the query exits iff there is no template and no list member has status ok for that mki_index;
   the exit status is then st_bad_param and the world is unchanged *)
Theorem trailer_length_fails_iff is_rtp mki w :
  (exists w' st, trailer_length is_rtp mki w = (w', inr st)) <->
  (ss_template (w_s w) = None /\
   forall s, In s (ss_list (w_s w)) -> fst (stream_trailer s is_rtp mki) <> st_ok).
Proof.
  rewrite trailer_length_eq. split.
  - intros (w' & st & H).
    destruct ((match ss_template (w_s w) with Some _ => true | None => false end)
              || existsb (tr_ok is_rtp mki) (ss_list (w_s w))) eqn:EB; [discriminate|].
    apply orb_false_iff in EB. destruct EB as [E1 E2]. split.
    + destruct (ss_template (w_s w)); [discriminate|reflexivity].
    + intros s Hs Hok. apply tr_ok_iff in Hok.
      assert (X : existsb (tr_ok is_rtp mki) (ss_list (w_s w)) = true) by (apply existsb_exists; exists s; auto).
      rewrite X in E2. discriminate.
  - intros [E1 E2]. exists w, st_bad_param. rewrite E1. cbn [orb].
    destruct (existsb (tr_ok is_rtp mki) (ss_list (w_s w))) eqn:EB; [|reflexivity].
    apply existsb_exists in EB. destruct EB as (s & Hs & Hok). apply tr_ok_iff in Hok. destruct (E2 s Hs Hok).
Qed.
Theorem trailer_length_exit_inv is_rtp mki w w' st :
  trailer_length is_rtp mki w = (w', inr st) -> w' = w /\ st = st_bad_param.
Proof.
  rewrite trailer_length_eq.
  destruct ((match ss_template (w_s w) with Some _ => true | None => false end)
            || existsb (tr_ok is_rtp mki) (ss_list (w_s w))); [discriminate|].
  intros H. injection H as <- <-. auto.
Qed.
(* the same with the exact result on the left *)
Corollary trailer_length_bad_param_iff is_rtp mki w :
  trailer_length is_rtp mki w = (w, inr st_bad_param) <->
  (ss_template (w_s w) = None /\
   forall s, In s (ss_list (w_s w)) -> fst (stream_trailer s is_rtp mki) <> st_ok).
Proof.
  rewrite <- trailer_length_fails_iff. split.
  - intros H. exists w, st_bad_param. exact H.
  - intros (w' & st & H). destruct (trailer_length_exit_inv _ _ _ _ _ H) as [-> ->]. exact H.
Qed.

(* a stream that the session holds and whose own query succeeds makes the session query succeed, with a
   value at least that stream's *)
Lemma query_covers_stream is_rtp mki w s len :
  covered (w_s w) s -> stream_trailer s is_rtp mki = (st_ok, len) ->
  exists n, trailer_length is_rtp mki w = (w, inl n) /\ len <= n.
Proof.
  intros Hc Hs. destruct (trailer_length is_rtp mki w) as [w' [n|e]] eqn:E.
  - destruct (trailer_length_ok_covers _ _ _ _ _ E) as (-> & B & _). exists n. split; [reflexivity|].
    specialize (B s Hc). rewrite Hs in B. exact (B eq_refl).
  - exfalso. assert (F : exists w' st, trailer_length is_rtp mki w = (w', inr st)) by (exists w', e; exact E).
    apply trailer_length_fails_iff in F. destruct F as [F1 F2]. destruct Hc as [Ht|Hl].
    + rewrite Ht in F1. discriminate.
    + apply (F2 s Hl). rewrite Hs. reflexivity.
Qed.

(* ---- well-formed sessions: all contributions are >= 0, so the value is attained by a stream ---- *)
Lemma stream_trailer_nonneg s is_rtp mki : stream_wf s -> 0 <= snd (stream_trailer s is_rtp mki).
Proof.
  intros (M & _ & F). unfold stream_trailer.
  destruct (s_use_mki s && ((mki <? 0) || (lenZ (s_keys s) <=? mki))); [cbn; lia|].
  destruct (nth_error (s_keys s) (zn (if s_use_mki s then mki else 0))) as [k|] eqn:EK; [|cbn; lia].
  apply nth_error_In in EK. rewrite Forall_forall in F. destruct (F k EK) as (_ & (T1 & _) & (T2 & _)).
  cbn [snd]. unfold sizeof_srtcp_trailer_c. destruct is_rtp, (s_use_mki s); lia.
Qed.
Theorem trailer_length_ok_attained_wf is_rtp mki w w' n :
  session_wf (w_s w) ->
  trailer_length is_rtp mki w = (w', inl n) ->
  0 <= n /\ exists s, covered (w_s w) s /\ n = snd (stream_trailer s is_rtp mki).
Proof.
  intros [WT WL] H. destruct (trailer_length_ok_covers _ _ _ _ _ H) as (_ & B & _ & _ & A).
  rewrite Forall_forall in WL.
  destruct A as [(s & Hs & Hok & En)|[(t & Ht & En)|(ET & En & s & Hs & Hok)]].
  - split; [rewrite En; apply stream_trailer_nonneg, WL, Hs|]. exists s. split; [right; exact Hs|exact En].
  - split; [rewrite En; apply stream_trailer_nonneg, WT, Ht|]. exists t. split; [left; exact Ht|exact En].
  - split; [lia|]. exists s. split; [right; exact Hs|].
    pose proof (B s (or_intror Hs) Hok). pose proof (stream_trailer_nonneg s is_rtp mki (WL s Hs)). lia.
Qed.

(* ===================================================================== *)
(* 3. the sender: what a successful protect appends is within the query   *)
(* ===================================================================== *)
(* the stream's own query, for the key the sender uses (sender_key of LengthProofs.v).  With an MKI in
   use sender_key reads index (zn i) = 0 for a negative i whereas the query (like keys_by_index) refuses
   it, hence the side condition. *)
Lemma sender_key_trailer st i k is_rtp :
  stream_wf st -> sender_key st i = Some k -> (s_use_mki st = true -> 0 <= i) ->
  stream_trailer st is_rtp i =
  (st_ok, if is_rtp then s_mki_size st + ak_tag (k_rtp_a k)
          else s_mki_size st + ak_tag (k_rtcp_a k) + sizeof_srtcp_trailer_c).
Proof.
  intros (_ & U & _) Hk Hi. unfold sender_key in Hk. unfold stream_trailer.
  destruct (s_use_mki st) eqn:EU.
  - specialize (Hi eq_refl).
    assert (L : i < lenZ (s_keys st)).
    { assert (X : nth_error (s_keys st) (zn i) <> None) by (rewrite Hk; discriminate).
      apply nth_error_Some in X. unfold lenZ, zn in *. lia. }
    replace (i <? 0) with false by (symmetry; apply Z.ltb_ge; lia).
    replace (lenZ (s_keys st) <=? i) with false by (symmetry; apply Z.leb_gt; lia).
    cbn [andb orb]. rewrite Hk. reflexivity.
  - cbn [andb]. rewrite Hk. rewrite (U eq_refl). reflexivity.
Qed.

Lemma pkt_stream_covered ss x st : pkt_stream ss x = Some st -> covered ss st.
Proof.
  unfold pkt_stream, covered. destruct (list_get (ss_list ss) x) as [s1|] eqn:E; intros H.
  - injection H as <-. right. clear -E. induction (ss_list ss) as [|a t IH]; cbn in E; [discriminate|].
    destruct (s_ssrc a =? x); [injection E as ->; left; reflexivity|right; exact (IH E)].
  - left. exact H.
Qed.

Lemma within_query is_rtp w i st k :
  session_wf (w_s w) -> covered (w_s w) st -> sender_key st i = Some k ->
  (s_use_mki st = true -> 0 <= i) ->
  exists n, trailer_length is_rtp i w = (w, inl n) /\
            (if is_rtp then s_mki_size st + ak_tag (k_rtp_a k)
             else s_mki_size st + ak_tag (k_rtcp_a k) + sizeof_srtcp_trailer_c) <= n.
Proof.
  intros [WT WL] Hc Hk Hi.
  assert (Wst : stream_wf st).
  { destruct Hc as [Ht|Hl]; [exact (WT _ Ht)|]. rewrite Forall_forall in WL. exact (WL _ Hl). }
  apply (query_covers_stream is_rtp i w st _ Hc).
  apply sender_key_trailer; [exact Wst|exact Hk|exact Hi].
Qed.

(* ===================================================================== *)
(* 4. a successful protect never has a negative index reach a stream     *)
(*    that uses an MKI (so the side condition above holds by itself)      *)
(* ===================================================================== *)
(* (only the common prefix of the four protect functions is walked: lookup, direction check, key selection;
   the length statements themselves are the existing theorems) *)
Lemma h_const {A} (P : world -> Prop) (m : M A) (F : Prop) : F -> hoare P m (fun _ _ => F) TT.
Proof. intros HF w _. destruct (m w) as [w' [a|st]]; [exact HF|exact I]. Qed.

Lemma r_keys_by_index_idx st i :
  returns (keys_by_index st i) (fun _ => s_use_mki st = true -> 0 <= i).
Proof.
  intros w w' a E U. unfold keys_by_index in E. rewrite U in E. cbn [andb] in E.
  destruct (i <? 0) eqn:E0; [cbn [orb] in E; discriminate|]. apply Z.ltb_ge in E0. exact E0.
Qed.

Lemma sender_prefix_idx {B} w0 x flag i (k : sref -> stream -> Z * skeys -> M B) :
  hoare (eq w0)
        (r <- lookup_or_clone x flag ;; check_direction r dir_srtp_sender_c ;;;
         st <- get_stream r ;; ik <- keys_by_index st i ;; k r st ik)
        (fun _ _ => exists st0, pkt_stream (w_s w0) x = Some st0 /\ (s_use_mki st0 = true -> 0 <= i)) TT.
Proof.
  eapply h_bind; [apply lookup_or_clone_Sx|intros r]. apply h_pure; intros ->.
  apply h_ex; intros st0. apply h_pure; intros Hst0.
  eapply h_bind; [apply check_direction_Sx|intros ?].
  eapply h_bind; [apply get_stream_Sx|intros st]. apply h_pure; intros Hc.
  eapply h_bind; [apply (h_sbP _ _ _ (sb_keys_by_index st i) (r_keys_by_index_idx st i) (Sx_sess_only x st0))|intros ik].
  apply h_pure; intros Hi. apply h_const. exists st0. split; [exact Hst0|].
  destruct Hc as (_ & _ & U & _). rewrite <- U. exact Hi.
Qed.

Lemma protect_index w0 i w' l :
  protect i w0 = (w', inl l) ->
  exists st0, pkt_stream (w_s w0) (hdr_ssrc (take (zn (b_len (w_b w0))) (cur_src (w_b w0)))) = Some st0 /\
              (s_use_mki st0 = true -> 0 <= i).
Proof.
  apply (hoare_returns (protect i) (eq w0) _ w0 w' l); [|reflexivity].
  unfold protect.
  eapply h_bind; [apply h_get_b_eq|intros b]. apply h_pure; intros ->. cbv beta zeta.
  eapply h_bind; [apply h_check_stP|intros ?]. apply h_pure; intros _.
  apply sender_prefix_idx.
Qed.
Lemma protect_aead_index w0 i w' l :
  protect_aead i w0 = (w', inl l) ->
  exists st0, pkt_stream (w_s w0) (hdr_ssrc (take (zn (b_len (w_b w0))) (cur_src (w_b w0)))) = Some st0 /\
              (s_use_mki st0 = true -> 0 <= i).
Proof.
  apply (hoare_returns (protect_aead i) (eq w0) _ w0 w' l); [|reflexivity].
  unfold protect_aead.
  eapply h_bind; [apply h_get_b_eq|intros b]. apply h_pure; intros ->. cbv beta zeta.
  eapply h_bind; [apply h_check_stP|intros ?]. apply h_pure; intros _.
  apply sender_prefix_idx.
Qed.
Lemma protect_rtcp_index w0 i w' l :
  protect_rtcp i w0 = (w', inl l) ->
  exists st0, pkt_stream (w_s w0) (be32 (take (zn (b_len (w_b w0))) (cur_src (w_b w0))) 4) = Some st0 /\
              (s_use_mki st0 = true -> 0 <= i).
Proof.
  apply (hoare_returns (protect_rtcp i) (eq w0) _ w0 w' l); [|reflexivity].
  unfold protect_rtcp.
  eapply h_bind; [apply h_get_b_eq|intros b]. apply h_pure; intros ->. cbv beta zeta.
  destruct (b_len (w_b w0) <? octets_in_rtcp_header_c); [apply h_bind_exit; apply tt_any|]. apply h_bind_ret.
  apply sender_prefix_idx.
Qed.
Lemma protect_rtcp_aead_index w0 i w' l :
  protect_rtcp_aead i w0 = (w', inl l) ->
  exists st0, pkt_stream (w_s w0) (be32 (take (zn (b_len (w_b w0))) (cur_src (w_b w0))) 4) = Some st0 /\
              (s_use_mki st0 = true -> 0 <= i).
Proof.
  apply (hoare_returns (protect_rtcp_aead i) (eq w0) _ w0 w' l); [|reflexivity].
  unfold protect_rtcp_aead.
  eapply h_bind; [apply h_get_b_eq|intros b]. apply h_pure; intros ->. cbv beta zeta.
  destruct (b_len (w_b w0) <? octets_in_rtcp_header_c); [apply h_bind_exit; apply tt_any|]. apply h_bind_ret.
  apply sender_prefix_idx.
Qed.


(* ===================================================================== *)
(* 5. the corollaries                                                     *)
(* ===================================================================== *)
(* srtp_protect: the query (same mki_index) made on the session the call starts from succeeds, leaves the
   world alone, and the call appends at most that many octets.  (The packet's stream is a list member or —
   for a new SSRC — the template, which the query also counts.) *)
Theorem protect_within_query w0 i w' l :
  session_wf (w_s w0) -> size_ok (b_cap (w_b w0)) ->
  protect i w0 = (w', inl l) ->
  exists n, trailer_length true i w0 = (w0, inl n) /\ l - b_len (w_b w0) <= n.
Proof.
  intros W C H. destruct (protect_length w0 W i w' l C H) as (st & k & Hp & Hk & El & _).
  destruct (protect_index w0 i w' l H) as (st' & Hp' & Hi). rewrite Hp in Hp'. injection Hp' as <-.
  destruct (within_query true w0 i st k W (pkt_stream_covered _ _ _ Hp) Hk Hi) as (n & Hn & Le).
  exists n. split; [exact Hn|]. cbv iota in Le. lia.
Qed.
Theorem protect_rtcp_within_query w0 i w' l :
  session_wf (w_s w0) -> size_ok (b_cap (w_b w0)) ->
  protect_rtcp i w0 = (w', inl l) ->
  exists n, trailer_length false i w0 = (w0, inl n) /\ l - b_len (w_b w0) <= n.
Proof.
  intros W C H. destruct (protect_rtcp_length w0 i w' l W C H) as (st & k & Hp & Hk & El & _).
  destruct (protect_rtcp_index w0 i w' l H) as (st' & Hp' & Hi). rewrite Hp in Hp'. injection Hp' as <-.
  destruct (within_query false w0 i st k W (pkt_stream_covered _ _ _ Hp) Hk Hi) as (n & Hn & Le).
  exists n. split; [exact Hn|]. cbv iota in Le. unfold sizeof_srtcp_trailer_c in Le. lia.
Qed.
(* AES-GCM *)
Theorem protect_aead_within_query w0 i w' l :
  b_oob (w_b w0) = false -> size_ok (b_len (w_b w0)) -> b_cap (w_b w0) <= lenZ (b_dst (w_b w0)) ->
  (b_alias (w_b w0) = true -> b_len (w_b w0) <= lenZ (b_dst (w_b w0))) ->
  (b_alias (w_b w0) = false -> b_len (w_b w0) <= lenZ (b_src (w_b w0))) ->
  session_wf (w_s w0) ->
  protect_aead i w0 = (w', inl l) ->
  exists n, trailer_length true i w0 = (w0, inl n) /\ l - b_len (w_b w0) <= n.
Proof.
  intros O S C A1 A2 W H.
  destruct (protect_aead_length w0 i w' l O S C A1 A2 W H) as (st & k & Hp & Hk & El & _).
  destruct (protect_aead_index w0 i w' l H) as (st' & Hp' & Hi). rewrite Hp in Hp'. injection Hp' as <-.
  destruct (within_query true w0 i st k W (pkt_stream_covered _ _ _ Hp) Hk Hi) as (n & Hn & Le).
  exists n. split; [exact Hn|]. cbv iota in Le. lia.
Qed.
Theorem protect_rtcp_aead_within_query w0 i w' l :
  session_wf (w_s w0) -> size_ok (b_cap (w_b w0)) ->
  protect_rtcp_aead i w0 = (w', inl l) ->
  exists n, trailer_length false i w0 = (w0, inl n) /\ l - b_len (w_b w0) <= n.
Proof.
  intros W C H. destruct (protect_rtcp_aead_length w0 i w' l W C H) as (st & k & Hp & Hk & El & _).
  destruct (protect_rtcp_aead_index w0 i w' l H) as (st' & Hp' & Hi). rewrite Hp in Hp'. injection Hp' as <-.
  destruct (within_query false w0 i st k W (pkt_stream_covered _ _ _ Hp) Hk Hi) as (n & Hn & Le).
  exists n. split; [exact Hn|]. cbv iota in Le. unfold sizeof_srtcp_trailer_c in Le. lia.
Qed.

(* the same, spelled out for a packet whose SSRC is that of a list member s (MKI in use or not): the call
   appends exactly s's own trailer for that index, s's own query is ok, and the session query is at least that *)
Corollary protect_within_query_stream w0 i w' l s :
  session_wf (w_s w0) -> size_ok (b_cap (w_b w0)) ->
  list_get (ss_list (w_s w0)) (hdr_ssrc (take (zn (b_len (w_b w0))) (cur_src (w_b w0)))) = Some s ->
  protect i w0 = (w', inl l) ->
  exists k n, sender_key s i = Some k /\ l = b_len (w_b w0) + snd (stream_trailer s true i) /\
              fst (stream_trailer s true i) = st_ok /\
              trailer_length true i w0 = (w0, inl n) /\ snd (stream_trailer s true i) <= n.
Proof.
  intros W C Hs H. destruct (protect_length w0 W i w' l C H) as (st & k & Hp & Hk & El & _).
  destruct (protect_index w0 i w' l H) as (st' & Hp' & Hi). rewrite Hp in Hp'. injection Hp' as <-.
  unfold pkt_stream in Hp. rewrite Hs in Hp. injection Hp as <-.
  assert (Hc : covered (w_s w0) s).
  { apply (pkt_stream_covered _ (hdr_ssrc (take (zn (b_len (w_b w0))) (cur_src (w_b w0))))). unfold pkt_stream. rewrite Hs. reflexivity. }
  assert (Wst : stream_wf s).
  { destruct W as [WT WL]. destruct Hc as [Ht|Hl]; [exact (WT _ Ht)|]. rewrite Forall_forall in WL. exact (WL _ Hl). }
  pose proof (sender_key_trailer s i k true Wst Hk Hi) as ET.
  destruct (query_covers_stream true i w0 s _ Hc ET) as (n & Hn & Le).
  exists k, n. rewrite ET. cbn [fst snd]. repeat split; try assumption. lia.
Qed.

(* ===================================================================== *)
(* 6. examples                                                            *)
(* ===================================================================== *)
Module TrailerEx.
Definition ck0 : ckey := {| ck_alg := 0; ck_klen := 0; ck_rks := []; ck_salt := [] |}.
Definition hmac (tag : Z) : akey :=
  {| ak_kind := SRTP_HMAC_SHA1_c; ak_key := []; ak_klen := 20; ak_tag := tag; ak_prefix := 0 |}.
Definition keys (rtp_tag rtcp_tag : Z) (mki : bytes) : skeys :=
  {| k_rtp_c := ck0; k_rtp_a := hmac rtp_tag; k_xtn_c := None; k_rtcp_c := ck0; k_rtcp_a := hmac rtcp_tag;
     k_salt := []; k_csalt := []; k_mki := mki |}.
Definition mk_stream (ssrc : Z) (ks : list skeys) (use_mki : bool) (msz : Z) : stream :=
  {| s_ssrc := ssrc; s_clone := false; s_keys := ks; s_limits := map (fun _ => mk_limit) ks;
     s_rdbx := {| index := 0; wlen := 128; mask := 0%N |}; s_rdb := rdb_init;
     s_pending_roc := 0; s_dir := 0; s_rtp_serv := 3; s_rtcp_serv := 3;
     s_use_mki := use_mki; s_mki_size := msz; s_allow_repeat := false; s_cryptex := false; s_enc_xtn := [] |}.
(* template: HMAC-SHA1-32 on RTP, -80 on RTCP, no MKI: trailers 4 / 14 *)
Definition tmpl : stream := mk_stream 0 [keys 4 10 []] false 0.
(* explicit stream: HMAC-SHA1-80, 4-octet MKI, two keys: trailers 14 / 18 *)
Definition expl : stream := mk_stream 7 [keys 10 10 [1;2;3;4]%N; keys 10 10 [1;2;3;5]%N] true 4.
(* ill-formed: a negative tag length *)
Definition neg : stream := mk_stream 9 [keys (-5) (-5) []] false 0.
Definition h0 : heap := {| h_live := 0; h_att := 0; h_fail := 0; h_frees := 0; h_dirty := 0 |}.
Definition mkw (t : option stream) (l : list stream) : world :=
  {| w_s := {| ss_template := t; ss_list := l; ss_cap := 2 |};
     w_b := {| b_src := []; b_dst := []; b_alias := false; b_len := 0; b_cap := 0; b_oob := false |};
     w_ev := []; w_iv := []; w_h := h0 |}.
Definition w_both : world := mkw (Some tmpl) [expl].

Example tmpl_trailers : stream_trailer tmpl true 0 = (st_ok, 4) /\ stream_trailer tmpl false 0 = (st_ok, 14).
Proof. vm_compute. split; reflexivity. Qed.
Example expl_trailers :
  stream_trailer expl true 1 = (st_ok, 14) /\ stream_trailer expl false 1 = (st_ok, 18) /\
  stream_trailer expl true 2 = (st_bad_mki, 0) /\ stream_trailer expl true (-1) = (st_bad_mki, 0).
Proof. vm_compute. repeat split; reflexivity. Qed.

(* template (short trailer) + explicit stream (longer): the query returns the longer one *)
Example query_returns_longer :
  trailer_length true 0 w_both = (w_both, inl 14) /\ trailer_length false 1 w_both = (w_both, inl 18).
Proof. vm_compute. split; reflexivity. Qed.
(* the template alone: its value; an index the explicit stream refuses: the template's value (the template does not
   use an MKI, so the index is ignored for it) *)
Example query_template_only : trailer_length true 0 (mkw (Some tmpl) []) = (mkw (Some tmpl) [], inl 4).
Proof. vm_compute. reflexivity. Qed.
Example query_bad_index_falls_back : trailer_length true 2 w_both = (w_both, inl 4).
Proof. vm_compute. reflexivity. Qed.
(* a template whose own status is not ok still makes the query succeed, with 0 (trailer_length_ok_covers, second
   disjunct with snd (stream_trailer t ..) = 0): srtp_get_protect_trailer_length ignores the template's status *)
Example query_template_not_ok :
  fst (stream_trailer expl true 2) = st_bad_mki /\
  trailer_length true 2 (mkw (Some expl) []) = (mkw (Some expl) [], inl 0).
Proof. vm_compute. split; reflexivity. Qed.
(* failure: no template and no list member with status ok *)
Example query_fails : trailer_length true 2 (mkw None [expl]) = (mkw None [expl], inr st_bad_param).
Proof. vm_compute. reflexivity. Qed.
Example query_fails_empty : trailer_length true 0 (mkw None []) = (mkw None [], inr st_bad_param).
Proof. vm_compute. reflexivity. Qed.

(* the hypotheses of the theorems hold of w_both *)
Example w_both_wf : session_wf (w_s w_both).
Proof.
  assert (A : forall t, 0 <= t <= 16 -> akey_wf (hmac t)).
  { intros t Ht. unfold akey_wf, hmac. cbn [ak_tag ak_kind ak_prefix]. unfold SRTP_MAX_TAG_LEN_c. rewrite Z.eqb_refl. split; [exact Ht|reflexivity]. }
  split.
  - intros t Et. cbn in Et. injection Et as <-. unfold stream_wf, tmpl, mk_stream. cbn [s_mki_size s_use_mki s_keys].
    unfold SRTP_MAX_MKI_LEN_c. split; [lia|]. split; [reflexivity|].
    constructor; [|constructor]. split; [reflexivity|]. split; apply A; lia.
  - cbn [ss_list w_s w_both mkw]. constructor; [|constructor].
    unfold stream_wf, expl, mk_stream. cbn [s_mki_size s_use_mki s_keys]. unfold SRTP_MAX_MKI_LEN_c.
    split; [lia|]. split; [discriminate|].
    constructor; [|constructor; [|constructor]]; (split; [reflexivity|]; split; apply A; lia).
Qed.
Example w_both_covers :
  exists n, trailer_length true 0 w_both = (w_both, inl n) /\
            (forall s, covered (w_s w_both) s -> fst (stream_trailer s true 0) = st_ok -> snd (stream_trailer s true 0) <= n) /\
            0 <= n /\ exists s, covered (w_s w_both) s /\ n = snd (stream_trailer s true 0).
Proof.
  exists 14. assert (E : trailer_length true 0 w_both = (w_both, inl 14)) by (vm_compute; reflexivity).
  split; [exact E|]. destruct (trailer_length_ok_covers _ _ _ _ _ E) as (_ & B & _).
  split; [exact B|]. exact (trailer_length_ok_attained_wf _ _ _ _ _ w_both_wf E).
Qed.

(* REFUTED for ill-formed sessions: "the value is always attained by a stream of the session".  Without a template
   the fold starts from 0; a list member whose (ok) trailer is negative leaves it at 0, which no stream has.
   (Negative tag lengths never come out of srtp_stream_init for an accepted policy: stream_init_wf, and
   trailer_length_ok_attained_wf covers all well-formed sessions.) *)
Example trailer_length_attained_refuted :
  exists w n, trailer_length true 0 w = (w, inl n) /\
              ~ (exists s, covered (w_s w) s /\ n = snd (stream_trailer s true 0)).
Proof.
  exists (mkw None [neg]), 0. split; [vm_compute; reflexivity|].
  intros (s & [Ht|[<-|[]]] & E); [discriminate|]. vm_compute in E. discriminate.
Qed.

(* ---- end to end: a session built by srtp_create from two policies, srtp_protect run on it ---- *)
Definition akey_wf_b (a : akey) : bool :=
  (0 <=? ak_tag a) && (ak_tag a <=? SRTP_MAX_TAG_LEN_c) &&
  (if ak_kind a =? SRTP_HMAC_SHA1_c then ak_prefix a =? 0 else ak_prefix a =? ak_tag a).
Definition key_wf_b (msz : Z) (k : skeys) : bool :=
  (lenZ (k_mki k) =? msz) && akey_wf_b (k_rtp_a k) && akey_wf_b (k_rtcp_a k).
Definition stream_wf_b (st : stream) : bool :=
  (0 <=? s_mki_size st) && (s_mki_size st <=? SRTP_MAX_MKI_LEN_c) &&
  (s_use_mki st || (s_mki_size st =? 0)) && forallb (key_wf_b (s_mki_size st)) (s_keys st).
Definition session_wf_b (ss : session) : bool :=
  match ss_template ss with Some t => stream_wf_b t | None => true end && forallb stream_wf_b (ss_list ss).
Lemma akey_wf_b_ok a : akey_wf_b a = true -> akey_wf a.
Proof.
  unfold akey_wf_b, akey_wf. intros H. apply andb_prop in H. destruct H as [H H3]. apply andb_prop in H. destruct H as [H1 H2].
  apply Z.leb_le in H1, H2. split; [lia|]. destruct (ak_kind a =? SRTP_HMAC_SHA1_c); apply Z.eqb_eq; exact H3.
Qed.
Lemma stream_wf_b_ok st : stream_wf_b st = true -> stream_wf st.
Proof.
  unfold stream_wf_b, stream_wf. intros H. apply andb_prop in H. destruct H as [H H4]. apply andb_prop in H. destruct H as [H H3].
  apply andb_prop in H. destruct H as [H1 H2]. apply Z.leb_le in H1, H2. split; [lia|]. split.
  - intros U. rewrite U in H3. apply Z.eqb_eq. exact H3.
  - apply Forall_forall. intros k Hk. rewrite forallb_forall in H4. specialize (H4 k Hk). unfold key_wf_b in H4.
    apply andb_prop in H4. destruct H4 as [H5 H6]. apply andb_prop in H5. destruct H5 as [H5 H7].
    split; [apply Z.eqb_eq; exact H5|]. split; apply akey_wf_b_ok; assumption.
Qed.
Lemma session_wf_b_ok ss : session_wf_b ss = true -> session_wf ss.
Proof.
  unfold session_wf_b. intros H. apply andb_prop in H. destruct H as [H1 H2]. split.
  - intros t Et. rewrite Et in H1. apply stream_wf_b_ok. exact H1.
  - apply Forall_forall. intros s Hs. rewrite forallb_forall in H2. apply stream_wf_b_ok. exact (H2 s Hs).
Qed.

Definition cp4 : cpolicy :=
  {| cp_cipher := 1; cp_keylen := 30; cp_auth := 3; cp_authkeylen := 20; cp_taglen := 4; cp_serv := 3 |}.
(* template (ssrc_any_outbound): AES-ICM-128 / HMAC-SHA1-32, no MKI: trailer 4 *)
Definition pol_t : policy :=
  {| p_ssrc_type := ssrc_any_outbound_c; p_ssrc := 0; p_rtp := cp4; p_rtcp := cp4; p_usekey := true; p_nkeys := 0;
     p_use_mki := false; p_mki_size := 0; p_window := 0; p_allow_repeat := false; p_cryptex := false;
     p_enc_xtn := []; p_keys := [(RtpEx.key 50, [])] |}.
(* explicit SSRC 0xCAFEBABE: HMAC-SHA1-80, 2-octet MKI, two keys: trailer 12 *)
Definition pol_s : policy := RtpEx.pol true false [].
Definition sess2 : session := w_s (fst (session_create [pol_t; pol_s] Witness.w0)).
Definition pkt_known : bytes := RtpEx.pkt_empty.                              (* SSRC 0xCAFEBABE *)
Definition pkt_new : bytes := [128;96;18;54; 0;0;0;9; 1;2;3;4]%N.            (* an SSRC the session has no stream for *)
Definition w_known : world := Witness.mkw sess2 (RtpEx.inplace pkt_known).
Definition w_new : world := Witness.mkw sess2 (RtpEx.inplace pkt_new).

Example sess2_shape :
  match ss_template sess2 with Some t => s_use_mki t | None => true end = false /\
  map s_ssrc (ss_list sess2) = [RtpEx.ssrc] /\ map s_use_mki (ss_list sess2) = [true].
Proof. vm_compute. repeat split; reflexivity. Qed.
Example sess2_wf : session_wf sess2.
Proof. apply session_wf_b_ok. vm_compute. reflexivity. Qed.
(* the query: 12, from the explicit stream; the template alone would give 4 *)
Example sess2_query : snd (trailer_length true 1 w_known) = inl 12 /\ snd (trailer_length false 1 w_known) = inl 16.
Proof. vm_compute. split; reflexivity. Qed.
(* srtp_protect on a packet of the explicit stream appends 12 octets, on a packet of a new SSRC (template) 4 *)
Example sess2_protect_known : snd (protect 1 w_known) = inl (12 + 12).
Proof. vm_compute. reflexivity. Qed.
Example sess2_protect_new : snd (protect 1 w_new) = inl (12 + 4).
Proof. vm_compute. reflexivity. Qed.
(* protect_within_query applies to these calls *)
Example sess2_within :
  exists w' l n, protect 1 w_new = (w', inl l) /\ trailer_length true 1 w_new = (w_new, inl n) /\
                 l - b_len (w_b w_new) <= n /\ l - b_len (w_b w_new) = 4 /\ n = 12.
Proof.
  destruct (protect 1 w_new) as [w' [l|e]] eqn:E.
  2:{ exfalso. assert (X : snd (protect 1 w_new) = inl 16) by (vm_compute; reflexivity). rewrite E in X. discriminate. }
  assert (El : l = 16).
  { assert (X : snd (protect 1 w_new) = inl 16) by (vm_compute; reflexivity). rewrite E in X. cbn [snd] in X. congruence. }
  destruct (protect_within_query w_new 1 w' l sess2_wf) as (n & Hn & Le); [unfold size_ok; change (b_cap (w_b w_new)) with 96; lia|exact E|].
  exists w', l, n. split; [reflexivity|]. split; [exact Hn|]. split; [exact Le|]. split; [subst l; reflexivity|].
  assert (X : snd (trailer_length true 1 w_new) = inl 12) by (vm_compute; reflexivity). rewrite Hn in X. cbn [snd] in X. congruence.
Qed.
End TrailerEx.

Print Assumptions trailer_length_eq.
Print Assumptions trailer_length_ok_covers.
Print Assumptions trailer_length_fails_iff.
Print Assumptions trailer_length_exit_inv.
Print Assumptions trailer_length_bad_param_iff.
Print Assumptions query_covers_stream.
Print Assumptions trailer_length_ok_attained_wf.
Print Assumptions protect_within_query.
Print Assumptions protect_rtcp_within_query.
Print Assumptions protect_aead_within_query.
Print Assumptions protect_rtcp_aead_within_query.
Print Assumptions protect_within_query_stream.
Print Assumptions TrailerEx.query_returns_longer.
Print Assumptions TrailerEx.w_both_covers.
Print Assumptions TrailerEx.trailer_length_attained_refuted.
Print Assumptions TrailerEx.sess2_wf.
Print Assumptions TrailerEx.sess2_within.
