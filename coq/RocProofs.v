(* RocProofs.v — C16: srtp_stream_set_roc takes effect on the next packet and
   later sequence-number wraps still advance the rollover counter. *)
From Coq Require Import NArith ZArith List Bool Lia.
From Srtp Require Import Util Constants KeyLimit Rdb Rdbx Icm World Stream Rtp Session MonadLemmas
  IndexProofs TableProofs.
Import ListNotations.
Local Open Scope Z_scope.
Ltac Zify.zify_post_hook ::= Z.div_mod_to_equations.

Ltac consts :=
  change (2 ^ 15) with 32768 in *; change (2 ^ 16) with 65536 in *;
  change (2 ^ 32) with 4294967296 in *; change (2 ^ 48) with 281474976710656 in *;
  change (2 ^ 63) with 9223372036854775808 in *.

(* ===================================================================== *)
(* 1. set_roc: the stream's pending ROC becomes r, nothing else changes    *)

Lemma set_pending_fields s r :
  s_pending_roc (set_pending s r) = r /\
  s_ssrc (set_pending s r) = s_ssrc s /\ s_clone (set_pending s r) = s_clone s /\
  s_keys (set_pending s r) = s_keys s /\ s_limits (set_pending s r) = s_limits s /\
  s_rdbx (set_pending s r) = s_rdbx s /\ s_rdb (set_pending s r) = s_rdb s /\
  s_dir (set_pending s r) = s_dir s /\
  s_rtp_serv (set_pending s r) = s_rtp_serv s /\ s_rtcp_serv (set_pending s r) = s_rtcp_serv s /\
  s_use_mki (set_pending s r) = s_use_mki s /\ s_mki_size (set_pending s r) = s_mki_size s /\
  s_allow_repeat (set_pending s r) = s_allow_repeat s /\ s_cryptex (set_pending s r) = s_cryptex s /\
  s_enc_xtn (set_pending s r) = s_enc_xtn s.
Proof. cbn. repeat split. Qed.

Theorem set_roc_effect ssrc r w w' :
  set_roc ssrc r w = (w', inl tt) ->
  exists s,
    list_get (ss_list (w_s w)) ssrc = Some s /\
    list_get (ss_list (w_s w')) ssrc = Some (set_pending s r) /\
    s_pending_roc (set_pending s r) = r /\
    s_rdbx (set_pending s r) = s_rdbx s /\
    (forall y, y <> ssrc -> list_get (ss_list (w_s w')) y = list_get (ss_list (w_s w)) y) /\
    map s_ssrc (ss_list (w_s w')) = map s_ssrc (ss_list (w_s w)) /\
    ss_template (w_s w') = ss_template (w_s w) /\ ss_cap (w_s w') = ss_cap (w_s w) /\
    w_h w' = w_h w /\ w_ev w' = w_ev w /\ w_b w' = w_b w /\ w_iv w' = w_iv w.
Proof.
  rewrite set_roc_spec. destruct (list_get (ss_list (w_s w)) ssrc) as [s|] eqn:G; [|discriminate].
  intros H. injection H as <-. exists s. cbn [with_s w_s w_h w_ev w_b w_iv ss_list ss_template ss_cap].
  pose proof (list_get_ssrc _ _ _ G) as Hs.
  assert (Hn : s_ssrc (set_pending s r) = ssrc) by exact Hs.
  split; [reflexivity|].
  split; [rewrite (list_get_replace_same _ _ _ Hn), G; reflexivity|].
  split; [reflexivity|]. split; [reflexivity|].
  split; [intros y N; apply list_get_replace_other; assumption|].
  split; [apply map_ssrc_replace; exact Hn|].
  repeat split.
Qed.

(* ===================================================================== *)
(* 2. the next packet is estimated with the imposed ROC                    *)

Lemma est_index_pending_eq st seq :
  s_pending_roc st <> 0 -> est_index st seq = estimate_pending (s_rdbx st) (s_pending_roc st) seq.
Proof.
  intros N. unfold est_index. destruct (s_pending_roc st =? 0) eqn:E; [apply Z.eqb_eq in E; contradiction|].
  reflexivity.
Qed.

Lemma est_index_natural_eq st seq :
  s_pending_roc st = 0 -> est_index st seq = (st_ok, fst (estimate (s_rdbx st) seq), snd (estimate (s_rdbx st) seq)).
Proof. intros E. unfold est_index. rewrite E. cbn [Z.eqb negb]. destruct (estimate _ _); reflexivity. Qed.

Lemma rdbx_roc_small rx : 0 <= index rx < 2 ^ 48 -> rdbx_roc rx = index rx / 65536.
Proof. intros H. unfold rdbx_roc, u32. consts. lia. Qed.

Theorem est_index_pending_spec st seq :
  let r := s_pending_roc st in
  let est := r * 65536 + seq in
  r <> 0 -> 0 <= index (s_rdbx st) < 2 ^ 48 -> 0 <= r < 2 ^ 32 -> 0 <= seq < 2 ^ 16 ->
  exists es d,
    est_index st seq = (es, est, d) /\
    (es = st_ok <-> Z.abs (est - index (s_rdbx st)) <= 2 ^ 15) /\
    (es = st_pkt_idx_adv <-> est - index (s_rdbx st) > 2 ^ 15) /\
    (es = st_pkt_idx_old <-> index (s_rdbx st) - est > 2 ^ 15) /\
    (es = st_ok -> d = est - index (s_rdbx st)) /\ (es <> st_ok -> d = 0) /\
    (es = st_ok \/ es = st_pkt_idx_adv \/ es = st_pkt_idx_old).
Proof.
  intros r est N Hi Hr Hs. rewrite est_index_pending_eq by exact N. fold r.
  assert (Hi' : 0 <= index (s_rdbx st) < 2 ^ 63) by (consts; lia).
  pose proof (estimate_pending_ok (s_rdbx st) r seq Hi' Hr Hs) as P. cbv zeta in P.
  assert (T : let '(es, _, _) := estimate_pending (s_rdbx st) r seq in
              es = st_ok \/ es = st_pkt_idx_adv \/ es = st_pkt_idx_old).
  { unfold estimate_pending.
    destruct (index (s_rdbx st) <? r * 65536 + seq).
    - destruct (seq_num_median_c <? _); auto.
    - destruct (r * 65536 + seq <? index (s_rdbx st)); [destruct (seq_num_median_c <? _)|]; auto. }
  destruct (estimate_pending (s_rdbx st) r seq) as [[es e] d].
  destruct P as (-> & P1 & P2 & P3 & P4 & P5).
  exists es, d. fold est. auto 10.
Qed.

(* the stream is behind the imposed ROC: never "old" *)
Theorem est_index_after_set_roc st seq :
  let r := s_pending_roc st in
  r <> 0 -> 0 <= index (s_rdbx st) < 2 ^ 48 -> 0 <= r < 2 ^ 32 -> 0 <= seq < 2 ^ 16 ->
  rdbx_roc (s_rdbx st) < r ->
  exists es d, est_index st seq = (es, r * 65536 + seq, d) /\ (es = st_ok \/ es = st_pkt_idx_adv).
Proof.
  intros r N Hi Hr Hs Hroc.
  destruct (est_index_pending_spec st seq N Hi Hr Hs) as (es & d & E & _ & _ & P3 & _ & _ & T).
  exists es, d. split; [exact E|]. fold r in P3.
  destruct T as [T|[T|T]]; auto. exfalso.
  apply P3 in T. rewrite rdbx_roc_small in Hroc by exact Hi. consts. lia.
Qed.

(* ROC already equal to the imposed one: "old" exactly when the sequence number is more than
   2^15 behind the highest one seen — the ordinary verdict for a late packet.  This is why the
   statement with rdbx_roc <= r cannot promise "never pkt_idx_old". *)
Theorem est_index_set_roc_same st seq :
  let r := s_pending_roc st in
  r <> 0 -> 0 <= index (s_rdbx st) < 2 ^ 48 -> 0 <= r < 2 ^ 32 -> 0 <= seq < 2 ^ 16 ->
  rdbx_roc (s_rdbx st) <= r ->
  exists es d, est_index st seq = (es, r * 65536 + seq, d) /\
    (es = st_pkt_idx_old <-> rdbx_roc (s_rdbx st) = r /\ index (s_rdbx st) mod 65536 - seq > 2 ^ 15).
Proof.
  intros r N Hi Hr Hs Hroc.
  destruct (est_index_pending_spec st seq N Hi Hr Hs) as (es & d & E & _ & _ & P3 & _).
  exists es, d. split; [exact E|]. fold r in P3. rewrite P3.
  rewrite rdbx_roc_small in * by exact Hi. consts. split; intros H; lia.
Qed.

Example pending_roc_can_be_old :
  estimate_pending {| index := 5 * 65536 + 65535; wlen := 128; mask := 0%N |} 5 0 = (st_pkt_idx_old, 327680, 0).
Proof. vm_compute. reflexivity. Qed.

(* ===================================================================== *)
(* 3. both commit paths clear the pending ROC                              *)

Definition commit_normal (st : stream) (delta : Z) : stream :=
  set_pending (set_rdbx st (rdbx_add (s_rdbx st) delta)) 0.

Lemma rdbx_add_zero_index rx : index (rdbx_add rx 0) = index rx /\ wlen (rdbx_add rx 0) = wlen rx.
Proof.
  unfold rdbx_add. cbn [Z.ltb Z.compare]. destruct (wlen rx - 1 + 0 <? 0); cbn; auto.
Qed.

(* srtp_rdbx_set_roc_seq succeeds exactly when the new ROC is not below the current one *)
Lemma set_roc_seq_spec rx roc s :
  set_roc_seq rx roc s =
  if roc <? index rx / 65536 then (st_replay_old, rx)
  else (st_ok, {| index := roc * 65536 + s; wlen := wlen rx; mask := 0%N |}).
Proof. reflexivity. Qed.

Theorem commit_advance_spec st est :
  0 <= est < 2 ^ 48 -> index (s_rdbx st) / 65536 <= est / 65536 ->
  s_pending_roc (commit_advance st est) = 0 /\
  index (s_rdbx (commit_advance st est)) = est /\
  wlen (s_rdbx (commit_advance st est)) = wlen (s_rdbx st) /\
  s_keys (commit_advance st est) = s_keys st /\ s_rdb (commit_advance st est) = s_rdb st /\
  s_ssrc (commit_advance st est) = s_ssrc st.
Proof.
  intros He Hroc. unfold commit_advance, set_roc_seq.
  assert (U : u32 (est / 65536) = est / 65536) by (unfold u32; consts; lia).
  rewrite U.
  destruct (est / 65536 <? index (s_rdbx st) / 65536) eqn:E; [apply Z.ltb_lt in E; lia|].
  cbn [set_pending set_rdbx upd_stream s_pending_roc s_rdbx s_keys s_rdb s_ssrc].
  destruct (rdbx_add_zero_index {| index := est / 65536 * 65536 + est mod 65536; wlen := wlen (s_rdbx st); mask := 0%N |}) as (I & W).
  rewrite I, W. cbn [index wlen]. repeat split. lia.
Qed.

(* when the ROC would go backwards the window is left alone (the pending ROC is still cleared) *)
Theorem commit_advance_refused st est :
  0 <= est < 2 ^ 48 -> est / 65536 < index (s_rdbx st) / 65536 ->
  s_pending_roc (commit_advance st est) = 0 /\
  index (s_rdbx (commit_advance st est)) = index (s_rdbx st).
Proof.
  intros He Hroc. unfold commit_advance, set_roc_seq.
  assert (U : u32 (est / 65536) = est / 65536) by (unfold u32; consts; lia).
  rewrite U.
  destruct (est / 65536 <? index (s_rdbx st) / 65536) eqn:E; [|apply Z.ltb_ge in E; lia].
  cbn [set_pending set_rdbx upd_stream s_pending_roc s_rdbx].
  split; [reflexivity|]. apply rdbx_add_zero_index.
Qed.

Theorem commit_normal_spec st delta :
  0 <= index (s_rdbx st) < 2 ^ 48 -> delta < 2 ^ 16 ->
  s_pending_roc (commit_normal st delta) = 0 /\
  index (s_rdbx (commit_normal st delta)) = (if 0 <? delta then index (s_rdbx st) + delta else index (s_rdbx st)) /\
  wlen (s_rdbx (commit_normal st delta)) = wlen (s_rdbx st) /\
  s_keys (commit_normal st delta) = s_keys st /\ s_rdb (commit_normal st delta) = s_rdb st /\
  s_ssrc (commit_normal st delta) = s_ssrc st.
Proof.
  intros Hi Hd. unfold commit_normal.
  cbn [set_pending set_rdbx upd_stream s_pending_roc s_rdbx s_keys s_rdb s_ssrc].
  split; [reflexivity|]. unfold rdbx_add.
  destruct (0 <? delta) eqn:E.
  - apply Z.ltb_lt in E. cbn [index wlen]. repeat split. unfold u64, u16. consts. lia.
  - destruct (wlen (s_rdbx st) - 1 + delta <? 0); cbn [index wlen]; repeat split.
Qed.

(* ===================================================================== *)
(* 4. one processed packet after set_roc                                   *)

(* what srtp_protect / srtp_unprotect do to the stream's index state for a packet they accept
   (the replay check between estimation and commit can only refuse the packet) *)
Definition index_step (st : stream) (seq : Z) : option stream :=
  let '(es, est, delta) := est_index st seq in
  if es =? st_pkt_idx_adv then Some (commit_advance st est)
  else if es =? st_ok then Some (commit_normal st delta)
  else None.

Theorem index_step_after_set_roc st seq st' :
  let r := s_pending_roc st in
  r <> 0 -> 0 <= index (s_rdbx st) < 2 ^ 48 -> 0 <= r < 2 ^ 32 -> 0 <= seq < 2 ^ 16 ->
  rdbx_roc (s_rdbx st) <= r ->
  index_step st seq = Some st' ->
  s_pending_roc st' = 0 /\
  index (s_rdbx st') = Z.max (index (s_rdbx st)) (r * 65536 + seq) /\
  rdbx_roc (s_rdbx st') = r /\
  0 <= index (s_rdbx st') < 2 ^ 48 /\
  s_keys st' = s_keys st /\ s_ssrc st' = s_ssrc st.
Proof.
  intros r N Hi Hr Hs Hroc H.
  destruct (est_index_pending_spec st seq N Hi Hr Hs) as (es & d & E & P1 & P2 & P3 & P4 & P5 & T).
  fold r in E, P1, P2, P3, P4. unfold index_step in H. rewrite E in H.
  rewrite rdbx_roc_small in Hroc by exact Hi.
  assert (He : 0 <= r * 65536 + seq < 2 ^ 48) by (consts; lia).
  destruct T as [T|[T|T]]; subst es.
  - (* ok: ordinary add *)
    change (st_ok =? st_pkt_idx_adv) with false in H. change (st_ok =? st_ok) with true in H.
    cbv iota in H. injection H as <-.
    pose proof (proj1 P1 eq_refl) as A. specialize (P4 eq_refl). subst d.
    destruct (commit_normal_spec st (r * 65536 + seq - index (s_rdbx st)) Hi) as (Q1 & Q2 & _ & Q4 & _ & Q6).
    { consts. lia. }
    split; [exact Q1|].
    assert (I : index (s_rdbx (commit_normal st (r * 65536 + seq - index (s_rdbx st))))
                = Z.max (index (s_rdbx st)) (r * 65536 + seq)).
    { rewrite Q2. destruct (0 <? r * 65536 + seq - index (s_rdbx st)) eqn:EL.
      - apply Z.ltb_lt in EL. lia.
      - apply Z.ltb_ge in EL. lia. }
    split; [exact I|].
    assert (B : 0 <= Z.max (index (s_rdbx st)) (r * 65536 + seq) < 2 ^ 48) by (consts; lia).
    split; [|split; [rewrite I; exact B|split; assumption]].
    rewrite rdbx_roc_small by (rewrite I; exact B). rewrite I. consts. lia.
  - (* advance: srtp_rdbx_set_roc_seq *)
    change (st_pkt_idx_adv =? st_pkt_idx_adv) with true in H. cbv iota in H. injection H as <-.
    pose proof (proj1 P2 eq_refl) as A.
    destruct (commit_advance_spec st (r * 65536 + seq) He) as (Q1 & Q2 & _ & Q4 & _ & Q6).
    { consts. lia. }
    split; [exact Q1|].
    assert (I : index (s_rdbx (commit_advance st (r * 65536 + seq)))
                = Z.max (index (s_rdbx st)) (r * 65536 + seq)) by (rewrite Q2; consts; lia).
    split; [exact I|].
    assert (B : 0 <= Z.max (index (s_rdbx st)) (r * 65536 + seq) < 2 ^ 48) by (consts; lia).
    split; [|split; [rewrite I; exact B|split; assumption]].
    rewrite rdbx_roc_small by (rewrite I; exact B). rewrite I. consts. lia.
  - change (st_pkt_idx_old =? st_pkt_idx_adv) with false in H.
    change (st_pkt_idx_old =? st_ok) with false in H. discriminate.
Qed.

(* when the stream is strictly behind the imposed ROC the packet is always processed *)
Theorem index_step_defined st seq :
  let r := s_pending_roc st in
  r <> 0 -> 0 <= index (s_rdbx st) < 2 ^ 48 -> 0 <= r < 2 ^ 32 -> 0 <= seq < 2 ^ 16 ->
  rdbx_roc (s_rdbx st) < r ->
  exists st', index_step st seq = Some st'.
Proof.
  intros r N Hi Hr Hs Hroc.
  destruct (est_index_after_set_roc st seq N Hi Hr Hs Hroc) as (es & d & E & [T|T]).
  - unfold index_step. rewrite E, T. eexists. reflexivity.
  - unfold index_step. rewrite E, T. eexists. reflexivity.
Qed.

(* outside the property's premise, for the record: an imposed ROC two or more cycles behind the
   stream's own makes every packet "old"; nothing is committed, so the pending ROC stays until
   set_roc is called again *)
Theorem index_step_set_roc_backwards st seq :
  let r := s_pending_roc st in
  r <> 0 -> 0 <= index (s_rdbx st) < 2 ^ 48 -> 0 <= r < 2 ^ 32 -> 0 <= seq < 2 ^ 16 ->
  r + 2 <= rdbx_roc (s_rdbx st) ->
  (exists d, est_index st seq = (st_pkt_idx_old, r * 65536 + seq, d)) /\ index_step st seq = None.
Proof.
  intros r N Hi Hr Hs Hroc.
  destruct (est_index_pending_spec st seq N Hi Hr Hs) as (es & d & E & _ & _ & P3 & _).
  fold r in E, P3. rewrite rdbx_roc_small in Hroc by exact Hi.
  assert (O : es = st_pkt_idx_old) by (apply P3; consts; lia).
  subst es. split; [exists d; exact E|]. unfold index_step. rewrite E. reflexivity.
Qed.

(* ===================================================================== *)
(* 5. afterwards estimation is the natural one: wraps advance the ROC      *)

(* with no pending ROC the estimate only depends on the window's index *)
Lemma est_index_natural_same st1 st2 seq :
  s_pending_roc st1 = 0 -> s_pending_roc st2 = 0 -> index (s_rdbx st1) = index (s_rdbx st2) ->
  est_index st1 seq = est_index st2 seq.
Proof.
  intros E1 E2 I. rewrite !est_index_natural_eq by assumption.
  unfold estimate. rewrite I. reflexivity.
Qed.

Lemma est_index_natural_exact st i :
  s_pending_roc st = 0 -> 0 <= index (s_rdbx st) < 2 ^ 48 -> 0 <= i < 2 ^ 48 ->
  Z.abs (i - index (s_rdbx st)) < 2 ^ 15 ->
  est_index st (i mod 65536) = (st_ok, i, i - index (s_rdbx st)).
Proof.
  intros E Hi Hb Hd. rewrite est_index_natural_eq by exact E.
  rewrite (estimate_exact (s_rdbx st) i Hi Hb Hd). reflexivity.
Qed.

(* C16: after one processed packet following set_roc r the stream has no pending ROC, its
   window sits at ROC r, and every later packet whose true index i is within 2^15 of the
   window's index is estimated exactly — in particular a packet of the next cycle,
   i = (r+1)*65536 + s, is given ROC r+1. *)
Theorem set_roc_then_follows_wraps st seq st' i :
  let r := s_pending_roc st in
  r <> 0 -> 0 <= index (s_rdbx st) < 2 ^ 48 -> 0 <= r < 2 ^ 32 -> 0 <= seq < 2 ^ 16 ->
  rdbx_roc (s_rdbx st) <= r ->
  index_step st seq = Some st' ->
  0 <= i < 2 ^ 48 -> Z.abs (i - index (s_rdbx st')) < 2 ^ 15 ->
  est_index st' (i mod 65536) = (st_ok, i, i - index (s_rdbx st')) /\
  index_step st' (i mod 65536) = Some (commit_normal st' (i - index (s_rdbx st'))) /\
  index (s_rdbx (commit_normal st' (i - index (s_rdbx st')))) = Z.max (index (s_rdbx st')) i.
Proof.
  intros r N Hi Hr Hs Hroc H Hb Hd.
  destruct (index_step_after_set_roc st seq st' N Hi Hr Hs Hroc H) as (P0 & _ & _ & B & _).
  pose proof (est_index_natural_exact st' i P0 B Hb Hd) as E.
  split; [exact E|]. split.
  - unfold index_step. rewrite E. reflexivity.
  - destruct (commit_normal_spec st' (i - index (s_rdbx st')) B) as (_ & Q & _).
    { consts. lia. }
    rewrite Q. destruct (0 <? i - index (s_rdbx st')) eqn:EL.
    + apply Z.ltb_lt in EL. lia.
    + apply Z.ltb_ge in EL. lia.
Qed.

(* the wrap itself, spelled out: the window is at ROC r with a sequence number in the upper
   half; the packet with sequence number s of the next cycle gets ROC r+1 and moves the window *)
Corollary wrap_after_set_roc st' r s :
  s_pending_roc st' = 0 -> 0 <= r < 2 ^ 32 - 1 ->
  index (s_rdbx st') / 65536 = r -> 0 <= index (s_rdbx st') ->
  0 <= s < 2 ^ 16 -> (r + 1) * 65536 + s - index (s_rdbx st') < 2 ^ 15 ->
  est_index st' s = (st_ok, (r + 1) * 65536 + s, (r + 1) * 65536 + s - index (s_rdbx st')) /\
  rdbx_roc (s_rdbx (commit_normal st' ((r + 1) * 65536 + s - index (s_rdbx st')))) = r + 1.
Proof.
  intros P0 Hr Hroc H0 Hs Hclose.
  assert (B : 0 <= index (s_rdbx st') < 2 ^ 48) by (consts; lia).
  assert (Bi : 0 <= (r + 1) * 65536 + s < 2 ^ 48) by (consts; lia).
  assert (Hd : Z.abs ((r + 1) * 65536 + s - index (s_rdbx st')) < 2 ^ 15) by (consts; lia).
  pose proof (est_index_natural_exact st' _ P0 B Bi Hd) as E.
  replace (((r + 1) * 65536 + s) mod 65536) with s in E by (consts; lia).
  split; [exact E|].
  destruct (commit_normal_spec st' ((r + 1) * 65536 + s - index (s_rdbx st')) B) as (_ & Q & _).
  { consts. lia. }
  assert (L : 0 <? (r + 1) * 65536 + s - index (s_rdbx st') = true) by (apply Z.ltb_lt; consts; lia).
  rewrite L in Q.
  rewrite rdbx_roc_small by (rewrite Q; consts; lia). rewrite Q. consts. lia.
Qed.

Print Assumptions set_roc_effect.
Print Assumptions est_index_pending_spec.
Print Assumptions est_index_after_set_roc.
Print Assumptions est_index_set_roc_same.
Print Assumptions commit_advance_spec.
Print Assumptions commit_advance_refused.
Print Assumptions commit_normal_spec.
Print Assumptions index_step_after_set_roc.
Print Assumptions index_step_defined.
Print Assumptions index_step_set_roc_backwards.
Print Assumptions set_roc_then_follows_wraps.
Print Assumptions wrap_after_set_roc.
