(* SpecEqProofs.v — property C03, crypto glue: the byte-wise state machines of the model
   (Icm.v: 16-bit block counter, offset xor IV; Rtp.v / Rtcp.v: IV octets; Stream.v: key
   derivation through a keyed ICM cipher) compute the big-integer formulas of the RFC
   specification Spec/Rfc3711.v (AES-CM keystream, IV = k_s*2^16 xor SSRC*2^64 xor i*2^16,
   KDF with label*2^48 xor master_salt).  Proofs only. *)
From Coq Require Import NArith ZArith List Bool Lia ZifyBool ZifyN ZifyNat.
From Srtp Require Import Util Constants Icm World Stream Rtp Rtcp IvProofs IcmProofs.
From Srtp.Crypto Require Import AES.
From Srtp Require Import SpecEqAes.
From Srtp.Spec Require Rfc3711.
Import ListNotations.
Local Open Scope N_scope.

Ltac Zify.zify_post_hook ::= Z.div_mod_to_equations.
Opaque aes_encrypt_rk aes_key_expand.

(* octets l (SpecEqAes): every element of l is < 256 *)

(* ================================================================== *)
(* 0. big-endian values                                                *)
(* ================================================================== *)
Lemma be_val_cons b r : be_val (b :: r) = b * 256 ^ N.of_nat (length r) + be_val r.
Proof. reflexivity. Qed.

Lemma be_val_app_gen a b : be_val (a ++ b) = be_val a * 256 ^ N.of_nat (length b) + be_val b.
Proof.
  induction a as [|x a IH]; cbn [app].
  - cbn [be_val]. lia.
  - rewrite !be_val_cons, IH, app_length, Nat2N.inj_add, N.pow_add_r. ring.
Qed.

Lemma pow256_pos n : 0 < 256 ^ n.
Proof. apply N.neq_0_lt_0, N.pow_nonzero. discriminate. Qed.

Lemma be_val_lt l : octets l -> be_val l < 256 ^ N.of_nat (length l).
Proof.
  intros H. induction H as [|b r Hb Hr IH].
  - cbn. lia.
  - rewrite be_val_cons. cbn [length]. rewrite Nat2N.inj_succ, N.pow_succ_r'.
    set (P := 256 ^ N.of_nat (length r)) in *. nia.
Qed.

Lemma be_val_zeros n : be_val (zeros n) = 0.
Proof.
  induction n as [|n IH]; [reflexivity|].
  change (zeros (S n)) with (0 :: zeros n). rewrite be_val_cons, IH. lia.
Qed.

Lemma octets_zeros n : octets (zeros n).
Proof. induction n as [|n IH]; constructor; [reflexivity|exact IH]. Qed.

Lemma octets_take n : forall l, octets l -> octets (take n l).
Proof.
  induction n as [|n IH]; intros l H; [constructor|].
  destruct H as [|b r Hb Hr]; cbn [take]; constructor; [exact Hb|apply IH; exact Hr].
Qed.

Lemma octets_drop n : forall l, octets l -> octets (drop n l).
Proof.
  induction n as [|n IH]; intros l H; [exact H|].
  destruct H as [|b r Hb Hr]; cbn [drop]; [constructor|apply IH; exact Hr].
Qed.

(* be_bytes inverts be_val on octet strings *)
Lemma be_bytes_be_val l : octets l -> be_bytes (length l) (be_val l) = l.
Proof.
  induction l as [|x l IH] using rev_ind; intros H; [reflexivity|].
  apply Forall_app in H. destruct H as [Hl Hx]. inversion Hx as [|? ? Hx256 _]; subst.
  rewrite app_length. cbn [length]. replace (length l + 1)%nat with (S (length l)) by lia.
  rewrite be_bytes_S, be_val_app.
  change 255 with (N.ones 8). rewrite N.land_ones, N.shiftr_div_pow2. change (2 ^ 8) with 256.
  replace ((be_val l * 256 + x) / 256) with (be_val l) by lia.
  replace ((be_val l * 256 + x) mod 256) with x by lia.
  rewrite (IH Hl). reflexivity.
Qed.

Lemma be_bytes16_be_val ctr : length ctr = 16%nat -> octets ctr -> be_bytes 16 (be_val ctr) = ctr.
Proof. intros L H. rewrite <- L. apply be_bytes_be_val. exact H. Qed.

Lemma two128 : 256 ^ N.of_nat 16 = 2 ^ 128.
Proof. reflexivity. Qed.

(* ================================================================== *)
(* 1. COUNTER: the 16-bit increment is 128-bit addition while it does   *)
(*    not overflow; ks_blocks = the RFC's blocks E(k, (IV + j) mod 2^128) *)
(* ================================================================== *)
Lemma length_take14 (ctr : bytes) : length ctr = 16%nat -> length (take 14 ctr) = 14%nat.
Proof. intros L. rewrite take_firstn, firstn_length. lia. Qed.

Lemma ctr_split ctr : length ctr = 16%nat ->
  be_val ctr = be_val (take 14 ctr) * 65536 + Z.to_N (ctr_low ctr).
Proof.
  intros L. unfold ctr_low, be16. rewrite N2Z.id, slice_firstn_skipn, take_firstn.
  rewrite <- (firstn_skipn 14 ctr) at 1. rewrite be_val_app_gen.
  assert (L2 : length (skipn 14 ctr) = 2%nat) by (rewrite skipn_length; lia).
  rewrite L2. rewrite (firstn_all2 (n := 2)) by lia. reflexivity.
Qed.

Lemma be_val_ctr_add ctr j : length ctr = 16%nat ->
  be_val (ctr_add ctr j) = be_val (take 14 ctr) * 65536 + Z.to_N ((ctr_low ctr + j) mod 65536).
Proof.
  intros L. unfold ctr_add. rewrite be_val_app_gen, be_bytes_length, be_val_be2.
  change (256 ^ N.of_nat 2) with 65536. f_equal.
  pose proof (ctr_low_range ctr) as R. set (s := (ctr_low ctr + j)%Z) in *. clearbody s. lia.
Qed.

(* the statement in N and in Z *)
Theorem ctr_add_be_val : forall ctr j, length ctr = 16%nat ->
  (0 <= j)%Z -> (ctr_low ctr + j <= 65535)%Z ->
  be_val (ctr_add ctr j) = be_val ctr + Z.to_N j.
Proof.
  intros ctr j L Hj Hr. rewrite be_val_ctr_add, (ctr_split ctr) by exact L.
  pose proof (ctr_low_range ctr) as R. set (l := ctr_low ctr) in *. clearbody l. lia.
Qed.

Corollary ctr_add_be_val_Z : forall ctr j, length ctr = 16%nat ->
  (0 <= j)%Z -> (ctr_low ctr + j <= 65535)%Z ->
  Z.of_N (be_val (ctr_add ctr j)) = (Z.of_N (be_val ctr) + j)%Z.
Proof. intros ctr j L Hj Hr. rewrite ctr_add_be_val by assumption. lia. Qed.

Lemma octets_ctr_add ctr j : octets ctr -> octets (ctr_add ctr j).
Proof.
  intros H. unfold ctr_add. apply octets_app; [apply octets_take; exact H|apply be_bytes_bytes].
Qed.

Lemma cm_block_arg ctr iv j : length ctr = 16%nat -> octets ctr -> be_val ctr = iv + j ->
  be_bytes 16 ((iv + j) mod 2 ^ 128) = ctr.
Proof.
  intros L H E. rewrite <- E. pose proof (be_val_lt ctr H) as B. rewrite L, two128 in B.
  rewrite N.mod_small by exact B. apply be_bytes16_be_val; assumption.
Qed.

Lemma ks_blocks_cm rks : forall n ctr iv j,
  length ctr = 16%nat -> octets ctr -> be_val ctr = iv + j ->
  (ctr_low ctr + Z.of_nat n <= 65536)%Z ->
  concat (ks_blocks (aes_encrypt_rk rks) n ctr) = Rfc3711.cm_blocks rks iv j n.
Proof.
  induction n as [|n IH]; intros ctr iv j L H E R; [reflexivity|].
  cbn [ks_blocks concat Rfc3711.cm_blocks].
  rewrite (cm_block_arg ctr iv j L H E). f_equal.
  destruct n as [|n']; [reflexivity|].
  apply IH.
  - apply ctr_add_length; exact L.
  - apply octets_ctr_add; exact H.
  - rewrite ctr_add_be_val by (try exact L; lia). rewrite E. change (Z.to_N 1) with 1. lia.
  - rewrite ctr_low_ctr_add by exact L.
    pose proof (ctr_low_range ctr) as R0. set (l := ctr_low ctr) in *. clearbody l. lia.
Qed.

(* the model's reference keystream (what icm_encrypt xors in, IcmProofs) is the RFC's
   AES-CM keystream for the 128-bit integer IV = be_val ctr0 *)
Theorem ctr_keystream_cm : forall key ctr0 n,
  length ctr0 = 16%nat -> octets ctr0 ->
  (ctr_low ctr0 + Z.of_nat ((n + 15) / 16) <= 65536)%Z ->
  ctr_keystream (aes_encrypt_rk (aes_key_expand key)) ctr0 n =
  Rfc3711.cm_keystream key (be_val ctr0) n.
Proof.
  intros key ctr0 n L H R. unfold ctr_keystream, Rfc3711.cm_keystream.
  rewrite (ks_blocks_cm (aes_key_expand key) _ ctr0 (be_val ctr0) 0 L H); [reflexivity|lia|exact R].
Qed.
Print Assumptions ctr_add_be_val.
Print Assumptions ctr_keystream_cm.

(* ================================================================== *)
(* 2. IV: octet-wise xor = N.lxor of the big-endian values             *)
(* ================================================================== *)
Lemma lxor_split k x y u v : u < 2 ^ k -> v < 2 ^ k ->
  N.lxor (x * 2 ^ k + u) (y * 2 ^ k + v) = N.lxor x y * 2 ^ k + N.lxor u v.
Proof.
  intros Hu Hv.
  assert (P : 2 ^ k <> 0) by (apply N.pow_nonzero; discriminate).
  set (X := x * 2 ^ k + u). set (Y := y * 2 ^ k + v).
  rewrite (N.div_mod (N.lxor X Y) (2 ^ k) P). rewrite (N.mul_comm (2 ^ k)). f_equal.
  - f_equal. rewrite <- N.shiftr_div_pow2, N.shiftr_lxor, !N.shiftr_div_pow2. subst X Y.
    rewrite !N.div_add_l, !N.div_small by assumption. rewrite !N.add_0_r. reflexivity.
  - rewrite <- N.land_ones, land_lxor_distr, !N.land_ones. subst X Y.
    rewrite !(N.add_comm (_ * 2 ^ k)), !N.mod_add, !N.mod_small by assumption. reflexivity.
Qed.

Lemma pow256_2 n : 256 ^ n = 2 ^ (8 * n).
Proof. change 256 with (2 ^ 8). rewrite N.pow_mul_r. reflexivity. Qed.

Lemma be_val_xor : forall a b, length a = length b -> octets a -> octets b ->
  be_val (xor_bytes a b) = N.lxor (be_val a) (be_val b).
Proof.
  induction a as [|x a IH]; intros [|y b] L Ha Hb; cbn [length] in L; try discriminate; [reflexivity|].
  inversion Ha as [|? ? Hx Ha']; subst. inversion Hb as [|? ? Hy Hb']; subst.
  cbn [xor_bytes]. rewrite !be_val_cons, xor_bytes_length.
  assert (L' : length a = length b) by lia.
  rewrite (IH b L' Ha' Hb').
  pose proof (be_val_lt a Ha') as Ba. pose proof (be_val_lt b Hb') as Bb.
  rewrite <- L' in *. rewrite pow256_2 in *.
  symmetry. apply lxor_split; assumption.
Qed.

Lemma lxor_disjoint_add k x v : v < 2 ^ k -> N.lxor (x * 2 ^ k) v = x * 2 ^ k + v.
Proof.
  intros Hv.
  assert (P : 0 < 2 ^ k) by (apply N.neq_0_lt_0, N.pow_nonzero; discriminate).
  pose proof (lxor_split k x 0 0 v P Hv) as E.
  rewrite N.mul_0_l, N.add_0_l, N.add_0_r, N.lxor_0_r, N.lxor_0_l in E. exact E.
Qed.

Lemma lxor_mul_pow2 a b k : N.lxor a b * 2 ^ k = N.lxor (a * 2 ^ k) (b * 2 ^ k).
Proof. rewrite <- !N.shiftl_mul_pow2. apply N.shiftl_lxor. Qed.

Lemma be_val_salt_off salt : be_val (salt ++ [0; 0]) = be_val salt * 2 ^ 16.
Proof. rewrite be_val_app_gen. cbn [length be_val]. change (256 ^ N.of_nat 2) with (2 ^ 16). lia. Qed.

Lemma octets_salt_off salt : octets salt -> octets (salt ++ [0; 0]).
Proof. intros H. apply octets_app; [exact H|]. repeat constructor. Qed.

(* value of an ICM IV laid out as 00000000 | a (4 octets) | b (8 octets) *)
Lemma be_val_iv48 a b : be_val (zeros 4 ++ be_bytes 4 a ++ be_bytes 8 b) = (a mod 2 ^ 32) * 2 ^ 64 + b mod 2 ^ 64.
Proof.
  rewrite !be_val_app_gen, be_val_zeros, !be_val_be_bytes, !be_bytes_length.
  change (256 ^ N.of_nat 4) with (2 ^ 32). change (256 ^ N.of_nat 8) with (2 ^ 64). lia.
Qed.

Lemma p32 : 2 ^ 32 = 4294967296. Proof. reflexivity. Qed.
Lemma p48 : 2 ^ 48 = 281474976710656. Proof. reflexivity. Qed.
Lemma p64 : 2 ^ 64 = 18446744073709551616. Proof. reflexivity. Qed.
Lemma p16 : 2 ^ 16 = 65536. Proof. reflexivity. Qed.

Lemma iv_value salt ssrc i iv :
  length salt = 14%nat -> octets salt -> length iv = 16%nat -> octets iv ->
  i < 2 ^ 48 -> be_val iv = ssrc * 2 ^ 64 + i * 2 ^ 16 ->
  be_val (xor_bytes (salt ++ [0; 0]) iv) = Rfc3711.cm_iv salt ssrc i.
Proof.
  intros Ls Hs Li Hi Bi E.
  rewrite be_val_xor; [| rewrite app_length, Ls, Li; reflexivity | apply octets_salt_off; exact Hs | exact Hi].
  rewrite be_val_salt_off, E. unfold Rfc3711.cm_iv. rewrite N.lxor_assoc. f_equal.
  symmetry. apply lxor_disjoint_add. rewrite p48 in Bi. rewrite p64, p16. lia.
Qed.

Lemma rtp_iv_facts alg ssrc est :
  is_icm_alg alg = true -> (0 <= ssrc < 2 ^ 32)%Z -> (0 <= est < 2 ^ 48)%Z ->
  length (rtp_iv alg ssrc est) = 16%nat /\ octets (rtp_iv alg ssrc est) /\
  be_val (rtp_iv alg ssrc est) = Z.to_N ssrc * 2 ^ 64 + Z.to_N est * 2 ^ 16.
Proof.
  intros Ha Hssrc Hest.
  change (2 ^ 32)%Z with 4294967296%Z in Hssrc. change (2 ^ 48)%Z with 281474976710656%Z in Hest.
  unfold rtp_iv. rewrite Ha. unfold be64. split; [|split].
  - rewrite !app_length, !be_bytes_length. reflexivity.
  - apply octets_app; [apply octets_zeros|]. apply octets_app; apply be_bytes_bytes.
  - rewrite be_val_iv48. unfold u64. rewrite p32, p64, p16. lia.
Qed.

Lemma rtcp_iv_facts alg ssrc seq :
  is_icm_alg alg = true -> (0 <= ssrc < 2 ^ 32)%Z -> (0 <= seq < 2 ^ 31)%Z ->
  length (rtcp_iv alg ssrc seq) = 16%nat /\ octets (rtcp_iv alg ssrc seq) /\
  be_val (rtcp_iv alg ssrc seq) = Z.to_N ssrc * 2 ^ 64 + Z.to_N seq * 2 ^ 16.
Proof.
  intros Ha Hssrc Hseq.
  change (2 ^ 32)%Z with 4294967296%Z in Hssrc. change (2 ^ 31)%Z with 2147483648%Z in Hseq.
  unfold rtcp_iv. rewrite Ha. split; [|split].
  - rewrite !app_length, !be_bytes_length. reflexivity.
  - apply octets_app; [apply octets_zeros|]. apply octets_app; [apply be_bytes_bytes|].
    apply octets_app; apply be_bytes_bytes.
  - rewrite !be_val_app_gen, be_val_zeros, !be_val_be_bytes, !app_length, !be_bytes_length.
    change (256 ^ N.of_nat 4) with 4294967296. change (256 ^ N.of_nat (4 + 4)) with 18446744073709551616.
    change (256 ^ N.of_nat (4 + (4 + 4))) with 79228162514264337593543950336.
    unfold u32. rewrite p64, p16. lia.
Qed.

Theorem rtp_iv_spec : forall alg salt ssrc est,
  is_icm_alg alg = true -> length salt = 14%nat -> octets salt ->
  (0 <= ssrc < 2 ^ 32)%Z -> (0 <= est < 2 ^ 48)%Z ->
  be_val (xor_bytes (salt ++ [0; 0]) (rtp_iv alg ssrc est)) =
  Rfc3711.cm_iv salt (Z.to_N ssrc) (Z.to_N est).
Proof.
  intros alg salt ssrc est Ha Ls Hs Hssrc Hest.
  destruct (rtp_iv_facts alg ssrc est Ha Hssrc Hest) as (L & O & V).
  apply iv_value; try assumption.
  change (2 ^ 48)%Z with 281474976710656%Z in Hest. rewrite p48. lia.
Qed.

Theorem rtcp_iv_spec : forall alg salt ssrc seq,
  is_icm_alg alg = true -> length salt = 14%nat -> octets salt ->
  (0 <= ssrc < 2 ^ 32)%Z -> (0 <= seq < 2 ^ 31)%Z ->
  be_val (xor_bytes (salt ++ [0; 0]) (rtcp_iv alg ssrc seq)) =
  Rfc3711.cm_iv salt (Z.to_N ssrc) (Z.to_N seq).
Proof.
  intros alg salt ssrc seq Ha Ls Hs Hssrc Hseq.
  destruct (rtcp_iv_facts alg ssrc seq Ha Hssrc Hseq) as (L & O & V).
  apply iv_value; try assumption.
  change (2 ^ 31)%Z with 2147483648%Z in Hseq. rewrite p48. lia.
Qed.
Print Assumptions rtp_iv_spec.
Print Assumptions rtcp_iv_spec.

(* ================================================================== *)
(* 3. a keyed ICM cipher started on an IV emits the RFC keystream;      *)
(*    the key-derivation function                                      *)
(* ================================================================== *)
Lemma octets_xor : forall a b, octets a -> octets b -> octets (xor_bytes a b).
Proof.
  induction a as [|x a IH]; intros [|y b] Ha Hb; cbn [xor_bytes]; try assumption.
  inversion Ha as [|? ? Hx Ha']; subst. inversion Hb as [|? ? Hy Hb']; subst.
  constructor; [|apply IH; assumption].
  change 256 with (2 ^ 8). apply lxor_lt_pow2; assumption.
Qed.

Lemma xor_zeros : forall n ks, length ks = n -> xor_bytes (zeros n) ks = ks.
Proof.
  induction n as [|n IH]; intros [|y ks] L; cbn [length] in L; try discriminate; [reflexivity|].
  change (zeros (S n)) with (0 :: zeros n). cbn [xor_bytes]. rewrite N.lxor_0_l, IH by lia. reflexivity.
Qed.

Lemma take_app_len {A} (a b : list A) : take (length a) (a ++ b) = a.
Proof.
  rewrite take_firstn, firstn_app, firstn_all, Nat.sub_diag. cbn [firstn]. apply app_nil_r.
Qed.

Lemma drop_app_len {A} (a b : list A) : drop (length a) (a ++ b) = b.
Proof.
  rewrite drop_skipn. replace (length a) with (length a + 0)%nat by lia. rewrite skipn_app_ge. reflexivity.
Qed.

Lemma slice_app_mid {A} (a b c : list A) : slice (length a) (length b) (a ++ b ++ c) = b.
Proof. unfold slice. rewrite drop_app_len. apply take_app_len. Qed.

Lemma icm_not_null alg : is_icm_alg alg = true -> (alg =? SRTP_NULL_CIPHER_c)%Z = false.
Proof.
  unfold is_icm_alg, SRTP_AES_ICM_128_c, SRTP_AES_ICM_192_c, SRTP_AES_ICM_256_c, SRTP_NULL_CIPHER_c.
  intros H. lia.
Qed.

(* srtp_cipher_init on  key ‖ salt ‖ anything  (key of any length, 14-octet salt) *)
Lemma cipher_key_fields alg (mkey msalt rest : bytes) :
  is_icm_alg alg = true -> length msalt = 14%nat ->
  cipher_key alg (lenZ mkey + 14) (mkey ++ msalt ++ rest) =
  {| ck_alg := alg; ck_klen := lenZ mkey + 14; ck_rks := aes_key_expand mkey; ck_salt := msalt |}.
Proof.
  intros Ha Ls. unfold cipher_key. rewrite (icm_not_null alg Ha).
  assert (HG : is_gcm_alg alg = false).
  { unfold is_icm_alg in Ha. unfold is_gcm_alg.
    destruct (alg =? SRTP_AES_ICM_128_c)%Z eqn:E1; [apply Z.eqb_eq in E1; subst; reflexivity|].
    destruct (alg =? SRTP_AES_ICM_192_c)%Z eqn:E2; [apply Z.eqb_eq in E2; subst; reflexivity|].
    destruct (alg =? SRTP_AES_ICM_256_c)%Z eqn:E3; [apply Z.eqb_eq in E3; subst; reflexivity|discriminate]. }
  rewrite HG.
  unfold SRTP_SALT_LEN_c. replace (lenZ mkey + 14 - 14)%Z with (lenZ mkey) by lia.
  replace (zn (lenZ mkey)) with (length mkey) by (unfold zn, lenZ; lia).
  rewrite take_app_len. change (zn 14) with 14%nat. rewrite <- Ls at 1. rewrite slice_app_mid.
  reflexivity.
Qed.

Lemma icm_init_off (msalt : bytes) : length msalt = 14%nat -> i_off (icm_init msalt) = msalt ++ [0; 0].
Proof.
  intros Ls. cbn [icm_init i_off]. rewrite <- Ls, take_app_len. reflexivity.
Qed.

Lemma set_iv_ctr (msalt iv : bytes) : length msalt = 14%nat -> length iv = 16%nat ->
  i_ctr (icm_set_iv (icm_init msalt) iv) = xor_bytes (msalt ++ [0; 0]) iv.
Proof.
  intros Ls Li. unfold icm_set_iv. cbn [i_ctr]. rewrite (icm_init_off msalt Ls).
  rewrite <- Li, take_app_len. reflexivity.
Qed.

Lemma cm_blocks_length rks : forall n iv j, length (Rfc3711.cm_blocks rks iv j n) = (16 * n)%nat.
Proof.
  induction n as [|n IH]; intros iv j; cbn [Rfc3711.cm_blocks]; [reflexivity|].
  rewrite app_length, aes_encrypt_rk_length, IH. lia.
Qed.

Lemma cm_keystream_length key iv n : length (Rfc3711.cm_keystream key iv n) = n.
Proof.
  unfold Rfc3711.cm_keystream. rewrite take_firstn, firstn_length, cm_blocks_length. lia.
Qed.

(* srtp_cipher_set_iv + one srtp_cipher_encrypt on an ICM cipher whose AES key is `key` and
   whose salt is `salt`:  data xor AES-CM keystream for the integer IV  (salt * 2^16) xor iv.
   The last two IV octets are zero for every IV libsrtp forms; at most 65535 blocks
   (the model, like aes_icm.c, refuses a 65536th block). *)
Theorem cipher_encrypt_spec_k : forall (k : ckey) (key salt iv data : bytes),
  is_icm_alg (ck_alg k) = true -> ck_rks k = aes_key_expand key -> ck_salt k = salt ->
  length salt = 14%nat -> octets salt ->
  length iv = 16%nat -> octets iv -> be16 iv 14 = 0%Z ->
  (Z.of_nat ((length data + 15) / 16) <= 65535)%Z ->
  exists c',
    cipher_encrypt (cipher_start k iv) data =
    (st_ok, CSIcm (aes_key_expand key) c',
     xor_bytes data (Rfc3711.cm_keystream key (be_val (xor_bytes (salt ++ [0; 0]) iv)) (length data))).
Proof.
  intros k key msalt iv data Ha Hrks Hsalt Ls Hs Li Hi Hlow Hn.
  assert (Hlow' : ctr_low (i_ctr (icm_set_iv (icm_init msalt) iv)) = 0%Z).
  { rewrite ctr_low_set_iv_init. rewrite <- Li, take_app_len. exact Hlow. }
  assert (Href : icm_refuses (icm_set_iv (icm_init (ck_salt k)) iv) (lenZ data) = false).
  { unfold icm_refuses. rewrite Hsalt, Hlow'. cbn [icm_set_iv i_in].
    unfold icm_max_blocks_c, u64, lenZ. lia. }
  destruct (cipher_encrypt_after_start k iv data Ha Href) as (c' & E).
  exists c'. rewrite E, Hrks, Hsalt. do 2 f_equal.
  rewrite set_iv_ctr in * by assumption.
  apply ctr_keystream_cm.
  - rewrite xor_bytes_length, app_length, Ls. reflexivity.
  - apply octets_xor; [apply octets_salt_off; exact Hs|exact Hi].
  - rewrite Hlow'. clear - Hn. lia.
Qed.

(* the same for a cipher keyed by srtp_cipher_init from  key ‖ salt ‖ anything *)
Theorem cipher_encrypt_spec : forall alg (mkey msalt rest iv data : bytes),
  is_icm_alg alg = true -> length msalt = 14%nat -> octets msalt ->
  length iv = 16%nat -> octets iv -> be16 iv 14 = 0%Z ->
  (Z.of_nat ((length data + 15) / 16) <= 65535)%Z ->
  exists c',
    cipher_encrypt (cipher_start (cipher_key alg (lenZ mkey + 14) (mkey ++ msalt ++ rest)) iv) data =
    (st_ok, CSIcm (aes_key_expand mkey) c',
     xor_bytes data (Rfc3711.cm_keystream mkey (be_val (xor_bytes (msalt ++ [0; 0]) iv)) (length data))).
Proof.
  intros alg mkey msalt rest iv data Ha Ls Hs Li Hi Hlow Hn.
  rewrite (cipher_key_fields alg mkey msalt rest Ha Ls).
  apply cipher_encrypt_spec_k; try assumption; reflexivity.
Qed.
Print Assumptions cipher_encrypt_spec_k.
Print Assumptions cipher_encrypt_spec.

(* the KDF input block: label in octet 7 *)
Definition kdf_iv (label : Z) : bytes := zeros 7 ++ [Z.to_N label] ++ zeros 8.

Lemma kdf_iv_value label : be_val (kdf_iv label) = Z.to_N label * 2 ^ 64.
Proof.
  unfold kdf_iv. rewrite !be_val_app_gen, !be_val_zeros.
  change (length (zeros 8)) with 8%nat. cbn [be_val length].
  change (256 ^ N.of_nat 8) with (2 ^ 64). change (256 ^ N.of_nat 0) with 1.
  set (P := 256 ^ _). set (Q := 2 ^ 64). lia.
Qed.

Lemma kdf_ctr0_value msalt label :
  length msalt = 14%nat -> octets msalt -> (0 <= label < 256)%Z ->
  be_val (xor_bytes (msalt ++ [0; 0]) (kdf_iv label)) =
  N.lxor (Z.to_N label * 2 ^ 48) (be_val msalt) * 2 ^ 16.
Proof.
  intros Ls Hs Hl.
  rewrite be_val_xor.
  - rewrite be_val_salt_off, kdf_iv_value, lxor_mul_pow2, <- N.mul_assoc, <- N.pow_add_r.
    change (48 + 16) with 64. apply N.lxor_comm.
  - rewrite app_length, Ls. reflexivity.
  - apply octets_salt_off; exact Hs.
  - unfold kdf_iv. apply octets_app; [apply octets_zeros|]. apply octets_app; [|apply octets_zeros].
    constructor; [lia|constructor].
Qed.

Theorem kdf_generate_spec : forall alg (mkey msalt rest : bytes) label n,
  is_icm_alg alg = true -> length msalt = 14%nat -> octets msalt ->
  (0 <= label < 256)%Z -> (Z.of_nat ((zn n + 15) / 16) <= 65535)%Z ->
  kdf_generate (cipher_key alg (lenZ mkey + 14) (mkey ++ msalt ++ rest)) label n =
  Rfc3711.kdf mkey msalt (Z.to_N label) (zn n).
Proof.
  intros alg mkey msalt rest label n Ha Ls Hs Hl Hn.
  unfold kdf_generate, cipher_output. fold (kdf_iv label).
  assert (Hz : length (zeros (zn n)) = zn n) by apply repeat_length.
  destruct (cipher_encrypt_spec alg mkey msalt rest (kdf_iv label) (zeros (zn n)) Ha Ls Hs)
    as (c' & E).
  - reflexivity.
  - unfold kdf_iv. apply octets_app; [apply octets_zeros|]. apply octets_app; [|apply octets_zeros].
    constructor; [lia|constructor].
  - reflexivity.
  - rewrite Hz. exact Hn.
  - rewrite E, Hz. rewrite xor_zeros by apply cm_keystream_length.
    unfold Rfc3711.kdf. rewrite kdf_ctr0_value by assumption. reflexivity.
Qed.
Print Assumptions kdf_generate_spec.

(* the two instances srtp.c uses (srtp_kdf_init: ICM-128 for a 30-octet, ICM-256 for a 46-octet key) *)
Corollary kdf_generate_spec_128 : forall (mkey msalt rest : bytes) label n,
  length mkey = 16%nat -> length msalt = 14%nat -> octets msalt ->
  (0 <= label < 256)%Z -> (Z.of_nat ((zn n + 15) / 16) <= 65535)%Z ->
  kdf_generate (cipher_key SRTP_AES_ICM_128_c 30 (mkey ++ msalt ++ rest)) label n =
  Rfc3711.kdf mkey msalt (Z.to_N label) (zn n).
Proof.
  intros mkey msalt rest label n Lk. replace 30%Z with (lenZ mkey + 14)%Z by (unfold lenZ; lia).
  apply kdf_generate_spec. reflexivity.
Qed.

Corollary kdf_generate_spec_256 : forall (mkey msalt rest : bytes) label n,
  length mkey = 32%nat -> length msalt = 14%nat -> octets msalt ->
  (0 <= label < 256)%Z -> (Z.of_nat ((zn n + 15) / 16) <= 65535)%Z ->
  kdf_generate (cipher_key SRTP_AES_ICM_256_c 46 (mkey ++ msalt ++ rest)) label n =
  Rfc3711.kdf mkey msalt (Z.to_N label) (zn n).
Proof.
  intros mkey msalt rest label n Lk. replace 46%Z with (lenZ mkey + 14)%Z by (unfold lenZ; lia).
  apply kdf_generate_spec. reflexivity.
Qed.

(* ---- the packet ciphers: srtp_cipher_set_iv(rtp_iv) + srtp_cipher_encrypt = RFC 3711 4.1.1 ---- *)
Lemma ctr_low_mod iv : length iv = 16%nat -> octets iv -> ctr_low iv = Z.of_N (be_val iv mod 65536).
Proof.
  intros L H. rewrite (ctr_split iv L).
  assert (B : Z.to_N (ctr_low iv) < 65536).
  { unfold ctr_low, be16. rewrite N2Z.id. unfold slice.
    assert (O2 : octets (take 2 (drop 14 iv))) by (apply octets_take, octets_drop; exact H).
    pose proof (be_val_lt _ O2) as B.
    assert (L2 : length (take 2 (drop 14 iv)) = 2%nat)
      by (rewrite take_firstn, drop_skipn, firstn_length, skipn_length; lia).
    rewrite L2 in B. exact B. }
  pose proof (ctr_low_range iv) as R. set (l := ctr_low iv) in *. clearbody l.
  set (a := be_val (take 14 iv)). clearbody a. lia.
Qed.

Lemma iv_low_zero iv a b : length iv = 16%nat -> octets iv -> be_val iv = a * 2 ^ 64 + b * 2 ^ 16 -> be16 iv 14 = 0%Z.
Proof.
  intros L H E. change (be16 iv 14) with (ctr_low iv). rewrite (ctr_low_mod iv L H), E, p64, p16. lia.
Qed.

Theorem rtp_cipher_spec_k : forall (k : ckey) (key salt data : bytes) ssrc est,
  is_icm_alg (ck_alg k) = true -> ck_rks k = aes_key_expand key -> ck_salt k = salt ->
  length salt = 14%nat -> octets salt ->
  (0 <= ssrc < 2 ^ 32)%Z -> (0 <= est < 2 ^ 48)%Z ->
  (Z.of_nat ((length data + 15) / 16) <= 65535)%Z ->
  exists c',
    cipher_encrypt (cipher_start k (rtp_iv (ck_alg k) ssrc est)) data =
    (st_ok, CSIcm (aes_key_expand key) c',
     xor_bytes data (Rfc3711.cm_keystream key (Rfc3711.cm_iv salt (Z.to_N ssrc) (Z.to_N est)) (length data))).
Proof.
  intros k key salt data ssrc est Ha Hr Hsalt Ls Hs Hssrc Hest Hn.
  destruct (rtp_iv_facts (ck_alg k) ssrc est Ha Hssrc Hest) as (L & O & V).
  rewrite <- (rtp_iv_spec (ck_alg k) salt ssrc est) by assumption.
  apply cipher_encrypt_spec_k; try assumption.
  exact (iv_low_zero _ _ _ L O V).
Qed.

Theorem rtcp_cipher_spec_k : forall (k : ckey) (key salt data : bytes) ssrc seq,
  is_icm_alg (ck_alg k) = true -> ck_rks k = aes_key_expand key -> ck_salt k = salt ->
  length salt = 14%nat -> octets salt ->
  (0 <= ssrc < 2 ^ 32)%Z -> (0 <= seq < 2 ^ 31)%Z ->
  (Z.of_nat ((length data + 15) / 16) <= 65535)%Z ->
  exists c',
    cipher_encrypt (cipher_start k (rtcp_iv (ck_alg k) ssrc seq)) data =
    (st_ok, CSIcm (aes_key_expand key) c',
     xor_bytes data (Rfc3711.cm_keystream key (Rfc3711.cm_iv salt (Z.to_N ssrc) (Z.to_N seq)) (length data))).
Proof.
  intros k key salt data ssrc seq Ha Hr Hsalt Ls Hs Hssrc Hseq Hn.
  destruct (rtcp_iv_facts (ck_alg k) ssrc seq Ha Hssrc Hseq) as (L & O & V).
  rewrite <- (rtcp_iv_spec (ck_alg k) salt ssrc seq) by assumption.
  apply cipher_encrypt_spec_k; try assumption.
  exact (iv_low_zero _ _ _ L O V).
Qed.

Theorem rtp_cipher_spec : forall alg (mkey salt rest data : bytes) ssrc est,
  is_icm_alg alg = true -> length salt = 14%nat -> octets salt ->
  (0 <= ssrc < 2 ^ 32)%Z -> (0 <= est < 2 ^ 48)%Z ->
  (Z.of_nat ((length data + 15) / 16) <= 65535)%Z ->
  exists c',
    cipher_encrypt (cipher_start (cipher_key alg (lenZ mkey + 14) (mkey ++ salt ++ rest))
                                 (rtp_iv alg ssrc est)) data =
    (st_ok, CSIcm (aes_key_expand mkey) c',
     xor_bytes data (Rfc3711.cm_keystream mkey (Rfc3711.cm_iv salt (Z.to_N ssrc) (Z.to_N est)) (length data))).
Proof.
  intros alg mkey salt rest data ssrc est Ha Ls Hs Hssrc Hest Hn.
  rewrite (cipher_key_fields alg mkey salt rest Ha Ls).
  apply (rtp_cipher_spec_k {| ck_alg := alg; ck_klen := (lenZ mkey + 14)%Z; ck_rks := aes_key_expand mkey; ck_salt := salt |});
    try assumption; reflexivity.
Qed.

Theorem rtcp_cipher_spec : forall alg (mkey salt rest data : bytes) ssrc seq,
  is_icm_alg alg = true -> length salt = 14%nat -> octets salt ->
  (0 <= ssrc < 2 ^ 32)%Z -> (0 <= seq < 2 ^ 31)%Z ->
  (Z.of_nat ((length data + 15) / 16) <= 65535)%Z ->
  exists c',
    cipher_encrypt (cipher_start (cipher_key alg (lenZ mkey + 14) (mkey ++ salt ++ rest))
                                 (rtcp_iv alg ssrc seq)) data =
    (st_ok, CSIcm (aes_key_expand mkey) c',
     xor_bytes data (Rfc3711.cm_keystream mkey (Rfc3711.cm_iv salt (Z.to_N ssrc) (Z.to_N seq)) (length data))).
Proof.
  intros alg mkey salt rest data ssrc seq Ha Ls Hs Hssrc Hseq Hn.
  rewrite (cipher_key_fields alg mkey salt rest Ha Ls).
  apply (rtcp_cipher_spec_k {| ck_alg := alg; ck_klen := (lenZ mkey + 14)%Z; ck_rks := aes_key_expand mkey; ck_salt := salt |});
    try assumption; reflexivity.
Qed.
Print Assumptions rtp_cipher_spec_k.
Print Assumptions rtcp_cipher_spec_k.
Print Assumptions rtp_cipher_spec.
Print Assumptions rtcp_cipher_spec.

(* ================================================================== *)
(* 4. srtp_stream_init_keys: the session keys derive_keys returns are   *)
(*    Rfc3711.kdf with labels 0/1/2 (RTP), 3/4/5 (RTCP), 6/7 (RFC 6904) *)
(* ================================================================== *)
Local Open Scope Z_scope.

(* derive_keys, cut into named pieces (x = has_xtn p) *)
Definition dk_rtp_alg (p : policy) := cipher_alg_of (cp_cipher (p_rtp p)) (cp_keylen (p_rtp p)).
Definition dk_rtcp_alg (p : policy) := cipher_alg_of (cp_cipher (p_rtcp p)) (cp_keylen (p_rtcp p)).
Definition dk_input_keylen (p : policy) :=
  if full_key_length (dk_rtp_alg p) <? full_key_length (dk_rtcp_alg p)
  then full_key_length (dk_rtcp_alg p) else full_key_length (dk_rtp_alg p).
Definition dk_chk1 (p : policy) : bool :=
  (MAX_SRTP_KEY_LEN_c <? cp_keylen (p_rtp p)) || (MAX_SRTP_KEY_LEN_c <? cp_keylen (p_rtcp p))
  || (MAX_SRTP_KEY_LEN_c <? cp_authkeylen (p_rtp p)) || (MAX_SRTP_KEY_LEN_c <? cp_authkeylen (p_rtcp p)).
Definition dk_chk2 (p : policy) : bool :=
  (cp_keylen (p_rtp p) <? dk_input_keylen p) && (cp_keylen (p_rtcp p) <? dk_input_keylen p).
Definition dk_rtp_base (p : policy) := base_key_length (dk_rtp_alg p) (cp_keylen (p_rtp p)).
Definition dk_rtcp_base (p : policy) := base_key_length (dk_rtcp_alg p) (cp_keylen (p_rtcp p)).
Definition dk_kdf_keylen (p : policy) :=
  if (kdf_keylen_small_c <? cp_keylen (p_rtp p)) || (kdf_keylen_small_c <? cp_keylen (p_rtcp p))
     || (kdf_keylen_small_c <? dk_input_keylen p)
  then kdf_keylen_big_c else kdf_keylen_small_c.
Definition dk_t0 (p : policy) (mkey : bytes) : bytes * bool :=
  (splice 0 (take (zn (dk_input_keylen p)) mkey) (zeros (zn MAX_SRTP_KEY_LEN_c)), false).
Definition dk_kdf (p : policy) (mkey : bytes) : ckey :=
  cipher_key (if dk_kdf_keylen p =? SRTP_AES_ICM_256_KEY_LEN_WSALT_c then SRTP_AES_ICM_256_c else SRTP_AES_ICM_128_c)
             (dk_kdf_keylen p) (fst (dk_t0 p mkey)).
(* encryption key at 0, then the salt behind it *)
Definition dk_w2 (k : ckey) (t : bytes * bool) (l1 l2 base salt : Z) : bytes * bool :=
  if 0 <? salt then tmp_write (tmp_write t 0 (kdf_generate k l1 base)) base (kdf_generate k l2 salt)
  else tmp_write t 0 (kdf_generate k l1 base).
Definition dk_salt_of (t : bytes * bool) (base salt : Z) : bytes :=
  if 0 <? salt then slice (zn base) (zn SRTP_AEAD_SALT_LEN_c) (fst t) else zeros (zn SRTP_AEAD_SALT_LEN_c).
Definition dk_t2 p mkey :=
  dk_w2 (dk_kdf p mkey) (dk_t0 p mkey) label_rtp_encryption_c label_rtp_salt_c
        (dk_rtp_base p) (cp_keylen (p_rtp p) - dk_rtp_base p).
Definition dk_t4 p mkey (x : bool) :=
  if x then dk_w2 (dk_kdf p mkey) (dk_t2 p mkey) label_rtp_header_encryption_c label_rtp_header_salt_c
                  (dk_rtp_base p) (cp_keylen (p_rtp p) - dk_rtp_base p)
  else dk_t2 p mkey.
Definition dk_t5 p mkey x :=
  tmp_write (dk_t4 p mkey x) 0 (kdf_generate (dk_kdf p mkey) label_rtp_msg_auth_c (cp_authkeylen (p_rtp p))).
Definition dk_t7 p mkey x :=
  dk_w2 (dk_kdf p mkey) (dk_t5 p mkey x) label_rtcp_encryption_c label_rtcp_salt_c
        (dk_rtcp_base p) (cp_keylen (p_rtcp p) - dk_rtcp_base p).
Definition dk_t8 p mkey x :=
  tmp_write (dk_t7 p mkey x) 0 (kdf_generate (dk_kdf p mkey) label_rtcp_msg_auth_c (cp_authkeylen (p_rtcp p))).
Definition dk_result p mkey mki (x : bool) : derived :=
  {| d_keys :=
       {| k_rtp_c := cipher_key (dk_rtp_alg p) (cp_keylen (p_rtp p)) (fst (dk_t2 p mkey));
          k_rtp_a := auth_key (cp_auth (p_rtp p)) (cp_authkeylen (p_rtp p)) (cp_taglen (p_rtp p)) (fst (dk_t5 p mkey x));
          k_xtn_c := if x then Some (cipher_key (dk_rtp_alg p) (cp_keylen (p_rtp p)) (fst (dk_t4 p mkey x))) else None;
          k_rtcp_c := cipher_key (dk_rtcp_alg p) (cp_keylen (p_rtcp p)) (fst (dk_t7 p mkey x));
          k_rtcp_a := auth_key (cp_auth (p_rtcp p)) (cp_authkeylen (p_rtcp p)) (cp_taglen (p_rtcp p)) (fst (dk_t8 p mkey x));
          k_salt := dk_salt_of (dk_t2 p mkey) (dk_rtp_base p) (cp_keylen (p_rtp p) - dk_rtp_base p);
          k_csalt := dk_salt_of (dk_t7 p mkey x) (dk_rtcp_base p) (cp_keylen (p_rtcp p) - dk_rtcp_base p);
          k_mki := mki |};
     d_overflow := snd (dk_t8 p mkey x) |}.

Lemma derive_keys_eq p mkey mki :
  derive_keys p mkey mki =
  if dk_chk1 p then (st_bad_param, None)
  else if dk_chk2 p then (st_bad_param, None)
  else (st_ok, Some (dk_result p mkey mki (has_xtn p))).
Proof.
  unfold derive_keys, dk_chk1, dk_chk2, dk_input_keylen, dk_rtp_alg, dk_rtcp_alg.
  match goal with |- context [if ?c then (st_bad_param, None) else _] => destruct c; [reflexivity|] end.
  match goal with |- context [if ?c then (st_bad_param, None) else _] => destruct c; [reflexivity|] end.
  destruct (has_xtn p); reflexivity.
Qed.

(* ---- the scratch buffer tmp_key[256] ---- *)
Lemma splice0 {A} : forall (v l : list A), (length v <= length l)%nat -> splice 0 v l = v ++ drop (length v) l.
Proof.
  induction v as [|y v IH]; intros [|x l] L; cbn [length] in L; cbn [splice app drop length];
    try lia; try reflexivity.
  rewrite IH by lia. reflexivity.
Qed.

Lemma splice_gen {A} : forall off (v l : list A), (off + length v <= length l)%nat ->
  splice off v l = take off l ++ v ++ drop (off + length v) l.
Proof.
  induction off as [|o IH]; intros v l L.
  - cbn [take app Nat.add]. apply splice0. lia.
  - destruct l as [|x l]; cbn [length] in L; [lia|].
    cbn [splice take app Nat.add drop]. rewrite IH by lia. reflexivity.
Qed.

Lemma splice_length {A} : forall (l : list A) off v, length (splice off v l) = length l.
Proof.
  induction l as [|x l IH]; intros [|o] v; cbn [splice length]; try reflexivity.
  - destruct v as [|y v]; cbn [length]; [reflexivity|rewrite IH; reflexivity].
  - rewrite IH. reflexivity.
Qed.

Definition good (t : bytes * bool) : Prop := lenZ (fst t) = 256 /\ snd t = false.

Lemma tmp_write_good t off v : good t -> 0 <= off -> off + lenZ v <= 256 -> good (tmp_write t off v).
Proof.
  intros [L S] Ho Hv. unfold tmp_write, good. cbn [fst snd]. split.
  - unfold lenZ in *. rewrite splice_length. exact L.
  - rewrite S. unfold MAX_SRTP_KEY_LEN_c. lia.
Qed.

Lemma tmp_write_fst t off v : good t -> 0 <= off -> off + lenZ v <= 256 ->
  fst (tmp_write t off v) = take (zn off) (fst t) ++ v ++ drop (zn off + length v) (fst t).
Proof.
  intros [L _] Ho Hv. unfold tmp_write. cbn [fst]. apply splice_gen. unfold lenZ, zn in *. lia.
Qed.

Lemma write1_fst t (A : bytes) : good t -> lenZ A <= 256 ->
  fst (tmp_write t 0 A) = A ++ drop (length A) (fst t) /\ good (tmp_write t 0 A).
Proof.
  intros G H. split; [|apply tmp_write_good; [exact G|lia|lia]].
  rewrite tmp_write_fst by (try exact G; lia). reflexivity.
Qed.

Lemma write2_fst t (A B : bytes) : good t -> lenZ A + lenZ B <= 256 ->
  fst (tmp_write (tmp_write t 0 A) (lenZ A) B) = A ++ B ++ drop (length A + length B) (fst t) /\
  good (tmp_write (tmp_write t 0 A) (lenZ A) B).
Proof.
  intros G H.
  assert (HA : 0 <= lenZ A) by (unfold lenZ; lia). assert (HB : 0 <= lenZ B) by (unfold lenZ; lia).
  destruct (write1_fst t A G ltac:(lia)) as [E1 G1].
  split; [|apply tmp_write_good; [exact G1|lia|lia]].
  rewrite tmp_write_fst by (try exact G1; lia). rewrite E1.
  replace (zn (lenZ A)) with (length A) by (unfold zn, lenZ; lia).
  rewrite take_app_len. do 2 f_equal.
  rewrite !drop_skipn, skipn_app_ge, <- skipn_add. reflexivity.
Qed.

Lemma slice_salt12 (A B rest : bytes) : (12 <= length B)%nat -> slice (length A) 12 (A ++ B ++ rest) = take 12 B.
Proof.
  intros L. unfold slice. rewrite drop_app_len, !take_firstn. apply firstn_app_le. exact L.
Qed.

Lemma auth_key_prefix id klen tlen (K rest : bytes) : length K = zn klen ->
  auth_key id klen tlen (K ++ rest) = auth_key id klen tlen K.
Proof.
  intros L. unfold auth_key. destruct (id =? SRTP_HMAC_SHA1_c); [|reflexivity].
  f_equal. rewrite <- L, take_app_len, take_firstn, firstn_all. reflexivity.
Qed.

Lemma kdf_length mk ms l n : length (Rfc3711.kdf mk ms l n) = n.
Proof. unfold Rfc3711.kdf. apply cm_keystream_length. Qed.

Definition mk_ckey (alg klen : Z) (key salt : bytes) : ckey :=
  {| ck_alg := alg; ck_klen := klen; ck_rks := aes_key_expand key; ck_salt := salt |}.

(* what RFC 3711 4.3 / RFC 6904 prescribe for one master key, in the shape of the model's key set *)
Definition rfc_session_keys (p : policy) (alg kl : Z) (mk ms mki : bytes) : skeys :=
  let K := fun (l : N) (n : nat) => Rfc3711.kdf mk ms l n in
  let b := length mk in
  {| k_rtp_c := mk_ckey alg kl (K 0%N b) (K 2%N 14%nat);
     k_rtp_a := auth_key (cp_auth (p_rtp p)) (cp_authkeylen (p_rtp p)) (cp_taglen (p_rtp p))
                         (K 1%N (zn (cp_authkeylen (p_rtp p))));
     k_xtn_c := if has_xtn p then Some (mk_ckey alg kl (K 6%N b) (K 7%N 14%nat)) else None;
     k_rtcp_c := mk_ckey alg kl (K 3%N b) (K 5%N 14%nat);
     k_rtcp_a := auth_key (cp_auth (p_rtcp p)) (cp_authkeylen (p_rtcp p)) (cp_taglen (p_rtcp p))
                          (K 4%N (zn (cp_authkeylen (p_rtcp p))));
     k_salt := take 12 (K 2%N 14%nat);
     k_csalt := take 12 (K 5%N 14%nat);
     k_mki := mki |}.

Section DKGEN.
Variables (p : policy) (mk ms extra mki : bytes) (alg kl : Z).
Hypothesis Hkl : kl = lenZ mk + 14.
Hypothesis Hkl256 : kl <= 256.
Hypothesis Ha : is_icm_alg alg = true.
Hypothesis Hralg : dk_rtp_alg p = alg.
Hypothesis Hcalg : dk_rtcp_alg p = alg.
Hypothesis Hrkl : cp_keylen (p_rtp p) = kl.
Hypothesis Hckl : cp_keylen (p_rtcp p) = kl.
Hypothesis Hfull : full_key_length alg = kl.
Hypothesis Hkk : dk_kdf_keylen p = kl.
Hypothesis Hka : (if kl =? SRTP_AES_ICM_256_KEY_LEN_WSALT_c then SRTP_AES_ICM_256_c else SRTP_AES_ICM_128_c) = alg.
Hypothesis Lms : length ms = 14%nat.
Hypothesis Oms : octets ms.
Hypothesis Hra : 0 <= cp_authkeylen (p_rtp p) <= 256.
Hypothesis Hca : 0 <= cp_authkeylen (p_rtcp p) <= 256.

Let mkey := mk ++ ms ++ extra.
Let K := fun (l : N) (n : nat) => Rfc3711.kdf mk ms l n.
Let b := length mk.

Lemma g_input : dk_input_keylen p = kl.
Proof. unfold dk_input_keylen. rewrite Hralg, Hcalg, Hfull, Z.ltb_irrefl. reflexivity. Qed.

Lemma g_chk1 : dk_chk1 p = false.
Proof. unfold dk_chk1. rewrite Hrkl, Hckl. unfold MAX_SRTP_KEY_LEN_c. lia. Qed.

Lemma g_chk2 : dk_chk2 p = false.
Proof. unfold dk_chk2. rewrite g_input, Hrkl, Z.ltb_irrefl. reflexivity. Qed.

Lemma g_base alg' : alg' = alg -> base_key_length alg' kl = lenZ mk.
Proof.
  intros ->. unfold base_key_length. rewrite (icm_not_null alg Ha), Ha. unfold SRTP_SALT_LEN_c. lia.
Qed.

Lemma g_rtp_base : dk_rtp_base p = lenZ mk.
Proof. unfold dk_rtp_base. rewrite Hrkl. apply g_base. exact Hralg. Qed.
Lemma g_rtcp_base : dk_rtcp_base p = lenZ mk.
Proof. unfold dk_rtcp_base. rewrite Hckl. apply g_base. exact Hcalg. Qed.

Lemma g_t0 : exists R0, fst (dk_t0 p mkey) = mk ++ ms ++ R0 /\ good (dk_t0 p mkey).
Proof.
  unfold dk_t0. rewrite g_input. cbn [fst].
  assert (Z256 : length (zeros (zn MAX_SRTP_KEY_LEN_c)) = 256%nat) by apply repeat_length.
  assert (T : take (zn kl) mkey = mk ++ ms).
  { subst mkey. rewrite app_assoc. replace (zn kl) with (length (mk ++ ms)); [apply take_app_len|].
    rewrite app_length. unfold zn, lenZ in *. lia. }
  rewrite T. exists (drop (length (mk ++ ms)) (zeros (zn MAX_SRTP_KEY_LEN_c))). split.
  - rewrite splice0, <- app_assoc; [reflexivity|]. rewrite Z256, app_length. unfold lenZ in *. lia.
  - split; [|reflexivity]. cbn [fst]. unfold lenZ. rewrite splice_length, Z256. reflexivity.
Qed.

Lemma g_kdf l n : 0 <= l < 256 -> 0 <= n <= 256 ->
  kdf_generate (dk_kdf p mkey) l n = K (Z.to_N l) (zn n).
Proof.
  intros Hl Hn. destruct g_t0 as (R0 & E0 & _). unfold dk_kdf. rewrite Hkk, Hka, E0, Hkl.
  apply kdf_generate_spec; try assumption. unfold zn. lia.
Qed.

Lemma g_kdf_len l n : 0 <= n -> lenZ (K l (zn n)) = n.
Proof. intros Hn. unfold lenZ, K. rewrite kdf_length. unfold zn. lia. Qed.

(* key at 0, 14-octet salt behind it *)
Lemma g_w2 t l1 l2 : good t -> 0 <= l1 < 256 -> 0 <= l2 < 256 ->
  exists R, fst (dk_w2 (dk_kdf p mkey) t l1 l2 (lenZ mk) (kl - lenZ mk)) =
            K (Z.to_N l1) b ++ K (Z.to_N l2) 14%nat ++ R /\
            good (dk_w2 (dk_kdf p mkey) t l1 l2 (lenZ mk) (kl - lenZ mk)).
Proof.
  intros G H1 H2. unfold dk_w2. replace (kl - lenZ mk) with 14 by lia. change (0 <? 14) with true. cbv iota.
  assert (Hb : 0 <= lenZ mk <= 256) by (unfold lenZ in *; lia).
  rewrite !g_kdf by lia.
  replace (zn (lenZ mk)) with b by (unfold zn, lenZ, b; lia). change (zn 14) with 14%nat.
  assert (LA : lenZ (K (Z.to_N l1) b) = lenZ mk) by (unfold lenZ, K, b; rewrite kdf_length; reflexivity).
  assert (LB : lenZ (K (Z.to_N l2) 14%nat) = 14) by (unfold lenZ, K; rewrite kdf_length; reflexivity).
  rewrite <- LA.
  destruct (write2_fst t (K (Z.to_N l1) b) (K (Z.to_N l2) 14%nat) G ltac:(lia)) as [E G2].
  split with (drop (length (K (Z.to_N l1) b) + length (K (Z.to_N l2) 14%nat)) (fst t)).
  split; [exact E|exact G2].
Qed.

Lemma g_ckey R l1 l2 :
  cipher_key alg kl (K l1 b ++ K l2 14%nat ++ R) = mk_ckey alg kl (K l1 b) (K l2 14%nat).
Proof.
  assert (E : kl = lenZ (K l1 b) + 14) by (unfold lenZ, K, b in *; rewrite kdf_length; exact Hkl).
  rewrite E at 1. rewrite cipher_key_fields; [|exact Ha|apply kdf_length]. rewrite <- E. reflexivity.
Qed.

Lemma g_salt (t : bytes * bool) R l1 l2 : fst t = K l1 b ++ K l2 14%nat ++ R ->
  dk_salt_of t (lenZ mk) (kl - lenZ mk) = take 12 (K l2 14%nat).
Proof.
  intros E. unfold dk_salt_of. replace (kl - lenZ mk) with 14 by lia. change (0 <? 14) with true. cbv iota.
  rewrite E. replace (zn (lenZ mk)) with (length (K l1 b)) by (unfold K; rewrite kdf_length; unfold zn, lenZ, b; lia).
  change (zn SRTP_AEAD_SALT_LEN_c) with 12%nat. apply slice_salt12. unfold K. rewrite kdf_length. lia.
Qed.

Lemma g_auth t id akl tlen l : good t -> 0 <= akl <= 256 -> 0 <= l < 256 ->
  auth_key id akl tlen (fst (tmp_write t 0 (kdf_generate (dk_kdf p mkey) l akl))) =
  auth_key id akl tlen (K (Z.to_N l) (zn akl)) /\
  good (tmp_write t 0 (kdf_generate (dk_kdf p mkey) l akl)).
Proof.
  intros G Hk Hl. rewrite g_kdf by lia.
  destruct (write1_fst t (K (Z.to_N l) (zn akl)) G) as [E G1]; [rewrite g_kdf_len; lia|].
  split; [|exact G1]. rewrite E. apply auth_key_prefix. unfold K. apply kdf_length.
Qed.

Theorem derive_keys_spec_gen :
  derive_keys p mkey mki =
  (st_ok, Some {| d_keys := rfc_session_keys p alg kl mk ms mki; d_overflow := false |}).
Proof.
  rewrite derive_keys_eq, g_chk1, g_chk2. do 2 f_equal.
  destruct g_t0 as (R0 & E0 & G0).
  assert (L0 : 0 <= label_rtp_encryption_c < 256) by (unfold label_rtp_encryption_c; lia).
  assert (L1 : 0 <= label_rtp_msg_auth_c < 256) by (unfold label_rtp_msg_auth_c; lia).
  assert (L2 : 0 <= label_rtp_salt_c < 256) by (unfold label_rtp_salt_c; lia).
  assert (L3 : 0 <= label_rtcp_encryption_c < 256) by (unfold label_rtcp_encryption_c; lia).
  assert (L4 : 0 <= label_rtcp_msg_auth_c < 256) by (unfold label_rtcp_msg_auth_c; lia).
  assert (L5 : 0 <= label_rtcp_salt_c < 256) by (unfold label_rtcp_salt_c; lia).
  assert (L6 : 0 <= label_rtp_header_encryption_c < 256) by (unfold label_rtp_header_encryption_c; lia).
  assert (L7 : 0 <= label_rtp_header_salt_c < 256) by (unfold label_rtp_header_salt_c; lia).
  (* t2 *)
  destruct (g_w2 (dk_t0 p mkey) _ _ G0 L0 L2) as (R2 & E2 & G2).
  assert (T2 : dk_t2 p mkey = dk_w2 (dk_kdf p mkey) (dk_t0 p mkey) label_rtp_encryption_c label_rtp_salt_c (lenZ mk) (kl - lenZ mk)).
  { unfold dk_t2. rewrite g_rtp_base, Hrkl. reflexivity. }
  rewrite <- T2 in E2, G2.
  (* t4 *)
  assert (X4 : exists R4, good (dk_t4 p mkey (has_xtn p)) /\
               (has_xtn p = true -> fst (dk_t4 p mkey (has_xtn p)) =
                  K (Z.to_N label_rtp_header_encryption_c) b ++ K (Z.to_N label_rtp_header_salt_c) 14%nat ++ R4)).
  { unfold dk_t4. destruct (has_xtn p).
    - rewrite g_rtp_base, Hrkl.
      destruct (g_w2 (dk_t2 p mkey) _ _ G2 L6 L7) as (R4 & E4 & G4). exists R4. split; [exact G4|intros _; exact E4].
    - exists []. split; [exact G2|intros H; discriminate H]. }
  destruct X4 as (R4 & G4 & E4).
  (* t5 *)
  destruct (g_auth (dk_t4 p mkey (has_xtn p)) (cp_auth (p_rtp p)) (cp_authkeylen (p_rtp p)) (cp_taglen (p_rtp p))
                   label_rtp_msg_auth_c G4 Hra L1) as [A5 G5].
  fold (dk_t5 p mkey (has_xtn p)) in A5, G5.
  (* t7 *)
  destruct (g_w2 (dk_t5 p mkey (has_xtn p)) _ _ G5 L3 L5) as (R7 & E7 & G7).
  assert (T7 : dk_t7 p mkey (has_xtn p) =
               dk_w2 (dk_kdf p mkey) (dk_t5 p mkey (has_xtn p)) label_rtcp_encryption_c label_rtcp_salt_c (lenZ mk) (kl - lenZ mk)).
  { unfold dk_t7. rewrite g_rtcp_base, Hckl. reflexivity. }
  rewrite <- T7 in E7, G7.
  (* t8 *)
  destruct (g_auth (dk_t7 p mkey (has_xtn p)) (cp_auth (p_rtcp p)) (cp_authkeylen (p_rtcp p)) (cp_taglen (p_rtcp p))
                   label_rtcp_msg_auth_c G7 Hca L4) as [A8 G8].
  fold (dk_t8 p mkey (has_xtn p)) in A8, G8.
  unfold dk_result, rfc_session_keys. fold K. fold b.
  rewrite Hralg, Hcalg, Hrkl, Hckl, g_rtp_base, g_rtcp_base.
  f_equal; [|exact (proj2 G8)].
  rewrite A5, A8, E2, E7, !g_ckey.
  rewrite (g_salt (dk_t2 p mkey) R2 _ _ E2), (g_salt (dk_t7 p mkey (has_xtn p)) R7 _ _ E7).
  f_equal.
  destruct (has_xtn p); [|reflexivity].
  rewrite (E4 eq_refl), g_ckey. reflexivity.
Qed.
End DKGEN.
Print Assumptions derive_keys_spec_gen.

(* ---- the two policies libsrtp's internal crypto supports: AES-ICM-128 (30-octet master
        key ‖ salt) and AES-ICM-256 (46 octets); the KDF cipher is ICM-128 resp. ICM-256 ---- *)
Lemma cipher_alg_of_30 id : id <> SRTP_NULL_CIPHER_c -> cipher_alg_of id 30 = SRTP_AES_ICM_128_c.
Proof. intros H. unfold cipher_alg_of. destruct (id =? SRTP_NULL_CIPHER_c) eqn:E; [lia|reflexivity]. Qed.
Lemma cipher_alg_of_46 id : id <> SRTP_NULL_CIPHER_c -> cipher_alg_of id 46 = SRTP_AES_ICM_256_c.
Proof. intros H. unfold cipher_alg_of. destruct (id =? SRTP_NULL_CIPHER_c) eqn:E; [lia|reflexivity]. Qed.

Theorem derive_keys_spec_128 : forall (p : policy) (mk ms extra mki : bytes),
  cp_cipher (p_rtp p) <> SRTP_NULL_CIPHER_c -> cp_keylen (p_rtp p) = 30 ->
  cp_cipher (p_rtcp p) <> SRTP_NULL_CIPHER_c -> cp_keylen (p_rtcp p) = 30 ->
  0 <= cp_authkeylen (p_rtp p) <= 256 -> 0 <= cp_authkeylen (p_rtcp p) <= 256 ->
  length mk = 16%nat -> length ms = 14%nat -> octets ms ->
  derive_keys p (mk ++ ms ++ extra) mki =
  (st_ok, Some {| d_keys := rfc_session_keys p SRTP_AES_ICM_128_c 30 mk ms mki; d_overflow := false |}).
Proof.
  intros p mk ms extra mki Hc1 Hk1 Hc2 Hk2 Ha1 Ha2 Lmk Lms Oms.
  assert (A1 : dk_rtp_alg p = SRTP_AES_ICM_128_c) by (unfold dk_rtp_alg; rewrite Hk1; apply cipher_alg_of_30; exact Hc1).
  assert (A2 : dk_rtcp_alg p = SRTP_AES_ICM_128_c) by (unfold dk_rtcp_alg; rewrite Hk2; apply cipher_alg_of_30; exact Hc2).
  apply derive_keys_spec_gen; try assumption; try reflexivity.
  - unfold lenZ. lia.
  - lia.
  - unfold dk_kdf_keylen, dk_input_keylen. rewrite A1, A2, Hk1, Hk2. reflexivity.
Qed.

Theorem derive_keys_spec_256 : forall (p : policy) (mk ms extra mki : bytes),
  cp_cipher (p_rtp p) <> SRTP_NULL_CIPHER_c -> cp_keylen (p_rtp p) = 46 ->
  cp_cipher (p_rtcp p) <> SRTP_NULL_CIPHER_c -> cp_keylen (p_rtcp p) = 46 ->
  0 <= cp_authkeylen (p_rtp p) <= 256 -> 0 <= cp_authkeylen (p_rtcp p) <= 256 ->
  length mk = 32%nat -> length ms = 14%nat -> octets ms ->
  derive_keys p (mk ++ ms ++ extra) mki =
  (st_ok, Some {| d_keys := rfc_session_keys p SRTP_AES_ICM_256_c 46 mk ms mki; d_overflow := false |}).
Proof.
  intros p mk ms extra mki Hc1 Hk1 Hc2 Hk2 Ha1 Ha2 Lmk Lms Oms.
  assert (A1 : dk_rtp_alg p = SRTP_AES_ICM_256_c) by (unfold dk_rtp_alg; rewrite Hk1; apply cipher_alg_of_46; exact Hc1).
  assert (A2 : dk_rtcp_alg p = SRTP_AES_ICM_256_c) by (unfold dk_rtcp_alg; rewrite Hk2; apply cipher_alg_of_46; exact Hc2).
  apply derive_keys_spec_gen; try assumption; try reflexivity.
  - unfold lenZ. lia.
  - lia.
  - unfold dk_kdf_keylen, dk_input_keylen. rewrite A1, A2, Hk1, Hk2. reflexivity.
Qed.
Print Assumptions derive_keys_spec_128.
Print Assumptions derive_keys_spec_256.

(* ---- reading rfc_session_keys in the vocabulary of the specification:
        Rfc3711.derive mk ms l_e l_a l_s n_e 20 14 as used by srtp_protect / srtcp_protect ---- *)
Lemma hmac_key_20 id tlen (K : bytes) : id = SRTP_HMAC_SHA1_c -> length K = 20%nat ->
  ak_key (auth_key id 20 tlen K) = K.
Proof.
  intros -> L. unfold auth_key. rewrite Z.eqb_refl. cbn [ak_key]. change (zn 20) with 20%nat.
  rewrite take_firstn, <- L. apply firstn_all.
Qed.

Theorem session_keys_rtp : forall p alg kl mk ms mki,
  cp_auth (p_rtp p) = SRTP_HMAC_SHA1_c -> cp_authkeylen (p_rtp p) = 20 ->
  let s := rfc_session_keys p alg kl mk ms mki in
  let k := Rfc3711.derive mk ms 0 1 2 (length mk) 20 14 in
  ck_alg (k_rtp_c s) = alg /\ ck_rks (k_rtp_c s) = aes_key_expand (Rfc3711.ke k) /\
  ck_salt (k_rtp_c s) = Rfc3711.ks k /\ ak_key (k_rtp_a s) = Rfc3711.ka k /\
  k_salt s = take 12 (Rfc3711.ks k).
Proof.
  intros p alg kl mk ms mki Hau Hak s k. subst s k. unfold rfc_session_keys, Rfc3711.derive, mk_ckey.
  cbn [k_rtp_c k_rtp_a k_salt ck_alg ck_rks ck_salt Rfc3711.ke Rfc3711.ka Rfc3711.ks].
  repeat split. rewrite Hak. change (zn 20) with 20%nat. apply hmac_key_20; [exact Hau|apply kdf_length].
Qed.

Theorem session_keys_rtcp : forall p alg kl mk ms mki,
  cp_auth (p_rtcp p) = SRTP_HMAC_SHA1_c -> cp_authkeylen (p_rtcp p) = 20 ->
  let s := rfc_session_keys p alg kl mk ms mki in
  let k := Rfc3711.derive mk ms 3 4 5 (length mk) 20 14 in
  ck_alg (k_rtcp_c s) = alg /\ ck_rks (k_rtcp_c s) = aes_key_expand (Rfc3711.ke k) /\
  ck_salt (k_rtcp_c s) = Rfc3711.ks k /\ ak_key (k_rtcp_a s) = Rfc3711.ka k /\
  k_csalt s = take 12 (Rfc3711.ks k).
Proof.
  intros p alg kl mk ms mki Hau Hak s k. subst s k. unfold rfc_session_keys, Rfc3711.derive, mk_ckey.
  cbn [k_rtcp_c k_rtcp_a k_csalt ck_alg ck_rks ck_salt Rfc3711.ke Rfc3711.ka Rfc3711.ks].
  repeat split. rewrite Hak. change (zn 20) with 20%nat. apply hmac_key_20; [exact Hau|apply kdf_length].
Qed.

(* RFC 6904: header-extension cipher, labels 6 (key) and 7 (salt) *)
Theorem session_keys_xtn : forall p alg kl mk ms mki,
  let s := rfc_session_keys p alg kl mk ms mki in
  let k := Rfc3711.derive mk ms 6 1 7 (length mk) 20 14 in
  k_xtn_c s = if has_xtn p then Some (mk_ckey alg kl (Rfc3711.ke k) (Rfc3711.ks k)) else None.
Proof. intros. reflexivity. Qed.

(* ---- octets: AES-CM keystream, hence every derived key, is an octet string ---- *)
Lemma cm_blocks_octets key : octets key -> forall n iv j, octets (Rfc3711.cm_blocks (aes_key_expand key) iv j n).
Proof.
  intros Hk. induction n as [|n IH]; intros iv j; cbn [Rfc3711.cm_blocks]; [constructor|].
  apply octets_app; [|apply IH]. apply aes_block_octets; [exact Hk|apply be_bytes_bytes].
Qed.

Lemma cm_keystream_octets key iv n : octets key -> octets (Rfc3711.cm_keystream key iv n).
Proof. intros Hk. unfold Rfc3711.cm_keystream. apply octets_take, cm_blocks_octets. exact Hk. Qed.

Lemma kdf_octets mk ms l n : octets mk -> octets (Rfc3711.kdf mk ms l n).
Proof. intros Hk. unfold Rfc3711.kdf. apply cm_keystream_octets. exact Hk. Qed.

(* ---- end to end: with the keys derive_keys installs, the packet ciphers emit exactly the
        keystream Rfc3711.srtp_protect / srtcp_protect xor into the payload ---- *)
Theorem session_rtp_encrypt : forall p alg kl (mk ms mki data : bytes) ssrc est,
  is_icm_alg alg = true -> octets mk ->
  (0 <= ssrc < 2 ^ 32) -> (0 <= est < 2 ^ 48) ->
  Z.of_nat ((length data + 15) / 16) <= 65535 ->
  let s := rfc_session_keys p alg kl mk ms mki in
  let k := Rfc3711.derive mk ms 0 1 2 (length mk) 20 14 in
  exists c',
    cipher_encrypt (cipher_start (k_rtp_c s) (rtp_iv (ck_alg (k_rtp_c s)) ssrc est)) data =
    (st_ok, CSIcm (aes_key_expand (Rfc3711.ke k)) c',
     xor_bytes data (Rfc3711.cm_keystream (Rfc3711.ke k)
                       (Rfc3711.cm_iv (Rfc3711.ks k) (Z.to_N ssrc) (Z.to_N est)) (length data))).
Proof.
  intros p alg kl mk ms mki data ssrc est Ha Omk Hssrc Hest Hn s k.
  apply rtp_cipher_spec_k; try assumption; try reflexivity.
  - apply kdf_length.
  - apply kdf_octets. exact Omk.
Qed.

Theorem session_rtcp_encrypt : forall p alg kl (mk ms mki data : bytes) ssrc seq,
  is_icm_alg alg = true -> octets mk ->
  (0 <= ssrc < 2 ^ 32) -> (0 <= seq < 2 ^ 31) ->
  Z.of_nat ((length data + 15) / 16) <= 65535 ->
  let s := rfc_session_keys p alg kl mk ms mki in
  let k := Rfc3711.derive mk ms 3 4 5 (length mk) 20 14 in
  exists c',
    cipher_encrypt (cipher_start (k_rtcp_c s) (rtcp_iv (ck_alg (k_rtcp_c s)) ssrc seq)) data =
    (st_ok, CSIcm (aes_key_expand (Rfc3711.ke k)) c',
     xor_bytes data (Rfc3711.cm_keystream (Rfc3711.ke k)
                       (Rfc3711.cm_iv (Rfc3711.ks k) (Z.to_N ssrc) (Z.to_N seq)) (length data))).
Proof.
  intros p alg kl mk ms mki data ssrc seq Ha Omk Hssrc Hseq Hn s k.
  apply rtcp_cipher_spec_k; try assumption; try reflexivity.
  - apply kdf_length.
  - apply kdf_octets. exact Omk.
Qed.
Print Assumptions session_keys_rtp.
Print Assumptions session_keys_rtcp.
Print Assumptions session_rtp_encrypt.
Print Assumptions session_rtcp_encrypt.

(* RFC 6904 header-extension keystream (srtp_protect's `stream`): same IV, keys with labels 6 / 7 *)
Theorem session_xtn_encrypt : forall alg kl (mk ms data : bytes) ssrc est,
  is_icm_alg alg = true -> octets mk ->
  (0 <= ssrc < 2 ^ 32) -> (0 <= est < 2 ^ 48) ->
  Z.of_nat ((length data + 15) / 16) <= 65535 ->
  let k := Rfc3711.derive mk ms 6 1 7 (length mk) 20 14 in
  let c := mk_ckey alg kl (Rfc3711.ke k) (Rfc3711.ks k) in
  exists c',
    cipher_encrypt (cipher_start c (rtp_iv (ck_alg c) ssrc est)) data =
    (st_ok, CSIcm (aes_key_expand (Rfc3711.ke k)) c',
     xor_bytes data (Rfc3711.cm_keystream (Rfc3711.ke k)
                       (Rfc3711.cm_iv (Rfc3711.ks k) (Z.to_N ssrc) (Z.to_N est)) (length data))).
Proof.
  intros alg kl mk ms data ssrc est Ha Omk Hssrc Hest Hn k c.
  apply rtp_cipher_spec_k; try assumption; try reflexivity.
  - apply kdf_length.
  - apply kdf_octets. exact Omk.
Qed.
Print Assumptions session_xtn_encrypt.

(* ---- non-vacuity: the model's KDF on the RFC 3711 B.3 master key / salt ---- *)
Example model_kdf_b3 :
  let mk := [0xE1;0xF9;0x7A;0x0D;0x3E;0x01;0x8B;0xE0;0xD6;0x4F;0xA3;0x2C;0x06;0xDE;0x41;0x39]%N in
  let ms := [0x0E;0xC6;0x75;0xAD;0x49;0x8A;0xFE;0xEB;0xB6;0x96;0x0B;0x3A;0xAB;0xE6]%N in
  let k := cipher_key SRTP_AES_ICM_128_c 30 (mk ++ ms ++ zeros 226) in
  kdf_generate k 0 16 = [0xC6;0x1E;0x7A;0x93;0x74;0x4F;0x39;0xEE;0x10;0x73;0x4A;0xFE;0x3F;0xF7;0xA0;0x87]%N /\
  kdf_generate k 2 14 = [0x30;0xCB;0xBC;0x08;0x86;0x3D;0x8C;0x85;0xD4;0x9D;0xB3;0x4A;0x9A;0xE1]%N /\
  kdf_generate k 0 16 = Rfc3711.kdf mk ms 0 16.
Proof. vm_compute. repeat split; reflexivity. Qed.

(* ---- the boundary: RFC 3711 allows 2^16 keystream blocks per IV, aes_icm.c (and the model)
        2^16 - 1.  A request that needs block index 65535 + 1 is refused (status terminus,
        no output), so kdf_generate_spec does not extend to ceil(n/16) = 65536. ---- *)
Lemma kdf_generate_terminus : forall alg (mkey msalt rest : bytes) label n,
  is_icm_alg alg = true -> length msalt = 14%nat ->
  1048560 < n -> n + 15 < 18446744073709551616 ->
  kdf_generate (cipher_key alg (lenZ mkey + 14) (mkey ++ msalt ++ rest)) label n = [].
Proof.
  intros alg mkey msalt rest label n Ha Ls Hn Hn2.
  rewrite (cipher_key_fields alg mkey msalt rest Ha Ls).
  unfold kdf_generate, cipher_output, cipher_start. cbn [ck_alg ck_rks ck_salt]. rewrite Ha.
  cbn [cipher_encrypt]. rewrite icm_encrypt_refused; [reflexivity|].
  unfold icm_refuses. rewrite ctr_low_set_iv_init.
  change (be16 (take 16 ((zeros 7 ++ [Z.to_N label] ++ zeros 8) ++ zeros 16)) 14) with 0.
  cbn [icm_set_iv i_in].
  assert (L : lenZ (zeros (zn n)) = n) by (unfold lenZ, zeros; rewrite repeat_length; unfold zn; lia).
  rewrite L. unfold icm_max_blocks_c, u64. lia.
Qed.

Corollary kdf_boundary_differs : forall (mkey msalt rest : bytes) label,
  length msalt = 14%nat ->
  kdf_generate (cipher_key SRTP_AES_ICM_128_c (lenZ mkey + 14) (mkey ++ msalt ++ rest)) label 1048576 = [] /\
  length (Rfc3711.kdf mkey msalt (Z.to_N label) (zn 1048576)) = zn 1048576.
Proof.
  intros mkey msalt rest label Ls. split; [|apply kdf_length].
  apply kdf_generate_terminus; [reflexivity|exact Ls|lia|lia].
Qed.
Print Assumptions kdf_boundary_differs.
