(* Properties_C09.v — key lifetime (C09).  Statements only; proofs are in KeyLimitProofs.v. *)
From Coq Require Import ZArith List Bool.
From Srtp Require Import Util Constants KeyLimit KeyLimitProofs Rdb Rdbx Icm World Stream Rtp LimitProofs.
Import ListNotations.
Local Open Scope Z_scope.

(* the threshold the property names *)
Theorem soft_limit_is_2_16 : soft_limit_c = 2 ^ 16 /\ key_limit_init_c = 2 ^ 48 - 1.
Proof. exact (conj soft_limit_value key_limit_init_value). Qed.
Print Assumptions soft_limit_is_2_16.

(* each update consumes exactly one unit while budget remains, and the event is
   determined by the new budget: normal iff >= 2^16, soft iff in (0, 2^16), hard iff 0 *)
Theorem one_unit_per_update : forall k,
  0 < num_left k < 2 ^ 64 ->
  let '(k', e) := kl_update k in
  num_left k' = num_left k - 1 /\
  (e = EvNormal <-> 2 ^ 16 <= num_left k') /\
  (e = EvHard <-> num_left k' = 0) /\
  (e = EvSoft <-> 0 < num_left k' < 2 ^ 16) /\
  (e = EvHard -> kst k' = KExpired).
Proof. exact kl_update_pos. Qed.
Print Assumptions one_unit_per_update.

(* every history of updates from every budget: the i-th call (0-based) reports
   normal iff more than 2^16 units remain after it, soft iff between 1 and 2^16-1,
   and hard from the call that exhausts the budget onwards, for ever *)
Theorem budget_events : forall n k, kl_ok k ->
  forall i e, nth_error (snd (kl_updates n k)) i = Some e ->
    (e = EvNormal <-> 2 ^ 16 <= num_left k - Z.of_nat i - 1) /\
    (e = EvSoft <-> 0 < num_left k - Z.of_nat i - 1 < 2 ^ 16) /\
    (e = EvHard <-> num_left k - Z.of_nat i - 1 <= 0).
Proof. exact kl_updates_events. Qed.
Print Assumptions budget_events.

Theorem expiry_permanent : forall n k, num_left k = 0 ->
  Forall (fun e => e = EvHard) (snd (kl_updates n k)) /\ num_left (fst (kl_updates n k)) = 0.
Proof. exact expired_forever. Qed.
Print Assumptions expiry_permanent.

(* non-vacuity: a budget next to the soft threshold goes normal, soft, soft *)
Example budget_events_example :
  snd (kl_updates 3 {| num_left := 2 ^ 16 + 1; kst := KNormal |}) = [EvNormal; EvSoft; EvSoft]
  /\ snd (kl_updates 3 {| num_left := 2; kst := KPastSoft |}) = [EvSoft; EvHard; EvHard].
Proof. vm_compute. split; reflexivity. Qed.

(* ---- at the session level (statements as printed by Coq's Check; proofs in LimitProofs.v) ---- *)
(* a packet call on an explicit stream charges exactly that stream's key i by one kl_update; nothing else in the
   session, heap or buffers changes; soft => the call goes on with the soft-limit event, hard => key_expired + hard-limit event *)
Theorem charge_explicit_stream :
  forall (x i : Z) (w : world) (st : stream) (k : klimit),
       list_get (ss_list (w_s w)) x = Some st ->
       s_clone st = false ->
       nth_error (s_limits st) (zn i) = Some k ->
       let st' := set_limits st (replace_nth (zn i) (s_limits st) (fst (kl_update k))) in
       let s' :=
         {|
           ss_template := ss_template (w_s w);
           ss_list := list_replace (ss_list (w_s w)) x st';
           ss_cap := ss_cap (w_s w)
         |} in
       let
       '(w', res) := charge_key (RList x) i w in
        w_s w' = s' /\
        w_h w' = w_h w /\
        w_b w' = w_b w /\
        match snd (kl_update k) with
        | EvNormal => res = inl tt /\ w_ev w' = w_ev w
        | EvSoft => res = inl tt /\ w_ev w' = w_ev w ++ [(event_key_soft_limit_c, x)]
        | EvHard => res = inr st_key_expired /\ w_ev w' = w_ev w ++ [(event_key_hard_limit_c, x)]
        end.
Proof. exact charge_key_explicit. Qed.
Print Assumptions charge_explicit_stream.

(* a stream cloned from the wildcard template charges the TEMPLATE's budget: all streams sharing the wildcard key
   see one remaining budget and expire together *)
Theorem charge_cloned_stream :
  forall (x i : Z) (w : world) (st t : stream) (k : klimit),
       list_get (ss_list (w_s w)) x = Some st ->
       s_clone st = true ->
       ss_template (w_s w) = Some t ->
       nth_error (s_limits t) (zn i) = Some k ->
       let t' := set_limits t (replace_nth (zn i) (s_limits t) (fst (kl_update k))) in
       let
       '(w', res) := charge_key (RList x) i w in
        ss_template (w_s w') = Some t' /\
        ss_list (w_s w') = ss_list (w_s w) /\
        w_h w' = w_h w /\
        match snd (kl_update k) with
        | EvNormal => res = inl tt
        | EvSoft => res = inl tt /\ w_ev w' = w_ev w ++ [(event_key_soft_limit_c, x)]
        | EvHard => res = inr st_key_expired /\ w_ev w' = w_ev w ++ [(event_key_hard_limit_c, x)]
        end.
Proof. exact charge_key_clone. Qed.
Print Assumptions charge_cloned_stream.

(* ---- AES-GCM (RFC 7714) key budget (Aead.v), OpenSSL configuration; statements printed by Coq's Check ---- *)
From Srtp Require Import Util Constants KeyLimit Rdb Rdbx Icm World Stream Rtp Rtcp Aead AeadRejectProofs AeadIvProofs.
(* AES-GCM: srtp_protect_aead charges the key budget exactly once, as its first effect; nothing after it touches any budget   [AeadIvProofs.v] *)
Theorem C09_protect_aead_charges_once :
  forall (i : Z) (w : world),
       let (w0, s0) := protect_aead_pre i w in
       match s0 with
       | inl c =>
           ext (lv (w_s w)) (lv (w_s w0)) /\
           w_b w0 = w_b w /\
           w_iv w0 = w_iv w /\
           p_b c = w_b w /\
           p_ref c = RList (hdr_ssrc (p_pkt c)) /\
           (let (w1, s1) := charge_key (p_ref c) (p_ki c) w0 in
            match s1 with
            | inl _ => lv (w_s (fst (protect_aead i w))) = lv (w_s w1)
            | inr s => protect_aead i w = (w1, inr s) /\ w_b w1 = w_b w /\ w_iv w1 = w_iv w
            end)
       | inr s => protect_aead i w = (w0, inr s) /\ ext (lv (w_s w)) (lv (w_s w0))
       end.
Proof. exact protect_aead_charges_once. Qed.
Print Assumptions C09_protect_aead_charges_once.

(* AES-GCM: srtp_unprotect_aead charges it once for a packet that has authenticated and not at all otherwise   [AeadIvProofs.v] *)
Theorem C09_unprotect_aead_charges_after_auth :
  forall w : world,
       let (w0, s0) := unprotect_aead_pre w in
       match s0 with
       | inl u =>
           w_s w0 = w_s w /\
           w_h w0 = w_h w /\
           w_ev w0 = w_ev w /\
           (exists (aad d : bytes) (room : Z),
              gcm_open (k_rtp_c (a_k u)) (ak_tag (k_rtp_a (a_k u)))
                (aead_rtp_iv (k_salt (a_k u)) (a_ssrc u) (a_est u)) aad d room = (
              st_ok, a_o u)) /\
           (let (w1, s1) := charge_key (a_ref u) (a_ki u) w0 in
            match s1 with
            | inl _ => ext (lv (w_s w1)) (lv (w_s (fst (unprotect_aead w))))
            | inr s => unprotect_aead w = (w1, inr s)
            end)
       | inr s => unprotect_aead w = (w0, inr s) /\ w_s w0 = w_s w /\ w_h w0 = w_h w /\ w_ev w0 = w_ev w
       end.
Proof. exact unprotect_aead_charges_after_auth. Qed.
Print Assumptions C09_unprotect_aead_charges_after_auth.

(* evaluated: a forged packet is not charged   [AeadIvProofs.v] *)
Theorem C09_unprotect_aead_forged_not_charged :
  let w := BoundsRtp.Witness.mkw W.sess0 (W.inpl (take 44 W.wire ++ [6%N])) in
       snd (unprotect_aead w) = inr st_auth_fail /\ w_s (fst (unprotect_aead w)) = w_s w.
Proof. exact unprotect_aead_forged_not_charged. Qed.
Print Assumptions C09_unprotect_aead_forged_not_charged.

