(* Properties_C09.v — key lifetime (C09).  Statements only; proofs are in KeyLimitProofs.v. *)
From Coq Require Import ZArith List Bool.
From Srtp Require Import Util Constants KeyLimit KeyLimitProofs.
Import ListNotations.
Local Open Scope Z_scope.

(* the threshold the property names *)
Theorem soft_limit_is_2_16 : soft_limit_c = 2 ^ 16 /\ key_limit_init_c = 2 ^ 48 - 1.
Proof. exact (conj soft_limit_value key_limit_init_value). Qed.
Print Assumptions soft_limit_is_2_16.

(* each update consumes exactly one unit while budget remains, and the event is
   determined by the new budget: normal iff >= 2^16, soft iff in (0, 2^16), hard iff 0 *)
Theorem one_unit_per_update : forall k,
  0 < num_left k < 2 ^ 64 ->
  let '(k', e) := kl_update k in
  num_left k' = num_left k - 1 /\
  (e = EvNormal <-> 2 ^ 16 <= num_left k') /\
  (e = EvHard <-> num_left k' = 0) /\
  (e = EvSoft <-> 0 < num_left k' < 2 ^ 16) /\
  (e = EvHard -> kst k' = KExpired).
Proof. exact kl_update_pos. Qed.
Print Assumptions one_unit_per_update.

(* every history of updates from every budget: the i-th call (0-based) reports
   normal iff more than 2^16 units remain after it, soft iff between 1 and 2^16-1,
   and hard from the call that exhausts the budget onwards, for ever *)
Theorem budget_events : forall n k, kl_ok k ->
  forall i e, nth_error (snd (kl_updates n k)) i = Some e ->
    (e = EvNormal <-> 2 ^ 16 <= num_left k - Z.of_nat i - 1) /\
    (e = EvSoft <-> 0 < num_left k - Z.of_nat i - 1 < 2 ^ 16) /\
    (e = EvHard <-> num_left k - Z.of_nat i - 1 <= 0).
Proof. exact kl_updates_events. Qed.
Print Assumptions budget_events.

Theorem expiry_permanent : forall n k, num_left k = 0 ->
  Forall (fun e => e = EvHard) (snd (kl_updates n k)) /\ num_left (fst (kl_updates n k)) = 0.
Proof. exact expired_forever. Qed.
Print Assumptions expiry_permanent.

(* non-vacuity: a budget next to the soft threshold goes normal, soft, soft *)
Example budget_events_example :
  snd (kl_updates 3 {| num_left := 2 ^ 16 + 1; kst := KNormal |}) = [EvNormal; EvSoft; EvSoft]
  /\ snd (kl_updates 3 {| num_left := 2; kst := KPastSoft |}) = [EvSoft; EvHard; EvHard].
Proof. vm_compute. split; reflexivity. Qed.
