(* Rtcp.v — model of srtp_protect_rtcp / srtp_unprotect_rtcp (srtp/srtp.c), non-AEAD paths. *)
From Coq Require Import NArith ZArith List Bool.
From Srtp Require Import Util Constants KeyLimit Rdb Rdbx Icm World Stream Rtp.
Import ListNotations.
Local Open Scope Z_scope.

Definition rtcp_iv (alg ssrc seq : Z) : bytes :=
  if is_icm_alg alg then
    zeros 4 ++ be_bytes 4 (Z.to_N ssrc) ++ be_bytes 4 (Z.to_N (u32 (seq / 65536))) ++ be_bytes 4 (Z.to_N (u32 (seq * 65536)))
  else zeros 12 ++ be_bytes 4 (Z.to_N seq).

Definition trailer_len : Z := sizeof_srtcp_trailer_c.

Definition protect_rtcp (mki_index : Z) : M Z :=
  b <- get_b ;;
  let len := b_len b in
  let pkt := take (zn len) (cur_src b) in
  (if len <? octets_in_rtcp_header_c then exit_with st_bad_param else ret tt) ;;;
  let ssrc := be32 pkt 4 in
  r <- lookup_or_clone ssrc false ;;
  check_direction r dir_srtp_sender_c ;;;
  st <- get_stream r ;;
  ik <- keys_by_index st mki_index ;;
  let '(ki, k) := ik in
  let tag_len := ak_tag (k_rtcp_a k) in
  let enc_start := octets_in_rtcp_header_c in
  let enc_len := len - enc_start in
  (if b_cap b <? len + trailer_len + s_mki_size st + tag_len then exit_with st_buffer_small else ret tt) ;;;
  (if b_alias b then ret tt else (h <- rd_src 0 enc_start ;; wr_dst 0 h)) ;;;
  let conf := negb (Z.land (s_rtcp_serv st) sec_serv_conf_c =? 0) in
  (if s_use_mki st then wr_dst (len + trailer_len) (k_mki k) else ret tt) ;;;
  let tag_off := len + trailer_len + s_mki_size st in
  let '(is, rb) := rdb_incr (s_rdb st) in
  check_st is ;;;
  put_stream r (set_rdb st rb) ;;;
  let seq := wstart rb in
  wr_dst len (be_bytes 4 (Z.to_N ((if conf then SRTCP_E_BIT_c else 0) + seq))) ;;;
  let iv := rtcp_iv (ck_alg (k_rtcp_c k)) ssrc seq in
  log_encrypt_iv (k_rtcp_c k) (key_fp (k_rtcp_c k) ++ iv) ;;;
  let cs0 := cipher_start (k_rtcp_c k) iv in
  (* keystream prefix into the tag (always called; length may be 0) *)
  let '(ps, cs1, ks) := cipher_output cs0 (ak_prefix (k_rtcp_a k)) in
  (if negb (ps =? st_ok) then exit_with st_cipher_fail else wr_dst tag_off ks) ;;;
  (if conf then
     d <- rd_src enc_start enc_len ;;
     let '(s, _, o) := cipher_encrypt cs1 d in
     if negb (s =? st_ok) then exit_with st_cipher_fail else wr_dst enc_start o
   else if b_alias b then ret tt
   else (d <- rd_src enc_start enc_len ;; wr_dst enc_start d)) ;;;
  m <- rd_dst 0 (len + trailer_len) ;;
  wr_dst tag_off (auth_compute (k_rtcp_a k) m) ;;;
  ret (u64 (enc_start + enc_len + tag_len + trailer_len + s_mki_size st)).

Record cpre := {
  c_ref : sref; c_ssrc : Z; c_seq : Z; c_cs : cstate; c_conf : bool;
  c_enc_len : Z; c_tag_len : Z; c_mki : Z
}.

(* everything up to and including the authentication check: reads the session, writes nothing *)
Definition unprotect_rtcp_pre : M cpre :=
  b <- get_b ;;
  let len := b_len b in
  let pkt := take (zn len) (cur_src b) in
  (if len <? octets_in_rtcp_header_c + trailer_len then exit_with st_bad_param else ret tt) ;;;
  let ssrc := be32 pkt 4 in
  ss <- get_s ;;
  r0 <- (match list_get (ss_list ss) ssrc with
         | Some _ => ret (RList ssrc)
         | None => match ss_template ss with Some _ => ret RTemplate | None => exit_with st_no_ctx end
         end) ;;
  st <- get_stream r0 ;;
  let tag_len0 := match s_keys st with k0 :: _ => ak_tag (k_rtcp_a k0) | [] => 0 end in
  ik <- keys_by_packet st len tag_len0 ;;
  let '(ki, k) := ik in
  let tag_len := ak_tag (k_rtcp_a k) in
  (if len <? octets_in_rtcp_header_c + trailer_len + s_mki_size st + tag_len then exit_with st_bad_param else ret tt) ;;;
  let conf := (s_rtcp_serv st =? 1) || (s_rtcp_serv st =? 3) in
  let enc_len := len - (octets_in_rtcp_header_c + tag_len + s_mki_size st + trailer_len) in
  let tr_off := len - (tag_len + s_mki_size st + trailer_len) in
  tr <- rd_src tr_off 4 ;;
  let e_bit := negb (N.land (nthb tr 0) (Z.to_N SRTCP_E_BYTE_BIT_c) =? 0)%N in
  (if Bool.eqb e_bit conf then ret tt else exit_with st_cant_check) ;;;
  let auth_len := len - tag_len - s_mki_size st in
  let seq := Z.land (be32 tr 0) SRTCP_INDEX_MASK_c in
  check_st (rdb_check (s_rdb st) seq) ;;;
  let iv := rtcp_iv (ck_alg (k_rtcp_c k)) ssrc seq in
  let cs0 := cipher_start (k_rtcp_c k) iv in
  pre <- (if negb (ak_prefix (k_rtcp_a k) =? 0) then
            let '(s, cs', ks) := cipher_output cs0 (ak_prefix (k_rtcp_a k)) in
            if negb (s =? st_ok) then exit_with st_cipher_fail
            else if SRTP_MAX_TAG_LEN_c <? ak_prefix (k_rtcp_a k) then exit_with st_model_oob
            else ret (cs', ks)
          else ret (cs0, [])) ;;
  m <- rd_src 0 auth_len ;;
  let computed := auth_compute (k_rtcp_a k) m in
  (if SRTP_MAX_TAG_LEN_c <? lenZ computed then exit_with st_model_oob else ret tt) ;;;
  let tmp_tag := computed ++ drop (length computed) (snd pre) in
  t <- rd_src (auth_len + s_mki_size st) tag_len ;;
  (if beqb (take (zn tag_len) (tmp_tag ++ zeros (zn tag_len))) t then ret tt else exit_with st_auth_fail) ;;;
  (if b_cap b <? u64 (len - trailer_len - s_mki_size st - tag_len) then exit_with st_buffer_small else ret tt) ;;;
  ret {| c_ref := r0; c_ssrc := ssrc; c_seq := seq; c_cs := fst pre; c_conf := conf;
         c_enc_len := enc_len; c_tag_len := tag_len; c_mki := s_mki_size st |}.

Definition unprotect_rtcp_post (u : cpre) : M Z :=
  b <- get_b ;;
  let len := b_len b in
  let enc_start := octets_in_rtcp_header_c in
  (if b_alias b then ret tt else (h <- rd_src 0 enc_start ;; wr_dst 0 h)) ;;;
  (if c_conf u then
     d <- rd_src enc_start (c_enc_len u) ;;
     let '(s, _, o) := cipher_encrypt (c_cs u) d in
     if negb (s =? st_ok) then exit_with st_cipher_fail else wr_dst enc_start o
   else if b_alias b then ret tt
   else (d <- rd_src enc_start (c_enc_len u) ;; wr_dst enc_start d)) ;;;
  check_direction (c_ref u) dir_srtp_receiver_c ;;;
  r <- materialize (c_ref u) (c_ssrc u) ;;
  st2 <- get_stream r ;;
  put_stream r (set_rdb st2 (snd (rdb_add (s_rdb st2) (c_seq u)))) ;;;
  ret (u64 (len - (c_tag_len u + trailer_len) - c_mki u)).

Definition unprotect_rtcp : M Z := u <- unprotect_rtcp_pre ;; unprotect_rtcp_post u.
