(* Util.v — byte strings, fixed-width wrap helpers.  Models only, no proofs. *)
From Coq Require Import NArith ZArith List Bool.
From Srtp.Crypto Require Export CTR.
Import ListNotations.
Local Open Scope Z_scope.

Definition bytes := list N.

(* C unsigned wrap-around, written into the models wherever the C type wraps *)
Definition u16 (x : Z) : Z := x mod 65536.
Definition u32 (x : Z) : Z := x mod 4294967296.
Definition u64 (x : Z) : Z := x mod 18446744073709551616.
(* two's-complement reinterpretation of a 64-bit pattern (ssize_t on LP64) *)
Definition s64 (x : Z) : Z :=
  let y := u64 x in if y <? 9223372036854775808 then y else y - 18446744073709551616.
(* (int) cast of a value already reduced mod 2^32 *)
Definition s32 (x : Z) : Z :=
  let y := u32 x in if y <? 2147483648 then y else y - 4294967296.

(* ---- lists ---- *)
Fixpoint take {A} (n : nat) (l : list A) : list A :=
  match n, l with
  | O, _ => []
  | S n', [] => []
  | S n', x :: xs => x :: take n' xs
  end.
Fixpoint drop {A} (n : nat) (l : list A) : list A :=
  match n, l with
  | O, _ => l
  | S n', [] => []
  | S n', _ :: xs => drop n' xs
  end.
Definition slice {A} (off n : nat) (l : list A) : list A := take n (drop off l).
(* overwrite l[off .. off+|v|) with v; l keeps its length, v is cut at the end of l *)
Fixpoint splice {A} (off : nat) (v l : list A) : list A :=
  match off, l with
  | _, [] => []
  | O, x :: xs => match v with [] => l | y :: ys => y :: splice O ys xs end
  | S o, x :: xs => x :: splice o v xs
  end.
Definition zeros (n : nat) : bytes := repeat 0%N n.

(* ---- byte-level encodings (be_bytes, xor_bytes come from Crypto.CTR) ---- *)
Fixpoint be_val (l : bytes) : N :=
  match l with [] => 0%N | b :: r => (b * 256 ^ N.of_nat (length r) + be_val r)%N end.
Definition be16 (l : bytes) (off : nat) : Z := Z.of_N (be_val (slice off 2 l)).
Definition be32 (l : bytes) (off : nat) : Z := Z.of_N (be_val (slice off 4 l)).
Definition nthb (l : bytes) (i : nat) : N := nth i l 0%N.

Fixpoint beqb (a b : bytes) : bool :=
  match a, b with
  | [], [] => true
  | x :: xs, y :: ys => N.eqb x y && beqb xs ys
  | _, _ => false
  end.

Definition zn (z : Z) : nat := Z.to_nat z.
Definition lenZ {A} (l : list A) : Z := Z.of_nat (length l).
