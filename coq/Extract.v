(* Extract.v — OCaml extraction of the executable model.  ExtrOcamlBasic only:
   bool, option, unit, list, prod, sumbool are mapped to OCaml's; numbers stay
   the Coq inductives; no Extract Constant. *)
From Coq Require Import Extraction ExtrOcamlBasic.
From Srtp Require Import Driver.
Extraction Language OCaml.
Extraction "model.ml" run_op ms_init.
