(* WipeProofs.v — C20: in the event trace of srtp_stream_dealloc / srtp_dealloc every block that
   holds key material is wiped in full before it is handed back to the allocator, and the salts
   inside the session-keys array are wiped before that array is freed. *)
From Coq Require Import NArith ZArith List Bool Lia.
From Srtp Require Import Util Constants KeyLimit Rdb Rdbx Icm World Stream WipeModel.
Import ListNotations.
Local Open Scope Z_scope.

Definition bid_eqb (a b : bid) : bool :=
  (b_stream a =? b_stream b) && (b_key a =? b_key b) && (b_role a =? b_role b).

(* a trace is clean when every free of a whole-block secret (ICM context, HMAC block, MKI copy) is
   immediately preceded by a wipe of that same block from offset 0 over its full size *)
Fixpoint clean (prev : option hev) (l : list hev) : bool :=
  match l with
  | [] => true
  | e :: t =>
    (match e with
     | HF k id size =>
       match k with
       | KIcmCtx | KAuthHmac | KMki =>
         match prev with
         | Some (HW k' id' size' off len) => bid_eqb id id' && (size =? size') && (off =? 0) && (len =? size)
         | _ => false
         end
       | _ => true
       end
     | HW _ _ _ _ _ => true
     end) && clean (Some e) t
  end.

Lemma clean_app l1 l2 p :
  clean p (l1 ++ l2) = clean p l1 && clean (match rev l1 with e :: _ => Some e | [] => p end) l2.
Proof.
  revert p. induction l1 as [|e t IH]; intros p; cbn [app clean rev].
  - reflexivity.
  - rewrite IH. rewrite <- andb_assoc. f_equal. f_equal.
    destruct (rev t) as [|x r] eqn:E; cbn.
    + reflexivity.
    + reflexivity.
Qed.

(* a list whose own frees are each preceded (inside the list) by their wipe is clean whatever came before *)
Definition self_clean (l : list hev) : Prop := forall p, clean p l = true.

Lemma self_clean_nil : self_clean []. Proof. intros p; reflexivity. Qed.
Lemma self_clean_app l1 l2 : self_clean l1 -> self_clean l2 -> self_clean (l1 ++ l2).
Proof. intros H1 H2 p. rewrite clean_app, H1, H2. reflexivity. Qed.

Lemma bid_eqb_refl a : bid_eqb a a = true.
Proof. unfold bid_eqb. rewrite !Z.eqb_refl. reflexivity. Qed.

Lemma cipher_events_clean sn ki role c : self_clean (cipher_events sn ki role c).
Proof.
  intros p. unfold cipher_events. destruct (ck_alg c =? SRTP_NULL_CIPHER_c); cbn [clean].
  - reflexivity.
  - rewrite bid_eqb_refl, !Z.eqb_refl. reflexivity.
Qed.

Lemma auth_events_clean sn ki role a : self_clean (auth_events sn ki role a).
Proof.
  intros p. unfold auth_events. destruct (ak_kind a =? SRTP_HMAC_SHA1_c); cbn [clean].
  - rewrite bid_eqb_refl, !Z.eqb_refl. reflexivity.
  - reflexivity.
Qed.

Lemma key_events_clean sn clone nk ki k : self_clean (key_events sn clone nk ki k).
Proof.
  unfold key_events.
  repeat apply self_clean_app;
    try (destruct clone; [apply self_clean_nil|]);
    try apply cipher_events_clean; try apply auth_events_clean.
  - destruct (k_xtn_c k); [apply cipher_events_clean|apply self_clean_nil].
  - intros p. reflexivity.
  - destruct (k_mki k) as [|m0 m]; [apply self_clean_nil|].
    intros p. cbn [clean]. rewrite bid_eqb_refl, !Z.eqb_refl. reflexivity.
  - intros p. reflexivity.
Qed.

Lemma keys_events_clean sn clone nk : forall ks ki, self_clean (keys_events sn clone nk ki ks).
Proof.
  induction ks as [|k t IH]; intros ki; cbn [keys_events]; [apply self_clean_nil|].
  apply self_clean_app; [apply key_events_clean|apply IH].
Qed.

Theorem stream_dealloc_clean sn s : self_clean (stream_dealloc_events sn s).
Proof.
  unfold stream_dealloc_events.
  repeat apply self_clean_app.
  - apply keys_events_clean.
  - intros p. reflexivity.
  - destruct (s_clone s); [apply self_clean_nil|]. destruct (s_enc_xtn s); [apply self_clean_nil|]. intros p; reflexivity.
  - intros p. reflexivity.
Qed.

Lemma streams_events_clean : forall l sn, self_clean (streams_events sn l).
Proof.
  induction l as [|s t IH]; intros sn; cbn [streams_events]; [apply self_clean_nil|].
  apply self_clean_app; [apply stream_dealloc_clean|apply IH].
Qed.

Theorem session_dealloc_clean s : clean None (session_dealloc_events s) = true.
Proof.
  unfold session_dealloc_events.
  apply (self_clean_app _ _ (streams_events_clean _ _)).
  apply self_clean_app.
  - destruct (ss_template s); [apply stream_dealloc_clean|apply self_clean_nil].
  - intros p. reflexivity.
Qed.

(* the salts: for every key of a stream both 12-octet salt fields of its element of the session-keys
   array are wiped before that array is freed *)
Lemma key_events_salts sn clone nk ki k :
  In (HW KKeys {| b_stream := sn; b_key := 0; b_role := 50 |} (sz_session_keys_c * nk)
        (ki * sz_session_keys_c + off_salt_c) SRTP_AEAD_SALT_LEN_c) (key_events sn clone nk ki k) /\
  In (HW KKeys {| b_stream := sn; b_key := 0; b_role := 50 |} (sz_session_keys_c * nk)
        (ki * sz_session_keys_c + off_csalt_c) SRTP_AEAD_SALT_LEN_c) (key_events sn clone nk ki k).
Proof.
  unfold key_events. split; do 5 (apply in_or_app; right); apply in_or_app; left; cbn; auto.
Qed.

Lemma keys_events_salts sn clone nk : forall ks ki j k,
  nth_error ks j = Some k ->
  In (HW KKeys {| b_stream := sn; b_key := 0; b_role := 50 |} (sz_session_keys_c * nk)
        ((ki + Z.of_nat j) * sz_session_keys_c + off_salt_c) SRTP_AEAD_SALT_LEN_c) (keys_events sn clone nk ki ks) /\
  In (HW KKeys {| b_stream := sn; b_key := 0; b_role := 50 |} (sz_session_keys_c * nk)
        ((ki + Z.of_nat j) * sz_session_keys_c + off_csalt_c) SRTP_AEAD_SALT_LEN_c) (keys_events sn clone nk ki ks).
Proof.
  induction ks as [|k0 t IH]; intros ki j k H; [destruct j; discriminate|].
  cbn [keys_events]. destruct j as [|j]; cbn [nth_error] in H.
  - injection H as <-. replace (ki + Z.of_nat 0) with ki by lia.
    destruct (key_events_salts sn clone nk ki k0) as [A B]. split; apply in_or_app; left; assumption.
  - destruct (IH (ki + 1) j k H) as [A B].
    replace (ki + Z.of_nat (S j)) with (ki + 1 + Z.of_nat j) by lia.
    split; apply in_or_app; right; assumption.
Qed.

(* position of the array's free: after all key events *)
Theorem salts_wiped_before_array_freed sn s j k :
  nth_error (s_keys s) j = Some k ->
  exists pre post,
    stream_dealloc_events sn s =
      pre ++ HF KKeys {| b_stream := sn; b_key := 0; b_role := 50 |} (sz_session_keys_c * lenZ (s_keys s)) :: post /\
    In (HW KKeys {| b_stream := sn; b_key := 0; b_role := 50 |} (sz_session_keys_c * lenZ (s_keys s))
          (Z.of_nat j * sz_session_keys_c + off_salt_c) SRTP_AEAD_SALT_LEN_c) pre /\
    In (HW KKeys {| b_stream := sn; b_key := 0; b_role := 50 |} (sz_session_keys_c * lenZ (s_keys s))
          (Z.of_nat j * sz_session_keys_c + off_csalt_c) SRTP_AEAD_SALT_LEN_c) pre.
Proof.
  intros H. unfold stream_dealloc_events.
  exists (keys_events sn (s_clone s) (lenZ (s_keys s)) 0 (s_keys s)).
  eexists. split; [cbn [app]; reflexivity|].
  destruct (keys_events_salts sn (s_clone s) (lenZ (s_keys s)) (s_keys s) 0 j k H) as [A B].
  cbn [Z.add] in A, B. split; assumption.
Qed.
