(* IntegrityProofs.v — C04 (integrity): what an accepted packet looks like.

   srtp_unprotect / srtp_unprotect_rtcp are modelled as  pre ;; post  where `unprotect_pre` /
   `unprotect_rtcp_pre` (Rtp.v, Rtcp.v) contain everything up to and including the tag check.
   This file proves that, whenever the pre phase returns normally,

     * the tag octets of the packet are HMAC-SHA1 (truncated to the tag length) over all
       octets in front of the MKI (followed by the ROC of the estimated index for SRTP);
     * SRTCP: the E bit of the trailer agrees with the stream's confidentiality setting and
       the index used for replay check / IV is the 31-bit index of the trailer (both trailer
       octets are inside the authenticated portion);
     * with MKI: the MKI octets of the packet are the MKI id of the key that was used, which
       is the first key of the stream carrying that id;
     * under a symbolic "collision-free MAC" idealisation: the authenticated portion and the
       ROC are those of the sender-produced packet carrying the same tag.

   Everything is a statement about the Gallina models; no axioms. *)
From Coq Require Import NArith ZArith List Bool Lia.
From Srtp Require Import Util Constants KeyLimit Rdb Rdbx Icm World Stream Rtp Rtcp
  MonadLemmas RejectProofs EnvelopeProofs WfProofs BoundsRtcp BoundsRtp LengthProofs.
From Srtp.Crypto Require Import AES HMAC.
Import ListNotations.
Local Open Scope Z_scope.

Opaque aes_encrypt_rk hmac_sha1.

(* ===================================================================== *)
(* 1. lists, beqb                                                         *)
(* ===================================================================== *)
Theorem beqb_true_iff (a b : bytes) : beqb a b = true <-> a = b.
Proof.
  revert b. induction a as [|x r IH]; intros b; destruct b as [|y s]; cbn [beqb].
  - split; reflexivity.
  - split; discriminate.
  - split; discriminate.
  - rewrite andb_true_iff, N.eqb_eq, IH. split.
    + intros [E1 E2]. subst. reflexivity.
    + intros E. injection E as E1 E2. auto.
Qed.
Print Assumptions beqb_true_iff.

Lemma take_app_exact {A} (a b : list A) n : length a = n -> take n (a ++ b) = a.
Proof.
  revert n. induction a as [|x a IH]; intros n H; cbn in H; subst n; cbn.
  - reflexivity.
  - rewrite IH by reflexivity. reflexivity.
Qed.

Lemma slice_0 {A} n (l : list A) : slice 0 n l = take n l.
Proof. reflexivity. Qed.

(* `++` with suffixes of equal length is injective *)
Lemma app_inj_tail_len {A} (a c b d : list A) :
  length b = length d -> a ++ b = c ++ d -> a = c /\ b = d.
Proof.
  revert c. induction a as [|x a IH]; intros c HL H.
  - destruct c as [|y c]; [auto|]. exfalso. cbn in H. rewrite H in HL. cbn in HL.
    rewrite app_length in HL. lia.
  - destruct c as [|y c].
    + exfalso. cbn in H. rewrite <- H in HL. cbn in HL. rewrite app_length in HL. lia.
    + cbn in H. injection H as E1 E2. destruct (IH c HL E2) as [-> ->]. subst. auto.
Qed.

Lemma nthb_slice0 o n l : nthb (slice o (S n) l) 0 = nthb l o.
Proof.
  unfold nthb, slice. revert l. induction o as [|o IH]; intros [|x l]; cbn; try reflexivity.
  apply IH.
Qed.
Lemma be32_slice4_0 l o : be32 (slice o 4 l) 0 = be32 l o.
Proof. unfold be32. rewrite slice_slice by lia. rewrite Nat.add_0_r. reflexivity. Qed.

Lemma u64_id x : 0 <= x < 18446744073709551616 -> u64 x = x.
Proof. intros H. unfold u64. apply Z.mod_small. exact H. Qed.

(* ===================================================================== *)
(* 2. what a read of the source yields, as a function of (len, source)    *)
(* ===================================================================== *)
(* the value rd_src returns: it depends on b_len and the source block only (not on b_oob) *)
Definition rdval (L : Z) (src : bytes) (off n : Z) : bytes :=
  if (off <? 0) || (n <? 0) || (L <? off + n) then zeros (zn n) else slice (zn off) (zn n) src.

Lemma rdval_in L src off n :
  0 <= off -> 0 <= n -> off + n <= L -> rdval L src off n = slice (zn off) (zn n) src.
Proof.
  intros H1 H2 H3. unfold rdval.
  assert (Hc : (off <? 0) || (n <? 0) || (L <? off + n) = false).
  { rewrite !orb_false_iff, !Z.ltb_ge. lia. }
  rewrite Hc. reflexivity.
Qed.

(* the tag comparison of srtp_unprotect / srtp_unprotect_rtcp: tmp_tag holds the keystream prefix
   `ks`, overwritten from the front by what the auth function writes; tag_len octets are compared *)
Definition tag_chk (a : akey) (msg t : bytes) : Prop :=
  exists ks,
    beqb (take (zn (ak_tag a))
               ((auth_compute a msg ++ drop (length (auth_compute a msg)) ks) ++ zeros (zn (ak_tag a)))) t = true.

Lemma tag_chk_hmac a msg t :
  ak_kind a = SRTP_HMAC_SHA1_c -> 0 <= ak_tag a <= 20 -> tag_chk a msg t ->
  t = take (zn (ak_tag a)) (hmac_sha1 (ak_key a) msg).
Proof.
  intros K T [ks H]. apply beqb_true_iff in H. rewrite <- H.
  pose proof (auth_compute_length_hmac a msg K T) as HL.
  rewrite <- app_assoc. rewrite take_app_exact.
  - unfold auth_compute. rewrite K, Z.eqb_refl. reflexivity.
  - unfold lenZ, zn in *. lia.
Qed.

(* which key: srtp_get_session_keys_for_packet as a relation *)
Definition key_sel (tag0 : Z) (st : stream) (L : Z) (src : bytes) (ki : Z) (k : skeys) : Prop :=
  if s_use_mki st then
    tag0 <= L /\ s_mki_size st <= L - tag0 /\
    find_mki (s_keys st) (rdval L src (L - tag0 - s_mki_size st) (s_mki_size st)) 0 = Some (ki, k)
  else ki = 0 /\ hd_error (s_keys st) = Some k.

Lemma find_mki_spec ks m : forall i j k, find_mki ks m i = Some (j, k) ->
  i <= j /\ nth_error ks (zn (j - i)) = Some k /\ k_mki k = m /\
  (forall n k', (n < zn (j - i))%nat -> nth_error ks n = Some k' -> k_mki k' <> m).
Proof.
  induction ks as [|k0 t IH]; intros i j k H; cbn [find_mki] in H; [discriminate|].
  destruct (beqb (k_mki k0) m) eqn:E.
  - injection H as <- <-. rewrite Z.sub_diag. cbn. split; [lia|]. split; [reflexivity|].
    split; [apply beqb_true_iff; exact E|]. intros n k' Hn. lia.
  - destruct (IH _ _ _ H) as (A & B & Cc & D). split; [lia|].
    replace (zn (j - i)) with (S (zn (j - (i + 1)))) by (unfold zn; lia). cbn [nth_error].
    split; [exact B|]. split; [exact Cc|]. intros n k' Hn Hk'. destruct n as [|n]; cbn in Hk'.
    + injection Hk' as <-. intros X. apply beqb_true_iff in X. congruence.
    + apply (D n k'); [lia|exact Hk'].
Qed.

Lemma key_sel_In tag0 st L src ki k : key_sel tag0 st L src ki k -> In k (s_keys st).
Proof.
  unfold key_sel. destruct (s_use_mki st).
  - intros (_ & _ & F). exact (find_mki_In _ _ _ _ F).
  - intros [_ H]. destruct (s_keys st) as [|k0 t]; cbn in H; [discriminate|]. injection H as <-. left. reflexivity.
Qed.

Lemma lookup_wf s r st : session_wf s -> lookup s r = Some st -> stream_wf st.
Proof.
  intros [HT HL] H. destruct r; cbn [lookup] in H.
  - exact (HT _ H).
  - exact (list_get_SP _ _ _ _ HL H).
Qed.

(* ===================================================================== *)
(* 3. frame: everything the two pre phases do keeps the session, b_len, b_cap, b_alias and  *)
(*    the source block                                                                      *)
(* ===================================================================== *)
Lemma h_wpP {A} (P : world -> Prop) (m : M A) : wpres m -> hoare P m (fun _ => P) TT.
Proof.
  intros H w Hw. specialize (H w). destruct (m w) as [w1 [a|st]]; cbn [fst] in H; [subst w1; exact Hw|exact I].
Qed.

Section PRE.
Variable w0 : world.
Local Notation L := (b_len (w_b w0)).
Local Notation C := (b_cap (w_b w0)).
Local Notation al := (b_alias (w_b w0)).
Local Notation src := (cur_src (w_b w0)).

Definition Bv (w : world) : Prop :=
  w_s w = w_s w0 /\ b_len (w_b w) = L /\ b_cap (w_b w) = C /\ b_alias (w_b w) = al /\ cur_src (w_b w) = src.

Lemma Bv_refl : Bv w0.
Proof. unfold Bv. auto. Qed.

Lemma h_rd_bv off n : hoare Bv (rd_src off n) (fun d w => d = rdval L src off n /\ Bv w) TT.
Proof.
  intros w (S & Ln & Cp & Al & Sr). unfold rd_src, bind, get_b, rdval. rewrite Ln.
  destruct ((off <? 0) || (n <? 0) || (L <? off + n)); cbn.
  - split; [reflexivity|]. unfold Bv, cur_src in *. cbn. auto.
  - split; [rewrite Sr; reflexivity|]. unfold Bv. auto.
Qed.

Lemma h_wr_bv off v : al = false -> hoare Bv (wr_dst off v) (fun _ => Bv) TT.
Proof.
  intros A w (S & Ln & Cp & Al & Sr). unfold wr_dst, bind, get_b, put_b. cbn.
  unfold Bv, cur_src in *. cbn. rewrite Al in *. rewrite A in *. auto.
Qed.

Lemma h_get_stream_bv r :
  hoare Bv (get_stream r) (fun st w => lookup (w_s w0) r = Some st /\ Bv w) TT.
Proof.
  intros w Hw. pose proof Hw as (S & _). cbv beta iota delta [bind get_stream get_s]. rewrite S.
  destruct r; cbn [lookup].
  - destruct (ss_template (w_s w0)); cbn; [auto|exact I].
  - destruct (list_get (ss_list (w_s w0)) ssrc); cbn; [auto|exact I].
Qed.

Lemma h_keys_by_packet_bv st tl :
  hoare Bv (keys_by_packet st L tl) (fun ik w => key_sel tl st L src (fst ik) (snd ik) /\ Bv w) TT.
Proof.
  unfold keys_by_packet, key_sel. destruct (s_use_mki st); cbn [negb].
  - destruct (L <? tl) eqn:E1; [apply h_exit; apply tt_any|].
    destruct (L - tl <? s_mki_size st) eqn:E2; [apply h_exit; apply tt_any|].
    apply Z.ltb_ge in E1, E2.
    eapply h_bind; [apply h_rd_bv|intros m]. apply h_pure; intros ->.
    destruct (find_mki (s_keys st) _ 0) as [r|] eqn:F; [|apply h_exit; apply tt_any].
    apply h_ret. intros w Hw. split; [|exact Hw]. destruct r as [ki k]. cbn [fst snd]. auto.
  - destruct (s_keys st) as [|k t]; [apply h_exit; apply tt_any|].
    apply h_ret. intros w Hw. split; [|exact Hw]. cbn. auto.
Qed.

(* ---- SRTP ---- *)
Definition rtp_pre_post (u : upre) : Prop :=
  exists st, lookup (w_s w0) (u_ref u) = Some st /\
    key_sel (rtp_tag0 st) st L src (u_ki u) (u_k u) /\
    u64 (L - s_mki_size st - ak_tag (k_rtp_a (u_k u))) <= C /\
    (Z.land (s_rtp_serv st) sec_serv_auth_c <> 0 ->
       tag_chk (k_rtp_a (u_k u))
         (rdval L src 0 (u64 (L - ak_tag (k_rtp_a (u_k u)) - s_mki_size st)) ++ take 4 (be64 (u_est u * 65536)))
         (rdval L src (L - ak_tag (k_rtp_a (u_k u))) (ak_tag (k_rtp_a (u_k u))))).

Lemma unprotect_pre_facts : hoare (eq w0) unprotect_pre (fun u _ => rtp_pre_post u) TT.
Proof.
  unfold unprotect_pre.
  eapply h_bind; [apply h_get_b_eq|intros b]. apply h_pure; intros ->.
  cbv beta zeta.
  apply h_pre with (P' := Bv); [intros w <-; apply Bv_refl|].
  apply h_bind with (R := fun _ => Bv); [apply h_wpP; apply wp_check_st|intros _].
  apply h_bind with (R := fun ss w => ss = w_s w0 /\ Bv w).
  { intros w Hw. cbn. split; [exact (proj1 Hw)|exact Hw]. }
  intros ss. apply h_pure; intros ->.
  apply h_bind with (R := fun _ => Bv).
  { apply h_wpP. destruct (list_get (ss_list (w_s w0)) _); [apply wp_ret|].
    destruct (ss_template (w_s w0)); [apply wp_ret|apply wp_exit]. }
  intros r0.
  eapply h_bind; [apply h_get_stream_bv|intros st]. apply h_pure; intros Hst.
  apply h_bind with (R := fun _ => Bv).
  { apply h_wpP. destruct r0; [apply wp_ret|].
    destruct (est_index st _) as [[es e] d].
    apply wp_bind; [apply wp_if; [apply wp_exit|apply wp_ret]|intros ?].
    apply wp_if; [apply wp_ret|]. apply wp_bind; [apply wp_check_st|intros ?]. apply wp_ret. }
  intros [[est delta] adv].
  fold (rtp_tag0 st).
  eapply h_bind; [apply h_keys_by_packet_bv|intros [ki k]].
  apply h_pure; cbn [fst snd]; intros Hk.
  cbv beta iota.
  apply h_bind with (R := fun _ => Bv).
  { match goal with |- context [if ?c then _ else ret false] => destruct c end; [|apply h_ret; auto].
    eapply h_bind; [apply h_rd_bv|intros h]. apply h_ret. intros w [_ H]. exact H. }
  intros inuse.
  apply h_bind with (R := fun _ => Bv).
  { destruct inuse; [|apply h_ret; auto].
    eapply h_bind; [apply h_rd_bv|intros h]. apply h_ret. intros w [_ H]. exact H. }
  intros xl.
  apply h_bind with (R := fun _ => Bv).
  { apply h_if; [apply h_exit; apply tt_any|apply h_ret; auto]. }
  intros _.
  destruct (C <? u64 (L - s_mki_size st - ak_tag (k_rtp_a k))) eqn:E3; [apply h_bind_exit; apply tt_any|].
  apply h_bind_ret. apply Z.ltb_ge in E3.
  apply h_bind with (R := fun _ => Bv).
  { destruct al eqn:EA; [apply h_ret; auto|].
    eapply h_bind; [apply h_rd_bv|intros h]. apply h_pure; intros _. apply h_wr_bv. exact EA. }
  intros _.
  destruct (negb (Z.land (s_rtp_serv st) sec_serv_auth_c =? 0)) eqn:DA.
  - apply h_bind with (R := fun _ _ =>
      tag_chk (k_rtp_a k)
         (rdval L src 0 (u64 (L - ak_tag (k_rtp_a k) - s_mki_size st)) ++ take 4 (be64 (est * 65536)))
         (rdval L src (L - ak_tag (k_rtp_a k)) (ak_tag (k_rtp_a k)))).
    + apply h_bind with (R := fun _ => Bv).
      { apply h_wpP. destruct (negb (ak_prefix (k_rtp_a k) =? 0)); [|apply wp_ret].
        destruct (cipher_output _ _) as [[s cs'] ks].
        apply wp_if; [apply wp_exit|]. apply wp_if; [apply wp_exit|apply wp_ret]. }
      intros pre.
      eapply h_bind; [apply h_rd_bv|intros m]. apply h_pure; intros ->.
      apply h_bind with (R := fun _ => Bv).
      { apply h_wpP. apply wp_if; [apply wp_exit|apply wp_ret]. }
      intros _.
      eapply h_bind; [apply h_rd_bv|intros t]. apply h_pure; intros ->.
      match goal with |- context [beqb ?x ?y] => destruct (beqb x y) eqn:EB end;
        [apply h_bind_ret|apply h_bind_exit; apply tt_any].
      apply h_ret. intros w _. exists (snd pre). exact EB.
    + intros cs1. apply h_ret. intros w HT. exists st. cbn [u_ref u_ki u_k u_est].
      split; [exact Hst|]. split; [exact Hk|]. split; [exact E3|]. intros _. exact HT.
  - apply h_bind_ret. apply h_ret. intros w _. exists st. cbn [u_ref u_ki u_k u_est].
    split; [exact Hst|]. split; [exact Hk|]. split; [exact E3|].
    intros N. exfalso. apply N. apply negb_false_iff in DA. apply Z.eqb_eq in DA. exact DA.
Qed.

(* ---- SRTCP ---- *)
Definition rtcp_pre_post (u : cpre) : Prop :=
  exists st ki k, lookup (w_s w0) (c_ref u) = Some st /\
    key_sel (rtcp_tag0 st) st L src ki k /\
    12 + s_mki_size st + ak_tag (k_rtcp_a k) <= L /\
    c_tag_len u = ak_tag (k_rtcp_a k) /\ c_mki u = s_mki_size st /\
    c_conf u = ((s_rtcp_serv st =? 1) || (s_rtcp_serv st =? 3)) /\
    negb (N.land (nthb (rdval L src (L - (ak_tag (k_rtcp_a k) + s_mki_size st + 4)) 4) 0)
                 (Z.to_N SRTCP_E_BYTE_BIT_c) =? 0)%N = c_conf u /\
    c_seq u = Z.land (be32 (rdval L src (L - (ak_tag (k_rtcp_a k) + s_mki_size st + 4)) 4) 0) SRTCP_INDEX_MASK_c /\
    rdb_check (s_rdb st) (c_seq u) = st_ok /\
    tag_chk (k_rtcp_a k) (rdval L src 0 (L - ak_tag (k_rtcp_a k) - s_mki_size st))
            (rdval L src (L - ak_tag (k_rtcp_a k) - s_mki_size st + s_mki_size st) (ak_tag (k_rtcp_a k))).

Lemma unprotect_rtcp_pre_facts : hoare (eq w0) unprotect_rtcp_pre (fun u _ => rtcp_pre_post u) TT.
Proof.
  unfold unprotect_rtcp_pre.
  eapply h_bind; [apply h_get_b_eq|intros b]. apply h_pure; intros ->.
  cbv beta zeta.
  change octets_in_rtcp_header_c with 8. change trailer_len with 4.
  apply h_pre with (P' := Bv); [intros w <-; apply Bv_refl|].
  destruct (L <? 8 + 4) eqn:E0; [apply h_bind_exit; apply tt_any|]. apply h_bind_ret.
  apply h_bind with (R := fun ss w => ss = w_s w0 /\ Bv w).
  { intros w Hw. cbn. split; [exact (proj1 Hw)|exact Hw]. }
  intros ss. apply h_pure; intros ->.
  apply h_bind with (R := fun _ => Bv).
  { apply h_wpP. destruct (list_get (ss_list (w_s w0)) _); [apply wp_ret|].
    destruct (ss_template (w_s w0)); [apply wp_ret|apply wp_exit]. }
  intros r0.
  eapply h_bind; [apply h_get_stream_bv|intros st]. apply h_pure; intros Hst.
  fold (rtcp_tag0 st).
  eapply h_bind; [apply h_keys_by_packet_bv|intros [ki k]].
  apply h_pure; cbn [fst snd]; intros Hk.
  cbv beta iota.
  destruct (L <? 8 + 4 + s_mki_size st + ak_tag (k_rtcp_a k)) eqn:E1; [apply h_bind_exit; apply tt_any|].
  apply h_bind_ret. apply Z.ltb_ge in E1.
  eapply h_bind; [apply h_rd_bv|intros tr]. apply h_pure; intros ->.
  match goal with |- context [Bool.eqb ?x ?y] => destruct (Bool.eqb x y) eqn:EE end;
    [apply h_bind_ret|apply h_bind_exit; apply tt_any].
  apply Bool.eqb_prop in EE.
  eapply h_bind; [apply h_check_stP|intros ?]. apply h_pure; intros HR.
  apply h_bind with (R := fun _ => Bv).
  { apply h_wpP. destruct (negb (ak_prefix (k_rtcp_a k) =? 0)); [|apply wp_ret].
    destruct (cipher_output _ _) as [[s cs'] ks].
    apply wp_if; [apply wp_exit|]. apply wp_if; [apply wp_exit|apply wp_ret]. }
  intros pre.
  eapply h_bind; [apply h_rd_bv|intros m]. apply h_pure; intros ->.
  apply h_bind with (R := fun _ => Bv).
  { apply h_wpP. apply wp_if; [apply wp_exit|apply wp_ret]. }
  intros _.
  eapply h_bind; [apply h_rd_bv|intros t]. apply h_pure; intros ->.
  match goal with |- context [beqb ?x ?y] => destruct (beqb x y) eqn:EB end;
    [apply h_bind_ret|apply h_bind_exit; apply tt_any].
  apply h_bind with (R := fun _ => Bv).
  { apply h_if; [apply h_exit; apply tt_any|apply h_ret; auto]. }
  intros _.
  apply h_ret. intros w _. exists st, ki, k.
  cbn [c_ref c_tag_len c_mki c_conf c_seq].
  split; [exact Hst|]. split; [exact Hk|]. split; [lia|]. split; [reflexivity|]. split; [reflexivity|].
  split; [reflexivity|]. split; [exact EE|]. split; [reflexivity|]. split; [exact HR|].
  exists (snd pre). exact EB.
Qed.

End PRE.

(* ===================================================================== *)
(* 4. ACCEPT => TAG MATCHES, SRTP                                         *)
(* ===================================================================== *)
(* Side conditions and why they are there:
   - 0 <= mki, tag + mki <= len, len < 2^64: the C code computes len - tag_len - mki_size in
     size_t; the model wraps it with u64.  When the difference is negative the wrapped value is
     huge, the read of the authenticated portion is out of bounds in the model (flagged, zeros
     returned) and the statement would be about those zeros.  `unprotect_pre_sizes` below shows
     that the conditions hold on every successful run from a well-formed session with len and
     *out_len below 2^63.
   - nothing is needed about b_oob or about the length of the source block: rd_src decides
     in-bounds from b_len only, and slice/take of a too-short block are simply shorter (the
     equation is then still the one the model checked). *)
Theorem unprotect_pre_tag_matches w w' u st :
  unprotect_pre w = (w', inl u) ->
  lookup (w_s w) (u_ref u) = Some st ->
  Z.land (s_rtp_serv st) sec_serv_auth_c <> 0 ->
  ak_kind (k_rtp_a (u_k u)) = SRTP_HMAC_SHA1_c ->
  0 <= ak_tag (k_rtp_a (u_k u)) <= 16 ->
  let len := b_len (w_b w) in
  let src := cur_src (w_b w) in
  let tag := ak_tag (k_rtp_a (u_k u)) in
  let mki := s_mki_size st in
  0 <= mki -> tag + mki <= len -> len < 18446744073709551616 ->
  slice (zn (len - tag)) (zn tag) src =
  take (zn tag) (hmac_sha1 (ak_key (k_rtp_a (u_k u)))
                           (take (zn (len - tag - mki)) src ++ take 4 (be64 (u_est u * 65536)))).
Proof.
  intros H Hl HA HK HT len src tag mki HM HS HL.
  destruct (hoare_returns _ _ _ _ _ _ (unprotect_pre_facts w) eq_refl H) as (st' & Hl' & _ & _ & Ht).
  rewrite Hl in Hl'. injection Hl' as <-. specialize (Ht HA).
  apply tag_chk_hmac in Ht; [|exact HK|lia].
  fold len src tag mki in Ht.
  rewrite u64_id in Ht by lia.
  rewrite !rdval_in in Ht by lia.
  change (zn 0) with 0%nat in Ht. rewrite slice_0 in Ht. exact Ht.
Qed.
Print Assumptions unprotect_pre_tag_matches.

(* the size side conditions follow from the checks of unprotect_pre itself *)
Theorem unprotect_pre_sizes w w' u st :
  unprotect_pre w = (w', inl u) ->
  lookup (w_s w) (u_ref u) = Some st ->
  session_wf (w_s w) -> size_ok (b_len (w_b w)) -> size_ok (b_cap (w_b w)) ->
  In (u_k u) (s_keys st) /\
  0 <= s_mki_size st <= 128 /\ 0 <= ak_tag (k_rtp_a (u_k u)) <= 16 /\
  ak_tag (k_rtp_a (u_k u)) + s_mki_size st <= b_len (w_b w) /\
  b_len (w_b w) - ak_tag (k_rtp_a (u_k u)) - s_mki_size st <= b_cap (w_b w).
Proof.
  intros H Hl HW HL HC.
  destruct (hoare_returns _ _ _ _ _ _ (unprotect_pre_facts w) eq_refl H) as (st' & Hl' & Hk & Hc & _).
  rewrite Hl in Hl'. injection Hl' as <-.
  pose proof (lookup_wf _ _ _ HW Hl) as W. pose proof (key_sel_In _ _ _ _ _ _ Hk) as HI.
  destruct (stream_wf_key _ _ W HI) as (_ & [T _] & _). destruct W as (M & _ & _).
  rewrite max_tag_value in T. rewrite max_mki_value in M. unfold size_ok in *.
  split; [exact HI|]. split; [exact M|]. split; [exact T|].
  destruct (Z_lt_le_dec (b_len (w_b w) - s_mki_size st - ak_tag (k_rtp_a (u_k u))) 0) as [N|N].
  - rewrite u64_neg in Hc by lia. lia.
  - rewrite u64_id in Hc by lia. lia.
Qed.
Print Assumptions unprotect_pre_sizes.

(* the two together: well-formed session, sizes below 2^63 *)
Corollary unprotect_pre_tag_matches_wf w w' u st :
  unprotect_pre w = (w', inl u) ->
  lookup (w_s w) (u_ref u) = Some st ->
  session_wf (w_s w) -> size_ok (b_len (w_b w)) -> size_ok (b_cap (w_b w)) ->
  Z.land (s_rtp_serv st) sec_serv_auth_c <> 0 ->
  ak_kind (k_rtp_a (u_k u)) = SRTP_HMAC_SHA1_c ->
  let len := b_len (w_b w) in
  let src := cur_src (w_b w) in
  let tag := ak_tag (k_rtp_a (u_k u)) in
  let mki := s_mki_size st in
  slice (zn (len - tag)) (zn tag) src =
  take (zn tag) (hmac_sha1 (ak_key (k_rtp_a (u_k u)))
                           (take (zn (len - tag - mki)) src ++ take 4 (be64 (u_est u * 65536)))).
Proof.
  intros H Hl HW HL HC HA HK.
  destruct (unprotect_pre_sizes _ _ _ _ H Hl HW HL HC) as (_ & M & T & S & _).
  unfold size_ok in HL.
  apply (unprotect_pre_tag_matches w w' u st H Hl HA HK T); lia.
Qed.
Print Assumptions unprotect_pre_tag_matches_wf.

(* ===================================================================== *)
(* 5. MKI: the key used is the one the MKI octets name                    *)
(* ===================================================================== *)
(* The MKI is located with the tag length of the stream's FIRST key (rtp_tag0), as in
   srtp_get_session_keys_for_packet; all keys of a stream built by srtp_stream_init carry
   the policy's tag length (stream_init_uniform_tags below), so this is the tag length of the
   key that is found. *)
Theorem unprotect_pre_mki w w' u st :
  unprotect_pre w = (w', inl u) ->
  lookup (w_s w) (u_ref u) = Some st ->
  s_use_mki st = true ->
  let len := b_len (w_b w) in
  let src := cur_src (w_b w) in
  let mki := s_mki_size st in
  let tag0 := rtp_tag0 st in
  0 <= mki -> 0 <= tag0 ->
  tag0 + mki <= len /\
  slice (zn (len - tag0 - mki)) (zn mki) src = k_mki (u_k u) /\
  0 <= u_ki u /\
  nth_error (s_keys st) (zn (u_ki u)) = Some (u_k u) /\
  (forall j k', (j < zn (u_ki u))%nat -> nth_error (s_keys st) j = Some k' -> k_mki k' <> k_mki (u_k u)).
Proof.
  intros H Hl HU len src mki tag0 HM HT.
  destruct (hoare_returns _ _ _ _ _ _ (unprotect_pre_facts w) eq_refl H) as (st' & Hl' & Hk & _ & _).
  rewrite Hl in Hl'. injection Hl' as <-.
  unfold key_sel in Hk. rewrite HU in Hk. destruct Hk as (A1 & A2 & F).
  fold len src mki tag0 in A1, A2, F.
  rewrite rdval_in in F by lia.
  destruct (find_mki_spec _ _ _ _ _ F) as (B1 & B2 & B3 & B4).
  rewrite Z.sub_0_r in B2, B4.
  split; [lia|]. split; [symmetry; exact B3|]. split; [exact B1|]. split; [exact B2|].
  intros j k' Hj Hk'. rewrite B3. exact (B4 j k' Hj Hk').
Qed.
Print Assumptions unprotect_pre_mki.

(* with pairwise distinct MKI ids the key named by the MKI octets is unique: it is u_k u *)
Corollary unprotect_pre_mki_unique w w' u st j k' :
  unprotect_pre w = (w', inl u) ->
  lookup (w_s w) (u_ref u) = Some st ->
  s_use_mki st = true -> 0 <= s_mki_size st -> 0 <= rtp_tag0 st ->
  NoDup (map k_mki (s_keys st)) ->
  nth_error (s_keys st) j = Some k' ->
  k_mki k' = slice (zn (b_len (w_b w) - rtp_tag0 st - s_mki_size st)) (zn (s_mki_size st)) (cur_src (w_b w)) ->
  j = zn (u_ki u) /\ k' = u_k u.
Proof.
  intros H Hl HU HM HT ND Hj Hm.
  destruct (unprotect_pre_mki _ _ _ _ H Hl HU HM HT) as (_ & E & _ & N & _).
  rewrite E in Hm.
  assert (J : j = zn (u_ki u)).
  { rewrite NoDup_nth_error in ND. apply ND.
    - rewrite map_length. apply nth_error_Some. rewrite Hj. discriminate.
    - rewrite (map_nth_error _ _ _ Hj), (map_nth_error _ _ _ N). rewrite Hm. reflexivity. }
  split; [exact J|]. subst j. rewrite N in Hj. injection Hj as <-. reflexivity.
Qed.
Print Assumptions unprotect_pre_mki_unique.

(* without MKI the stream's first key is used *)
Theorem unprotect_pre_nomki w w' u st :
  unprotect_pre w = (w', inl u) ->
  lookup (w_s w) (u_ref u) = Some st ->
  s_use_mki st = false ->
  u_ki u = 0 /\ hd_error (s_keys st) = Some (u_k u).
Proof.
  intros H Hl HU.
  destruct (hoare_returns _ _ _ _ _ _ (unprotect_pre_facts w) eq_refl H) as (st' & Hl' & Hk & _ & _).
  rewrite Hl in Hl'. injection Hl' as <-.
  unfold key_sel in Hk. rewrite HU in Hk. exact Hk.
Qed.
Print Assumptions unprotect_pre_nomki.

(* ===================================================================== *)
(* 6. ACCEPT => TAG MATCHES, SRTCP (plus E bit and index of the trailer)  *)
(* ===================================================================== *)
(* cpre does not record the key, so it is existentially quantified and pinned down by key_sel
   (= LengthProofs.receiver_key, plus the index).  SRTCP authentication does not depend on the
   service bits: srtp_unprotect_rtcp always checks the tag.  The length check of
   srtp_unprotect_rtcp (len >= 8 + 4 + mki + tag) makes `tag + mki <= len` a conclusion. *)
Theorem unprotect_rtcp_pre_tag_matches w w' u :
  unprotect_rtcp_pre w = (w', inl u) ->
  let len := b_len (w_b w) in
  let src := cur_src (w_b w) in
  exists st ki k,
    lookup (w_s w) (c_ref u) = Some st /\
    key_sel (rtcp_tag0 st) st len src ki k /\
    c_tag_len u = ak_tag (k_rtcp_a k) /\ c_mki u = s_mki_size st /\
    12 + s_mki_size st + ak_tag (k_rtcp_a k) <= len /\
    rdb_check (s_rdb st) (c_seq u) = st_ok /\
    let tag := ak_tag (k_rtcp_a k) in
    let mki := s_mki_size st in
    (0 <= mki -> 0 <= tag ->
       (* the trailer is the last 4 octets of the authenticated portion [0, len - tag - mki) *)
       let tr := zn (len - tag - mki - 4) in
       c_conf u = negb (N.land (nthb src tr) (Z.to_N SRTCP_E_BYTE_BIT_c) =? 0)%N /\
       c_conf u = ((s_rtcp_serv st =? 1) || (s_rtcp_serv st =? 3)) /\
       c_seq u = Z.land (be32 src tr) SRTCP_INDEX_MASK_c /\
       (ak_kind (k_rtcp_a k) = SRTP_HMAC_SHA1_c -> tag <= 16 ->
          slice (zn (len - tag)) (zn tag) src =
          take (zn tag) (hmac_sha1 (ak_key (k_rtcp_a k)) (take (zn (len - tag - mki)) src)))).
Proof.
  intros H len src.
  destruct (hoare_returns _ _ _ _ _ _ (unprotect_rtcp_pre_facts w) eq_refl H)
    as (st & ki & k & Hl & Hk & HS & H1 & H2 & H3 & H4 & H5 & H6 & H7).
  exists st, ki, k. fold len src in Hk, HS, H4, H5, H7.
  split; [exact Hl|]. split; [exact Hk|]. split; [exact H1|]. split; [exact H2|]. split; [exact HS|].
  split; [exact H6|]. intros tag mki HM HT tr. fold tag mki in HS, H4, H5, H7.
  replace (len - (tag + mki + 4)) with (len - tag - mki - 4) in H4, H5 by lia.
  rewrite rdval_in in H4, H5 by lia. change (zn 4) with 4%nat in H4, H5.
  rewrite nthb_slice0 in H4. rewrite be32_slice4_0 in H5.
  split; [symmetry; exact H4|]. split; [exact H3|]. split; [exact H5|].
  intros HK HT2. apply tag_chk_hmac in H7; [|exact HK|fold tag; lia]. fold tag in H7.
  replace (len - tag - mki + mki) with (len - tag) in H7 by lia.
  rewrite !rdval_in in H7 by lia.
  change (zn 0) with 0%nat in H7. rewrite slice_0 in H7. exact H7.
Qed.
Print Assumptions unprotect_rtcp_pre_tag_matches.

(* MKI for SRTCP, read off key_sel *)
Theorem key_sel_mki tag0 st len src ki k :
  key_sel tag0 st len src ki k -> s_use_mki st = true -> 0 <= s_mki_size st -> 0 <= tag0 ->
  tag0 + s_mki_size st <= len /\
  slice (zn (len - tag0 - s_mki_size st)) (zn (s_mki_size st)) src = k_mki k /\
  0 <= ki /\ nth_error (s_keys st) (zn ki) = Some k /\
  (forall j k', (j < zn ki)%nat -> nth_error (s_keys st) j = Some k' -> k_mki k' <> k_mki k).
Proof.
  intros Hk HU HM HT. unfold key_sel in Hk. rewrite HU in Hk. destruct Hk as (A1 & A2 & F).
  rewrite rdval_in in F by lia.
  destruct (find_mki_spec _ _ _ _ _ F) as (B1 & B2 & B3 & B4).
  rewrite Z.sub_0_r in B2, B4.
  split; [lia|]. split; [symmetry; exact B3|]. split; [exact B1|]. split; [exact B2|].
  intros j k' Hj Hk'. rewrite B3. exact (B4 j k' Hj Hk').
Qed.
Print Assumptions key_sel_mki.

(* key_sel is the receiver_key of LengthProofs.v *)
Lemma key_sel_receiver_key tag0 st len src ki k :
  key_sel tag0 st len src ki k -> 0 <= s_mki_size st -> 0 <= tag0 ->
  receiver_key st src len tag0 = Some k.
Proof.
  unfold key_sel, receiver_key. destruct (s_use_mki st); cbn [negb].
  - intros (A1 & A2 & F) HM HT. rewrite rdval_in in F by lia. rewrite F. reflexivity.
  - intros [_ H] _ _. exact H.
Qed.

(* ===================================================================== *)
(* 7. all keys of a stream carry the policy's tag lengths                 *)
(* ===================================================================== *)
Definition uniform_tags (st : stream) : Prop :=
  exists T1 T2, Forall (fun k => ak_tag (k_rtp_a k) = T1 /\ ak_tag (k_rtcp_a k) = T2) (s_keys st).

Lemma uniform_tags_cfg : cfg_closed uniform_tags.
Proof. intros a b (K & _) (T1 & T2 & F). exists T1, T2. rewrite K. exact F. Qed.

Lemma uniform_tag0 st k :
  uniform_tags st -> In k (s_keys st) ->
  ak_tag (k_rtp_a k) = rtp_tag0 st /\ ak_tag (k_rtcp_a k) = rtcp_tag0 st.
Proof.
  intros (T1 & T2 & F) HI. unfold rtp_tag0, rtcp_tag0. rewrite Forall_forall in F.
  destruct (F k HI) as [E1 E2]. destruct (s_keys st) as [|k0 t] eqn:EK; [contradiction|].
  destruct (F k0 (or_introl eq_refl)) as [E3 E4]. split; congruence.
Qed.

Lemma auth_key_tag id klen tlen key : ak_tag (auth_key id klen tlen key) = tlen.
Proof. unfold auth_key. destruct (id =? SRTP_HMAC_SHA1_c); reflexivity. Qed.

Lemma r_init_keys_tag p msz km o :
  returns (init_keys p msz km o)
          (fun r => ak_tag (k_rtp_a (fst r)) = cp_taglen (p_rtp p) /\ ak_tag (k_rtcp_a (fst r)) = cp_taglen (p_rtcp p)).
Proof.
  unfold init_keys. change derive_keys_any with derive_keys. apply r_bind; intros o1.
  destruct (derive_keys p (fst km) _) as [st [d|]] eqn:ED; [|apply r_exit].
  apply derive_keys_shape in ED. destruct ED as (E1 & [k1 E2] & [k2 E3]).
  apply r_bind; intros r. apply r_if; [apply r_bind; intros; apply r_exit|].
  apply r_bind; intros _. apply r_if; [apply r_exit|]. apply r_ret. cbn [fst].
  rewrite E2, E3, !auth_key_tag. auto.
Qed.

Lemma r_init_all_keys_tag p msz kms :
  forall o, returns (init_all_keys p msz kms o)
     (fun r => Forall (fun k => ak_tag (k_rtp_a k) = cp_taglen (p_rtp p) /\ ak_tag (k_rtcp_a k) = cp_taglen (p_rtcp p)) (fst r)).
Proof.
  induction kms as [|km t IH]; intros o; cbn [init_all_keys].
  - apply r_ret. constructor.
  - eapply r_bind2; [apply r_init_keys_tag|intros r Hr].
    eapply r_bind2; [apply IH|intros r2 Hr2]. apply r_ret. cbn [fst]. constructor; assumption.
Qed.

Theorem stream_init_uniform_tags p owned w w' st o :
  stream_init p owned w = (w', inl (st, o)) -> uniform_tags st.
Proof.
  intros E. exists (cp_taglen (p_rtp p)), (cp_taglen (p_rtcp p)).
  revert w w' st o E.
  assert (R : returns (stream_init p owned)
     (fun r => Forall (fun k => ak_tag (k_rtp_a k) = cp_taglen (p_rtp p) /\ ak_tag (k_rtcp_a k) = cp_taglen (p_rtcp p))
                      (s_keys (fst r)))).
  { unfold stream_init. apply r_bind; intros _. apply r_bind; intros _. apply r_bind; intros ok.
    apply r_if; [apply r_exit|]. destruct (rdbx_init _) as [rx|]; [|apply r_exit].
    eapply r_bind2.
    { apply r_catch with (G := fun r => Forall (fun k => ak_tag (k_rtp_a k) = cp_taglen (p_rtp p) /\ ak_tag (k_rtcp_a k) = cp_taglen (p_rtcp p)) (fst r)).
      destruct (p_usekey p).
      - apply r_bind; intros _. apply r_init_all_keys_tag.
      - apply r_bind; intros _. apply r_bind; intros _. apply r_init_all_keys_tag. }
    intros [[keys owned']|s] Hr; [|apply r_bind; intros; apply r_exit].
    apply r_ret. cbn [fst s_keys] in *. exact Hr. }
  intros w w' st o E. exact (R w w' (st, o) E).
Qed.
Print Assumptions stream_init_uniform_tags.

Theorem stream_clone_uniform_tags t ssrc w w' ns :
  uniform_tags t -> stream_clone t ssrc w = (w', inl ns) -> uniform_tags ns.
Proof.
  intros Ht E. destruct (r_stream_clone t ssrc w w' ns E) as [Hc _]. exact (uniform_tags_cfg _ _ Hc Ht).
Qed.

(* MKI theorem in terms of the tag length of the key that was used *)
Corollary unprotect_pre_mki_tag w w' u st :
  unprotect_pre w = (w', inl u) ->
  lookup (w_s w) (u_ref u) = Some st ->
  s_use_mki st = true -> uniform_tags st ->
  let len := b_len (w_b w) in
  let src := cur_src (w_b w) in
  let mki := s_mki_size st in
  let tag := ak_tag (k_rtp_a (u_k u)) in
  0 <= mki -> 0 <= tag ->
  tag + mki <= len /\
  slice (zn (len - tag - mki)) (zn mki) src = k_mki (u_k u) /\
  0 <= u_ki u /\
  nth_error (s_keys st) (zn (u_ki u)) = Some (u_k u) /\
  (forall j k', (j < zn (u_ki u))%nat -> nth_error (s_keys st) j = Some k' -> k_mki k' <> k_mki (u_k u)).
Proof.
  intros H Hl HU HT len src mki tag HM HTg.
  destruct (hoare_returns _ _ _ _ _ _ (unprotect_pre_facts w) eq_refl H) as (st' & Hl' & Hk & _ & _).
  rewrite Hl in Hl'. injection Hl' as <-.
  destruct (uniform_tag0 _ _ HT (key_sel_In _ _ _ _ _ _ Hk)) as [E _]. fold tag in E.
  unfold tag in *. rewrite E in *. exact (unprotect_pre_mki w w' u st H Hl HU HM HTg).
Qed.
Print Assumptions unprotect_pre_mki_tag.

(* ===================================================================== *)
(* 8. idealised MAC                                                       *)
(* ===================================================================== *)
Section Ideal.
Variable n : nat.
(* A SYMBOLIC idealisation of a MAC: equal n-octet tags under the same key only for equal
   messages.  For the real truncated HMAC-SHA1 this is FALSE by counting (there are more
   messages than 2^(8n) tags, so collisions exist); what cryptography gives is that they
   cannot be found without the key.  The hypothesis is an explicit premise of every closed
   theorem of this section. *)
Hypothesis tag_collision_free :
  forall key m m', take n (hmac_sha1 key m) = take n (hmac_sha1 key m') -> m = m'.

(* a receiver accepts a packet whose tag octets are the tag a key holder computed for
   (m0, roc0): then what the receiver authenticated is exactly m0 and roc0, i.e. header, CSRCs,
   extension, payload and their total length (truncation / extension / splicing change
   take (len - tag - mki) src) and the rollover counter of the index are the sender's *)
Theorem ideal_srtp_integrity w w' u st m0 roc0 :
  unprotect_pre w = (w', inl u) ->
  lookup (w_s w) (u_ref u) = Some st ->
  Z.land (s_rtp_serv st) sec_serv_auth_c <> 0 ->
  ak_kind (k_rtp_a (u_k u)) = SRTP_HMAC_SHA1_c ->
  0 <= ak_tag (k_rtp_a (u_k u)) <= 16 ->
  let len := b_len (w_b w) in
  let src := cur_src (w_b w) in
  let tag := ak_tag (k_rtp_a (u_k u)) in
  let mki := s_mki_size st in
  0 <= mki -> tag + mki <= len -> len < 18446744073709551616 ->
  zn tag = n -> length roc0 = 4%nat ->
  slice (zn (len - tag)) (zn tag) src = take n (hmac_sha1 (ak_key (k_rtp_a (u_k u))) (m0 ++ roc0)) ->
  take (zn (len - tag - mki)) src = m0 /\ take 4 (be64 (u_est u * 65536)) = roc0.
Proof.
  intros H Hl HA HK HT len src tag mki HM HS HL Hn Hr Htag.
  pose proof (unprotect_pre_tag_matches w w' u st H Hl HA HK HT HM HS HL) as E.
  fold len src tag mki in E. rewrite Htag in E. rewrite Hn in E.
  apply tag_collision_free in E. symmetry in E.
  apply app_inj_tail_len in E; [exact E|].
  rewrite Hr. rewrite take_length. unfold be64. rewrite be_bytes_length. reflexivity.
Qed.

(* contrapositive: a packet that carries a sender's tag but whose authenticated portion (header,
   CSRCs, extension, payload; or its length) differs from the sender's is not accepted with
   that stream and key *)
Corollary ideal_srtp_altered_rejected w st k m0 roc0 :
  let len := b_len (w_b w) in
  let src := cur_src (w_b w) in
  let tag := ak_tag (k_rtp_a k) in
  let mki := s_mki_size st in
  Z.land (s_rtp_serv st) sec_serv_auth_c <> 0 ->
  ak_kind (k_rtp_a k) = SRTP_HMAC_SHA1_c -> 0 <= tag <= 16 ->
  0 <= mki -> tag + mki <= len -> len < 18446744073709551616 ->
  zn tag = n -> length roc0 = 4%nat ->
  slice (zn (len - tag)) (zn tag) src = take n (hmac_sha1 (ak_key (k_rtp_a k)) (m0 ++ roc0)) ->
  take (zn (len - tag - mki)) src <> m0 ->
  forall w' u,
    unprotect_pre w = (w', inl u) -> lookup (w_s w) (u_ref u) = Some st -> u_k u = k -> False.
Proof.
  intros len src tag mki HA HK HT HM HS HL Hn Hr Htag Hne w' u H Hl Ek. subst k.
  apply Hne.
  exact (proj1 (ideal_srtp_integrity w w' u st m0 roc0 H Hl HA HK HT HM HS HL Hn Hr Htag)).
Qed.

Theorem ideal_srtcp_integrity w w' u m0 :
  unprotect_rtcp_pre w = (w', inl u) ->
  let len := b_len (w_b w) in
  let src := cur_src (w_b w) in
  exists st ki k,
    lookup (w_s w) (c_ref u) = Some st /\ key_sel (rtcp_tag0 st) st len src ki k /\
    let tag := ak_tag (k_rtcp_a k) in
    let mki := s_mki_size st in
    (0 <= mki -> 0 <= tag <= 16 -> ak_kind (k_rtcp_a k) = SRTP_HMAC_SHA1_c -> zn tag = n ->
     slice (zn (len - tag)) (zn tag) src = take n (hmac_sha1 (ak_key (k_rtcp_a k)) m0) ->
     take (zn (len - tag - mki)) src = m0).
Proof.
  intros H len src.
  destruct (unprotect_rtcp_pre_tag_matches w w' u H) as (st & ki & k & Hl & Hk & _ & _ & _ & _ & F).
  exists st, ki, k. split; [exact Hl|]. split; [exact Hk|].
  intros tag mki HM HT HK Hn Htag.
  destruct (F HM (proj1 HT)) as (_ & _ & _ & G). specialize (G HK (proj2 HT)).
  fold len src tag mki in G. rewrite Htag, Hn in G. apply tag_collision_free in G. symmetry. exact G.
Qed.
End Ideal.
Print Assumptions ideal_srtp_integrity.
Print Assumptions ideal_srtp_altered_rejected.
Print Assumptions ideal_srtcp_integrity.

(* ===================================================================== *)
(* 9. non-vacuity                                                         *)
(* ===================================================================== *)
(* a receiver stream with two master keys (MKI ids 7,7 and 9,9), authentication only, 4-octet
   HMAC-SHA1 tags; a 13-octet RTP packet (seq 1, ssrc 5) protected under the second key *)
Definition ex_null_c : ckey := {| ck_alg := 0; ck_klen := 0; ck_rks := []; ck_salt := [] |}.
Definition ex_key (kb : bytes) (id : bytes) : skeys :=
  let a := {| ak_kind := SRTP_HMAC_SHA1_c; ak_key := kb; ak_klen := 4; ak_tag := 4; ak_prefix := 0 |} in
  {| k_rtp_c := ex_null_c; k_rtp_a := a; k_xtn_c := None; k_rtcp_c := ex_null_c; k_rtcp_a := a;
     k_salt := []; k_csalt := []; k_mki := id |}.
Definition ex_k1 := ex_key [1;2;3;4]%N [7;7]%N.
Definition ex_k2 := ex_key [5;6;7;8]%N [9;9]%N.
Definition ex_stream : stream :=
  {| s_ssrc := 5; s_clone := false; s_keys := [ex_k1; ex_k2]; s_limits := [mk_limit; mk_limit];
     s_rdbx := {| index := 0; wlen := 128; mask := 0%N |}; s_rdb := rdb_init;
     s_pending_roc := 0; s_dir := 0; s_rtp_serv := 2; s_rtcp_serv := 2;
     s_use_mki := true; s_mki_size := 2; s_allow_repeat := false; s_cryptex := false; s_enc_xtn := [] |}.
Definition ex_body : bytes := [128;0;0;1; 0;0;0;0; 0;0;0;5; 42]%N.
Definition ex_packet (body : bytes) (id : bytes) : bytes :=
  body ++ id ++ take 4 (hmac_sha1 [5;6;7;8]%N (ex_body ++ [0;0;0;0]%N)).
Definition ex_world (pkt : bytes) : world :=
  {| w_s := {| ss_template := None; ss_list := [ex_stream]; ss_cap := 2 |};
     w_b := {| b_src := []; b_dst := pkt; b_alias := true; b_len := 19; b_cap := 19; b_oob := false |};
     w_ev := []; w_iv := [];
     w_h := {| h_live := 0; h_att := 0; h_fail := 0; h_frees := 0; h_dirty := 0 |} |}.

(* the genuine packet is accepted, with key index 1 (the key its MKI names) and index 1 *)
Example ex_accept :
  match unprotect_pre (ex_world (ex_packet ex_body [9;9]%N)) with
  | (_, inl u) => u_ki u = 1 /\ u_k u = ex_k2 /\ u_est u = 1 /\ u_ref u = RList 5
  | _ => False
  end.
Proof. vm_compute. repeat split. Qed.

(* one payload bit flipped: authentication failure *)
Example ex_altered_payload :
  snd (unprotect_pre (ex_world (ex_packet [128;0;0;1; 0;0;0;0; 0;0;0;5; 43]%N [9;9]%N))) = inr st_auth_fail.
Proof. vm_compute. reflexivity. Qed.

(* the MKI rewritten to name the other key: authentication failure (the tag was made under key 2) *)
Example ex_altered_mki :
  snd (unprotect_pre (ex_world (ex_packet ex_body [7;7]%N))) = inr st_auth_fail.
Proof. vm_compute. reflexivity. Qed.

(* SRTCP: 8-octet header (ssrc 5), trailer E=0 / index 1, MKI 9,9, tag under the second key *)
Definition ex_rtcp_body (tr : bytes) : bytes := [128;200;0;1; 0;0;0;5]%N ++ tr.
Definition ex_rtcp_packet (tr : bytes) : bytes :=
  ex_rtcp_body tr ++ [9;9]%N ++ take 4 (hmac_sha1 [5;6;7;8]%N (ex_rtcp_body [0;0;0;1]%N)).
Definition ex_rtcp_world (pkt : bytes) : world :=
  {| w_s := {| ss_template := None; ss_list := [ex_stream]; ss_cap := 2 |};
     w_b := {| b_src := []; b_dst := pkt; b_alias := true; b_len := 18; b_cap := 18; b_oob := false |};
     w_ev := []; w_iv := [];
     w_h := {| h_live := 0; h_att := 0; h_fail := 0; h_frees := 0; h_dirty := 0 |} |}.
Example ex_rtcp_accept :
  match unprotect_rtcp_pre (ex_rtcp_world (ex_rtcp_packet [0;0;0;1]%N)) with
  | (_, inl u) => c_seq u = 1 /\ c_conf u = false /\ c_tag_len u = 4 /\ c_mki u = 2
  | _ => False
  end.
Proof. vm_compute. repeat split. Qed.
(* index in the trailer altered: authentication failure *)
Example ex_rtcp_altered_index :
  snd (unprotect_rtcp_pre (ex_rtcp_world (ex_rtcp_packet [0;0;0;2]%N))) = inr st_auth_fail.
Proof. vm_compute. reflexivity. Qed.
(* E bit set on a stream without confidentiality: refused (cant_check) before the tag is looked at *)
Example ex_rtcp_altered_ebit :
  snd (unprotect_rtcp_pre (ex_rtcp_world (ex_rtcp_packet [128;0;0;1]%N))) = inr st_cant_check.
Proof. vm_compute. reflexivity. Qed.

Check unprotect_pre_tag_matches.
Check ideal_srtp_integrity.
Check ideal_srtcp_integrity.
