(* IcmProofs.v — property C18: the AES-ICM state machine of Icm.v
   (model of crypto/cipher/aes_icm.c) produces plain counter mode for every
   length, independently of how the data is split across encrypt calls, and
   refuses to run past block index 65535 of one IV.  Proofs only; the model is
   Srtp.Icm. *)
From Coq Require Import NArith ZArith List Bool Lia ZifyBool ZifyN ZifyNat.
From Srtp Require Import Util Constants Icm.
From Srtp.Crypto Require Import AES.
Import ListNotations.
Local Open Scope Z_scope.

Ltac Zify.zify_post_hook ::= Z.div_mod_to_equations.

(* ------------------------------------------------------------------ *)
(* take / drop / slice are firstn / skipn                              *)
(* ------------------------------------------------------------------ *)

Lemma take_firstn : forall A n (l : list A), take n l = firstn n l.
Proof.
  intros A n. induction n as [|n IHn]; intros [|x l]; cbn [take firstn]; try reflexivity.
  rewrite IHn. reflexivity.
Qed.

Lemma drop_skipn : forall A n (l : list A), drop n l = skipn n l.
Proof.
  intros A n. induction n as [|n IHn]; intros [|x l]; cbn [drop skipn]; try reflexivity.
  apply IHn.
Qed.

Lemma slice_firstn_skipn : forall A off n (l : list A), slice off n l = firstn n (skipn off l).
Proof. intros A off n l. unfold slice. rewrite take_firstn, drop_skipn. reflexivity. Qed.

Lemma skipn_app_ge : forall A (a b : list A) m, skipn (length a + m) (a ++ b) = skipn m b.
Proof.
  intros A a b m. rewrite skipn_app.
  rewrite skipn_all2 by lia.
  replace (length a + m - length a)%nat with m by lia. reflexivity.
Qed.

Lemma skipn_app_le : forall A (a b : list A) m, (m <= length a)%nat -> skipn m (a ++ b) = skipn m a ++ b.
Proof.
  intros A a b m Hm. rewrite skipn_app.
  replace (m - length a)%nat with O by lia. reflexivity.
Qed.

Lemma firstn_app_le : forall A (a b : list A) m, (m <= length a)%nat -> firstn m (a ++ b) = firstn m a.
Proof.
  intros A a b m Hm. rewrite firstn_app.
  replace (m - length a)%nat with O by lia. cbn [firstn]. apply app_nil_r.
Qed.

Lemma firstn_add : forall A (l : list A) a b, firstn (a + b) l = firstn a l ++ firstn b (skipn a l).
Proof.
  intros A l a. revert l. induction a as [|a IHa]; intros l b.
  - reflexivity.
  - destruct l as [|x l].
    + cbn [Nat.add firstn skipn]. rewrite firstn_nil. reflexivity.
    + cbn [Nat.add firstn skipn app]. rewrite IHa. reflexivity.
Qed.

Lemma skipn_add : forall A (l : list A) a b, skipn (a + b) l = skipn b (skipn a l).
Proof.
  intros A l a. revert l. induction a as [|a IHa]; intros l b.
  - reflexivity.
  - destruct l as [|x l].
    + cbn [Nat.add skipn]. rewrite skipn_nil. reflexivity.
    + cbn [Nat.add skipn]. apply IHa.
Qed.

(* a window of a prefix is the window of the whole list *)
Lemma window_of_prefix : forall A (l : list A) p n m, (p + n <= m)%nat ->
  firstn n (skipn p (firstn m l)) = firstn n (skipn p l).
Proof.
  intros A l p n m Hm.
  rewrite skipn_firstn_comm, firstn_firstn.
  replace (Nat.min n (m - p)) with n by lia. reflexivity.
Qed.

Lemma length_concat16 : forall (bl : list bytes),
  Forall (fun b => length b = 16%nat) bl -> length (concat bl) = (16 * length bl)%nat.
Proof.
  intros bl Hbl. induction Hbl as [|b bl Hb Hbl IH].
  - reflexivity.
  - cbn [concat length]. rewrite app_length, IH, Hb. lia.
Qed.

(* ------------------------------------------------------------------ *)
(* the 16-bit big-endian block counter                                 *)
(* ------------------------------------------------------------------ *)

Lemma be_val_be2 : forall x, be_val (be_bytes 2 x) = (x mod 65536)%N.
Proof.
  intros x.
  change (be_bytes 2 x) with [N.land (N.shiftr x 8) 255; N.land x 255].
  cbn [be_val length].
  change (256 ^ N.of_nat 1)%N with 256%N. change (256 ^ N.of_nat 0)%N with 1%N.
  change 255%N with (N.ones 8). rewrite !N.land_ones, N.shiftr_div_pow2.
  change (2 ^ 8)%N with 256%N. lia.
Qed.

Lemma ctr_low_range : forall ctr, 0 <= ctr_low ctr.
Proof. intros ctr. unfold ctr_low, be16. lia. Qed.

Lemma ctr_add_length : forall ctr j, length ctr = 16%nat -> length (ctr_add ctr j) = 16%nat.
Proof.
  intros ctr j Hlen. unfold ctr_add.
  rewrite app_length, take_firstn, firstn_length, be_bytes_length. lia.
Qed.

Lemma ctr_low_ctr_add : forall ctr j, length ctr = 16%nat ->
  ctr_low (ctr_add ctr j) = (ctr_low ctr + j) mod 65536.
Proof.
  intros ctr j Hlen. unfold ctr_add at 1. unfold ctr_low at 1. unfold be16.
  rewrite slice_firstn_skipn, take_firstn.
  assert (Hl14 : length (firstn 14 ctr) = 14%nat) by (rewrite firstn_length; lia).
  replace 14%nat with (length (firstn 14 ctr) + 0)%nat at 1 by lia.
  rewrite skipn_app_ge. cbn [skipn].
  rewrite firstn_all2 by (rewrite be_bytes_length; lia).
  rewrite be_val_be2.
  set (s := ctr_low ctr + j). clearbody s. lia.
Qed.

Lemma take14_ctr_add : forall ctr j, length ctr = 16%nat -> take 14 (ctr_add ctr j) = take 14 ctr.
Proof.
  intros ctr j Hlen. unfold ctr_add. rewrite !take_firstn.
  assert (Hl14 : length (firstn 14 ctr) = 14%nat) by (rewrite firstn_length; lia).
  rewrite firstn_app_le by lia. rewrite firstn_firstn. reflexivity.
Qed.

Lemma ctr_add_add : forall ctr a b, length ctr = 16%nat ->
  ctr_add (ctr_add ctr a) b = ctr_add ctr (a + b).
Proof.
  intros ctr a b Hlen. unfold ctr_add at 1.
  rewrite take14_ctr_add by exact Hlen. rewrite ctr_low_ctr_add by exact Hlen.
  unfold ctr_add. do 3 f_equal.
  set (l := ctr_low ctr). clearbody l. lia.
Qed.

(* ctr_add ctr 0 = ctr holds only for a counter whose last two octets really
   are octets; the model does not constrain list elements to < 256 *)
Lemma ctr_add_0 : forall ctr, length ctr = 16%nat ->
  Forall (fun b => (b < 256)%N) ctr -> ctr_add ctr 0 = ctr.
Proof.
  intros ctr Hlen Hb.
  do 16 (destruct ctr as [|? ctr]; [discriminate Hlen|]).
  destruct ctr; [|discriminate Hlen].
  repeat match goal with H : Forall _ (_ :: _) |- _ => inversion H; clear H; subst end.
  unfold ctr_add, ctr_low, be16, slice. cbn [take drop app].
  do 14 f_equal.
  match goal with |- be_bytes 2 ?x = _ => set (v := x) end.
  change (be_bytes 2 v) with [N.land (N.shiftr v 8) 255; N.land v 255].
  change 255%N with (N.ones 8). rewrite !N.land_ones, N.shiftr_div_pow2.
  change (2 ^ 8)%N with 256%N.
  subst v. cbn [be_val length].
  change (256 ^ N.of_nat 1)%N with 256%N. change (256 ^ N.of_nat 0)%N with 1%N.
  f_equal; [|f_equal]; lia.
Qed.

(* ================================================================== *)
Section ICM_PROOFS.
Variable E : bytes -> bytes.                         (* one block under the expanded key *)
Hypothesis E_len : forall b, length (E b) = 16%nat.

(* ceil(p/16): number of keystream blocks touched by the first p bytes *)
Definition blocks_of (p : Z) : Z := (p + 15) / 16.

(* the counter of block k of the segment that starts at ctr0.  (ctr_add ctr0 0 is
   ctr0 only when the last two elements of ctr0 are octets, see ctr_add_0.) *)
Definition ctr_at (ctr0 : bytes) (k : Z) : bytes := if k =? 0 then ctr0 else ctr_add ctr0 k.

(* reference: plain counter mode, E(ctr0) || E(ctr0+1) || ... cut to n bytes *)
Definition ctr_keystream (ctr0 : bytes) (n : nat) : bytes :=
  take n (concat (ks_blocks E ((n + 15) / 16)%nat ctr0)).

(* the state reached after consuming pos bytes since icm_set_iv produced ctr0 *)
Record wf (c : icm) (ctr0 : bytes) (pos : Z) : Prop := {
  wf_pos : 0 <= pos;
  wf_ctr0 : length ctr0 = 16%nat;
  wf_ctr : i_ctr c = ctr_at ctr0 (blocks_of pos);
  wf_in : i_in c = (16 - pos mod 16) mod 16;
  wf_buflen : length (i_buf c) = 16%nat;
  wf_buf : 0 < pos -> i_buf c = E (ctr_at ctr0 (blocks_of pos - 1)) }.

(* the terminus check of srtp_aes_icm_encrypt, as a function of the call length *)
Definition icm_refuses (c : icm) (n : Z) : bool :=
  icm_max_blocks_c <? u64 (u64 (n - i_in c) + 15) / 16 + ctr_low (i_ctr c).

Lemma icm_encrypt_eq : forall c data,
  icm_encrypt E c data =
  if icm_refuses c (lenZ data) then (st_terminus, c, [])
  else if lenZ data <=? i_in c then
    (st_ok, {| i_off := i_off c; i_ctr := i_ctr c; i_buf := i_buf c; i_in := i_in c - lenZ data |},
     xor_bytes data (slice (zn (16 - i_in c)) (zn (lenZ data)) (i_buf c)))
  else
    (st_ok, {| i_off := i_off c;
               i_ctr := ctr_add (i_ctr c) ((lenZ data - i_in c + 15) / 16);
               i_buf := last (ks_blocks E (zn ((lenZ data - i_in c + 15) / 16)) (i_ctr c)) (i_buf c);
               i_in := (16 - (lenZ data - i_in c) mod 16) mod 16 |},
     xor_bytes data (take (zn (lenZ data))
        (drop (zn (16 - i_in c)) (i_buf c) ++
         concat (ks_blocks E (zn ((lenZ data - i_in c + 15) / 16)) (i_ctr c))))).
Proof. reflexivity. Qed.

(* ---- counters ---- *)
Lemma ctr_at_0 : forall ctr0, ctr_at ctr0 0 = ctr0.
Proof. reflexivity. Qed.

Lemma ctr_at_length : forall ctr0 k, length ctr0 = 16%nat -> length (ctr_at ctr0 k) = 16%nat.
Proof.
  intros ctr0 k Hlen. unfold ctr_at. destruct (k =? 0) eqn:Hk.
  - exact Hlen.
  - apply ctr_add_length. exact Hlen.
Qed.

Lemma ctr_at_add : forall ctr0 k j, length ctr0 = 16%nat -> 0 <= k -> 1 <= j ->
  ctr_add (ctr_at ctr0 k) j = ctr_at ctr0 (k + j).
Proof. clear E_len. clear E.
  intros ctr0 k j Hlen Hk Hj. unfold ctr_at.
  destruct (k + j =? 0) eqn:Hkj; [lia|].
  destruct (k =? 0) eqn:Hk0.
  - replace (k + j) with j by lia. reflexivity.
  - apply ctr_add_add. exact Hlen.
Qed.

Lemma ctr_low_ctr_at : forall ctr0 k, length ctr0 = 16%nat -> 0 <= k ->
  ctr_low ctr0 + k <= 65535 -> ctr_low (ctr_at ctr0 k) = ctr_low ctr0 + k.
Proof. clear E_len. clear E.
  intros ctr0 k Hlen Hk Hr. unfold ctr_at. destruct (k =? 0) eqn:Hk0.
  - lia.
  - rewrite ctr_low_ctr_add by exact Hlen.
    pose proof (ctr_low_range ctr0) as Hl. set (l := ctr_low ctr0) in *. clearbody l. lia.
Qed.

(* ---- keystream blocks ---- *)
Lemma ks_blocks_length : forall n ctr, length (ks_blocks E n ctr) = n.
Proof.
  induction n as [|n IHn]; intros ctr; cbn [ks_blocks length].
  - reflexivity.
  - rewrite IHn. reflexivity.
Qed.

Lemma ks_blocks_all16 : forall n ctr, Forall (fun b => length b = 16%nat) (ks_blocks E n ctr).
Proof.
  induction n as [|n IHn]; intros ctr; cbn [ks_blocks].
  - constructor.
  - constructor; [apply E_len | apply IHn].
Qed.

Lemma ks_concat_length : forall n ctr, length (concat (ks_blocks E n ctr)) = (16 * n)%nat.
Proof.
  intros n ctr. rewrite length_concat16 by apply ks_blocks_all16.
  rewrite ks_blocks_length. reflexivity.
Qed.

Lemma ks_blocks_app : forall ctr0 a b k, length ctr0 = 16%nat -> 0 <= k ->
  ks_blocks E (a + b) (ctr_at ctr0 k) =
  ks_blocks E a (ctr_at ctr0 k) ++ ks_blocks E b (ctr_at ctr0 (k + Z.of_nat a)).
Proof. clear E_len.
  intros ctr0 a b k Hlen. revert k. induction a as [|a IHa]; intros k Hk.
  - cbn [Nat.add ks_blocks app]. replace (k + Z.of_nat 0) with k by lia. reflexivity.
  - cbn [Nat.add ks_blocks app]. rewrite ctr_at_add by (try exact Hlen; lia).
    rewrite IHa by lia. replace (k + 1 + Z.of_nat a) with (k + Z.of_nat (S a)) by lia.
    reflexivity.
Qed.

Lemma ks_blocks_app0 : forall ctr0 a b, length ctr0 = 16%nat ->
  ks_blocks E (a + b) ctr0 = ks_blocks E a ctr0 ++ ks_blocks E b (ctr_at ctr0 (Z.of_nat a)).
Proof.
  intros ctr0 a b Hlen. exact (ks_blocks_app ctr0 a b 0 Hlen (Z.le_refl 0)).
Qed.

Lemma ks_blocks_last : forall ctr0 nb k d, length ctr0 = 16%nat -> 0 <= k -> (1 <= nb)%nat ->
  last (ks_blocks E nb (ctr_at ctr0 k)) d = E (ctr_at ctr0 (k + Z.of_nat nb - 1)).
Proof. clear E_len.
  intros ctr0 nb k d Hlen Hk Hnb.
  replace nb with ((nb - 1) + 1)%nat at 1 by lia.
  rewrite ks_blocks_app by assumption. cbn [ks_blocks].
  rewrite last_last. do 2 f_equal. lia.
Qed.

(* ---- the reference keystream ---- *)
Lemma ctr_keystream_length : forall ctr0 n, length (ctr_keystream ctr0 n) = n.
Proof.
  intros ctr0 n. unfold ctr_keystream. rewrite take_firstn, firstn_length, ks_concat_length. lia.
Qed.

(* any sufficiently long run of blocks gives the same first n bytes *)
Lemma ctr_keystream_blocks : forall ctr0 n nb, length ctr0 = 16%nat -> (n <= 16 * nb)%nat ->
  firstn n (concat (ks_blocks E nb ctr0)) = ctr_keystream ctr0 n.
Proof.
  intros ctr0 n nb Hlen Hnb. unfold ctr_keystream. rewrite take_firstn.
  set (kb := ((n + 15) / 16)%nat).
  assert (Hkb : (n <= 16 * kb /\ kb <= nb)%nat) by (subst kb; lia).
  replace nb with (kb + (nb - kb))%nat by lia.
  rewrite ks_blocks_app0 by exact Hlen. rewrite concat_app.
  rewrite firstn_app_le by (rewrite ks_concat_length; lia). reflexivity.
Qed.

Lemma ctr_keystream_prefix : forall ctr0 m n, length ctr0 = 16%nat -> (m <= n)%nat ->
  firstn m (ctr_keystream ctr0 n) = ctr_keystream ctr0 m.
Proof.
  intros ctr0 m n Hlen Hmn. unfold ctr_keystream at 1. rewrite take_firstn, firstn_firstn.
  replace (Nat.min m n) with m by lia.
  apply ctr_keystream_blocks; [exact Hlen | lia].
Qed.

(* a window of the reference keystream does not depend on how far it was generated *)
Lemma ctr_keystream_window : forall ctr0 p n m, length ctr0 = 16%nat -> (p + n <= m)%nat ->
  slice p n (ctr_keystream ctr0 m) = slice p n (ctr_keystream ctr0 (p + n)).
Proof.
  intros ctr0 p n m Hlen Hm. rewrite !slice_firstn_skipn.
  rewrite <- (ctr_keystream_prefix ctr0 (p + n) m Hlen Hm).
  rewrite window_of_prefix by lia. reflexivity.
Qed.

(* ---- what the state machine will output next ---- *)
Lemma stream_tail : forall c ctr0 pos nb, wf c ctr0 pos ->
  skipn (zn (16 - i_in c)) (i_buf c) ++ concat (ks_blocks E nb (i_ctr c)) =
  skipn (zn pos) (concat (ks_blocks E (zn (blocks_of pos) + nb) ctr0)).
Proof.
  intros c ctr0 pos nb [Hpos Hlen Hctr Hin Hbl Hbuf].
  rewrite Hctr. unfold blocks_of in *. set (k := (pos + 15) / 16) in *.
  assert (Hk : 0 <= k) by (subst k; lia).
  rewrite ks_blocks_app0 by exact Hlen. rewrite concat_app.
  replace (Z.of_nat (zn k)) with k by (unfold zn; lia).
  destruct (pos mod 16 =? 0) eqn:Hm.
  - assert (Hin0 : i_in c = 0) by lia.
    rewrite Hin0. rewrite (skipn_all2 (i_buf c)) by (unfold zn; lia). cbn [app].
    replace (zn pos) with (length (concat (ks_blocks E (zn k) ctr0)) + 0)%nat
      by (rewrite ks_concat_length; unfold zn; subst k; lia).
    rewrite skipn_app_ge. reflexivity.
  - assert (Hk1 : 1 <= k) by (subst k; lia).
    assert (Hp : 0 < pos) by lia.
    replace (zn k) with (zn (k - 1) + 1)%nat by (unfold zn; lia).
    rewrite ks_blocks_app0 by exact Hlen. rewrite concat_app. cbn [ks_blocks concat].
    rewrite app_nil_r.
    replace (Z.of_nat (zn (k - 1))) with (k - 1) by (unfold zn; lia).
    rewrite <- (Hbuf Hp). rewrite <- app_assoc.
    replace (zn pos) with (length (concat (ks_blocks E (zn (k - 1)) ctr0)) + zn (16 - i_in c))%nat
      by (rewrite ks_concat_length; unfold zn; subst k; lia).
    rewrite skipn_app_ge. rewrite skipn_app_le by (unfold zn; lia). reflexivity.
Qed.

Lemma keystream_window : forall c ctr0 pos nb n, wf c ctr0 pos ->
  (zn (blocks_of pos) + nb = (zn pos + n + 15) / 16)%nat ->
  firstn n (skipn (zn (16 - i_in c)) (i_buf c) ++ concat (ks_blocks E nb (i_ctr c))) =
  slice (zn pos) n (ctr_keystream ctr0 (zn pos + n)).
Proof.
  intros c ctr0 pos nb n Hwf Hcount.
  rewrite (stream_tail c ctr0 pos nb Hwf), Hcount.
  rewrite slice_firstn_skipn. unfold ctr_keystream. rewrite take_firstn.
  rewrite window_of_prefix by lia. reflexivity.
Qed.

(* ================================================================== *)
(* C18.3  one call from a well-formed state is counter mode            *)
(* ================================================================== *)
Theorem icm_encrypt_ok : forall c ctr0 pos data,
  wf c ctr0 pos -> icm_refuses c (lenZ data) = false ->
  exists c',
    icm_encrypt E c data =
      (st_ok, c', xor_bytes data (slice (zn pos) (length data)
                                        (ctr_keystream ctr0 (zn pos + length data)))) /\
    wf c' ctr0 (pos + lenZ data) /\ i_off c' = i_off c /\
    (pos + lenZ data = 0 -> i_buf c' = i_buf c).
Proof.
  intros c ctr0 pos data Hwf Href.
  rewrite icm_encrypt_eq, Href.
  pose proof Hwf as [Hpos Hlen Hctr Hin Hbl Hbuf].
  assert (Hzn : zn (lenZ data) = length data) by (unfold zn, lenZ; lia).
  rewrite Hzn. rewrite take_firstn, drop_skipn.
  destruct (lenZ data <=? i_in c) eqn:Hsmall.
  - (* served from the keystream buffer *)
    eexists. split; [|split; [|split]].
    + f_equal. f_equal.
      assert (Hcount : (zn (blocks_of pos) + 0 = (zn pos + length data + 15) / 16)%nat)
        by (unfold blocks_of, zn, lenZ in *; lia).
      pose proof (keystream_window c ctr0 pos 0 (length data) Hwf Hcount) as Hw.
      cbn [ks_blocks concat] in Hw. rewrite app_nil_r in Hw.
      rewrite slice_firstn_skipn. exact Hw.
    + constructor; cbn [i_off i_ctr i_buf i_in].
      * unfold lenZ; lia.
      * exact Hlen.
      * rewrite Hctr. f_equal. unfold blocks_of, lenZ in *. lia.
      * unfold lenZ in *. lia.
      * exact Hbl.
      * intros Hp. assert (Hp0 : 0 < pos) by (unfold lenZ in *; lia).
        rewrite (Hbuf Hp0). do 2 f_equal. unfold blocks_of, lenZ in *. lia.
    + reflexivity.
    + reflexivity.
  - (* rest of the buffer, then new blocks *)
    set (n := lenZ data) in *.
    set (nb := (n - i_in c + 15) / 16).
    assert (Hn : n = Z.of_nat (length data)) by reflexivity.
    assert (Hnb : 1 <= nb) by (subst nb; lia).
    assert (Hk : 0 <= blocks_of pos) by (unfold blocks_of; lia).
    assert (Hk' : blocks_of (pos + n) = blocks_of pos + nb) by (subst nb; unfold blocks_of; lia).
    eexists. split; [|split; [|split]].
    + f_equal. f_equal.
      apply (keystream_window c ctr0 pos (zn nb) (length data) Hwf).
      unfold zn. unfold blocks_of in *. lia.
    + constructor; cbn [i_off i_ctr i_buf i_in].
      * lia.
      * exact Hlen.
      * rewrite Hctr, Hk'. apply ctr_at_add; assumption.
      * lia.
      * rewrite Hctr. rewrite ks_blocks_last by (try assumption; unfold zn; lia). apply E_len.
      * intros _. rewrite Hctr. rewrite ks_blocks_last by (try assumption; unfold zn; lia).
        do 2 f_equal. unfold zn. lia.
    + reflexivity.
    + intros H0. lia.
Qed.

(* ================================================================== *)
(* C18.5  the terminus check                                           *)
(* ================================================================== *)

(* refusal: status terminus, state untouched, no output *)
Theorem icm_encrypt_refused : forall c data,
  icm_refuses c (lenZ data) = true -> icm_encrypt E c data = (st_terminus, c, []).
Proof. intros c data Href. rewrite icm_encrypt_eq, Href. reflexivity. Qed.

Theorem icm_encrypt_status : forall c data,
  fst (fst (icm_encrypt E c data)) = (if icm_refuses c (lenZ data) then st_terminus else st_ok).
Proof.
  intros c data. rewrite icm_encrypt_eq.
  destruct (icm_refuses c (lenZ data)) eqn:Href; [reflexivity|].
  destruct (lenZ data <=? i_in c) eqn:Hs; reflexivity.
Qed.

(* size_t arithmetic of the check.  bytes_to_encr - bytes_in_buffer wraps when the
   call is shorter than the buffered keystream; adding 15 wraps it back below 16 *)
Lemma new_blocks_wrap : forall n i, 0 <= i <= 15 -> 0 <= n < i ->
  u64 (u64 (n - i) + 15) / 16 = 0.
Proof. intros n i Hi Hn. unfold u64. lia. Qed.

Lemma new_blocks_nowrap : forall n i, 0 <= i <= n -> n - i + 15 < 18446744073709551616 ->
  u64 (u64 (n - i) + 15) / 16 = (n - i + 15) / 16.
Proof. intros n i Hi Hn. unfold u64. f_equal. lia. Qed.

(* number of new blocks the check computes = growth of the block index *)
Lemma new_blocks_spec : forall c ctr0 pos n, wf c ctr0 pos ->
  0 <= n -> n + 15 < 18446744073709551616 ->
  u64 (u64 (n - i_in c) + 15) / 16 = blocks_of (pos + n) - blocks_of pos.
Proof. clear E_len.
  intros c ctr0 pos n [Hpos Hlen Hctr Hin Hbl Hbuf] Hn0 Hn.
  assert (Hi : 0 <= i_in c <= 15) by lia.
  destruct (n <? i_in c) eqn:Hlt.
  - rewrite new_blocks_wrap by lia. unfold blocks_of. lia.
  - rewrite new_blocks_nowrap by lia. unfold blocks_of. lia.
Qed.

(* no call has yet gone past block index 65535 *)
Definition in_range (ctr0 : bytes) (pos : Z) : Prop := ctr_low ctr0 + blocks_of pos <= 65535.

Theorem icm_refuses_iff : forall c ctr0 pos n, wf c ctr0 pos -> in_range ctr0 pos ->
  0 <= n -> n + 15 < 18446744073709551616 ->
  (icm_refuses c n = true <-> 65535 < ctr_low ctr0 + blocks_of (pos + n)).
Proof. clear E_len.
  intros c ctr0 pos n Hwf Hr Hn0 Hn. unfold icm_refuses.
  rewrite (new_blocks_spec c ctr0 pos n Hwf Hn0 Hn).
  destruct Hwf as [Hpos Hlen Hctr Hin Hbl Hbuf].
  unfold in_range in Hr.
  assert (Hk : 0 <= blocks_of pos) by (unfold blocks_of; lia).
  rewrite Hctr, ctr_low_ctr_at by assumption.
  unfold icm_max_blocks_c. lia.
Qed.

Corollary icm_accepts_in_range : forall c ctr0 pos n, wf c ctr0 pos -> in_range ctr0 pos ->
  0 <= n -> n + 15 < 18446744073709551616 ->
  (icm_refuses c n = false <-> in_range ctr0 (pos + n)).
Proof. clear E_len.
  intros c ctr0 pos n Hwf Hr Hn0 Hn.
  pose proof (icm_refuses_iff c ctr0 pos n Hwf Hr Hn0 Hn) as Hiff.
  unfold in_range. destruct (icm_refuses c n); split; intros H; try reflexivity; try discriminate.
  - exfalso. assert (Ht : 65535 < ctr_low ctr0 + blocks_of (pos + n)) by (apply Hiff; reflexivity). lia.
  - destruct (Z_lt_le_dec 65535 (ctr_low ctr0 + blocks_of (pos + n))) as [Hgt|Hle]; [|exact Hle].
    apply Hiff in Hgt. discriminate Hgt.
Qed.

(* a call that fits in the buffered keystream is never refused, although
   bytes_to_encr - bytes_in_buffer wraps around in size_t when it is strictly shorter *)
Corollary icm_buffered_never_refused : forall c ctr0 pos n, wf c ctr0 pos -> in_range ctr0 pos ->
  0 <= n <= i_in c -> icm_refuses c n = false.
Proof. clear E_len.
  intros c ctr0 pos n Hwf Hr Hn.
  pose proof Hwf as [Hpos Hlen Hctr Hin Hbl Hbuf].
  apply (icm_accepts_in_range c ctr0 pos n Hwf Hr); [lia | lia |].
  unfold in_range, blocks_of in *. lia.
Qed.

(* SRTP case: the last two octets of offset and IV are zero, so ctr_low ctr0 = 0.
   A call is refused exactly when it would need more than 65535 blocks in total,
   i.e. when the segment would grow beyond 65535 * 16 = 1048560 bytes. *)
Theorem icm_terminus_srtp : forall c ctr0 pos data, wf c ctr0 pos ->
  ctr_low ctr0 = 0 -> pos <= 1048560 -> lenZ data + 15 < 18446744073709551616 ->
  (fst (fst (icm_encrypt E c data)) = st_terminus <-> 1048560 < pos + lenZ data) /\
  (1048560 < pos + lenZ data -> icm_encrypt E c data = (st_terminus, c, [])).
Proof. clear E_len.
  intros c ctr0 pos data Hwf Hl0 Hp Hn.
  assert (Hn0 : 0 <= lenZ data) by (unfold lenZ; lia).
  assert (Hr : in_range ctr0 pos) by (unfold in_range, blocks_of; lia).
  pose proof (icm_refuses_iff c ctr0 pos (lenZ data) Hwf Hr Hn0 Hn) as Hiff.
  rewrite Hl0 in Hiff.
  assert (Hb : 65535 < 0 + blocks_of (pos + lenZ data) <-> 1048560 < pos + lenZ data)
    by (unfold blocks_of; lia).
  split.
  - rewrite icm_encrypt_status. destruct (icm_refuses c (lenZ data)) eqn:Href.
    + split; intros _; [apply Hb, Hiff|]; reflexivity.
    + split; intros H; [discriminate H|]. apply Hb, Hiff in H. discriminate H.
  - intros H. apply icm_encrypt_refused. apply Hiff, Hb, H.
Qed.

(* ================================================================== *)
(* C18.4  chunking independence                                        *)
(* ================================================================== *)

(* successive encrypt calls on one cipher state; stops at the first refusal *)
Fixpoint icm_run (c : icm) (chunks : list bytes) : Z * icm * bytes :=
  match chunks with
  | [] => (st_ok, c, [])
  | d :: rest =>
    let '(s, c1, o) := icm_encrypt E c d in
    if s =? st_ok then
      let '(s2, c2, o2) := icm_run c1 rest in (s2, c2, o ++ o2)
    else (s, c1, o)
  end.

Lemma xor_window_app : forall ctr0 p d1 d2, length ctr0 = 16%nat ->
  xor_bytes d1 (slice p (length d1) (ctr_keystream ctr0 (p + length d1))) ++
  xor_bytes d2 (slice (p + length d1) (length d2) (ctr_keystream ctr0 (p + length d1 + length d2))) =
  xor_bytes (d1 ++ d2) (slice p (length (d1 ++ d2)) (ctr_keystream ctr0 (p + length (d1 ++ d2)))).
Proof.
  intros ctr0 p d1 d2 Hlen. rewrite app_length.
  set (n1 := length d1). set (n2 := length d2).
  replace (p + n1 + n2)%nat with (p + (n1 + n2))%nat by lia.
  set (K := ctr_keystream ctr0 (p + (n1 + n2))).
  assert (HK : length K = (p + (n1 + n2))%nat) by (subst K; apply ctr_keystream_length).
  rewrite <- (ctr_keystream_window ctr0 p n1 (p + (n1 + n2)) Hlen) by lia. fold K.
  rewrite !slice_firstn_skipn.
  rewrite (firstn_add _ (skipn p K) n1 n2). rewrite <- skipn_add.
  rewrite xor_bytes_app; [reflexivity|].
  rewrite firstn_length, skipn_length. subst n1. lia.
Qed.

Theorem icm_run_ok : forall chunks c ctr0 pos c' out,
  wf c ctr0 pos -> icm_run c chunks = (st_ok, c', out) ->
  out = xor_bytes (concat chunks)
          (slice (zn pos) (length (concat chunks))
                 (ctr_keystream ctr0 (zn pos + length (concat chunks)))) /\
  wf c' ctr0 (pos + lenZ (concat chunks)) /\ i_off c' = i_off c /\
  (pos + lenZ (concat chunks) = 0 -> i_buf c' = i_buf c).
Proof.
  induction chunks as [|d rest IH]; intros c ctr0 pos c' out Hwf Hrun.
  - cbn [icm_run] in Hrun. inversion Hrun; subst c' out. cbn [concat].
    replace (pos + lenZ (@nil N)) with pos by (unfold lenZ; cbn [length]; lia).
    split; [reflexivity|]. split; [exact Hwf|]. split; reflexivity.
  - cbn [icm_run] in Hrun.
    destruct (icm_refuses c (lenZ d)) eqn:Href.
    + rewrite (icm_encrypt_refused c d Href) in Hrun.
      change (st_terminus =? st_ok) with false in Hrun. cbv iota in Hrun. discriminate Hrun.
    + destruct (icm_encrypt_ok c ctr0 pos d Hwf Href) as (c1 & Heq & Hwf1 & Hoff1 & Hbuf1).
      rewrite Heq in Hrun. change (st_ok =? st_ok) with true in Hrun. cbv iota in Hrun.
      destruct (icm_run c1 rest) as [[s2 c2] o2] eqn:Hrest.
      inversion Hrun; subst s2 c2 out. clear Hrun.
      destruct (IH c1 ctr0 (pos + lenZ d) c' o2 Hwf1 Hrest) as (Ho2 & Hwf2 & Hoff2 & Hbuf2).
      pose proof (wf_pos _ _ _ Hwf) as Hpos. pose proof (wf_ctr0 _ _ _ Hwf) as Hlen.
      assert (Hz : zn (pos + lenZ d) = (zn pos + length d)%nat) by (unfold zn, lenZ; lia).
      assert (Hl : pos + lenZ d + lenZ (concat rest) = pos + lenZ (concat (d :: rest)))
        by (cbn [concat]; unfold lenZ; rewrite app_length; lia).
      rewrite Hz in Ho2. rewrite Hl in Hwf2, Hbuf2.
      split; [|split; [|split]].
      * rewrite Ho2. cbn [concat]. apply xor_window_app. exact Hlen.
      * exact Hwf2.
      * congruence.
      * intros H0. rewrite (Hbuf2 H0). apply Hbuf1. unfold lenZ in *. lia.
Qed.

Lemma in_range_mono : forall ctr0 p q, p <= q -> in_range ctr0 q -> in_range ctr0 p.
Proof. clear E_len. clear E. intros ctr0 p q Hpq. unfold in_range, blocks_of. lia. Qed.

(* a run succeeds exactly when the whole segment stays within block index 65535 *)
Theorem icm_run_status : forall chunks c ctr0 pos,
  wf c ctr0 pos -> in_range ctr0 pos -> lenZ (concat chunks) + 15 < 18446744073709551616 ->
  fst (fst (icm_run c chunks)) =
    (if Z_le_dec (ctr_low ctr0 + blocks_of (pos + lenZ (concat chunks))) 65535
     then st_ok else st_terminus).
Proof.
  induction chunks as [|d rest IH]; intros c ctr0 pos Hwf Hr Hn.
  - cbn [icm_run concat fst].
    replace (pos + lenZ (@nil N)) with pos by (unfold lenZ; cbn [length]; lia).
    destruct (Z_le_dec (ctr_low ctr0 + blocks_of pos) 65535) as [_|Hne]; [reflexivity|].
    exfalso. apply Hne. exact Hr.
  - cbn [icm_run].
    assert (Hsplit : lenZ (concat (d :: rest)) = lenZ d + lenZ (concat rest))
      by (cbn [concat]; unfold lenZ; rewrite app_length; lia).
    assert (Hd0 : 0 <= lenZ d) by (unfold lenZ; lia).
    assert (Hr0 : 0 <= lenZ (concat rest)) by (unfold lenZ; lia).
    assert (Hdn : lenZ d + 15 < 18446744073709551616) by lia.
    pose proof (icm_accepts_in_range c ctr0 pos (lenZ d) Hwf Hr Hd0 Hdn) as Hacc.
    rewrite Hsplit, Z.add_assoc.
    destruct (icm_refuses c (lenZ d)) eqn:Href.
    + rewrite (icm_encrypt_refused c d Href).
      change (st_terminus =? st_ok) with false. cbv iota. cbn [fst].
      destruct (Z_le_dec (ctr_low ctr0 + blocks_of (pos + lenZ d + lenZ (concat rest))) 65535)
        as [Hle|_]; [|reflexivity].
      exfalso. assert (Hf : true = false); [|discriminate Hf].
      apply Hacc. apply (in_range_mono ctr0 _ (pos + lenZ d + lenZ (concat rest))); [lia|exact Hle].
    + destruct (icm_encrypt_ok c ctr0 pos d Hwf Href) as (c1 & Heq & Hwf1 & _).
      rewrite Heq. change (st_ok =? st_ok) with true. cbv iota.
      assert (Hr1 : in_range ctr0 (pos + lenZ d)) by (apply Hacc; reflexivity).
      assert (Hn1 : lenZ (concat rest) + 15 < 18446744073709551616) by lia.
      specialize (IH c1 ctr0 (pos + lenZ d) Hwf1 Hr1 Hn1).
      destruct (icm_run c1 rest) as [[s2 c2] o2]. cbn [fst] in *. exact IH.
Qed.

(* a well-formed state is determined by (offset, ctr0, pos) and, at pos = 0, the
   stale buffer *)
Lemma wf_unique : forall c1 c2 ctr0 pos, wf c1 ctr0 pos -> wf c2 ctr0 pos ->
  i_off c1 = i_off c2 -> (pos = 0 -> i_buf c1 = i_buf c2) -> c1 = c2.
Proof. clear E_len.
  intros [o1 t1 b1 n1] [o2 t2 b2 n2] ctr0 pos
         [Hpos _ Hctr1 Hin1 _ Hbuf1] [_ _ Hctr2 Hin2 _ Hbuf2] Hoff Hb0.
  cbn [i_off i_ctr i_buf i_in] in *. f_equal.
  - exact Hoff.
  - congruence.
  - destruct (Z.eq_dec pos 0) as [H0|Hn0]; [exact (Hb0 H0)|].
    rewrite Hbuf1, Hbuf2 by lia. reflexivity.
  - congruence.
Qed.

(* the chunked run and the single call on the concatenation agree completely
   (status, final state, output) whenever either of them succeeds *)
Theorem icm_chunking_independent : forall chunks c ctr0 pos,
  wf c ctr0 pos -> in_range ctr0 pos -> lenZ (concat chunks) + 15 < 18446744073709551616 ->
  fst (fst (icm_run c chunks)) = st_ok \/ fst (fst (icm_encrypt E c (concat chunks))) = st_ok ->
  icm_run c chunks = icm_encrypt E c (concat chunks).
Proof.
  intros chunks c ctr0 pos Hwf Hr Hn Hok.
  assert (Hn0 : 0 <= lenZ (concat chunks)) by (unfold lenZ; lia).
  pose proof (icm_accepts_in_range c ctr0 pos _ Hwf Hr Hn0 Hn) as Hacc.
  pose proof (icm_run_status chunks c ctr0 pos Hwf Hr Hn) as Hst.
  assert (Hfinal : in_range ctr0 (pos + lenZ (concat chunks))).
  { destruct Hok as [Hok|Hok].
    - rewrite Hok in Hst.
      destruct (Z_le_dec (ctr_low ctr0 + blocks_of (pos + lenZ (concat chunks))) 65535) as [Hle|_];
        [exact Hle | discriminate Hst].
    - rewrite icm_encrypt_status in Hok. apply Hacc.
      destruct (icm_refuses c (lenZ (concat chunks))); [discriminate Hok | reflexivity]. }
  assert (Href : icm_refuses c (lenZ (concat chunks)) = false) by (apply Hacc; exact Hfinal).
  destruct (icm_encrypt_ok c ctr0 pos _ Hwf Href) as (c1 & Heq & Hwf1 & Hoff1 & Hbuf1).
  rewrite Heq.
  destruct (Z_le_dec (ctr_low ctr0 + blocks_of (pos + lenZ (concat chunks))) 65535) as [_|Hne];
    [|exfalso; apply Hne; exact Hfinal].
  destruct (icm_run c chunks) as [[s2 c2] o2] eqn:Hrun. cbn [fst] in Hst. subst s2.
  destruct (icm_run_ok chunks c ctr0 pos c2 o2 Hwf Hrun) as (Ho2 & Hwf2 & Hoff2 & Hbuf2).
  f_equal; [f_equal|].
  - apply (wf_unique c2 c1 ctr0 _ Hwf2 Hwf1); [congruence|].
    intros H0. rewrite (Hbuf2 H0), (Hbuf1 H0). reflexivity.
  - exact Ho2.
Qed.

(* ---- starting point: icm_set_iv ---- *)
Lemma wf_set_iv : forall c iv, length (i_off c) = 16%nat -> length (i_buf c) = 16%nat ->
  wf (icm_set_iv c iv) (i_ctr (icm_set_iv c iv)) 0.
Proof. clear E_len.
  intros c iv Hoff Hbuf. constructor; cbn [icm_set_iv i_off i_ctr i_buf i_in].
  - lia.
  - rewrite xor_bytes_length. exact Hoff.
  - reflexivity.
  - reflexivity.
  - exact Hbuf.
  - intros H. lia.
Qed.

Lemma icm_init_lengths : forall salt,
  length (i_off (icm_init salt)) = 16%nat /\ length (i_buf (icm_init salt)) = 16%nat.
Proof. clear E_len. clear E.
  intros salt. unfold icm_init. cbn [i_off i_buf]. split.
  - rewrite app_length, take_firstn, firstn_length, app_length. unfold zeros.
    rewrite repeat_length. cbn [length]. lia.
  - unfold zeros. apply repeat_length.
Qed.

Lemma slice0_keystream : forall ctr0 n, slice 0 n (ctr_keystream ctr0 (0 + n)) = ctr_keystream ctr0 n.
Proof.
  intros ctr0 n. rewrite slice_firstn_skipn. cbn [skipn Nat.add].
  apply firstn_all2. rewrite ctr_keystream_length. lia.
Qed.

(* C18.4 as stated: right after set_iv, any chunking that is not refused produces the
   counter-mode encryption of the concatenation *)
Theorem icm_chunks_after_set_iv : forall c iv chunks c' out,
  length (i_off c) = 16%nat -> length (i_buf c) = 16%nat ->
  icm_run (icm_set_iv c iv) chunks = (st_ok, c', out) ->
  out = xor_bytes (concat chunks)
          (ctr_keystream (i_ctr (icm_set_iv c iv)) (length (concat chunks))).
Proof.
  intros c iv chunks c' out Hoff Hbuf Hrun.
  destruct (icm_run_ok chunks _ _ 0 c' out (wf_set_iv c iv Hoff Hbuf) Hrun) as (Hout & _).
  change (zn 0) with O in Hout. rewrite slice0_keystream in Hout. exact Hout.
Qed.

Theorem icm_oneshot_after_set_iv : forall c iv data,
  length (i_off c) = 16%nat -> length (i_buf c) = 16%nat ->
  icm_refuses (icm_set_iv c iv) (lenZ data) = false ->
  snd (icm_encrypt E (icm_set_iv c iv) data) =
  xor_bytes data (ctr_keystream (i_ctr (icm_set_iv c iv)) (length data)).
Proof.
  intros c iv data Hoff Hbuf Href.
  destruct (icm_encrypt_ok _ _ 0 data (wf_set_iv c iv Hoff Hbuf) Href) as (c1 & Heq & _).
  rewrite Heq. cbn [snd]. change (zn 0) with O. rewrite slice0_keystream. reflexivity.
Qed.

End ICM_PROOFS.

Print Assumptions icm_encrypt_ok.
Print Assumptions icm_run_ok.
Print Assumptions icm_run_status.
Print Assumptions icm_chunking_independent.
Print Assumptions icm_chunks_after_set_iv.
Print Assumptions icm_encrypt_refused.
Print Assumptions icm_refuses_iff.
Print Assumptions icm_terminus_srtp.
Print Assumptions new_blocks_wrap.
Print Assumptions icm_buffered_never_refused.

(* ================================================================== *)
(* SRTP use: offset = salt || 00 00, so the block index starts at the  *)
(* last two octets of the IV (zero for every SRTP/SRTCP IV)            *)
(* ================================================================== *)
Lemma ctr_low_set_iv_init : forall salt iv,
  ctr_low (i_ctr (icm_set_iv (icm_init salt) iv)) = be16 (take 16 (iv ++ zeros 16)) 14.
Proof.
  intros salt iv. cbn [icm_set_iv icm_init i_off i_ctr].
  set (A := take 14 (salt ++ zeros 14)). set (IV := take 16 (iv ++ zeros 16)).
  assert (HA : length A = 14%nat).
  { subst A. rewrite take_firstn, firstn_length, app_length. unfold zeros. rewrite repeat_length. lia. }
  assert (HIV : length IV = 16%nat).
  { subst IV. rewrite take_firstn, firstn_length, app_length. unfold zeros. rewrite repeat_length. lia. }
  unfold ctr_low, be16. rewrite !slice_firstn_skipn.
  rewrite <- (firstn_skipn 14 IV) at 1.
  rewrite xor_bytes_app by (rewrite firstn_length; lia).
  replace 14%nat with (length (xor_bytes A (firstn 14 IV)) + 0)%nat at 1
    by (rewrite xor_bytes_length; lia).
  rewrite skipn_app_ge. rewrite skipn_O.
  assert (HT : length (skipn 14 IV) = 2%nat) by (rewrite skipn_length; lia).
  destruct (skipn 14 IV) as [|a [|b [|x T]]]; try discriminate HT.
  cbn [xor_bytes]. rewrite !N.lxor_0_l. reflexivity.
Qed.

(* ================================================================== *)
(* instance: AES                                                       *)
(* ================================================================== *)
Theorem aes_icm_encrypt_ok : forall rks c ctr0 pos data,
  wf (aes_encrypt_rk rks) c ctr0 pos -> icm_refuses c (lenZ data) = false ->
  exists c',
    icm_encrypt (aes_encrypt_rk rks) c data =
      (st_ok, c', xor_bytes data (slice (zn pos) (length data)
                   (ctr_keystream (aes_encrypt_rk rks) ctr0 (zn pos + length data)))) /\
    wf (aes_encrypt_rk rks) c' ctr0 (pos + lenZ data) /\ i_off c' = i_off c /\
    (pos + lenZ data = 0 -> i_buf c' = i_buf c).
Proof. intros rks. apply icm_encrypt_ok. apply aes_encrypt_rk_length. Qed.

Theorem aes_icm_chunking_independent : forall rks chunks c ctr0 pos,
  wf (aes_encrypt_rk rks) c ctr0 pos -> in_range ctr0 pos ->
  lenZ (concat chunks) + 15 < 18446744073709551616 ->
  fst (fst (icm_run (aes_encrypt_rk rks) c chunks)) = st_ok \/
  fst (fst (icm_encrypt (aes_encrypt_rk rks) c (concat chunks))) = st_ok ->
  icm_run (aes_encrypt_rk rks) c chunks = icm_encrypt (aes_encrypt_rk rks) c (concat chunks).
Proof. intros rks. apply icm_chunking_independent. apply aes_encrypt_rk_length. Qed.

Theorem aes_icm_terminus_srtp : forall rks c ctr0 pos data,
  wf (aes_encrypt_rk rks) c ctr0 pos ->
  ctr_low ctr0 = 0 -> pos <= 1048560 -> lenZ data + 15 < 18446744073709551616 ->
  (fst (fst (icm_encrypt (aes_encrypt_rk rks) c data)) = st_terminus <-> 1048560 < pos + lenZ data) /\
  (1048560 < pos + lenZ data -> icm_encrypt (aes_encrypt_rk rks) c data = (st_terminus, c, [])).
Proof. intros rks. apply icm_terminus_srtp. Qed.

(* the cipher object srtp.c uses: srtp_cipher_set_iv followed by one srtp_cipher_encrypt *)
Theorem cipher_encrypt_after_start : forall k iv data,
  is_icm_alg (ck_alg k) = true ->
  icm_refuses (icm_set_iv (icm_init (ck_salt k)) iv) (lenZ data) = false ->
  exists c',
    cipher_encrypt (cipher_start k iv) data =
      (st_ok, CSIcm (ck_rks k) c',
       xor_bytes data (ctr_keystream (aes_encrypt_rk (ck_rks k))
                         (i_ctr (icm_set_iv (icm_init (ck_salt k)) iv)) (length data))).
Proof.
  intros k iv data Halg Href. unfold cipher_start. rewrite Halg. cbn [cipher_encrypt].
  destruct (icm_init_lengths (ck_salt k)) as [Hoff Hbuf].
  pose proof (wf_set_iv (aes_encrypt_rk (ck_rks k)) (icm_init (ck_salt k)) iv Hoff Hbuf) as Hwf.
  destruct (icm_encrypt_ok _ (aes_encrypt_rk_length (ck_rks k)) _ _ 0 data Hwf Href)
    as (c1 & Heq & _).
  rewrite Heq. exists c1. change (zn 0) with O.
  rewrite slice0_keystream by apply aes_encrypt_rk_length. reflexivity.
Qed.

Print Assumptions aes_icm_encrypt_ok.
Print Assumptions aes_icm_chunking_independent.
Print Assumptions aes_icm_terminus_srtp.
Print Assumptions cipher_encrypt_after_start.

(* ================================================================== *)
(* non-vacuity                                                         *)
(* ================================================================== *)
Definition toyE (b : bytes) : bytes := map (N.lxor 0xA5) (take 16 (b ++ zeros 16)).

Lemma toyE_len : forall b, length (toyE b) = 16%nat.
Proof.
  intros b. unfold toyE. rewrite map_length, take_firstn, firstn_length, app_length.
  unfold zeros. rewrite repeat_length. lia.
Qed.

Definition iota (n : nat) (s : N) : bytes := map (fun i => (N.of_nat i * 7 + s) mod 256)%N (seq 0 n).
Definition ex_salt : bytes := iota 14 3.
Definition ex_iv (lo : N) : bytes := iota 14 101 ++ be_bytes 2 lo.
Definition ex_c0 (lo : N) : icm := icm_set_iv (icm_init ex_salt) (ex_iv lo).
Definition ex_data : bytes := iota 40 17.

(* the start state is well-formed, with block index = last two IV octets *)
Example ex_wf : forall lo, wf toyE (ex_c0 lo) (i_ctr (ex_c0 lo)) 0.
Proof.
  intros lo. apply wf_set_iv; apply (icm_init_lengths ex_salt).
Qed.
Example ex_ctr_low0 : ctr_low (i_ctr (ex_c0 0)) = 0.
Proof. vm_compute. reflexivity. Qed.

(* 40 bytes in chunks of 3, 13, 1, 23 = one call on 40 bytes = counter mode *)
Example ex_chunks :
  icm_run toyE (ex_c0 0) [slice 0 3 ex_data; slice 3 13 ex_data; slice 16 1 ex_data; slice 17 23 ex_data]
  = icm_encrypt toyE (ex_c0 0) ex_data.
Proof. vm_compute. reflexivity. Qed.

Example ex_oneshot :
  icm_encrypt toyE (ex_c0 0) ex_data =
  (st_ok,
   {| i_off := i_off (ex_c0 0); i_ctr := ctr_add (i_ctr (ex_c0 0)) 3;
      i_buf := toyE (ctr_add (i_ctr (ex_c0 0)) 2); i_in := 8 |},
   xor_bytes ex_data (ctr_keystream toyE (i_ctr (ex_c0 0)) 40)).
Proof. vm_compute. reflexivity. Qed.

(* the output is not trivially the input, and chunk outputs are not all empty *)
Example ex_nontrivial : snd (icm_encrypt toyE (ex_c0 0) ex_data) <> ex_data.
Proof. vm_compute. intros H. discriminate H. Qed.

(* other splittings, including empty chunks and a 16-aligned one *)
Example ex_chunks2 :
  icm_run toyE (ex_c0 0) [[]; slice 0 16 ex_data; []; slice 16 16 ex_data; slice 32 8 ex_data]
  = icm_encrypt toyE (ex_c0 0) ex_data.
Proof. vm_compute. reflexivity. Qed.

Example ex_chunks_bytewise :
  icm_run toyE (ex_c0 0) (map (fun b => [b]) ex_data) = icm_encrypt toyE (ex_c0 0) ex_data.
Proof. vm_compute. reflexivity. Qed.

(* terminus, with the block index started at 65534 through the IV *)
Example ex_term_16_ok : fst (fst (icm_encrypt toyE (ex_c0 65534) (iota 16 0))) = st_ok.
Proof. vm_compute. reflexivity. Qed.
Example ex_term_17_refused :
  icm_encrypt toyE (ex_c0 65534) (iota 17 0) = (st_terminus, ex_c0 65534, []).
Proof. vm_compute. reflexivity. Qed.
(* 3 bytes consume block 65534 (index becomes 65535, 13 bytes buffered); a 1-byte call
   is then served from the buffer although bytes_to_encr - bytes_in_buffer wraps;
   13 more bytes are still fine, 14 are refused and leave the state alone *)
Example ex_term_buffered :
  let c1 := snd (fst (icm_encrypt toyE (ex_c0 65534) (iota 3 0))) in
  ctr_low (i_ctr c1) = 65535 /\ i_in c1 = 13 /\
  icm_refuses c1 1 = false /\ icm_refuses c1 13 = false /\ icm_refuses c1 14 = true /\
  icm_encrypt toyE c1 (iota 14 0) = (st_terminus, c1, []) /\
  icm_run toyE (ex_c0 65534) [iota 3 0; iota 13 9] =
  icm_encrypt toyE (ex_c0 65534) (iota 3 0 ++ iota 13 9).
Proof. vm_compute. repeat split; reflexivity. Qed.
(* a refused chunk in the middle: earlier output is kept, state stays at the refusal point *)
Example ex_term_run :
  icm_run toyE (ex_c0 65534) [iota 3 0; iota 14 0; iota 1 0] =
  (st_terminus, snd (fst (icm_encrypt toyE (ex_c0 65534) (iota 3 0))),
   snd (icm_encrypt toyE (ex_c0 65534) (iota 3 0))).
Proof. vm_compute. reflexivity. Qed.

(* the block counter is 16 bits wide with no carry into octet 13 *)
Example ex_ctr_wrap :
  ctr_add (zeros 13 ++ [7; 255; 255]%N) 1 = zeros 13 ++ [7; 0; 0]%N.
Proof. vm_compute. reflexivity. Qed.
(* why wf uses ctr_at: the model does not force list elements to be octets *)
Example ex_ctr_add_0_nonoctet : ctr_add (repeat 300%N 16) 0 <> repeat 300%N 16.
Proof. vm_compute. intros H. discriminate H. Qed.
