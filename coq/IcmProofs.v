(* IcmProofs.v — property C18: the AES-ICM state machine of Icm.v
   (model of crypto/cipher/aes_icm.c) produces plain counter mode for every
   length, independently of how the data is split across encrypt calls, and
   refuses to run past block index 65535 of one IV.  Proofs only; the model is
   Srtp.Icm. *)
From Coq Require Import NArith ZArith List Bool Lia ZifyBool ZifyN ZifyNat.
From Srtp Require Import Util Constants Icm.
From Srtp.Crypto Require Import AES.
Import ListNotations.
Local Open Scope Z_scope.

Ltac Zify.zify_post_hook ::= Z.div_mod_to_equations.

(* ------------------------------------------------------------------ *)
(* take / drop / slice are firstn / skipn                              *)
(* ------------------------------------------------------------------ *)

Lemma take_firstn : forall A n (l : list A), take n l = firstn n l.
Proof.
  intros A n. induction n as [|n IHn]; intros [|x l]; cbn [take firstn]; try reflexivity.
  rewrite IHn. reflexivity.
Qed.

Lemma drop_skipn : forall A n (l : list A), drop n l = skipn n l.
Proof.
  intros A n. induction n as [|n IHn]; intros [|x l]; cbn [drop skipn]; try reflexivity.
  apply IHn.
Qed.

Lemma slice_firstn_skipn : forall A off n (l : list A), slice off n l = firstn n (skipn off l).
Proof. intros A off n l. unfold slice. rewrite take_firstn, drop_skipn. reflexivity. Qed.

Lemma skipn_app_ge : forall A (a b : list A) m, skipn (length a + m) (a ++ b) = skipn m b.
Proof.
  intros A a b m. rewrite skipn_app.
  rewrite skipn_all2 by lia.
  replace (length a + m - length a)%nat with m by lia. reflexivity.
Qed.

Lemma skipn_app_le : forall A (a b : list A) m, (m <= length a)%nat -> skipn m (a ++ b) = skipn m a ++ b.
Proof.
  intros A a b m Hm. rewrite skipn_app.
  replace (m - length a)%nat with O by lia. reflexivity.
Qed.

Lemma firstn_app_le : forall A (a b : list A) m, (m <= length a)%nat -> firstn m (a ++ b) = firstn m a.
Proof.
  intros A a b m Hm. rewrite firstn_app.
  replace (m - length a)%nat with O by lia. cbn [firstn]. apply app_nil_r.
Qed.

Lemma firstn_add : forall A (l : list A) a b, firstn (a + b) l = firstn a l ++ firstn b (skipn a l).
Proof.
  intros A l a. revert l. induction a as [|a IHa]; intros l b.
  - reflexivity.
  - destruct l as [|x l].
    + cbn [Nat.add firstn skipn]. rewrite firstn_nil. reflexivity.
    + cbn [Nat.add firstn skipn app]. rewrite IHa. reflexivity.
Qed.

Lemma skipn_add : forall A (l : list A) a b, skipn (a + b) l = skipn b (skipn a l).
Proof.
  intros A l a. revert l. induction a as [|a IHa]; intros l b.
  - reflexivity.
  - destruct l as [|x l].
    + cbn [Nat.add skipn]. rewrite skipn_nil. reflexivity.
    + cbn [Nat.add skipn]. apply IHa.
Qed.

(* a window of a prefix is the window of the whole list *)
Lemma window_of_prefix : forall A (l : list A) p n m, (p + n <= m)%nat ->
  firstn n (skipn p (firstn m l)) = firstn n (skipn p l).
Proof.
  intros A l p n m Hm.
  rewrite skipn_firstn_comm, firstn_firstn.
  replace (Nat.min n (m - p)) with n by lia. reflexivity.
Qed.

Lemma length_concat16 : forall (bl : list bytes),
  Forall (fun b => length b = 16%nat) bl -> length (concat bl) = (16 * length bl)%nat.
Proof.
  intros bl Hbl. induction Hbl as [|b bl Hb Hbl IH].
  - reflexivity.
  - cbn [concat length]. rewrite app_length, IH, Hb. lia.
Qed.

(* ------------------------------------------------------------------ *)
(* the 16-bit big-endian block counter                                 *)
(* ------------------------------------------------------------------ *)

Lemma be_val_be2 : forall x, be_val (be_bytes 2 x) = (x mod 65536)%N.
Proof.
  intros x.
  change (be_bytes 2 x) with [N.land (N.shiftr x 8) 255; N.land x 255].
  cbn [be_val length].
  change (256 ^ N.of_nat 1)%N with 256%N. change (256 ^ N.of_nat 0)%N with 1%N.
  change 255%N with (N.ones 8). rewrite !N.land_ones, N.shiftr_div_pow2.
  change (2 ^ 8)%N with 256%N. lia.
Qed.

Lemma ctr_low_range : forall ctr, 0 <= ctr_low ctr.
Proof. intros ctr. unfold ctr_low, be16. lia. Qed.

Lemma ctr_add_length : forall ctr j, length ctr = 16%nat -> length (ctr_add ctr j) = 16%nat.
Proof.
  intros ctr j Hlen. unfold ctr_add.
  rewrite app_length, take_firstn, firstn_length, be_bytes_length. lia.
Qed.

Lemma ctr_low_ctr_add : forall ctr j, length ctr = 16%nat ->
  ctr_low (ctr_add ctr j) = (ctr_low ctr + j) mod 65536.
Proof.
  intros ctr j Hlen. unfold ctr_add at 1. unfold ctr_low at 1. unfold be16.
  rewrite slice_firstn_skipn, take_firstn.
  assert (Hl14 : length (firstn 14 ctr) = 14%nat) by (rewrite firstn_length; lia).
  replace 14%nat with (length (firstn 14 ctr) + 0)%nat at 1 by lia.
  rewrite skipn_app_ge. cbn [skipn].
  rewrite firstn_all2 by (rewrite be_bytes_length; lia).
  rewrite be_val_be2.
  set (s := ctr_low ctr + j). clearbody s. lia.
Qed.

Lemma take14_ctr_add : forall ctr j, length ctr = 16%nat -> take 14 (ctr_add ctr j) = take 14 ctr.
Proof.
  intros ctr j Hlen. unfold ctr_add. rewrite !take_firstn.
  assert (Hl14 : length (firstn 14 ctr) = 14%nat) by (rewrite firstn_length; lia).
  rewrite firstn_app_le by lia. rewrite firstn_firstn. reflexivity.
Qed.

Lemma ctr_add_add : forall ctr a b, length ctr = 16%nat ->
  ctr_add (ctr_add ctr a) b = ctr_add ctr (a + b).
Proof.
  intros ctr a b Hlen. unfold ctr_add at 1.
  rewrite take14_ctr_add by exact Hlen. rewrite ctr_low_ctr_add by exact Hlen.
  unfold ctr_add. do 3 f_equal.
  set (l := ctr_low ctr). clearbody l. lia.
Qed.

(* ctr_add ctr 0 = ctr holds only for a counter whose last two octets really
   are octets; the model does not constrain list elements to < 256 *)
Lemma ctr_add_0 : forall ctr, length ctr = 16%nat ->
  Forall (fun b => (b < 256)%N) ctr -> ctr_add ctr 0 = ctr.
Proof.
  intros ctr Hlen Hb.
  do 16 (destruct ctr as [|? ctr]; [discriminate Hlen|]).
  destruct ctr; [|discriminate Hlen].
  repeat match goal with H : Forall _ (_ :: _) |- _ => inversion H; clear H; subst end.
  unfold ctr_add, ctr_low, be16, slice. cbn [take drop app].
  do 14 f_equal.
  match goal with |- be_bytes 2 ?x = _ => set (v := x) end.
  change (be_bytes 2 v) with [N.land (N.shiftr v 8) 255; N.land v 255].
  change 255%N with (N.ones 8). rewrite !N.land_ones, N.shiftr_div_pow2.
  change (2 ^ 8)%N with 256%N.
  subst v. cbn [be_val length].
  change (256 ^ N.of_nat 1)%N with 256%N. change (256 ^ N.of_nat 0)%N with 1%N.
  f_equal; [|f_equal]; lia.
Qed.
