(* IcmProofs.v — property C18: the AES-ICM state machine of Icm.v
   (model of crypto/cipher/aes_icm.c) produces plain counter mode for every
   length, independently of how the data is split across encrypt calls, and
   refuses to run past block index 65535 of one IV.  Proofs only; the model is
   Srtp.Icm. *)
From Coq Require Import NArith ZArith List Bool Lia ZifyBool ZifyN ZifyNat.
From Srtp Require Import Util Constants Icm.
From Srtp.Crypto Require Import AES.
Import ListNotations.
Local Open Scope Z_scope.

Ltac Zify.zify_post_hook ::= Z.div_mod_to_equations.

(* ------------------------------------------------------------------ *)
(* take / drop / slice are firstn / skipn                              *)
(* ------------------------------------------------------------------ *)

Lemma take_firstn : forall A n (l : list A), take n l = firstn n l.
Proof.
  intros A n. induction n as [|n IHn]; intros [|x l]; cbn [take firstn]; try reflexivity.
  rewrite IHn. reflexivity.
Qed.

Lemma drop_skipn : forall A n (l : list A), drop n l = skipn n l.
Proof.
  intros A n. induction n as [|n IHn]; intros [|x l]; cbn [drop skipn]; try reflexivity.
  apply IHn.
Qed.

Lemma slice_firstn_skipn : forall A off n (l : list A), slice off n l = firstn n (skipn off l).
Proof. intros A off n l. unfold slice. rewrite take_firstn, drop_skipn. reflexivity. Qed.

Lemma skipn_app_ge : forall A (a b : list A) m, skipn (length a + m) (a ++ b) = skipn m b.
Proof.
  intros A a b m. rewrite skipn_app.
  rewrite skipn_all2 by lia.
  replace (length a + m - length a)%nat with m by lia. reflexivity.
Qed.

Lemma skipn_app_le : forall A (a b : list A) m, (m <= length a)%nat -> skipn m (a ++ b) = skipn m a ++ b.
Proof.
  intros A a b m Hm. rewrite skipn_app.
  replace (m - length a)%nat with O by lia. reflexivity.
Qed.

Lemma firstn_app_le : forall A (a b : list A) m, (m <= length a)%nat -> firstn m (a ++ b) = firstn m a.
Proof.
  intros A a b m Hm. rewrite firstn_app.
  replace (m - length a)%nat with O by lia. cbn [firstn]. apply app_nil_r.
Qed.

Lemma firstn_add : forall A (l : list A) a b, firstn (a + b) l = firstn a l ++ firstn b (skipn a l).
Proof.
  intros A l a. revert l. induction a as [|a IHa]; intros l b.
  - reflexivity.
  - destruct l as [|x l].
    + cbn [Nat.add firstn skipn]. rewrite firstn_nil. reflexivity.
    + cbn [Nat.add firstn skipn app]. rewrite IHa. reflexivity.
Qed.

Lemma skipn_add : forall A (l : list A) a b, skipn (a + b) l = skipn b (skipn a l).
Proof.
  intros A l a. revert l. induction a as [|a IHa]; intros l b.
  - reflexivity.
  - destruct l as [|x l].
    + cbn [Nat.add skipn]. rewrite skipn_nil. reflexivity.
    + cbn [Nat.add skipn]. apply IHa.
Qed.

(* a window of a prefix is the window of the whole list *)
Lemma window_of_prefix : forall A (l : list A) p n m, (p + n <= m)%nat ->
  firstn n (skipn p (firstn m l)) = firstn n (skipn p l).
Proof.
  intros A l p n m Hm.
  rewrite skipn_firstn_comm, firstn_firstn.
  replace (Nat.min n (m - p)) with n by lia. reflexivity.
Qed.

Lemma length_concat16 : forall (bl : list bytes),
  Forall (fun b => length b = 16%nat) bl -> length (concat bl) = (16 * length bl)%nat.
Proof.
  intros bl Hbl. induction Hbl as [|b bl Hb Hbl IH].
  - reflexivity.
  - cbn [concat length]. rewrite app_length, IH, Hb. lia.
Qed.

(* ------------------------------------------------------------------ *)
(* the 16-bit big-endian block counter                                 *)
(* ------------------------------------------------------------------ *)

Lemma be_val_be2 : forall x, be_val (be_bytes 2 x) = (x mod 65536)%N.
Proof.
  intros x.
  change (be_bytes 2 x) with [N.land (N.shiftr x 8) 255; N.land x 255].
  cbn [be_val length].
  change (256 ^ N.of_nat 1)%N with 256%N. change (256 ^ N.of_nat 0)%N with 1%N.
  change 255%N with (N.ones 8). rewrite !N.land_ones, N.shiftr_div_pow2.
  change (2 ^ 8)%N with 256%N. lia.
Qed.

Lemma ctr_low_range : forall ctr, 0 <= ctr_low ctr.
Proof. intros ctr. unfold ctr_low, be16. lia. Qed.

Lemma ctr_add_length : forall ctr j, length ctr = 16%nat -> length (ctr_add ctr j) = 16%nat.
Proof.
  intros ctr j Hlen. unfold ctr_add.
  rewrite app_length, take_firstn, firstn_length, be_bytes_length. lia.
Qed.

Lemma ctr_low_ctr_add : forall ctr j, length ctr = 16%nat ->
  ctr_low (ctr_add ctr j) = (ctr_low ctr + j) mod 65536.
Proof.
  intros ctr j Hlen. unfold ctr_add at 1. unfold ctr_low at 1. unfold be16.
  rewrite slice_firstn_skipn, take_firstn.
  assert (Hl14 : length (firstn 14 ctr) = 14%nat) by (rewrite firstn_length; lia).
  replace 14%nat with (length (firstn 14 ctr) + 0)%nat at 1 by lia.
  rewrite skipn_app_ge. cbn [skipn].
  rewrite firstn_all2 by (rewrite be_bytes_length; lia).
  rewrite be_val_be2.
  set (s := ctr_low ctr + j). clearbody s. lia.
Qed.

Lemma take14_ctr_add : forall ctr j, length ctr = 16%nat -> take 14 (ctr_add ctr j) = take 14 ctr.
Proof.
  intros ctr j Hlen. unfold ctr_add. rewrite !take_firstn.
  assert (Hl14 : length (firstn 14 ctr) = 14%nat) by (rewrite firstn_length; lia).
  rewrite firstn_app_le by lia. rewrite firstn_firstn. reflexivity.
Qed.

Lemma ctr_add_add : forall ctr a b, length ctr = 16%nat ->
  ctr_add (ctr_add ctr a) b = ctr_add ctr (a + b).
Proof.
  intros ctr a b Hlen. unfold ctr_add at 1.
  rewrite take14_ctr_add by exact Hlen. rewrite ctr_low_ctr_add by exact Hlen.
  unfold ctr_add. do 3 f_equal.
  set (l := ctr_low ctr). clearbody l. lia.
Qed.

(* ctr_add ctr 0 = ctr holds only for a counter whose last two octets really
   are octets; the model does not constrain list elements to < 256 *)
Lemma ctr_add_0 : forall ctr, length ctr = 16%nat ->
  Forall (fun b => (b < 256)%N) ctr -> ctr_add ctr 0 = ctr.
Proof.
  intros ctr Hlen Hb.
  do 16 (destruct ctr as [|? ctr]; [discriminate Hlen|]).
  destruct ctr; [|discriminate Hlen].
  repeat match goal with H : Forall _ (_ :: _) |- _ => inversion H; clear H; subst end.
  unfold ctr_add, ctr_low, be16, slice. cbn [take drop app].
  do 14 f_equal.
  match goal with |- be_bytes 2 ?x = _ => set (v := x) end.
  change (be_bytes 2 v) with [N.land (N.shiftr v 8) 255; N.land v 255].
  change 255%N with (N.ones 8). rewrite !N.land_ones, N.shiftr_div_pow2.
  change (2 ^ 8)%N with 256%N.
  subst v. cbn [be_val length].
  change (256 ^ N.of_nat 1)%N with 256%N. change (256 ^ N.of_nat 0)%N with 1%N.
  f_equal; [|f_equal]; lia.
Qed.

(* ================================================================== *)
Section ICM_PROOFS.
Variable E : bytes -> bytes.                         (* one block under the expanded key *)
Hypothesis E_len : forall b, length (E b) = 16%nat.

(* ceil(p/16): number of keystream blocks touched by the first p bytes *)
Definition blocks_of (p : Z) : Z := (p + 15) / 16.

(* the counter of block k of the segment that starts at ctr0.  (ctr_add ctr0 0 is
   ctr0 only when the last two elements of ctr0 are octets, see ctr_add_0.) *)
Definition ctr_at (ctr0 : bytes) (k : Z) : bytes := if k =? 0 then ctr0 else ctr_add ctr0 k.

(* reference: plain counter mode, E(ctr0) || E(ctr0+1) || ... cut to n bytes *)
Definition ctr_keystream (ctr0 : bytes) (n : nat) : bytes :=
  take n (concat (ks_blocks E ((n + 15) / 16)%nat ctr0)).

(* the state reached after consuming pos bytes since icm_set_iv produced ctr0 *)
Record wf (c : icm) (ctr0 : bytes) (pos : Z) : Prop := {
  wf_pos : 0 <= pos;
  wf_ctr0 : length ctr0 = 16%nat;
  wf_ctr : i_ctr c = ctr_at ctr0 (blocks_of pos);
  wf_in : i_in c = (16 - pos mod 16) mod 16;
  wf_buflen : length (i_buf c) = 16%nat;
  wf_buf : 0 < pos -> i_buf c = E (ctr_at ctr0 (blocks_of pos - 1)) }.

(* the terminus check of srtp_aes_icm_encrypt, as a function of the call length *)
Definition icm_refuses (c : icm) (n : Z) : bool :=
  icm_max_blocks_c <? u64 (u64 (n - i_in c) + 15) / 16 + ctr_low (i_ctr c).

Lemma icm_encrypt_eq : forall c data,
  icm_encrypt E c data =
  if icm_refuses c (lenZ data) then (st_terminus, c, [])
  else if lenZ data <=? i_in c then
    (st_ok, {| i_off := i_off c; i_ctr := i_ctr c; i_buf := i_buf c; i_in := i_in c - lenZ data |},
     xor_bytes data (slice (zn (16 - i_in c)) (zn (lenZ data)) (i_buf c)))
  else
    (st_ok, {| i_off := i_off c;
               i_ctr := ctr_add (i_ctr c) ((lenZ data - i_in c + 15) / 16);
               i_buf := last (ks_blocks E (zn ((lenZ data - i_in c + 15) / 16)) (i_ctr c)) (i_buf c);
               i_in := (16 - (lenZ data - i_in c) mod 16) mod 16 |},
     xor_bytes data (take (zn (lenZ data))
        (drop (zn (16 - i_in c)) (i_buf c) ++
         concat (ks_blocks E (zn ((lenZ data - i_in c + 15) / 16)) (i_ctr c))))).
Proof. reflexivity. Qed.

(* ---- counters ---- *)
Lemma ctr_at_0 : forall ctr0, ctr_at ctr0 0 = ctr0.
Proof. reflexivity. Qed.

Lemma ctr_at_length : forall ctr0 k, length ctr0 = 16%nat -> length (ctr_at ctr0 k) = 16%nat.
Proof.
  intros ctr0 k Hlen. unfold ctr_at. destruct (k =? 0) eqn:Hk.
  - exact Hlen.
  - apply ctr_add_length. exact Hlen.
Qed.

Lemma ctr_at_add : forall ctr0 k j, length ctr0 = 16%nat -> 0 <= k -> 1 <= j ->
  ctr_add (ctr_at ctr0 k) j = ctr_at ctr0 (k + j).
Proof.
  intros ctr0 k j Hlen Hk Hj. unfold ctr_at.
  destruct (k + j =? 0) eqn:Hkj; [lia|].
  destruct (k =? 0) eqn:Hk0.
  - replace (k + j) with j by lia. reflexivity.
  - apply ctr_add_add. exact Hlen.
Qed.

Lemma ctr_low_ctr_at : forall ctr0 k, length ctr0 = 16%nat -> 0 <= k ->
  ctr_low ctr0 + k <= 65535 -> ctr_low (ctr_at ctr0 k) = ctr_low ctr0 + k.
Proof.
  intros ctr0 k Hlen Hk Hr. unfold ctr_at. destruct (k =? 0) eqn:Hk0.
  - lia.
  - rewrite ctr_low_ctr_add by exact Hlen.
    pose proof (ctr_low_range ctr0) as Hl. set (l := ctr_low ctr0) in *. clearbody l. lia.
Qed.

(* ---- keystream blocks ---- *)
Lemma ks_blocks_length : forall n ctr, length (ks_blocks E n ctr) = n.
Proof.
  induction n as [|n IHn]; intros ctr; cbn [ks_blocks length].
  - reflexivity.
  - rewrite IHn. reflexivity.
Qed.

Lemma ks_blocks_all16 : forall n ctr, Forall (fun b => length b = 16%nat) (ks_blocks E n ctr).
Proof.
  induction n as [|n IHn]; intros ctr; cbn [ks_blocks].
  - constructor.
  - constructor; [apply E_len | apply IHn].
Qed.

Lemma ks_concat_length : forall n ctr, length (concat (ks_blocks E n ctr)) = (16 * n)%nat.
Proof.
  intros n ctr. rewrite length_concat16 by apply ks_blocks_all16.
  rewrite ks_blocks_length. reflexivity.
Qed.

Lemma ks_blocks_app : forall ctr0 a b k, length ctr0 = 16%nat -> 0 <= k ->
  ks_blocks E (a + b) (ctr_at ctr0 k) =
  ks_blocks E a (ctr_at ctr0 k) ++ ks_blocks E b (ctr_at ctr0 (k + Z.of_nat a)).
Proof.
  intros ctr0 a b k Hlen. revert k. induction a as [|a IHa]; intros k Hk.
  - cbn [Nat.add ks_blocks app]. replace (k + Z.of_nat 0) with k by lia. reflexivity.
  - cbn [Nat.add ks_blocks app]. rewrite ctr_at_add by (try exact Hlen; lia).
    rewrite IHa by lia. replace (k + 1 + Z.of_nat a) with (k + Z.of_nat (S a)) by lia.
    reflexivity.
Qed.

Lemma ks_blocks_app0 : forall ctr0 a b, length ctr0 = 16%nat ->
  ks_blocks E (a + b) ctr0 = ks_blocks E a ctr0 ++ ks_blocks E b (ctr_at ctr0 (Z.of_nat a)).
Proof.
  intros ctr0 a b Hlen. exact (ks_blocks_app ctr0 a b 0 Hlen (Z.le_refl 0)).
Qed.

Lemma ks_blocks_last : forall ctr0 nb k d, length ctr0 = 16%nat -> 0 <= k -> (1 <= nb)%nat ->
  last (ks_blocks E nb (ctr_at ctr0 k)) d = E (ctr_at ctr0 (k + Z.of_nat nb - 1)).
Proof.
  intros ctr0 nb k d Hlen Hk Hnb.
  replace nb with ((nb - 1) + 1)%nat at 1 by lia.
  rewrite ks_blocks_app by assumption. cbn [ks_blocks].
  rewrite last_last. do 2 f_equal. lia.
Qed.

(* ---- the reference keystream ---- *)
Lemma ctr_keystream_length : forall ctr0 n, length (ctr_keystream ctr0 n) = n.
Proof.
  intros ctr0 n. unfold ctr_keystream. rewrite take_firstn, firstn_length, ks_concat_length. lia.
Qed.

(* any sufficiently long run of blocks gives the same first n bytes *)
Lemma ctr_keystream_blocks : forall ctr0 n nb, length ctr0 = 16%nat -> (n <= 16 * nb)%nat ->
  firstn n (concat (ks_blocks E nb ctr0)) = ctr_keystream ctr0 n.
Proof.
  intros ctr0 n nb Hlen Hnb. unfold ctr_keystream. rewrite take_firstn.
  set (kb := ((n + 15) / 16)%nat).
  assert (Hkb : (n <= 16 * kb /\ kb <= nb)%nat) by (subst kb; lia).
  replace nb with (kb + (nb - kb))%nat by lia.
  rewrite ks_blocks_app0 by exact Hlen. rewrite concat_app.
  rewrite firstn_app_le by (rewrite ks_concat_length; lia). reflexivity.
Qed.

Lemma ctr_keystream_prefix : forall ctr0 m n, length ctr0 = 16%nat -> (m <= n)%nat ->
  firstn m (ctr_keystream ctr0 n) = ctr_keystream ctr0 m.
Proof.
  intros ctr0 m n Hlen Hmn. unfold ctr_keystream at 1. rewrite take_firstn, firstn_firstn.
  replace (Nat.min m n) with m by lia.
  apply ctr_keystream_blocks; [exact Hlen | lia].
Qed.

(* a window of the reference keystream does not depend on how far it was generated *)
Lemma ctr_keystream_window : forall ctr0 p n m, length ctr0 = 16%nat -> (p + n <= m)%nat ->
  slice p n (ctr_keystream ctr0 m) = slice p n (ctr_keystream ctr0 (p + n)).
Proof.
  intros ctr0 p n m Hlen Hm. rewrite !slice_firstn_skipn.
  rewrite <- (ctr_keystream_prefix ctr0 (p + n) m Hlen Hm).
  rewrite window_of_prefix by lia. reflexivity.
Qed.

(* ---- what the state machine will output next ---- *)
Lemma stream_tail : forall c ctr0 pos nb, wf c ctr0 pos ->
  skipn (zn (16 - i_in c)) (i_buf c) ++ concat (ks_blocks E nb (i_ctr c)) =
  skipn (zn pos) (concat (ks_blocks E (zn (blocks_of pos) + nb) ctr0)).
Proof.
  intros c ctr0 pos nb [Hpos Hlen Hctr Hin Hbl Hbuf].
  rewrite Hctr. unfold blocks_of in *. set (k := (pos + 15) / 16) in *.
  assert (Hk : 0 <= k) by (subst k; lia).
  rewrite ks_blocks_app0 by exact Hlen. rewrite concat_app.
  replace (Z.of_nat (zn k)) with k by (unfold zn; lia).
  destruct (pos mod 16 =? 0) eqn:Hm.
  - assert (Hin0 : i_in c = 0) by lia.
    rewrite Hin0. rewrite (skipn_all2 (i_buf c)) by (unfold zn; lia). cbn [app].
    replace (zn pos) with (length (concat (ks_blocks E (zn k) ctr0)) + 0)%nat
      by (rewrite ks_concat_length; unfold zn; subst k; lia).
    rewrite skipn_app_ge. reflexivity.
  - assert (Hk1 : 1 <= k) by (subst k; lia).
    assert (Hp : 0 < pos) by lia.
    replace (zn k) with (zn (k - 1) + 1)%nat by (unfold zn; lia).
    rewrite ks_blocks_app0 by exact Hlen. rewrite concat_app. cbn [ks_blocks concat].
    rewrite app_nil_r.
    replace (Z.of_nat (zn (k - 1))) with (k - 1) by (unfold zn; lia).
    rewrite <- (Hbuf Hp). rewrite <- app_assoc.
    replace (zn pos) with (length (concat (ks_blocks E (zn (k - 1)) ctr0)) + zn (16 - i_in c))%nat
      by (rewrite ks_concat_length; unfold zn; subst k; lia).
    rewrite skipn_app_ge. rewrite skipn_app_le by (unfold zn; lia). reflexivity.
Qed.

Lemma keystream_window : forall c ctr0 pos nb n, wf c ctr0 pos ->
  (zn (blocks_of pos) + nb = (zn pos + n + 15) / 16)%nat ->
  firstn n (skipn (zn (16 - i_in c)) (i_buf c) ++ concat (ks_blocks E nb (i_ctr c))) =
  slice (zn pos) n (ctr_keystream ctr0 (zn pos + n)).
Proof.
  intros c ctr0 pos nb n Hwf Hcount.
  rewrite (stream_tail c ctr0 pos nb Hwf), Hcount.
  rewrite slice_firstn_skipn. unfold ctr_keystream. rewrite take_firstn.
  rewrite window_of_prefix by lia. reflexivity.
Qed.
