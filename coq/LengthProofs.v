(* LengthProofs.v — C11, the length contract of the four packet functions: on success
   protect returns input length + trailer (MKI + tag, + 4 for SRTCP), unprotect returns the
   input length minus that, the result never exceeds *out_len, and a too-small *out_len
   is refused.  The stream and the key are those a direct recomputation from the initial
   session and the packet yields (pkt_stream / sender_key / receiver_key). *)
From Coq Require Import NArith ZArith List Bool Lia.
From Srtp Require Import Util Constants KeyLimit Rdb Rdbx Icm World Stream Rtp Rtcp MonadLemmas RejectProofs EnvelopeProofs WfProofs BoundsRtcp BoundsRtp.
Import ListNotations.
Local Open Scope Z_scope.

(* ---- which stream and which key a packet is processed with ---- *)
Definition pkt_stream (s : session) (ssrc : Z) : option stream :=
  match list_get (ss_list s) ssrc with Some st => Some st | None => ss_template s end.
Definition sender_key (st : stream) (mki_index : Z) : option skeys :=
  nth_error (s_keys st) (zn (if s_use_mki st then mki_index else 0)).
(* srcb: the input block; tag0: the tag length of the stream's first key *)
Definition receiver_key (st : stream) (srcb : bytes) (len tag0 : Z) : option skeys :=
  if negb (s_use_mki st) then hd_error (s_keys st)
  else option_map snd (find_mki (s_keys st)
         (slice (zn (len - tag0 - s_mki_size st)) (zn (s_mki_size st)) srcb) 0).
Definition rtp_tag0 (st : stream) : Z := match s_keys st with k0 :: _ => ak_tag (k_rtp_a k0) | [] => 0 end.
Definition rtcp_tag0 (st : stream) : Z := match s_keys st with k0 :: _ => ak_tag (k_rtcp_a k0) | [] => 0 end.

Lemma pkt_stream_wf s x st : session_wf s -> pkt_stream s x = Some st -> stream_wf st.
Proof.
  intros [HT HL] H. unfold pkt_stream in H. destruct (list_get (ss_list s) x) as [s1|] eqn:E.
  - injection H as <-. exact (list_get_SP _ _ _ _ HL E).
  - exact (HT _ H).
Qed.

Definition TT : world -> Prop := fun _ => True.
Lemma tt_any (P : world -> Prop) : forall w, P w -> TT w.
Proof. intros; exact I. Qed.

(* a tail of a computation whose value does not depend on the world *)
Lemma h_returns {A} (P : world -> Prop) (m : M A) (F : A -> Prop) :
  returns m F -> hoare P m (fun a _ => F a) TT.
Proof. intros H w _. specialize (H w). destruct (m w) as [w' [a|st]]; [exact (H w' a eq_refl)|exact I]. Qed.
Lemma hoare_returns {A} (m : M A) (P : world -> Prop) (F : A -> Prop) w w' a :
  hoare P m (fun a _ => F a) TT -> P w -> m w = (w', inl a) -> F a.
Proof. intros H HP E. specialize (H w HP). rewrite E in H. exact H. Qed.

(* predicates that only look at the session *)
Definition sess_only (P : world -> Prop) : Prop := forall w w', w_s w' = w_s w -> P w -> P w'.
Lemma h_sp {A} (P : world -> Prop) (m : M A) : sess_pres m -> sess_only P -> hoare P m (fun _ => P) TT.
Proof.
  intros Hm HP w Hw. specialize (Hm w). destruct (m w) as [w' [a|st]]; [|exact I].
  destruct Hm as [E _]. exact (HP w w' E Hw).
Qed.
Lemma h_sbP {A} (P : world -> Prop) (m : M A) (F : A -> Prop) :
  sb_pres m -> returns m F -> sess_only P -> hoare P m (fun a w => F a /\ P w) TT.
Proof.
  intros Hm Hr HP w Hw. specialize (Hm w). specialize (Hr w). destruct (m w) as [w' [a|st]]; [|exact I].
  cbn [fst] in Hm. split; [exact (Hr w' a eq_refl)|]. exact (HP w w' (proj1 Hm) Hw).
Qed.
Lemma h_check_stP (P : world -> Prop) st : hoare P (check_st st) (fun _ w => st = st_ok /\ P w) TT.
Proof.
  unfold check_st. destruct (st =? st_ok) eqn:E; [apply Z.eqb_eq in E; apply h_ret; auto|apply h_exit; apply tt_any].
Qed.

(* ---- list facts ---- *)
Lemma list_get_ssrc l x st : list_get l x = Some st -> s_ssrc st = x.
Proof.
  induction l as [|s t IH]; cbn; intros H; [discriminate|].
  destruct (s_ssrc s =? x) eqn:E; [injection H as <-; apply Z.eqb_eq; exact E|exact (IH H)].
Qed.
Lemma list_get_replace_same l x st n :
  list_get l x = Some st -> s_ssrc n = x -> list_get (list_replace l x n) x = Some n.
Proof.
  induction l as [|s t IH]; cbn; intros H Hn; [discriminate|].
  destruct (s_ssrc s =? x) eqn:E; cbn.
  - rewrite Hn, Z.eqb_refl. reflexivity.
  - rewrite E. exact (IH H Hn).
Qed.
Lemma list_get_app_new l x n : list_get l x = None -> s_ssrc n = x -> list_get (l ++ [n]) x = Some n.
Proof.
  induction l as [|s t IH]; cbn; intros H Hn.
  - rewrite Hn, Z.eqb_refl. reflexivity.
  - destruct (s_ssrc s =? x); [discriminate|exact (IH H Hn)].
Qed.

(* ---- "the list holds a stream for x whose configuration is c" ---- *)
Definition Sx (x : Z) (c : stream) (w : world) : Prop :=
  exists st, list_get (ss_list (w_s w)) x = Some st /\ cfg_eq c st.
Lemma Sx_sess_only x c : sess_only (Sx x c).
Proof. intros w w' E [st H]. exists st. rewrite E. exact H. Qed.

Lemma insert_or_dealloc_spec s w w' u :
  insert_or_dealloc s w = (w', inl u) ->
  ss_template (w_s w') = ss_template (w_s w) /\ ss_list (w_s w') = ss_list (w_s w) ++ [s].
Proof.
  unfold insert_or_dealloc. intros H. apply bind_inv in H. destruct H as [(st & w1 & H1 & H2)|(s0 & _ & E)]; [|discriminate].
  destruct (st =? st_ok) eqn:ES.
  2:{ apply bind_inv in H2. destruct H2 as [(? & ? & _ & H3)|(? & _ & E)]; discriminate. }
  injection H2 as <- _. apply Z.eqb_eq in ES. subst st.
  unfold list_insert in H1. unfold bind at 1, get_s at 1 in H1.
  destruct (lenZ (ss_list (w_s w)) =? ss_cap (w_s w)).
  - apply bind_inv in H1. destruct H1 as [(ok & w2 & A1 & A2)|(? & _ & E)]; [|discriminate].
    pose proof (sb_alloc1 w) as [E1 _]. rewrite A1 in E1. cbn [fst] in E1.
    destruct ok; cbn [negb] in A2; [|discriminate].
    apply bind_inv in A2. destruct A2 as [(? & w3 & B1 & B2)|(? & _ & E)]; [|discriminate].
    cbn in B2. injection B2 as <-. cbn. auto.
  - cbn in H1. injection H1 as <-. cbn. auto.
Qed.

Lemma lookup_or_clone_Sx x flag w0 :
  hoare (eq w0) (lookup_or_clone x flag)
        (fun r w => r = RList x /\ exists st0, pkt_stream (w_s w0) x = Some st0 /\ Sx x st0 w) TT.
Proof.
  intros w <-. unfold lookup_or_clone. unfold bind at 1, get_s at 1. unfold pkt_stream.
  destruct (list_get (ss_list (w_s w0)) x) as [st|] eqn:E1.
  - cbn. split; [reflexivity|]. exists st. split; [reflexivity|]. exists st. split; [exact E1|apply cfg_eq_refl].
  - destruct (ss_template (w_s w0)) as [t|] eqn:E2; [|exact I].
    unfold bind at 1. destruct (stream_clone t x w0) as [w1 [ns|?]] eqn:EC; [|exact I].
    destruct (r_stream_clone t x w0 w1 ns EC) as [Hc Hx].
    pose proof (sb_stream_clone t x w0) as [S1 _]. rewrite EC in S1. cbn [fst] in S1.
    unfold bind at 1. destruct (insert_or_dealloc ns w1) as [w2 [u|?]] eqn:EI; [|exact I].
    destruct (insert_or_dealloc_spec _ _ _ _ EI) as [_ S2]. rewrite S1 in S2.
    assert (G : list_get (ss_list (w_s w2)) x = Some ns) by (rewrite S2; apply list_get_app_new; assumption).
    destruct flag.
    + unfold bind, put_stream, get_s, put_s. cbn. split; [reflexivity|]. exists t. split; [reflexivity|].
      exists (set_dir ns dir_srtp_sender_c). split; [apply (list_get_replace_same _ _ _ _ G); exact Hx|].
      eapply cfg_eq_trans; [exact Hc|apply cfg_eq_upd].
    + cbn. split; [reflexivity|]. exists t. split; [reflexivity|]. exists ns. auto.
Qed.

Lemma check_direction_Sx x c d : hoare (Sx x c) (check_direction (RList x) d) (fun _ => Sx x c) TT.
Proof.
  intros w [st [Hg Hc]]. cbv beta iota delta [check_direction bind get_stream get_s]. rewrite Hg. cbn.
  destruct (s_dir st =? d); [cbn; exists st; auto|].
  destruct (s_dir st =? dir_unknown_c).
  - unfold put_stream, bind, get_s, put_s. cbn. exists (set_dir st d).
    split; [apply (list_get_replace_same _ _ _ _ Hg); exact (list_get_ssrc _ _ _ Hg)|].
    eapply cfg_eq_trans; [exact Hc|apply cfg_eq_upd].
  - cbn. exists st. auto.
Qed.

Lemma get_stream_Sx x c : hoare (Sx x c) (get_stream (RList x)) (fun st w => cfg_eq c st /\ Sx x c w) TT.
Proof.
  intros w [st [Hg Hc]]. cbv beta iota delta [bind get_stream get_s]. rewrite Hg. cbn. split; [exact Hc|]. exists st. auto.
Qed.

Lemma charge_key_Sx x c i : hoare (Sx x c) (charge_key (RList x) i) (fun _ => Sx x c) TT.
Proof.
  unfold charge_key. eapply h_bind with (R := fun _ => Sx x c).
  - intros w [st [Hg Hc]]. unfold limit_update. unfold bind at 1. unfold get_stream at 1, bind at 1, get_s at 1.
    rewrite Hg. cbn [ret]. destruct (s_clone st).
    + unfold bind at 1. unfold get_stream, bind, get_s. destruct (ss_template (w_s w)) as [t|]; [|exact I]. cbn [ret].
      destruct (nth_error (s_limits t) (zn i)) as [kl|]; [|exact I]. destruct (kl_update kl) as [k' e].
      unfold bind, put_stream, get_s, put_s. cbn. exists st. auto.
    + destruct (nth_error (s_limits st) (zn i)) as [kl|]; [|exact I]. destruct (kl_update kl) as [k' e].
      unfold bind, put_stream, get_s, put_s. cbn. exists (set_limits st (replace_nth (zn i) (s_limits st) k')).
      split; [apply (list_get_replace_same _ _ _ _ Hg); exact (list_get_ssrc _ _ _ Hg)|].
      eapply cfg_eq_trans; [exact Hc|apply cfg_eq_upd].
  - intros e. eapply h_bind; [apply get_stream_Sx|intros st]. apply h_pure; intros _.
    destruct e.
    + apply h_ret; auto.
    + eapply h_post; [apply (h_sbP _ _ (fun _ => True)); [apply sb_emit|intros ? ? ? _; exact I|apply Sx_sess_only]|intros ? ? [_ H]; exact H].
    + eapply h_bind with (R := fun _ => TT); [intros w _; destruct (emit _ _ w) as [? [?|?]]; exact I|intros ?; apply h_exit; auto].
Qed.

Lemma h_ex {A X} (P : X -> world -> Prop) (m : M A) Q E :
  (forall x, hoare (P x) m Q E) -> hoare (fun w => exists x, P x w) m Q E.
Proof. intros H w [x Hx]. exact (H x w Hx). Qed.
Lemma h_get_b_eq w0 : hoare (eq w0) get_b (fun b w => b = w_b w0 /\ w0 = w) TT.
Proof. intros w <-. cbn. auto. Qed.
Lemma r_bind_ret {A B} (a : A) (f : A -> M B) F : returns (f a) F -> returns (bind (ret a) f) F.
Proof. intros H. exact H. Qed.

(* walk to the final `ret` of a tail whose intermediate results do not matter *)
Ltac rwalk := repeat first
  [ apply r_ret
  | apply r_exit
  | apply r_bind_exit
  | match goal with
    | |- returns (bind _ _) _ => apply r_bind; intros ?
    | |- returns (if ?c then _ else _) _ => destruct c
    | |- returns (match ?e with _ => _ end) _ => destruct e
    end ].

Lemma cfg_sender_key st0 st i k :
  cfg_eq st0 st -> nth_error (s_keys st) (zn (if s_use_mki st then i else 0)) = Some k -> sender_key st0 i = Some k.
Proof. intros (K & _ & U & _) H. unfold sender_key. rewrite <- K, <- U. exact H. Qed.

Lemma receiver_key_In st srcb len t0 k : receiver_key st srcb len t0 = Some k -> In k (s_keys st).
Proof.
  unfold receiver_key. destruct (negb (s_use_mki st)).
  - destruct (s_keys st) as [|k0 t]; cbn; intros H; [discriminate|]. injection H as <-. left. reflexivity.
  - destruct (find_mki _ _ 0) as [r|] eqn:F; cbn; intros H; [|discriminate]. injection H as <-.
    exact (find_mki_In _ _ _ _ F).
Qed.
Lemma receiver_key_wf st srcb len t0 k :
  stream_wf st -> receiver_key st srcb len t0 = Some k -> key_wf (s_mki_size st) k.
Proof. intros W H. exact (stream_wf_key _ _ W (receiver_key_In _ _ _ _ _ H)). Qed.
Lemma sender_key_wf st i k : stream_wf st -> sender_key st i = Some k -> key_wf (s_mki_size st) k.
Proof. intros W H. apply (stream_wf_key _ _ W). exact (nth_error_In _ _ H). Qed.

(* ---- computations that keep b_len ---- *)
Definition len_pres {A} (m : M A) : Prop := forall w, b_len (w_b (fst (m w))) = b_len (w_b w).
Lemma lp_ret {A} (a : A) : len_pres (ret a). Proof. intros w; reflexivity. Qed.
Lemma lp_exit {A} st : len_pres (@exit_with A st). Proof. intros w; reflexivity. Qed.
Lemma lp_bind {A B} (m : M A) (f : A -> M B) : len_pres m -> (forall a, len_pres (f a)) -> len_pres (bind m f).
Proof.
  intros Hm Hf w. unfold bind. specialize (Hm w). destruct (m w) as [w1 [a|st]]; cbn [fst] in *.
  - rewrite (Hf a w1). exact Hm.
  - exact Hm.
Qed.
Lemma lp_if {A} (c : bool) (m1 m2 : M A) : len_pres m1 -> len_pres m2 -> len_pres (if c then m1 else m2).
Proof. destruct c; auto. Qed.
Lemma lp_get_b : len_pres get_b. Proof. intros w; reflexivity. Qed.
Lemma lp_get_s : len_pres get_s. Proof. intros w; reflexivity. Qed.
Lemma lp_check_st st : len_pres (check_st st).
Proof. unfold check_st. apply lp_if; [apply lp_ret|apply lp_exit]. Qed.
Lemma lp_rd_src off n : len_pres (rd_src off n).
Proof.
  intros w. unfold rd_src, bind, get_b. destruct (_ || _); reflexivity.
Qed.
Lemma lp_get_stream r : len_pres (get_stream r).
Proof.
  unfold get_stream. apply lp_bind; [apply lp_get_s|intros s]. destruct r.
  - destruct (ss_template s); [apply lp_ret|apply lp_exit].
  - destruct (list_get (ss_list s) ssrc); [apply lp_ret|apply lp_exit].
Qed.
Ltac lp_step :=
  first [ apply lp_ret | apply lp_exit | apply lp_get_b | apply lp_get_s | apply lp_check_st
        | apply lp_rd_src | apply lp_get_stream | (apply lp_bind; [ | intros ? ]) | apply lp_if ].
Ltac lp_auto := repeat (lp_step || match goal with |- len_pres (match ?x with _ => _ end) => destruct x end).
Lemma lp_keys_by_packet st len tl : len_pres (keys_by_packet st len tl).
Proof. unfold keys_by_packet. lp_auto. Qed.
Lemma lp_unprotect_rtcp_pre : len_pres unprotect_rtcp_pre.
Proof.
  unfold unprotect_rtcp_pre.
  apply lp_bind; [apply lp_get_b|intros b].
  apply lp_bind; [lp_auto|intros ?].
  apply lp_bind; [apply lp_get_s|intros ss].
  apply lp_bind; [lp_auto|intros r0].
  apply lp_bind; [apply lp_get_stream|intros st].
  apply lp_bind; [apply lp_keys_by_packet|intros [ki k]].
  lp_auto.
Qed.

(* ---- reads that stay in bounds leave the world alone ---- *)
Lemma h_rd_src_eq w0 off n :
  0 <= off -> 0 <= n -> off + n <= b_len (w_b w0) ->
  hoare (eq w0) (rd_src off n) (fun d w => d = slice (zn off) (zn n) (cur_src (w_b w0)) /\ w0 = w) TT.
Proof.
  intros H1 H2 H3 w <-. unfold rd_src, bind, get_b.
  assert (Hc : (off <? 0) || (n <? 0) || (b_len (w_b w0) <? off + n) = false).
  { rewrite !orb_false_iff, !Z.ltb_ge. lia. }
  rewrite Hc. cbn. auto.
Qed.
Definition lookup (s : session) (r : sref) : option stream :=
  match r with RTemplate => ss_template s | RList x => list_get (ss_list s) x end.
Lemma h_get_stream_eq w0 r :
  hoare (eq w0) (get_stream r) (fun st w => lookup (w_s w0) r = Some st /\ w0 = w) TT.
Proof.
  intros w <-. cbv beta iota delta [bind get_stream get_s]. destruct r; cbn [lookup].
  - destruct (ss_template (w_s w0)); cbn; [auto|exact I].
  - destruct (list_get (ss_list (w_s w0)) ssrc); cbn; [auto|exact I].
Qed.
Lemma h_keys_by_packet_eq w0 st tl :
  stream_wf st -> 0 <= tl ->
  hoare (eq w0) (keys_by_packet st (b_len (w_b w0)) tl)
        (fun ik w => receiver_key st (cur_src (w_b w0)) (b_len (w_b w0)) tl = Some (snd ik) /\ w0 = w) TT.
Proof.
  intros (M & _ & _) Htl. unfold keys_by_packet, receiver_key.
  destruct (negb (s_use_mki st)).
  - destruct (s_keys st) as [|k t]; [apply h_exit; apply tt_any|]. apply h_ret. intros w <-. cbn. auto.
  - destruct (b_len (w_b w0) <? tl) eqn:E1; [apply h_exit; apply tt_any|].
    destruct (b_len (w_b w0) - tl <? s_mki_size st) eqn:E2; [apply h_exit; apply tt_any|].
    apply Z.ltb_ge in E1, E2.
    eapply h_bind; [apply h_rd_src_eq; lia|intros m]. apply h_pure; intros ->.
    destruct (find_mki (s_keys st) _ 0) as [r|]; [|apply h_exit; apply tt_any].
    apply h_ret. intros w <-. cbn. auto.
Qed.

(* ===================================================================== *)
(* SRTCP                                                                  *)
Section RTCP_LEN.
Variable w0 : world.
Let L := b_len (w_b w0).
Let C := b_cap (w_b w0).
Let ssrc := be32 (take (zn L) (cur_src (w_b w0))) 4.

Lemma protect_rtcp_len_h i :
  hoare (eq w0) (protect_rtcp i)
    (fun l _ => exists st k, pkt_stream (w_s w0) ssrc = Some st /\ sender_key st i = Some k /\
                 8 <= L /\ L + 4 + s_mki_size st + ak_tag (k_rtcp_a k) <= C /\
                 l = u64 (L + 4 + s_mki_size st + ak_tag (k_rtcp_a k))) TT.
Proof.
  unfold protect_rtcp.
  eapply h_bind; [apply h_get_b_eq|intros b]. apply h_pure; intros ->.
  cbv beta zeta. fold L C ssrc.
  change octets_in_rtcp_header_c with 8. change trailer_len with 4.
  destruct (L <? 8) eqn:E0; [apply h_bind_exit; apply tt_any|]. apply h_bind_ret. apply Z.ltb_ge in E0.
  eapply h_bind; [apply lookup_or_clone_Sx|intros r]. apply h_pure; intros ->.
  apply h_ex; intros st0. apply h_pure; intros Hst0.
  eapply h_bind; [apply check_direction_Sx|intros ?].
  eapply h_bind; [apply get_stream_Sx|intros st]. apply h_pure; intros Hc.
  apply h_returns.
  eapply r_bind2; [apply r_keys_by_index|intros [ki k] Hk]. cbn [snd] in Hk.
  destruct (C <? L + 4 + s_mki_size st + ak_tag (k_rtcp_a k)) eqn:E1; [apply r_bind_exit|]. apply r_bind_ret.
  apply Z.ltb_ge in E1.
  rwalk.
  exists st0, k. pose proof Hc as (_ & M & _ & _). rewrite M in *.
  split; [exact Hst0|]. split; [exact (cfg_sender_key _ _ _ _ Hc Hk)|]. split; [exact E0|]. split; [exact E1|].
  f_equal. lia.
Qed.

Theorem protect_rtcp_length i w' l :
  session_wf (w_s w0) -> size_ok C -> protect_rtcp i w0 = (w', inl l) ->
  exists st k, pkt_stream (w_s w0) ssrc = Some st /\ sender_key st i = Some k /\
               l = L + 4 + s_mki_size st + ak_tag (k_rtcp_a k) /\ l <= C.
Proof.
  intros HW HC E. destruct (hoare_returns _ _ _ _ _ _ (protect_rtcp_len_h i) eq_refl E) as (st & k & H1 & H2 & H3 & H4 & H5).
  exists st, k. split; [exact H1|]. split; [exact H2|].
  pose proof (pkt_stream_wf _ _ _ HW H1) as W. destruct (sender_key_wf _ _ _ W H2) as (_ & _ & [T _]).
  destruct W as (M & _). unfold size_ok in HC. rewrite u64_small in H5 by lia. lia.
Qed.

Theorem protect_rtcp_small_buffer_refused i st k :
  pkt_stream (w_s w0) ssrc = Some st -> sender_key st i = Some k ->
  C < L + 4 + s_mki_size st + ak_tag (k_rtcp_a k) ->
  forall w' l, protect_rtcp i w0 <> (w', inl l).
Proof.
  intros H1 H2 HS w' l E.
  destruct (hoare_returns _ _ _ _ _ _ (protect_rtcp_len_h i) eq_refl E) as (st' & k' & G1 & G2 & _ & G4 & _).
  rewrite H1 in G1. injection G1 as <-. rewrite H2 in G2. injection G2 as <-. lia.
Qed.
End RTCP_LEN.

Section RTCP_LEN2.
Variable w0 : world.
Let L := b_len (w_b w0).
Let C := b_cap (w_b w0).
Let ssrc := be32 (take (zn L) (cur_src (w_b w0))) 4.
Hypothesis HW : session_wf (w_s w0).

Lemma unprotect_rtcp_pre_len_h :
  hoare (eq w0) unprotect_rtcp_pre
    (fun u _ => exists st k, pkt_stream (w_s w0) ssrc = Some st /\
                 receiver_key st (cur_src (w_b w0)) L (rtcp_tag0 st) = Some k /\
                 c_tag_len u = ak_tag (k_rtcp_a k) /\ c_mki u = s_mki_size st /\
                 8 + 4 + s_mki_size st + ak_tag (k_rtcp_a k) <= L /\
                 u64 (L - 4 - s_mki_size st - ak_tag (k_rtcp_a k)) <= C) TT.
Proof.
  unfold unprotect_rtcp_pre.
  eapply h_bind; [apply h_get_b_eq|intros b]. apply h_pure; intros ->.
  cbv beta zeta. fold L C ssrc.
  change octets_in_rtcp_header_c with 8. change trailer_len with 4.
  destruct (L <? 8 + 4) eqn:E0; [apply h_bind_exit; apply tt_any|]. apply h_bind_ret.
  apply h_bind with (R := fun ss w => ss = w_s w0 /\ w0 = w); [intros w <-; cbn; exact (conj eq_refl eq_refl)|intros ss]. apply h_pure; intros ->.
  apply h_bind with (R := fun r w => pkt_stream (w_s w0) ssrc = lookup (w_s w0) r /\ w0 = w).
  { unfold pkt_stream. destruct (list_get (ss_list (w_s w0)) ssrc) eqn:E1.
    - apply h_ret. intros w <-. cbn [lookup]. rewrite E1. auto.
    - destruct (ss_template (w_s w0)) eqn:E2; [|apply h_exit; apply tt_any]. apply h_ret. intros w <-. cbn [lookup]. auto. }
  intros r0. apply h_pure; intros Hr0.
  eapply h_bind; [apply h_get_stream_eq|intros st]. apply h_pure; intros Hst. rewrite <- Hr0 in Hst.
  pose proof (pkt_stream_wf _ _ _ HW Hst) as W.
  assert (T0 : 0 <= rtcp_tag0 st).
  { unfold rtcp_tag0. destruct (s_keys st) as [|k0 t] eqn:EK; [lia|].
    assert (I0 : In k0 (s_keys st)) by (rewrite EK; left; reflexivity).
    destruct (stream_wf_key _ _ W I0) as (_ & _ & [T _]). lia. }
  fold (rtcp_tag0 st).
  eapply h_bind; [apply (h_keys_by_packet_eq w0 st (rtcp_tag0 st) W T0)|intros [ki k]].
  apply h_pure; cbn [snd]; intros Hk. fold L in Hk.
  apply h_returns.
  destruct (L <? 8 + 4 + s_mki_size st + ak_tag (k_rtcp_a k)) eqn:E1; [apply r_bind_exit|]. apply r_bind_ret.
  apply Z.ltb_ge in E1.
  apply r_bind; intros tr. apply r_bind; intros ?. apply r_bind; intros ?. apply r_bind; intros pre.
  apply r_bind; intros m. apply r_bind; intros ?. apply r_bind; intros t. apply r_bind; intros ?.
  destruct (C <? u64 (L - 4 - s_mki_size st - ak_tag (k_rtcp_a k))) eqn:E2; [apply r_bind_exit|]. apply r_bind_ret.
  apply Z.ltb_ge in E2. apply r_ret. cbn [c_tag_len c_mki].
  exists st, k. repeat split; try assumption; lia.
Qed.

Lemma unprotect_rtcp_post_len_h u :
  hoare (fun w => b_len (w_b w) = L) (unprotect_rtcp_post u)
        (fun l _ => l = u64 (L - (c_tag_len u + 4) - c_mki u)) TT.
Proof.
  unfold unprotect_rtcp_post.
  eapply h_bind with (R := fun b w => b_len b = L /\ TT w); [intros w H; cbn; exact (conj H I)|intros b]. apply h_pure; intros Hb.
  cbv beta zeta. rewrite Hb. change trailer_len with 4.
  apply h_returns. rwalk. reflexivity.
Qed.

Theorem unprotect_rtcp_length w' l :
  size_ok L -> unprotect_rtcp w0 = (w', inl l) ->
  exists st k, pkt_stream (w_s w0) ssrc = Some st /\
               receiver_key st (cur_src (w_b w0)) L (rtcp_tag0 st) = Some k /\
               l = L - 4 - s_mki_size st - ak_tag (k_rtcp_a k) /\ l <= C.
Proof.
  intros HL E. unfold unprotect_rtcp in E. apply bind_inv in E.
  destruct E as [(u & w1 & E1 & E2)|(s & _ & E)]; [|discriminate].
  destruct (hoare_returns _ _ _ _ _ _ unprotect_rtcp_pre_len_h eq_refl E1) as (st & k & H1 & H2 & H3 & H4 & H5 & H6).
  assert (LB : b_len (w_b w1) = L) by (pose proof (lp_unprotect_rtcp_pre w0) as P; rewrite E1 in P; exact P).
  pose proof (hoare_returns _ _ _ _ _ _ (unprotect_rtcp_post_len_h u) LB E2) as V. cbv beta in V.
  exists st, k. split; [exact H1|]. split; [exact H2|].
  pose proof (pkt_stream_wf _ _ _ HW H1) as W. destruct (receiver_key_wf _ _ _ _ _ W H2) as (_ & _ & [T _]).
  destruct W as (M & _ & _). unfold size_ok in HL.
  rewrite H3, H4 in V. rewrite u64_small in V by lia. rewrite u64_small in H6 by lia. lia.
Qed.
End RTCP_LEN2.
Print Assumptions protect_rtcp_length.
Print Assumptions protect_rtcp_small_buffer_refused.
Print Assumptions unprotect_rtcp_length.

(* ===================================================================== *)
(* SRTP                                                                   *)
Section RTP_LEN.
Variable w0 : world.
Let L := b_len (w_b w0).
Let C := b_cap (w_b w0).
Let pkt := take (zn L) (cur_src (w_b w0)).
Let ssrc := hdr_ssrc pkt.
Hypothesis HW : session_wf (w_s w0).

Lemma protect_len_h i :
  hoare (eq w0) (protect i)
    (fun l _ => exists st k, pkt_stream (w_s w0) ssrc = Some st /\ sender_key st i = Some k /\
                 12 <= L /\ L + s_mki_size st + ak_tag (k_rtp_a k) <= C /\
                 l = u64 (L + s_mki_size st + ak_tag (k_rtp_a k))) TT.
Proof.
  unfold protect.
  eapply h_bind; [apply h_get_b_eq|intros b]. apply h_pure; intros ->.
  cbv beta zeta. fold L C pkt ssrc.
  eapply h_bind; [apply h_check_stP|intros ?]. apply h_pure; intros V.
  apply validate_rtp_ok in V. destruct V as (V1 & _).
  eapply h_bind; [apply lookup_or_clone_Sx|intros r]. apply h_pure; intros ->.
  apply h_ex; intros st0. apply h_pure; intros Hst0.
  eapply h_bind; [apply check_direction_Sx|intros ?].
  eapply h_bind; [apply get_stream_Sx|intros st]. apply h_pure; intros Hc.
  eapply h_bind; [apply (h_sbP _ _ _ (sb_keys_by_index st i) (r_keys_by_index st i) (Sx_sess_only ssrc st0))|intros [ki k]].
  apply h_pure; cbn [snd]; intros Hk.
  eapply h_bind; [apply charge_key_Sx|intros ?].
  destruct (C <? L + s_mki_size st + ak_tag (k_rtp_a k)) eqn:E1; [apply h_bind_exit; apply tt_any|]. apply h_bind_ret.
  apply Z.ltb_ge in E1.
  apply h_bind with (R := fun _ => Sx ssrc st0); [apply h_sp; [sp_auto|apply Sx_sess_only]|intros ?].
  apply h_bind with (R := fun _ => Sx ssrc st0); [apply h_sp; [sp_auto|apply Sx_sess_only]|intros ?].
  apply h_bind with (R := fun _ => Sx ssrc st0); [apply h_sp; [sp_auto|apply Sx_sess_only]|intros ?].
  apply h_bind with (R := fun _ => Sx ssrc st0); [apply h_sp; [sp_auto|apply Sx_sess_only]|intros ?].
  apply h_bind with (R := fun _ => Sx ssrc st0); [apply h_sp; [sp_auto|apply Sx_sess_only]|intros ?].
  eapply h_bind; [apply get_stream_Sx|intros st2]. apply h_pure; intros Hc2.
  apply h_returns. rwalk.
  all: exists st0, k; pose proof Hc as (_ & M & _ & _); pose proof Hc2 as (_ & M2 & _ & _); rewrite M in *; rewrite M2;
    (split; [exact Hst0|]); (split; [exact (cfg_sender_key _ _ _ _ Hc Hk)|]); (split; [exact V1|]); (split; [exact E1|]); f_equal; lia.
Qed.

Theorem protect_length i w' l :
  size_ok C -> protect i w0 = (w', inl l) ->
  exists st k, pkt_stream (w_s w0) ssrc = Some st /\ sender_key st i = Some k /\
               l = L + s_mki_size st + ak_tag (k_rtp_a k) /\ l <= C.
Proof.
  intros HC E. destruct (hoare_returns _ _ _ _ _ _ (protect_len_h i) eq_refl E) as (st & k & H1 & H2 & H3 & H4 & H5).
  exists st, k. split; [exact H1|]. split; [exact H2|].
  pose proof (pkt_stream_wf _ _ _ HW H1) as W. destruct (sender_key_wf _ _ _ W H2) as (_ & [T _] & _).
  destruct W as (M & _). unfold size_ok in HC. rewrite u64_small in H5 by lia. lia.
Qed.

(* "small buffer refused": with *out_len below len + mki + tag srtp_protect does not succeed *)
Theorem protect_small_buffer_refused i st k :
  pkt_stream (w_s w0) ssrc = Some st -> sender_key st i = Some k ->
  C < L + s_mki_size st + ak_tag (k_rtp_a k) ->
  forall w' l, protect i w0 <> (w', inl l).
Proof.
  intros H1 H2 HS w' l E.
  destruct (hoare_returns _ _ _ _ _ _ (protect_len_h i) eq_refl E) as (st' & k' & G1 & G2 & _ & G4 & _).
  rewrite H1 in G1. injection G1 as <-. rewrite H2 in G2. injection G2 as <-. lia.
Qed.
End RTP_LEN.
Print Assumptions protect_length.
Print Assumptions protect_small_buffer_refused.


(* ---- computations that do not change the world at all ---- *)
Definition wpres {A} (m : M A) : Prop := forall w, fst (m w) = w.
Lemma wp_ret {A} (a : A) : wpres (ret a). Proof. intros w; reflexivity. Qed.
Lemma wp_exit {A} st : wpres (@exit_with A st). Proof. intros w; reflexivity. Qed.
Lemma wp_bind {A B} (m : M A) (f : A -> M B) : wpres m -> (forall a, wpres (f a)) -> wpres (bind m f).
Proof.
  intros Hm Hf w. unfold bind. specialize (Hm w). destruct (m w) as [w1 [a|st]]; cbn [fst] in *; subst w1; [apply Hf|reflexivity].
Qed.
Lemma wp_if {A} (c : bool) (m1 m2 : M A) : wpres m1 -> wpres m2 -> wpres (if c then m1 else m2).
Proof. destruct c; auto. Qed.
Lemma wp_check_st st : wpres (check_st st).
Proof. unfold check_st. apply wp_if; [apply wp_ret|apply wp_exit]. Qed.
Lemma h_wp {A} w0 (m : M A) : wpres m -> hoare (eq w0) m (fun _ w => w0 = w) TT.
Proof. intros H w <-. specialize (H w0). destruct (m w0) as [w1 [a|st]]; [symmetry; exact H|exact I]. Qed.

Section RTP_LEN2.
Variable w0 : world.
Let L := b_len (w_b w0).
Let C := b_cap (w_b w0).
Let pkt := take (zn L) (cur_src (w_b w0)).
Let ssrc := hdr_ssrc pkt.
Hypothesis HW : session_wf (w_s w0).

Lemma unprotect_pre_len_h :
  hoare (eq w0) unprotect_pre
    (fun u _ => exists st k, pkt_stream (w_s w0) ssrc = Some st /\
                 receiver_key st (cur_src (w_b w0)) L (rtp_tag0 st) = Some k /\
                 12 <= L /\
                 u_enc_len u = u64 (L - u_enc_start u - s_mki_size st - ak_tag (k_rtp_a k)) /\
                 u64 (L - s_mki_size st - ak_tag (k_rtp_a k)) <= C) TT.
Proof.
  unfold unprotect_pre.
  eapply h_bind; [apply h_get_b_eq|intros b]. apply h_pure; intros ->.
  cbv beta zeta. fold L C pkt ssrc.
  eapply h_bind; [apply h_check_stP|intros ?]. apply h_pure; intros V.
  apply validate_rtp_ok in V. destruct V as (V1 & _).
  apply h_bind with (R := fun ss w => ss = w_s w0 /\ w0 = w); [intros w <-; cbn; exact (conj eq_refl eq_refl)|intros ss]. apply h_pure; intros ->.
  apply h_bind with (R := fun r w => pkt_stream (w_s w0) ssrc = lookup (w_s w0) r /\ w0 = w).
  { unfold pkt_stream. destruct (list_get (ss_list (w_s w0)) ssrc) eqn:E1.
    - apply h_ret. intros w <-. cbn [lookup]. rewrite E1. auto.
    - destruct (ss_template (w_s w0)) eqn:E2; [|apply h_exit; apply tt_any]. apply h_ret. intros w <-. cbn [lookup]. auto. }
  intros r0. apply h_pure; intros Hr0.
  eapply h_bind; [apply h_get_stream_eq|intros st]. apply h_pure; intros Hst. rewrite <- Hr0 in Hst.
  pose proof (pkt_stream_wf _ _ _ HW Hst) as W.
  assert (T0 : 0 <= rtp_tag0 st).
  { unfold rtp_tag0. destruct (s_keys st) as [|k0 t] eqn:EK; [lia|].
    assert (I0 : In k0 (s_keys st)) by (rewrite EK; left; reflexivity).
    destruct (stream_wf_key _ _ W I0) as (_ & [T _] & _). lia. }
  fold (rtp_tag0 st).
  eapply h_bind.
  { apply h_wp. destruct r0; [apply wp_ret|]. destruct (est_index st (hdr_seq pkt)) as [[es e] d].
    apply wp_bind; [apply wp_if; [apply wp_exit|apply wp_ret]|intros ?].
    apply wp_if; [apply wp_ret|]. apply wp_bind; [apply wp_check_st|intros ?]. apply wp_ret. }
  intros [[est delta] adv].
  eapply h_bind; [apply (h_keys_by_packet_eq w0 st (rtp_tag0 st) W T0)|intros [ki k]].
  apply h_pure; cbn [snd]; intros Hk. fold L in Hk.
  apply h_returns.
  apply r_bind; intros inuse. apply r_bind; intros xl.
  change octets_in_rtp_header_c with 12. change octets_in_rtp_xtn_hdr_c with 4.
  apply r_bind; intros ?.
  destruct (C <? u64 (L - s_mki_size st - ak_tag (k_rtp_a k))) eqn:E3; [apply r_bind_exit|]. apply r_bind_ret.
  apply Z.ltb_ge in E3.
  apply r_bind; intros ?. apply r_bind; intros cs1. apply r_ret.
  cbn [u_enc_start u_enc_len]. exists st, k. repeat split; assumption.
Qed.

Lemma unprotect_post_len u : returns (unprotect_post u) (fun l => l = u64 (u_enc_start u + u_enc_len u)).
Proof. unfold unprotect_post. rwalk; reflexivity. Qed.

Theorem unprotect_length w' l :
  size_ok L -> size_ok C -> unprotect w0 = (w', inl l) ->
  exists st k, pkt_stream (w_s w0) ssrc = Some st /\
               receiver_key st (cur_src (w_b w0)) L (rtp_tag0 st) = Some k /\
               l = L - s_mki_size st - ak_tag (k_rtp_a k) /\ l <= C.
Proof.
  intros HL HC E. unfold unprotect in E. apply bind_inv in E.
  destruct E as [(u & w1 & E1 & E2)|(s & _ & E)]; [|discriminate].
  destruct (hoare_returns _ _ _ _ _ _ unprotect_pre_len_h eq_refl E1) as (st & k & H1 & H2 & H3 & H6 & H7).
  pose proof (unprotect_post_len u _ _ _ E2) as V. cbv beta in V.
  exists st, k. split; [exact H1|]. split; [exact H2|].
  pose proof (pkt_stream_wf _ _ _ HW H1) as W. destruct (receiver_key_wf _ _ _ _ _ W H2) as (_ & [T _] & _).
  destruct W as (M & _ & _). unfold size_ok in HL, HC. rewrite max_tag_value in T. rewrite max_mki_value in M.
  assert (A0 : 0 <= L - s_mki_size st - ak_tag (k_rtp_a k)).
  { destruct (Z_lt_le_dec (L - s_mki_size st - ak_tag (k_rtp_a k)) 0) as [N|]; [|assumption].
    rewrite u64_neg in H7 by lia. lia. }
  rewrite u64_small in H7 by lia.
  (* enc_start + (len - enc_start - mki - tag) mod 2^64, taken mod 2^64, is len - mki - tag
     whatever enc_start is *)
  rewrite H6 in V. unfold u64 in V. rewrite Z.add_mod_idemp_r in V by lia.
  replace (u_enc_start u + (L - u_enc_start u - s_mki_size st - ak_tag (k_rtp_a k)))
    with (L - s_mki_size st - ak_tag (k_rtp_a k)) in V by lia.
  rewrite Z.mod_small in V by lia. lia.
Qed.
End RTP_LEN2.
Print Assumptions unprotect_length.
