(* LengthProofs.v — C11, the length contract of the four packet functions: on success
   protect returns input length + trailer (MKI + tag, + 4 for SRTCP), unprotect returns the
   input length minus that, the result never exceeds *out_len, and a too-small *out_len
   is refused.  The stream and the key are those a direct recomputation from the initial
   session and the packet yields (pkt_stream / sender_key / receiver_key). *)
From Coq Require Import NArith ZArith List Bool Lia.
From Srtp Require Import Util Constants KeyLimit Rdb Rdbx Icm World Stream Rtp Rtcp MonadLemmas EnvelopeProofs WfProofs BoundsRtcp.
Import ListNotations.
Local Open Scope Z_scope.

(* ---- which stream and which key a packet is processed with ---- *)
Definition pkt_stream (s : session) (ssrc : Z) : option stream :=
  match list_get (ss_list s) ssrc with Some st => Some st | None => ss_template s end.
Definition sender_key (st : stream) (mki_index : Z) : option skeys :=
  nth_error (s_keys st) (zn (if s_use_mki st then mki_index else 0)).
(* srcb: the input block; tag0: the tag length of the stream's first key *)
Definition receiver_key (st : stream) (srcb : bytes) (len tag0 : Z) : option skeys :=
  if negb (s_use_mki st) then hd_error (s_keys st)
  else option_map snd (find_mki (s_keys st)
         (slice (zn (len - tag0 - s_mki_size st)) (zn (s_mki_size st)) srcb) 0).
Definition rtp_tag0 (st : stream) : Z := match s_keys st with k0 :: _ => ak_tag (k_rtp_a k0) | [] => 0 end.
Definition rtcp_tag0 (st : stream) : Z := match s_keys st with k0 :: _ => ak_tag (k_rtcp_a k0) | [] => 0 end.

Lemma pkt_stream_wf s x st : session_wf s -> pkt_stream s x = Some st -> stream_wf st.
Proof.
  intros [HT HL] H. unfold pkt_stream in H. destruct (list_get (ss_list s) x) as [s1|] eqn:E.
  - injection H as <-. exact (list_get_SP _ _ _ _ HL E).
  - exact (HT _ H).
Qed.

Definition TT : world -> Prop := fun _ => True.
Lemma tt_any (P : world -> Prop) : forall w, P w -> TT w.
Proof. intros; exact I. Qed.

(* a tail of a computation whose value does not depend on the world *)
Lemma h_returns {A} (P : world -> Prop) (m : M A) (F : A -> Prop) :
  returns m F -> hoare P m (fun a _ => F a) TT.
Proof. intros H w _. specialize (H w). destruct (m w) as [w' [a|st]]; [exact (H w' a eq_refl)|exact I]. Qed.
Lemma hoare_returns {A} (m : M A) (P : world -> Prop) (F : A -> Prop) w w' a :
  hoare P m (fun a _ => F a) TT -> P w -> m w = (w', inl a) -> F a.
Proof. intros H HP E. specialize (H w HP). rewrite E in H. exact H. Qed.

(* predicates that only look at the session *)
Definition sess_only (P : world -> Prop) : Prop := forall w w', w_s w' = w_s w -> P w -> P w'.
Lemma h_sp {A} (P : world -> Prop) (m : M A) : sess_pres m -> sess_only P -> hoare P m (fun _ => P) TT.
Proof.
  intros Hm HP w Hw. specialize (Hm w). destruct (m w) as [w' [a|st]]; [|exact I].
  destruct Hm as [E _]. exact (HP w w' E Hw).
Qed.
Lemma h_sbP {A} (P : world -> Prop) (m : M A) (F : A -> Prop) :
  sb_pres m -> returns m F -> sess_only P -> hoare P m (fun a w => F a /\ P w) TT.
Proof.
  intros Hm Hr HP w Hw. specialize (Hm w). specialize (Hr w). destruct (m w) as [w' [a|st]]; [|exact I].
  cbn [fst] in Hm. split; [exact (Hr w' a eq_refl)|]. exact (HP w w' (proj1 Hm) Hw).
Qed.
Lemma h_check_stP (P : world -> Prop) st : hoare P (check_st st) (fun _ w => st = st_ok /\ P w) TT.
Proof.
  unfold check_st. destruct (st =? st_ok) eqn:E; [apply Z.eqb_eq in E; apply h_ret; auto|apply h_exit; apply tt_any].
Qed.

(* ---- list facts ---- *)
Lemma list_get_ssrc l x st : list_get l x = Some st -> s_ssrc st = x.
Proof.
  induction l as [|s t IH]; cbn; intros H; [discriminate|].
  destruct (s_ssrc s =? x) eqn:E; [injection H as <-; apply Z.eqb_eq; exact E|exact (IH H)].
Qed.
Lemma list_get_replace_same l x st n :
  list_get l x = Some st -> s_ssrc n = x -> list_get (list_replace l x n) x = Some n.
Proof.
  induction l as [|s t IH]; cbn; intros H Hn; [discriminate|].
  destruct (s_ssrc s =? x) eqn:E; cbn.
  - rewrite Hn, Z.eqb_refl. reflexivity.
  - rewrite E. exact (IH H Hn).
Qed.
Lemma list_get_app_new l x n : list_get l x = None -> s_ssrc n = x -> list_get (l ++ [n]) x = Some n.
Proof.
  induction l as [|s t IH]; cbn; intros H Hn.
  - rewrite Hn, Z.eqb_refl. reflexivity.
  - destruct (s_ssrc s =? x); [discriminate|exact (IH H Hn)].
Qed.

(* ---- "the list holds a stream for x whose configuration is c" ---- *)
Definition Sx (x : Z) (c : stream) (w : world) : Prop :=
  exists st, list_get (ss_list (w_s w)) x = Some st /\ cfg_eq c st.
Lemma Sx_sess_only x c : sess_only (Sx x c).
Proof. intros w w' E [st H]. exists st. rewrite E. exact H. Qed.

Lemma insert_or_dealloc_spec s w w' u :
  insert_or_dealloc s w = (w', inl u) ->
  ss_template (w_s w') = ss_template (w_s w) /\ ss_list (w_s w') = ss_list (w_s w) ++ [s].
Proof.
  unfold insert_or_dealloc. intros H. apply bind_inv in H. destruct H as [(st & w1 & H1 & H2)|(s0 & _ & E)]; [|discriminate].
  destruct (st =? st_ok) eqn:ES.
  2:{ apply bind_inv in H2. destruct H2 as [(? & ? & _ & H3)|(? & _ & E)]; discriminate. }
  injection H2 as <- _. apply Z.eqb_eq in ES. subst st.
  unfold list_insert in H1. unfold bind at 1, get_s at 1 in H1.
  destruct (lenZ (ss_list (w_s w)) =? ss_cap (w_s w)).
  - apply bind_inv in H1. destruct H1 as [(ok & w2 & A1 & A2)|(? & _ & E)]; [|discriminate].
    pose proof (sb_alloc1 w) as [E1 _]. rewrite A1 in E1. cbn [fst] in E1.
    destruct ok; cbn [negb] in A2; [|discriminate].
    apply bind_inv in A2. destruct A2 as [(? & w3 & B1 & B2)|(? & _ & E)]; [|discriminate].
    cbn in B2. injection B2 as <-. cbn. auto.
  - cbn in H1. injection H1 as <-. cbn. auto.
Qed.

Lemma lookup_or_clone_Sx x flag w0 :
  hoare (eq w0) (lookup_or_clone x flag)
        (fun r w => r = RList x /\ exists st0, pkt_stream (w_s w0) x = Some st0 /\ Sx x st0 w) TT.
Proof.
  intros w <-. unfold lookup_or_clone. unfold bind at 1, get_s at 1. unfold pkt_stream.
  destruct (list_get (ss_list (w_s w0)) x) as [st|] eqn:E1.
  - cbn. split; [reflexivity|]. exists st. split; [reflexivity|]. exists st. split; [exact E1|apply cfg_eq_refl].
  - destruct (ss_template (w_s w0)) as [t|] eqn:E2; [|exact I].
    unfold bind at 1. destruct (stream_clone t x w0) as [w1 [ns|?]] eqn:EC; [|exact I].
    destruct (r_stream_clone t x w0 w1 ns EC) as [Hc Hx].
    pose proof (sb_stream_clone t x w0) as [S1 _]. rewrite EC in S1. cbn [fst] in S1.
    unfold bind at 1. destruct (insert_or_dealloc ns w1) as [w2 [u|?]] eqn:EI; [|exact I].
    destruct (insert_or_dealloc_spec _ _ _ _ EI) as [_ S2]. rewrite S1 in S2.
    assert (G : list_get (ss_list (w_s w2)) x = Some ns) by (rewrite S2; apply list_get_app_new; assumption).
    destruct flag.
    + unfold bind, put_stream, get_s, put_s. cbn. split; [reflexivity|]. exists t. split; [reflexivity|].
      exists (set_dir ns dir_srtp_sender_c). split; [apply (list_get_replace_same _ _ _ _ G); exact Hx|].
      eapply cfg_eq_trans; [exact Hc|apply cfg_eq_upd].
    + cbn. split; [reflexivity|]. exists t. split; [reflexivity|]. exists ns. auto.
Qed.

Lemma check_direction_Sx x c d : hoare (Sx x c) (check_direction (RList x) d) (fun _ => Sx x c) TT.
Proof.
  intros w [st [Hg Hc]]. cbv beta iota delta [check_direction bind get_stream get_s]. rewrite Hg. cbn.
  destruct (s_dir st =? d); [cbn; exists st; auto|].
  destruct (s_dir st =? dir_unknown_c).
  - unfold put_stream, bind, get_s, put_s. cbn. exists (set_dir st d).
    split; [apply (list_get_replace_same _ _ _ _ Hg); exact (list_get_ssrc _ _ _ Hg)|].
    eapply cfg_eq_trans; [exact Hc|apply cfg_eq_upd].
  - cbn. exists st. auto.
Qed.

Lemma get_stream_Sx x c : hoare (Sx x c) (get_stream (RList x)) (fun st w => cfg_eq c st /\ Sx x c w) TT.
Proof.
  intros w [st [Hg Hc]]. cbv beta iota delta [bind get_stream get_s]. rewrite Hg. cbn. split; [exact Hc|]. exists st. auto.
Qed.

Lemma charge_key_Sx x c i : hoare (Sx x c) (charge_key (RList x) i) (fun _ => Sx x c) TT.
Proof.
  unfold charge_key. eapply h_bind with (R := fun _ => Sx x c).
  - intros w [st [Hg Hc]]. unfold limit_update. unfold bind at 1. unfold get_stream at 1, bind at 1, get_s at 1.
    rewrite Hg. cbn [ret]. destruct (s_clone st).
    + unfold bind at 1. unfold get_stream, bind, get_s. destruct (ss_template (w_s w)) as [t|]; [|exact I]. cbn [ret].
      destruct (nth_error (s_limits t) (zn i)) as [kl|]; [|exact I]. destruct (kl_update kl) as [k' e].
      unfold bind, put_stream, get_s, put_s. cbn. exists st. auto.
    + destruct (nth_error (s_limits st) (zn i)) as [kl|]; [|exact I]. destruct (kl_update kl) as [k' e].
      unfold bind, put_stream, get_s, put_s. cbn. exists (set_limits st (replace_nth (zn i) (s_limits st) k')).
      split; [apply (list_get_replace_same _ _ _ _ Hg); exact (list_get_ssrc _ _ _ Hg)|].
      eapply cfg_eq_trans; [exact Hc|apply cfg_eq_upd].
  - intros e. eapply h_bind; [apply get_stream_Sx|intros st]. apply h_pure; intros _.
    destruct e.
    + apply h_ret; auto.
    + eapply h_post; [apply (h_sbP _ _ (fun _ => True)); [apply sb_emit|intros ? ? ? _; exact I|apply Sx_sess_only]|intros ? ? [_ H]; exact H].
    + eapply h_bind with (R := fun _ => TT); [intros w _; destruct (emit _ _ w) as [? [?|?]]; exact I|intros ?; apply h_exit; auto].
Qed.

Lemma h_ex {A X} (P : X -> world -> Prop) (m : M A) Q E :
  (forall x, hoare (P x) m Q E) -> hoare (fun w => exists x, P x w) m Q E.
Proof. intros H w [x Hx]. exact (H x w Hx). Qed.
Lemma h_get_b_eq w0 : hoare (eq w0) get_b (fun b w => b = w_b w0 /\ w0 = w) TT.
Proof. intros w <-. cbn. auto. Qed.
Lemma r_bind_ret {A B} (a : A) (f : A -> M B) F : returns (f a) F -> returns (bind (ret a) f) F.
Proof. intros H. exact H. Qed.

(* walk to the final `ret` of a tail whose intermediate results do not matter *)
Ltac rwalk := repeat first
  [ apply r_ret
  | apply r_exit
  | apply r_bind_exit
  | match goal with
    | |- returns (bind _ _) _ => apply r_bind; intros ?
    | |- returns (if ?c then _ else _) _ => destruct c
    | |- returns (match ?e with _ => _ end) _ => destruct e
    end ].

Lemma cfg_sender_key st0 st i k :
  cfg_eq st0 st -> nth_error (s_keys st) (zn (if s_use_mki st then i else 0)) = Some k -> sender_key st0 i = Some k.
Proof. intros (K & _ & U & _) H. unfold sender_key. rewrite <- K, <- U. exact H. Qed.

Lemma sender_key_wf st i k : stream_wf st -> sender_key st i = Some k -> key_wf (s_mki_size st) k.
Proof. intros W H. apply (stream_wf_key _ _ W). exact (nth_error_In _ _ H). Qed.

(* ===================================================================== *)
(* SRTCP                                                                  *)
Section RTCP_LEN.
Variable w0 : world.
Let L := b_len (w_b w0).
Let C := b_cap (w_b w0).
Let ssrc := be32 (take (zn L) (cur_src (w_b w0))) 4.

Lemma protect_rtcp_len_h i :
  hoare (eq w0) (protect_rtcp i)
    (fun l _ => exists st k, pkt_stream (w_s w0) ssrc = Some st /\ sender_key st i = Some k /\
                 8 <= L /\ L + 4 + s_mki_size st + ak_tag (k_rtcp_a k) <= C /\
                 l = u64 (L + 4 + s_mki_size st + ak_tag (k_rtcp_a k))) TT.
Proof.
  unfold protect_rtcp.
  eapply h_bind; [apply h_get_b_eq|intros b]. apply h_pure; intros ->.
  cbv beta zeta. fold L C ssrc.
  change octets_in_rtcp_header_c with 8. change trailer_len with 4.
  destruct (L <? 8) eqn:E0; [apply h_bind_exit; apply tt_any|]. apply h_bind_ret. apply Z.ltb_ge in E0.
  eapply h_bind; [apply lookup_or_clone_Sx|intros r]. apply h_pure; intros ->.
  apply h_ex; intros st0. apply h_pure; intros Hst0.
  eapply h_bind; [apply check_direction_Sx|intros ?].
  eapply h_bind; [apply get_stream_Sx|intros st]. apply h_pure; intros Hc.
  apply h_returns.
  eapply r_bind2; [apply r_keys_by_index|intros [ki k] Hk]. cbn [snd] in Hk.
  destruct (C <? L + 4 + s_mki_size st + ak_tag (k_rtcp_a k)) eqn:E1; [apply r_bind_exit|]. apply r_bind_ret.
  apply Z.ltb_ge in E1.
  rwalk.
  exists st0, k. pose proof Hc as (_ & M & _ & _). rewrite M in *.
  split; [exact Hst0|]. split; [exact (cfg_sender_key _ _ _ _ Hc Hk)|]. split; [exact E0|]. split; [exact E1|].
  f_equal. lia.
Qed.

Theorem protect_rtcp_length i w' l :
  session_wf (w_s w0) -> size_ok C -> protect_rtcp i w0 = (w', inl l) ->
  exists st k, pkt_stream (w_s w0) ssrc = Some st /\ sender_key st i = Some k /\
               l = L + 4 + s_mki_size st + ak_tag (k_rtcp_a k) /\ l <= C.
Proof.
  intros HW HC E. destruct (hoare_returns _ _ _ _ _ _ (protect_rtcp_len_h i) eq_refl E) as (st & k & H1 & H2 & H3 & H4 & H5).
  exists st, k. split; [exact H1|]. split; [exact H2|].
  pose proof (pkt_stream_wf _ _ _ HW H1) as W. destruct (sender_key_wf _ _ _ W H2) as (_ & _ & [T _]).
  destruct W as (M & _). unfold size_ok in HC. rewrite u64_small in H5 by lia. lia.
Qed.

Theorem protect_rtcp_small_buffer_refused i st k :
  pkt_stream (w_s w0) ssrc = Some st -> sender_key st i = Some k ->
  C < L + 4 + s_mki_size st + ak_tag (k_rtcp_a k) ->
  forall w' l, protect_rtcp i w0 <> (w', inl l).
Proof.
  intros H1 H2 HS w' l E.
  destruct (hoare_returns _ _ _ _ _ _ (protect_rtcp_len_h i) eq_refl E) as (st' & k' & G1 & G2 & _ & G4 & _).
  rewrite H1 in G1. injection G1 as <-. rewrite H2 in G2. injection G2 as <-. lia.
Qed.
End RTCP_LEN.
