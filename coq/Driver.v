(* Driver.v — the executable entry point of the model for the correspondence
   check: one operation in, new state and a list of output values out.  The
   OCaml driver (harness/mdrv.ml) only parses script lines and prints values. *)
From Coq Require Import NArith ZArith List Bool.
From Srtp Require Import Util Constants KeyLimit Rdb Rdbx Icm World Stream Rtp Rtcp Aead Session StdPolicy.
From Srtp.Crypto Require Import AES SHA1 HMAC.
From Srtp.Spec Require Rfc3711.
From Srtp Require BitvecModel EqualModel Sha1Model HmacModel WipeModel.
Import ListNotations.
Local Open Scope Z_scope.

Inductive outv := OZ (z : Z) | OB (b : bytes) | ON (n : N).

Record mstate := {
  ms_kl : klimit;
  ms_rdb : rdb;
  ms_rdbx : rdbx;
  ms_pol : list (Z * policy);
  ms_ses : list (Z * session);
  ms_heap : heap
}.

Definition ms_init : mstate :=
  {| ms_kl := {| num_left := 0; kst := KNormal |};
     ms_rdb := rdb_init;
     ms_rdbx := {| index := 0; wlen := 128; mask := 0%N |};
     ms_pol := []; ms_ses := [];
     ms_heap := {| h_live := 0; h_att := 0; h_fail := 0; h_frees := 0; h_dirty := 0 |} |}.

Definition mk (m : mstate) k r x pol ses h :=
  {| ms_kl := k; ms_rdb := r; ms_rdbx := x; ms_pol := pol; ms_ses := ses; ms_heap := h |}.
Definition set_kl (m : mstate) k := mk m k (ms_rdb m) (ms_rdbx m) (ms_pol m) (ms_ses m) (ms_heap m).
Definition set_rdb (m : mstate) r := mk m (ms_kl m) r (ms_rdbx m) (ms_pol m) (ms_ses m) (ms_heap m).
Definition set_rdbx (m : mstate) r := mk m (ms_kl m) (ms_rdb m) r (ms_pol m) (ms_ses m) (ms_heap m).
Definition set_pol (m : mstate) p := mk m (ms_kl m) (ms_rdb m) (ms_rdbx m) p (ms_ses m) (ms_heap m).
Definition set_ses (m : mstate) ss h := mk m (ms_kl m) (ms_rdb m) (ms_rdbx m) (ms_pol m) ss h.

Definition arg (l : list Z) (i : nat) : Z := nth i l 0.
Definition kst_of (z : Z) : kstate := if z =? 0 then KNormal else if z =? 1 then KPastSoft else KExpired.

(* opcodes: must agree with harness/mdrv.ml and harness/cdrv.c *)
Definition run_leaf (m : mstate) (code : Z) (a : list Z) (b : list bytes) : mstate * list outv :=
  let k := ms_kl m in let r := ms_rdb m in let x := ms_rdbx m in
  if code =? 1 then (* kl_set v *)
    match kl_set (arg a 0) with
    | Some k' => (set_kl m k', [OZ st_ok; OZ (num_left k'); OZ (kstate_code (kst k'))])
    | None => (m, [OZ st_bad_param; OZ (num_left k); OZ (kstate_code (kst k))])
    end
  else if code =? 2 then (* kl_poke v st *)
    (set_kl m {| num_left := arg a 0; kst := kst_of (arg a 1) |}, [])
  else if code =? 3 then (* kl_upd *)
    let '(k', e) := kl_update k in
    (set_kl m k', [OZ (kevent_code e); OZ (num_left k'); OZ (kstate_code (kst k'))])
  else if code =? 10 then (set_rdb m rdb_init, [])
  else if code =? 11 then (* rdb_poke ws mask *)
    (set_rdb m {| wstart := arg a 0; bitmask := be_val (nth 0 b []) |}, [])
  else if code =? 12 then (m, [OZ (rdb_check r (arg a 0))])
  else if code =? 13 then
    let '(s, r') := rdb_add r (arg a 0) in
    (set_rdb m r', [OZ s; OZ (wstart r'); ON (bitmask r')])
  else if code =? 14 then
    let '(s, r') := rdb_incr r in (set_rdb m r', [OZ s; OZ (wstart r')])
  else if code =? 20 then (* rdbx_init ws *)
    match rdbx_init (arg a 0) with
    | Some x' => (set_rdbx m x', [OZ st_ok; OZ (wlen x')])
    | None => (m, [OZ st_bad_param; OZ 0])
    end
  else if code =? 21 then (* rdbx_poke index mask *)
    (set_rdbx m {| index := arg a 0; wlen := wlen x; mask := be_val (nth 0 b []) |}, [])
  else if code =? 22 then let '(e, d) := estimate x (arg a 0) in (m, [OZ e; OZ d])
  else if code =? 23 then
    let '(s, e, d) := estimate_pending x (arg a 0) (arg a 1) in (m, [OZ s; OZ e; OZ d])
  else if code =? 24 then (m, [OZ (rdbx_check x (arg a 0))])
  else if code =? 25 then
    let x' := rdbx_add x (arg a 0) in (set_rdbx m x', [OZ (index x'); ON (mask x')])
  else if code =? 26 then
    let '(s, x') := set_roc_seq x (arg a 0) (arg a 1) in
    (set_rdbx m x', [OZ s; OZ (index x'); ON (mask x')])
  else if code =? 27 then
    let '(g, d) := index_guess (arg a 0) (arg a 1) in (m, [OZ g; OZ d])
  else (m, [OZ (-1)]).


(* ---- association lists ---- *)
Fixpoint assoc {A} (l : list (Z * A)) (k : Z) : option A :=
  match l with [] => None | (k', v) :: t => if k' =? k then Some v else assoc t k end.
Fixpoint assoc_del {A} (l : list (Z * A)) (k : Z) : list (Z * A) :=
  match l with [] => [] | (k', v) :: t => if k' =? k then assoc_del t k else (k', v) :: assoc_del t k end.
Definition assoc_set {A} (l : list (Z * A)) (k : Z) (v : A) : list (Z * A) := (k, v) :: assoc_del l k.

Definition zb (z : Z) : bool := negb (z =? 0).

Fixpoint pair_up (l : list bytes) : list (bytes * bytes) :=
  match l with
  | k :: m :: t => (k, m) :: pair_up t
  | _ => []
  end.

Definition parse_cpol (a : list Z) (o : nat) : cpolicy :=
  {| cp_cipher := arg a o; cp_keylen := arg a (o + 1); cp_auth := arg a (o + 2);
     cp_authkeylen := arg a (o + 3); cp_taglen := arg a (o + 4); cp_serv := arg a (o + 5) |}.
Definition parse_policy (a : list Z) (b : list bytes) : policy :=
  {| p_ssrc_type := arg a 1; p_ssrc := arg a 2;
     p_rtp := parse_cpol a 3; p_rtcp := parse_cpol a 9;
     p_usekey := zb (arg a 15) && negb (match pair_up (tl b) with [] => true | _ => false end);
     p_nkeys := arg a 16; p_use_mki := zb (arg a 17); p_mki_size := arg a 18;
     p_window := arg a 19; p_allow_repeat := zb (arg a 20); p_cryptex := zb (arg a 21);
     p_enc_xtn := nth 0 b []; p_keys := pair_up (tl b) |}.

Fixpoint lookup_pols (pols : list (Z * policy)) (ids : list Z) : list policy :=
  match ids with
  | [] => []
  | i :: t => match assoc pols i with Some p => p :: lookup_pols pols t | None => lookup_pols pols t end
  end.

Definition empty_bufs : bufs := {| b_src := []; b_dst := []; b_alias := true; b_len := 0; b_cap := 0; b_oob := false |}.
Definition empty_session : session := {| ss_template := None; ss_list := []; ss_cap := 0 |}.

Definition mk_world (s : session) (b : bufs) (h : heap) : world :=
  {| w_s := s; w_b := b; w_ev := []; w_iv := []; w_h := h |}.

Definition status_of {A} (r : A + Z) : Z := match r with inl _ => st_ok | inr st => st end.

(* run a session-API action on session sid; the session is stored back whatever the status *)
Definition on_session {A} (m : mstate) (sid : Z) (act : M A) (outs : world -> A + Z -> list outv)
  : mstate * list outv :=
  match assoc (ms_ses m) sid with
  | None => (m, [OZ (-2)])
  | Some s =>
    let '(w, r) := act (mk_world s empty_bufs (ms_heap m)) in
    (set_ses m (assoc_set (ms_ses m) sid (w_s w)) (w_h w), outs w r)
  end.

Fixpoint fill_pattern (n : nat) (i : Z) : bytes :=
  match n with O => [] | S n' => Z.to_N ((165 + 7 * i) mod 256) :: fill_pattern n' (i + 1) end.
Fixpoint ev_bytes (l : list (Z * Z)) : bytes :=
  match l with [] => [] | (e, s) :: t => Z.to_N e :: be_bytes 4 (Z.to_N s) ++ ev_bytes t end.

Definition packet_op (m : mstate) (kind : Z) (a : list Z) (b : list bytes) : mstate * list outv :=
  let sid := arg a 0 in let mki_index := arg a 1 in let cap := arg a 2 in let mode := arg a 3 in
  let pkt := nth 0 b [] in
  let len := lenZ pkt in
  match assoc (ms_ses m) sid with
  | None => (m, [OZ (-2)])
  | Some s =>
    let dst0 :=
      if mode =? 0 then pkt ++ repeat 90%N (zn (cap - len))
      else if mode =? 1 then zeros (zn cap)
      else if mode =? 2 then fill_pattern (zn cap) 0
      else take (zn cap) (pkt ++ repeat 51%N (zn (cap - len))) in
    let bf := {| b_src := (if mode =? 0 then [] else pkt); b_dst := dst0; b_alias := (mode =? 0);
                 b_len := len; b_cap := cap; b_oob := false |} in
    (* the four API functions incl. their AEAD dispatch (Aead.v); without a GCM-capable back end these ARE
       protect / unprotect / protect_rtcp / unprotect_rtcp *)
    let act := if kind =? 0 then protect_any mki_index else if kind =? 1 then unprotect_any
               else if kind =? 2 then protect_rtcp_any mki_index else unprotect_rtcp_any in
    let '(w, r) := act (mk_world s bf (ms_heap m)) in
    let m' := set_ses m (assoc_set (ms_ses m) sid (w_s w)) (w_h w) in
    let st := if b_oob (w_b w) then st_model_oob else status_of r in
    let dst := b_dst (w_b w) in
    let guard_ok := beqb (drop (zn cap) dst) (drop (zn cap) dst0) in
    (m', [OZ st;
          OZ (match r with inl l => if st =? st_ok then l else 0 | inr _ => 0 end);
          OB (match r with inl l => if st =? st_ok then take (zn l) dst else [] | inr _ => [] end);
          OZ 1; OZ (if guard_ok then 1 else 0);
          OB (ev_bytes (w_ev w)); OB (concat (w_iv w))])
  end.

Definition pick_stream (s : session) (which ssrc : Z) : option stream :=
  if which =? 1 then ss_template s else list_get (ss_list s) ssrc.
Definition store_stream (s : session) (which ssrc : Z) (n : stream) : session :=
  if which =? 1 then {| ss_template := Some n; ss_list := ss_list s; ss_cap := ss_cap s |}
  else {| ss_template := ss_template s; ss_list := list_replace (ss_list s) ssrc n; ss_cap := ss_cap s |}.

(* the key limits a stream uses: its own, or the template's for a clone *)
Definition limits_of (s : session) (t : stream) : list klimit :=
  if s_clone t then match ss_template s with Some tpl => s_limits tpl | None => [] end else s_limits t.

Definition run_api (m : mstate) (code : Z) (a : list Z) (b : list bytes) : mstate * list outv :=
  if code =? 50 then (set_pol m (assoc_set (ms_pol m) (arg a 0) (parse_policy a b)), [])
  else if code =? 51 then (* create sid pids.. *)
    let ps := lookup_pols (ms_pol m) (tl a) in
    let '(w, r) := session_create ps (mk_world empty_session empty_bufs (ms_heap m)) in
    match r with
    | inl _ => (set_ses m (assoc_set (ms_ses m) (arg a 0) (w_s w)) (w_h w), [OZ st_ok])
    | inr st => (set_ses m (assoc_del (ms_ses m) (arg a 0)) (w_h w), [OZ st])
    end
  else if code =? 52 then
    match assoc (ms_pol m) (arg a 1) with
    | Some p => on_session m (arg a 0) (stream_add p) (fun _ r => [OZ (status_of r)])
    | None => on_session m (arg a 0) (exit_with st_bad_param : M unit) (fun _ r => [OZ (status_of r)])
    end
  else if code =? 53 then on_session m (arg a 0) (stream_remove (arg a 1)) (fun _ r => [OZ (status_of r)])
  else if code =? 54 then
    on_session m (arg a 0) (session_update (lookup_pols (ms_pol m) (tl a))) (fun _ r => [OZ (status_of r)])
  else if code =? 68 then
    match assoc (ms_pol m) (arg a 1) with
    | Some p => on_session m (arg a 0) (stream_update p) (fun _ r => [OZ (status_of r)])
    | None => on_session m (arg a 0) (exit_with st_bad_param : M unit) (fun _ r => [OZ (status_of r)])
    end
  else if code =? 55 then
    match assoc (ms_ses m) (arg a 0) with
    | None => (m, [OZ (-2)])
    | Some s =>
      let '(w, r) := session_dealloc (mk_world s empty_bufs (ms_heap m)) in
      (set_ses m (assoc_del (ms_ses m) (arg a 0)) (w_h w), [OZ (status_of r)])
    end
  else if code =? 56 then packet_op m 0 a b
  else if code =? 57 then packet_op m 1 a b
  else if code =? 58 then packet_op m 2 a b
  else if code =? 59 then packet_op m 3 a b
  else if code =? 60 then on_session m (arg a 0) (set_roc (arg a 1) (arg a 2)) (fun _ r => [OZ (status_of r)])
  else if code =? 61 then
    on_session m (arg a 0) (get_roc (arg a 1))
      (fun _ r => match r with inl v => [OZ st_ok; OZ v] | inr st => [OZ st; OZ 0] end)
  else if code =? 62 then
    on_session m (arg a 0) (trailer_length (zb (arg a 1)) (arg a 2))
      (fun _ r => match r with inl v => [OZ st_ok; OZ v] | inr st => [OZ st; OZ 0] end)
  else if (code =? 63) || (code =? 64) || (code =? 65) then
    match assoc (ms_ses m) (arg a 0) with
    | None => (m, [OZ (-1)])
    | Some s =>
      match pick_stream s (arg a 1) (arg a 2) with
      | None => (m, [OZ (-1)])
      | Some t =>
        if code =? 63 then
          (* poke_limit sid which ssrc keyidx num_left state; a clone's limit lives in the template *)
          let kl := {| num_left := arg a 4; kst := kst_of (arg a 5) |} in
          if s_clone t then
            match ss_template s with
            | Some tpl =>
              if arg a 3 <? lenZ (s_limits tpl) then
                (set_ses m (assoc_set (ms_ses m) (arg a 0)
                   (store_stream s 1 0 (set_limits tpl (replace_nth (zn (arg a 3)) (s_limits tpl) kl)))) (ms_heap m), [OZ 0])
              else (m, [OZ (-1)])
            | None => (m, [OZ (-1)])
            end
          else if arg a 3 <? lenZ (s_limits t) then
            (set_ses m (assoc_set (ms_ses m) (arg a 0)
               (store_stream s (arg a 1) (arg a 2) (set_limits t (replace_nth (zn (arg a 3)) (s_limits t) kl)))) (ms_heap m), [OZ 0])
          else (m, [OZ (-1)])
        else if code =? 64 then
          (set_ses m (assoc_set (ms_ses m) (arg a 0)
             (store_stream s (arg a 1) (arg a 2) (World.set_rdb t {| wstart := arg a 3; bitmask := bitmask (s_rdb t) |}))) (ms_heap m), [OZ 0])
        else
          (set_ses m (assoc_set (ms_ses m) (arg a 0)
             (store_stream s (arg a 1) (arg a 2)
                (World.set_rdbx t {| index := arg a 3; wlen := wlen (s_rdbx t); mask := mask (s_rdbx t) |}))) (ms_heap m), [OZ 0])
      end
    end
  else if code =? 67 then (* peek sid which ssrc *)
    match assoc (ms_ses m) (arg a 0) with
    | None => (m, [OZ (-1)])
    | Some s =>
      match pick_stream s (arg a 1) (arg a 2) with
      | None => (m, [OZ (-1)])
      | Some t =>
        let l0 := nth 0 (limits_of s t) {| num_left := 0; kst := KNormal |} in
        (m, [OZ 0; OZ (index (s_rdbx t)); OZ (wlen (s_rdbx t)); ON (mask (s_rdbx t));
             OZ (wstart (s_rdb t)); ON (bitmask (s_rdb t)); OZ (s_pending_roc t); OZ (s_dir t);
             OZ (num_left l0); OZ (kstate_code (kst l0))])
      end
    end
  else if code =? 69 then
    match assoc (ms_ses m) (arg a 0) with
    | None => (m, [OZ 0; OZ 0])
    | Some s => (m, [OZ (lenZ (ss_list s)); OZ (match ss_template s with Some _ => 1 | None => 0 end)])
    end
  else if code =? 66 then
    let h := ms_heap m in
    (set_ses m (ms_ses m) {| h_live := h_live h; h_att := h_att h; h_fail := arg a 0; h_frees := h_frees h; h_dirty := h_dirty h |}, [])
  else if code =? 73 then
    let h := ms_heap m in
    (set_ses m (ms_ses m) {| h_live := h_live h; h_att := 0; h_fail := 0; h_frees := 0; h_dirty := h_dirty h |},
     [OZ (h_live h); OZ (h_att h); OZ (h_frees h); OZ (h_dirty h)])
  else if code =? 74 then (m, [])
  else if code =? 75 then (* mktag sid which ssrc keyidx is_rtcp | msg *)
    match assoc (ms_ses m) (arg a 0) with
    | None => (m, [OZ 0; OZ 0; OB []])
    | Some s =>
      match pick_stream s (arg a 1) (arg a 2) with
      | None => (m, [OZ 0; OZ 0; OB []])
      | Some t =>
        match nth_error (s_keys t) (zn (arg a 3)) with
        | None => (m, [OZ 0; OZ 0; OB []])
        | Some k =>
          let ak := if zb (arg a 4) then k_rtcp_a k else k_rtp_a k in
          (m, [OZ 0; OZ 0; OB (if (arg a 3 <? 0) then [] else auth_compute ak (nth 0 b []))])
        end
      end
    end
  else if code =? 77 then (* dealloc_trace sid : srtp_dealloc + the wipes / frees it performs, in order *)
    match assoc (ms_ses m) (arg a 0) with
    | None => (m, [OZ (-2); OB []])
    | Some s =>
      let '(w, r) := session_dealloc (mk_world s empty_bufs (ms_heap m)) in
      (set_ses m (assoc_del (ms_ses m) (arg a 0)) (w_h w),
       [OZ (status_of r); OB (flat_map WipeModel.hev_bytes (WipeModel.session_dealloc_events s))])
    end
  else if code =? 78 then (* remove_trace sid ssrc *)
    match assoc (ms_ses m) (arg a 0) with
    | None => (m, [OZ (-2); OB []])
    | Some s =>
      let evs := match list_get (ss_list s) (arg a 1) with
                 | Some t => flat_map WipeModel.hev_bytes (WipeModel.stream_dealloc_events 1 t)
                 | None => [] end in
      let '(w, r) := stream_remove (arg a 1) (mk_world s empty_bufs (ms_heap m)) in
      (set_ses m (assoc_set (ms_ses m) (arg a 0) (w_s w)) (w_h w), [OZ (status_of r); OB evs])
    end
  else if code =? 76 then
    (* secrets pid : the byte strings that must never be readable in a block handed back to the allocator:
       session encryption keys, salts, the HMAC outer-pad block prefix (auth key xor 0x5c), MKI values *)
    match assoc (ms_pol m) (arg a 0) with
    | None => (m, [])
    | Some p =>
      let one (km : bytes * bytes) : list outv :=
        match derive_keys_any p (fst km) (snd km) with
        | (_, Some d) =>
          let k := d_keys d in
          let ckey_secret (c : ckey) := take (zn (ck_klen c - SRTP_SALT_LEN_c)) (concat (ck_rks c)) in
          let akey_secret (x : akey) := map (fun b => N.lxor b 92) (ak_key x) in
          [OB (ckey_secret (k_rtp_c k)); OB (ck_salt (k_rtp_c k)); OB (akey_secret (k_rtp_a k));
           OB (ckey_secret (k_rtcp_c k)); OB (ck_salt (k_rtcp_c k)); OB (akey_secret (k_rtcp_a k));
           OB (match k_xtn_c k with Some c => ckey_secret c | None => [] end);
           OB (match k_xtn_c k with Some c => ck_salt c | None => [] end);
           OB (k_salt k); OB (k_csalt k);
           OB (snd km)]
        | _ => []
        end in
      (m, flat_map one (if p_usekey p then take 1 (p_keys p) else take (zn (p_nkeys p)) (p_keys p)))
    end
  else if (code =? 70) || (code =? 71) then
    (* spec_rtp / spec_rtcp  conf auth tag roc|index | mkey msalt mki xtn_ids pkt : the RFC specification's packet *)
    let q := {| Rfc3711.rp_mkey := nth 0 b []; Rfc3711.rp_msalt := nth 1 b [];
                Rfc3711.rp_conf := zb (Z.land (arg a 0) 1); Rfc3711.rp_null := zb (Z.land (arg a 0) 2); Rfc3711.rp_auth := zb (arg a 1); Rfc3711.rp_tag := zn (arg a 2);
                Rfc3711.rp_mki := nth 2 b []; Rfc3711.rp_xtn_ids := nth 3 b [] |} in
    (m, [OZ 0; OZ 0; OB (if code =? 70 then Rfc3711.srtp_protect q (Z.to_N (arg a 3)) (nth 4 b [])
                         else Rfc3711.srtcp_protect q (Z.to_N (arg a 3)) (nth 4 b []))])
  else if (code =? 79) || (code =? 80) then
    (* stdpol n / profpol profile is_rtcp : the six fields the setter leaves in a zeroed srtp_crypto_policy_t *)
    let r := if code =? 79 then std_policy (arg a 0) else profile_policy (arg a 0) (zb (arg a 1)) in
    match r with
    | Some c => (m, [OZ st_ok; OZ (cp_cipher c); OZ (cp_keylen c); OZ (cp_auth c); OZ (cp_authkeylen c); OZ (cp_taglen c); OZ (cp_serv c)])
    | None => (m, [OZ st_bad_param])
    end
  else if code =? 81 then (m, [OZ (profile_key_len (arg a 0)); OZ (profile_salt_len (arg a 0))])
  else if code =? 72 then
    (* spec_kdf label n | mkey msalt *)
    (m, [OZ 0; OZ 0; OB (Rfc3711.kdf (nth 0 b []) (nth 1 b []) (Z.to_N (arg a 0)) (zn (arg a 1)))])
  else (m, [OZ (-1)]).

(* ---- crypto-kernel leaf operations (C18): the word- / chunk-level models of the C loops ---- *)
(* split data into chunks of the given sizes, the remainder last (sizes clipped to what is left) *)
Fixpoint chunks_of (sizes : list Z) (d : bytes) : list bytes :=
  match sizes with
  | [] => match d with [] => [] | _ => [d] end
  | n :: t => match d with
              | [] => []
              | _ => let k := Nat.min (zn n) (length d) in take k d :: chunks_of t (drop k d)
              end
  end.

(* big-endian hex number -> n little-endian 32-bit words *)
Fixpoint words_of (n : nat) (x : N) : list N :=
  match n with O => [] | S n' => (x mod 4294967296)%N :: words_of n' (x / 4294967296)%N end.

Fixpoint icm_chunks (rks : list bytes) (c : icm) (cs : list bytes) (acc : bytes) : Z * bytes :=
  match cs with
  | [] => (st_ok, acc)
  | d :: t => let '(s, c', o) := icm_encrypt (aes_encrypt_rk rks) c d in
              if s =? st_ok then icm_chunks rks c' t (acc ++ o) else (s, acc)
  end.

Definition run_kernel (m : mstate) (code : Z) (a : list Z) (b : list bytes) : mstate * list outv :=
  if code =? 30 then (* aes | key block *)
    let key := nth 0 b [] in
    if (lenZ key =? 16) || (lenZ key =? 24) || (lenZ key =? 32) then
      (m, [OZ st_ok; OB (aes_encrypt key (take 16 (nth 1 b [] ++ zeros 16)))])
    else (m, [OZ st_bad_param; OB (take 16 (nth 1 b [] ++ zeros 16))])
  else if code =? 33 then (* icm misalign chunk.. | key iv data *)
    let key := nth 0 b [] in
    let klen := lenZ key in
    if (klen =? SRTP_AES_ICM_128_KEY_LEN_WSALT_c) || (klen =? SRTP_AES_ICM_256_KEY_LEN_WSALT_c) then
      let k := cipher_key (cipher_alg_of SRTP_AES_ICM_128_c klen) klen key in
      let c0 := icm_set_iv (icm_init (ck_salt k)) (nth 1 b []) in
      let '(s, o) := icm_chunks (ck_rks k) c0 (chunks_of (tl a) (nth 2 b [])) [] in
      (m, [OZ s; OB o])
    else (m, [OZ st_bad_param])
  else if code =? 34 then (* sha1 chunk.. | msg *)
    let c := fold_left (Sha1Model.sha1m_update sha1_compress) (chunks_of a (nth 0 b [])) Sha1Model.sha1m_init in
    (m, [OB (sha1_words_to_bytes (Sha1Model.sha1m_final sha1_compress c))])
  else if code =? 35 then (* hmac taglen chunk.. | key msg *)
    let key := nth 0 b [] in
    let tl_ := arg a 0 in
    if (hmac_max_key_c <? lenZ key) || (hmac_max_out_c <? tl_) then (m, [OZ st_bad_param])
    else
      match HmacModel.hmac_init sha1_compress key with
      | None => (m, [OZ st_bad_param])
      | Some st0 =>
        let cs := chunks_of (tl a) (nth 1 b []) in
        (* the driver feeds every chunk but the last through update and the last through compute;
           when the chunk sizes cover the whole message the last compute gets the empty remainder *)
        let sizes_total := fold_left Z.add (tl a) 0 in
        let '(upd, last) :=
          if lenZ (nth 1 b []) <=? sizes_total then (cs, [])
          else (removelast cs, last cs []) in
        match HmacModel.hmac_compute sha1_compress (fold_left (HmacModel.hmac_update sha1_compress) upd (HmacModel.hmac_start st0)) last (zn tl_) with
        | Some (_, tag) => (m, [OZ st_ok; OB tag])
        | None => (m, [OZ st_bad_param; OB []])
        end
      end
  else if code =? 36 then (* oct_eq | a b *)
    let x := nth 0 b [] in let y := nth 1 b [] in
    let n := Nat.min (length x) (length y) in
    (m, [OZ (if EqualModel.oct_equal_sse2 x y n then 1 else 0)])
  else if code =? 37 then (* v128_shift s | value *)
    (m, [ON (BitvecModel.pack (BitvecModel.v128_left_shift (words_of 4 (be_val (nth 0 b []))) (Z.to_N (arg a 0))))])
  else if code =? 38 then (* bv_shift len s | value *)
    let len := arg a 0 in
    let nw := zn ((len + 31) / 32) in
    if Nat.eqb nw 0 then (m, [OZ (-1)])
    else (m, [OZ (32 * Z.of_nat nw);
              ON (BitvecModel.pack (BitvecModel.bv_left_shift (words_of nw (be_val (nth 0 b []))) (Z.to_N (arg a 1))))])
  else (m, [OZ (-1)]).

Definition run_op (m : mstate) (code : Z) (a : list Z) (b : list bytes) : mstate * list outv :=
  if code <? 30 then run_leaf m code a b
  else if code <? 50 then run_kernel m code a b
  else run_api m code a b.

