(* Driver.v — the executable entry point of the model for the correspondence
   check: one operation in, new state and a list of output values out.  The
   OCaml driver (harness/mdrv.ml) only parses script lines and prints values. *)
From Coq Require Import NArith ZArith List Bool.
From Srtp Require Import Util Constants KeyLimit Rdb Rdbx.
Import ListNotations.
Local Open Scope Z_scope.

Inductive outv := OZ (z : Z) | OB (b : bytes) | ON (n : N).

Record mstate := {
  ms_kl : klimit;
  ms_rdb : rdb;
  ms_rdbx : rdbx
}.

Definition ms_init : mstate :=
  {| ms_kl := {| num_left := 0; kst := KNormal |};
     ms_rdb := rdb_init;
     ms_rdbx := {| index := 0; wlen := 128; mask := 0%N |} |}.

Definition set_kl (m : mstate) k := {| ms_kl := k; ms_rdb := ms_rdb m; ms_rdbx := ms_rdbx m |}.
Definition set_rdb (m : mstate) r := {| ms_kl := ms_kl m; ms_rdb := r; ms_rdbx := ms_rdbx m |}.
Definition set_rdbx (m : mstate) r := {| ms_kl := ms_kl m; ms_rdb := ms_rdb m; ms_rdbx := r |}.

Definition arg (l : list Z) (i : nat) : Z := nth i l 0.
Definition kst_of (z : Z) : kstate := if z =? 0 then KNormal else if z =? 1 then KPastSoft else KExpired.

(* opcodes: must agree with harness/mdrv.ml and harness/cdrv.c *)
Definition run_leaf (m : mstate) (code : Z) (a : list Z) (b : list bytes) : mstate * list outv :=
  let k := ms_kl m in let r := ms_rdb m in let x := ms_rdbx m in
  if code =? 1 then (* kl_set v *)
    match kl_set (arg a 0) with
    | Some k' => (set_kl m k', [OZ st_ok; OZ (num_left k'); OZ (kstate_code (kst k'))])
    | None => (m, [OZ st_bad_param; OZ (num_left k); OZ (kstate_code (kst k))])
    end
  else if code =? 2 then (* kl_poke v st *)
    (set_kl m {| num_left := arg a 0; kst := kst_of (arg a 1) |}, [])
  else if code =? 3 then (* kl_upd *)
    let '(k', e) := kl_update k in
    (set_kl m k', [OZ (kevent_code e); OZ (num_left k'); OZ (kstate_code (kst k'))])
  else if code =? 10 then (set_rdb m rdb_init, [])
  else if code =? 11 then (* rdb_poke ws mask *)
    (set_rdb m {| wstart := arg a 0; bitmask := be_val (nth 0 b []) |}, [])
  else if code =? 12 then (m, [OZ (rdb_check r (arg a 0))])
  else if code =? 13 then
    let '(s, r') := rdb_add r (arg a 0) in
    (set_rdb m r', [OZ s; OZ (wstart r'); ON (bitmask r')])
  else if code =? 14 then
    let '(s, r') := rdb_incr r in (set_rdb m r', [OZ s; OZ (wstart r')])
  else if code =? 20 then (* rdbx_init ws *)
    match rdbx_init (arg a 0) with
    | Some x' => (set_rdbx m x', [OZ st_ok; OZ (wlen x')])
    | None => (m, [OZ st_bad_param; OZ 0])
    end
  else if code =? 21 then (* rdbx_poke index mask *)
    (set_rdbx m {| index := arg a 0; wlen := wlen x; mask := be_val (nth 0 b []) |}, [])
  else if code =? 22 then let '(e, d) := estimate x (arg a 0) in (m, [OZ e; OZ d])
  else if code =? 23 then
    let '(s, e, d) := estimate_pending x (arg a 0) (arg a 1) in (m, [OZ s; OZ e; OZ d])
  else if code =? 24 then (m, [OZ (rdbx_check x (arg a 0))])
  else if code =? 25 then
    let x' := rdbx_add x (arg a 0) in (set_rdbx m x', [OZ (index x'); ON (mask x')])
  else if code =? 26 then
    let '(s, x') := set_roc_seq x (arg a 0) (arg a 1) in
    (set_rdbx m x', [OZ s; OZ (index x'); ON (mask x')])
  else if code =? 27 then
    let '(g, d) := index_guess (arg a 0) (arg a 1) in (m, [OZ g; OZ d])
  else (m, [OZ (-1)]).

Definition run_op := run_leaf.
